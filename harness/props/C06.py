"""C06 - a serialized task id continues the same tree in another thread or process.

Three ties + oracles (all oracles are model-free, on observations of the real code):

(a) string form: real `TaskLevel.toString/fromString`, `Action.serialize_task_id`, `Action.continue_task`
    (bytes and text) against Eliot/Model/Level.lean (Driver/C06.lean) on generated levels (empty, long,
    components 0 .. 10**20), uuids (uuid4-shaped and adversarial ASCII, a few non-ASCII) and malformed strings.
    Oracle: fromString(toString(l)) == l; ids returned by one action pairwise distinct; continue_task given the
    bytes and given the text starts an action with the origin's uuid at exactly the encoded level.
(b) hand-off programs: generated programs that hand work over at arbitrary points and depths (<= 4 hops, each id
    used once, ids passed as bytes and as text, via continue_task and via preserve_context); every side runs in
    its own real threading.Thread and logs to its own destination (a real FileDestination on a BytesIO, or a
    list); the separate logs are merged in several orders and parsed with the real eliot.parse.Parser.
    Oracle: ids pairwise distinct; every remote message carries the origin's task_uuid and a task_level
    extending the reserved level, which is a position of the originating action used by no other side; every
    merge order parses to the same single complete task per origin tree, in which the remote action is the child
    of the originating action at exactly the reserved position; result / exception of the function pass through
    the preserve_context callable, a second call raises TooManyCalls.
    Failing destinations: in 40% of the programs a second registered destination raises on chosen calls (in
    particular on the start / end message of a continued action); the per-side destinations are the healthy view.
    Oracle there as well: nothing is logged inside an action after its end message, every merge still parses to
    the same complete tree per origin; failure reports are extra messages of the *enclosing* context (one-message
    tasks of their own when there is none, as in a fresh thread) - their exact placement is the core-model tie.
    Ties: the sequentialised program on the core model (Driver/Sys.lean: `.serializeAs`/`.continueWith`) emits the
    same messages; the parser model (Driver/C09.lean) yields the same tasks on the same merge orders.
(c) preserve_context alone: identity without a current action; pass-through of result, exception and arguments for
    wrapped plain functions, functions whose parameters are named like the wrapper's own names (`f`, `self`, `args`,
    `kwargs`, `action`, `task_id`; called by keyword), functools.partial objects, instances with __call__, builtin
    functions and bound methods of C types; called in a thread, a fresh context, inline, in a copied context, or by
    2-4 threads at once; every call but the one that runs the function raises TooManyCalls and nothing else.  The
    exhaustively scheduled race on one callable is `_once.run_once_race` (line-level scheduler, model Driver/Once.lean).
"""
import contextvars
import copy
import io
import json
import re
import threading
import time

from . import _once
from . import C09 as c09
from ..framework import lean_driver, canon, InfraError

PROP = "C06"
LEAN_TARGETS = ["Eliot.Properties.C06"] + list(_once.LEAN_TARGETS)
AUDIT = "Eliot/Audit/C06.lean"
DRIVERS = ["Driver/C06.lean", "Driver/Sys.lean", "Driver/C09.lean", "Driver/Once.lean"]
THEOREMS = [
    "C06.level_string_roundtrip", "C06.task_id_roundtrip", "C06.task_id_ascii", "C06.task_id_roundtrip_bytes",
    "C06.reserved_position_unique", "Sys.C02.reserved_position_unique", "Sys.C02.levels_unique", "Sys.C02.message_at_slot",
    "C06.serialize_reserves", "C06.continue_at_reserved",
    "PM.Tree.msgs_nodup", "PM.Tree.cut_perm", "PM.Tree.cut_disjoint", "PM.Tree.view_at", "PM.C09.reconstruct",
    "C06.remote_subtree_is_child", "C06.parsed_subtree_at", "C06.multi_hop",
    "C06.preserve_passthrough", "Sys.C07.exc_identity",
] + list(_once.THEOREMS)
GENERATED_OBLIGATIONS = list(_once.GENERATED_OBLIGATIONS)
# theorems about the string forms *translated from the current source* (extractor E13, lean/Eliot/Generated/LevelStr.lean)
TL_THEOREMS = ["Level.C06TL.fromString_eq", "Level.C06TL.toString_eq", "Level.C06TL.serializeTaskId_eq", "Level.C06TL.parseText_eq",
               "Level.C06TL.parseBytes_eq", "Level.C06TL.translated_level_roundtrip", "Level.C06TL.translated_task_id_roundtrip"]
SKELETON_TARGETS = {"Level.C06TL.translated_string_forms (E13: TaskLevel.fromString/toString, serialize_task_id, the decoding half of "
                    "continue_task, translated from eliot/_action.py)": ("Eliot.Properties.C06TL", "Eliot/Audit/C06TL.lean", TL_THEOREMS)}
RULE = ("(a) levels: length 0..8 (sometimes 50..300), components drawn from {0, 1..9, 10..999, 10**k - 1, 10**k, up to 10**20}; uuids: "
        "uuid4-shaped, printable ASCII without '@', a few non-ASCII; malformed level / id strings over the alphabet '/0-9 +-_x@' plus "
        "fixed corner cases. (b) programs: 1-2 origin trees, nested with-blocks (depth <= 3), failing blocks, hand-offs at any point of any "
        "action, chains of <= 4 hops, several ids per action, each used once, bytes/text, continue_task/preserve_context, remote thread "
        "joined at once or at the very end (real concurrency with the origin), or the remote side invoked inline inside the originating action, or "
        "in a thread running in a copy of the originating context (copy_context().run, as asyncio.to_thread does); file/list destinations; 40% of the programs with a second, failing "
        "destination (mask of 1-3 calls, one of them the end/start message of a continued action or the end of a local one; hand-offs of those "
        "programs run one after the other so that the mask denotes the same messages in the model run); merge orders: both concatenations, "
        "perfect interleave, 20 (quick) / 500 for the first 80 programs and 12 for the others (thorough) seeded shuffles per program; non-trivial = >= 2 hops or >= 2 ids from one action "
        "or a hand-off below depth 1. (c) 120 / 1500 preserve_context scenarios: kind of wrapped callable x keyword names x way of calling x 1-4 callables "
        "x 1-4 calls each; schedules of 2-4 threads calling one preserved callable (see _once.py). Distinct by canonical hash.")
TRUSTED = ["uuid4() does not collide and never contains '@' (it is hex digits and dashes)",
           "threading.Thread / contextvars: a new thread starts with an empty eliot context",
           "the hand-off of the id itself (queue, argv, network) delivers the bytes or the text unchanged",
           "Python's int()/str() on decimal literals of fewer than 4300 digits",
           "return values of the preserved function are outside the core model (blocks have outcomes, no values): checked by the oracle only"]
ASSUMPTIONS = ["each serialized task id is continued exactly once (the property's precondition); an id that is never continued leaves its "
               "position empty and the task incomplete",
               "task uuids contain no '@' and are ASCII (serialize_task_id encodes with ascii)",
               "Level.fromChars models int() on non-empty runs of ASCII digits; strings Python's int() accepts beyond that (whitespace, sign, "
               "underscore, non-ASCII digits) are declared out-of-domain by the model (none without `rejects`) and not compared",
               "each side's log is complete (no lost lines) when the merge is parsed"]
EXPLANATION = ("string round trip by induction over List Char; the reserved position is a handed-out, unoccupied, unshared slot (C02 invariant); "
               "the origin's and the remote sides' logs are together a duplicate-free permutation of the messages of one tree, so every merge "
               "parses to that tree (C09.reconstruct) with the remote sub-tree at the reserved path; single use by an invariant over all schedules")

TIMEOUT = 20.0


def obs_exc(e):
    return {"raised": type(e).__name__}


def cps(s):
    return [ord(c) for c in s]


# =============================================================================================
# (a) strings
# =============================================================================================

def gen_component(rng):
    r = rng.random()
    if r < 0.1:
        return 0
    if r < 0.45:
        return rng.randint(1, 9)
    if r < 0.7:
        return rng.randint(10, 999)
    if r < 0.85:
        k = rng.randint(1, 20)
        return 10 ** k - rng.choice([0, 1])
    return rng.randint(0, 10 ** 20)


def gen_level(rng):
    r = rng.random()
    if r < 0.08:
        return []
    if r < 0.92:
        return [gen_component(rng) for _ in range(rng.randint(1, 8))]
    return [gen_component(rng) for _ in range(rng.randint(50, 300))]


def gen_uuid(rng):
    r = rng.random()
    if r < 0.5:
        h = "%032x" % rng.getrandbits(128)
        return "-".join([h[:8], h[8:12], h[12:16], h[16:20], h[20:]])
    if r < 0.6:
        # ids minted elsewhere (another language's library, a GUID from a request header): UUID-shaped, but not in the spelling
        # `str(uuid4())` uses - the task uuid is an opaque string and must come through as it is
        h = "%032x" % rng.getrandbits(128)
        dashed = "-".join([h[:8], h[8:12], h[12:16], h[16:20], h[20:]])
        return rng.choice([h, h.upper(), dashed.upper(), "{" + dashed + "}", "urn:uuid:" + dashed, dashed.replace("-", "", 2)])
    if r < 0.9:
        alphabet = [chr(c) for c in range(32, 127) if chr(c) != "@"]
        return "".join(rng.choice(alphabet) for _ in range(rng.randint(0, 12)))
    return "".join(rng.choice("abé٣中") for _ in range(rng.randint(1, 5)))


FIXED_LEVEL_STRINGS = ["", "/", "//", "/1//2/", "1/2", "/1/2", "1", "/01/002", "/1/x", "x", "/1 /2", "/+1", "/-1", "/1_0", "/٣", "/1/2/",
                       "///", "/1.5", "/1e3", "/0x10", "/ ", "/1\n", "/\t1", "/1/-", "/_1", "/1_", "/²"]
FIXED_ID_STRINGS = ["", "abc", "@", "a@", "@/1", "a@/1/2", "a@b@c", "a@/1@/2", "a@/1/x", "a@1/2", "a@//", "a/b@/3", "a@/ 1", "a@/+1", "é@/1",
                    "a@/1/٣"]


def gen_malformed(rng, alphabet="/0123456789 +-_x"):
    return "".join(rng.choice(alphabet) for _ in range(rng.randint(0, 9)))


def real_level_case(case):
    """Observations of the real code for one string case."""
    from eliot._action import TaskLevel, Action
    from eliot import MemoryLogger

    k = case["kind"]
    o = {}
    if k == "level":
        l = case["level"]
        try:
            s = TaskLevel(level=list(l)).toString()
            o["toString"] = cps(s) if isinstance(s, str) else {"not-str": repr(s)[:100]}
        except Exception as e:  # noqa
            o["toString"] = obs_exc(e)
            return o
        if isinstance(s, str):
            try:
                o["fromString"] = TaskLevel.fromString(s).as_list()
            except Exception as e:  # noqa
                o["fromString"] = obs_exc(e)
    elif k == "levelstr":
        try:
            o["fromString"] = TaskLevel.fromString(case["s"]).as_list()
        except Exception as e:  # noqa
            o["fromString"] = obs_exc(e)
    elif k == "taskid":
        u, l, n = case["uuid"], case["level"], case["n"]
        ids = []
        try:
            a = Action(MemoryLogger(), u, TaskLevel(level=list(l)), "app:t")
            for _ in range(n):
                ids.append(a.serialize_task_id())
            o["ids"] = [list(t) if isinstance(t, bytes) else {"not-bytes": repr(t)[:100]} for t in ids]
        except Exception as e:  # noqa
            o["ids"] = obs_exc(e)
            return o
        cont = []
        for i, t in enumerate(ids):
            if not isinstance(t, bytes):
                continue
            for form in ("bytes", "text"):
                try:
                    arg = t if form == "bytes" else t.decode("ascii")
                    ml = MemoryLogger()
                    Action.continue_task(ml, task_id=arg)
                    m = ml.messages[0]
                    cont.append([m.get("task_uuid"), m.get("task_level")])
                except Exception as e:  # noqa
                    cont.append(obs_exc(e))
        o["continued"] = cont
    elif k == "idstr":
        s = case["s"]
        for form in ("text", "bytes"):
            try:
                arg = s if form == "text" else s.encode("ascii")
            except UnicodeEncodeError:
                o[form] = "unencodable"
                continue
            try:
                ml = MemoryLogger()
                Action.continue_task(ml, task_id=arg)
                m = ml.messages[0]
                o[form] = [m.get("task_uuid"), m.get("task_level")]
            except Exception as e:  # noqa
                o[form] = obs_exc(e)
    return o


def model_queries(case):
    k = case["kind"]
    if k == "level":
        return [dict(op="toChars", level=case["level"])]
    if k == "levelstr":
        return [dict(op="fromChars", cps=cps(case["s"]))]
    if k == "taskid":
        return [dict(op="serialize", cps=cps(case["uuid"]), level=case["level"] + [i + 1]) for i in range(case["n"])]
    if k == "idstr":
        return [dict(op="parseTaskId", cps=cps(case["s"]))]
    raise ValueError(k)


def oracle_strings(case, o):
    """Model-free: what the property says about the string forms. Returns a list of failure texts."""
    k = case["kind"]
    bad = []
    if k == "level":
        if isinstance(o.get("toString"), dict):
            bad.append("TaskLevel.toString %s for level %s" % (o["toString"], case["level"]))
        elif o.get("fromString") != case["level"]:
            bad.append("fromString(toString(l)) = %s for l = %s" % (o.get("fromString"), case["level"]))
    elif k == "taskid":
        u, l, n = case["uuid"], case["level"], case["n"]
        ascii_u = all(ord(c) < 128 for c in u)
        if not ascii_u:
            return bad  # outside the property's domain (uuids are ASCII); only the tie looks at it
        ids = o.get("ids")
        if isinstance(ids, dict) or any(isinstance(t, dict) for t in ids):
            bad.append("serialize_task_id did not return bytes: %s" % (ids,))
            return bad
        if len({bytes(t) for t in ids}) != len(ids):
            bad.append("two serialize_task_id calls of one action returned the same id: %s" % [bytes(t) for t in ids])
        if "@" not in u:
            for i, t in enumerate(ids):
                try:
                    got = split_id(t)
                except Exception:  # noqa
                    got = None
                if got != (u, l + [i + 1]):
                    bad.append("id %r is not the wire form <uuid>@/<level> of (%r, %s)" % (bytes(t), u, l + [i + 1]))
                    break
        want = []
        for i in range(n):
            want += [[u, l + [i + 1, 1]]] * 2
        if o.get("continued") != want:
            bad.append("continue_task(task_id) did not start at (uuid, reserved level + [1]): got %s, expected %s" % (o.get("continued"), want))
    return bad


def second_round_queries(case, o):
    """Model questions that depend on what the real code returned."""
    if case["kind"] == "level" and isinstance(o.get("toString"), list):
        return [dict(op="fromChars", cps=o["toString"])]
    if case["kind"] == "taskid" and isinstance(o.get("ids"), list):
        return [dict(op="parseTaskIdBytes", bytes=t) for t in o["ids"] if isinstance(t, list)]
    return []


def tie_strings(case, o, m1, m2):
    """Model vs real. Returns (list of differences, out_of_domain?)."""
    k = case["kind"]
    diffs = []
    ood = False

    def cmp_parse(real, mo, what):
        nonlocal ood
        if "ok" in mo:
            exp = mo["ok"] if isinstance(mo["ok"], list) else None
            if real != exp:
                diffs.append("%s: real %s, model %s" % (what, real, mo["ok"]))
        elif mo.get("rejects"):
            if real != {"raised": "ValueError"}:
                diffs.append("%s: model says ValueError for certain, real %s" % (what, real))
        else:
            ood = True

    if k == "level":
        if o.get("toString") != m1[0].get("cps"):
            diffs.append("toString: real %s, model %s" % (o.get("toString"), m1[0].get("cps")))
        if m2:
            cmp_parse(o.get("fromString"), m2[0], "fromString(toString)")
    elif k == "levelstr":
        cmp_parse(o.get("fromString"), m1[0], "fromString(%r)" % case["s"])
    elif k == "taskid":
        ids = o.get("ids")
        model_bytes = [q.get("bytes") for q in m1]
        if any(b is None for b in model_bytes):
            if ids != {"raised": "UnicodeEncodeError"}:
                diffs.append("serialize_task_id on a non-ASCII uuid: real %s, model: encode('ascii') fails" % (ids,))
        else:
            if ids != model_bytes:
                diffs.append("serialize_task_id: real %s, model %s" % (ids, model_bytes))
            for i, mo in enumerate(m2):
                exp = {"ok": {"u": cps(case["uuid"]), "l": case["level"] + [i + 1]}}
                if "@" not in case["uuid"] and mo != exp:
                    diffs.append("model parseTaskIdBytes of the real id %d: %s, expected %s" % (i, mo, exp))
    elif k == "idstr":
        mo = m1[0]
        for form in ("text", "bytes"):
            real = o.get(form)
            if real == "unencodable":
                continue
            if "ok" in mo:
                u = "".join(chr(c) for c in mo["ok"]["u"])
                exp = [u, mo["ok"]["l"] + [1]]
                if real != exp:
                    diffs.append("continue_task(%s %r): real %s, model %s" % (form, case["s"], real, exp))
            elif mo.get("rejects"):
                if real != {"raised": "ValueError"}:
                    diffs.append("continue_task(%s %r): model says ValueError for certain, real %s" % (form, case["s"], real))
            else:
                ood = True
    return diffs, ood


def run_strings(ctx):
    name = "correspondence:level-string-model"
    rng = ctx.rng("strings")
    cases = []
    for _ in range(ctx.budget(400, 6000)):
        cases.append(dict(kind="level", level=gen_level(rng)))
    cases.append(dict(kind="level", level=[]))
    for _ in range(ctx.budget(150, 2500)):
        lv = gen_level(rng)
        cases.append(dict(kind="taskid", uuid=gen_uuid(rng), level=lv[:rng.randint(0, 6)], n=rng.randint(1, 3)))
    for s in FIXED_LEVEL_STRINGS:
        cases.append(dict(kind="levelstr", s=s))
    for _ in range(ctx.budget(250, 4000)):
        cases.append(dict(kind="levelstr", s=gen_malformed(rng)))
    for s in FIXED_ID_STRINGS:
        cases.append(dict(kind="idstr", s=s))
    for _ in range(ctx.budget(150, 2500)):
        r = rng.random()
        if r < 0.5:
            s = gen_uuid(rng)[:6] + "@" + gen_malformed(rng, "/0123456789x ")
        else:
            s = gen_malformed(rng, "/0123456789@ab")
        cases.append(dict(kind="idstr", s=s))
    obs = [real_level_case(c) for c in cases]
    q1, idx1 = [], []
    for c in cases:
        qs = model_queries(c)
        idx1.append((len(q1), len(q1) + len(qs)))
        q1 += qs
    q2, idx2 = [], []
    for c, o in zip(cases, obs):
        qs = second_round_queries(c, o)
        idx2.append((len(q2), len(q2) + len(qs)))
        q2 += qs
    ans = lean_driver("Driver/C06.lean", q1 + q2)
    a1, a2 = ans[:len(q1)], ans[len(q1):]
    agree = ood_n = 0
    for c, o, (i0, i1), (j0, j1) in zip(cases, obs, idx1, idx2):
        nt = (c["kind"] == "level" and len(c["level"]) >= 2 and max(c["level"]) >= 10) or (c["kind"] == "taskid" and c["n"] >= 2) \
            or (c["kind"] in ("levelstr", "idstr") and len(c["s"]) >= 3)
        ctx.case(c, nontrivial=nt, tags=["str:" + c["kind"]], sample=(c["kind"] == "taskid" and len(canon(c)) < 300))
        for b in oracle_strings(c, o):
            ctx.violation(b, dict(c, observed=o), key=None)
        m1, m2 = a1[i0:i1], a2[j0:j1]
        if any("bad" in m for m in m1 + m2):
            ctx.broken_tie(name, "model driver rejected the case: %s" % [m for m in m1 + m2 if "bad" in m][:1], c)
            continue
        diffs, ood = tie_strings(c, o, m1, m2)
        if ood:
            ood_n += 1
            ctx.count("str:out-of-domain")
        if diffs:
            ctx.broken_tie(name, diffs[0][:800], dict(c, observed=o))
        else:
            agree += 1
            ctx.traces += 1
    if name not in ctx.broken:
        ctx.obligation(name, "correspondence", True,
                       "%d string cases: toString/fromString/serialize_task_id/continue_task agree with the model (%d out-of-domain inputs not compared)" % (agree, ood_n))


# =============================================================================================
# (b) hand-off programs
# =============================================================================================

class Gen:
    def __init__(self, rng, quick):
        self.rng = rng
        self.nid = 0
        self.nlog = 0
        self.nexc = 0
        self.sides = 0
        self.max_sides = rng.choice([2, 3, 4, 6, 8])
        self.budget = rng.randint(8, 30)

    def side(self, hops_left, depth_hint=0):
        self.sides += 1
        rng = self.rng
        body = self.block(0, hops_left)
        return dict(dest=rng.choice(["file", "list"]), body=body)

    def maybe_raise(self, p=0.2):
        if self.rng.random() < p:
            self.nexc += 1
            return self.nexc % 8
        return None

    def handoff(self, hops_left):
        rng = self.rng
        y = self.nid
        self.nid += 1
        via = "preserve" if rng.random() < 0.35 else "continue"
        return dict(op="handoff", y=y, via=via, form=rng.choice(["bytes", "text"]),
                    atype=(rng.choice([None, "app:remote"]) if via == "continue" else None),
                    join=rng.choice(["now", "end"]), call=rng.choice(["thread", "thread", "thread", "inline", "ctxcopy"]),
                    side=self.side(hops_left - 1), **{"raise": self.maybe_raise(0.25)})

    def block(self, depth, hops_left):
        rng = self.rng
        out = []
        for _ in range(rng.randint(1, 4)):
            if self.budget <= 0:
                break
            self.budget -= 1
            r = rng.random()
            if r < 0.35:
                self.nlog += 1
                out.append(dict(op="log", n=self.nlog))
            elif r < 0.6 and depth < 3:
                out.append({"op": "with", "atype": rng.choice(["app:a", "app:b"]), "body": self.block(depth + 1, hops_left), "raise": self.maybe_raise()})
            elif hops_left > 0 and self.sides < self.max_sides:
                out.append(self.handoff(hops_left))
                if rng.random() < 0.4 and self.sides < self.max_sides:
                    out.append(self.handoff(hops_left))  # two ids in a row from the same action
            else:
                self.nlog += 1
                out.append(dict(op="log", n=self.nlog))
        return out


def handoffs_of(block, depth=0, hop=0, acc=None):
    acc = acc if acc is not None else []
    for s in block:
        if s["op"] == "with":
            handoffs_of(s["body"], depth + 1, hop, acc)
        elif s["op"] == "handoff":
            acc.append((s, depth, hop + 1))
            handoffs_of(s["side"]["body"], 0, hop + 1, acc)
    return acc


def gen_program(rng, quick):
    for _ in range(50):
        g = Gen(rng, quick)
        trees = []
        for t in range(1 if rng.random() < 0.7 else 2):
            trees.append({"atype": "app:root%d" % t, "side": g.side(rng.randint(1, 4)), "raise": g.maybe_raise(0.15)})
        prog = dict(trees=trees)
        if any(handoffs_of(t["side"]["body"]) for t in trees):
            return prog
    return prog


class Abort(BaseException):
    """an eliot API call raised: recorded, the side stops"""


class Side:
    def __init__(self, i, kind, parent):
        self.i, self.kind, self.parent = i, kind, parent
        self.count = 0
        self.stack = []
        self.raised = None
        self.result = None
        self.args = None
        self.second = None
        if kind == "file":
            import eliot

            self.file = io.BytesIO()
            self.sink = eliot.FileDestination(file=self.file)
        else:
            self.msgs = []
            self.sink = lambda m: self.msgs.append(dict(m))

    def log(self):
        if self.kind == "file":
            return [json.loads(l) for l in self.file.getvalue().splitlines() if l.strip()]
        return [json.loads(json.dumps(m)) for m in self.msgs]


class RT:
    def __init__(self):
        self.tls = threading.local()
        self.sides = []
        self.threads = []
        self.lock = threading.Lock()
        self.errors = []
        self.stray = []
        self.ids = []
        self.recs = []
        self.mine = {}
        self.keep = []
        self.deferred = False
        self.queue = []
        self.flaky_mask = None
        self.flaky_calls = []

    def flaky(self, message):
        """A second registered destination that raises on the calls listed in the program's failure mask (a full
        disk, a closed socket); the per-side sinks behind `router` are the healthy destination whose view is checked."""
        k = len(self.flaky_calls)
        self.flaky_calls.append([message.get("action_type"), message.get("action_status"), message.get("message_type"), message.get("task_level")])
        if k in self.flaky_mask:
            raise ValueError("exc7")

    def router(self, message):
        side = getattr(self.tls, "side", None)
        if side is None:
            self.stray.append(dict(message))
        else:
            side.count += 1
            side.sink(message)

    def new_side(self, kind, parent):
        with self.lock:
            s = Side(len(self.sides), kind, parent)
            self.sides.append(s)
        return s

    def mk_exc(self, n):
        e = ValueError("exc%d" % n)
        with self.lock:
            self.mine[id(e)] = n
            self.keep.append(e)
        return e

    def api(self, side, name, f, *a, **kw):
        try:
            return f(*a, **kw)
        except BaseException as e:  # noqa - observation
            self.errors.append("side %d: %s raised %s: %s" % (side.i, name, type(e).__name__, str(e)[:200]))
            raise Abort()

    def side_main(self, side, target):
        self.tls.side = side
        try:
            target()
        except Abort:
            pass
        except BaseException as e:  # noqa
            if id(e) in self.mine:
                side.raised = self.mine[id(e)]
            else:
                self.errors.append("side %d ended with %s: %s" % (side.i, type(e).__name__, str(e)[:200]))

    def spawn(self, side, target, join_now):
        t = threading.Thread(target=self.side_main, args=(side, target), daemon=True)
        with self.lock:
            self.threads.append(t)
        t.start()
        if join_now:
            t.join(TIMEOUT)


def exec_block(rt, side, block):
    import eliot

    for s in block:
        op = s["op"]
        if op == "log":
            rt.api(side, "log_message", eliot.log_message, "app:m", x=s["n"])
        elif op == "with":
            idx = side.count
            try:
                act = rt.api(side, "start_action", eliot.start_action, action_type=s["atype"])
                with act:
                    side.stack.append(idx)
                    try:
                        exec_block(rt, side, s["body"])
                    finally:
                        side.stack.pop()
                    if s.get("raise") is not None:
                        raise rt.mk_exc(s["raise"])
            except ValueError as e:
                if id(e) not in rt.mine:
                    raise
        elif op == "handoff":
            do_handoff(rt, side, s)
        else:
            raise ValueError(op)


def closure_id(g):
    try:
        for c in g.__closure__ or ():
            if isinstance(c.cell_contents, bytes):
                return c.cell_contents
    except Exception:  # noqa
        pass
    return None


def do_handoff(rt, side, s):
    import eliot
    from eliot._action import TooManyCalls

    child = rt.new_side(s["side"]["dest"], side.i)
    rec = dict(y=s["y"], origin=side.i, origin_start=side.stack[-1], remote=child.i, via=s["via"], form=s["form"], call=s.get("call", "thread"),
               atype=s["atype"] or "eliot:remote_task", id=None, exp_raise=s.get("raise"))
    rt.recs.append(rec)
    body = s["side"]["body"]
    if s["via"] == "continue":
        act = eliot.current_action()
        tid = rt.api(side, "serialize_task_id", act.serialize_task_id)
        rec["id"] = tid
        rt.ids.append(tid)
        arg = tid
        if s["form"] == "text":
            arg = rt.api(side, "id.decode", tid.decode, "ascii")
        kw = {"action_type": s["atype"]} if s["atype"] else {}

        def target():
            a = rt.api(child, "continue_task", eliot.Action.continue_task, task_id=arg, **kw)
            with a:
                child.stack.append(0)
                exec_block(rt, child, body)
                if s.get("raise") is not None:
                    raise rt.mk_exc(s["raise"])
    else:
        sentinel = object()

        def f(*a, **k):
            child.args = [list(a), dict(k)]
            child.stack.append(0)
            exec_block(rt, child, body)
            if s.get("raise") is not None:
                raise rt.mk_exc(s["raise"])
            return sentinel

        g = rt.api(side, "preserve_context", eliot.preserve_context, f)
        rec["wrapped"] = g is not f
        tid = closure_id(g)
        rec["id"] = tid
        if tid is not None:
            rt.ids.append(tid)

        def target():
            try:
                r = g(1, k=2)
                child.result = "sentinel" if r is sentinel else repr(r)[:100]
            except ValueError as e:
                if id(e) not in rt.mine:
                    raise
                child.raised = rt.mine[id(e)]
            try:
                g(1, k=2)
                child.second = "returned"
            except TooManyCalls:
                child.second = "TooManyCalls"
            except BaseException as e:  # noqa
                child.second = type(e).__name__
    call = s.get("call", "thread")
    if call == "inline":
        # run synchronously where the id was taken (an inline executor, a callback invoked at once): the originating
        # action is the current action while the remote side runs; it still logs to its own destination
        prev = rt.tls.side
        try:
            rt.side_main(child, target)
        finally:
            rt.tls.side = prev
    elif rt.deferred:
        rt.queue.append((child, target))  # the id is handed over now, the remote side runs after the origin is done
    elif call == "ctxcopy":
        # what asyncio.to_thread / run_in_executor(copy_context().run, ..) do: another thread, but in a copy of the
        # submitting context, so the originating action is current there too
        c = contextvars.copy_context()
        rt.spawn(child, lambda: c.run(target), s["join"] == "now")
    else:
        rt.spawn(child, target, s["join"] == "now")


def run_program(prog):
    """Run on the real code; every side in its own thread, logging to its own destination."""
    import eliot
    from eliot import _output

    rt = RT()
    rt.deferred = bool(prog.get("deferred"))
    dst = _output.Logger._destinations
    saved = (dst._destinations, dst._any_added, dst._globalFields)
    try:
        dst.__init__()
        if prog.get("flaky") is not None:
            rt.flaky_mask = set(prog["flaky"])
            eliot.add_destinations(rt.router, rt.flaky)
        else:
            eliot.add_destinations(rt.router)
        for tree in prog["trees"]:
            side = rt.new_side(tree["side"]["dest"], None)

            def target(tree=tree, side=side):
                act = rt.api(side, "start_action", eliot.start_action, action_type=tree["atype"])
                with act:
                    side.stack.append(0)
                    exec_block(rt, side, tree["side"]["body"])
                    if tree.get("raise") is not None:
                        raise rt.mk_exc(tree["raise"])

            rt.spawn(side, target, rt.deferred)
        while rt.queue:
            child, target = rt.queue.pop(0)
            rt.spawn(child, target, True)
        i = 0
        while True:
            with rt.lock:
                if i >= len(rt.threads):
                    break
                t = rt.threads[i]
            t.join(TIMEOUT)
            if t.is_alive():
                rt.errors.append("thread %d did not finish within %ss" % (i, TIMEOUT))
            i += 1
    except BaseException as e:  # noqa - observation
        rt.errors.append("harness-level call raised %s: %s" % (type(e).__name__, str(e)[:200]))
    finally:
        dst._destinations, dst._any_added, dst._globalFields = saved
    logs = []
    for s in rt.sides:
        try:
            logs.append(s.log())
        except Exception as e:  # noqa
            rt.errors.append("log of side %d unreadable: %s" % (s.i, type(e).__name__))
            logs.append([])
    recs = []
    for r in rt.recs:
        r = dict(r)
        r["id"] = list(r["id"]) if isinstance(r["id"], bytes) else (None if r["id"] is None else {"not-bytes": repr(r["id"])[:80]})
        recs.append(r)
    sides = [dict(i=s.i, parent=s.parent, kind=s.kind, raised=s.raised, result=s.result, args=s.args, second=s.second) for s in rt.sides]
    return dict(logs=logs, recs=recs, sides=sides, errors=rt.errors, stray=len(rt.stray), flaky_calls=rt.flaky_calls,
                ids=[list(t) if isinstance(t, bytes) else repr(t)[:80] for t in rt.ids])


REPORT = "eliot:destination_failure"
REMOTE_TYPES = ("eliot:remote_task", "app:remote")


def make_flaky(prog, rng):
    """Add the failing-destination dimension: a second destination raises on chosen calls, in particular on the
    start / end message of a continued action.  The mask is by call number of that destination, so the hand-offs
    of such a program run one after the other (`deferred`: the remote sides run, each in its own thread, after
    the origin trees are done, in hand-over order) and the same mask means the same messages in the model run.
    The call numbers of interest are taken from a run in which the destination does not fail yet."""
    prog = dict(copy.deepcopy(prog), deferred=True, flaky=[])
    for t in prog["trees"]:
        for h, _, _ in handoffs_of(t["side"]["body"]):
            if h.get("call") == "ctxcopy":
                # the copied context would outlive the origin action; the model run has no such context
                h["call"] = "thread"
    dry = run_program(prog)
    calls = dry["flaky_calls"]
    if not calls:
        return prog
    ends = [k for k, c in enumerate(calls) if c[0] in REMOTE_TYPES and c[1] in ("succeeded", "failed")]
    starts = [k for k, c in enumerate(calls) if c[0] in REMOTE_TYPES and c[1] == "started"]
    other_ends = [k for k, c in enumerate(calls) if c[0] not in REMOTE_TYPES and c[1] in ("succeeded", "failed")]
    mask = set()
    r = rng.random()
    if ends and r < 0.6:
        mask.add(rng.choice(ends))
    elif starts and r < 0.8:
        mask.add(rng.choice(starts))
    elif other_ends:
        mask.add(rng.choice(other_ends))
    for _ in range(rng.choice([0, 0, 1, 2])):
        mask.add(rng.randrange(len(calls) + 2))
    prog["flaky"] = sorted(mask)
    return prog


ID_FORMAT = re.compile(r"\A([^@]*)@(/|(?:/[0-9]+)+)\Z")


def split_id(idbytes):
    """The harness's own reading of the documented wire format b'<uuid>@/<n>/<n>...' (docs/source/reading, the
    serialize_task_id docstring): this is what a process running any other copy of eliot has to decode."""
    t = bytes(idbytes).decode("ascii")
    m = ID_FORMAT.match(t)
    if not m:
        raise ValueError("not <uuid>@/<level>")
    return m.group(1), [int(x) for x in m.group(2).split("/") if x]


def descendants(sides, i):
    out = {i}
    changed = True
    while changed:
        changed = False
        for s in sides:
            if s["parent"] in out and s["i"] not in out:
                out.add(s["i"])
                changed = True
    return out


def merge_orders(logs, rng, nshuffles):
    allm = [m for l in logs for m in l]
    orders = [("concat", list(allm)), ("concat-rev", [m for l in reversed(logs) for m in l])]
    inter = []
    for k in range(max([len(l) for l in logs] or [0])):
        for l in logs:
            if k < len(l):
                inter.append(l[k])
    orders.append(("interleave", inter))
    for _ in range(nshuffles):
        p = list(allm)
        rng.shuffle(p)
        orders.append(("shuffle", p))
    return orders


def node_at(root, lvl):
    """WrittenAction/WrittenMessage at task_level `lvl` (path of positions from the root action)."""
    n = root
    for d in range(len(lvl)):
        kids = getattr(n, "children", None)
        if kids is None:
            return None
        want = lvl[:d + 1]
        nxt = None
        for c in kids:
            cl = c.task_level.as_list()
            # a message child sits at `want`; an action child has task_level `want` too
            if cl == want:
                nxt = c
                break
        if nxt is None:
            return None
        n = nxt
    return n


def flatten_levels(n, acc):
    from eliot._action import WrittenAction

    if isinstance(n, WrittenAction):
        if n.start_message is not None:
            acc.append(n.start_message.task_level.as_list())
        for c in n.children:
            flatten_levels(c, acc)
        if n.end_message is not None:
            acc.append(n.end_message.task_level.as_list())
    else:
        acc.append(n.task_level.as_list())
    return acc


def oracle_program(prog, obs, rng, nshuffles, stats=None):
    """Model-free. Returns a list of (what, key)."""
    from eliot.parse import Parser
    from eliot._action import WrittenAction

    bad = []
    if obs["errors"]:
        return [("the real code raised / hung: %s" % obs["errors"][0], dict(kind="api-raised"))]
    if obs["stray"]:
        bad.append(("%d messages were logged outside any side's thread" % obs["stray"], None))
    logs, recs, sides = obs["logs"], obs["recs"], obs["sides"]

    def outside_report(m):
        # the report of a failed destination, logged with no current action: a one-message task of its own
        return m.get("message_type") == REPORT and m.get("task_level") == [1]

    nreports = sum(1 for l in logs for m in l if m.get("message_type") == REPORT)
    if prog.get("flaky") is None and nreports:
        bad.append(("%d eliot:destination_failure reports although no destination fails" % nreports, dict(kind="unexpected-report")))
    # --- nothing is logged inside an action after its end message (in the healthy destination's view)
    for m in (m for l in logs for m in l):
        if m.get("action_status") in ("succeeded", "failed") and isinstance(m.get("task_level"), list) and m["task_level"]:
            pre, n = m["task_level"][:-1], m["task_level"][-1]
            late = [x.get("task_level") for l in logs for x in l if x.get("task_uuid") == m.get("task_uuid") and isinstance(x.get("task_level"), list)
                    and len(x["task_level"]) > len(pre) and x["task_level"][:len(pre)] == pre and x["task_level"][len(pre)] > n]
            if late:
                bad.append(("action %s at %s ends at position %d but messages were logged inside it after its end message: %s" % (
                    m.get("action_type"), pre, n, late[:3]), dict(kind="after-end", atype=("remote" if m.get("action_type") in REMOTE_TYPES else "local"))))
                break
    # --- ids pairwise distinct
    ids = [canon(t) for t in obs["ids"]]
    if len(set(ids)) != len(ids):
        dup = [bytes(t) for t in obs["ids"] if isinstance(t, list) and ids.count(canon(t)) > 1][:2]
        bad.append(("two serialize_task_id calls returned the same id %s" % dup, dict(kind="duplicate-id")))
    # --- every remote message carries the origin's uuid and extends the reserved level
    reserved = {}
    for r in recs:
        ol, rl = logs[r["origin"]], [m for m in logs[r["remote"]] if not outside_report(m)]
        if r["origin_start"] >= len(ol):
            bad.append(("the originating action of hand-off %d logged no start message" % r["y"], None))
            continue
        om = ol[r["origin_start"]]
        ou, olevel = om.get("task_uuid"), (om.get("task_level") or [None])[:-1]
        if isinstance(r["id"], dict):
            bad.append(("serialize_task_id returned %s" % r["id"], None))
            continue
        if not rl:
            bad.append(("the remote side of hand-off %d logged nothing" % r["y"], None))
            continue
        if r["id"] is not None:
            try:
                u, lv = split_id(r["id"])
            except Exception as e:  # noqa
                bad.append(("id %r is not of the form <uuid>@/<level>: %s" % (bytes(r["id"]), type(e).__name__), dict(kind="id-format")))
                continue
            if u != ou:
                bad.append(("id %r does not carry the originating action's task_uuid %s" % (bytes(r["id"]), ou), dict(kind="id-uuid")))
        else:
            lv = (rl[0].get("task_level") or [None])[:-1]
        if lv[:-1] != olevel or not lv:
            bad.append(("hand-off %d: reserved level %s is not a position of the originating action at %s" % (r["y"], lv, olevel),
                        dict(kind="reserved-not-in-origin")))
        reserved[r["y"]] = (ou, lv)
        for m in rl:
            ml = m.get("task_level")
            if r.get("call") == "inline" and m.get("message_type") == REPORT and m.get("task_uuid") == ou and isinstance(ml, list) \
                    and ml[:len(lv)] != lv:
                # run inline, the enclosing context of the remote action is the originating action: the report of a destination
                # that failed on the remote action's start / end message belongs there, though it is logged during the call
                continue
            if m.get("task_uuid") != ou or not isinstance(ml, list) or len(ml) <= len(lv) or ml[:len(lv)] != lv:
                bad.append(("hand-off %d (%s, id as %s): remote message at (%s, %s) is not below the reserved place (%s, %s)" % (
                    r["y"], r["via"], r["form"], m.get("task_uuid"), ml, ou, lv), dict(kind="remote-misplaced", via=r["via"])))
                break
        if rl[0].get("task_level") != lv + [1] or rl[0].get("action_type") != r["atype"] or rl[0].get("action_status") != "started":
            bad.append(("hand-off %d: the remote side's first message is not the start of %s at %s: %s" % (r["y"], r["atype"], lv + [1], canon(rl[0])[:200]),
                        dict(kind="remote-start")))
        # the reserved place is used by no other side
        desc = descendants(sides, r["remote"])
        for s in sides:
            if s["i"] in desc:
                continue
            for m in logs[s["i"]]:
                ml = m.get("task_level") or []
                if m.get("task_uuid") == ou and ml[:len(lv)] == lv:
                    bad.append(("hand-off %d: the reserved place %s is also used by a message of side %d at %s" % (r["y"], lv, s["i"], ml),
                                dict(kind="reserved-reused")))
                    break
        # pass-through
        rs = sides[r["remote"]]
        if r["exp_raise"] is not None:
            if rs["raised"] != r["exp_raise"]:
                bad.append(("hand-off %d (%s): the exception raised by the remote function did not pass through unchanged (got %s)" % (r["y"], r["via"], rs["raised"]),
                            dict(kind="exception-passthrough", via=r["via"])))
        if r["via"] == "preserve":
            if not r.get("wrapped"):
                bad.append(("preserve_context returned the function itself inside an action", dict(kind="preserve-identity")))
            if r["exp_raise"] is None and rs["result"] != "sentinel":
                bad.append(("preserve_context callable did not return the function's result object: %s" % rs["result"], dict(kind="result-passthrough")))
            if rs["args"] != [[1], {"k": 2}]:
                bad.append(("preserve_context callable did not pass its arguments on: %s" % (rs["args"],), dict(kind="args-passthrough")))
            if rs["second"] != "TooManyCalls":
                bad.append(("second call of the preserve_context callable: %s instead of TooManyCalls" % rs["second"], dict(kind="second-call")))
    if bad:
        return bad
    # --- merges
    roots = [logs[s["i"]][0]["task_uuid"] for s in sides if s["parent"] is None and logs[s["i"]]]
    first = None
    allm = [m for l in logs for m in l]
    for oname, order in merge_orders(logs, rng, nshuffles):
        try:
            tasks = list(Parser.parse_stream(order))
        except Exception as e:  # noqa
            return [("Parser raised %s on the %s merge of the separate logs" % (type(e).__name__, oname), dict(kind="parser-raised"))]
        if stats is not None:
            stats["parses"] = stats.get("parses", 0) + 1
        by = {}
        for t in tasks:
            try:
                by.setdefault(t.root().task_uuid, []).append(t)
            except Exception:  # noqa
                by.setdefault(None, []).append(t)
        extra = [u for u in by if u not in roots]
        for u in extra:
            n = by[u][0].root() if len(by[u]) == 1 else None
            if n is None or isinstance(n, WrittenAction) or getattr(n, "contents", {}).get("message_type") != REPORT:
                return [("%s merge: parse_stream yielded a task %s that is neither an origin tree nor a failure report" % (oname, u), dict(kind="task-count"))]
        if sorted((u for u in by if u in roots), key=repr) != sorted(roots, key=repr) or any(len(v) != 1 for v in by.values()) \
                or len(extra) != sum(1 for m in allm if outside_report(m)):
            return [("%s merge: parse_stream yielded %d tasks for %d origin trees (+ %d reports outside any action)" % (
                oname, len(tasks), len(roots), sum(1 for m in allm if outside_report(m))), dict(kind="task-count"))]
        if not all(t.is_complete() for t in tasks):
            return [("%s merge: a task is incomplete although every side's whole log was merged" % oname, dict(kind="incomplete"))]
        cur = {u: v[0] for u, v in by.items()}
        if first is None:
            first = cur
            for r in recs:
                ou, lv = reserved[r["y"]]
                root = cur[ou].root()
                node = node_at(root, lv)
                parent = node_at(root, lv[:-1])
                om = logs[r["origin"]][r["origin_start"]]
                if not isinstance(node, WrittenAction) or node.start_message is None or node.action_type != r["atype"] or node.task_uuid != ou \
                        or node.start_message.task_level.as_list() != lv + [1]:
                    return [("hand-off %d: in the parsed tree the node at the reserved position %s is not the remote action %s" % (r["y"], lv, r["atype"]),
                             dict(kind="tree-node"))]
                if not isinstance(parent, WrittenAction) or parent.start_message is None or \
                        parent.start_message.task_level.as_list() != om["task_level"] or node not in list(parent.children):
                    return [("hand-off %d: the remote action is not a child of the originating action" % r["y"], dict(kind="tree-parent"))]
                got = sorted(flatten_levels(node, []))
                want = sorted(m["task_level"] for m in allm if m["task_uuid"] == ou and m["task_level"][:len(lv)] == lv)
                if got != want:
                    return [("hand-off %d: the sub-tree at %s does not consist of exactly the messages logged below it" % (r["y"], lv), dict(kind="tree-content"))]
        elif cur != first:
            return [("the %s merge parses to a different task than the concatenation" % oname, dict(kind="order-dependent"))]
    return []


# ---- ties -------------------------------------------------------------------------------------

ENV = dict(classes=[dict(id=107, name="ValueError", bases=[], mro=[107, 101, 100], qualname="builtins.ValueError"),
                    dict(id=101, name="Exception", bases=[], mro=[101, 100], qualname="builtins.Exception"),
                    dict(id=100, name="BaseException", bases=[], mro=[100], qualname="builtins.BaseException")],
           excs=[dict(id=i, cls=107, str="exc%d" % i) for i in range(8)], keyErrorClass=105, extractors=[], serFail=[], destFail=[])


def seq_continue(s, queue):
    return seq_with(dict(op="continueWith", y=s["y"], spec=dict(atype=s["atype"] or "eliot:remote_task", fields=[], sers=None)),
                    s["side"]["body"], s.get("raise"), queue)


def seq_block(block, queue=None):
    """`queue` is None: the remote side runs where the id is taken; else (deferred programs) it is queued."""
    out = []
    for s in block:
        if s["op"] == "log":
            out.append(dict(op="log", ms=dict(mtype="app:m", fields=[["x", {"n": s["n"]}]], sers=None)))
        elif s["op"] == "with":
            out.append(seq_with(dict(op="with", task=False, spec=dict(atype=s["atype"], fields=[], sers=None)), s["body"], s.get("raise"), queue))
        elif s["op"] == "handoff":
            out.append(dict(op="serializeAs", y=s["y"], x=None))
            if queue is None or s.get("call") == "inline":
                out.append(seq_continue(s, queue))
            else:
                queue.append(s)
    return out


def seq_with(stmt, body, rz, queue=None):
    b = seq_block(body, queue)
    if rz is not None:
        b.append(dict(op="raise", e=rz))
        return dict(op="try", body=[dict(stmt, body=b)], handler=[])
    return dict(stmt, body=b)


def sys_case(prog):
    """The sequentialised program for the core model.  Deferred programs: the remote sides run at top level (no
    current action, as in a fresh thread) after the origin trees, in hand-over order; destination 1 fails on the
    calls of the mask."""
    flaky = prog.get("flaky")
    queue = [] if prog.get("deferred") else None
    p = [dict(op="addDests", ds=[0] if flaky is None else [0, 1])]
    for t in prog["trees"]:
        p.append(seq_with(dict(op="with", task=False, spec=dict(atype=t["atype"], fields=[], sers=None)), t["side"]["body"], t.get("raise"), queue))
    while queue:
        p.append(seq_continue(queue.pop(0), queue))
    return dict(env=dict(ENV, destFail=[[1, k, 7] for k in (flaky or [])]), prog=p)


KEYS = ["task_level", "action_type", "message_type", "action_status", "x", "exception", "reason"]


def canon_msgs(msgs, uuid_of):
    tree = {}
    for m in msgs:
        if m.get("task_level") == [1]:
            tree[canon(uuid_of(m))] = m.get("action_type")
    out = []
    for m in msgs:
        d = {k: m[k] for k in KEYS if k in m}
        d["tree"] = tree.get(canon(uuid_of(m)), "?")
        out.append(canon(d))
    return sorted(out)


def pmsgs(order, index):
    out = []
    for m in order:
        d = dict(uuid=m["task_uuid"], level=m["task_level"], body=index[id(m)])
        if "action_type" in m:
            d["atype"] = m["action_type"]
        if "action_status" in m:
            d["status"] = m["action_status"]
        out.append(d)
    return out


def real_steps(order, index):
    from eliot.parse import Parser

    p = Parser()
    ys = []
    for m in order:
        done, p = p.add(dict(m, body=index[id(m)]))
        ys += [c09.dump_task(t, False) for t in done]
    return ys, {u: c09.dump_task(t, False) for u, t in p._tasks.items()}


def run_handoffs(ctx):
    rng = ctx.rng("programs")
    mrng = ctx.rng("merges")
    n = ctx.budget(220, 1200)
    progs = []
    for _ in range(n):
        prog = gen_program(rng, ctx.quick)
        if rng.random() < 0.4:
            prog = make_flaky(prog, rng)
        progs.append(prog)
    observations = []
    stats = {}
    t0 = time.time()
    for k, prog in enumerate(progs):
        obs = run_program(prog)
        observations.append(obs)
        hs = [h for t in prog["trees"] for h in handoffs_of(t["side"]["body"])]
        hops = max(h[2] for h in hs)
        per_action = {}
        for r in obs["recs"]:
            per_action[(r["origin"], r["origin_start"])] = per_action.get((r["origin"], r["origin_start"]), 0) + 1
        nt = hops >= 2 or max(per_action.values() or [0]) >= 2 or any(h[1] >= 1 for h in hs)
        tags = ["hops:%d" % hops, "sides:%d" % min(len(obs["sides"]), 9), "trees:%d" % len(prog["trees"])]
        if prog.get("flaky") is not None:
            hit = [obs["flaky_calls"][j] for j in prog["flaky"] if j < len(obs["flaky_calls"])]
            tags += ["flaky:%d" % min(len(hit), 3)] + sorted({"flaky-hit:" + ("remote-" if c[0] in REMOTE_TYPES else "") +
                                                            ("report" if c[2] == REPORT else (c[1] or "message")) for c in hit})
        else:
            tags.append("flaky:none")
        tags += sorted({"call:" + h[0].get("call", "thread") + "/" + h[0]["via"] for h in hs})
        tags += sorted({"via:" + h[0]["via"] for h in hs} | {"form:" + h[0]["form"] for h in hs} | {"join:" + h[0]["join"] for h in hs}
                       | {"dest:" + s["kind"] for s in obs["sides"]})
        # thorough: 500 shuffles for the first 80 programs, 12 for the rest (20 min budget; one parse ~ 10 ms)
        nsh = 20 if ctx.quick else (500 if k < 80 else 12)
        case = dict(kind="program", prog=prog, merge_seed="%s:%d" % (ctx.seed, k), shuffles=nsh)
        ctx.case(case, nontrivial=nt, tags=tags, sample=(len(canon(prog)) < 1500))
        ctx.count("handoffs", n=len(hs))
        ctx.count("messages", n=sum(len(l) for l in obs["logs"]))
        import random

        bad = oracle_program(prog, obs, random.Random(case["merge_seed"]), nsh, stats)
        for what, key in bad[:3]:
            ctx.violation(what, dict(case, observed=dict(recs=obs["recs"], errors=obs["errors"], levels=[[m.get("task_level") for m in l] for l in obs["logs"]])), key=key)
    ctx.count("parses", n=stats.get("parses", 0))
    ctx.extra["handoff_seconds"] = round(time.time() - t0, 1)
    # ---- tie 1: the sequentialised program on the core model emits the same messages
    name = "correspondence:sys-model-handoff"
    model = lean_driver("Driver/Sys.lean", [sys_case(p) for p in progs])
    agree = 0
    for prog, obs, mo in zip(progs, observations, model):
        if obs["errors"]:
            continue
        if "bad" in mo:
            ctx.broken_tie(name, "model driver rejected the case: %s" % mo["bad"], prog)
            continue
        real = canon_msgs([m for l in obs["logs"] for m in l], lambda m: m.get("task_uuid"))
        mod = canon_msgs([m for d, m in mo.get("accepted", []) if d == 0], lambda m: m.get("task_uuid"))
        if mo.get("outcome") != "ok" or real != mod:
            i = next((i for i, (a, b) in enumerate(zip(real, mod)) if a != b), min(len(real), len(mod)))
            ctx.broken_tie(name, "messages of the threaded run and of the sequentialised model run differ (outcome %s): real %s, model %s" % (
                mo.get("outcome"), real[i] if i < len(real) else None, mod[i] if i < len(mod) else None), prog)
        else:
            agree += 1
            ctx.traces += 1
    if name not in ctx.broken:
        ctx.obligation(name, "correspondence", True, "%d programs: every side's messages (uuid, level, type, status, fields) are those of the core model" % agree)
    # ---- tie 2: the parser model on the merged logs
    name2 = "correspondence:parser-model-merge"
    qs, meta = [], []
    for k, (prog, obs) in enumerate(zip(progs, observations)):
        if obs["errors"]:
            continue
        allm = [m for l in obs["logs"] for m in l]
        index = {id(m): i for i, m in enumerate(allm)}
        for oname, order in merge_orders(obs["logs"], mrng, ctx.budget(2, 6)):
            qs.append({"msgs": pmsgs(order, index)})
            meta.append((k, oname, order, index))
    agree2 = 0
    for (k, oname, order, index), mo in zip(meta, lean_driver("Driver/C09.lean", qs) if qs else []):
        if "bad" in mo:
            ctx.broken_tie(name2, "model driver rejected the case: %s" % mo["bad"], progs[k])
            continue
        try:
            ys, rest = real_steps(order, index)
        except Exception as e:  # noqa
            ys, rest = {"raised": type(e).__name__}, None
        msteps = c09.norm_model(mo.get("steps", []))
        mys = [t for s in msteps for t in s.get("y", [])] if not any("err" in s for s in msteps) else {"err": [s for s in msteps if "err" in s][:1]}
        if ys != mys or rest != mo.get("final"):
            ctx.broken_tie(name2, "real parser and trie model differ on the %s merge of program %d" % (oname, k), dict(prog=progs[k], order=oname))
        else:
            agree2 += 1
            ctx.traces += 1
    if name2 not in ctx.broken:
        ctx.obligation(name2, "correspondence", True, "%d merged logs: the trie model yields the same tasks as eliot.parse" % agree2)


# =============================================================================================
# (c) preserve_context alone
# =============================================================================================

KW_POOL = ["a", "b", "f", "self", "args", "kwargs", "action", "task_id"]
PY_KINDS = ("function", "named", "partial", "instance")


def preserve_case(case):
    """One scenario on the real code. Returns observations.
    kind of the wrapped callable: a plain function, a function with parameters named like the wrapper's own locals
    (called by keyword), a functools.partial, an instance with __call__, a builtin function, a bound method of a C
    type.  how: called in a new thread / a fresh context / inline inside the originating action / in a thread in a
    copy of the originating context / by `calls` threads at once (race)."""
    import eliot
    import functools
    import operator
    from eliot._action import TooManyCalls

    o = {}
    kind = case.get("kind_f", "function")
    ret = object()
    exc = KeyError("boom") if case["exc"] else None
    calls = []
    MISSING = object()

    def f(*a, **k):
        calls.append([list(a), dict(k)])
        if exc is not None:
            raise exc
        return ret

    def named(f=MISSING, self=MISSING, args=MISSING, kwargs=MISSING, action=MISSING, task_id=MISSING, a=MISSING, b=MISSING):
        given = dict(f=f, self=self, args=args, kwargs=kwargs, action=action, task_id=task_id, a=a, b=b)
        calls.append([[], {k: v for k, v in given.items() if v is not MISSING}])
        if exc is not None:
            raise exc
        return ret

    class Inst(object):
        def __call__(*a, **k):  # no parameter names of its own: `self=` is a legal keyword for the caller
            return f(*a[1:], **k)

    stores = []

    def make(i):
        """(callable, positional arguments, keyword arguments) of the i-th wrapped callable"""
        if kind == "named":
            return named, [], dict(case["kwargs"])
        if kind == "partial":
            return functools.partial(f, 100, p=1), list(case["args"]), dict(case["kwargs"])
        if kind == "instance":
            return Inst(), list(case["args"]), dict(case["kwargs"])
        if kind == "builtin":
            st = {"k": ret}
            stores.append(st)
            return operator.getitem, [st, "missing" if case["exc"] else "k"], {}
        if kind == "cmethod":
            st = {"k": ret}
            stores.append(st)
            return st.pop, ["missing" if case["exc"] else "k"], {}
        return f, list(case["args"]), dict(case["kwargs"])

    msgs = []
    mlock = threading.Lock()

    def dest(m):
        with mlock:
            msgs.append(dict(m))

    def body():
        try:
            if not case["in_action"]:
                fn = make(0)[0]
                g = eliot.preserve_context(fn)
                o["identity"] = g is fn
                return
            how = case.get("how") or ("thread" if case.get("thread") else "fresh")
            outs = []
            made = [make(i) for i in range(case["n"])]
            gs = []

            def once(g, a, k):
                try:
                    r = g(*a, **k)
                    return "ret" if r is ret else "other:%r" % (r,)
                except TooManyCalls:
                    return "TooManyCalls"
                except BaseException as e:  # noqa
                    return "exc" if (exc is not None and e is exc) else "raised:" + type(e).__name__

            def call(g, a, k):
                outs.append([once(g, a, k) for _ in range(case["calls"])])

            def race(g, a, k):
                res = [None] * case["calls"]
                barrier = threading.Barrier(case["calls"])

                def one(j):
                    try:
                        barrier.wait(TIMEOUT)
                    except Exception:  # noqa
                        pass
                    res[j] = once(g, a, k)

                ts = [threading.Thread(target=one, args=(j,), daemon=True) for j in range(case["calls"])]
                for t in ts:
                    t.start()
                for t in ts:
                    t.join(TIMEOUT)
                outs.append(sorted(res, key=lambda x: (x == "TooManyCalls", str(x))))

            def invoke_all():
                for g, (fn, a, k) in zip(gs, made):
                    if how == "race":
                        race(g, a, k)
                        continue
                    if how == "thread":
                        t = threading.Thread(target=call, args=(g, a, k), daemon=True)
                    elif how == "ctxcopy":
                        t = threading.Thread(target=contextvars.copy_context().run, args=(call, g, a, k), daemon=True)
                    else:
                        t = None
                    if t is not None:
                        t.start()
                        t.join(TIMEOUT)
                    elif how == "inline":
                        call(g, a, k)
                    else:
                        contextvars.Context().run(call, g, a, k)

            with eliot.start_action(action_type="app:p"):
                gs += [eliot.preserve_context(fn) for fn, _, _ in made]
                if how in ("inline", "ctxcopy"):
                    # the originating action is the current action where the callable runs
                    invoke_all()
            o["identity"] = any(g is fn for g, (fn, _, _) in zip(gs, made))
            if how not in ("inline", "ctxcopy"):
                invoke_all()
            o["outs"] = outs
            o["calls"] = calls if kind in PY_KINDS else [sorted(st) for st in stores]
            o["levels"] = sorted(m.get("task_level") for m in msgs)
            o["uuids"] = len({m.get("task_uuid") for m in msgs})
        except BaseException as e:  # noqa
            o["error"] = "%s: %s" % (type(e).__name__, str(e)[:200])

    from eliot import _output

    dst = _output.Logger._destinations
    saved = (dst._destinations, dst._any_added, dst._globalFields)
    try:
        dst.__init__()
        eliot.add_destinations(dest)
        contextvars.Context().run(body)
    except BaseException as e:  # noqa
        o["error"] = "%s: %s" % (type(e).__name__, str(e)[:200])
    finally:
        dst._destinations, dst._any_added, dst._globalFields = saved
    return o


def oracle_preserve(case, o):
    if "error" in o:
        return ["the real code raised: " + o["error"]]
    if not case["in_action"]:
        return [] if o.get("identity") is True else ["preserve_context(f) with no current action did not return f itself"]
    kind = case.get("kind_f", "function")
    bad = []
    if o.get("identity"):
        bad.append("preserve_context(f) inside an action returned f itself")
    # the one call that runs f: its result object / its exception object (for C callables: the exception class)
    first = ("exc" if kind in PY_KINDS else "raised:KeyError") if case["exc"] else "ret"
    want = [[first] + ["TooManyCalls"] * (case["calls"] - 1)] * case["n"]
    if o.get("outs") != want:
        bad.append("calls of the preserved %s gave %s, expected %s: exactly one runs it and hands back its result / exception, every other call raises TooManyCalls" % (
            kind, o.get("outs"), want))
    if kind in PY_KINDS:
        pos = ([100] if kind == "partial" else []) + ([] if kind == "named" else list(case["args"]))
        kw = dict(case["kwargs"], **({"p": 1} if kind == "partial" else {}))
        if o.get("calls") != [[pos, kw]] * case["n"]:
            bad.append("the wrapped %s was called with %s, expected %s" % (kind, o.get("calls"), [[pos, kw]] * case["n"]))
    elif kind == "cmethod" and o.get("calls") != [(["k"] if case["exc"] else [])] * case["n"]:
        bad.append("the wrapped bound method dict.pop was not called exactly once with the given key: dicts now hold %s" % (o.get("calls"),))
    # parent: [1] start, n reserved positions 2..n+1 each filled by a remote action of 2 messages, end at [n+2]
    want_levels = sorted([[1], [case["n"] + 2]] + [[k + 2, j] for k in range(case["n"]) for j in (1, 2)])
    if o.get("levels") != want_levels or o.get("uuids") != 1:
        bad.append("messages at %s in %s task(s), expected %s in one task" % (o.get("levels"), o.get("uuids"), want_levels))
    return bad


def run_preserve(ctx):
    rng = ctx.rng("preserve")
    cases = [dict(kind="preserve", in_action=False, exc=False, n=1, calls=1, how="fresh", kind_f="function", args=[], kwargs={})]
    kinds = ["function"] * 5 + ["named"] * 4 + ["partial"] * 3 + ["instance"] * 3 + ["builtin", "cmethod"] * 2
    for _ in range(ctx.budget(120, 1500)):
        kf = rng.choice(kinds)
        how = rng.choice(["thread", "thread", "fresh", "inline", "ctxcopy", "race", "race"])
        cases.append(dict(kind="preserve", in_action=rng.random() < 0.93, exc=rng.random() < 0.4, n=rng.randint(1, 4),
                          calls=(rng.randint(2, 4) if how == "race" else rng.randint(1, 3)), how=how, kind_f=kf,
                          args=[rng.randint(0, 9) for _ in range(rng.randint(0, 2))],
                          kwargs={k: rng.randint(0, 9) for k in rng.sample(KW_POOL, rng.randint(0 if kf != "named" else 1, 3))}))
    for c in cases:
        o = preserve_case(c)
        ctx.case(c, nontrivial=c["in_action"] and (c["n"] >= 2 or c["calls"] >= 2),
                 tags=["preserve:" + ("action" if c["in_action"] else "no-action"), "preserve-call:" + c["how"], "preserve-f:" + c["kind_f"]]
                 + sorted("preserve-kw:" + k for k in c["kwargs"] if k not in ("a", "b")))
        for b in oracle_preserve(c, o):
            ctx.violation(b, dict(c, observed=o), key=None)


# =============================================================================================

def run(ctx):
    run_strings(ctx)
    run_handoffs(ctx)
    run_preserve(ctx)
    # the race between concurrent invocations of one preserve_context callable (colleague's module; theorem
    # Eliot.Conc.Once.at_most_once, skeleton E3, Driver/Once.lean).  An infrastructure problem there is reported
    # as such, never swallowed.
    _once.run_once_race(ctx)


def replay(ctx, obj):
    import random

    case = obj.get("case") or {}
    k = case.get("kind")
    if k == "once":
        _once.replay_once(ctx, obj)
        return
    if k == "program":
        obs = run_program(case["prog"])
        print("errors:", obs["errors"])
        for r in obs["recs"]:
            print("hand-off", r["y"], r["via"], r["form"], bytes(r["id"]) if isinstance(r["id"], list) else r["id"])
        for i, l in enumerate(obs["logs"]):
            print("side", i, [(m.get("task_level"), m.get("action_type") or m.get("message_type")) for m in l])
        for what, key in oracle_program(case["prog"], obs, random.Random(case.get("merge_seed")), case.get("shuffles", 20))[:3]:
            ctx.violation(what, case, key=None)
        return
    if k == "preserve":
        c = {x: case[x] for x in case if x != "observed"}
        o = preserve_case(c)
        print("observed:", o)
        for b in oracle_preserve(c, o):
            ctx.violation(b, case, key=None)
        return
    if k in ("level", "levelstr", "taskid", "idstr"):
        c = {x: case[x] for x in case if x != "observed"}
        o = real_level_case(c)
        print("observed:", o)
        for b in oracle_strings(c, o):
            ctx.violation(b, case, key=None)
        return
    print("nothing to replay for", k)
