"""C06 `at_most_once`: the callable returned by `preserve_context` runs the function at most once even
when invoked concurrently - to be called from harness/props/C06.py as `run_once_race(ctx)`.

2-4 real threads invoke the same preserved callable under the line-level scheduler on
eliot/_action.py.  Quick: all interleavings of the guard region (the lines of the wrapper
`restore_eliot_context` itself; n = 2, 3 exhaustively, n = 4 with <= 3 preemptions); thorough: the
whole of _action.py is gated (continue_task, Action.__enter__/__exit__ ...) with <= 3 preemptions.
Oracle (model-free): exactly one invocation ran f and returned f's result, every other one raised
TooManyCalls, f ran exactly once.  Each executed schedule is also run through the Lean model
(Driver/Once.lean, guard kind from skeleton E3) which must predict who ran and who raised.

LEAN side for C06.py:  LEAN_TARGETS += ["Eliot.Conc.Once", "Eliot.Generated.Once", "Eliot.Proofs.Once"],
theorem `Eliot.Conc.Once.at_most_once` (+ `check_then_set_runs_twice`), generated obligation
`Generated.onceGuard = .tryLock`.
"""
import json
import time

from .. import sched
from ..framework import REPO, lean_driver
from ..extractors import e3_preserve_context

ACTION = str(REPO / "eliot" / "_action.py")
LEAN_TARGETS = ["Eliot.Conc.Once", "Eliot.Generated.Once", "Eliot.Proofs.Once"]
THEOREMS = ["Eliot.Conc.Once.at_most_once", "Eliot.Conc.Once.check_then_set_runs_twice"]
GENERATED_OBLIGATIONS = ["Generated.onceGuard = .tryLock"]


def make_scheduler(whole_file, inner, timeout=30.0):
    return sched.Scheduler([ACTION], [sched.LockLines(ACTION)], timeout=timeout, only_funcs=None if whole_file else {inner})


def run_real(S, n, chooser):
    from eliot import start_action, preserve_context, MemoryLogger, Logger
    from eliot._action import TooManyCalls

    D = Logger._destinations
    saved = (D._destinations, D._any_added)
    D._destinations, D._any_added = [], True
    try:
        ran = []

        def f(x):
            ran.append(x)
            return ("result", x)

        with start_action(MemoryLogger(), "parent"):
            g = preserve_context(f)
        outcomes = {}

        def worker(i):
            def body():
                try:
                    outcomes[i] = ["ok", list(g(i))]
                except TooManyCalls:
                    outcomes[i] = ["TooManyCalls"]
                except BaseException as e:  # noqa - observation
                    outcomes[i] = ["raised", type(e).__name__]
            return body

        res = S.run([worker(i) for i in range(n)], chooser)
    finally:
        D._destinations, D._any_added = saved
    return res, dict(ran=ran, outcomes=[outcomes.get(i) for i in range(n)], same_callable=g is not f)


def oracle(n, res, obs):
    bad = ["the preserved callable changed process-wide state: %s" % c for c in getattr(res, "state_changes", [])]
    if res.deadlock:
        return bad + ["threads deadlocked at %s" % sorted(res.deadlock.items())]
    oks = [i for i, o in enumerate(obs["outcomes"]) if o and o[0] == "ok"]
    others = [o for i, o in enumerate(obs["outcomes"]) if i not in oks]
    if len(obs["ran"]) != 1:
        bad.append("f ran %d times (arguments %s) for %d concurrent invocations" % (len(obs["ran"]), obs["ran"], n))
    if len(oks) != 1:
        bad.append("%d invocations returned normally: %s" % (len(oks), obs["outcomes"]))
    elif obs["outcomes"][oks[0]][1] != ["result", oks[0]] or obs["ran"][:1] != [oks[0]]:
        bad.append("the result of f was not passed through: %s, f ran with %s" % (obs["outcomes"][oks[0]], obs["ran"]))
    if any(o != ["TooManyCalls"] for o in others):
        bad.append("an invocation that did not run f did not raise TooManyCalls: %s" % obs["outcomes"])
    return bad


def model_case(sk, n, res):
    L = sk["lines"]
    inner = sk.get("inner")
    out = []
    for s in res.trace:
        if s.tid < n and s.file == ACTION and s.func == inner and s.line in (L.get("guard"), L.get("set"), L.get("run")):
            # the guard line fires once (entry); the `run` line is `return f(...)`
            out.append(s.tid)
    return dict(n=n, sched=out)


def run_once_race(ctx, seconds=None):
    sk = e3_preserve_context.skeleton(REPO)
    name = "correspondence:once-model"
    inner = sk.get("inner") or "restore_eliot_context"
    rng = ctx.rng("once-schedules")
    deadline = time.time() + (seconds if seconds is not None else ctx.budget(25, 240))
    plans = [(2, False, None, 400), (3, False, None, 1500), (4, False, 3, 1500)]
    if not ctx.quick:
        plans += [(2, True, 3, 4000), (3, True, 3, 4000), (4, True, 2, 4000)]
    model_in, model_ctx = [], []
    nviol = 0
    for pi, (n, whole, bound, limit) in enumerate(plans):
        left = deadline - time.time()
        if left <= 0 or nviol >= 2:
            break
        per_end = time.time() + max(1.0, left / (len(plans) - pi))
        S = make_scheduler(whole, inner)

        def one(how, res, obs):
            case = dict(kind="once", n=n, whole_file=whole, schedule=res.schedule)
            ctx.case(case, nontrivial=res.preemptions >= 1, tags=["once:n:%d" % n, "once:region:" + ("file" if whole else "guard"), "once:sched:" + how,
                                                                  "once:preemptions:%d" % min(res.preemptions, 4)])
            bad = oracle(n, res, obs)
            if bad:
                ctx.violation(bad[0], dict(case, observed=obs, also=bad[1:3]), key=None)
            model_in.append(model_case(sk, n, res))
            model_ctx.append((case, obs))
            return bool(bad)

        stop = False
        for res, obs in sched.explore(lambda ch: run_real(S, n, ch), bound=bound, limit=limit, result=lambda r: r[0]):
            if one("dfs", res, obs):
                nviol += 1
                stop = True
                break
            if time.time() > per_end:
                ctx.count("budget:cut")
                break
        for _ in range(ctx.budget(20, 300)):
            if stop or time.time() > per_end:
                break
            res, obs = run_real(S, n, sched.RandomChooser(rng, stay=rng.choice([0.0, 0.5, 0.8])))
            if one("random", res, obs):
                nviol += 1
                break
    if model_in:
        answers = lean_driver("Driver/Once.lean", model_in)
        agree = 0
        for (case, obs), mo in zip(model_ctx, answers):
            if "bad" in mo:
                ctx.broken_tie(name, "model driver rejected the case: %s" % mo["bad"], case)
                break
            real = dict(runs=len(obs["ran"]), pcs=["ran" if (o and o[0] == "ok") else ("raised" if o == ["TooManyCalls"] else "other") for o in obs["outcomes"]])
            model = dict(runs=mo["runs"], pcs=mo["pcs"])
            if real != model:
                ctx.broken_tie(name, "model and real run differ", dict(case, real=real, model=model))
                if len(ctx.extra.get("disagreements", [])) > 20:
                    break
            else:
                ctx.traces += 1
                agree += 1
        if name not in ctx.broken:
            ctx.obligation(name, "correspondence", True, "%d executed schedules: model predicts which invocation ran f and which raised" % agree)


def replay_once(ctx, obj):
    case = obj.get("case") or {}
    if case.get("kind") != "once":
        return False
    sk = e3_preserve_context.skeleton(REPO)
    S = make_scheduler(case["whole_file"], sk.get("inner") or "restore_eliot_context")
    res, obs = run_real(S, case["n"], sched.Explicit(case["schedule"]))
    print("executed:", [(s.tid, s.line, s.func) for s in res.trace])
    print("observed:", json.dumps(obs))
    bad = oracle(case["n"], res, obs)
    if bad:
        ctx.violation(bad[0], dict(case, observed=obs, also=bad[1:3]))
    return True
