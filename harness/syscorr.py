"""Correspondence run shared by the properties decided over the sequential core model."""
from .framework import lean_driver, canon
from . import sysgen, sysinterp

COMPARE = ["offered", "accepted", "outcome", "probes", "ctx"]


def run_programs(ctx, n, profile, oracle, label="prog", nontrivial=None, name="correspondence:sys-model", compare=None, transform=None):
    """`compare`: the observation keys this property's theorems speak about (others are not compared, so
    that a change irrelevant to the property does not break its tie)."""
    compare = compare or COMPARE
    rng = ctx.rng(label)
    cases = [sysgen.gen_case(rng, profile) for _ in range(n)]
    if transform:
        cases = [transform(c, rng) for c in cases]
    model = lean_driver("Driver/Sys.lean", cases)
    agree = 0
    for case, mo in zip(cases, model):
        ctx.running(case, "a logging program")
        real, rt = sysinterp.run_case(case)
        ctx.running(None)
        oracle(ctx, case, real, rt)
        st = sysgen.stats(case["prog"])
        nt = nontrivial(case, real, st) if nontrivial else (st["depth"] >= 2 and len(real["offered"]) >= 3)
        ctx.case(case, nontrivial=nt, tags=["depth:%d" % min(st["depth"], 6)] + ["op:" + o for o in st["ops"]], sample=(st["stmts"] <= 8))
        ctx.count("messages_offered", n=len(real["offered"]))
        if "bad" in mo:
            ctx.broken_tie(name, "model driver rejected the case: %s" % mo["bad"], case)
            continue
        if mo.get("outcome") == "stuck":
            ctx.count("model_stuck")
            continue
        diffs = [k for k in compare if canon(real.get(k)) != canon(mo.get(k))]
        if diffs:
            k = diffs[0]
            detail = "real and model differ in %s" % ",".join(diffs)
            a, b = real.get(k), mo.get(k)
            if isinstance(a, list) and isinstance(b, list):
                i = next((i for i, (x, y) in enumerate(zip(a, b)) if canon(x) != canon(y)), min(len(a), len(b)))
                detail += " at index %d: real=%s model=%s" % (i, canon(a[i]) if i < len(a) else None, canon(b[i]) if i < len(b) else None)
            else:
                detail += ": real=%s model=%s" % (canon(a), canon(b))
            ctx.broken_tie(name, detail[:1500], case)
        else:
            agree += 1
            ctx.traces += 1
    if name not in ctx.broken:
        ctx.obligation(name, "correspondence", True, "%d programs: real eliot and Lean model agree on every destination's offered/accepted sequence, outcome, context probes" % agree)
    return cases
