"""
Generator of logging programs + environments for the sequential core model (DESIGN.md 2.3, 2.8).

case = {"env": env, "prog": [stmt...]}
stmt : {"op":"with","task":bool,"spec":spec,"body":[..]} | {"op":"log","ms":mspec} | {"op":"raise","e":i}
     | {"op":"try","body":[..],"handler":[..]} | {"op":"tb"} | {"op":"startAs","x":n,"task":b,"spec":spec}
     | {"op":"withHandle","x":n,"body":[..]} | {"op":"inContext",..} | {"op":"runIn",..}
     | {"op":"finish","x":n,"exc":i|null} | {"op":"addSuccess","x":n|null,"fs":fields} | {"op":"logTo","x":n,"ms":mspec}
     | {"op":"serializeAs","y":n,"x":n|null} | {"op":"continueWith","y":n,"spec":spec,"body":[..]}
     | {"op":"addDests","ds":[d]} | {"op":"removeDest","d":d} | {"op":"addGlobals","fs":fields} | {"op":"probe","n":n}
spec : {"atype":str,"fields":fields,"sers":null|{"start":[[key,sid]],"success":[[key,sid]]}}
mspec: {"mtype":str,"fields":fields,"sers":null|[[key,sid]]}
fields: [[key, {"n":int}|{"s":str}|{"o":id}]]
env  : {"classes":[{"id","name","bases","mro","qualname"}], "excs":[{"id","cls","str":s|null}], "keyErrorClass":105,
        "extractors":[{"cls","fields","failAt":[[k,excId]]}], "serFail":[[k,excId]], "destFail":[[d,k,excId]]}
All randomness comes from the `rng` passed in.
"""
from .sysinterp import builtin_classes, construct_exc

DEFAULT_PROFILE = dict(
    max_depth=4, max_stmts=18, n_dests=(1, 3), p_dest_fail=0.15, p_typed=0.3, p_ser_fail=0.12,
    p_missing_field=0.05, p_extractor=0.5, p_ext_fail=0.25, p_str_raises=0.2, p_late_add=0.2,
    p_handles=0.35, p_remote=0.25, p_globals=0.2, p_probe=0.3, p_raise=0.3, p_task=0.1, p_remove=0.08,
    p_reserved=0.0, p_deferred=0.2, p_ext_reserved=0.0,
)

KEYS = ["x", "y", "z", "k1", "k2"]


def gen_classes(rng):
    """Generated exception hierarchy (multiple inheritance allowed) + the builtin rows."""
    bi = builtin_classes()
    ids = {v: k for k, v in bi.items()}
    pyc = dict(bi)
    rows = []
    n = rng.randint(2, 6)
    for i in range(n):
        for _ in range(10):
            pool = [c for c in pyc if c < 100] + [101, 101, 101, 100, 102, 103, 104, 107, 109]
            nb = 1 if rng.random() < 0.7 else 2
            bases = []
            for _ in range(nb):
                b = rng.choice(pool)
                if b not in bases:
                    bases.append(b)
            # a class whose __module__ is not a string (created by `type(name, bases, {...})` in some RPC / deserialisation
            # layers): eliot names exception classes "<module>.<name>" in several places
            odd = rng.random() < 0.15
            try:
                k = type("C%d" % i, tuple(pyc[b] for b in bases), {"__module__": None if odd else "vmod"})
            except TypeError:
                continue
            pyc[i] = k
            ids[k] = i
            rows.append(dict(id=i, name="C%d" % i, bases=bases, falsy=rng.random() < 0.25, oddmod=odd,
                             unhashable=rng.random() < 0.15))  # e.g. a plain @dataclass exception: defines __eq__, hence no __hash__
            break
    diamond = None
    gen_now = [c for c in pyc if c < 100]
    if len(gen_now) >= 2 and rng.random() < 0.4:
        # multiple inheritance from two generated classes that both (will) have an extractor of their own: the extractor of a
        # failed action is the one of the NEAREST class in the exception's MRO, whatever the registration order and however
        # deep the other branch is
        for _ in range(10):
            b0, b1 = rng.sample(gen_now, 2)
            try:
                k = type("C%d" % n, (pyc[b0], pyc[b1]), {"__module__": "vmod"})
            except TypeError:
                continue
            pyc[n] = k
            ids[k] = n
            rows.append(dict(id=n, name="C%d" % n, bases=[b0, b1], falsy=False, oddmod=False, unhashable=False))
            diamond = (n, b0, b1)
            break
    gen_classes.diamond = diamond
    table = []
    for cid, k in sorted(pyc.items()):
        mro = [ids[c] for c in k.__mro__ if c in ids]
        row = dict(id=cid, name=k.__name__, bases=[], mro=mro, qualname="%s.%s" % (k.__module__, k.__name__))
        for r in rows:
            if r["id"] == cid:
                row["bases"] = r["bases"]
                row["falsy"] = r["falsy"]
                row["oddmod"] = r["oddmod"]
                row["unhashable"] = r["unhashable"]
        table.append(row)
    return table, pyc


def gen_env(rng, prof):
    classes, pyc = gen_classes(rng)
    gen_ids = [c["id"] for c in classes if c["id"] < 100]
    raisable = gen_ids + [102, 103, 104, 107, 101, 109, 109]
    excs = []
    for i in range(8):
        c = rng.choice(gen_ids if rng.random() < 0.75 else raisable)
        if c < 100:
            s = None if rng.random() < prof["p_str_raises"] else "exc%d" % i
        else:
            s = str(construct_exc(pyc[c], "exc%d" % i))
        excs.append(dict(id=i, cls=c, str=s, str_base=(s is None and rng.random() < 0.4)))
    # failure exceptions of callbacks: ids 8..11, plain generated Exception subclasses mostly
    exc_classes = [c for c in gen_ids if issubclass(pyc[c], Exception)] or [107]
    for i in range(8, 12):
        # 8, 9: raised by destinations (only `Exception`s are isolated there); 10, 11: raised by field serializers and
        # exception extractors, where eliot catches everything, so these may derive from BaseException only
        c = rng.choice(exc_classes + [107]) if i < 10 else rng.choice(exc_classes + gen_ids + [107, 103])
        s = ("cb%d" % i) if (c >= 100 or rng.random() > prof["p_str_raises"]) else None
        if c >= 100:
            s = str(construct_exc(pyc[c], "exc%d" % i))
        excs.append(dict(id=i, cls=c, str=s))
    extractors = []
    for c in gen_ids + [101, 100]:
        if rng.random() < prof["p_extractor"] * (0.3 if c >= 100 else 1):
            fail = []
            if rng.random() < prof["p_ext_fail"]:
                if rng.random() < 0.2:
                    # permanently broken extractor (also for the exceptions it raises itself, when registered on a base class)
                    fail = [[4294967295, rng.randint(8, 11)]]  # on every call
                else:
                    for k in range(8):
                        if rng.random() < 0.4:
                            fail.append([k, rng.randint(8, 11)])
            fields = [["ex%d" % c, {"n": c}]]
            if prof.get("p_ext_reserved") and rng.random() < prof["p_ext_reserved"]:
                # an extractor whose result happens to use key names eliot sets itself afterwards
                fields.append([rng.choice(["reason", "exception", "traceback"]), {"s": "from-extractor"}])
            extractors.append(dict(cls=c, fields=fields, failAt=fail))
    dia = getattr(gen_classes, "diamond", None)
    if dia is not None and prof["p_extractor"] > 0:
        d, b0, b1 = dia
        for b in (b0, b1):
            if not any(e["cls"] == b for e in extractors):
                extractors.append(dict(cls=b, fields=[["ex%d" % b, {"n": b}]], failAt=[]))
        if not issubclass(pyc[d], BaseExceptionGroup):
            excs[0] = dict(id=0, cls=d, str="exc0", str_base=False)
    # the order in which the application registered its extractors is not the order of any MRO
    rng.shuffle(extractors)
    ser_fail = [[k, rng.randint(8, 11)] for k in range(12) if rng.random() < prof["p_ser_fail"]]
    dest_fail = []
    for d in range(4):
        dens = rng.choice([0, 0, prof["p_dest_fail"], prof["p_dest_fail"], 0.5, 1.0])
        for k in range(40):
            if rng.random() < dens:
                dest_fail.append([d, k, rng.randint(8, 9)])
    return dict(classes=classes, excs=excs, keyErrorClass=105, extractors=extractors, serFail=ser_fail, destFail=dest_fail)


class PG:
    def __init__(self, rng, prof):
        self.rng, self.prof = rng, prof
        self.budget = prof["max_stmts"]
        self.nvar = 0
        self.nid = 0
        self.nprobe = 0
        self.nser = 0
        self.dests = []
        self.added = False

    def fields(self, n=None):
        rng = self.rng
        n = rng.randint(0, 3) if n is None else n
        out = []
        names = rng.sample(KEYS, n)
        if self.prof.get("p_reserved") and rng.random() < self.prof["p_reserved"]:
            # field names that coincide with the structural keys eliot sets itself afterwards
            names = names + [rng.choice(["task_level", "task_uuid", "timestamp"])]
        for k in names:
            r = rng.random()
            v = {"n": rng.randint(0, 9)} if r < 0.5 else ({"s": rng.choice(["a", "b c", "é"])} if r < 0.8 else {"o": rng.randint(0, self.prof.get("obj_max", 3))})
            out.append([k, v])
        return out

    def sid(self):
        self.nser += 1
        return self.nser

    def spec(self):
        rng = self.rng
        f = self.fields()
        sers = None
        if rng.random() < self.prof["p_typed"]:
            f = [kv for kv in f if kv[0] not in ("task_level", "task_uuid", "timestamp")]
            start = [[k, self.sid()] for k, _ in f]
            if rng.random() < self.prof["p_missing_field"]:
                start.append(["missing", self.sid()])
            success = [[k, self.sid()] for k in rng.sample(KEYS, rng.randint(0, 2))]
            sers = dict(start=start, success=success)
            if rng.random() < 0.25:
                f = f + [["undeclared", {"n": rng.randint(0, 9)}]]  # a field the type does not declare: passed on untouched
        self.nact = getattr(self, "nact", 0) + 1
        atype = "%s#%d" % (rng.choice(["app:a", "app:b", "app:c"]), self.nact)
        if sers is None and rng.random() < 0.04:
            atype = ""  # start_action()'s default action type
        return dict(atype=atype, fields=f, sers=sers), sers

    def mspec(self):
        rng = self.rng
        f = self.fields()
        sers = None
        seen = self.__dict__.setdefault("typed_msgs", [])
        if seen and rng.random() < self.prof["p_typed"] * 0.4:
            # log through a message type that was used before (one MessageType object, many messages - the usual way to
            # use one), often with the very same values
            old = rng.choice(seen)
            f = [[k, (v if rng.random() < 0.6 else {"n": rng.randint(0, 9)})] for k, v in old["fields"]]
            return dict(mtype=old["mtype"], fields=f, sers=old["sers"])
        if rng.random() < self.prof["p_typed"]:
            f = [kv for kv in f if kv[0] not in ("task_level", "task_uuid", "timestamp")]
            sers = [[k, self.sid()] for k, _ in f]
            if rng.random() < self.prof["p_missing_field"]:
                sers.append(["missing", self.sid()])
            if rng.random() < 0.25:
                f = f + [["undeclared", {"n": rng.randint(0, 9)}]]
        ms = dict(mtype=rng.choice(["app:m1", "app:m2"]), fields=f, sers=sers)
        if sers is not None:
            seen.append(ms)
        return ms

    def block(self, depth, st):
        """st: dict(handles=[(x, entered?)...], ids=[y...], in_handler=bool, in_action=bool, succ_keys=...)"""
        rng, prof = self.rng, self.prof
        out = []
        n = rng.randint(1, 4)
        for _ in range(n):
            if self.budget <= 0:
                break
            self.budget -= 1
            r = rng.random()
            if r < 0.22 and depth < prof["max_depth"]:
                sp, sers = self.spec()
                task = rng.random() < prof["p_task"]
                st2 = dict(st, in_action=True, cur_success=(sers or {}).get("success"))
                body = self.block(depth + 1, st2)
                if sers and sers["success"] and rng.random() < 0.8:
                    body.append(dict(op="addSuccess", x=None, fs=[[k, {"n": 1}] for k, _ in sers["success"]]))
                elif rng.random() < 0.3:
                    body.append(dict(op="addSuccess", x=None, fs=self.fields(1)))
                if rng.random() < prof["p_raise"]:
                    body.append(dict(op="raise", e=rng.randint(0, 7)))
                stmt = dict(op="with", task=task, spec=sp, body=body)
                if rng.random() < 0.6 and body and body[-1]["op"] == "raise":
                    handler = [dict(op="tb")] if rng.random() < 0.5 else []
                    if rng.random() < 0.5:
                        handler.append(dict(op="log", ms=self.mspec()))
                    stmt = dict(op="try", body=[stmt], handler=handler)
                out.append(stmt)
            elif r < 0.5:
                out.append(dict(op="log", ms=self.mspec()))
            elif r < 0.5 + 0.12 * (prof["p_handles"] > 0) and rng.random() < prof["p_handles"] * 2:
                out.extend(self.handle_ops(depth, st))
            elif r < 0.7 and rng.random() < prof["p_remote"] and (st["in_action"] or st["handles"]):
                y = self.nid
                self.nid += 1
                x = None if st["in_action"] and rng.random() < 0.7 else (rng.choice(st["handles"]) if st["handles"] else None)
                if x is None and not st["in_action"]:
                    continue
                out.append(dict(op="serializeAs", y=y, x=x))
                self.nact = getattr(self, "nact", 0) + 1
                sp = dict(atype="eliot:remote_task#%d" % self.nact if rng.random() < 0.5 else "eliot:remote_task", fields=self.fields(1), sers=None)
                # the continuation may be placed anywhere later (also inside some `with x:`), so its body must not
                # enter any existing action with `with` (nested `with` on one Action object is documented misuse)
                body = self.block(depth + 1, dict(st, in_action=True, entered=frozenset(st["all_handles"]))) if depth < prof["max_depth"] else []
                cont = dict(op="continueWith", y=y, spec=sp, body=body)
                if rng.random() < 0.5:
                    out.append(cont)
                else:
                    st["pending"].append(cont)
            elif r < 0.78 and rng.random() < prof["p_probe"]:
                out.append(dict(op="probe", n=self.nprobe))
                self.nprobe += 1
            elif r < 0.84 and rng.random() < prof["p_globals"]:
                out.append(dict(op="addGlobals", fs=[[rng.choice(["g1", "g2", "x"]), {"n": rng.randint(10, 19)}]]))
            elif r < 0.9:
                out.extend(self.dest_ops())
            else:
                body = self.block(depth + 1, st) if depth < prof["max_depth"] else []
                body.append(dict(op="raise", e=rng.randint(0, 7)))
                handler = [dict(op="tb")] if rng.random() < 0.6 else []
                handler += self.block(depth + 1, dict(st, in_handler=True)) if depth < prof["max_depth"] and rng.random() < 0.5 else []
                out.append(dict(op="try", body=body, handler=handler))
            if st.get("pending") and rng.random() < 0.4:
                out.append(st["pending"].pop(0))
            if st["all_handles"] and rng.random() < prof["p_deferred"] and self.budget > 0:
                # use, from here, an action object that was created somewhere else earlier (maybe inside an action that has ended)
                self.budget -= 1
                x = rng.choice(st["all_handles"])
                r2 = rng.random()
                if r2 < 0.35 and x not in st["entered"]:
                    sub = dict(st, in_action=True, entered=st["entered"] | {x})
                    body = [dict(op="probe", n=self.nprobe)] + (self.block(depth + 1, sub) if depth < prof["max_depth"] else [])
                    self.nprobe += 1
                    out.append(dict(op="withHandle", x=x, body=body))
                elif r2 < 0.6:
                    out.append(dict(op=rng.choice(["inContext", "runIn"]), x=x, body=[dict(op="probe", n=self.nprobe), dict(op="log", ms=self.mspec())]))
                    self.nprobe += 1
                elif r2 < 0.8:
                    out.append(dict(op="logTo", x=x, ms=self.mspec()))
                else:
                    out.append(dict(op="finish", x=x, exc=None))
                out.append(dict(op="probe", n=self.nprobe))
                self.nprobe += 1
        return out

    def dest_ops(self):
        rng = self.rng
        if not self.added or rng.random() < 0.6:
            lo, hi = self.prof["n_dests"]
            new = [d for d in range(4) if d not in self.dests]
            ds = rng.sample(new, min(len(new), rng.randint(0 if self.added else lo, hi)))
            self.dests += ds
            self.added = True
            return [dict(op="addDests", ds=ds)]
        if self.dests and rng.random() < self.prof["p_remove"] * 5:
            d = rng.choice(self.dests)
            self.dests.remove(d)
            return [dict(op="removeDest", d=d)]
        return []

    def handle_ops(self, depth, st):
        rng = self.rng
        out = []
        x = self.nvar
        self.nvar += 1
        sp, sers = self.spec()
        out.append(dict(op="startAs", x=x, task=rng.random() < 0.15, spec=sp))
        st["handles"] = st["handles"] + [x]
        st["all_handles"].append(x)
        k = rng.randint(1, 3)
        finished = False
        for _ in range(k):
            r = rng.random()
            sub = dict(st, in_action=True)
            if r < 0.3:
                body = self.block(depth + 1, sub) if depth < self.prof["max_depth"] else []
                if rng.random() < 0.45:
                    # re-enter the same action's context()/run() while already inside it
                    inner = [dict(op="probe", n=self.nprobe)]
                    self.nprobe += 1
                    if rng.random() < 0.5:
                        inner.append(dict(op="log", ms=self.mspec()))
                    if rng.random() < 0.3:
                        inner.append(dict(op="raise", e=rng.randint(0, 7)))
                        body = body + [dict(op="try", body=[dict(op=rng.choice(["inContext", "runIn"]), x=x, body=inner)], handler=[])]
                    else:
                        body = body + [dict(op=rng.choice(["inContext", "runIn"]), x=x, body=inner)]
                    body.append(dict(op="probe", n=self.nprobe))
                    self.nprobe += 1
                if rng.random() < 0.3:
                    # finish the action while it is still the current one (whatever its extractors log lands in it)
                    body = body + [dict(op="finish", x=x, exc=None if rng.random() < 0.3 else rng.randint(0, 7))]
                    if rng.random() < 0.5:
                        body.append(dict(op="log", ms=self.mspec()))
                    finished = True
                out.append(dict(op=rng.choice(["inContext", "runIn"]), x=x, body=body))
                out.append(dict(op="probe", n=self.nprobe))
                self.nprobe += 1
            elif r < 0.45:
                out.append(dict(op="logTo", x=x, ms=self.mspec()))
            elif r < 0.6:
                out.append(dict(op="addSuccess", x=x, fs=self.fields(1)))
            elif r < 0.8 and x not in st["entered"]:
                body = self.block(depth + 1, dict(sub, entered=st["entered"] | {x})) if depth < self.prof["max_depth"] else []
                if rng.random() < 0.4:
                    # use the action's context()/run() while inside `with x:`
                    body = body + [dict(op=rng.choice(["inContext", "runIn"]), x=x, body=[dict(op="probe", n=self.nprobe)]),
                                   dict(op="probe", n=self.nprobe + 1)]
                    self.nprobe += 2
                out.append(dict(op="withHandle", x=x, body=body))
                out.append(dict(op="probe", n=self.nprobe))
                self.nprobe += 1
                finished = True
            else:
                out.append(dict(op="finish", x=x, exc=None if rng.random() < 0.6 else rng.randint(0, 7)))
                finished = True
        if not finished or rng.random() < 0.3:
            out.append(dict(op="finish", x=x, exc=None if rng.random() < 0.7 else rng.randint(0, 7)))
        if rng.random() < 0.2:
            out.append(dict(op="finish", x=x, exc=None))
        return out


def wrap_try_top(prog):
    return prog


def gen_case(rng, profile=None):
    prof = dict(DEFAULT_PROFILE, **(profile or {}))
    env = gen_env(rng, prof)
    pg = PG(rng, prof)
    st = dict(handles=[], ids=[], in_handler=False, in_action=False, pending=[], all_handles=[], entered=frozenset())
    prog = []
    if rng.random() > prof["p_late_add"]:
        prog += pg.dest_ops()
    prog += pg.block(0, st)
    while pg.budget > 0 and rng.random() < 0.7:
        prog += pg.block(0, st)
    for cont in st.get("pending", []):
        prog.append(cont)
    if not pg.added or rng.random() < 0.3:
        prog += pg.dest_ops()
    # destinations that compare equal although they are different objects (two fresh dataclass collectors, two empty
    # list-subclass sinks): only in programs that never unregister - `remove_destination` goes by equality on purpose
    # (a bound method is a new object at every attribute access), so there equal means "the same"
    env["eqDests"] = stats(prog)["ops"].get("removeDest", 0) == 0 and rng.random() < 0.3
    env["sameExcObj"] = rng.random() < 0.3
    env["warnErrors"] = rng.random() < 0.3
    env["fileDests"] = rng.random() < 0.3
    return dict(env=env, prog=prog)


def stats(prog, depth=0, acc=None):
    acc = acc if acc is not None else dict(stmts=0, depth=0, ops={})
    for s in prog:
        acc["stmts"] += 1
        acc["depth"] = max(acc["depth"], depth)
        acc["ops"][s["op"]] = acc["ops"].get(s["op"], 0) + 1
        for k in ("body", "handler"):
            if k in s:
                stats(s[k], depth + 1, acc)
    return acc
