"""Child process of the C11 check: logs a generated program through eliot.to_file into a file-object
wrapper around a raw fd, acknowledges every returned logging call on a pipe, and can SIGKILL itself
at a chosen point.  Run as:  /venv/bin/python c11_child.py SPEC.json   (PYTHONPATH = the eliot repo)

spec = {"log": path, "ackfd": n, "ops": [...], "sink": "raw"|"buffered", "chunk": bytes per os.write,
        "kill": null | {"at": "before-write"|"in-write"|"after-write"|"after-flush", "n": message index (0-based),
                        "chunks": c | null, "offset": o | null}}
     kill {"at": "after-nested-ack", "n": k}: right after the k-th logging call made by the JSON default hook has returned
     field value {"$noisy": n}: an object the hook logs a message ("hook:note", n=n) about before returning "noisy-<n>"
ops: {"op":"msg","type":t,"fields":{..}} | {"op":"action","type":t,"fields":{..},"body":[..],"fail":bool,"end":{..}}
     field values: JSON values; {"$big": n, "c": ch} stands for a string of n characters.
Ack pipe: b"R" once eliot is imported and the destination installed, b"W<len>;" when write() is entered
for a message line, b"A" after each logging call returned (each call emits exactly one message), b"D" at the end.
"""
import json
import os
import signal
import sys


def die():
    os.kill(os.getpid(), signal.SIGKILL)
    while True:      # never reached: SIGKILL cannot be handled
        pass


class KillFile(object):
    """binary file object over a raw fd (no user-space buffer) or over Python's BufferedWriter"""

    def __init__(self, fd, spec):
        self.fd = fd
        self.ackfd = int(spec["ackfd"])
        self.kill = spec.get("kill")
        self.chunk = int(spec.get("chunk") or 1 << 16)
        self.n = -1        # index of the message being written (the probe write(b"") is not one)
        self.inner = None
        if spec.get("sink") == "buffered":
            import io
            self.inner = io.BufferedWriter(io.FileIO(fd, "ab", closefd=False), buffer_size=int(spec.get("bufsize") or 8192))

    def _k(self, at):
        k = self.kill
        return k is not None and k["at"] == at and k["n"] == self.n

    def write(self, data):
        if not isinstance(data, (bytes, bytearray, memoryview)):
            raise TypeError("a bytes-like object is required, not %s" % type(data).__name__)
        if len(data) == 0:
            return 0
        self.n += 1
        os.write(self.ackfd, b"W%d;" % len(data))      # the parent learns the length of the line being written
        if self._k("before-write"):
            die()
        if self.inner is not None:
            self.inner.write(data)
        else:
            view = memoryview(data)
            off = 0
            chunks = 0
            k = self.kill if self._k("in-write") else None
            while off < len(view):
                end = min(len(view), off + self.chunk)
                if k is not None and k.get("offset") is not None and off <= k["offset"] < end:
                    if k["offset"] > off:
                        os.write(self.fd, view[off:k["offset"]])
                    die()
                if k is not None and k.get("chunks") is not None and chunks == k["chunks"]:
                    die()
                done = os.write(self.fd, view[off:end])
                off += done
                chunks += 1
            if k is not None:
                die()    # asked for a point past the end: the whole line is out, flush not called yet
        if self._k("after-write"):
            die()
        return len(data)

    def flush(self):
        if self.inner is not None:
            self.inner.flush()
        if self._k("after-flush"):
            die()


class Noisy(object):
    """a value the JSON default hook of this program knows - and logs a message about, from inside the destination"""

    def __init__(self, n):
        self.n = n


def expand(v):
    if isinstance(v, dict) and "$big" in v:
        return str(v.get("c", "x")) * int(v["$big"])
    if isinstance(v, dict) and "$noisy" in v:
        return Noisy(int(v["$noisy"]))
    if isinstance(v, dict):
        return {k: expand(x) for k, x in v.items()}
    if isinstance(v, list):
        return [expand(x) for x in v]
    return v


class Boom(Exception):
    pass


def main():
    spec = json.load(open(sys.argv[1]))
    ackfd = int(spec["ackfd"])
    fd = os.open(spec["log"], os.O_WRONLY | os.O_CREAT | os.O_APPEND, 0o644)
    import eliot
    from eliot import start_action, log_message
    if spec.get("whoami"):
        with open(os.path.join(os.path.dirname(sys.argv[1]), "whoami"), "w") as wf:
            wf.write(eliot.__file__)
    sink = str(spec.get("sink") or "")
    if sink.startswith("pyfile:"):
        # the application's own file object, handed to the library as it is: append / update / write modes (BufferedWriter,
        # BufferedRandom, TextIOWrapper), default or explicit buffer size; kill points are then the returns of logging calls
        mode = sink.split(":", 1)[1]
        opts = None
        if ":" in mode:
            mode, opts = mode.split(":", 1)
        kw = {"buffering": int(spec["bufsize"])} if spec.get("bufsize") else {}
        if "b" not in mode:
            kw.update(encoding="utf-8", newline="")
        os.close(fd)
        f = open(spec["log"], mode, **kw)
        if opts:
            f.reconfigure(**{opts: True})     # a text stream the application reconfigured: write_through / line_buffering
    else:
        f = KillFile(fd, spec)
    nack = [0]

    def ack():
        os.write(ackfd, b"A")
        k = spec.get("kill")
        if k is not None and k["at"] == "after-ack":
            if k["n"] == nack[0]:
                die()
        nack[0] += 1

    nested = [0]
    kill = spec.get("kill")

    def hook(o):
        # a caller's json_default that logs: the logging call is made from inside FileDestination.__call__
        # (re-entrant logging on the same thread); it is acknowledged like every other logging call
        if isinstance(o, Noisy):
            log_message(message_type="hook:note", n=o.n)
            ack()
            if kill is not None and kill["at"] == "after-nested-ack" and kill["n"] == nested[0]:
                die()
            nested[0] += 1
            return "noisy-%d" % o.n
        from eliot.json import json_default
        return json_default(o)

    eliot.to_file(f, json_default=hook)

    def run(ops):
        for op in ops:
            if op["op"] == "msg":
                log_message(message_type=op["type"], **expand(op["fields"]))
                ack()
            else:
                act = start_action(action_type=op["type"], **expand(op["fields"]))
                ack()
                try:
                    with act:
                        run(op["body"])
                        act.add_success_fields(**expand(op["end"]))
                        if op["fail"]:
                            raise Boom("boom")
                except Boom:
                    pass
                ack()

    os.write(ackfd, b"R")
    run(spec["ops"])
    os.write(ackfd, b"D")
    os._exit(0)


if __name__ == "__main__":
    main()
