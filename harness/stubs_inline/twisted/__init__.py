"""Minimal stand-in for the three Twisted modules eliot/twisted.py imports, used only by the C15 check to run the real
`eliot.twisted.inline_callbacks` (Twisted is not installed in the sandbox).  Not Twisted: just enough of Deferred,
Failure and inlineCallbacks to drive a generator with results of Deferreds that fire now or later."""
