class Logger(object):
    def __init__(self, namespace=None, **kw):
        self.namespace = namespace

    def emit(self, *a, **kw):
        pass

    info = debug = warn = error = critical = emit
