from functools import wraps

from twisted.python.failure import Failure


class Deferred(object):
    """callbacks run in order, each gets the previous result; a Failure result goes to errbacks"""

    def __init__(self):
        self.called = False
        self.result = None
        self._chain = []

    def addCallbacks(self, callback, errback=None, *a, **kw):
        self._chain.append((callback, errback))
        if self.called:
            self._run()
        return self

    def addCallback(self, f, *a, **kw):
        return self.addCallbacks(lambda r: f(r, *a, **kw), None)

    def addErrback(self, f, *a, **kw):
        return self.addCallbacks(None, lambda r: f(r, *a, **kw))

    def addBoth(self, f, *a, **kw):
        return self.addCallbacks(lambda r: f(r, *a, **kw), lambda r: f(r, *a, **kw))

    def callback(self, result):
        self.called, self.result = True, result
        self._run()

    def errback(self, fail=None):
        if not isinstance(fail, Failure):
            fail = Failure(fail)
        self.callback(fail)

    def _run(self):
        while self._chain:
            cb, eb = self._chain.pop(0)
            f = eb if isinstance(self.result, Failure) else cb
            if f is None:
                continue
            try:
                self.result = f(self.result)
            except BaseException as e:  # noqa
                self.result = Failure(e)


def succeed(result):
    d = Deferred()
    d.callback(result)
    return d


def fail(result=None):
    d = Deferred()
    d.errback(result)
    return d


def inlineCallbacks(f):
    """drive the generator: a yielded Deferred's result is sent in (a Failure is thrown in) when it has fired - at once
    if it already has, else from whoever fires it; other yielded values are sent straight back"""

    @wraps(f)
    def unwind(*a, **kw):
        g = f(*a, **kw)
        out = Deferred()

        def step(result):
            while True:
                try:
                    if isinstance(result, Failure):
                        y = g.throw(result.value)
                    else:
                        y = g.send(result)
                except StopIteration as s:
                    out.callback(s.value)
                    return None
                except BaseException as e:  # noqa
                    out.errback(Failure(e))
                    return None
                if isinstance(y, Deferred):
                    if not y.called:
                        y.addBoth(step)
                        return None
                    result = y.result
                else:
                    result = y

        step(None)
        return out

    return unwind
