import sys


class Failure(object):
    def __init__(self, exc_value=None, exc_type=None, exc_tb=None):
        if exc_value is None:
            exc_type, exc_value, exc_tb = sys.exc_info()
        self.value = exc_value
        self.type = exc_type or type(exc_value)
        self.tb = exc_tb

    def getTracebackObject(self):
        return self.tb

    def check(self, *types):
        for t in types:
            if isinstance(self.value, t):
                return t
        return None

    def trap(self, *types):
        if not self.check(*types):
            raise self.value
        return self.check(*types)

    def throwExceptionIntoGenerator(self, g):
        return g.throw(self.value)
