#!/bin/sh
# Runs the quick check of every claimed property against /repo (rewrites evidence/); prints one line each.
cd "$(dirname "$0")"
for p in $(python3 -c "import json; print(' '.join(c['property_id'] for c in json.load(open('MANIFEST.json'))['checks']))"); do
  out=$(bin/check "$p" 2>&1 | grep -v '^KNOWN-FINDING' | tail -1)
  echo "$out"
done
