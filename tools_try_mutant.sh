#!/bin/sh
# tools_try_mutant.sh <patch.diff> <PROP> [more PROPs...]: apply a seeded change, run the quick checks, undo it.
# (NOLEAN=1 SCRATCHLEAN=" " runs the Lean stage too, still against the scratch copy: the generated skeleton files are rewritten from the
# copy under the build lock and put back afterwards.)
# With NOLEAN=1 the change is applied to a scratch copy of /repo's working tree (ELIOT_REPO points the harness at it), so several
# runs can go on at once and /repo is never touched.  Without it the change is applied to /repo itself (one run at a time, under a
# lock) and the full check, Lean stage included, runs as it would for anyone else; refuses when /repo has changes of its own.
patch=$(readlink -f "$1"); shift
if [ -n "$NOLEAN" ]; then
  tmp=$(mktemp -d /tmp/mutrun.XXXXXX)
  git -C /repo ls-files -z | (cd /repo && xargs -0 cp --parents -t "$tmp")
  (cd "$tmp" && mkdir .evidence && git apply "$patch") || { echo "patch does not apply"; rm -rf "$tmp"; exit 2; }
  for p in "$@"; do
    out=$(cd /verif && VERIF_EVIDENCE_DIR="$tmp/.evidence" ELIOT_REPO="$tmp" bin/check "$p" ${SCRATCHLEAN:---no-lean} 2>&1 | grep -v "^KNOWN-FINDING" | tail -2 | tr '\n' ' ')
    echo "$p: $out"
  done
  rm -rf "$tmp"
  exit 0
fi
exec 9>/tmp/mutant.lock
flock 9
if [ -n "$(git -C /repo status --porcelain --untracked-files=no)" ]; then echo "refusing: /repo has uncommitted changes"; exit 2; fi
git -C /repo apply "$patch" || { echo "patch does not apply"; exit 2; }
for p in "$@"; do
  out=$(cd /verif && bin/check "$p" 2>&1 | grep -v "^KNOWN-FINDING" | tail -2 | tr '\n' ' ')
  echo "$p: $out"
done
git -C /repo checkout -- .
# put the generated skeleton tables back to /repo's own
cd /verif && /venv/bin/python -c "
import sys; sys.path.insert(0,'/verif')
from pathlib import Path
from harness import extract
extract.regenerate(Path('/repo'), Path('/verif/lean/Eliot/Generated'))" >/dev/null
