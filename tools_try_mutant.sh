#!/bin/sh
# tools_try_mutant.sh <patch.diff> <PROP> [more PROPs...]: apply a seeded change to /repo, run the quick checks, undo it.
# Refuses to run when /repo has uncommitted changes of its own.
patch="$1"; shift
if [ -n "$(git -C /repo status --porcelain --untracked-files=no)" ]; then echo "refusing: /repo has uncommitted changes"; exit 2; fi
git -C /repo apply "$patch" || { echo "patch does not apply"; exit 2; }
for p in "$@"; do
  out=$(cd /verif && bin/check "$p" ${NOLEAN:+--no-lean} 2>&1 | grep -v "^KNOWN-FINDING" | tail -2 | tr '\n' ' ')
  echo "$p: $out"
done
git -C /repo checkout -- .
# put the generated skeleton tables back to /repo's own
cd /verif && /venv/bin/python -c "
import sys; sys.path.insert(0,'/verif')
from pathlib import Path
from harness import extract
extract.regenerate(Path('/repo'), Path('/verif/lean/Eliot/Generated'))" >/dev/null
