-- Root of the `Eliot` library: every property module (models and proofs are pulled in by them).
import Eliot.Properties.C04
import Eliot.Properties.C07
import Eliot.Properties.C08
import Eliot.Properties.C09
import Eliot.Properties.C13
import Eliot.Properties.C14
