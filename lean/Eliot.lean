-- Root of the `Eliot` library: every property module (models and proofs are pulled in by them).
import Eliot.Properties.C01
import Eliot.Properties.C02
import Eliot.Properties.C03
import Eliot.Properties.C04
import Eliot.Properties.C05
import Eliot.Properties.C07
import Eliot.Properties.C08
import Eliot.Properties.C09
import Eliot.Properties.C10
import Eliot.Properties.C11
import Eliot.Properties.C12
import Eliot.Properties.C13
import Eliot.Properties.C14
import Eliot.Properties.C15
import Eliot.Properties.C17
import Eliot.Properties.C18
import Eliot.Properties.C20
