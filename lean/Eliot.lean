-- Root of the `Eliot` library: models, proofs, property theorems.
import Eliot.Properties.C09
