import Lean.Data.Json
import Eliot.Conc.MemLog
import Eliot.Conc.FileLines
import Eliot.Generated.MemLog
/-! Line-protocol driver for the C16 models.
in : {"kind":"memlog","prog":[[{"meth","cid","tag"?,"fails"?}...] per thread],"sched":[thread ids]}
out: {"messages":[cid],"serializers":[cid],"tracebacks":[cid],"failed":[cid],"hist":[[thread,cid]],
      "lock":null|thread,"done":bool,"reads":[[cid,field,[cid]]]}
     (the table is the regenerated `Generated.memoryLogger`)
in : {"kind":"file","ops":["writeWhole"|"writeBody"|"writeBreak"|"flush"...],"prog":[[[code points]...]...],"sched":[...]}
out: {"content":[code points],"log":[[thread,[code points]]],"done":bool} -/
open Lean Eliot.Conc

def parseCall (j : Json) : Except String MemLog.Call := do
  let meth ← j.getObjValAs? String "meth"
  let cid ← j.getObjValAs? Nat "cid"
  let tag := (j.getObjValAs? Nat "tag").toOption.getD 0
  let fails := (j.getObjValAs? Bool "fails").toOption.getD false
  pure { meth, cid, tag, fails }

def progOf {α : Type} (threads : List (List α)) : Nat → List α := fun t => threads.getD t []

def fldName : MemLog.Fld → String
  | .messages => "messages" | .serializers => "serializers" | .tracebacks => "tracebacks" | .failed => "failed"

def runMemlog (j : Json) : Except String Json := do
  let threads ← j.getObjValAs? (List (List Json)) "prog"
  let threads ← threads.mapM (fun th => th.mapM parseCall)
  let sched ← j.getObjValAs? (List Nat) "sched"
  let s := MemLog.run Eliot.Generated.memoryLogger (MemLog.init (progOf threads)) sched
  let ids (f : MemLog.Fld) : Json := toJson ((s.mem.fld f).map (·.cid))
  let n := threads.length
  let done := (List.range n).all (fun t => (s.pending t).isEmpty && (match s.pc t with | .idle => true | _ => false))
  pure <| Json.mkObj [("messages", ids .messages), ("serializers", ids .serializers), ("tracebacks", ids .tracebacks),
    ("failed", ids .failed), ("hist", toJson (s.hist.map (fun p => [p.1, p.2.cid]))),
    ("lock", match s.lock with | none => Json.null | some h => toJson h), ("done", toJson done),
    ("reads", Json.arr (s.mem.reads.map (fun r => Json.arr #[toJson r.1, toJson (fldName r.2.1), toJson (r.2.2.map (·.cid))])).toArray)]

def parseOp : String → Except String FileLines.FOp
  | "writeWhole" => pure .writeWhole | "writeBody" => pure .writeBody | "writeBreak" => pure .writeBreak
  | "flush" => pure .flush | s => throw s!"unknown file op {s}"

def runFile (j : Json) : Except String Json := do
  let ops ← (← j.getObjValAs? (List String) "ops").mapM parseOp
  let threads ← j.getObjValAs? (List (List (List Nat))) "prog"
  let sched ← j.getObjValAs? (List Nat) "sched"
  let s := FileLines.run ops (FileLines.init (progOf threads)) sched
  let done := (List.range threads.length).all (fun t => (s.pending t).isEmpty && (s.pc t).isNone)
  pure <| Json.mkObj [("content", toJson s.content), ("done", toJson done),
    ("log", Json.arr (s.log.map (fun w => Json.arr #[toJson w.1, toJson w.2])).toArray)]

def answer (line : String) : Json :=
  match Json.parse line with
  | .error e => Json.mkObj [("bad", toJson e)]
  | .ok j =>
    let r := match j.getObjValAs? String "kind" with
      | .ok "memlog" => runMemlog j
      | .ok "file" => runFile j
      | .ok k => .error s!"unknown kind {k}"
      | .error e => .error e
    match r with
    | .ok o => o
    | .error e => Json.mkObj [("bad", toJson e)]

partial def loop (h : IO.FS.Stream) : IO Unit := do
  let line ← h.getLine
  if line.isEmpty then return ()
  IO.println (answer line).compress
  loop h

def main : IO Unit := do loop (← IO.getStdin)
