import Lean.Data.Json
import Eliot.Conc.Once
import Eliot.Generated.Once
/-! Line-protocol driver for the single-use guard model (C06 at_most_once; used by harness/props/_once.py).
in : {"n":threads,"sched":[thread ids]}        (guard kind = regenerated `Generated.onceGuard`)
out: {"runs":k,"pcs":["start"|"checked"|"passed"|"ran"|"raised" per thread],"guard":"tryLock|checkThenSet|other"} -/
open Lean Eliot.Conc Eliot.Conc.Once

def pcName : Pc → String
  | .start => "start" | .checked => "checked" | .passed => "passed" | .ran => "ran" | .raised => "raised"

def answer (line : String) : Json :=
  let r : Except String Json := do
    let j ← Json.parse line
    let n ← j.getObjValAs? Nat "n"
    let sched ← j.getObjValAs? (List Nat) "sched"
    let g := Eliot.Generated.onceGuard
    let s := run g n sched
    let gn := match g with | .tryLock => "tryLock" | .checkThenSet => "checkThenSet" | .other => "other"
    pure <| Json.mkObj [("runs", toJson s.runs), ("pcs", toJson ((List.range n).map (fun t => pcName (s.pc t)))), ("guard", gn)]
  match r with
  | .ok o => o
  | .error e => Json.mkObj [("bad", toJson e)]

partial def loop (h : IO.FS.Stream) : IO Unit := do
  let line ← h.getLine
  if line.isEmpty then return ()
  IO.println (answer line).compress
  loop h

def main : IO Unit := do loop (← IO.getStdin)
