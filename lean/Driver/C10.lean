import Lean.Data.Json
import Eliot.Model.Json
import Eliot.Model.File
/-! Line-protocol driver for the JSON / file model (C10, C11).

Values cross the protocol as tagged trees (`cps` = array of code points, so lone surrogates survive):
  {"t":"null"} {"t":"bool","v":true} {"t":"int","v":"-12"} {"t":"float","v":"1e+22"} {"t":"str","v":cps}
  {"t":"list","v":[tree..]} {"t":"dict","v":[[key,tree]..]}  key = {"t":"str","v":cps} | {"t":"other"}
  {"t":"path","v":cps} {"t":"date","v":"iso"} {"t":"time","v":"iso"} {"t":"timetz"} {"t":"isosub","v":"iso"} {"t":"set","v":[tree..]}
  {"t":"complex","re":"tok","im":"tok"} {"t":"custom","v":tree} {"t":"unsupported"}
("own":true, optional, with "ext":true: the caller's default does not chain to eliot's json_default -> `ownView`)
in : {"op":"dumps","ext":bool,"v":tree}        out: {"t":[cp..],"b":"hex"} | {"err":kind}
in : {"op":"loads","s":[cp..]}                 out: {"v":jtree (objects as pair lists),"n":jtree (objects as dicts)} | {"none":true}
     jtree: null/bool/int as above, {"t":"num","v":"tok"}, {"t":"str","v":cps}, {"t":"arr","v":[..]}, {"t":"obj","v":[[cps,jtree]..]}
in : {"op":"file","mode":"binary"|"text","ext":bool,"msgs":[tree..]}
                                               out: {"calls":[["w",[unit..]] | ["f"] ..]}
in : {"op":"crash","lens":[n..],"css":[[n..]..],"k":n}   (C11; line i = n_i-1 bytes `97` and a newline)
                                               out: {"disk":n,"acked":n,"read":n,"steps":n}
     disk = bytes on disk, read = number of complete lines the reader returns, steps = length of the run
-/
open Lean EJ

def cpsOfString (s : String) : List Nat := s.toList.map Char.toNat
def stringOfCps (l : List Nat) : String := String.ofList (l.map Char.ofNat)

def getCps (j : Json) : Except String (List Nat) := do
  let a ← j.getArr?
  a.toList.mapM fun x => x.getNat?

partial def toPy (j : Json) : Except String PyVal := do
  let t ← j.getObjValAs? String "t"
  match t with
  | "null" => pure .null
  | "bool" => pure (.bool (← j.getObjValAs? Bool "v"))
  | "int" =>
    match (← j.getObjValAs? String "v").toInt? with
    | some i => pure (.int i)
    | none => throw "bad int"
  | "float" => pure (.float (cpsOfString (← j.getObjValAs? String "v")))
  | "str" => pure (.str (← getCps (← j.getObjVal? "v")))
  | "list" => pure (.list (← (← (← j.getObjVal? "v").getArr?).toList.mapM toPy))
  | "set" => pure (.set (← (← (← j.getObjVal? "v").getArr?).toList.mapM toPy))
  | "dict" =>
    let kvs ← (← (← j.getObjVal? "v").getArr?).toList.mapM fun kv => do
      let a ← kv.getArr?
      if h : a.size = 2 then
        let kt ← a[0].getObjValAs? String "t"
        let k ← if kt == "str" then (do pure (PyKey.str (← getCps (← a[0].getObjVal? "v")))) else pure PyKey.other
        let v ← toPy a[1]
        pure (k, v)
      else throw "bad pair"
    pure (.dict kvs)
  | "path" => pure (.path (← getCps (← j.getObjVal? "v")))
  | "date" => pure (.date (cpsOfString (← j.getObjValAs? String "v")))
  | "time" => pure (.time (cpsOfString (← j.getObjValAs? String "v")))
  | "timetz" => pure .timeTz
  | "isosub" => pure (.isoSub (cpsOfString (← j.getObjValAs? String "v")))
  | "complex" => pure (.complex (cpsOfString (← j.getObjValAs? String "re")) (cpsOfString (← j.getObjValAs? String "im")))
  | "custom" => pure (.custom (← toPy (← j.getObjVal? "v")))
  | "unsupported" => pure .unsupported
  | _ => throw s!"unknown tag {t}"

def cpsJ (l : List Nat) : Json := Json.arr (l.map (fun (n : Nat) => toJson n)).toArray

partial def ofJ : JVal → Json
  | .null => Json.mkObj [("t", "null")]
  | .bool b => Json.mkObj [("t", "bool"), ("v", Json.bool b)]
  | .int i => Json.mkObj [("t", "int"), ("v", toString i)]
  | .num tok => Json.mkObj [("t", "num"), ("v", stringOfCps tok)]
  | .str s => Json.mkObj [("t", "str"), ("v", cpsJ s)]
  | .arr xs => Json.mkObj [("t", "arr"), ("v", Json.arr (xs.map ofJ).toArray)]
  | .obj kvs => Json.mkObj [("t", "obj"), ("v", Json.arr (kvs.map fun (k, v) => Json.arr #[cpsJ k, ofJ v]).toArray)]

def hexOf (l : List Nat) : String :=
  String.ofList (l.flatMap fun b => [Char.ofNat (hexDigit (b / 16)), Char.ofNat (hexDigit (b % 16))])

def errJ (e : EncErr) : Json := Json.mkObj [("err", (reprStr e))]

def handle (j : Json) : Except String Json := do
  let op ← j.getObjValAs? String "op"
  match op with
  | "dumps" =>
    let ext ← j.getObjValAs? Bool "ext"
    let own := (j.getObjValAs? Bool "own").toOption.getD false
    let v0 ← toPy (← j.getObjVal? "v")
    let v := if own then ownView v0 else v0
    match dumpsText ext v, dumpsBytes ext v with
    | .ok t, .ok b => pure (Json.mkObj [("t", cpsJ t), ("b", hexOf b)])
    | .error e, .error e' => pure (if e = e' then errJ e else Json.mkObj [("bad", "text and bytes differ")])
    | _, _ => pure (Json.mkObj [("bad", "text and bytes differ")])
  | "loads" =>
    let s ← getCps (← j.getObjVal? "s")
    match decode s with
    | some v => pure (Json.mkObj [("v", ofJ v), ("n", ofJ v.norm)])
    | none => pure (Json.mkObj [("none", true)])
  | "file" =>
    let ext ← j.getObjValAs? Bool "ext"
    let mode ← j.getObjValAs? String "mode"
    let own := (j.getObjValAs? Bool "own").toOption.getD false
    let msgs0 ← (← (← j.getObjVal? "msgs").getArr?).toList.mapM toPy
    let msgs := if own then msgs0.map ownView else msgs0
    let calls := fileCalls (if mode == "text" then .text else .binary) ext msgs
    pure (Json.mkObj [("calls", Json.arr (calls.map fun
      | .write c => Json.arr #["w", cpsJ c]
      | .flush => Json.arr #["f"]).toArray)])
  | "crash" =>
    let lens ← j.getObjValAs? (List Nat) "lens"
    let css ← j.getObjValAs? (List (List Nat)) "css"
    let k ← j.getObjValAs? Nat "k"
    let lines := lens.map fun n => List.replicate (n - 1) 97 ++ [10]
    let steps := logAll lines css
    let st := crash k steps
    pure (Json.mkObj [("disk", st.disk.length), ("acked", st.acked), ("read", (readLines st.disk).length),
                      ("steps", steps.length)])
  | _ => throw s!"unknown op {op}"

partial def loop (h : IO.FS.Stream) : IO Unit := do
  let line ← h.getLine
  if line.isEmpty then return ()
  let out := match Json.parse line with
    | .ok j => match handle j with
      | .ok r => r
      | .error e => Json.mkObj [("bad", toJson e)]
    | .error e => Json.mkObj [("bad", toJson e)]
  IO.println out.compress
  loop h

def main : IO Unit := do loop (← IO.getStdin)
