import Lean.Data.Json
import Eliot.Model.LogCall
/-! Line-protocol driver for the `log_call` model (C18).
in : {"sig":[{"name","kind":"posOnly|posOrKw|varPos|kwOnly|varKw","default"?:val}],
      "pos":[val], "kw":[[name,val]...],
      "opts":{"action_type":str|null,"include_args":[str]|null,"include_result":bool},
      "meta":{"module","qualname"}, "body":{"raise":bool,"ret":val}}
     val = null | int | string
out: {"wf","noStructural","gcaAgrees","bindingAgrees","posOnlyRespected","decorate","bind","gca","direct","wrapper"} -/
open Lean LC

def parseVal (j : Json) : Except String Val :=
  match j with
  | .null => pure .none
  | .str s => pure (.str s)
  | .num _ => do let n ← j.getInt?; pure (.int n)
  | _ => throw "bad value"

def parseKind (s : String) : Except String Kind :=
  match s with
  | "posOnly" => pure .posOnly | "posOrKw" => pure .posOrKw | "varPos" => pure .varPos
  | "kwOnly" => pure .kwOnly | "varKw" => pure .varKw
  | _ => throw s!"bad kind {s}"

def parseParam (j : Json) : Except String Param := do
  let name ← j.getObjValAs? String "name"
  let kind ← (j.getObjValAs? String "kind") >>= parseKind
  let default ← match j.getObjVal? "default" with
    | .ok d => (parseVal d).map some
    | .error _ => pure Option.none
  pure { name, kind, default }

def parseKw (j : Json) : Except String (String × Val) := do
  let a ← j.getArr?
  match a.toList with
  | [k, v] => do pure (← k.getStr?, ← parseVal v)
  | _ => throw "bad kw pair"

def valJ : Val → Json
  | .none => Json.null
  | .int n => toJson n
  | .str s => toJson s

def bvalJ : BVal → Json
  | .one v => valJ v
  | .tup vs => Json.mkObj [("t", Json.arr (vs.map valJ).toArray)]
  | .dict kvs => Json.mkObj [("d", Json.mkObj (kvs.map fun (k, v) => (k, valJ v)))]

def errJ (e : TypeErr) : Json := Json.mkObj [("err", toJson (reprStr e))]

def boundJ : Except TypeErr (Dict BVal) → Json
  | .ok b => Json.mkObj [("ok", Json.mkObj (b.map fun (k, v) => (k, bvalJ v)))]
  | .error e => errJ e

def excJ : Exc → Json
  | .typeError => "TypeError" | .attributeError => "AttributeError" | .keyError => "KeyError"
  | .valueError => "ValueError" | .body _ => "body"

def outcomeJ : Outcome → Json
  | .ret _ => Json.mkObj [("ret", Json.null)]
  | .raised e => Json.mkObj [("raised", excJ e)]

def fvalJ : FVal → Json
  | .arg v => Json.mkObj [("arg", bvalJ v)]
  | .res v => Json.mkObj [("res", valJ v)]
  | .sys t => Json.mkObj [("sys", toJson t)]

def msgJ (m : Msg) : Json := Json.mkObj (m.map fun (k, v) => (k, fvalJ v))

def runJ (w : Run) : Json :=
  Json.mkObj [("result", outcomeJ w.result), ("msgs", Json.arr (w.msgs.map msgJ).toArray)]

def sortB (b : Bound) : Bound := (b.toArray.qsort (fun a c => a.1 < c.1)).toList

def runCase (j : Json) : Except String Json := do
  let sig : Sig ← (← (j.getObjVal? "sig") >>= (·.getArr?)).toList.mapM parseParam
  let pos ← (← (j.getObjVal? "pos") >>= (·.getArr?)).toList.mapM parseVal
  let kw ← (← (j.getObjVal? "kw") >>= (·.getArr?)).toList.mapM parseKw
  let o ← j.getObjVal? "opts"
  let actionType := (o.getObjValAs? String "action_type").toOption
  let includeArgs := (o.getObjValAs? (List String) "include_args").toOption
  let includeResult ← o.getObjValAs? Bool "include_result"
  let opts : Opts := { actionType, includeArgs, includeResult }
  let mj ← j.getObjVal? "meta"
  let m : FnMeta := { module := ← mj.getObjValAs? String "module", qualname := ← mj.getObjValAs? String "qualname" }
  let bj ← j.getObjVal? "body"
  let raises ← bj.getObjValAs? Bool "raise"
  let ret ← (bj.getObjVal? "ret") >>= parseVal
  -- the body returns an encoding of its own locals, so that different bindings give different results
  let f : Body := fun b => if raises then .raised (.body 1) else
    .ret (.str (reprStr ret ++ "|" ++ (boundJ (.ok (sortB b))).compress))
  let parseOpts (o : Json) : Except String Opts := do
    pure { actionType := (o.getObjValAs? String "action_type").toOption,
           includeArgs := (o.getObjValAs? (List String) "include_args").toOption,
           includeResult := ← o.getObjValAs? Bool "include_result" }
  -- optional outer layer of a stacked decoration: {"outer_opts": opts, "outer_meta": {"module","qualname"}}
  let stacked : Json ← match j.getObjVal? "outer_opts" with
    | .ok (.null) => pure Json.null
    | .error _ => pure Json.null
    | .ok oj => do
      let oo ← parseOpts oj
      let omj ← j.getObjVal? "outer_meta"
      let om : FnMeta := { module := ← omj.getObjValAs? String "module", qualname := ← omj.getObjValAs? String "qualname" }
      let r := decoratedTwice om m sig oo opts f pos kw
      let ib : Json := match outer sig.demote pos kw with
        | .error _ => Json.null
        | .ok (p1, k1) => match outer sig p1 k1 with
          | .error _ => Json.null
          | .ok (p2, k2) => boundJ (bind sig p2 k2)
      pure (Json.mkObj [("run", runJ r), ("innerBound", ib), ("transparent", toJson (decide (r.result = callDirect sig f pos kw))),
                        ("decorate", match decorate sig oo with | .ok _ => "ok" | .error e => excJ e)])
  let w := wrapper m sig opts f pos kw
  let d := decorated m sig opts f pos kw
  let direct := callDirect sig f pos kw
  let outerJ : Json := match outer sig pos kw with
    | .error e => errJ e
    | .ok (p', k') => Json.mkObj [("ok", Json.mkObj [("pos", Json.arr (p'.map valJ).toArray),
        ("kw", Json.arr (k'.map fun (k, v) => Json.arr #[toJson k, valJ v]).toArray)])]
  let innerBound : Json := match outer sig pos kw with
    | .error _ => Json.null
    | .ok (p', k') => boundJ (bind sig p' k')
  pure <| Json.mkObj [
    ("wf", toJson sig.WF), ("noStructural", toJson sig.noStructural), ("capturesCall", toJson sig.capturesCall),
    ("gcaAgrees", toJson (getcallargsAgrees sig pos kw)),
    ("bindingAgrees", toJson (bindingAgrees sig pos kw)), ("posOnlyRespected", toJson (posOnlyRespected sig kw)),
    ("decorate", match decorate sig opts with | .ok _ => "ok" | .error e => excJ e),
    ("bind", boundJ (bind sig pos kw)), ("gca", boundJ (getcallargs sig pos kw)),
    ("outer", outerJ), ("innerBound", innerBound),
    ("direct", outcomeJ direct),
    ("wrapper", runJ w), ("wrapperTransparent", toJson (decide (w.result = direct))),
    ("decorated", runJ d), ("transparent", toJson (decide (d.result = direct))), ("stacked", stacked)]

partial def loop (h : IO.FS.Stream) : IO Unit := do
  let line ← h.getLine
  if line.isEmpty then return ()
  let out := match Json.parse line with
    | .ok j => match runCase j with
      | .ok r => r
      | .error e => Json.mkObj [("bad", toJson e)]
    | .error e => Json.mkObj [("bad", toJson e)]
  IO.println out.compress
  loop h

def main : IO Unit := do loop (← IO.getStdin)
