import Lean.Data.Json
import Eliot.Model.Validation
/-! Line-protocol driver for the validation model (C14).

val    = null | true | false | {"i":"<digits>"} | {"f":[n,k]} | {"s":str} | {"bytes":id} | {"list":[id,enc]} | {"dict":[id,enc]} | {"obj":[id,enc]}
key    = str | {"b":[id,utf8]} | {"o":id}
field  = {"t":"types","key","classes":[cls],"extra":id|null} | {"t":"value","key","value":val(scalar)} | {"t":"custom","key","ser":id,"extra":id|null}
ser    = null | {"fields":[field],"allowExtra":bool}
env    = {"sers":[[id,[rule]]], "extras":[[id,[rule]]]}
         rule = {"cls":cls|"*", "ret":val} | {"cls":cls|"*", "raise":exc} | {"eq":val(scalar), "raise":exc}     first match wins; default: keep / ok
in : {"kind":"validate","env","ser","msg":[[key,val]]}                 out: {"validate","mem","accepts":[[key,bool]]}
     {"kind":"logger","env","writes":[{"ser","msg","tb":bool}]}        out: {"failed","tracebacks","validateAll","check"}
     {"kind":"types","message_type","fields","action_type","start","success"}  out: allowExtra flags + field keys
     {"kind":"ops","env","ops":[{"write":{"ser","msg","tb"}} | "validate" | "reset" | "check"]}   out: {"results":[per validate/check],"failed","tracebacks","stored"}
     {"kind":"test","test": {"body":o} | {"swaps":t} | {"captured":t} | {"inner":[t,rest]}, "default":n}   out: {"seen","final","created"} -/
open Lean VM

def parseCls (s : String) : Except String PyClass :=
  match s with
  | "NoneType" => pure .noneType | "bool" => pure .bool | "int" => pure .int | "float" => pure .float
  | "str" => pure .str | "list" => pure .list | "dict" => pure .dict | "bytes" => pure .bytes | "type" => pure .type | "other" => pure .other
  | _ => throw s!"bad class {s}"

def parseExc (s : String) : Exc :=
  match s with
  | "ValidationError" => .validationError | "TypeError" => .typeError | "UnicodeDecodeError" => .unicodeDecodeError
  | "UnflushedTracebacks" => .unflushedTracebacks | n => .other n

def excName : Exc → String
  | .validationError => "ValidationError" | .typeError => "TypeError" | .unicodeDecodeError => "UnicodeDecodeError"
  | .unflushedTracebacks => "UnflushedTracebacks" | .other n => n

def idEnc (j : Json) : Except String (Nat × Bool) := do
  let a ← j.getArr?
  match a.toList with
  | [i, e] => do pure (← i.getNat?, ← e.getBool?)
  | _ => throw "bad [id, enc]"

def parseVal (j : Json) : Except String Val :=
  match j with
  | .null => pure .none
  | .bool b => pure (.bool b)
  | _ =>
    match j.getObjVal? "i" with
    | .ok d => do
      match (← d.getStr?).toInt? with
      | some i => pure (.int i)
      | none => throw "bad int"
    | .error _ =>
    match j.getObjVal? "f" with
    | .ok d => do
      let a ← d.getArr?
      match a.toList with
      | [n, k] => do pure (.flt (← n.getInt?) (← k.getNat?))
      | _ => throw "bad float"
    | .error _ =>
    match j.getObjVal? "s" with
    | .ok d => do pure (.str (← d.getStr?))
    | .error _ =>
    match j.getObjVal? "bytes" with
    | .ok d => do pure (.bytes (← d.getNat?))
    | .error _ =>
    match j.getObjVal? "cls" with
    | .ok d => do pure (.cls (← d.getNat?))
    | .error _ =>
    match j.getObjVal? "list" with
    | .ok d => do let (i, e) ← idEnc d; pure (.list i e)
    | .error _ =>
    match j.getObjVal? "dict" with
    | .ok d => do let (i, e) ← idEnc d; pure (.dict i e)
    | .error _ =>
    match j.getObjVal? "obj" with
    | .ok d => do let (i, e) ← idEnc d; pure (.obj i e)
    | .error _ => throw s!"bad value {j.compress}"

def parseScalar (j : Json) : Except String Scalar := do
  match ← parseVal j with
  | .none => pure .none | .bool b => pure (.bool b) | .int i => pure (.int i) | .flt n k => pure (.flt n k)
  | .str s => pure (.str s)
  | _ => throw "not a scalar"

def parseKey (j : Json) : Except String Key :=
  match j with
  | .str s => pure (.s s)
  | _ =>
    match j.getObjVal? "b" with
    | .ok d => do let (i, e) ← idEnc d; pure (.b i e)
    | .error _ => do pure (.o (← j.getObjValAs? Nat "o"))

def optNat (j : Json) (k : String) : Option Nat := (j.getObjValAs? Nat k).toOption

def parseField (j : Json) : Except String FieldSpec := do
  let t ← j.getObjValAs? String "t"
  let key ← j.getObjValAs? String "key"
  match t with
  | "types" => do
    let cs ← (← j.getObjValAs? (List String) "classes").mapM parseCls
    pure (.forTypes key cs (optNat j "extra"))
  | "value" => do pure (.forValue key (← (j.getObjVal? "value") >>= parseScalar))
  | "custom" => do pure (.custom key (← j.getObjValAs? Nat "ser") (optNat j "extra"))
  | _ => throw s!"bad field kind {t}"

def parseFields (j : Json) : Except String (List FieldSpec) := do
  (← j.getArr?).toList.mapM parseField

/-- ser = null | "traceback" | {"fields","allowExtra"} | {"message_type":mt,"fields":[..]}
       | {"action_type":at,"start":[..],"success":[..],"which":"start"|"success"|"failure"} -/
def parseSer (j : Json) : Except String (Option Serializer) :=
  match j with
  | .null => pure none
  | .str _ => pure (some tracebackSerializer)
  | _ =>
    match j.getObjValAs? String "message_type" with
    | .ok mt => do pure (some (messageTypeSerializer mt (← (j.getObjVal? "fields") >>= parseFields)))
    | .error _ =>
    match j.getObjValAs? String "action_type" with
    | .ok atype => do
      let a := actionTypeSerializers atype (← (j.getObjVal? "start") >>= parseFields) (← (j.getObjVal? "success") >>= parseFields)
      match ← j.getObjValAs? String "which" with
      | "start" => pure (some a.start) | "success" => pure (some a.success) | "failure" => pure (some a.failure)
      | w => throw s!"bad which {w}"
    | .error _ => do
      let fields ← (j.getObjVal? "fields") >>= parseFields
      pure (some { fields, allowExtra := ← j.getObjValAs? Bool "allowExtra" })

def parseMsg (j : Json) : Except String Msg := do
  (← j.getArr?).toList.mapM fun e => do
    match (← e.getArr?).toList with
    | [k, v] => do pure (← parseKey k, ← parseVal v)
    | _ => throw "bad pair"

inductive Rule where
  | cls (c : Option PyClass) (act : Except Exc (Option Val))   -- none = "*"; ok none = keep; ok (some v) = return v
  | eq (s : Scalar) (e : Exc)

def parseRule (j : Json) : Except String Rule := do
  match j.getObjVal? "eq" with
  | .ok d => do pure (.eq (← parseScalar d) (parseExc (← j.getObjValAs? String "raise")))
  | .error _ => do
    let cs ← j.getObjValAs? String "cls"
    let c ← if cs == "*" then pure none else (parseCls cs).map some
    match j.getObjVal? "ret" with
    | .ok d => do pure (.cls c (.ok (some (← parseVal d))))
    | .error _ => do pure (.cls c (.error (parseExc (← j.getObjValAs? String "raise"))))

def ruleHits (v : Val) : Rule → Bool
  | .cls none _ => true
  | .cls (some c) _ => v.classOf == c
  | .eq s _ => pyEq v s

def applySer (rules : List Rule) (v : Val) : Except Exc Val :=
  match rules.find? (ruleHits v) with
  | none => .ok v
  | some (.cls _ (.ok none)) => .ok v
  | some (.cls _ (.ok (some r))) => .ok r
  | some (.cls _ (.error e)) => .error e
  | some (.eq _ e) => .error e

def applyExtra (rules : List Rule) (v : Val) : Except Exc Unit :=
  match applySer rules v with
  | .ok _ => .ok ()
  | .error e => .error e

def parseTable (j : Json) : Except String (List (Nat × List Rule)) := do
  (← j.getArr?).toList.mapM fun e => do
    match (← e.getArr?).toList with
    | [i, rs] => do pure (← i.getNat?, ← (← rs.getArr?).toList.mapM parseRule)
    | _ => throw "bad table row"

def parseEnv (j : Json) : Except String Env := do
  let sers ← (j.getObjVal? "sers") >>= parseTable
  let extras ← (j.getObjVal? "extras") >>= parseTable
  pure { serialize := fun i v => applySer ((sers.lookup i).getD []) v
         extra := fun i v => applyExtra ((extras.lookup i).getD []) v }

def resJ : Except Exc Unit → Json
  | .ok _ => "ok"
  | .error e => toJson (excName e)

partial def parseTest (j : Json) : Except String Test :=
  match j.getObjVal? "body" with
  | .ok o => do
    match ← o.getStr? with
    | "pass" => pure (.body .pass) | "fail" => pure (.body .fail) | "error" => pure (.body .error) | "skip" => pure (.body .skip)
    | s => throw s!"bad outcome {s}"
  | .error _ =>
    match j.getObjVal? "logs_bad" with
    | .ok t => do pure (.logsBad (← parseTest t))
    | .error _ =>
    match j.getObjVal? "swaps" with
    | .ok t => do pure (.swaps (← parseTest t))
    | .error _ =>
    match j.getObjVal? "captured" with
    | .ok t => do pure (.captured (← parseTest t))
    | .error _ => do
      let a ← (j.getObjVal? "inner") >>= (·.getArr?)
      match a.toList with
      | [t, r] => do pure (.inner (← parseTest t) (← parseTest r))
      | _ => throw "bad inner"

def runCase (j : Json) : Except String Json := do
  let kind ← j.getObjValAs? String "kind"
  match kind with
  | "validate" => do
    let E ← (j.getObjVal? "env") >>= parseEnv
    let ser ← (j.getObjVal? "ser") >>= parseSer
    let m ← (j.getObjVal? "msg") >>= parseMsg
    let v : Json := match ser with | some s => resJ (validate E s m) | none => "none"
    let acc : List Json := match ser with
      | none => []
      | some s => s.fields.filterMap fun f => (m.get? f.key).map fun x => Json.arr #[toJson f.key, toJson (accepts E f x)]
    pure (Json.mkObj [("validate", v), ("mem", resJ (memValidate E ser m)), ("accepts", Json.arr acc.toArray)])
  | "logger" => do
    let E ← (j.getObjVal? "env") >>= parseEnv
    let ws ← (← (j.getObjVal? "writes") >>= (·.getArr?)).toList.mapM fun w => do
      let ser ← (w.getObjVal? "ser") >>= parseSer
      let m ← (w.getObjVal? "msg") >>= parseMsg
      pure ({ msg := m, ser, isTraceback := ← w.getObjValAs? Bool "tb" } : Written)
    let l := ws.foldl (fun l w => l.write E w) ({} : MemLogger)
    pure (Json.mkObj [("failed", toJson l.failed), ("tracebacks", toJson l.tracebacks.length),
                      ("validateAll", resJ (validateAll E l.messages)), ("check", resJ (checkForErrors E l))])
  | "ops" => do
    let E ← (j.getObjVal? "env") >>= parseEnv
    let ops ← (← (j.getObjVal? "ops") >>= (·.getArr?)).toList.mapM fun o => do
      match o with
      | .str "validate" => pure Op.validate
      | .str "reset" => pure Op.reset
      | .str "check" => pure Op.check
      | _ => do
        let w ← o.getObjVal? "write"
        let ser ← (w.getObjVal? "ser") >>= parseSer
        let m ← (w.getObjVal? "msg") >>= parseMsg
        pure (Op.write { msg := m, ser, isTraceback := ← w.getObjValAs? Bool "tb" })
    let r := MemLogger.run E {} ops
    pure (Json.mkObj [("results", Json.arr (r.2.map resJ).toArray), ("failed", toJson r.1.failed),
                      ("tracebacks", toJson r.1.tracebacks.length), ("stored", toJson r.1.messages.length)])
  | "types" => do
    let mt ← j.getObjValAs? String "message_type"
    let fields ← (j.getObjVal? "fields") >>= parseFields
    let atype ← j.getObjValAs? String "action_type"
    let start ← (j.getObjVal? "start") >>= parseFields
    let success ← (j.getObjVal? "success") >>= parseFields
    let ms := messageTypeSerializer mt fields
    let asr := actionTypeSerializers atype start success
    let d (s : Serializer) : Json := Json.mkObj [("allowExtra", toJson s.allowExtra), ("keys", toJson s.declared)]
    pure (Json.mkObj [("message", d ms), ("start", d asr.start), ("success", d asr.success), ("failure", d asr.failure),
                      ("traceback", d tracebackSerializer)])
  | "test" => do
    let t ← (j.getObjVal? "test") >>= parseTest
    let d ← j.getObjValAs? Nat "default"
    let r := VM.runCase t d (d + 1) [] [] []
    pure (Json.mkObj [("seen", toJson r.seen), ("final", toJson r.default), ("created", toJson (r.fresh - (d + 1))),
                      ("reported", toJson r.reported.length)])
  | _ => throw s!"bad kind {kind}"

partial def loop (h : IO.FS.Stream) : IO Unit := do
  let line ← h.getLine
  if line.isEmpty then return ()
  let out := match Json.parse line with
    | .ok j => match runCase j with
      | .ok r => r
      | .error e => Json.mkObj [("bad", toJson e)]
    | .error e => Json.mkObj [("bad", toJson e)]
  IO.println out.compress
  loop h

def main : IO Unit := do loop (← IO.getStdin)
