import Lean.Data.Json
import Eliot.Model.Level
/-! Line-protocol driver for the string form of task levels / task ids (C06).
A text is given as `"cps":[code points]` or as a plain (ASCII) `"s":"..."`.
in : {"op":"toChars","level":[n...]}                      out: {"cps":[...]}
     {"op":"fromChars", "cps"|"s"}                         out: {"ok":[n...]} | {"none":true,"rejects":bool}
     {"op":"serialize","level":[n...], "cps"|"s" (uuid)}   out: {"cps":[...],"bytes":[...]|null}
     {"op":"parseTaskId", "cps"|"s"}                       out: {"ok":{"u":[cps],"l":[n...]}} | {"none":true,"rejects":bool}
     {"op":"parseTaskIdBytes","bytes":[...]}               out: the same, or {"none":true,"undecodable":true}
`rejects` = Python raises ValueError for certain; `none` without `rejects` = outside the model's domain. -/
open Lean Level

def textOf (j : Json) : Except String (List Char) :=
  match j.getObjValAs? (List Nat) "cps" with
  | .ok l => .ok (l.map Char.ofNat)
  | .error _ => do
    let s ← j.getObjValAs? String "s"
    pure s.toList

def cpsJ (s : List Char) : Json := toJson (s.map Char.toNat)

def idJ (r : Option (List Char × List Nat)) (rej : Bool) : Json :=
  match r with
  | some (u, l) => Json.mkObj [("ok", Json.mkObj [("u", cpsJ u), ("l", toJson l)])]
  | none => Json.mkObj [("none", toJson true), ("rejects", toJson rej)]

def answer (line : String) : Json :=
  let r : Except String Json := do
    let j ← Json.parse line
    let op ← j.getObjValAs? String "op"
    match op with
    | "toChars" =>
      let l ← j.getObjValAs? (List Nat) "level"
      pure (Json.mkObj [("cps", cpsJ (toChars l))])
    | "fromChars" =>
      let s ← textOf j
      match fromChars s with
      | some l => pure (Json.mkObj [("ok", toJson l)])
      | none => pure (Json.mkObj [("none", toJson true), ("rejects", toJson (rejects s))])
    | "serialize" =>
      let u ← textOf j
      let l ← j.getObjValAs? (List Nat) "level"
      pure (Json.mkObj [("cps", cpsJ (serializeTaskId u l)),
        ("bytes", match serializeTaskIdBytes u l with | some b => toJson b | none => Json.null)])
    | "parseTaskId" =>
      let s ← textOf j
      pure (idJ (parseTaskId s) (rejectsTaskId s))
    | "parseTaskIdBytes" =>
      let b ← j.getObjValAs? (List Nat) "bytes"
      match decodeAscii b with
      | none => pure (Json.mkObj [("none", toJson true), ("undecodable", toJson true)])
      | some s => pure (idJ (parseTaskId s) (rejectsTaskId s))
    | _ => throw s!"bad op {op}"
  match r with
  | .ok o => o
  | .error e => Json.mkObj [("bad", toJson e)]

partial def loop (h : IO.FS.Stream) : IO Unit := do
  let line ← h.getLine
  if line.isEmpty then return ()
  IO.println (answer line).compress
  loop h

def main : IO Unit := do loop (← IO.getStdin)
