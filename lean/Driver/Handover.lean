import Lean.Data.Json
import Eliot.Conc.Handover
import Eliot.Generated.Handover
/-! Line-protocol driver for the hand-over model (C12 concurrent clause; used by harness/props/_handover.py).
in : {"pre":[buffered msg ids],"prog":[[msg ids] per logger],"dests":[dest ids],"sched":["a" | ["l",i] ...]}
out: {"delivered":[[dest,[msgs]]],"buf":[msgs],"finished":b,"lost":[msgs of prog that some dest never got]}
The adder's statements are those of the regenerated skeleton `Generated.handover`. -/
open Lean Eliot.Conc Eliot.Conc.Handover

def parseTid (j : Json) : Except String Tid :=
  match j with
  | .str "a" => pure .adder
  | .arr #[.str "l", n] => do pure (.logger (← n.getNat?))
  | _ => throw s!"bad thread id {j.compress}"

def answer (line : String) : Json :=
  let r : Except String Json := do
    let j ← Json.parse line
    let pre ← j.getObjValAs? (List Nat) "pre"
    let prog ← j.getObjValAs? (List (List Nat)) "prog"
    let dests ← j.getObjValAs? (List Nat) "dests"
    let sched ← (← j.getObjValAs? (List Json) "sched").mapM parseTid
    let s := run (init Eliot.Generated.handover pre (fun i => prog.getD i []) dests) sched
    let msgs := prog.flatten
    pure <| Json.mkObj [("delivered", Json.arr (dests.map (fun d => Json.arr #[toJson d, toJson (s.delivered d)])).toArray),
      ("buf", toJson s.buf), ("finished", toJson (finished s prog.length)),
      ("lost", toJson (msgs.filter (fun m => dests.any (fun d => !(s.delivered d).contains m))))]
  match r with
  | .ok o => o
  | .error e => Json.mkObj [("bad", toJson e)]

partial def loop (h : IO.FS.Stream) : IO Unit := do
  let line ← h.getLine
  if line.isEmpty then return ()
  IO.println (answer line).compress
  loop h

def main : IO Unit := do loop (← IO.getStdin)
