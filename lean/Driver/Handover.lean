import Lean.Data.Json
import Eliot.Conc.Handover
import Eliot.Conc.HandoverFix
import Eliot.Generated.Handover
/-! Line-protocol driver for the hand-over models (C12 concurrent clause; used by harness/props/_handover.py).
in : {"pre":[buffered msg ids],"prog":[[msg ids] per logger],"dests":[dest ids],"sched":["a" | ["l",i] ...]}
out: {"delivered":[[dest,[msgs]]],"buf":[msgs],"finished":b,"lost":[msgs of prog that some dest never got],"model":"fixed"|"pinned"}
If the regenerated skeleton `Generated.handover` is the repaired shape the model `HandoverFix` is run,
otherwise the old model `Handover`, whose adder interprets the regenerated statement list. -/
open Lean Eliot.Conc

def parseOld (j : Json) : Except String Handover.Tid :=
  match j with
  | .str "a" => pure .adder
  | .arr #[.str "l", n] => do pure (.logger (← n.getNat?))
  | _ => throw s!"bad thread id {j.compress}"

def parseNew (j : Json) : Except String HandoverFix.Tid :=
  match j with
  | .str "a" => pure .adder
  | .arr #[.str "l", n] => do pure (.logger (← n.getNat?))
  | _ => throw s!"bad thread id {j.compress}"

def answer (line : String) : Json :=
  let r : Except String Json := do
    let j ← Json.parse line
    let pre ← j.getObjValAs? (List Nat) "pre"
    let prog ← j.getObjValAs? (List (List Nat)) "prog"
    let dests ← j.getObjValAs? (List Nat) "dests"
    let schedJ ← j.getObjValAs? (List Json) "sched"
    let msgs := prog.flatten
    let progF : Nat → List Nat := fun i => prog.getD i []
    if Eliot.Generated.handover = Handover.fixedSkel then
      let sched ← schedJ.mapM parseNew
      let n := prog.length
      let s := HandoverFix.run n (HandoverFix.init pre progF dests) sched
      let fin := (List.range n).all (fun i => (s.logPending i).isEmpty && s.logPc i == .idle) && s.addPc == .done
      pure <| Json.mkObj [("delivered", Json.arr (dests.map (fun d => Json.arr #[toJson d, toJson (s.delivered d)])).toArray),
        ("buf", toJson s.buf), ("finished", toJson fin), ("model", "fixed"),
        ("lost", toJson (msgs.filter (fun m => dests.any (fun d => !(s.delivered d).contains m))))]
    else
      let sched ← schedJ.mapM parseOld
      let s := Handover.run (Handover.init Eliot.Generated.handover pre progF dests) sched
      pure <| Json.mkObj [("delivered", Json.arr (dests.map (fun d => Json.arr #[toJson d, toJson (s.delivered d)])).toArray),
        ("buf", toJson s.buf), ("finished", toJson (Handover.finished s prog.length)), ("model", "pinned"),
        ("lost", toJson (msgs.filter (fun m => dests.any (fun d => !(s.delivered d).contains m))))]
  match r with
  | .ok o => o
  | .error e => Json.mkObj [("bad", toJson e)]

partial def loop (h : IO.FS.Stream) : IO Unit := do
  let line ← h.getLine
  if line.isEmpty then return ()
  IO.println (answer line).compress
  loop h

def main : IO Unit := do loop (← IO.getStdin)
