import Lean.Data.Json
import Eliot.Model.Testing
/-! Line-protocol driver for the `eliot.testing` model (C17).
in : {"msgs":[{"uuid","level","atype"?,"status"?,"body"}…],        (MemoryLogger.messages, body = index)
      "info":[{"mtype"?:str,"fields":[[key,rendering]…]}…],       (row i = dictionary number i)
      "atypes":[str…], "mtypes":[str…],
      "asserts":[{"k":"action","ty","succ":bool,"start":[[k,v]…],"end":[[k,v]…]} | {"k":"message","ty","fields":[[k,v]…]}…]}
out: {"ofType":{ty: {"ok":[entry…]} | {"err":e}},   entry = item + {"desc":[head…],"tt":typetree | {"err":e}}
      "lm":{ty:[body…]},
      "asserts":[{"ok":head} | {"fail":kind}…]}
item = {"m":body} | {"s":body,"e":body,"ok":bool,"k":[item…]};  head = {"m":body} | {"a":start body}
typetree = str | {action_type:[typetree…]} -/
open Lean PM PM.Testing

def parseMsg (j : Json) : Except String PMsg := do
  let uuid ← j.getObjValAs? String "uuid"
  let level ← j.getObjValAs? (List Nat) "level"
  let atype := (j.getObjValAs? String "atype").toOption
  let status := (j.getObjValAs? String "status").toOption
  let body ← j.getObjValAs? Nat "body"
  pure { uuid, level, atype, status, body }

def parseFields (j : Json) : Except String Fields := do
  let a ← j.getArr?
  a.toList.mapM fun p => do
    let q ← p.getArr?
    let k ← (q[0]?.getD Json.null).getStr?
    let v ← (q[1]?.getD Json.null).getStr?
    pure (k, v)

def parseInfo (j : Json) : Except String Info := do
  let mtype := (j.getObjValAs? String "mtype").toOption
  let fields ← (j.getObjVal? "fields") >>= parseFields
  pure { mtype, fields }

def errJ (e : Testing.Err) : Json := toJson (reprStr e)

def headJ : LItem → Json
  | .msg m => Json.mkObj [("m", toJson m.body)]
  | .act s _ _ => Json.mkObj [("a", toJson s.body)]

partial def itemJ : LItem → Json
  | .msg m => Json.mkObj [("m", toJson m.body)]
  | .act s e ch => Json.mkObj [("s", toJson s.body), ("e", toJson e.body),
      ("ok", toJson (e.status == some "succeeded")), ("k", Json.arr (ch.map itemJ).toArray)]

def bodyOf : LItem → Nat
  | .msg m => m.body
  | .act s _ _ => s.body

partial def ttJ : TT → Json
  | .leaf t => toJson t
  | .node t ch => Json.mkObj [(t, Json.arr (ch.map ttJ).toArray)]

def entryJ (info : Nat → Info) (x : LItem) : Json :=
  let tt := match typeTree info x with
    | .ok t => ttJ t
    | .error e => Json.mkObj [("err", errJ e)]
  (itemJ x).mergeObj (Json.mkObj [("desc", Json.arr (x.descendants.map headJ).toArray), ("tt", tt)])

def failJ : AFail → Json
  | .raised e => Json.mkObj [("raised", errJ e)]
  | .noneOfType => "noneOfType"
  | .wrongStatus => "wrongStatus"
  | .startFields => "startFields"
  | .endFields => "endFields"
  | .fields => "fields"

def runAssert (info : Nat → Info) (msgs : List PMsg) (j : Json) : Except String Json := do
  let k ← j.getObjValAs? String "k"
  let ty ← j.getObjValAs? String "ty"
  let res ←
    if k == "action" then do
      let succ ← j.getObjValAs? Bool "succ"
      let sf ← (j.getObjVal? "start") >>= parseFields
      let ef ← (j.getObjVal? "end") >>= parseFields
      pure (assertHasAction info msgs ty succ sf ef)
    else do
      let f ← (j.getObjVal? "fields") >>= parseFields
      pure (assertHasMessage info msgs ty f)
  match res with
  | .ok a => pure (Json.mkObj [("ok", headJ a)])
  | .error e => pure (Json.mkObj [("fail", failJ e)])

def runCase (j : Json) : Except String Json := do
  let msgs ← (j.getObjVal? "msgs" >>= fun a => a.getArr?) >>= fun a => a.toList.mapM parseMsg
  let rows ← (j.getObjVal? "info" >>= fun a => a.getArr?) >>= fun a => a.toList.mapM parseInfo
  let table := rows.toArray
  let info : Nat → Info := fun b => table.getD b {}
  let atypes ← j.getObjValAs? (List String) "atypes"
  let mtypes ← j.getObjValAs? (List String) "mtypes"
  let asserts ← j.getObjVal? "asserts" >>= fun a => a.getArr?
  let ofT := atypes.map fun ty =>
    (ty, match ofType msgs ty with
      | .ok as => Json.mkObj [("ok", Json.arr (as.map (entryJ info)).toArray)]
      | .error e => Json.mkObj [("err", errJ e)])
  let lm := mtypes.map fun ty =>
    (ty, Json.arr ((lmOfType info ty msgs).map fun x => toJson (bodyOf x)).toArray)
  let as ← asserts.toList.mapM (runAssert info msgs)
  pure (Json.mkObj [("ofType", Json.mkObj ofT), ("lm", Json.mkObj lm), ("asserts", Json.arr as.toArray)])

partial def loop (h : IO.FS.Stream) : IO Unit := do
  let line ← h.getLine
  if line.isEmpty then return ()
  let out := match Json.parse line with
    | .ok j => match runCase j with
      | .ok r => r
      | .error e => Json.mkObj [("bad", toJson e)]
    | .error e => Json.mkObj [("bad", toJson e)]
  IO.println out.compress
  loop h

def main : IO Unit := do loop (← IO.getStdin)
