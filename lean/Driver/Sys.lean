import Lean.Data.Json
import Eliot.Model.Sys
/-! Line-protocol driver for the sequential core model.
in : {"env": {...}, "prog": [stmt...]}      (format: harness/sysgen.py)
out: {"offered": [[d, msg]...], "accepted": [[d,msg]...], "outcome": ..., "probes": [...], "ctx": ..., "buffer": n} -/
open Lean Sys

def getD? {α} [FromJson α] (j : Json) (k : String) (d : α) : α := (j.getObjValAs? α k).toOption.getD d

def parseFV (j : Json) : Except String FV := do
  match j.getObjVal? "n" with
  | .ok v => return .nat (← fromJson? v)
  | .error _ => pure ()
  match j.getObjVal? "s" with
  | .ok v => return .str (← fromJson? v)
  | .error _ => pure ()
  match j.getObjVal? "o" with
  | .ok v => return .obj (← fromJson? v)
  | .error _ => throw s!"bad fv {j}"

def parseFields (j : Json) : Except String Fields := do
  let arr ← j.getArr?
  arr.toList.mapM fun kv => do
    let a ← kv.getArr?
    if h : a.size = 2 then
      pure ((← fromJson? a[0]), (← parseFV a[1]))
    else throw "bad field"

def parsePairs (j : Json) : Except String (List (String × Nat)) := do
  let arr ← j.getArr?
  arr.toList.mapM fun kv => do
    let a ← kv.getArr?
    if h : a.size = 2 then pure ((← fromJson? a[0]), (← fromJson? a[1])) else throw "bad pair"

def parseSpec (j : Json) : Except String Spec := do
  let atype ← j.getObjValAs? String "atype"
  let fields ← parseFields (← j.getObjVal? "fields")
  let sers ← match j.getObjVal? "sers" with
    | .ok Json.null => pure none
    | .ok s => do pure (some ((← parsePairs (← s.getObjVal? "start")), (← parsePairs (← s.getObjVal? "success"))))
    | .error _ => pure none
  pure { atype, fields, sers }

def parseMSpec (j : Json) : Except String MSpec := do
  let mtype ← j.getObjValAs? String "mtype"
  let fields ← parseFields (← j.getObjVal? "fields")
  let sers ← match j.getObjVal? "sers" with
    | .ok Json.null => pure none
    | .ok s => do pure (some (← parsePairs s))
    | .error _ => pure none
  pure { mtype, fields, sers }

def optNat (j : Json) (k : String) : Option Nat :=
  match j.getObjVal? k with
  | .ok Json.null => none
  | .ok v => (fromJson? v : Except String Nat).toOption
  | .error _ => none

mutual
partial def parseStmt (j : Json) : Except String Stmt := do
  let op ← j.getObjValAs? String "op"
  let nat (k : String) : Except String Nat := j.getObjValAs? Nat k
  let blk (k : String) : Except String Block := do parseBlock (← j.getObjVal? k)
  match op with
  | "with" => pure (.withAction (← j.getObjValAs? Bool "task") (← parseSpec (← j.getObjVal? "spec")) (← blk "body"))
  | "log" => pure (.log (← parseMSpec (← j.getObjVal? "ms")))
  | "raise" => pure (.raise (← nat "e"))
  | "try" => pure (.tryCatch (← blk "body") (← blk "handler"))
  | "tb" => pure .writeTraceback
  | "startAs" => pure (.startAs (← nat "x") (← j.getObjValAs? Bool "task") (← parseSpec (← j.getObjVal? "spec")))
  | "withHandle" => pure (.withHandle (← nat "x") (← blk "body"))
  | "inContext" => pure (.inContext (← nat "x") (← blk "body"))
  | "runIn" => pure (.runIn (← nat "x") (← blk "body"))
  | "finish" => pure (.finish (← nat "x") (optNat j "exc"))
  | "addSuccess" => pure (.addSuccess (optNat j "x") (← parseFields (← j.getObjVal? "fs")))
  | "logTo" => pure (.logTo (← nat "x") (← parseMSpec (← j.getObjVal? "ms")))
  | "serializeAs" => pure (.serializeAs (← nat "y") (optNat j "x"))
  | "continueWith" => pure (.continueWith (← nat "y") (← parseSpec (← j.getObjVal? "spec")) (← blk "body"))
  | "addDests" => pure (.addDests (← j.getObjValAs? (List Nat) "ds"))
  | "removeDest" => pure (.removeDest (← nat "d"))
  | "addGlobals" => pure (.addGlobals (← parseFields (← j.getObjVal? "fs")))
  | "probe" => pure (.probe (← nat "n"))
  | _ => throw s!"bad op {op}"
partial def parseBlock (j : Json) : Except String Block := do
  let arr ← j.getArr?
  let ss ← arr.toList.mapM parseStmt
  pure (ss.foldr (fun s b => Block.cons s b) Block.nil)
end

def excOfId (i : Nat) : Exc := .user i

def parseEnv (j : Json) : Except String Env := do
  let classes ← (← j.getObjVal? "classes").getArr?
  let cls ← classes.toList.mapM fun c => do
    pure ((← c.getObjValAs? Nat "id"), (← c.getObjValAs? (List Nat) "mro"), (← c.getObjValAs? String "qualname"))
  let excs ← (← j.getObjVal? "excs").getArr?
  let ex ← excs.toList.mapM fun e => do
    let s : Option String := match e.getObjVal? "str" with
      | .ok Json.null => none
      | .ok v => (fromJson? v : Except String String).toOption
      | .error _ => none
    pure ((← e.getObjValAs? Nat "id"), (← e.getObjValAs? Nat "cls"), s)
  let keyErrorClass ← j.getObjValAs? Nat "keyErrorClass"
  let exts ← (← j.getObjVal? "extractors").getArr?
  let ext ← exts.toList.mapM fun e => do
    let fails ← (← e.getObjVal? "failAt").getArr?
    let fl ← fails.toList.mapM fun p => do
      let a ← p.getArr?
      if h : a.size = 2 then pure (((← fromJson? a[0]) : Nat), ((← fromJson? a[1]) : Nat)) else throw "bad failAt"
    pure ((← e.getObjValAs? Nat "cls"), (← parseFields (← e.getObjVal? "fields")), fl)
  let serFail ← (← j.getObjVal? "serFail").getArr?
  let sf ← serFail.toList.mapM fun p => do
    let a ← p.getArr?
    if h : a.size = 2 then pure (((← fromJson? a[0]) : Nat), ((← fromJson? a[1]) : Nat)) else throw "bad serFail"
  let destFail ← (← j.getObjVal? "destFail").getArr?
  let df ← destFail.toList.mapM fun p => do
    let a ← p.getArr?
    if h : a.size = 3 then pure (((← fromJson? a[0]) : Nat), ((← fromJson? a[1]) : Nat), ((← fromJson? a[2]) : Nat)) else throw "bad destFail"
  pure {
    classOf := fun i => ((ex.find? (·.1 == i)).map (·.2.1)).getD 0
    mro := fun c => ((cls.find? (·.1 == c)).map (·.2.1)).getD [c]
    qualname := fun c => ((cls.find? (·.1 == c)).map (·.2.2)).getD "?"
    strOf := fun i => (ex.find? (·.1 == i)).bind (·.2.2)
    keyErrorClass := keyErrorClass
    extractor := fun c => (ext.find? (·.1 == c)).map fun (_, fs, fl) => fun _ k =>
      -- a mask entry with index 4294967295 means "on every call" (a permanently broken extractor)
      match fl.find? (fun p => p.1 == k || p.1 == 4294967295) with
      | some (_, e) => .error (excOfId e)
      | none => .ok fs
    serialize := fun sid v k =>
      match sf.find? (·.1 == k) with
      | some (_, e) => .error (excOfId e)
      | none => .ok (.serOut sid k v)
    destFails := fun d k => (df.find? (fun t => t.1 == d && t.2.1 == k)).map fun t => excOfId t.2.2
  }

partial def fvJ : FV → Json
  | .nat n => toJson n
  | .str s => toJson s
  | .obj i => Json.mkObj [("obj", toJson i)]
  | .lvl l => toJson l
  | .ts k => Json.mkObj [("ts", toJson k)]
  | .uuid u => Json.mkObj [("uuid", toJson u)]
  | .exc _ => Json.mkObj [("exc", Json.null)]
  | .cls c => Json.mkObj [("cls", toJson c)]
  | .tbtext _ => toJson "tb"
  | .serOut sid k v => Json.mkObj [("ser", Json.arr #[toJson sid, toJson k, fvJ v])]
  | .render keys => Json.mkObj [("render", toJson (keys.toArray.qsort (· < ·)).toList)]

def msgJ (m : Msg) : Json := Json.mkObj (m.map fun (k, v) => (k, fvJ v))

def excJ : Exc → Json
  | .user i => Json.mkObj [("user", toJson i)]
  | .keyError k => Json.mkObj [("keyError", toJson k)]

def outcomeJ : Outcome → Json
  | .ok => toJson "ok"
  | .raised e => Json.mkObj [("raised", excJ e)]
  | .stuck => toJson "stuck"

def ctxJ : Option (Nat × Level) → Json
  | none => Json.null
  | some (u, l) => Json.arr #[toJson u, toJson l]

def ctxJ3 : Option (Nat × Level × String) → Json
  | none => Json.null
  | some (u, l, _) => Json.arr #[toJson u, toJson l]

def ctxType : Option (Nat × Level × String) → Json
  | none => Json.null
  | some (_, _, t) => toJson t

def runCase (j : Json) : Except String Json := do
  let env ← parseEnv (← j.getObjVal? "env")
  let prog ← parseBlock (← j.getObjVal? "prog")
  let r := execB env none {} prog
  let w := r.1
  pure (Json.mkObj [
    ("offered", Json.arr (w.offered.map fun (d, m) => Json.arr #[toJson d, msgJ m]).toArray),
    ("accepted", Json.arr (w.accepted.map fun (d, m) => Json.arr #[toJson d, msgJ m]).toArray),
    ("outcome", outcomeJ r.2),
    ("probes", Json.arr (w.probes.map fun (n, c) => Json.arr #[toJson n, ctxJ3 c]).toArray),
    ("probeTypes", Json.arr (w.probes.map fun (n, c) => Json.arr #[toJson n, ctxType c]).toArray),
    ("ctxType", match w.ctx.bind fun h => (w.acts[h]?).map fun a => a.atype with | none => Json.null | some t => toJson t),
    ("ctx", ctxJ (w.ctx.bind fun h => (w.acts[h]?).map fun a => (a.uuid, a.level))),
    ("buffer", toJson w.buffer.length),
    ("stage", toJson w.stage.length)])

partial def loop (h : IO.FS.Stream) : IO Unit := do
  let line ← h.getLine
  if line.isEmpty then return ()
  let out := match Json.parse line >>= runCase with
    | .ok j => j
    | .error e => Json.mkObj [("bad", toJson e)]
  IO.println out.compress
  loop h

def main : IO Unit := do loop (← IO.getStdin)
