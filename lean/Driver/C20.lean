import Lean.Data.Json
import Eliot.Model.Pretty
/-! Line-protocol driver for the reader model (C20).

text  = JSON string | {"cp":[code points]}            (the latter when the text holds lone surrogates)
value = null | true | false | {"i":"<digits>"} | {"f":text} | {"s":text} | {"a":[value]} | {"o":[[text,value]...]}
table = [{"v":value, "pformat"?:res, "dumps"?:text, "str"?:text, "utc"?:res, "local"?:res, "fdumps"?:res}]
        res = {"ok":text} | {"raises":cls}       — the Env functions, tabulated by the harness on the
        values the case applies them to (an absent entry renders as "<?>", which then shows as a diff)
line  = {"bytes":[..], "repr":text, "loads": {"value":value} | "notjson" | {"raises":cls},
         "expr"?: "skip" | {"value":value} | {"raises":cls}}
in : {"kind":"format","compact":b,"local":b,"msg":value(object),"table":table}
     {"kind":"cli","compact":b,"local":b,"lines":[line],"table":table}
     {"kind":"filter","lines":[line],"table":table}
out: {"ok":[cp]} | {"raises":cls}      |      {"out":[[cp]...],"abort":cls|null} -/
open Lean PP

def parseText (j : Json) : Except String Text :=
  match j with
  | .str s => pure (s.toList.map Char.toNat)
  | _ => j.getObjValAs? (List Nat) "cp"

partial def parseValue (j : Json) : Except String JVal :=
  match j with
  | .null => pure .null
  | .bool b => pure (.bool b)
  | _ =>
    match j.getObjVal? "i" with
    | .ok d => do
      let s ← d.getStr?
      match s.toInt? with
      | some i => pure (.int i)
      | none => throw s!"bad int {s}"
    | .error _ =>
    match j.getObjVal? "f" with
    | .ok d => do pure (.num (← parseText d))
    | .error _ =>
    match j.getObjVal? "s" with
    | .ok d => do pure (.str (← parseText d))
    | .error _ =>
    match j.getObjVal? "a" with
    | .ok d => do
      let xs ← d.getArr?
      pure (.arr (← xs.toList.mapM parseValue))
    | .error _ =>
    match j.getObjVal? "o" with
    | .ok d => do
      let xs ← d.getArr?
      let kvs ← xs.toList.mapM fun e => do
        let p ← e.getArr?
        match p.toList with
        | [k, v] => do pure (← parseText k, ← parseValue v)
        | _ => throw "bad member"
      pure (.obj kvs)
    | .error _ => throw s!"bad value {j.compress}"

mutual
partial def beqV : JVal → JVal → Bool
  | .null, .null => true
  | .bool a, .bool b => a == b
  | .int a, .int b => a == b
  | .num a, .num b => a == b
  | .str a, .str b => a == b
  | .arr a, .arr b => beqL a b
  | .obj a, .obj b => beqM a b
  | _, _ => false
partial def beqL : List JVal → List JVal → Bool
  | [], [] => true
  | a :: as, b :: bs => beqV a b && beqL as bs
  | _, _ => false
partial def beqM : List (Text × JVal) → List (Text × JVal) → Bool
  | [], [] => true
  | (k, a) :: as, (k', b) :: bs => k == k' && beqV a b && beqM as bs
  | _, _ => false
end

def parseExc (s : String) : Exc :=
  match s with
  | "AttributeError" => .attributeError | "TypeError" => .typeError | "KeyError" => .keyError
  | "ValueError" => .valueError | "OverflowError" => .overflowError | "OSError" => .osError
  | "RecursionError" => .recursionError | "UnicodeEncodeError" => .unicodeEncodeError | _ => .other

def excName : Exc → String
  | .attributeError => "AttributeError" | .typeError => "TypeError" | .keyError => "KeyError"
  | .valueError => "ValueError" | .overflowError => "OverflowError" | .osError => "OSError"
  | .recursionError => "RecursionError" | .unicodeEncodeError => "UnicodeEncodeError" | .other => "other"

def parseRes (j : Json) : Except String (Except Exc Text) :=
  match j.getObjVal? "ok" with
  | .ok d => do pure (.ok (← parseText d))
  | .error _ => do
    let c ← j.getObjValAs? String "raises"
    pure (.error (parseExc c))

structure Entry where
  v : JVal
  pformat : Option (Except Exc Text)
  dumps : Option Text
  str : Option Text
  utc : Option (Except Exc Text)
  loc : Option (Except Exc Text)
  fdumps : Option (Except Exc Text)

def optText (j : Json) (k : String) : Except String (Option Text) :=
  match j.getObjVal? k with
  | .ok d => do pure (some (← parseText d))
  | .error _ => pure none

def optRes (j : Json) (k : String) : Except String (Option (Except Exc Text)) :=
  match j.getObjVal? k with
  | .ok d => do pure (some (← parseRes d))
  | .error _ => pure none

def parseEntry (j : Json) : Except String Entry := do
  let v ← (j.getObjVal? "v") >>= parseValue
  pure { v, pformat := ← optRes j "pformat", dumps := ← optText j "dumps", str := ← optText j "str",
         utc := ← optRes j "utc", loc := ← optRes j "local", fdumps := ← optRes j "fdumps" }

structure Line where
  bytes : Bytes
  repr : Text
  loads : Decoded
  expr : Except Exc (Option JVal)

def parseLine (j : Json) : Except String Line := do
  let bytes ← j.getObjValAs? (List Nat) "bytes"
  let repr ← (j.getObjVal? "repr") >>= parseText
  let lj ← j.getObjVal? "loads"
  let loads ← match lj with
    | .str _ => pure Decoded.notJson
    | _ => match lj.getObjVal? "value" with
      | .ok v => do pure (Decoded.value (← parseValue v))
      | .error _ => do pure (Decoded.raises (parseExc (← lj.getObjValAs? String "raises")))
  let expr ← match j.getObjVal? "expr" with
    | .error _ => pure (Except.ok none)
    | .ok (.str _) => pure (Except.ok none)
    | .ok ej => match ej.getObjVal? "value" with
      | .ok v => do pure (Except.ok (some (← parseValue v)))
      | .error _ => do pure (Except.error (parseExc (← ej.getObjValAs? String "raises")))
  pure { bytes, repr, loads, expr }

def missing : Text := t "<?>"

def isSurrogate (c : Nat) : Bool := 0xD800 ≤ c && c ≤ 0xDFFF

def hexd (n : Nat) : Nat := if n < 10 then 48 + n else 87 + n

/-- what the UTF-8 codec does with `backslashreplace`: a lone surrogate becomes the six characters `\udxxx` -/
def bsr (s : Text) : Text :=
  s.flatMap fun c => if isSurrogate c then [92, 117, hexd (c / 4096 % 16), hexd (c / 256 % 16), hexd (c / 16 % 16), hexd (c % 16)] else [c]

def mkEnv (table : List Entry) (lines : List Line) : Env :=
  let find (v : JVal) : Option Entry := table.find? (fun e => beqV e.v v)
  { pformat := fun v => ((find v).bind (·.pformat)).getD (.ok missing)
    dumps := fun v => ((find v).bind (·.dumps)).getD missing
    pyStr := fun v => ((find v).bind (·.str)).getD missing
    isoTime := fun v l => ((find v).bind (fun e => if l then e.loc else e.utc)).getD (.ok missing)
    loads := fun b => match lines.find? (fun l => l.bytes == b) with
      | some l => l.loads
      | none => .raises .other
    reprBytes := fun b => match lines.find? (fun l => rstripNl l.bytes == b) with
      | some l => l.repr
      | none => missing
    filterDumps := fun v => ((find v).bind (·.fdumps)).getD (.ok missing)
    encodable := fun s => !s.any isSurrogate          -- a UTF-8 stream
    backslashreplace := bsr }

def textJ (s : Text) : Json := toJson s

def resJ : Except Exc Text → Json
  | .ok s => Json.mkObj [("ok", textJ s)]
  | .error e => Json.mkObj [("raises", toJson (excName e))]

def runJ (r : List Text × Option Exc) : Json :=
  Json.mkObj [("out", Json.arr (r.1.map textJ).toArray),
              ("abort", match r.2 with | none => Json.null | some e => toJson (excName e))]

def runCase (j : Json) : Except String Json := do
  let kind ← j.getObjValAs? String "kind"
  let table ← (← (j.getObjVal? "table") >>= (·.getArr?)).toList.mapM parseEntry
  match kind with
  | "format" => do
    let compact ← j.getObjValAs? Bool "compact"
    let loc ← j.getObjValAs? Bool "local"
    let m ← (j.getObjVal? "msg") >>= parseValue
    let E := mkEnv table []
    match m with
    | .obj kvs => pure (resJ (if compact then compactFormat E kvs loc else prettyFormat E kvs loc))
    | _ => throw "msg is not an object"
  | "cli" => do
    let compact ← j.getObjValAs? Bool "compact"
    let loc ← j.getObjValAs? Bool "local"
    let lines ← (← (j.getObjVal? "lines") >>= (·.getArr?)).toList.mapM parseLine
    let E := mkEnv table lines
    pure (runJ (cliRun E compact loc (lines.map (·.bytes))))
  | "filter" => do
    let lines ← (← (j.getObjVal? "lines") >>= (·.getArr?)).toList.mapM parseLine
    let E := mkEnv table lines
    let expr : JVal → Except Exc (Option JVal) := fun v =>
      match lines.find? (fun l => match l.loads with | .value v' => beqV v' v | _ => false) with
      | some l => l.expr
      | none => .error .other
    pure (runJ (filterRun E expr (lines.map (·.bytes))))
  | _ => throw s!"bad kind {kind}"

partial def loop (h : IO.FS.Stream) : IO Unit := do
  let line ← h.getLine
  if line.isEmpty then return ()
  let out := match Json.parse line with
    | .ok j => match runCase j with
      | .ok r => r
      | .error e => Json.mkObj [("bad", toJson e)]
    | .error e => Json.mkObj [("bad", toJson e)]
  IO.println out.compress
  loop h

def main : IO Unit := do loop (← IO.getStdin)
