import Lean.Data.Json
import Eliot.Conc.Ctx
/-! Line-protocol driver for the context model (C05).
in : {"codes":[[stmt…]…], "sched":[u…]}
     stmt: ["enter",o] ["exit"] ["log",o] ["create",o] ["remote",o] ["with",h] ["ctx",h] ["thread",v] ["task",v] ["join",v]
out: {"log":[{"unit","occ","kind","parent"}…]  (oldest first),
      "trace":[{"u","ok","before","after"}…]     (one per schedule pick: enabled?, unit's own ctx before/after),
      "done":[bool per unit], "seq":[records of the sequential reference run]} -/
open Lean Ctx

def parseStmt (j : Json) : Except String Stmt := do
  let a ← j.getArr?
  let tag ← (a[0]?.getD Json.null).getStr?
  let x := a[1]?.getD Json.null
  match tag with
  | "enter" => Stmt.enter <$> x.getNat?
  | "exit" => pure .exit
  | "log" => Stmt.log <$> x.getNat?
  | "create" => Stmt.create <$> x.getNat?
  | "remote" => Stmt.remote <$> x.getNat?
  | "with" => Stmt.withOf <$> x.getNat?
  | "ctx" => Stmt.ctxOf <$> x.getNat?
  | "thread" => Stmt.spawnThread <$> x.getNat?
  | "task" => Stmt.spawnTask <$> x.getNat?
  | "join" => Stmt.join <$> x.getNat?
  | t => throw s!"bad stmt {t}"

def optJ : Option Nat → Json
  | none => Json.null
  | some a => toJson a

def kindJ : Kind → Json
  | .msg => "msg" | .start => "start" | .end_ => "end"

def recJ (r : Rec) : Json :=
  Json.mkObj [("unit", toJson r.unit), ("occ", toJson r.occ), ("kind", kindJ r.kind), ("parent", optJ r.parent)]

def runCase (j : Json) : Except String Json := do
  let codes ← (← j.getObjVal? "codes").getArr?
  let codes ← codes.toList.mapM fun c => do
    let a ← c.getArr?
    a.toList.mapM parseStmt
  let sched ← j.getObjValAs? (List Nat) "sched"
  let p : Prog := ⟨codes⟩
  let mut s := init p
  let mut trace : Array Json := #[]
  for u in sched do
    let before := (s.units u).ctx
    match step p s u with
    | some s' =>
      trace := trace.push (Json.mkObj [("u", toJson u), ("ok", toJson true), ("before", optJ before), ("after", optJ (s'.units u).ctx)])
      s := s'
    | none =>
      trace := trace.push (Json.mkObj [("u", toJson u), ("ok", toJson false), ("before", Json.null), ("after", Json.null)])
  let done := (List.range p.n).map fun u => toJson (s.units u).done
  pure (Json.mkObj [("log", Json.arr (s.log.reverse.map recJ).toArray), ("trace", Json.arr trace),
                    ("done", Json.arr done.toArray), ("seq", Json.arr ((seqLog p).map recJ).toArray)])

partial def loop (h : IO.FS.Stream) : IO Unit := do
  let line ← h.getLine
  if line.isEmpty then return ()
  let out := match Json.parse line with
    | .ok j => match runCase j with
      | .ok r => r
      | .error e => Json.mkObj [("bad", toJson e)]
    | .error e => Json.mkObj [("bad", toJson e)]
  IO.println out.compress
  loop h

def main : IO Unit := do loop (← IO.getStdin)
