import Lean.Data.Json
import Eliot.Model.Parse
import Eliot.Model.ParseFlat
/-! Line-protocol driver for the parser model (C09, also used by C01/C06/C11/C17).
in : {"msgs":[{"uuid","level","atype"?,"status"?,"body"}...]}
out: {"steps":[ {"y":[task...],"i":{uuid:task}} | {"err":"..."} ...], "final":[task...] | null,
      "fsteps":[ {"y":[ftask...],"i":{uuid:ftask}} | {"err":"..."} ...]}
Parsing stops at the first error, like the Python generator.  `fsteps` is the same run of the code-shaped
flat-map model (`Model/ParseFlat.lean`): every `_nodes` entry and `_completed` of every task, compared by the
harness with the real `Task._nodes` / `_completed` entry by entry. -/
open Lean PM

def parseMsg (j : Json) : Except String PMsg := do
  let uuid ← j.getObjValAs? String "uuid"
  let level ← j.getObjValAs? (List Nat) "level"
  let atype := (j.getObjValAs? String "atype").toOption
  let status := (j.getObjValAs? String "status").toOption
  let body ← j.getObjValAs? Nat "body"
  pure { uuid, level, atype, status, body }

def optJ : Option PMsg → Json
  | none => Json.null
  | some m => toJson m.body

mutual
partial def nodeJ : Node → Json
  | .msg m => Json.mkObj [("m", toJson m.body)]
  | .act s e ch => Json.mkObj [("s", optJ s), ("e", optJ e), ("k", Json.arr (kidsJ ch).toArray)]
partial def kidsJ : Kids → List Json
  | .nil => []
  | .cons k n rest => Json.arr #[toJson k, nodeJ n] :: kidsJ rest
end

def sortLevels (ls : List Level) : List Level := (ls.toArray.qsort (· < ·)).toList

def taskJ (t : Task) : Json :=
  Json.mkObj [("root", match t.root with | none => Json.null | some n => nodeJ n),
              ("completed", toJson (sortLevels t.completed))]

def dedupLevels (ls : List Level) : List Level :=
  ls.foldl (fun acc l => if acc.contains l then acc else acc ++ [l]) []

def ftaskJ (t : FTask) : Json :=
  let lvls := sortLevels (dedupLevels (t.nodes.map (·.1)))
  Json.mkObj [("nodes", Json.arr (lvls.filterMap fun l => (t.get l).map fun n => Json.arr #[toJson l, nodeJ n]).toArray),
              ("completed", toJson (sortLevels (dedupLevels t.completed)))]

def runFlat (msgs : List PMsg) : Json := Id.run do
  let mut p : List (String × FTask) := []
  let mut steps : Array Json := #[]
  let mut failed := false
  for m in msgs do
    if failed then break
    match FParser.add p m with
    | .ok (done, p') =>
      p := p'
      steps := steps.push (Json.mkObj [("y", Json.arr (done.map fun e => ftaskJ e.2).toArray),
                                       ("i", Json.mkObj (p.map fun (u, t) => (u, ftaskJ t)))])
    | .error e =>
      steps := steps.push (Json.mkObj [("err", toJson (reprStr e))])
      failed := true
  return Json.arr steps

def runCase (msgs : List PMsg) : Json := Id.run do
  let mut p : Parser := []
  let mut steps : Array Json := #[]
  let mut failed := false
  for m in msgs do
    if failed then break
    match p.add m with
    | .ok (done, p') =>
      p := p'
      steps := steps.push (Json.mkObj [("y", Json.arr (done.map fun e => taskJ e.2).toArray),
                                       ("i", Json.mkObj (p.map fun (u, t) => (u, taskJ t)))])
    | .error e =>
      steps := steps.push (Json.mkObj [("err", toJson (reprStr e))])
      failed := true
  let final : Json := if failed then Json.null else
    Json.mkObj (p.map fun (u, t) => (u, taskJ t))
  return Json.mkObj [("steps", Json.arr steps), ("final", final), ("fsteps", runFlat msgs)]

partial def loop (h : IO.FS.Stream) : IO Unit := do
  let line ← h.getLine
  if line.isEmpty then return ()
  let out := match Json.parse line with
    | .ok j => match (j.getObjVal? "msgs" >>= fun a => a.getArr?) with
      | .ok arr => match arr.toList.mapM parseMsg with
        | .ok msgs => runCase msgs
        | .error e => Json.mkObj [("bad", toJson e)]
      | .error e => Json.mkObj [("bad", toJson e)]
    | .error e => Json.mkObj [("bad", toJson e)]
  IO.println out.compress
  loop h

def main : IO Unit := do loop (← IO.getStdin)
