import Lean.Data.Json
import Eliot.Conc.Writer
/-! Line-protocol driver for the threaded-writer model (C19).
in : {"prog":[[msg ids] per producer],"cycles":n,"fails":[msg ids on which the destination raises],
      "sched":[ "c" | ["p",i] | ["r",k] | ["j",k] ...]}
out: {"attempted":[[m,k]],"written":[[m,k]],"events":[["call",m,k,ok]|["stopped",k]],"queue":[m|"stop"],
      "puts":[m|"stop"],"cycle":n,"reader":"none|atGet|holding|exited","joinDone":b,"ctlDone":b,"prodDone":b} -/
open Lean Eliot.Conc Eliot.Conc.Writer

def parseTid (j : Json) : Except String Tid :=
  match j with
  | .str "c" => pure .ctl
  | .arr #[.str "p", n] => do pure (.prod (← n.getNat?))
  | .arr #[.str "r", n] => do pure (.reader (← n.getNat?))
  | .arr #[.str "j", n] => do pure (.joiner (← n.getNat?))
  | _ => throw s!"bad thread id {j.compress}"

def itemJ : Item → Json
  | .msg m => toJson m
  | .stop => "stop"

def evJ : Ev → Json
  | .call m k ok => Json.arr #["call", toJson m, toJson k, toJson ok]
  | .stopped k => Json.arr #["stopped", toJson k]

def pairsJ (l : List (Nat × Nat)) : Json := Json.arr (l.map (fun p => Json.arr #[toJson p.1, toJson p.2])).toArray

def answer (line : String) : Json :=
  let r : Except String Json := do
    let j ← Json.parse line
    let prog ← j.getObjValAs? (List (List Nat)) "prog"
    let cycles ← j.getObjValAs? Nat "cycles"
    let failing ← j.getObjValAs? (List Nat) "fails"
    let sched ← (← j.getObjValAs? (List Json) "sched").mapM parseTid
    let s := run (fun m => failing.contains m) (init (fun i => prog.getD i []) cycles) sched
    let rd := match s.reader with | .none => "none" | .atGet => "atGet" | .holding _ => "holding" | .exited => "exited"
    pure <| Json.mkObj [("attempted", pairsJ s.attempted), ("written", pairsJ s.written),
      ("events", Json.arr (s.events.map evJ).toArray), ("queue", Json.arr (s.queue.map itemJ).toArray),
      ("puts", Json.arr (s.puts.map itemJ).toArray), ("cycle", toJson s.cycle), ("reader", rd),
      ("joinDone", toJson s.joinDone), ("ctlDone", toJson (s.ops.isEmpty && s.cyclesLeft == 0)),
      ("prodDone", toJson ((List.range prog.length).all (fun i => (s.prod i).isEmpty)))]
  match r with
  | .ok o => o
  | .error e => Json.mkObj [("bad", toJson e)]

partial def loop (h : IO.FS.Stream) : IO Unit := do
  let line ← h.getLine
  if line.isEmpty then return ()
  IO.println (answer line).compress
  loop h

def main : IO Unit := do loop (← IO.getStdin)
