import Lean.Data.Json
import Eliot.Conc.Gen
/-! Line-protocol driver for the generator model (C15).
in : {"gens":[{"wrapped":bool,"code":[instr…]}…], "script":[step…], "keeps"?:bool}
     instr: ["enter",a] ["exit"] ["log",m] ["yield",v|null] ["yieldLast"] ["ret",v|null] ["raise",e]
            ["try"] ["catch",all] ["endcatch"] ["resume",j,inp]
     inp  : ["send",v|null] ["throw",e] ["close"]
     step : ["enter",a] ["exit"] ["resume",i,inp] ["resume",i,inp,"copy"|"fresh"|"thread"]  (resumed from another Context)
out: {"steps":[{"out":null|{"y":v}|{"r":v}|{"x":exc},"before":a|null,"after":a|null}…],
      "obs":[{"gen","tag","seen","expected"}…],   (oldest first; tag 0 = start of the body: expected = resumer's action)
      "nested":[{"by","gen","before","after"}…]}
"keeps" overrides `Gen.keepsReturn` (used for the `wrapFixed` comparison only). -/
open Lean Gen

def valOf (j : Json) : Except String Val :=
  if j.isNull then pure none else (some <$> j.getNat?)

/-- exception ids of the harness: 0-3 application exceptions, 4-5 GeneratorExit (instance / class),
6.. BaseException-only objects -/
def excOf (n : Nat) : Exc :=
  if n < 4 then .user n else if n < 6 then .genExit else .base n

def parseInp (j : Json) : Except String Inp := do
  let a ← j.getArr?
  let tag ← (a[0]?.getD Json.null).getStr?
  match tag with
  | "send" => Inp.send <$> valOf (a[1]?.getD Json.null)
  | "throw" => (fun n => Inp.throw (excOf n)) <$> (a[1]?.getD Json.null).getNat?
  | "close" => pure Inp.close
  | t => throw s!"bad inp {t}"

def parseInstr (j : Json) : Except String Instr := do
  let a ← j.getArr?
  let tag ← (a[0]?.getD Json.null).getStr?
  let x := a[1]?.getD Json.null
  match tag with
  | "enter" => Instr.enter <$> x.getNat?
  | "exit" => pure .exit
  | "wenter" => Instr.wenter <$> x.getNat?
  | "wexit" => pure .wexit
  | "log" => Instr.log <$> x.getNat?
  | "yield" => Instr.yield <$> valOf x
  | "yieldLast" => pure .yieldLast
  | "ret" => Instr.ret <$> valOf x
  | "raise" => (fun n => Instr.raise (excOf n)) <$> x.getNat?
  | "try" => pure .try_
  | "catch" => Instr.catch_ <$> x.getBool?
  | "endcatch" => pure .endcatch
  | "resume" => do
    let jn ← x.getNat?
    let inp ← parseInp (a[2]?.getD Json.null)
    pure (.resume jn inp)
  | t => throw s!"bad instr {t}"

def parseStep (j : Json) : Except String DStep := do
  let a ← j.getArr?
  let tag ← (a[0]?.getD Json.null).getStr?
  let x := a[1]?.getD Json.null
  match tag with
  | "enter" => DStep.enter <$> x.getNat?
  | "exit" => pure .exit
  | "resume" => do
    let i ← x.getNat?
    let inp ← parseInp (a[2]?.getD Json.null)
    match a[3]? with
    | some (Json.str "copy") => pure (.resumeIn false i inp)
    | some (Json.str "fresh") => pure (.resumeIn true i inp)
    | some (Json.str "thread") => pure (.resumeIn true i inp)
    | _ => pure (.resume i inp)
  | t => throw s!"bad step {t}"

def parseGen (j : Json) : Except String (Bool × List Instr) := do
  let w ← j.getObjValAs? Bool "wrapped"
  let code ← (← j.getObjVal? "code").getArr?
  let code ← code.toList.mapM parseInstr
  pure (w, code)

def valJ : Val → Json
  | none => Json.null
  | some n => toJson n

def excJ : Exc → Json
  | .user n => toJson s!"user:{n}"
  | .base n => toJson s!"base:{n}"
  | .genExit => "genExit"
  | .typeErr => "typeErr"
  | .ignoredExit => "ignoredExit"
  | .tokenCtx => "tokenCtx"
  | .badGen => "badGen"

def outJ : Option Out → Json
  | none => Json.null
  | some (.yielded v) => Json.mkObj [("y", valJ v)]
  | some (.returned v) => Json.mkObj [("r", valJ v)]
  | some (.raised e) => Json.mkObj [("x", excJ e)]

def actJ : Option Nat → Json
  | none => Json.null
  | some a => toJson a

def runCase (j : Json) : Except String Json := do
  let gens ← (← j.getObjVal? "gens").getArr?
  let defs ← gens.toList.mapM parseGen
  let script ← (← j.getObjVal? "script").getArr?
  let script ← script.toList.mapM parseStep
  let k := match j.getObjValAs? Bool "keeps" with
    | .ok b => b
    | .error _ => Gen.keepsReturn
  let (recs, w) := runScript k (defs.length + 1) script (initWorld defs)
  let steps := recs.map fun r => Json.mkObj [("out", outJ r.out), ("before", actJ r.before), ("after", actJ r.after)]
  let obs := w.obs.reverse.map fun o =>
    Json.mkObj [("gen", toJson o.gen), ("tag", toJson o.tag), ("seen", actJ o.seen), ("expected", actJ o.expected)]
  let nested := w.nrecs.reverse.map fun r =>
    Json.mkObj [("by", toJson r.by_), ("gen", toJson r.gen), ("before", actJ r.before), ("after", actJ r.after)]
  pure (Json.mkObj [("steps", Json.arr steps.toArray), ("obs", Json.arr obs.toArray), ("nested", Json.arr nested.toArray)])

partial def loop (h : IO.FS.Stream) : IO Unit := do
  let line ← h.getLine
  if line.isEmpty then return ()
  let out := match Json.parse line with
    | .ok j => match runCase j with
      | .ok r => r
      | .error e => Json.mkObj [("bad", toJson e)]
    | .error e => Json.mkObj [("bad", toJson e)]
  IO.println out.compress
  loop h

def main : IO Unit := do loop (← IO.getStdin)
