import Eliot.Properties.C02
#print axioms Sys.C02.inv_preserved
#print axioms Sys.C02.reachable_inv
#print axioms Sys.C02.positions_contiguous
#print axioms Sys.C02.levels_unique
#print axioms Sys.C02.actions_unique
#print axioms Sys.C02.child_extends_parent
#print axioms Sys.C02.reserved_position_unique
#print axioms Sys.C02.message_at_slot
#print axioms Sys.C02.offered_places_unique
#print axioms Sys.C02.offered_at_handed_out_places
#print axioms Sys.C02.buffered_at_handed_out_places
