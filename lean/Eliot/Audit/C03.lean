import Eliot.Properties.C03
#print axioms Sys.C03.finish_idempotent
#print axioms Sys.C03.finished_stays_finished
#print axioms Sys.C03.no_second_end
#print axioms Sys.C03.finish_program_finish
#print axioms Sys.C03.one_start_message
#print axioms Sys.C03.end_message
#print axioms Sys.C03.one_end_message
#print axioms Sys.C03.failed_iff_raised
#print axioms Sys.C03.exc_identity
#print axioms Sys.C03.program_outcome
#print axioms Sys.C03.withBlock_finishes
#print axioms Sys.C03.fields_placement
#print axioms Sys.C03.getFields_fields
#print axioms Sys.C03.extractor_mro
#print axioms Sys.C03.extractor_raise_contained
#print axioms Sys.C03.one_start_message_any_env
#print axioms Sys.C03.one_end_message_any_env
