import Eliot.Properties.C09
import Eliot.Properties.C09Flat
#print axioms PM.Tree.step
#print axioms PM.Tree.stepC
#print axioms PM.Task.add_step
#print axioms PM.Parser.add_step
#print axioms PM.C09.feed_ok
#print axioms PM.C09.subset_no_error
#print axioms PM.C09.parse_perm_invariant
#print axioms PM.C09.complete_iff_all_arrived
#print axioms PM.C09.never_early
#print axioms PM.C09.yield_exactly_once
#print axioms PM.C09.reconstruct
#print axioms PM.upward_seg
#print axioms PM.add_refines
#print axioms PM.C09Flat.flat_refines_trie
#print axioms PM.C09Flat.flat_sequence_refines_trie
#print axioms PM.C09Flat.flat_root_and_complete
#print axioms PM.C09Flat.spec_stream_in_domain
#print axioms PM.C09Flat.flat_single_message_task
#print axioms PM.C09Flat.flat_follows_spec
#print axioms PM.C09Flat.flat_complete_iff_all_arrived
#print axioms PM.FParser.add_refines
#print axioms PM.FParser.feed_refines
#print axioms PM.pdom_of_spec
#print axioms PM.C09Flat.flat_parse_stream_follows_spec
#print axioms PM.C09Flat.PInv.get
#print axioms PM.C09Flat.flat_perm_invariant
