import Eliot.Properties.C09
#print axioms PM.Tree.step
#print axioms PM.Tree.stepC
#print axioms PM.Task.add_step
#print axioms PM.Parser.add_step
#print axioms PM.C09.feed_ok
#print axioms PM.C09.subset_no_error
#print axioms PM.C09.parse_perm_invariant
#print axioms PM.C09.complete_iff_all_arrived
#print axioms PM.C09.never_early
#print axioms PM.C09.yield_exactly_once
#print axioms PM.C09.reconstruct
