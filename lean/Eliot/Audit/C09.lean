import Eliot.Properties.C09
#print axioms PM.Tree.step
#print axioms PM.Tree.stepC
