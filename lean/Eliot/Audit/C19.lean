import Eliot.Properties.C19
#print axioms Eliot.C19.fifo_exactly_once
#print axioms Eliot.C19.stop_drains
#print axioms Eliot.C19.calls_before_stop_result
#print axioms Eliot.C19.dest_failure_loses_one
#print axioms Eliot.C19.single_reader_thread
#print axioms Eliot.C19.cycles
