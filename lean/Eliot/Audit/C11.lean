import Eliot.Properties.C11
#print axioms EJ.C11.crash_prefix
#print axioms EJ.C11.acked_after
#print axioms EJ.C11.reader_drops_only_fragment
#print axioms EJ.C11.crash_readable
#print axioms EJ.C11.crash_readable_file
#print axioms EJ.C11.crash_parse
#print axioms EJ.C11.crash_parse_flat
