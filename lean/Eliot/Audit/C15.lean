import Eliot.Properties.C15
#print axioms Gen.C15.gen_ctx_private
#print axioms Gen.C15.driver_ctx_untouched
#print axioms Gen.C15.nested_wrapped
#print axioms Gen.C15.wrapper_transparent
#print axioms Gen.C15.wrapper_transparent_partial
#print axioms Gen.C15.wrapper_drops_return_value
#print axioms Gen.C15.wrapFixed_transparent
