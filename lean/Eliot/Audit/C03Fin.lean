import Eliot.Properties.C03Fin
#print axioms Sys.C03Fin.guard_shape
#print axioms Sys.C03Fin.finishRec_finished_noop
#print axioms Sys.C03Fin.finishRec_success_is_translated
#print axioms Sys.C03Fin.finishRec_failure_is_translated
#print axioms Sys.C03Fin.startRec_is_translated
#print axioms Sys.C03Fin.buildLog_is_translated
#print axioms Sys.C03Fin.start_log_shape
#print axioms Sys.C03Fin.placement_shapes
