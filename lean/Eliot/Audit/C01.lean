import Eliot.Properties.C01View
import Eliot.Properties.C01Flat
#print axioms Sys.Emit.execS_emits
#print axioms Sys.Emit.execB_emits
#print axioms Sys.Emit.execB_top
#print axioms Sys.Emit.F.proj
#print axioms Sys.Emit.denB_range
#print axioms Sys.C01.execB_emits
#print axioms Sys.C01.emitted_is_forest
#print axioms Sys.C01.parse_reconstructs
#print axioms Sys.C01.roundtrip
#print axioms Sys.C01.field_values
#print axioms Sys.C01.roundtrip_lines
#print axioms Sys.C01.JsonView.codec_ok
#print axioms Sys.C01.roundtrip_file
#print axioms Sys.C01.extracted_fields
#print axioms Sys.Emit.extOf_nearest
#print axioms Sys.execB_vars
#print axioms Sys.Emit.execX_emits
#print axioms Sys.Emit.execX_top
#print axioms Sys.C01.explicit_node
#print axioms Sys.C01.explicit_same_as_with
#print axioms Sys.C01.handle_same_as_with
#print axioms Sys.C01.tagView_faithful
#print axioms Sys.C01.exStage_ok
#print axioms Sys.C01.roundtrip_flat
