import Eliot.Properties.C04
#print axioms Sys.C04.execS_good
#print axioms Sys.C04.execB_good
#print axioms Sys.C04.exec_restores_ctx
#print axioms Sys.C04.program_ends_contextless
#print axioms Sys.C04.inside_is_current
#print axioms Sys.C04.probe_in_body_sees_action
#print axioms Sys.C04.start_task_fresh
#print axioms Sys.C04.contextless_msg_own_task
