import Eliot.Properties.C04
import Eliot.Properties.C04Place
#print axioms Sys.C04.execS_good
#print axioms Sys.C04.execB_good
#print axioms Sys.C04.exec_restores_ctx
#print axioms Sys.C04.program_ends_contextless
#print axioms Sys.C04.inside_is_current
#print axioms Sys.C04.probe_in_body_sees_action
#print axioms Sys.C04.start_task_fresh
#print axioms Sys.C04.contextless_msg_own_task
#print axioms Sys.C04.log_untyped_in_action
#print axioms Sys.C04.log_typed_in_action
#print axioms Sys.C04.child_of_current
#print axioms Sys.C04.body_statement_context
#print axioms Sys.C04.block_body_world
#print axioms Sys.C04.execB_append
#print axioms Sys.C04.logged_in_block_is_direct_item
#print axioms Sys.C04.started_in_block_is_child
