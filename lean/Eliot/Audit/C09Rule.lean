import Eliot.Properties.C09Rule
#print axioms PM.C09Rule.completeNow_is_translated
#print axioms PM.C09Rule.visit_is_translated
#print axioms PM.C09Rule.shapes
#print axioms PM.C09Rule.add_single_message_task
#print axioms PM.C09Rule.add_action_message
