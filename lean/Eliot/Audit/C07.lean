import Eliot.Properties.C07
#print axioms Sys.C07.execS_outcome
#print axioms Sys.C07.execB_outcome
#print axioms Sys.C07.app_outcome_unchanged
#print axioms Sys.C07.outcome_env_independent
#print axioms Sys.C07.exc_identity
