import Eliot.Properties.C13
#print axioms Sys.C13.serializeFields_eq
#print axioms Sys.C13.serializers_called_once
#print axioms Sys.C13.serialized_exactly_once
#print axioms Sys.C13.success_stages_serialized
#print axioms Sys.C13.serializer_failure_contained
#print axioms Sys.C13.per_kind_serializer
