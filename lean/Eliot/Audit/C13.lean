import Eliot.Properties.C13
#print axioms Sys.C13.serializeFields_eq
#print axioms Sys.C13.serializers_called_once
#print axioms Sys.C13.serialized_exactly_once
#print axioms Sys.C13.success_stages_serialized
#print axioms Sys.C13.serializer_failure_contained
#print axioms Sys.C13.per_kind_serializer
#print axioms Sys.C13.per_kind_serializer_success
#print axioms Sys.C13.per_kind_serializer_failure
#print axioms Sys.C13.logNoSer_healthy_exact
#print axioms Sys.buildLog_in_current
#print axioms Sys.buildLog_contextless
