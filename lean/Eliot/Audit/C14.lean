import Eliot.Properties.C14
#print axioms VM.validate_iff
#print axioms VM.failure_and_traceback_allow_extra
#print axioms VM.conforming_validates
#print axioms VM.single_deviation_rejected_missing
#print axioms VM.single_deviation_rejected_extra
#print axioms VM.single_deviation_rejected_value
#print axioms VM.single_deviation_rejected_not_json
#print axioms VM.tracebacks_fail
#print axioms VM.check_for_errors_iff
#print axioms VM.default_logger_restored
#print axioms VM.default_logger_untouched
#print axioms VM.validateAllS_fst
#print axioms VM.invalid_after_reset_reported
#print axioms VM.bad_entry_reported
