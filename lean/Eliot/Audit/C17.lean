import Eliot.Properties.C17
import Eliot.Properties.C17Flat
#print axioms PM.Testing.fromMessages_node
#print axioms PM.Testing.containsFields_eq_issuperset
#print axioms PM.C17.of_type_eq_parser_subtrees
#print axioms PM.C17.interleaving_concat
#print axioms PM.C17.of_type_concat
#print axioms PM.C17.parser_builds_same
#print axioms PM.C17.parser_task_same
#print axioms PM.C17.preorderActions_eq
#print axioms PM.C17.descendants_preorder
#print axioms PM.C17.type_tree_preorder
#print axioms PM.C17.logged_message_of_type
#print axioms PM.C17.assert_has_action_iff
#print axioms PM.C17.assert_has_message_iff
#print axioms PM.Testing.fromMessages_node_any
#print axioms PM.Testing.toLoggedIn_eq_toLogged
#print axioms PM.Testing.children_perm
#print axioms PM.Testing.sim_tree
#print axioms PM.C17.of_type_any_order
#print axioms PM.C17.parser_builds_same_flat
