import Eliot.Properties.C06TL
#print axioms Level.C06TL.fromString_eq
#print axioms Level.C06TL.toString_eq
#print axioms Level.C06TL.serializeTaskId_eq
#print axioms Level.C06TL.parseText_eq
#print axioms Level.C06TL.parseBytes_eq
#print axioms Level.C06TL.translated_level_roundtrip
#print axioms Level.C06TL.translated_task_id_roundtrip
