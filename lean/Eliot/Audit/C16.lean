import Eliot.Properties.C16
#print axioms Eliot.C16.memlog_mutex
#print axioms Eliot.C16.memlog_linearizable
#print axioms Eliot.C16.pairs_consistent
#print axioms Eliot.C16.spec_tracebacks_filter
#print axioms Eliot.C16.lines_never_torn
