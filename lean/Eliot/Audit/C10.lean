import Eliot.Properties.C10
#print axioms EJ.C10.encode_no_newline
#print axioms EJ.C10.encode_is_object
#print axioms EJ.C10.encode_valid_utf8
#print axioms EJ.C10.nonfinite_to_null
#print axioms EJ.C10.rich_types_documented
#print axioms EJ.C10.decode_encode
#print axioms EJ.C10.native_encodes
#print axioms EJ.C10.encodes_native
#print axioms EJ.C10.one_line_per_message
#print axioms EJ.C10.no_partial_between_calls
#print axioms EJ.C10.bytes_text_same
#print axioms EJ.C10.line_faithful
#print axioms EJ.C10.deep_nesting_refused
#print axioms EJ.C10.deep_message_no_line
#print axioms EJ.C10.encode_valid_json
