import Eliot.Properties.ShapesSkel
#print axioms Eliot.ShapesSkel.serialize_shape
#print axioms Eliot.ShapesSkel.validate_shape
#print axioms Eliot.ShapesSkel.extractor_lookup_shape
#print axioms Eliot.ShapesSkel.register_shape
#print axioms Eliot.ShapesSkel.loggedActionFromMessages_shape
#print axioms Eliot.ShapesSkel.loggedActionOfType_shape
#print axioms Eliot.ShapesSkel.loggedActionDescendants_shape
#print axioms Eliot.ShapesSkel.loggedMessageOfType_shape
#print axioms Eliot.ShapesSkel.assertContainsFieldsBody_shape
#print axioms Eliot.ShapesSkel.assertHasMessageBody_shape
#print axioms Eliot.ShapesSkel.assertHasActionBody_shape
#print axioms Eliot.ShapesSkel.prettyFormatBody_shape
#print axioms Eliot.ShapesSkel.compactFormatBody_shape
#print axioms Eliot.ShapesSkel.prettyMainBody_shape
#print axioms Eliot.ShapesSkel.filterRunBody_shape
