import Eliot.Properties.ShapesSkel
#print axioms Eliot.ShapesSkel.serialize_shape
#print axioms Eliot.ShapesSkel.validate_shape
#print axioms Eliot.ShapesSkel.extractor_lookup_shape
#print axioms Eliot.ShapesSkel.register_shape
