import Eliot.Properties.C12
import Eliot.Properties.C12Buf
import Eliot.Proofs.Handover
import Eliot.Proofs.HandoverFix
import Eliot.Proofs.HandoverOrder
#print axioms Sys.C12.trim1000_trim
#print axioms Sys.C12.bufPhase_basic
#print axioms Sys.C12.buffered_until_first_add
#print axioms Sys.C12.buffered_until_first_add_all
#print axioms Sys.C12.still_buffering
#print axioms Sys.C12.first_add_delivers_buffer
#print axioms Sys.C12.later_add_gets_nothing_old
#print axioms Sys.C12.removed_gets_nothing
#print axioms Sys.C12.after_remove
#print axioms Sys.C12.globals_are_dict
#print axioms Sys.C12.globals_at_delivery
#print axioms Eliot.Conc.HandoverFix.handover_no_loss
#print axioms Eliot.Conc.HandoverFix.handover_no_overtake
#print axioms Eliot.Conc.HandoverFix.handover_drain_exclusive
#print axioms Eliot.Conc.HandoverFix.handover_per_thread_fifo
#print axioms Eliot.Conc.HandoverFix.handover_pre_first
#print axioms Eliot.Conc.Handover.handover_race_witness
#print axioms Eliot.Conc.Handover.handover_no_loss_false
#print axioms Eliot.Conc.Handover.handover_race_witness_empty_list
#print axioms Eliot.Conc.Handover.handover_race_witness_prebuffered
#print axioms Eliot.Conc.Handover.handover_overtake_witness
