import Eliot.Properties.C08
#print axioms Sys.C08.prim
#print axioms Sys.C08.offered_same_everywhere
#print axioms Sys.C08.healthy_unaffected
#print axioms Sys.C08.run_offered_eq_stage
#print axioms Sys.C08.report_accounting
#print axioms Sys.C08.errors_bound
#print axioms Sys.C08.no_report_of_report
#print axioms Sys.C08.report_is_report
#print axioms Sys.fan_deliver
#print axioms Sys.fan_send
#print axioms Sys.execB_lift
