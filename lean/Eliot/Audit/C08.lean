import Eliot.Properties.C08
import Eliot.Properties.C08Dyn
#print axioms Sys.C08.prim
#print axioms Sys.C08.offered_same_everywhere
#print axioms Sys.C08.healthy_unaffected
#print axioms Sys.C08.run_offered_eq_stage
#print axioms Sys.C08.report_accounting
#print axioms Sys.C08.errors_bound
#print axioms Sys.C08.no_report_of_report
#print axioms Sys.C08.report_is_report
#print axioms Sys.fan_deliver
#print axioms Sys.fan_send
#print axioms Sys.execB_lift
#print axioms Sys.C08.reg_preserved
#print axioms Sys.C08.calls_exact
#print axioms Sys.C08.offered_while_registered
#print axioms Sys.C08.healthy_accepts_while_registered
#print axioms Sys.C08.nothing_before_first_add
#print axioms Sys.C08.offered_since
#print axioms Sys.C08.unregistered_gets_nothing
#print axioms Sys.C08.removed_gets_nothing_after
#print axioms Sys.C08.removed_gets_nothing_after_run
#print axioms Sys.C08.added_later_gets_nothing_before
#print axioms Sys.C08.offered_same_everywhere_reg
#print axioms Sys.C08.run_offered_eq_stage_reg
#print axioms Sys.reg_deliver
#print axioms Sys.reg_addDests
#print axioms Sys.execB_liftQ
