import Eliot.Properties.C18
#print axioms LC.wrapper_transparent_partial
#print axioms LC.wrapper_not_transparent_action_type
#print axioms LC.wrapper_not_transparent_logger
#print axioms LC.wrapper_not_transparent_serializers
#print axioms LC.wrapper_not_transparent_posonly_kwargs
#print axioms LC.wrapper_not_transparent_posonly_keyword
#print axioms LC.wrapper_not_transparent_include_self
#print axioms LC.wrapper_transparent_false
#print axioms LC.start_fields_are_bound_args_partial
#print axioms LC.start_fields_not_bound_args_task_level
#print axioms LC.start_fields_not_bound_args_logger_none
#print axioms LC.start_fields_are_bound_args_false
#print axioms LC.end_has_result_iff
#print axioms LC.default_action_type
#print axioms LC.bind_keys
