import Eliot.Properties.C18
#print axioms LC.wrapper_transparent_partial
#print axioms LC.action_type_now_transparent
#print axioms LC.logger_now_transparent
#print axioms LC.serializers_now_transparent
#print axioms LC.include_self_now_transparent
#print axioms LC.wrapper_not_transparent_posonly_kwargs
#print axioms LC.wrapper_not_transparent_posonly_keyword
#print axioms LC.wrapper_transparent_false
#print axioms LC.start_fields_are_bound_args_partial
#print axioms LC.start_fields_not_bound_args_task_level
#print axioms LC.start_fields_not_bound_args_action_type
#print axioms LC.logger_none_now_logged
#print axioms LC.start_fields_are_bound_args_false
#print axioms LC.decorated_raises_only_type_error_or_body
#print axioms LC.end_has_result_iff
#print axioms LC.default_action_type
#print axioms LC.bind_keys
