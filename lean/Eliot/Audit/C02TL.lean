import Eliot.Properties.C02TL
#print axioms Sys.C02.TL.child_eq
#print axioms Sys.C02.TL.next_sibling_eq
#print axioms Sys.C02.TL.parent_eq
#print axioms Sys.C02.TL.is_sibling_of_eq
#print axioms Sys.C02.TL.nextTaskLevel_refines
#print axioms Sys.C02.TL.model_nextLevel_is_translated
#print axioms Sys.C02.TL.positions_one_to_n
#print axioms Sys.C02.TL.no_writes_elsewhere
