import Eliot.Properties.C20
#print axioms PP.header_first
#print axioms PP.header_first_compact
#print axioms PP.header_then_all_fields_once
#print axioms PP.shown_rest_sorted
#print axioms PP.compact_single_line
#print axioms PP.compact_not_single_line_newline_in_key
#print axioms PP.cli_total
#print axioms PP.cli_run_total
#print axioms PP.cli_reports_non_object
#print axioms PP.cli_reports_bad_task_level
#print axioms PP.cli_aborts_on_pformat_recursion
#print axioms PP.cli_total_needs_pformat
#print axioms PP.format_error_cases
#print axioms PP.filter_identity
#print axioms PP.filter_skip
#print axioms PP.filter_skip_line
