import Eliot.Properties.C05
#print axioms Ctx.C05.ctx_noninterference
#print axioms Ctx.C05.new_thread_no_action
#print axioms Ctx.C05.task_inherits_creator
#print axioms Ctx.C05.attribution_schedule_independent
#print axioms Ctx.C05.attribution_schedule_independent_lookup
#print axioms Ctx.C05.tree_shape_schedule_independent
#print axioms Ctx.C05.tree_shape_schedule_independent_allDone
#print axioms Ctx.C05.unit_order
#print axioms Ctx.C05.unit_order_schedule_independent
