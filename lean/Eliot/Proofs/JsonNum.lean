import Eliot.Model.Json
/-! Number literals of the JSON model: `encInt` is read back by `scanNum`, a fully consumed token is
scanned the same way in front of a delimiter, and the shape of float tokens. -/
namespace EJ

/-- what may follow a value inside compact JSON: end of input, `,` `]` `}` -/
def Delim : List Nat → Prop
  | [] => True
  | c :: _ => c = 44 ∨ c = 93 ∨ c = 125

/-! ## Small facts on `takeWhile` / `dropWhile isDigit` -/

theorem isDigit_iff (c : Nat) : isDigit c = true ↔ 48 ≤ c ∧ c ≤ 57 := by
  simp [isDigit]

/-- the list is empty or starts with a non-digit -/
def NoDigitHead : List Nat → Prop
  | [] => True
  | c :: _ => isDigit c = false

theorem Delim.noDigitHead {rest : List Nat} (h : Delim rest) : NoDigitHead rest := by
  cases rest with
  | nil => trivial
  | cons c r =>
    simp only [Delim] at h
    simp only [NoDigitHead, isDigit]
    rcases h with h | h | h <;> subst h <;> decide

theorem takeWhile_digit_nil {rest : List Nat} (h : NoDigitHead rest) :
    rest.takeWhile isDigit = [] := by
  cases rest with
  | nil => rfl
  | cons c r =>
    simp only [NoDigitHead] at h
    simp [h]

theorem dropWhile_digit_self {rest : List Nat} (h : NoDigitHead rest) :
    rest.dropWhile isDigit = rest := by
  cases rest with
  | nil => rfl
  | cons c r =>
    simp only [NoDigitHead] at h
    simp [h]

theorem takeWhile_append_rest (r : List Nat) {rest : List Nat} (h : NoDigitHead rest) :
    (r ++ rest).takeWhile isDigit = r.takeWhile isDigit := by
  induction r with
  | nil => simp [takeWhile_digit_nil h]
  | cons c r ih =>
    simp only [List.cons_append, List.takeWhile_cons, ih]

theorem dropWhile_append_rest (r : List Nat) {rest : List Nat} (h : NoDigitHead rest) :
    (r ++ rest).dropWhile isDigit = r.dropWhile isDigit ++ rest := by
  induction r with
  | nil => simp [dropWhile_digit_self h]
  | cons c r ih =>
    simp only [List.cons_append, List.dropWhile_cons, ih]
    split <;> simp

theorem takeWhile_all {ds : List Nat} (h : ∀ d ∈ ds, isDigit d = true) :
    ds.takeWhile isDigit = ds := by
  induction ds with
  | nil => rfl
  | cons c r ih =>
    have hc : isDigit c = true := h c (by simp)
    have hr : ∀ d ∈ r, isDigit d = true := fun d hd => h d (by simp [hd])
    simp [hc, ih hr]

theorem dropWhile_all {ds : List Nat} (h : ∀ d ∈ ds, isDigit d = true) :
    ds.dropWhile isDigit = [] := by
  induction ds with
  | nil => rfl
  | cons c r ih =>
    have hc : isDigit c = true := h c (by simp)
    have hr : ∀ d ∈ r, isDigit d = true := fun d hd => h d (by simp [hd])
    simp [hc, ih hr]

theorem mem_takeWhile_digit (l : List Nat) : ∀ x ∈ l.takeWhile isDigit, isDigit x = true := by
  induction l with
  | nil => intro x hx; simp at hx
  | cons c r ih =>
    intro x hx
    simp only [List.takeWhile_cons] at hx
    split at hx
    · rename_i hc
      simp only [List.mem_cons] at hx
      rcases hx with rfl | hx
      · exact hc
      · exact ih x hx
    · simp at hx

/-! ## Decimal digits -/

theorem digitsRev_ne_nil (f n : Nat) (h : n < f) : digitsRev f n ≠ [] := by
  cases f with
  | zero => omega
  | succ f =>
    simp only [digitsRev]
    split <;> simp

theorem digitsRev_digit : ∀ (f n : Nat), ∀ d ∈ digitsRev f n, isDigit d = true := by
  intro f
  induction f with
  | zero => intro n d hd; simp [digitsRev] at hd
  | succ f ih =>
    intro n d hd
    simp only [digitsRev] at hd
    split at hd
    · simp only [List.mem_singleton] at hd
      subst hd
      rw [isDigit_iff]; omega
    · simp only [List.mem_cons] at hd
      rcases hd with rfl | hd
      · rw [isDigit_iff]; omega
      · exact ih _ _ hd

/-- value of a digit list, least significant digit first -/
def valRev (ds : List Nat) : Nat := ds.foldr (fun d a => a * 10 + (d - 48)) 0

theorem digitsVal_reverse (l : List Nat) : digitsVal l.reverse = valRev l := by
  simp only [digitsVal, valRev, List.foldl_reverse]

theorem digitsRev_val : ∀ (f n : Nat), n < f → valRev (digitsRev f n) = n := by
  intro f
  induction f with
  | zero => intro n h; omega
  | succ f ih =>
    intro n h
    simp only [digitsRev]
    split
    · simp [valRev]
    · have := ih (n / 10) (by omega)
      simp only [valRev, List.foldr_cons] at this ⊢
      rw [this]; omega

/-- a positive number's most significant digit is not `0` -/
theorem digitsRev_head : ∀ (f n : Nat), n < f → 0 < n →
    ∃ d ds, (digitsRev f n).reverse = d :: ds ∧ 49 ≤ d ∧ d ≤ 57 := by
  intro f
  induction f with
  | zero => intro n h; omega
  | succ f ih =>
    intro n h hn
    simp only [digitsRev]
    split
    · exact ⟨48 + n, [], by simp, by omega, by omega⟩
    · obtain ⟨d, ds, hds, h1, h2⟩ := ih (n / 10) (by omega) (by omega)
      exact ⟨d, ds ++ [48 + n % 10], by simp [hds], h1, h2⟩

theorem natDigits_zero : natDigits 0 = [48] := by
  simp [natDigits, digitsRev]

theorem natDigits_ne_nil (n : Nat) : natDigits n ≠ [] := by
  simp only [natDigits, ne_eq, List.reverse_eq_nil_iff]
  exact digitsRev_ne_nil _ _ (by omega)

theorem natDigits_digit (n : Nat) : ∀ d ∈ natDigits n, isDigit d = true := by
  intro d hd
  simp only [natDigits, List.mem_reverse] at hd
  exact digitsRev_digit _ _ d hd

theorem digitsVal_natDigits (n : Nat) : digitsVal (natDigits n) = n := by
  simp only [natDigits, digitsVal_reverse]
  exact digitsRev_val _ _ (by omega)

theorem natDigits_head (n : Nat) (hn : 0 < n) :
    ∃ d ds, natDigits n = d :: ds ∧ 49 ≤ d ∧ d ≤ 57 :=
  digitsRev_head _ _ (by omega) hn

theorem encInt_ne_nil (i : Int) : encInt i ≠ [] := by
  cases i with
  | ofNat n => exact natDigits_ne_nil n
  | negSucc n => simp [encInt]

/-- characters of an integer literal -/
theorem encInt_chars (i : Int) : ∀ c ∈ encInt i, isDigit c = true ∨ c = 45 := by
  intro c hc
  cases i with
  | ofNat n => exact Or.inl (natDigits_digit n c hc)
  | negSucc n =>
    simp only [encInt, List.mem_cons] at hc
    rcases hc with rfl | hc
    · exact Or.inr rfl
    · exact Or.inl (natDigits_digit _ c hc)

/-! ## Scanning an integer literal -/

theorem scanIntPart_natDigits (n : Nat) (rest : List Nat) (h : NoDigitHead rest) :
    scanIntPart (natDigits n ++ rest) = some (natDigits n, rest) := by
  by_cases hn : n = 0
  · subst hn
    simp [natDigits_zero, scanIntPart]
  · obtain ⟨d, ds, hds, h1, h2⟩ := natDigits_head n (by omega)
    have hall : ∀ x ∈ ds, isDigit x = true := fun x hx =>
      natDigits_digit n x (by simp [hds, hx])
    rw [hds]
    simp only [List.cons_append, scanIntPart]
    have h48 : d ≠ 48 := by omega
    simp only [h48, if_false, h1, h2, and_self, if_true]
    rw [takeWhile_append_rest _ h, dropWhile_append_rest _ h, takeWhile_all hall, dropWhile_all hall]
    simp

theorem scanFrac_delim {rest : List Nat} (h : Delim rest) : scanFrac rest = ([], rest) := by
  cases rest with
  | nil => rfl
  | cons c r =>
    simp only [Delim] at h
    have : c ≠ 46 := by omega
    simp [scanFrac, this]

theorem expSign_delim {rest : List Nat} (h : Delim rest) : expSign rest = [] := by
  cases rest with
  | nil => rfl
  | cons c r =>
    simp only [Delim] at h
    have h1 : c ≠ 43 := by omega
    have h2 : c ≠ 45 := by omega
    simp [expSign, h1, h2]

theorem scanExp_delim {rest : List Nat} (h : Delim rest) : scanExp rest = ([], rest) := by
  cases rest with
  | nil => rfl
  | cons c r =>
    simp only [Delim] at h
    have h1 : c ≠ 101 := by omega
    have h2 : c ≠ 69 := by omega
    simp [scanExp, h1, h2]

theorem scanNumBody_natDigits (neg : Bool) (n : Nat) (rest : List Nat) (h : Delim rest) :
    scanNumBody neg (natDigits n ++ rest)
      = some (.int (if neg then - (n : Int) else (n : Int)), rest) := by
  simp only [scanNumBody, scanIntPart_natDigits n rest h.noDigitHead, scanFrac_delim h,
    scanExp_delim h, digitsVal_natDigits, and_self, if_true]

/-- the scanner reads an integer literal back, whatever delimiter follows -/
theorem scanNum_encInt (i : Int) (rest : List Nat) (h : Delim rest) :
    scanNum (encInt i ++ rest) = some (.int i, rest) := by
  cases i with
  | ofNat n =>
    have hb := scanNumBody_natDigits false n rest h
    simp only [encInt]
    cases hds : natDigits n with
    | nil => exact absurd hds (natDigits_ne_nil n)
    | cons c r =>
      have hc : isDigit c = true := natDigits_digit n c (by simp [hds])
      rw [isDigit_iff] at hc
      have h45 : c ≠ 45 := by omega
      rw [hds] at hb
      simp only [List.cons_append] at hb ⊢
      simp only [scanNum, h45, if_false, hb]
      simp
  | negSucc n =>
    have hb := scanNumBody_natDigits true (n + 1) rest h
    simp only [encInt, List.cons_append, scanNum, if_true, hb]
    have : -(((n + 1 : Nat)) : Int) = Int.negSucc n := by omega
    rw [this]

/-! ## A fully consumed token in front of a delimiter -/

theorem scanIntPart_ext {r ip r1 rest : List Nat} (h : scanIntPart r = some (ip, r1))
    (hr : NoDigitHead rest) : scanIntPart (r ++ rest) = some (ip, r1 ++ rest) := by
  cases r with
  | nil => simp [scanIntPart] at h
  | cons d r =>
    simp only [List.cons_append, scanIntPart] at h ⊢
    by_cases h48 : d = 48
    · simp only [h48, if_true, Option.some.injEq, Prod.mk.injEq] at h ⊢
      obtain ⟨h1, h2⟩ := h
      simp [← h1, ← h2]
    · by_cases hd : 49 ≤ d ∧ d ≤ 57
      · simp only [h48, if_false, hd, and_self, if_true, Option.some.injEq, Prod.mk.injEq] at h ⊢
        obtain ⟨h1, h2⟩ := h
        rw [takeWhile_append_rest _ hr, dropWhile_append_rest _ hr, h1, h2]
        simp
      · simp [h48, hd] at h

theorem scanFrac_ext (r : List Nat) {rest : List Nat} (hr : Delim rest) :
    scanFrac (r ++ rest) = ((scanFrac r).1, (scanFrac r).2 ++ rest) := by
  cases r with
  | nil => rw [List.nil_append, scanFrac_delim hr]; rfl
  | cons c r =>
    simp only [List.cons_append, scanFrac, takeWhile_append_rest _ hr.noDigitHead,
      dropWhile_append_rest _ hr.noDigitHead]
    split <;> simp

theorem expSign_ext (r : List Nat) {rest : List Nat} (hr : Delim rest) :
    expSign (r ++ rest) = expSign r := by
  cases r with
  | nil => rw [List.nil_append, expSign_delim hr]; rfl
  | cons c r => simp [expSign]

theorem expSign_length_le (r : List Nat) : (expSign r).length ≤ r.length := by
  cases r with
  | nil => simp [expSign]
  | cons c r =>
    simp only [expSign]
    split <;> simp

theorem scanExp_ext (r : List Nat) {rest : List Nat} (hr : Delim rest) :
    scanExp (r ++ rest) = ((scanExp r).1, (scanExp r).2 ++ rest) := by
  cases r with
  | nil => rw [List.nil_append, scanExp_delim hr]; rfl
  | cons e r =>
    simp only [List.cons_append, scanExp, expSign_ext r hr,
      List.drop_append_of_le_length (expSign_length_le r),
      takeWhile_append_rest _ hr.noDigitHead, dropWhile_append_rest _ hr.noDigitHead]
    split <;> simp

theorem scanNumBody_ext {neg : Bool} {r rest : List Nat} {v : JVal}
    (h : scanNumBody neg r = some (v, [])) (hr : Delim rest) :
    scanNumBody neg (r ++ rest) = some (v, rest) := by
  simp only [scanNumBody] at h ⊢
  cases hip : scanIntPart r with
  | none => simp [hip] at h
  | some p =>
    obtain ⟨ip, r1⟩ := p
    rw [scanIntPart_ext hip hr.noDigitHead]
    simp only [hip] at h
    simp only [scanFrac_ext r1 hr, scanExp_ext _ hr]
    split at h
    · rename_i hc
      simp only [Option.some.injEq, Prod.mk.injEq] at h
      obtain ⟨h1, h2⟩ := h
      simp only [hc, and_self, if_true, h1, h2, List.nil_append]
    · rename_i hc
      simp only [Option.some.injEq, Prod.mk.injEq] at h
      obtain ⟨h1, h2⟩ := h
      simp only [hc, if_false, h1, h2, List.nil_append]

/-- a token the scanner consumes entirely is scanned the same way in front of a delimiter -/
theorem scanNum_append (tok rest : List Nat) (v : JVal) (h : scanNum tok = some (v, []))
    (hr : Delim rest) : scanNum (tok ++ rest) = some (v, rest) := by
  cases tok with
  | nil => simp [scanNum] at h
  | cons c r =>
    simp only [List.cons_append, scanNum] at h ⊢
    by_cases hc : c = 45
    · simp only [hc, if_true] at h ⊢
      exact scanNumBody_ext h hr
    · simp only [hc, if_false] at h ⊢
      exact scanNumBody_ext (r := c :: r) h hr

/-! ## Float tokens -/

theorem isFloatTok_scan (tok : List Nat) (h : isFloatTok tok = true) :
    scanNum tok = some (.num tok, []) := by
  simp only [isFloatTok] at h
  split at h
  · rename_i t heq
    have : t = tok := by simpa using h
    rw [heq, this]
  · simp at h

theorem isFloatTok_ne_nil (tok : List Nat) (h : isFloatTok tok = true) : tok ≠ [] := by
  intro hn
  subst hn
  simp [isFloatTok, scanNum] at h

/-- the characters of a number token -/
def NumChar (c : Nat) : Prop := isDigit c = true ∨ c = 43 ∨ c = 45 ∨ c = 46 ∨ c = 101 ∨ c = 69

theorem scanIntPart_chars {r ip r1 : List Nat} (h : scanIntPart r = some (ip, r1)) :
    ∀ c ∈ ip, isDigit c = true := by
  cases r with
  | nil => simp [scanIntPart] at h
  | cons d r =>
    simp only [scanIntPart] at h
    by_cases h48 : d = 48
    · simp only [h48, if_true, Option.some.injEq, Prod.mk.injEq] at h
      obtain ⟨h1, _⟩ := h
      subst h1
      intro c hc
      simp only [List.mem_singleton] at hc
      subst hc; decide
    · by_cases hd : 49 ≤ d ∧ d ≤ 57
      · simp only [h48, if_false, hd, and_self, if_true, Option.some.injEq, Prod.mk.injEq] at h
        obtain ⟨h1, _⟩ := h
        subst h1
        intro c hc
        simp only [List.mem_cons] at hc
        rcases hc with rfl | hc
        · rw [isDigit_iff]; omega
        · exact mem_takeWhile_digit _ c hc
      · simp [h48, hd] at h

theorem scanFrac_chars (r : List Nat) : ∀ c ∈ (scanFrac r).1, NumChar c := by
  cases r with
  | nil => intro c hc; simp [scanFrac] at hc
  | cons d r =>
    intro c hc
    simp only [scanFrac] at hc
    split at hc
    · rename_i hd
      simp only [List.mem_cons] at hc
      rcases hc with rfl | hc
      · simp [NumChar]
      · exact Or.inl (mem_takeWhile_digit _ c hc)
    · simp at hc

theorem expSign_chars (r : List Nat) : ∀ c ∈ expSign r, c = 43 ∨ c = 45 := by
  cases r with
  | nil => intro c hc; simp [expSign] at hc
  | cons s r =>
    intro c hc
    simp only [expSign] at hc
    split at hc
    · rename_i hs
      simp only [List.mem_singleton] at hc
      subst hc; exact hs
    · simp at hc

theorem scanExp_chars (r : List Nat) : ∀ c ∈ (scanExp r).1, NumChar c := by
  cases r with
  | nil => intro c hc; simp [scanExp] at hc
  | cons e r =>
    intro c hc
    simp only [scanExp] at hc
    split at hc
    · rename_i he
      simp only [List.mem_cons, List.mem_append] at hc
      rcases hc with rfl | hc | hc
      · rcases he.1 with h | h <;> simp [NumChar, h]
      · rcases expSign_chars r c hc with h | h <;> simp [NumChar, h]
      · exact Or.inl (mem_takeWhile_digit _ c hc)
    · simp at hc

theorem scanNumBody_chars {neg : Bool} {r t r' : List Nat}
    (h : scanNumBody neg r = some (.num t, r')) : ∀ c ∈ t, NumChar c := by
  simp only [scanNumBody] at h
  cases hip : scanIntPart r with
  | none => simp [hip] at h
  | some p =>
    obtain ⟨ip, r1⟩ := p
    simp only [hip] at h
    split at h
    · simp at h
    · simp only [Option.some.injEq, Prod.mk.injEq, JVal.num.injEq] at h
      obtain ⟨h1, _⟩ := h
      subst h1
      intro c hc
      simp only [List.mem_append] at hc
      rcases hc with ((hc | hc) | hc) | hc
      · cases neg
        · simp at hc
        · simp only [if_true, List.mem_singleton] at hc
          simp [NumChar, hc]
      · exact Or.inl (scanIntPart_chars hip c hc)
      · exact scanFrac_chars _ c hc
      · exact scanExp_chars _ c hc

/-- characters of a float token: digits + - . e E -/
theorem isFloatTok_chars (tok : List Nat) (h : isFloatTok tok = true) :
    ∀ c ∈ tok, isDigit c = true ∨ c = 43 ∨ c = 45 ∨ c = 46 ∨ c = 101 ∨ c = 69 := by
  have hs := isFloatTok_scan tok h
  cases tok with
  | nil => intro c hc; simp at hc
  | cons d r =>
    simp only [scanNum] at hs
    split at hs
    · exact scanNumBody_chars hs
    · exact scanNumBody_chars hs

end EJ
