import Eliot.Proofs.SysSlots
import Eliot.Proofs.SysFan
/-! Where `log_message` puts a dict: `currentOrFresh` + `buildLog` computed exactly, for a world with
a current action and for a world without one; and the part of the state `deliver` leaves alone.
Used by C04 (messages logged in a block are direct items of the block's action) and C13 (the two
notices of a failed serialization are placed in the caller's context). -/
namespace Sys

/-- `log_message(t, **f)` with `h` current: the dict carries `h`'s uuid and `h`'s level extended by
the next position of `h`; that position is consumed; nothing else about the actions changes. -/
theorem buildLog_in_current (w : World) (h : Nat) (a : Act) (hc : w.ctx = some h) (ha : w.acts[h]? = some a)
    (t : String) (f : Fields) :
    w.currentOrFresh.2 = h ∧
    (w.currentOrFresh.1.buildLog w.currentOrFresh.2 t f).2.get? "task_uuid" = some (.uuid a.uuid) ∧
    (w.currentOrFresh.1.buildLog w.currentOrFresh.2 t f).2.get? "task_level" = some (.lvl (a.level ++ [a.last + 1])) ∧
    (w.currentOrFresh.1.buildLog w.currentOrFresh.2 t f).2.get? "message_type" = some (.str t) ∧
    (w.currentOrFresh.1.buildLog w.currentOrFresh.2 t f).1.acts = w.acts.set h { a with last := a.last + 1 } ∧
    (w.currentOrFresh.1.buildLog w.currentOrFresh.2 t f).1.ctx = some h ∧
    (w.currentOrFresh.1.buildLog w.currentOrFresh.2 t f).1.nextUuid = w.nextUuid ∧
    (w.currentOrFresh.1.buildLog w.currentOrFresh.2 t f).1.slots = w.slots ++ [(h, a.last + 1)] := by
  have e : w.currentOrFresh = (w, h) := by simp only [World.currentOrFresh, hc]
  rw [e]
  have hcl : w.clock.1.acts[h]? = some a := ha
  simp only [World.buildLog, nextLevel_eq hcl]
  refine ⟨trivial, ?_, ?_, ?_, rfl, hc, rfl, rfl⟩
  · rw [C04.Fields.get?_set_ne _ _ _ _ (by decide), C04.Fields.get?_set_ne _ _ _ _ (by decide), C04.Fields.get?_set_self, hcl]
    rfl
  · rw [C04.Fields.get?_set_ne _ _ _ _ (by decide), C04.Fields.get?_set_self]
  · rw [C04.Fields.get?_set_self]

/-- `log_message(t, **f)` with no current action: a fresh root action with a uuid from the counter,
the dict at its position 1. -/
theorem buildLog_contextless (w : World) (hc : w.ctx = none) (t : String) (f : Fields) :
    (w.currentOrFresh.1.buildLog w.currentOrFresh.2 t f).2.get? "task_uuid" = some (.uuid w.nextUuid) ∧
    (w.currentOrFresh.1.buildLog w.currentOrFresh.2 t f).2.get? "task_level" = some (.lvl [1]) ∧
    (w.currentOrFresh.1.buildLog w.currentOrFresh.2 t f).2.get? "message_type" = some (.str t) ∧
    (w.currentOrFresh.1.buildLog w.currentOrFresh.2 t f).1.acts =
      w.acts ++ [({ uuid := w.nextUuid, level := [], last := 1, atype := "", sers := none } : Act)] ∧
    (w.currentOrFresh.1.buildLog w.currentOrFresh.2 t f).1.ctx = none ∧
    (w.currentOrFresh.1.buildLog w.currentOrFresh.2 t f).1.nextUuid = w.nextUuid + 1 := by
  have e : w.currentOrFresh = w.freshAction "" none := by simp only [World.currentOrFresh, hc]
  rw [e]
  have hget : (w.freshAction "" none).1.clock.1.acts[(w.freshAction "" none).2]? =
      some ({ uuid := w.nextUuid, level := [], atype := "", sers := none } : Act) := by
    simp [World.freshAction, World.clock]
  simp only [World.buildLog, nextLevel_eq hget]
  refine ⟨?_, ?_, ?_, ?_, hc, rfl⟩
  · rw [C04.Fields.get?_set_ne _ _ _ _ (by decide), C04.Fields.get?_set_ne _ _ _ _ (by decide), C04.Fields.get?_set_self]
    simp [World.freshAction, World.clock]
  · rw [C04.Fields.get?_set_ne _ _ _ _ (by decide), C04.Fields.get?_set_self]
    rfl
  · rw [C04.Fields.get?_set_self]
  · simp [World.freshAction, World.clock]

/-! ### `deliver` touches neither the actions nor the context nor the uuid counter -/
theorem callDest_core (env : Env) (w : World) (d : Nat) (m : Msg) :
    (w.callDest env d m).1.acts = w.acts ∧ (w.callDest env d m).1.ctx = w.ctx ∧
    (w.callDest env d m).1.nextUuid = w.nextUuid ∧ (w.callDest env d m).1.globals = w.globals := by
  unfold World.callDest
  simp only
  split <;> exact ⟨rfl, rfl, rfl, rfl⟩

theorem fanOut_core' (env : Env) (m : Msg) (ds : List Nat) (w : World) :
    (World.fanOut env w m ds).1.acts = w.acts ∧ (World.fanOut env w m ds).1.ctx = w.ctx ∧
    (World.fanOut env w m ds).1.nextUuid = w.nextUuid ∧ (World.fanOut env w m ds).1.globals = w.globals := by
  induction ds generalizing w with
  | nil => exact ⟨rfl, rfl, rfl, rfl⟩
  | cons d ds ih =>
    simp only [World.fanOut]
    obtain ⟨h1, h2, h3, h4⟩ := ih (w.callDest env d m).1
    obtain ⟨c1, c2, c3, c4⟩ := callDest_core env w d m
    exact ⟨h1.trans c1, h2.trans c2, h3.trans c3, h4.trans c4⟩

theorem deliver_core (env : Env) (w : World) (m : Msg) :
    (w.deliver env m).1.acts = w.acts ∧ (w.deliver env m).1.ctx = w.ctx ∧
    (w.deliver env m).1.nextUuid = w.nextUuid ∧ (w.deliver env m).1.globals = w.globals := by
  unfold World.deliver
  simp only
  split
  · exact fanOut_core' env _ _ _
  · exact ⟨rfl, rfl, rfl, rfl⟩

/-- `_MessageSerializer.serialize` only advances the serializer-call counter -/
theorem serializeFields_world (env : Env) (ss : List (String × Nat)) (w : World) (m : Msg) :
    ∃ n, (serializeFields env w ss m).1 = { w with serCalls := n } := by
  induction ss generalizing w m with
  | nil => exact ⟨w.serCalls, rfl⟩
  | cons p r ih =>
    obtain ⟨key, sid⟩ := p
    unfold serializeFields
    cases m.get? key with
    | none => exact ⟨w.serCalls, rfl⟩
    | some v =>
      simp only
      cases env.serialize sid v w.serCalls with
      | ok v' =>
        obtain ⟨n, hn⟩ := ih { w with serCalls := w.serCalls + 1 } (m.set key v')
        exact ⟨n, hn⟩
      | error e => exact ⟨w.serCalls + 1, rfl⟩

end Sys
