import Eliot.Proofs.SysLift
/-! A lifting principle with side conditions on what the statements of the program mention: a
relation that the primitives satisfy *for arguments satisfying a condition* is satisfied by every
program all of whose statements satisfy it (`Stmt.allC` / `Block.allC`). -/
namespace Sys

/-- conditions on the arguments of the statements of a program -/
structure Cond where
  /-- `start_action` / `start_task` / `continue_task` arguments -/
  spec : Spec → Bool := fun _ => true
  /-- `log_message` / `MessageType.log` / `x.log` arguments -/
  mspec : MSpec → Bool := fun _ => true
  /-- `add_success_fields` arguments -/
  succ : Fields → Bool := fun _ => true
  /-- `add_global_fields` arguments -/
  glob : Fields → Bool := fun _ => true
  /-- `add_destinations` arguments -/
  add : List Nat → Bool := fun _ => true

mutual
def Stmt.allC (c : Cond) : Stmt → Bool
  | .withAction _ sp b => c.spec sp && b.allC c
  | .log ms => c.mspec ms
  | .tryCatch b h => b.allC c && h.allC c
  | .startAs _ _ sp => c.spec sp
  | .withHandle _ b => b.allC c
  | .inContext _ b => b.allC c
  | .runIn _ b => b.allC c
  | .addSuccess _ fs => c.succ fs
  | .logTo _ ms => c.mspec ms
  | .continueWith _ sp b => c.spec sp && b.allC c
  | .addDests ds => c.add ds
  | .addGlobals fs => c.glob fs
  | _ => true
def Block.allC (c : Cond) : Block → Bool
  | .nil => true
  | .cons s r => s.allC c && r.allC c
end

structure PrimC (env : Env) (c : Cond) (G : World → World → Prop) : Prop where
  refl : ∀ w, G w w
  trans : ∀ {a b c}, G a b → G b c → G a c
  startAction : ∀ w task sp, c.spec sp = true → G w (w.startAction env task sp).1
  continueTask : ∀ w y u lvl sp, c.spec sp = true → lookupNat w.ids y = some (u, lvl) →
    G w (World.continueTask env ({ w with ids := w.ids.filter (fun e => e.1 != y) } : World) u lvl sp).1
  logMessage : ∀ w ms, c.mspec ms = true → G w (w.logMessage env ms)
  logTo : ∀ w h ms, c.mspec ms = true → G w (w.logTo env h ms)
  writeTraceback : ∀ w e, G w (w.writeTraceback env e)
  finishRec : ∀ w h exc, G w (w.finishRec env h exc)
  setCtx : ∀ w c, G w { w with ctx := c }
  setVars : ∀ w v, G w { w with vars := v }
  reserve : ∀ w h a y, w.acts[h]? = some a → G w { (w.nextLevel h).1 with ids := setNat (w.nextLevel h).1.ids y (a.uuid, (w.nextLevel h).2) }
  probe : ∀ w p, G w { w with probes := p }
  succ : ∀ w h a fs, c.succ fs = true → w.acts[h]? = some a → G w { w with acts := w.acts.set h { a with succ := a.succ.update fs } }
  addDests : ∀ w ds, c.add ds = true → G w (w.addDests env ds)
  removeDest : ∀ w d, G w { w with dests := w.dests.erase d }
  addGlobals : ∀ w fs, c.glob fs = true → G w { w with globals := w.globals.update fs }

theorem withBlock_liftC {env : Env} {c : Cond} {G : World → World → Prop} (hp : PrimC env c G) (w : World) (h : Nat)
    (run : World → World × Outcome) (hrun : ∀ w', G w' (run w').1) : G w (withBlock env w h run).1 := by
  unfold withBlock
  exact hp.trans (hp.setCtx w (some h)) (hp.trans (hrun _) (hp.trans (hp.setCtx _ w.ctx) (hp.finishRec _ _ _)))

theorem scopedBlock_liftC {env : Env} {c : Cond} {G : World → World → Prop} (hp : PrimC env c G) (w : World) (h : Nat)
    (run : World → World × Outcome) (hrun : ∀ w', G w' (run w').1) : G w (scopedBlock w h run).1 := by
  unfold scopedBlock
  exact hp.trans (hp.setCtx w (some h)) (hp.trans (hrun _) (hp.setCtx _ w.ctx))

mutual
theorem execS_liftC {env : Env} {c : Cond} {G : World → World → Prop} (hp : PrimC env c G)
    (cur : Option Exc) (w : World) (s : Stmt) (hq : s.allC c = true) : G w (execS env cur w s).1 := by
  cases s with
  | withAction task sp body =>
    simp only [execS]
    have hq' : c.spec sp = true ∧ body.allC c = true := by simpa [Stmt.allC] using hq
    exact hp.trans (hp.startAction w task sp hq'.1) (withBlock_liftC hp _ _ _ (fun w' => execB_liftC hp cur w' body hq'.2))
  | log ms => exact hp.logMessage w ms (by simpa [Stmt.allC] using hq)
  | raise i => exact hp.refl w
  | tryCatch body handler =>
    simp only [execS]
    have hq' : body.allC c = true ∧ handler.allC c = true := by simpa [Stmt.allC] using hq
    have hb := execB_liftC hp cur w body hq'.1
    split
    · rename_i w1 e heq
      rw [heq] at hb
      exact hp.trans hb (execB_liftC hp (some e) w1 handler hq'.2)
    · exact hb
  | writeTraceback =>
    simp only [execS]
    cases cur with
    | none => exact hp.refl w
    | some e => exact hp.writeTraceback w e
  | startAs x task sp =>
    simp only [execS]
    exact hp.trans (hp.startAction w task sp (by simpa [Stmt.allC] using hq)) (hp.setVars _ _)
  | withHandle x body =>
    simp only [execS]
    have hq' : body.allC c = true := by simpa [Stmt.allC] using hq
    cases lookupNat w.vars x with
    | none => exact hp.refl w
    | some h => exact withBlock_liftC hp _ _ _ (fun w' => execB_liftC hp cur w' body hq')
  | inContext x body =>
    simp only [execS]
    have hq' : body.allC c = true := by simpa [Stmt.allC] using hq
    cases lookupNat w.vars x with
    | none => exact hp.refl w
    | some h => exact scopedBlock_liftC hp _ _ _ (fun w' => execB_liftC hp cur w' body hq')
  | runIn x body =>
    simp only [execS]
    have hq' : body.allC c = true := by simpa [Stmt.allC] using hq
    cases lookupNat w.vars x with
    | none => exact hp.refl w
    | some h => exact scopedBlock_liftC hp _ _ _ (fun w' => execB_liftC hp cur w' body hq')
  | finish x exc =>
    simp only [execS]
    cases lookupNat w.vars x with
    | none => exact hp.refl w
    | some h => exact hp.finishRec w h _
  | addSuccess x fs =>
    simp only [execS]
    have hq' : c.succ fs = true := by simpa [Stmt.allC] using hq
    split
    · rename_i h _
      split
      · rename_i a ha; exact hp.succ w h a fs hq' ha
      · exact hp.refl w
    · exact hp.refl w
  | logTo x ms =>
    simp only [execS]
    cases lookupNat w.vars x with
    | none => exact hp.refl w
    | some h => exact hp.logTo w h ms (by simpa [Stmt.allC] using hq)
  | serializeAs y x =>
    simp only [execS]
    split
    · rename_i h _
      split
      · rename_i a ha; exact hp.reserve w h a y ha
      · exact hp.refl w
    · exact hp.refl w
  | continueWith y sp body =>
    simp only [execS]
    have hq' : c.spec sp = true ∧ body.allC c = true := by simpa [Stmt.allC] using hq
    cases hl : lookupNat w.ids y with
    | none => exact hp.refl w
    | some p =>
      obtain ⟨u, lvl⟩ := p
      exact hp.trans (hp.continueTask w y u lvl sp hq'.1 hl) (withBlock_liftC hp _ _ _ (fun w' => execB_liftC hp cur w' body hq'.2))
  | addDests ds => exact hp.addDests w ds (by simpa [Stmt.allC] using hq)
  | removeDest d =>
    simp only [execS]; split
    · exact hp.removeDest w d
    · exact hp.refl w
  | addGlobals fs => exact hp.addGlobals w fs (by simpa [Stmt.allC] using hq)
  | probe n => exact hp.probe w _
theorem execB_liftC {env : Env} {c : Cond} {G : World → World → Prop} (hp : PrimC env c G)
    (cur : Option Exc) (w : World) (b : Block) (hq : b.allC c = true) : G w (execB env cur w b).1 := by
  cases b with
  | nil => exact hp.refl w
  | cons s rest =>
    simp only [execB]
    have hq' : s.allC c = true ∧ rest.allC c = true := by simpa [Block.allC] using hq
    have hs := execS_liftC hp cur w s hq'.1
    split
    · rename_i w1 heq
      rw [heq] at hs
      exact hp.trans hs (execB_liftC hp cur w1 rest hq'.2)
    · exact hs
end

end Sys
