import Eliot.Proofs.SysLift
/-! Fan-out facts: every registered destination is offered exactly the staged messages. -/
namespace Sys

def offeredTo (w : World) (d : Nat) : List Msg := (w.offered.filter (fun e => e.1 == d)).map (·.2)
def acceptedBy (w : World) (d : Nat) : List Msg := (w.accepted.filter (fun e => e.1 == d)).map (·.2)
/-- the dicts that reached `Destinations.send` between two states -/
def newStage (w w' : World) : List Msg := w'.stage.drop w.stage.length

def healthy (env : Env) (d : Nat) : Prop := ∀ k, env.destFails d k = none

/-- the ghost flag computed by `Destinations.add` is exact -/
theorem hasDup_eq_false_iff (l : List Nat) : hasDup l = false ↔ l.Nodup := by
  induction l with
  | nil => simp [hasDup]
  | cons x xs ih => simp [hasDup, List.nodup_cons, ih]

/-- Steps that do not call any destination. -/
structure Quiet (w w' : World) : Prop where
  frame : Frame w w'
  offered : w'.offered = w.offered
  accepted : w'.accepted = w.accepted
  stage : w'.stage = w.stage
  buffer : w'.buffer = w.buffer

theorem Quiet.refl (w : World) : Quiet w w := ⟨Frame.refl w, rfl, rfl, rfl, rfl⟩
theorem Quiet.trans {a b c : World} (h1 : Quiet a b) (h2 : Quiet b c) : Quiet a c :=
  ⟨h1.frame.trans h2.frame, h2.offered.trans h1.offered, h2.accepted.trans h1.accepted, h2.stage.trans h1.stage,
   h2.buffer.trans h1.buffer⟩

theorem quiet_clock (w : World) : Quiet w w.clock.1 := ⟨frame_clock w, rfl, rfl, rfl, rfl⟩
theorem quiet_nextLevel (w : World) (h : Nat) : Quiet w (w.nextLevel h).1 := by
  refine ⟨frame_nextLevel w h, ?_, ?_, ?_, ?_⟩ <;> (unfold World.nextLevel; cases w.acts[h]? <;> rfl)
theorem quiet_freshAction (w : World) (t : String) (s) : Quiet w (w.freshAction t s).1 :=
  ⟨frame_freshAction w t s, rfl, rfl, rfl, rfl⟩
theorem quiet_currentOrFresh (w : World) : Quiet w w.currentOrFresh.1 := by
  unfold World.currentOrFresh
  cases w.ctx with
  | none => exact quiet_freshAction w "" none
  | some h => exact Quiet.refl w
theorem quiet_buildLog (w : World) (h : Nat) (t : String) (f : Fields) : Quiet w (w.buildLog h t f).1 := by
  unfold World.buildLog
  exact (quiet_clock w).trans (quiet_nextLevel _ _)
theorem quiet_serializeFields (env : Env) (ss : List (String × Nat)) (w : World) (m : Msg) :
    Quiet w (serializeFields env w ss m).1 := by
  induction ss generalizing w m with
  | nil => exact Quiet.refl w
  | cons p r ih =>
    obtain ⟨key, sid⟩ := p
    unfold serializeFields
    cases m.get? key with
    | none => exact Quiet.refl w
    | some v =>
      have h0 : Quiet w { w with serCalls := w.serCalls + 1 } :=
        ⟨⟨rfl, rfl, rfl, rfl, rfl, rfl, rfl, Nat.le_refl _, fun _ a h => ⟨a, h, rfl, rfl, Nat.le_refl _, id, rfl, rfl, rfl⟩,
          Nat.le_refl _, List.prefix_refl _, List.prefix_refl _, List.prefix_refl _, id⟩, rfl, rfl, rfl, rfl⟩
      simp only
      cases env.serialize sid v w.serCalls with
      | ok v' => exact h0.trans (ih _ _)
      | error e => exact h0
theorem quiet_setFinished (w : World) (h : Nat) (a : Act) (ha : w.acts[h]? = some a) :
    Quiet w { w with acts := w.acts.set h { a with finished := true } } :=
  ⟨frame_setFinished w h a ha, rfl, rfl, rfl, rfl⟩
theorem quiet_extCalls (w : World) : Quiet w { w with extCalls := w.extCalls + 1 } :=
  ⟨⟨rfl, rfl, rfl, rfl, rfl, rfl, rfl, Nat.le_refl _, fun _ a h => ⟨a, h, rfl, rfl, Nat.le_refl _, id, rfl, rfl, rfl⟩,
    Nat.le_refl _, List.prefix_refl _, List.prefix_refl _, List.prefix_refl _, id⟩, rfl, rfl, rfl, rfl⟩
theorem quiet_appendAct (w : World) (a : Act) (hu : a.uuid < w.nextUuid) : Quiet w { w with acts := w.acts ++ [a] } :=
  ⟨frame_appendAct w a hu, rfl, rfl, rfl, rfl⟩

/-! ### the fan-out relation -/
/-- While destinations are registered, each of them is offered exactly the messages that reach the
output stage, once each, in order; a destination that never fails accepts all of them whatever
the others do. -/
structure Fan (env : Env) (w w' : World) : Prop where
  anyAdded : w'.anyAdded = w.anyAdded
  dests : w'.dests = w.dests
  stage : w.stage <+: w'.stage
  off : w.anyAdded = true → w.dests.Nodup → ∀ d ∈ w.dests, offeredTo w' d = offeredTo w d ++ newStage w w'
  acc : w.anyAdded = true → w.dests.Nodup → ∀ d ∈ w.dests, healthy env d → acceptedBy w' d = acceptedBy w d ++ newStage w w'
  /-- a destination that is not registered is offered nothing -/
  other : ∀ d, d ∉ w.dests → offeredTo w' d = offeredTo w d

theorem newStage_self (w : World) : newStage w w = [] := by simp [newStage]

theorem newStage_trans {a b c : World} (h1 : a.stage <+: b.stage) (h2 : b.stage <+: c.stage) :
    newStage a c = newStage a b ++ newStage b c := by
  obtain ⟨x, hx⟩ := h1
  obtain ⟨y, hy⟩ := h2
  have hb : b.stage = a.stage ++ x := hx.symm
  have hc : c.stage = a.stage ++ (x ++ y) := by rw [← hy, hb, List.append_assoc]
  simp only [newStage, hb, hc, List.drop_left', List.length_append]
  rw [← List.append_assoc, ← List.length_append, List.drop_left']
  rfl

theorem Fan.refl (env : Env) (w : World) : Fan env w w :=
  ⟨rfl, rfl, List.prefix_refl _, fun _ _ _ _ => by simp [newStage_self], fun _ _ _ _ _ => by simp [newStage_self],
   fun _ _ => rfl⟩

theorem Fan.trans {env : Env} {a b c : World} (h1 : Fan env a b) (h2 : Fan env b c) : Fan env a c := by
  refine ⟨h2.anyAdded.trans h1.anyAdded, h2.dests.trans h1.dests, h1.stage.trans h2.stage, ?_, ?_,
    fun d hd => (h2.other d (h1.dests ▸ hd)).trans (h1.other d hd)⟩
  · intro ha hn d hd
    have hb : b.anyAdded = true := h1.anyAdded ▸ ha
    have hnb : b.dests.Nodup := h1.dests ▸ hn
    rw [h2.off hb hnb d (h1.dests ▸ hd), h1.off ha hn d hd, newStage_trans h1.stage h2.stage,
      List.append_assoc]
  · intro ha hn d hd hh
    have hb : b.anyAdded = true := h1.anyAdded ▸ ha
    have hnb : b.dests.Nodup := h1.dests ▸ hn
    rw [h2.acc hb hnb d (h1.dests ▸ hd) hh, h1.acc ha hn d hd hh, newStage_trans h1.stage h2.stage,
      List.append_assoc]

theorem Fan.ofQuiet {env : Env} {w w' : World} (q : Quiet w w') : Fan env w w' :=
  ⟨q.frame.anyAdded, q.frame.dests, q.frame.stage, fun _ _ _ _ => by simp [offeredTo, newStage, q.offered, q.stage],
   fun _ _ _ _ _ => by simp [acceptedBy, newStage, q.accepted, q.stage], fun _ _ => by simp [offeredTo, q.offered]⟩

/-! ### the loop -/
theorem callDest_offered (env : Env) (w : World) (d : Nat) (m : Msg) :
    (w.callDest env d m).1.offered = w.offered ++ [(d, m)] ∧ (w.callDest env d m).1.stage = w.stage ∧
    (w.callDest env d m).1.accepted = w.accepted ++ (if env.destFails d ((lookupNat w.destCalls d).getD 0) = none then [(d, m)] else []) := by
  unfold World.callDest
  simp only
  split <;> simp_all

theorem fanOut_offered (env : Env) (m : Msg) (ds : List Nat) (w : World) :
    (World.fanOut env w m ds).1.offered = w.offered ++ ds.map (fun d => (d, m)) ∧
    (World.fanOut env w m ds).1.stage = w.stage := by
  induction ds generalizing w with
  | nil => simp [World.fanOut]
  | cons d ds ih =>
    simp only [World.fanOut]
    obtain ⟨h1, h2⟩ := ih (w.callDest env d m).1
    obtain ⟨c1, c2, _⟩ := callDest_offered env w d m
    exact ⟨by rw [h1, c1]; simp, by rw [h2, c2]⟩

theorem fanOut_accepted (env : Env) (m : Msg) (ds : List Nat) (w : World) :
    ∃ acc, (World.fanOut env w m ds).1.accepted = w.accepted ++ acc ∧
      (∀ e ∈ acc, e.1 ∈ ds ∧ e.2 = m) ∧
      ∀ d, healthy env d → acc.filter (fun e => e.1 == d) = (ds.filter (· == d)).map (fun d => (d, m)) := by
  induction ds generalizing w with
  | nil => exact ⟨[], by simp [World.fanOut], by simp, by simp⟩
  | cons d ds ih =>
    simp only [World.fanOut]
    obtain ⟨acc, h1, h2, h3⟩ := ih (w.callDest env d m).1
    obtain ⟨_, _, c3⟩ := callDest_offered env w d m
    refine ⟨(if env.destFails d ((lookupNat w.destCalls d).getD 0) = none then [(d, m)] else []) ++ acc,
      by rw [h1, c3]; simp, ?_, ?_⟩
    · intro e he
      rcases List.mem_append.mp he with he | he
      · split at he
        · simp only [List.mem_singleton] at he; subst he; simp
        · cases he
      · exact ⟨List.mem_cons_of_mem _ (h2 e he).1, (h2 e he).2⟩
    · intro d' hh
      rw [List.filter_append, h3 d' hh]
      by_cases hd : d = d'
      · subst hd
        simp [hh _]
      · have : (d == d') = false := by simpa using hd
        split <;> simp [this, List.filter]

theorem filter_map_mem_nodup (ds : List Nat) (hn : ds.Nodup) (d : Nat) (hd : d ∈ ds) (m : Msg) :
    ((ds.map (fun d => (d, m))).filter (fun e => e.1 == d)).map (·.2) = [m] := by
  induction ds with
  | nil => cases hd
  | cons x xs ih =>
    simp only [List.nodup_cons] at hn
    simp only [List.map_cons, List.filter]
    by_cases hx : x = d
    · subst hx
      simp only [beq_self_eq_true, List.map_cons, List.cons.injEq, true_and]
      have : ∀ e ∈ xs.map (fun d => (d, m)), (e.1 == x) = false := by
        intro e he
        obtain ⟨y, hy, rfl⟩ := List.mem_map.mp he
        simp only [beq_eq_false_iff_ne, ne_eq]
        intro h; subst h; exact hn.1 hy
      rw [List.filter_eq_nil_iff.mpr (fun e he => by simp [this e he])]
      rfl
    · have hb : (x == d) = false := by simpa using hx
      simp only [hb]
      exact ih hn.2 (by rcases List.mem_cons.mp hd with h | h; exact absurd h.symm hx; exact h)

theorem filter_self_nodup (ds : List Nat) (hn : ds.Nodup) (d : Nat) (hd : d ∈ ds) : ds.filter (· == d) = [d] := by
  induction ds with
  | nil => cases hd
  | cons x xs ih =>
    simp only [List.nodup_cons] at hn
    simp only [List.filter]
    by_cases hx : x = d
    · subst hx
      simp only [beq_self_eq_true, List.cons.injEq, true_and]
      exact List.filter_eq_nil_iff.mpr (fun y hy => by simp; intro h; subst h; exact hn.1 hy)
    · have hb : (x == d) = false := by simpa using hx
      simp only [hb]
      exact ih hn.2 (by rcases List.mem_cons.mp hd with h | h; exact absurd h.symm hx; exact h)

/-- `deliver`: one more staged message, offered to every registered destination exactly once. -/
theorem fan_deliver (env : Env) (w : World) (m : Msg) : Fan env w (w.deliver env m).1 := by
  refine ⟨(frame_deliver env w m).anyAdded, (frame_deliver env w m).dests, (frame_deliver env w m).stage, ?_, ?_, ?_⟩
  rotate_left 2
  · intro d hd
    unfold World.deliver
    simp only
    split
    · obtain ⟨h1, _⟩ := fanOut_offered env (Fields.update m w.globals) w.dests
        { w with stage := w.stage ++ [Fields.update m w.globals], stageAt := w.stageAt ++ [w.dests] }
      simp only [offeredTo, h1, List.filter_append, List.map_append]
      have : (w.dests.map (fun d => (d, Fields.update m w.globals))).filter (fun e => e.1 == d) = [] := by
        apply List.filter_eq_nil_iff.mpr
        intro e he
        obtain ⟨y, hy, rfl⟩ := List.mem_map.mp he
        simp only [beq_iff_eq]
        intro h; subst h; exact hd hy
      rw [this]; simp
    · simp [offeredTo]
  · intro ha hn d hd
    unfold World.deliver
    simp only
    split
    · obtain ⟨h1, h2⟩ := fanOut_offered env (Fields.update m w.globals) w.dests
        { w with stage := w.stage ++ [Fields.update m w.globals], stageAt := w.stageAt ++ [w.dests] }
      simp only [offeredTo, newStage, h1, h2, List.filter_append, List.map_append, List.drop_left']
      rw [filter_map_mem_nodup w.dests hn d hd]
    · rename_i h; exact absurd ha h
  · intro ha hn d hd hh
    unfold World.deliver
    simp only
    split
    · obtain ⟨acc, h1, _, h3⟩ := fanOut_accepted env (Fields.update m w.globals) w.dests
        { w with stage := w.stage ++ [Fields.update m w.globals], stageAt := w.stageAt ++ [w.dests] }
      obtain ⟨_, h2⟩ := fanOut_offered env (Fields.update m w.globals) w.dests
        { w with stage := w.stage ++ [Fields.update m w.globals], stageAt := w.stageAt ++ [w.dests] }
      simp only [acceptedBy, newStage, h1, h2, List.filter_append, List.map_append, List.drop_left']
      rw [h3 d hh, filter_self_nodup w.dests hn d hd]
      simp
    · rename_i h; exact absurd ha h

theorem fan_logReport (env : Env) (w : World) (f : Fields) : Fan env w (w.logReport env f) := by
  unfold World.logReport
  exact (Fan.ofQuiet (quiet_currentOrFresh w)).trans ((Fan.ofQuiet (quiet_buildLog _ _ _ _)).trans (fan_deliver env _ _))

theorem fan_reportAll (env : Env) (m : Msg) (es : List Exc) (w : World) : Fan env w (World.reportAll env w m es) := by
  induction es generalizing w with
  | nil => exact Fan.refl env w
  | cons e es ih => exact (fan_logReport env w _).trans (ih _)

theorem fan_send (env : Env) (w : World) (m : Msg) : Fan env w (w.send env m) := by
  unfold World.send
  exact (fan_deliver env w m).trans (fan_reportAll env _ _ _)

theorem fan_logNoSer (env : Env) (w : World) (t : String) (f : Fields) : Fan env w (w.logNoSer env t f) := by
  unfold World.logNoSer
  exact (Fan.ofQuiet (quiet_currentOrFresh w)).trans ((Fan.ofQuiet (quiet_buildLog _ _ _ _)).trans (fan_send env _ _))

theorem fan_getFields (env : Env) (w : World) (e : Exc) : Fan env w (World.getFields env w e).1 := by
  unfold World.getFields
  cases firstExtractor env (env.mro (e.cls env)) with
  | none => exact Fan.refl env w
  | some f =>
    simp only
    cases f e w.extCalls with
    | ok fs => exact Fan.ofQuiet (quiet_extCalls w)
    | error e' => exact (Fan.ofQuiet (quiet_extCalls w)).trans (fan_logNoSer env _ _ _)

theorem fan_writeTraceback (env : Env) (w : World) (e : Exc) : Fan env w (w.writeTraceback env e) := by
  unfold World.writeTraceback
  exact (fan_getFields env w e).trans (fan_logNoSer env _ _ _)

theorem fan_loggerWrite (env : Env) (w : World) (m : Msg) (sers : Option (List (String × Nat))) :
    Fan env w (w.loggerWrite env m sers) := by
  unfold World.loggerWrite
  cases sers with
  | none => exact fan_send env w m
  | some ss =>
    simp only
    have h1 : Fan env w (serializeFields env w ss m).1 := Fan.ofQuiet (quiet_serializeFields env ss w m)
    cases h : (serializeFields env w ss m).2 with
    | ok m' => exact h1.trans (fan_send env _ _)
    | error e => exact h1.trans ((fan_writeTraceback env _ e).trans (fan_logNoSer env _ _ _))

theorem fan_logMessage (env : Env) (w : World) (ms : MSpec) : Fan env w (w.logMessage env ms) := by
  unfold World.logMessage
  exact (Fan.ofQuiet (quiet_currentOrFresh w)).trans ((Fan.ofQuiet (quiet_buildLog _ _ _ _)).trans (fan_loggerWrite env _ _ _))

theorem fan_logTo (env : Env) (w : World) (h : Nat) (ms : MSpec) : Fan env w (w.logTo env h ms) := by
  unfold World.logTo
  exact (Fan.ofQuiet (quiet_buildLog _ _ _ _)).trans (fan_loggerWrite env _ _ _)

theorem fan_startRec (env : Env) (w : World) (h : Nat) (f : Fields) : Fan env w (w.startRec env h f) := by
  unfold World.startRec
  cases w.acts[h]? with
  | none => exact Fan.refl env w
  | some a => exact (Fan.ofQuiet (quiet_clock w)).trans ((Fan.ofQuiet (quiet_nextLevel _ _)).trans (fan_loggerWrite env _ _ _))

theorem fan_finishRec (env : Env) (w : World) (h : Nat) (exc : Option Exc) : Fan env w (w.finishRec env h exc) := by
  unfold World.finishRec
  cases ha : w.acts[h]? with
  | none => exact Fan.refl env w
  | some a =>
    simp only
    split
    · exact Fan.refl env w
    · have h0 : Fan env w _ := Fan.ofQuiet (quiet_setFinished w h a ha)
      cases exc with
      | none =>
        exact h0.trans ((Fan.ofQuiet (quiet_clock _)).trans ((Fan.ofQuiet (quiet_nextLevel _ _)).trans (fan_loggerWrite env _ _ _)))
      | some e =>
        exact h0.trans ((fan_getFields env _ e).trans ((Fan.ofQuiet (quiet_clock _)).trans
          ((Fan.ofQuiet (quiet_nextLevel _ _)).trans (fan_loggerWrite env _ _ _))))

/-- silent updates of the control state (context, variables, probes, ids, success fields) -/
theorem Fan.ofSame {env : Env} {w w' : World} (h1 : w'.anyAdded = w.anyAdded) (h2 : w'.dests = w.dests)
    (h3 : w'.stage = w.stage) (h4 : w'.offered = w.offered) (h5 : w'.accepted = w.accepted) : Fan env w w' :=
  ⟨h1, h2, by rw [h3]; exact List.prefix_refl _, fun _ _ _ _ => by simp [offeredTo, newStage, h3, h4],
   fun _ _ _ _ _ => by simp [acceptedBy, newStage, h3, h5], fun _ _ => by simp [offeredTo, h4]⟩

theorem fan_startAction (env : Env) (w : World) (task : Bool) (sp : Spec)
    (hb : ∀ a ∈ w.acts, a.uuid < w.nextUuid) : Fan env w (w.startAction env task sp).1 := by
  unfold World.startAction
  split
  · exact (Fan.ofQuiet (quiet_freshAction w _ _)).trans (fan_startRec env _ _ _)
  · rename_i p _
    split
    · exact Fan.refl env w
    · rename_i pa hpa
      have h1 := frame_nextLevel w p
      have hb1 := h1.bound hb
      obtain ⟨pa', hpa', hu, _⟩ := h1.keep p pa hpa
      have : pa.uuid < (w.nextLevel p).1.nextUuid := by
        rw [← hu]; exact hb1 pa' (List.mem_of_getElem? hpa')
      exact (Fan.ofQuiet (quiet_nextLevel w p)).trans ((Fan.ofQuiet (quiet_appendAct (w.nextLevel p).1
        { uuid := pa.uuid, level := (w.nextLevel p).2, atype := sp.atype, sers := sp.sers } this)).trans
        (fan_startRec env _ _ _))

theorem fan_continueTask (env : Env) (w : World) (u : Nat) (lvl : Level) (sp : Spec) (hu : u < w.nextUuid) :
    Fan env w (w.continueTask env u lvl sp).1 := by
  unfold World.continueTask
  exact (Fan.ofQuiet (quiet_appendAct w _ hu)).trans (fan_startRec env _ _ _)

end Sys
