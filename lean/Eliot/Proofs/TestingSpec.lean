import Eliot.Proofs.TestingAnyOrder
/-!
# Hypotheses and helper lemmas of the C17 theorems

`Interleaving` / `PInterleaving` (what a captured log of finished action trees looks like),
`rootLogged`, `preorderActions`, and the core computation of `of_type` on such a log.
-/
namespace PM.C17
open PM PM.Testing

/-- `msgs` is an interleaving of the message lists of the tasks of `ts`, each in its own order. -/
structure Interleaving (msgs : List PMsg) (ts : Spec) : Prop where
  cover : ∀ m ∈ msgs, ∃ e ∈ ts, m.uuid = e.1
  order : ∀ e ∈ ts, msgs.filter (fun m => m.uuid == e.1) = tmsgs e.1 e.2

/-- what a whole task stands for: a `LoggedAction`, or a `LoggedMessage` for a one-message task -/
def rootLogged (u : String) : Tree → LItem
  | .leaf b => .msg (leafMsg u [1] b)
  | .node a sb eb ok kids => toLogged u (.node a sb eb ok kids) []

/-- the `LoggedAction`s of all actions of task `(u, t)`, in pre-order (parents first, children in
level order) -/
def preorderActions (u : String) : Tree → List LItem
  | .leaf _ => []
  | .node a sb eb ok kids => ((pre (.node a sb eb ok kids) []).filter (·.1.isNode)).map (toLoggedP u)

theorem isAct_toLoggedP (u : String) (p : Tree × Level) : (toLoggedP u p).isAct = p.1.isNode := by
  obtain ⟨t, lvl⟩ := p
  cases t <;> simp [toLoggedP, toLogged, LItem.isAct, Tree.isNode]

theorem actions_eq_pre (u : String) (t : Tree) (lvl : Level) :
    (toLogged u t lvl).actions = ((pre t lvl).filter (·.1.isNode)).map (toLoggedP u) := by
  unfold LItem.actions
  rw [self_desc_eq_pre, List.filter_map]
  congr 1
  apply List.filter_congr
  intro p _
  exact isAct_toLoggedP u p

theorem preorderActions_eq (u : String) (t : Tree) : preorderActions u t = (rootLogged u t).actions := by
  cases t with
  | leaf b => simp [preorderActions, rootLogged, LItem.actions, LItem.descendants, LItem.isAct]
  | node a sb eb ok kids => simp only [preorderActions, rootLogged, actions_eq_pre]

theorem Interleaving.root {msgs : List PMsg} {ts : Spec} (hI : Interleaving msgs ts) {u : String}
    {a : String} {sb eb : Nat} {ok : Bool} {kids : Forest} (he : (u, Tree.node a sb eb ok kids) ∈ ts) :
    OCtx msgs u (.node a sb eb ok kids) [] := by
  have := hI.order _ he
  unfold OCtx
  rw [show (Under u [] : PMsg → Bool) = fun m => m.uuid == u from by funext m; simp [Under]]
  exact this

theorem Interleaving.mem_tmsgs {msgs : List PMsg} {ts : Spec} (hI : Interleaving msgs ts) {m : PMsg}
    (hm : m ∈ msgs) : ∃ e ∈ ts, m.uuid = e.1 ∧ m ∈ tmsgs e.1 e.2 := by
  obtain ⟨e, he, hu⟩ := hI.cover m hm
  refine ⟨e, he, hu, ?_⟩
  rw [← hI.order e he]
  exact List.mem_filter.mpr ⟨hm, by simp [hu]⟩

/-- every started message of an interleaving starts a spec action in ordered context -/
theorem Interleaving.started {msgs : List PMsg} {ts : Spec} (hI : Interleaving msgs ts) {m : PMsg}
    (hm : m ∈ msgs) (hst : m.status = some "started") :
    ∃ u lvl a sb eb ok kids, OCtx msgs u (.node a sb eb ok kids) lvl ∧ m = startMsg u lvl a sb := by
  obtain ⟨⟨u, t⟩, he, _, hmem⟩ := hI.mem_tmsgs hm
  cases t with
  | leaf b =>
    simp only [tmsgs, List.mem_cons, List.not_mem_nil, or_false] at hmem
    subst hmem; simp [leafMsg] at hst
  | node a sb eb ok kids =>
    obtain ⟨lvl', a', sb', eb', ok', kids', h1, h2⟩ :=
      started_in_tree u _ msgs [] (hI.root he) m hmem hst
    exact ⟨u, lvl', a', sb', eb', ok', kids', h1, h2⟩

/-- `msgs` consists of the messages of the tasks of `ts`, each task's messages in *any* order. -/
structure PInterleaving (msgs : List PMsg) (ts : Spec) : Prop where
  cover : ∀ m ∈ msgs, ∃ e ∈ ts, m.uuid = e.1
  perm : ∀ e ∈ ts, (msgs.filter (fun m => m.uuid == e.1)).Perm (tmsgs e.1 e.2)

theorem Interleaving.toP {msgs : List PMsg} {ts : Spec} (h : Interleaving msgs ts) : PInterleaving msgs ts :=
  ⟨h.cover, fun e he => List.Perm.of_eq (h.order e he)⟩

theorem PInterleaving.root {msgs : List PMsg} {ts : Spec} (hI : PInterleaving msgs ts) {u : String}
    {a : String} {sb eb : Nat} {ok : Bool} {kids : Forest} (he : (u, Tree.node a sb eb ok kids) ∈ ts) :
    PCtx msgs u (.node a sb eb ok kids) [] := by
  have := hI.perm _ he
  unfold PCtx
  rw [show (Under u [] : PMsg → Bool) = fun m => m.uuid == u from by funext m; simp [Under]]
  exact this

theorem PInterleaving.mem_tmsgs {msgs : List PMsg} {ts : Spec} (hI : PInterleaving msgs ts) {m : PMsg}
    (hm : m ∈ msgs) : ∃ e ∈ ts, m.uuid = e.1 ∧ m ∈ tmsgs e.1 e.2 := by
  obtain ⟨e, he, hu⟩ := hI.cover m hm
  refine ⟨e, he, hu, ?_⟩
  exact (hI.perm e he).mem_iff.mp (List.mem_filter.mpr ⟨hm, by simp [hu]⟩)

theorem filter_map_split {α β} (f : α → β) (p q : α → Bool) (r : β → Bool) : ∀ (L : List α),
    (∀ m ∈ L, p m = true → r (f m) = q m) →
    (L.filter (fun m => q m && p m)).map f = ((L.filter p).map f).filter r
  | [], _ => rfl
  | m :: L, h => by
    have ih := filter_map_split f p q r L (fun x hx => h x (List.mem_cons_of_mem _ hx))
    cases hp : p m with
    | false => simp [hp, ih]
    | true =>
      have := h m List.mem_cons_self hp
      cases hq : q m <;> simp [hp, hq, ih, this ▸ hq]

/-- core of the `of_type` theorems -/
theorem ofType_core {msgs : List PMsg} {ts : Spec} (hI : Interleaving msgs ts) (ty : String) :
    ofType msgs ty = .ok ((msgs.filter (isStartOf ty)).map (actOf msgs)) ∧
    (∀ m ∈ msgs, isStart m = true → (actOf msgs m).first = m ∧ (actOf msgs m).isAct = true ∧
        (actOf msgs m).hasType ty = (m.atype == some ty)) ∧
    (∀ e ∈ ts, ((tmsgs e.1 e.2).filter (isStartOf ty)).map (actOf msgs) =
        (preorderActions e.1 e.2).filter (LItem.hasType ty)) := by
  have hpt : ∀ m ∈ msgs, isStart m = true → (actOf msgs m).first = m ∧ (actOf msgs m).isAct = true ∧
        (actOf msgs m).hasType ty = (m.atype == some ty) := by
    intro m hm hs
    obtain ⟨u, lvl, a, sb, eb, ok, kids, hctx, rfl⟩ := hI.started hm (by simpa [isStart] using hs)
    rw [actOf_node hctx]
    simp [toLogged, LItem.first, LItem.isAct, LItem.hasType]
  refine ⟨?_, hpt, ?_⟩
  · apply ofTypeGo_ok
    · intro m hm hs
      have hst : m.status = some "started" := by
        simp only [isStartOf, Bool.and_eq_true, beq_iff_eq] at hs; exact hs.2
      obtain ⟨u, lvl, a, sb, eb, ok, kids, hctx, rfl⟩ := hI.started hm hst
      exact ⟨_, fromMessages_node hctx⟩
    · intro m hm hty
      obtain ⟨⟨u, t⟩, _, _, hmem⟩ := hI.mem_tmsgs hm
      have hsh : m.Shaped u := by
        cases t with
        | leaf b =>
          simp only [tmsgs, List.mem_cons, List.not_mem_nil, or_false] at hmem
          subst hmem; simp [PMsg.Shaped, leafMsg]
        | node a sb eb ok kids => exact Tree.msgs_shape u _ [] m hmem
      rcases hsh.2 with h | h
      · rw [hty] at h; cases h
      · intro hn; rw [hn] at h; simp at h
  · intro e he
    obtain ⟨u, t⟩ := e
    cases t with
    | leaf b => simp [tmsgs, isStartOf, leafMsg, preorderActions]
    | node a sb eb ok kids =>
      have hctx := hI.root he
      have hsub : ∀ m ∈ tmsgs u (.node a sb eb ok kids), m ∈ msgs := by
        intro m hm; rw [← hI.order _ he] at hm; exact (List.mem_filter.mp hm).1
      have := filter_map_split (actOf msgs) isStart (fun m => m.atype == some ty) (LItem.hasType ty)
        (tmsgs u (.node a sb eb ok kids)) (fun m hm hs => (hpt m (hsub m hm) hs).2.2)
      rw [show (fun m : PMsg => (m.atype == some ty) && isStart m) = isStartOf ty from rfl] at this
      rw [this]
      simp only [tmsgs, starts_tree u _ msgs [] hctx, preorderActions, actions_eq_pre]

end PM.C17
