import Eliot.Model.Testing
import Eliot.Proofs.ParseParser
/-!
# Lemmas relating the `eliot.testing` model to spec trees (`PM.Tree`) — used by C17

`toLogged u t lvl` is the `LoggedAction` / `LoggedMessage` a spec sub-tree stands for.
Main lemma `fromMessages_node`: whenever the messages of `msgs` with uuid `u` and a level extending
`lvl` are exactly the messages of the sub-tree `t` at `lvl`, in its emission order (`OCtx`),
`fromMessages u (lvl ++ [1]) msgs = ok (toLogged u t lvl)`.
-/
namespace PM.Testing
open PM

/-! ## spec side -/
mutual
/-- the `LoggedAction` (node) / `LoggedMessage` (leaf) of the spec sub-tree `t` at `lvl` -/
def toLogged (u : String) : Tree → Level → LItem
  | .leaf b, lvl => .msg (leafMsg u lvl b)
  | .node a sb eb ok kids, lvl =>
    .act (startMsg u lvl a sb) (endMsg u lvl a eb ok (kids.len + 2)) (toLoggedF u kids lvl 2)
def toLoggedF (u : String) : Forest → Level → Nat → List LItem
  | .nil, _, _ => []
  | .cons t rest, lvl, k => toLogged u t (lvl ++ [k]) :: toLoggedF u rest lvl (k+1)
end

mutual
/-- nesting depth of actions -/
def depth : Tree → Nat
  | .leaf _ => 0
  | .node _ _ _ _ kids => depthF kids + 1
def depthF : Forest → Nat
  | .nil => 0
  | .cons t r => max (depth t) (depthF r)
end

/-- `m` belongs to task `u` and its level extends `lvl` -/
def Under (u : String) (lvl : Level) (m : PMsg) : Bool := m.uuid == u && lvl.isPrefixOf m.level

/-- Ordered context: the messages of `msgs` under `(u, lvl)` are exactly those of the spec
sub-tree `t` placed at `lvl`, in emission order. -/
def OCtx (msgs : List PMsg) (u : String) (t : Tree) (lvl : Level) : Prop :=
  msgs.filter (Under u lvl) = Tree.msgs u t lvl

theorem under_iff (u : String) (lvl : Level) (m : PMsg) :
    Under u lvl m = true ↔ m.uuid = u ∧ lvl <+: m.level := by
  simp [Under, List.isPrefixOf_iff_prefix]

/-! ## `scan` -/
theorem scan_append (f : St → PMsg → Except Err St) (st : St) (a b : List PMsg) :
    scan f st (a ++ b) = match scan f st a with
      | .ok st' => scan f st' b
      | .error e => .error e := by
  induction a generalizing st with
  | nil => simp [scan]
  | cons m ms ih =>
    simp only [List.cons_append, scan]
    cases f st m with
    | ok st' => exact ih st'
    | error e => rfl

theorem scan_ignore (f : St → PMsg → Except Err St) (st : St) (l : List PMsg)
    (h : ∀ m ∈ l, f st m = .ok st) : scan f st l = .ok st := by
  induction l with
  | nil => rfl
  | cons m ms ih =>
    simp only [scan, h m List.mem_cons_self]
    exact ih (fun x hx => h x (List.mem_cons_of_mem _ hx))

/-! ## one iteration, by the shape of the message -/
/-- messages that are not under `(u, lvl)` are skipped -/
theorem step_skip (R : Level → Except Err LItem) (u : String) (lvl : Level) (st : St) (m : PMsg)
    (h : Under u lvl m = false) : step R u lvl st m = .ok st := by
  unfold step
  by_cases hu : m.uuid = u
  · have hp : ¬ lvl <+: m.level := by
      intro hp; have := (under_iff u lvl m).mpr ⟨hu, hp⟩; rw [h] at this; cases this
    have h1 : (m.level.dropLast == lvl) = false := by
      apply beq_false_of_ne; intro e; exact hp (e ▸ List.dropLast_prefix _)
    have h2 : (m.level.dropLast.dropLast == lvl) = false := by
      apply beq_false_of_ne; intro e
      exact hp (e ▸ (List.dropLast_prefix _).trans (List.dropLast_prefix _))
    simp [hu, h1, h2]
  · simp [hu]

theorem scan_filter (R : Level → Except Err LItem) (u : String) (lvl : Level) (st : St)
    (msgs : List PMsg) :
    scan (step R u lvl) st msgs = scan (step R u lvl) st (msgs.filter (Under u lvl)) := by
  induction msgs generalizing st with
  | nil => rfl
  | cons m ms ih =>
    cases h : Under u lvl m with
    | false => simp only [scan, List.filter_cons, h, step_skip R u lvl st m h]; exact ih st
    | true =>
      simp only [List.filter_cons, h, ↓reduceIte, scan]
      cases step R u lvl st m with
      | ok st' => exact ih st'
      | error e => rfl

theorem step_start (R : Level → Except Err LItem) (u : String) (lvl : Level) (st : St) (a : String) (sb : Nat) :
    step R u lvl st (startMsg u lvl a sb) = .ok { st with start := some (startMsg u lvl a sb) } := by
  simp [step, startMsg]

theorem step_end (R : Level → Except Err LItem) (u : String) (lvl : Level) (st : St) (a : String) (eb : Nat)
    (ok : Bool) (n : Nat) :
    step R u lvl st (endMsg u lvl a eb ok n) = .ok { st with end_ := some (endMsg u lvl a eb ok n) } := by
  cases ok <;> simp [step, endMsg, isCompleted]

theorem step_leaf (R : Level → Except Err LItem) (u : String) (lvl : Level) (st : St) (k b : Nat) :
    step R u lvl st (leafMsg u (lvl ++ [k]) b) =
      .ok { st with children := st.children ++ [.msg (leafMsg u (lvl ++ [k]) b)] } := by
  simp [step, leafMsg, isCompleted]

theorem step_child_start (R : Level → Except Err LItem) (u : String) (lvl : Level) (st : St) (k : Nat)
    (a : String) (sb : Nat) (c : LItem) (hR : R (lvl ++ [k] ++ [1]) = .ok c) :
    step R u lvl st (startMsg u (lvl ++ [k]) a sb) = .ok { st with children := st.children ++ [c] } := by
  have h1 : ((lvl ++ [k] ++ [1]).dropLast == lvl) = false := by
    apply beq_false_of_ne; intro e
    have := congrArg List.length e; simp at this
  simp only [step, startMsg, bne_self_eq_false, Bool.false_eq_true, ↓reduceIte, h1, hR]
  simp

/-- a message two or more levels below `lvl` that is not the first message of a direct child -/
theorem step_deep (R : Level → Except Err LItem) (u : String) (lvl : Level) (st : St) (m : PMsg)
    (k j : Nat) (r : List Nat) (h : m.level = lvl ++ k :: j :: r) (hj : r ≠ [] ∨ j ≠ 1) :
    step R u lvl st m = .ok st := by
  unfold step
  have h1 : (m.level.dropLast == lvl) = false := by
    apply beq_false_of_ne; intro e
    have := congrArg List.length e
    simp [h, List.length_dropLast] at this
  have h3 : (m.level.length == lvl.length + 2 && m.level.dropLast.dropLast == lvl
      && m.level.getLast? == some 1) = false := by
    cases r with
    | nil =>
      have hj' : j ≠ 1 := by rcases hj with hj | hj; exact absurd rfl hj; exact hj
      have : m.level.getLast? = some j := by rw [h]; simp
      simp [this, hj']
    | cons x xs =>
      have : (m.level.length == lvl.length + 2) = false := by
        apply beq_false_of_ne; rw [h]; simp
      simp [this]
  by_cases hu : m.uuid = u
  · simp only [hu, bne_self_eq_false, Bool.false_eq_true, ↓reduceIte, h1, h3]
  · simp [hu]

/-- `Forest.get?` is within bounds -/
theorem get?_lt_len : ∀ (f : Forest) (i : Nat) (t : Tree), f.get? i = some t → i < f.len
  | .nil, _, _, h => by simp [Forest.get?] at h
  | .cons _ _, 0, _, _ => by simp [Forest.len]
  | .cons _ r, i+1, t, h => by
    have := get?_lt_len r i t (by simpa [Forest.get?] using h)
    simp [Forest.len]; omega

/-- scanning the messages of the children `kids` (placed at `lvl ++ [k0]`, `lvl ++ [k0+1]`, …)
appends their `LoggedMessage`s / `LoggedAction`s in order, provided the recursive call is right on
every child action. -/
theorem scan_forest (R : Level → Except Err LItem) (u : String) (lvl : Level) :
    ∀ (kids : Forest) (k0 : Nat) (st : St),
    (∀ i a sb eb ok ks, kids.get? i = some (.node a sb eb ok ks) →
        R (lvl ++ [k0 + i] ++ [1]) = .ok (toLogged u (.node a sb eb ok ks) (lvl ++ [k0 + i]))) →
    scan (step R u lvl) st (Forest.msgs u kids lvl k0) =
      .ok { st with children := st.children ++ toLoggedF u kids lvl k0 }
  | .nil, k0, st, _ => by simp [Forest.msgs, scan, toLoggedF]
  | .cons t rest, k0, st, hR => by
    have ih := fun st' => scan_forest R u lvl rest (k0+1) st' (fun i a sb eb ok ks hi => by
      have := hR (i+1) a sb eb ok ks (by simpa [Forest.get?] using hi)
      rwa [show k0 + (i + 1) = k0 + 1 + i by omega] at this)
    simp only [Forest.msgs, scan_append]
    cases t with
    | leaf b =>
      simp only [Tree.msgs, scan, step_leaf]
      rw [ih]
      simp [toLoggedF, toLogged]
    | node a sb eb ok ks =>
      have h0 := hR 0 a sb eb ok ks (by simp [Forest.get?])
      simp only [Nat.add_zero] at h0
      have hrest : ∀ st', scan (step R u lvl) st'
          (Forest.msgs u ks (lvl ++ [k0]) 2 ++ [endMsg u (lvl ++ [k0]) a eb ok (ks.len + 2)]) = .ok st' := by
        intro st'
        apply scan_ignore
        intro m hm
        rcases List.mem_append.mp hm with hm | hm
        · obtain ⟨j, hj, r, hr⟩ := Forest.msgs_prefix u ks (lvl ++ [k0]) 2 m hm
          cases r with
          | nil =>
            exact step_deep R u lvl st' m k0 j [] (by rw [← hr]; simp) (Or.inr (by omega))
          | cons x xs =>
            exact step_deep R u lvl st' m k0 j (x :: xs) (by rw [← hr]; simp) (Or.inl (by simp))
        · simp only [List.mem_singleton] at hm
          subst hm
          exact step_deep R u lvl st' _ k0 (ks.len + 2) [] (by simp [endMsg]) (Or.inr (by omega))
      simp only [Tree.msgs, scan, step_child_start R u lvl st k0 a sb _ h0, hrest]
      rw [ih]
      simp [toLoggedF]

/-! ## the ordered context descends to the children -/
theorem tree_uuid (u : String) (t : Tree) (lvl : Level) (m : PMsg) (h : m ∈ Tree.msgs u t lvl) :
    m.uuid = u := (Tree.msgs_shape u t lvl m h).1

theorem filter_all {α} (p : α → Bool) (l : List α) (h : ∀ x ∈ l, p x = true) : l.filter p = l :=
  List.filter_eq_self.mpr h

theorem filter_none {α} (p : α → Bool) (l : List α) (h : ∀ x ∈ l, p x = false) : l.filter p = [] := by
  apply List.filter_eq_nil_iff.mpr
  intro x hx; simp [h x hx]

/-- filtering the children's messages by "under child number `k0 + i`" leaves that child's -/
theorem forest_filter_kid (u : String) (lvl : Level) :
    ∀ (f : Forest) (k0 i : Nat) (t : Tree), f.get? i = some t →
      (Forest.msgs u f lvl k0).filter (Under u (lvl ++ [k0 + i])) = Tree.msgs u t (lvl ++ [k0 + i])
  | .nil, _, _, _, h => by simp [Forest.get?] at h
  | .cons t0 rest, k0, 0, t, h => by
    simp only [Forest.get?, Option.some.injEq] at h
    subst h
    simp only [Forest.msgs, List.filter_append, Nat.add_zero]
    rw [filter_all, filter_none]
    · simp
    · intro m hm
      obtain ⟨k, hk, hp⟩ := Forest.msgs_prefix u rest lvl (k0+1) m hm
      cases hU : Under u (lvl ++ [k0]) m with
      | false => rfl
      | true =>
        have := prefix_snoc_inj lvl k0 k _ ((under_iff _ _ _).mp hU).2 hp
        omega
    · intro m hm
      exact (under_iff _ _ _).mpr ⟨tree_uuid u _ _ m hm, Tree.msgs_prefix u _ _ m hm⟩
  | .cons t0 rest, k0, i+1, t, h => by
    have ih := forest_filter_kid u lvl rest (k0+1) i t (by simpa [Forest.get?] using h)
    rw [show k0 + 1 + i = k0 + (i + 1) by omega] at ih
    simp only [Forest.msgs, List.filter_append]
    rw [filter_none, ih]
    · simp
    · intro m hm
      have hp := Tree.msgs_prefix u t0 (lvl ++ [k0]) m hm
      cases hU : Under u (lvl ++ [k0 + (i+1)]) m with
      | false => rfl
      | true =>
        have := prefix_snoc_inj lvl (k0 + (i+1)) k0 _ ((under_iff _ _ _).mp hU).2 hp
        omega

theorem under_snoc (u : String) (lvl : Level) (k : Nat) (m : PMsg) (h : Under u (lvl ++ [k]) m = true) :
    Under u lvl m = true := by
  rw [under_iff] at *
  exact ⟨h.1, (List.prefix_append lvl [k]).trans h.2⟩

theorem OCtx.kid {msgs : List PMsg} {u : String} {a : String} {sb eb : Nat} {ok : Bool} {kids : Forest}
    {lvl : Level} (h : OCtx msgs u (.node a sb eb ok kids) lvl) {i : Nat} {t : Tree}
    (hi : kids.get? i = some t) : OCtx msgs u t (lvl ++ [2 + i]) := by
  unfold OCtx at *
  have hsub : msgs.filter (Under u (lvl ++ [2 + i])) =
      (msgs.filter (Under u lvl)).filter (Under u (lvl ++ [2 + i])) := by
    rw [List.filter_filter]
    apply List.filter_congr
    intro m _
    cases hU : Under u (lvl ++ [2 + i]) m with
    | false => simp
    | true => simp [under_snoc u lvl _ m hU]
  rw [hsub, h]
  simp only [Tree.msgs, List.filter_cons, List.filter_append, List.filter_nil]
  have hlt := get?_lt_len kids i t hi
  have hs : Under u (lvl ++ [2 + i]) (startMsg u lvl a sb) = false := by
    cases hU : Under u (lvl ++ [2 + i]) (startMsg u lvl a sb) with
    | false => rfl
    | true =>
      have := prefix_snoc_inj lvl (2 + i) 1 _ ((under_iff _ _ _).mp hU).2 (by simp [startMsg])
      omega
  have he : Under u (lvl ++ [2 + i]) (endMsg u lvl a eb ok (kids.len + 2)) = false := by
    cases hU : Under u (lvl ++ [2 + i]) (endMsg u lvl a eb ok (kids.len + 2)) with
    | false => rfl
    | true =>
      have := prefix_snoc_inj lvl (2 + i) (kids.len + 2) _ ((under_iff _ _ _).mp hU).2 (by simp [endMsg])
      omega
  simp [hs, he, forest_filter_kid u lvl kids 2 i t hi]

/-! ## the recursion budget -/
mutual
theorem depth_le_length (u : String) (t : Tree) (lvl : Level) : depth t ≤ (Tree.msgs u t lvl).length := by
  cases t with
  | leaf b => simp [depth]
  | node a sb eb ok kids =>
    have := depthF_le_length u kids lvl 2
    simp [depth, Tree.msgs]; omega
theorem depthF_le_length (u : String) (f : Forest) (lvl : Level) (k : Nat) :
    depthF f ≤ (Forest.msgs u f lvl k).length := by
  cases f with
  | nil => simp [depthF]
  | cons t r =>
    have h1 := depth_le_length u t (lvl ++ [k])
    have h2 := depthF_le_length u r lvl (k+1)
    simp [depthF, Forest.msgs]; omega
end

theorem depth_get? : ∀ (f : Forest) (i : Nat) (t : Tree), f.get? i = some t → depth t ≤ depthF f
  | .nil, _, _, h => by simp [Forest.get?] at h
  | .cons t0 r, 0, t, h => by
    simp only [Forest.get?, Option.some.injEq] at h; subst h; simp [depthF]; omega
  | .cons t0 r, i+1, t, h => by
    have := depth_get? r i t (by simpa [Forest.get?] using h)
    simp [depthF]; omega

/-! ## main lemma -/
mutual
theorem fromMessagesF_node (u : String) (t : Tree) :
    ∀ (fuel : Nat) (msgs : List PMsg) (lvl : Level) (a : String) (sb eb : Nat) (ok : Bool) (kids : Forest),
      t = .node a sb eb ok kids → OCtx msgs u t lvl → depth t ≤ fuel →
      fromMessagesF fuel u (lvl ++ [1]) msgs = .ok (toLogged u t lvl) := by
  intro fuel msgs lvl a sb eb ok kids ht hctx hfuel
  subst ht
  cases fuel with
  | zero => simp [depth] at hfuel
  | succ fuel =>
    have hR : ∀ i a' sb' eb' ok' ks, kids.get? i = some (.node a' sb' eb' ok' ks) →
        fromMessagesF fuel u (lvl ++ [2 + i] ++ [1]) msgs =
          .ok (toLogged u (.node a' sb' eb' ok' ks) (lvl ++ [2 + i])) := by
      intro i a' sb' eb' ok' ks hi
      refine fromMessagesF_kids u kids i _ hi fuel msgs (lvl ++ [2 + i]) a' sb' eb' ok' ks rfl (hctx.kid hi) ?_
      have := depth_get? kids i _ hi
      simp [depth] at hfuel this ⊢; omega
    unfold fromMessagesF
    simp only [List.dropLast_concat]
    rw [scan_filter, hctx]
    simp only [Tree.msgs, scan, step_start, scan_append]
    rw [scan_forest (fun l => fromMessagesF fuel u l msgs) u lvl kids 2 _ hR]
    simp only [step_end]
    simp [finish, toLogged]
theorem fromMessagesF_kids (u : String) (f : Forest) :
    ∀ (i : Nat) (t : Tree), f.get? i = some t →
    ∀ (fuel : Nat) (msgs : List PMsg) (lvl : Level) (a : String) (sb eb : Nat) (ok : Bool) (kids : Forest),
      t = .node a sb eb ok kids → OCtx msgs u t lvl → depth t ≤ fuel →
      fromMessagesF fuel u (lvl ++ [1]) msgs = .ok (toLogged u t lvl) := by
  intro i t hi
  cases f with
  | nil => simp [Forest.get?] at hi
  | cons t0 r =>
    cases i with
    | zero =>
      simp only [Forest.get?, Option.some.injEq] at hi
      subst hi
      exact fromMessagesF_node u t0
    | succ i =>
      exact fromMessagesF_kids u r i t (by simpa [Forest.get?] using hi)
end

theorem OCtx.length_le {msgs : List PMsg} {u : String} {t : Tree} {lvl : Level} (h : OCtx msgs u t lvl) :
    (Tree.msgs u t lvl).length ≤ msgs.length := by
  rw [← h]; exact List.length_filter_le _ _

/-- **main lemma**: `fromMessages` on the start level of a spec action returns that action. -/
theorem fromMessages_node {msgs : List PMsg} {u : String} {lvl : Level} {a : String} {sb eb : Nat}
    {ok : Bool} {kids : Forest} (h : OCtx msgs u (.node a sb eb ok kids) lvl) :
    fromMessages u (lvl ++ [1]) msgs = .ok (toLogged u (.node a sb eb ok kids) lvl) :=
  fromMessagesF_node u _ msgs.length msgs lvl a sb eb ok kids rfl h
    (Nat.le_trans (depth_le_length u _ lvl) h.length_le)

/-! ## every started message of a tree in ordered context starts a sub-action in ordered context -/
mutual
theorem started_in_tree (u : String) (t : Tree) :
    ∀ (msgs : List PMsg) (lvl : Level), OCtx msgs u t lvl →
      ∀ m ∈ Tree.msgs u t lvl, m.status = some "started" →
        ∃ lvl' a sb eb ok kids, OCtx msgs u (.node a sb eb ok kids) lvl' ∧ m = startMsg u lvl' a sb := by
  intro msgs lvl hctx m hm hst
  cases t with
  | leaf b =>
    simp only [Tree.msgs, List.mem_cons, List.not_mem_nil, or_false] at hm
    subst hm; simp [leafMsg] at hst
  | node a sb eb ok kids =>
    simp only [Tree.msgs, List.mem_cons, List.mem_append, List.not_mem_nil, or_false] at hm
    rcases hm with h | h | h
    · exact ⟨lvl, a, sb, eb, ok, kids, hctx, h⟩
    · exact started_in_forest u kids msgs lvl 2 (fun i t hi => hctx.kid hi) m h hst
    · subst h; cases ok <;> simp [endMsg] at hst
theorem started_in_forest (u : String) (f : Forest) :
    ∀ (msgs : List PMsg) (lvl : Level) (k0 : Nat),
      (∀ i t, f.get? i = some t → OCtx msgs u t (lvl ++ [k0 + i])) →
      ∀ m ∈ Forest.msgs u f lvl k0, m.status = some "started" →
        ∃ lvl' a sb eb ok kids, OCtx msgs u (.node a sb eb ok kids) lvl' ∧ m = startMsg u lvl' a sb := by
  intro msgs lvl k0 hctx m hm hst
  cases f with
  | nil => simp [Forest.msgs] at hm
  | cons t0 r =>
    simp only [Forest.msgs, List.mem_append] at hm
    rcases hm with h | h
    · have h0 := hctx 0 t0 (by simp [Forest.get?])
      simp only [Nat.add_zero] at h0
      exact started_in_tree u t0 msgs _ h0 m h hst
    · refine started_in_forest u r msgs lvl (k0+1) (fun i t hi => ?_) m h hst
      have := hctx (i+1) t (by simpa [Forest.get?] using hi)
      rwa [show k0 + (i + 1) = k0 + 1 + i by omega] at this
end

/-! ## pre-order -/
def LItem.isAct : LItem → Bool
  | .act .. => true
  | .msg _ => false

/-- own message of a `LoggedMessage`, start message of a `LoggedAction` -/
def LItem.first : LItem → PMsg
  | .msg m => m
  | .act s _ _ => s

def LItem.hasType (ty : String) : LItem → Bool
  | .act s _ _ => s.atype == some ty
  | .msg _ => false

/-- the action itself and all descendant actions, in the order `descendants()` yields them -/
def LItem.actions (x : LItem) : List LItem := (x :: x.descendants).filter LItem.isAct

def isStart (m : PMsg) : Bool := m.status == some "started"
def isStartOf (ty : String) (m : PMsg) : Bool := m.atype == some ty && m.status == some "started"

mutual
/-- all sub-trees (with their levels) in pre-order, the tree itself first -/
def pre : Tree → Level → List (Tree × Level)
  | .leaf b, lvl => [(.leaf b, lvl)]
  | .node a sb eb ok kids, lvl => (.node a sb eb ok kids, lvl) :: preF kids lvl 2
def preF : Forest → Level → Nat → List (Tree × Level)
  | .nil, _, _ => []
  | .cons t r, lvl, k => pre t (lvl ++ [k]) ++ preF r lvl (k+1)
end

def toLoggedP (u : String) (p : Tree × Level) : LItem := toLogged u p.1 p.2

mutual
theorem self_desc_eq_pre (u : String) (t : Tree) (lvl : Level) :
    toLogged u t lvl :: (toLogged u t lvl).descendants = (pre t lvl).map (toLoggedP u) := by
  cases t with
  | leaf b => simp [toLogged, LItem.descendants, pre, toLoggedP]
  | node a sb eb ok kids =>
    simp only [toLogged, LItem.descendants, pre, List.map_cons, toLoggedP]
    rw [descL_eq_preF u kids lvl 2]
theorem descL_eq_preF (u : String) (f : Forest) (lvl : Level) (k : Nat) :
    descendantsL (toLoggedF u f lvl k) = (preF f lvl k).map (toLoggedP u) := by
  cases f with
  | nil => simp [toLoggedF, descendantsL, preF]
  | cons t r =>
    have h1 := self_desc_eq_pre u t (lvl ++ [k])
    have h2 := descL_eq_preF u r lvl (k+1)
    simp only [toLoggedF, descendantsL, preF, List.map_append, ← h1, ← h2]
    simp
end

mutual
/-- the first messages of the pre-order enumeration are the non-end messages in emission order -/
theorem pre_first (u : String) (t : Tree) (lvl : Level) :
    (pre t lvl).map (fun p => (toLoggedP u p).first) =
      (Tree.msgs u t lvl).filter (fun m => !isCompleted m.status) := by
  cases t with
  | leaf b => simp [pre, toLoggedP, toLogged, LItem.first, Tree.msgs, leafMsg, isCompleted]
  | node a sb eb ok kids =>
    have := preF_first u kids lvl 2
    have hs : isCompleted (startMsg u lvl a sb).status = false := by simp [startMsg, isCompleted]
    have he : isCompleted (endMsg u lvl a eb ok (kids.len + 2)).status = true := by
      cases ok <;> simp [endMsg, isCompleted]
    simp only [pre, List.map_cons, Tree.msgs, List.filter_cons, List.filter_append, hs, he, this]
    simp [toLoggedP, toLogged, LItem.first]
theorem preF_first (u : String) (f : Forest) (lvl : Level) (k : Nat) :
    (preF f lvl k).map (fun p => (toLoggedP u p).first) =
      (Forest.msgs u f lvl k).filter (fun m => !isCompleted m.status) := by
  cases f with
  | nil => simp [preF, Forest.msgs]
  | cons t r =>
    simp [preF, Forest.msgs, List.filter_append, pre_first u t (lvl ++ [k]), preF_first u r lvl (k+1)]
end

/-! ## `of_type` -/
/-- what `fromMessages` builds for the action started by `m` (a dummy if it raises) -/
def actOf (msgs : List PMsg) (m : PMsg) : LItem :=
  match fromMessages m.uuid m.level msgs with
  | .ok a => a
  | .error _ => .msg m

theorem ofTypeGo_ok (all : List PMsg) (ty : String) :
    ∀ (L : List PMsg), (∀ m ∈ L, isStartOf ty m = true → ∃ a, fromMessages m.uuid m.level all = .ok a) →
      (∀ m ∈ L, m.atype = some ty → m.status ≠ none) →
      ofTypeGo all ty L = .ok ((L.filter (isStartOf ty)).map (actOf all))
  | [], _, _ => rfl
  | m :: rest, h1, h2 => by
    have ih := ofTypeGo_ok all ty rest (fun x hx => h1 x (List.mem_cons_of_mem _ hx))
      (fun x hx => h2 x (List.mem_cons_of_mem _ hx))
    unfold ofTypeGo
    by_cases ht : m.atype = some ty
    · have hs := h2 m List.mem_cons_self ht
      cases hst : m.status with
      | none => exact absurd hst hs
      | some st =>
        by_cases hstarted : st = "started"
        · have hS : isStartOf ty m = true := by simp [isStartOf, ht, hst, hstarted]
          obtain ⟨a, ha⟩ := h1 m List.mem_cons_self hS
          simp [ht, hstarted, ha, ih, hS, actOf]
        · have hS : isStartOf ty m = false := by simp [isStartOf, hst, hstarted]
          simp [ht, hstarted, ih, hS]
    · have hS : isStartOf ty m = false := by simp [isStartOf, ht]
      simp [ht, ih, hS]

theorem actOf_node {msgs : List PMsg} {u : String} {lvl : Level} {a : String} {sb eb : Nat}
    {ok : Bool} {kids : Forest} (h : OCtx msgs u (.node a sb eb ok kids) lvl) :
    actOf msgs (startMsg u lvl a sb) = toLogged u (.node a sb eb ok kids) lvl := by
  have := fromMessages_node h
  simp only [actOf]
  have e : (startMsg u lvl a sb).uuid = u ∧ (startMsg u lvl a sb).level = lvl ++ [1] := ⟨rfl, rfl⟩
  rw [e.1, e.2, this]

mutual
/-- the started messages of a tree, mapped to what `fromMessages` builds for them, are the tree's
actions in pre-order -/
theorem starts_tree (u : String) (t : Tree) :
    ∀ (msgs : List PMsg) (lvl : Level), OCtx msgs u t lvl →
      ((Tree.msgs u t lvl).filter isStart).map (actOf msgs) = (toLogged u t lvl).actions := by
  intro msgs lvl hctx
  cases t with
  | leaf b => simp [Tree.msgs, isStart, leafMsg, LItem.actions, toLogged, LItem.descendants, LItem.isAct]
  | node a sb eb ok kids =>
    have hk := starts_forest u kids msgs lvl 2 (fun i t hi => hctx.kid hi)
    have hs : isStart (startMsg u lvl a sb) = true := by simp [isStart, startMsg]
    have he : isStart (endMsg u lvl a eb ok (kids.len + 2)) = false := by
      cases ok <;> simp [isStart, endMsg]
    simp only [Tree.msgs, List.filter_cons, List.filter_append, hs, he, ↓reduceIte, List.map_cons,
      List.map_append, hk, actOf_node hctx]
    simp [LItem.actions, toLogged, LItem.descendants, List.filter_cons, LItem.isAct]
theorem starts_forest (u : String) (f : Forest) :
    ∀ (msgs : List PMsg) (lvl : Level) (k0 : Nat),
      (∀ i t, f.get? i = some t → OCtx msgs u t (lvl ++ [k0 + i])) →
      ((Forest.msgs u f lvl k0).filter isStart).map (actOf msgs) =
        (descendantsL (toLoggedF u f lvl k0)).filter LItem.isAct := by
  intro msgs lvl k0 hctx
  cases f with
  | nil => simp [Forest.msgs, toLoggedF, descendantsL]
  | cons t0 r =>
    have h0 := hctx 0 t0 (by simp [Forest.get?])
    simp only [Nat.add_zero] at h0
    have h1 := starts_tree u t0 msgs _ h0
    have h2 := starts_forest u r msgs lvl (k0+1) (fun i t hi => by
      have := hctx (i+1) t (by simpa [Forest.get?] using hi)
      rwa [show k0 + (i + 1) = k0 + 1 + i by omega] at this)
    simp only [Forest.msgs, List.filter_append, List.map_append, h1, h2, toLoggedF, descendantsL]
    simp only [LItem.actions]
    rw [← List.filter_append, List.cons_append]
end

/-! ## the parser's node, with the trie keys forgotten -/
mutual
/-- a parser node all of whose actions have both messages, as a `LoggedAction` / `LoggedMessage`:
same start, same end, children in key (= level) order -/
def nodeLogged? : Node → Option LItem
  | .msg m => some (.msg m)
  | .act (some s) (some e) ch =>
    match kidsLogged? ch with
    | some xs => some (.act s e xs)
    | none => none
  | .act _ _ _ => none
def kidsLogged? : Kids → Option (List LItem)
  | .nil => some []
  | .cons _ n rest =>
    match nodeLogged? n, kidsLogged? rest with
    | some x, some xs => some (x :: xs)
    | _, _ => none
end

mutual
theorem view_logged (u : String) (t : Tree) (lvl : Level) :
    ∃ n, Tree.view (fun _ => true) u t lvl = some n ∧ nodeLogged? n = some (toLogged u t lvl) := by
  cases t with
  | leaf b => exact ⟨.msg (leafMsg u lvl b), by simp [Tree.view, pick], by simp [nodeLogged?, toLogged]⟩
  | node a sb eb ok kids =>
    refine ⟨.act (some (startMsg u lvl a sb)) (some (endMsg u lvl a eb ok (kids.len + 2)))
      (Forest.view (fun _ => true) u kids lvl 2), by simp [Tree.view, pick], ?_⟩
    simp [nodeLogged?, kidsView_logged u kids lvl 2, toLogged]
theorem kidsView_logged (u : String) (f : Forest) (lvl : Level) (k : Nat) :
    kidsLogged? (Forest.view (fun _ => true) u f lvl k) = some (toLoggedF u f lvl k) := by
  cases f with
  | nil => simp [Forest.view, kidsLogged?, toLoggedF]
  | cons t r =>
    obtain ⟨n, hn, hl⟩ := view_logged u t (lvl ++ [k])
    simp [Forest.view, hn, kidsLogged?, hl, kidsView_logged u r lvl (k+1), toLoggedF]
end

/-! ## `type_tree` on the spec side -/
mutual
/-- the type tree of a spec tree: `{action_type: [children…]}`, message types at the leaves -/
def typeTreeS (info : Nat → Info) : Tree → Except Err TT
  | .leaf b =>
    match (info b).mtype with
    | some t => .ok (.leaf t)
    | none => .error .keyError
  | .node a _ _ _ kids =>
    match typeTreeSF info kids with
    | .error e => .error e
    | .ok cs => .ok (.node a cs)
def typeTreeSF (info : Nat → Info) : Forest → Except Err (List TT)
  | .nil => .ok []
  | .cons t r =>
    match typeTreeS info t with
    | .error e => .error e
    | .ok x =>
      match typeTreeSF info r with
      | .error e => .error e
      | .ok xs => .ok (x :: xs)
end

mutual
theorem typeTree_toLogged (info : Nat → Info) (u : String) (t : Tree) (lvl : Level) :
    typeTree info (toLogged u t lvl) = typeTreeS info t := by
  cases t with
  | leaf b =>
    simp only [toLogged, typeTree, typeTreeS, leafMsg]
    cases (info b).mtype <;> rfl
  | node a sb eb ok kids =>
    simp only [toLogged, typeTree, typeTreeS, typeTreeL_toLoggedF info u kids lvl 2]
    cases typeTreeSF info kids <;> simp [startMsg]
theorem typeTreeL_toLoggedF (info : Nat → Info) (u : String) (f : Forest) (lvl : Level) (k : Nat) :
    typeTreeL info (toLoggedF u f lvl k) = typeTreeSF info f := by
  cases f with
  | nil => simp [toLoggedF, typeTreeL, typeTreeSF]
  | cons t r =>
    simp only [toLoggedF, typeTreeL, typeTreeSF, typeTree_toLogged info u t (lvl ++ [k]),
      typeTreeL_toLoggedF info u r lvl (k+1)]
    cases typeTreeS info t with
    | error e => rfl
    | ok x => cases typeTreeSF info r <;> rfl
end

mutual
/-- the labels of a type tree, parents before children, children left to right -/
def TT.labels : TT → List String
  | .leaf t => [t]
  | .node t ch => t :: labelsL ch
def labelsL : List TT → List String
  | [] => []
  | x :: xs => x.labels ++ labelsL xs
end

/-- `action_type` of a spec action, `message_type` of a spec message -/
def typeOf (info : Nat → Info) : Tree → Option String
  | .leaf b => (info b).mtype
  | .node a _ _ _ _ => some a

mutual
theorem typeTreeS_labels (info : Nat → Info) (t : Tree) (lvl : Level) (tt : TT)
    (h : typeTreeS info t = .ok tt) :
    tt.labels.map some = (pre t lvl).map (fun p => typeOf info p.1) := by
  cases t with
  | leaf b =>
    simp only [typeTreeS] at h
    cases hm : (info b).mtype with
    | none => simp [hm] at h
    | some ty =>
      simp only [hm, Except.ok.injEq] at h
      subst h; simp [TT.labels, pre, typeOf, hm]
  | node a sb eb ok kids =>
    simp only [typeTreeS] at h
    cases hk : typeTreeSF info kids with
    | error e => simp [hk] at h
    | ok cs =>
      simp only [hk, Except.ok.injEq] at h
      subst h
      simp [TT.labels, pre, typeOf, typeTreeSF_labels info kids lvl 2 cs hk]
theorem typeTreeSF_labels (info : Nat → Info) (f : Forest) (lvl : Level) (k : Nat) (cs : List TT)
    (h : typeTreeSF info f = .ok cs) :
    (labelsL cs).map some = (preF f lvl k).map (fun p => typeOf info p.1) := by
  cases f with
  | nil =>
    simp only [typeTreeSF, Except.ok.injEq] at h
    subst h; simp [labelsL, preF]
  | cons t r =>
    simp only [typeTreeSF] at h
    cases h1 : typeTreeS info t with
    | error e => simp [h1] at h
    | ok x =>
      cases h2 : typeTreeSF info r with
      | error e => simp [h1, h2] at h
      | ok xs =>
        simp only [h1, h2, Except.ok.injEq] at h
        subst h
        simp [labelsL, preF, typeTreeS_labels info t (lvl ++ [k]) x h1, typeTreeSF_labels info r lvl (k+1) xs h2]
end

/-! ## the messages of a tree are pairwise distinct -/
mutual
theorem tree_nodup (u : String) (t : Tree) (lvl : Level) : (Tree.msgs u t lvl).Nodup := by
  cases t with
  | leaf b => simp [Tree.msgs]
  | node a sb eb ok kids =>
    simp only [Tree.msgs, List.nodup_cons, List.mem_append, List.mem_singleton, not_or]
    refine ⟨⟨?_, ?_⟩, ?_⟩
    · intro hm
      obtain ⟨k, hk, hp⟩ := Forest.msgs_prefix u kids lvl 2 _ hm
      exact ne_of_prefix lvl k 1 _ (startMsg u lvl a sb) hp (by simp [startMsg]) (by omega) rfl
    · exact ne_of_level_ne (by simp [startMsg, endMsg])
    · rw [List.nodup_append]
      refine ⟨forest_nodup u kids lvl 2, by simp, ?_⟩
      intro x hx y hy
      simp only [List.mem_singleton] at hy
      subst hy
      obtain ⟨k, _, hk, hp⟩ := Forest.msgs_prefix_lt u kids lvl 2 x hx
      exact ne_of_prefix lvl k (kids.len + 2) x _ hp (by simp [endMsg]) (by omega)
theorem forest_nodup (u : String) (f : Forest) (lvl : Level) (k0 : Nat) : (Forest.msgs u f lvl k0).Nodup := by
  cases f with
  | nil => simp [Forest.msgs]
  | cons t r =>
    simp only [Forest.msgs]
    rw [List.nodup_append]
    refine ⟨tree_nodup u t _, forest_nodup u r lvl (k0+1), ?_⟩
    intro x hx y hy
    obtain ⟨k, hk, hp⟩ := Forest.msgs_prefix u r lvl (k0+1) y hy
    exact ne_of_prefix lvl k0 k x y (Tree.msgs_prefix u t _ x hx) hp (by omega)
end

theorem tmsgs_nodup (u : String) (t : Tree) : (tmsgs u t).Nodup := by
  cases t with
  | leaf b => simp [tmsgs]
  | node a sb eb ok kids => exact tree_nodup u _ []

/-- a list all of whose per-uuid sub-lists are duplicate-free is duplicate-free -/
theorem nodup_of_filters : ∀ (msgs : List PMsg),
    (∀ m ∈ msgs, (msgs.filter (fun x => x.uuid == m.uuid)).Nodup) → msgs.Nodup
  | [], _ => List.nodup_nil
  | m :: ms, h => by
    have hm := h m List.mem_cons_self
    simp only [List.filter_cons, beq_self_eq_true, ↓reduceIte, List.nodup_cons] at hm
    refine List.nodup_cons.mpr ⟨fun hin => hm.1 (List.mem_filter.mpr ⟨hin, by simp⟩), ?_⟩
    apply nodup_of_filters ms
    intro x hx
    have := h x (List.mem_cons_of_mem _ hx)
    exact this.sublist ((List.sublist_cons_self m ms).filter _)

/-! ## dictionaries -/
theorem lookup_filter_key (q : String → Bool) (k : String) : ∀ (l : Fields),
    (l.filter (fun p => q p.1)).lookup k = if q k then l.lookup k else none
  | [] => by simp
  | (k', v) :: l => by
    have ih := lookup_filter_key q k l
    by_cases hq : q k' = true
    · by_cases hk : k = k'
      · subst hk; simp [hq, List.lookup]
      · have : (k == k') = false := by simpa using hk
        simp [hq, List.lookup, this, ih]
    · have hq' : q k' = false := by simpa using hq
      by_cases hk : k = k'
      · subst hk; simp [hq', ih]
      · have : (k == k') = false := by simpa using hk
        simp [hq', List.lookup, this, ih]

theorem mem_of_lookup (k v : String) : ∀ (l : Fields), l.lookup k = some v → (k, v) ∈ l
  | [], h => by simp at h
  | (k', v') :: l, h => by
    by_cases hk : k = k'
    · subst hk; simp [List.lookup] at h; simp [h]
    · have : (k == k') = false := by simpa using hk
      simp only [List.lookup, this] at h
      exact List.mem_cons_of_mem _ (mem_of_lookup k v l h)

theorem lookup_of_mem (k v : String) : ∀ (l : Fields), (l.map (·.1)).Nodup → (k, v) ∈ l → l.lookup k = some v
  | [], _, h => by simp at h
  | (k', v') :: l, hn, h => by
    simp only [List.map_cons, List.nodup_cons, List.mem_map, not_exists, not_and] at hn
    rcases List.mem_cons.mp h with h | h
    · cases h; simp [List.lookup]
    · have hk : k ≠ k' := fun e => hn.1 (k, v) h e
      have : (k == k') = false := by simpa using hk
      simp only [List.lookup, this]
      exact lookup_of_mem k v l hn.2 h

theorem lookup_isSome_of_mem (k v : String) : ∀ (l : Fields), (k, v) ∈ l → (l.lookup k).isSome
  | [], h => by simp at h
  | (k', v') :: l, h => by
    by_cases hk : k = k'
    · subst hk; simp [List.lookup]
    · have : (k == k') = false := by simpa using hk
      simp only [List.lookup, this]
      rcases List.mem_cons.mp h with h | h
      · cases h; exact absurd rfl hk
      · exact lookup_isSome_of_mem k v l h

theorem all_congr_mem {α} (p q : α → Bool) : ∀ (l : List α), (∀ x ∈ l, p x = q x) → l.all p = l.all q
  | [], _ => rfl
  | x :: xs, h => by
    simp only [List.all_cons, h x List.mem_cons_self,
      all_congr_mem p q xs (fun y hy => h y (List.mem_cons_of_mem _ hy))]

/-- `assertContainsFields(test, message, fields)` passes iff `issuperset(message, fields)` -/
theorem containsFields_eq_issuperset (message fields : Fields) (hm : (message.map (·.1)).Nodup) :
    containsFields message fields = issuperset message fields := by
  unfold containsFields dictEq
  have hB : (fields.all fun p => (message.filter fun p => (fields.lookup p.1).isSome).lookup p.1 == some p.2)
      = issuperset message fields := by
    unfold issuperset
    apply all_congr_mem
    intro p hp
    rw [lookup_filter_key (fun k => (fields.lookup k).isSome) p.1 message]
    simp [lookup_isSome_of_mem p.1 p.2 fields hp]
  rw [hB]
  cases hS : issuperset message fields with
  | false => simp
  | true =>
    simp only [Bool.and_true]
    rw [List.all_eq_true]
    intro p hp
    obtain ⟨hpm, hq⟩ := List.mem_filter.mp hp
    obtain ⟨v', hv'⟩ := Option.isSome_iff_exists.mp hq
    have hin := mem_of_lookup p.1 v' fields hv'
    have h1 : message.lookup p.1 = some v' := by
      have := List.all_eq_true.mp hS (p.1, v') hin
      simpa using this
    have h2 := lookup_of_mem p.1 p.2 message hm hpm
    rw [h1] at h2
    simp [hv', h2]

/-! ## `of_type` only returns actions -/
theorem fromMessagesF_isAct (fuel : Nat) (u : String) (level : Level) (msgs : List PMsg) (a : LItem)
    (h : fromMessagesF fuel u level msgs = .ok a) : a.isAct = true := by
  cases fuel with
  | zero => simp [fromMessagesF] at h
  | succ n =>
    simp only [fromMessagesF] at h
    split at h
    · rename_i st _
      unfold finish at h
      split at h <;> simp at h
      subst h; rfl
    · simp at h

theorem ofTypeGo_isAct (all : List PMsg) (ty : String) : ∀ (L : List PMsg) (as : List LItem),
    ofTypeGo all ty L = .ok as → ∀ a ∈ as, a.isAct = true
  | [], as, h => by simp [ofTypeGo] at h; subst h; simp
  | m :: rest, as, h => by
    unfold ofTypeGo at h
    split at h
    · split at h
      · simp at h
      · split at h
        · split at h
          · simp at h
          · rename_i a ha
            split at h
            · simp at h
            · rename_i r hr
              simp only [Except.ok.injEq] at h
              subst h
              intro x hx
              rcases List.mem_cons.mp hx with hx | hx
              · subst hx; exact fromMessagesF_isAct _ _ _ _ _ ha
              · exact ofTypeGo_isAct all ty rest r hr x hx
        · exact ofTypeGo_isAct all ty rest as h
    · exact ofTypeGo_isAct all ty rest as h

end PM.Testing
