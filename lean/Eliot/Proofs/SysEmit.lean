import Eliot.Proofs.SysFan
import Eliot.Properties.C04
/-!
# The emission lemma for the structured fragment of the core language (C01, also C03/C17)

`Sys.Emit` defines

* the **structured fragment** (`Stmt.structured` / `Block.structured`): `with start_action/start_task`,
  `log`, `raise`, `try/except` (handler may call `write_traceback`), `add_success_fields` on the
  current action, `probe`;
* the **denotation** `denS`/`denB`: "what the program performed" as a forest (`T`/`F`) of actions and
  messages carrying what was logged (`MSpec`/`Spec`, success fields, outcome), defined without the
  machine: no action table, no context variable, no levels, no destinations — only the two
  counters every run consumes (clock reads = message ids, `uuid4()` calls);
* the **expected dicts** `T.dicts`/`F.dicts`: the dicts such a forest puts on the wire when it is the
  content of action `(u, lvl)` from position `k` on, in depth-first emission order (a task started
  inside an action is emitted in place but takes no position);
* the **emission lemma** `execB_emits` (inside an action) / `execB_top` (outside any action): the
  model of the real code stages exactly those dicts.
-/
namespace Sys.Emit
open Sys Sys.C04

/-! ## Serialization without the machine -/

/-- `_MessageSerializer.serialize` for serializers that are functions (`σ sid v`); a declared key
that is missing is skipped here and excluded by `present`. -/
def applyT (σ : Nat → FV → FV) : List (String × Nat) → Msg → Msg
  | [], m => m
  | (key, sid) :: r, m =>
    match m.get? key with
    | none => applyT σ r m
    | some v => applyT σ r (m.set key (σ sid v))

def serOpt (σ : Nat → FV → FV) (sers : Option (List (String × Nat))) (m : Msg) : Msg :=
  match sers with
  | none => m
  | some ss => applyT σ ss m

/-- every declared key is a key of the dict -/
def present (ss : List (String × Nat)) (m : Fields) : Bool := ss.all fun p => (m.get? p.1).isSome

def presentOpt (sers : Option (List (String × Nat))) (m : Fields) : Bool :=
  match sers with
  | none => true
  | some ss => present ss m

/-! ## The dicts of one message, as functions of where it sits -/

/-- the dict of `log_message(ms.mtype, **ms.fields)` / `MessageType.log` in task `u` at level `L`,
stamped by clock read `tick` -/
def leafDict (σ : Nat → FV → FV) (u : Nat) (L : Level) (tick : Nat) (ms : MSpec) : Msg :=
  serOpt σ ms.sers
    ((((ms.fields.set "timestamp" (.ts tick)).set "task_uuid" (.uuid u)).set "task_level" (.lvl L)).set
      "message_type" (.str ms.mtype))

/-- the start message of an action of spec `sp`; `L` is the level of the message (action level ++ [1]) -/
def startDict (σ : Nat → FV → FV) (u : Nat) (L : Level) (tick : Nat) (sp : Spec) : Msg :=
  serOpt σ (sp.sers.map (·.1))
    (((((sp.fields.set "action_status" (.str "started")).set "timestamp" (.ts tick)).set "task_uuid" (.uuid u)).set
      "action_type" (.str sp.atype)).set "task_level" (.lvl L))

/-- the end message: success fields (serialized) or the exception's class and text -/
def endDict (env : Env) (σ : Nat → FV → FV) (u : Nat) (L : Level) (tick : Nat) (sp : Spec) (succ : Fields) :
    Outcome → Msg
  | .ok =>
    serOpt σ (sp.sers.map (·.2))
      (((((succ.set "action_status" (.str "succeeded")).set "timestamp" (.ts tick)).set "task_uuid" (.uuid u)).set
        "action_type" (.str sp.atype)).set "task_level" (.lvl L))
  | .raised e =>
    (((((([] : Fields).set "exception" (.str (e.qual env))).set "reason" (.str (e.safeStr env))).set
      "action_status" (.str "failed")).set "timestamp" (.ts tick)).set "task_uuid" (.uuid u)).set
        "action_type" (.str sp.atype) |>.set "task_level" (.lvl L)
  | .stuck => []

/-- what `write_traceback()` logs for exception `e` (no extractor registered) -/
def tbSpec (env : Env) (e : Exc) : MSpec :=
  { mtype := "eliot:traceback", fields := tracebackFields env e [] }

/-! ## What a program performed -/

mutual
/-- an action or message the program performed; `tick`/`st`/`et` identify the message(s): the
number of the clock read that stamped it -/
inductive T where
  | leaf (tick : Nat) (ms : MSpec)
  | node (sp : Spec) (st et : Nat) (succ : Fields) (res : Outcome) (kids : F)
/-- the content of an action in order; `sep u t` = a task started (or a message logged) outside
the action's tree: its own tree with uuid number `u`, taking no position -/
inductive F where
  | nil
  | own (t : T) (rest : F)
  | sep (u : Nat) (t : T) (rest : F)
end

def F.append : F → F → F
  | .nil, g => g
  | .own t r, g => .own t (r.append g)
  | .sep u t r, g => .sep u t (r.append g)

/-- number of positions used -/
def F.len : F → Nat
  | .nil => 0
  | .own _ r => r.len + 1
  | .sep _ _ r => r.len

/-- the level at which a separate tree sits: a one-message task is the message at `[1]` -/
def T.rootLevel : T → Level
  | .leaf .. => [1]
  | .node .. => []

mutual
def T.dicts (env : Env) (σ : Nat → FV → FV) (u : Nat) : T → Level → List Msg
  | .leaf tick ms, L => [leafDict σ u L tick ms]
  | .node sp st et succ res kids, L =>
    startDict σ u (L ++ [1]) st sp ::
      (F.dicts env σ u kids L 2 ++ [endDict env σ u (L ++ [kids.len + 2]) et sp succ res])
def F.dicts (env : Env) (σ : Nat → FV → FV) (u : Nat) : F → Level → Nat → List Msg
  | .nil, _, _ => []
  | .own t r, L, k => T.dicts env σ u t (L ++ [k]) ++ F.dicts env σ u r L (k + 1)
  | .sep u' t r, L, k => T.dicts env σ u' t t.rootLevel ++ F.dicts env σ u r L k
end

/-- the dicts of a separate tree with uuid number `u` -/
def T.top (env : Env) (σ : Nat → FV → FV) (u : Nat) (t : T) : List Msg := T.dicts env σ u t t.rootLevel

theorem F.dicts_sep (env : Env) (σ : Nat → FV → FV) (u u' : Nat) (t : T) (r : F) (L : Level) (k : Nat) :
    F.dicts env σ u (.sep u' t r) L k = T.top env σ u' t ++ F.dicts env σ u r L k := by
  simp [F.dicts, T.top]

theorem F.len_append (f g : F) : (f.append g).len = f.len + g.len := by
  induction f with
  | nil => simp [F.append, F.len]
  | own t r ih => simp [F.append, F.len, ih]; omega
  | sep u t r ih => simp [F.append, F.len, ih]

theorem F.dicts_append (env : Env) (σ : Nat → FV → FV) (u : Nat) (f g : F) (L : Level) (k : Nat) :
    F.dicts env σ u (f.append g) L k = F.dicts env σ u f L k ++ F.dicts env σ u g L (k + f.len) := by
  induction f generalizing k with
  | nil => simp [F.append, F.dicts, F.len]
  | own t r ih =>
    have e : k + 1 + r.len = k + (r.len + 1) := by omega
    simp [F.append, F.dicts, F.len, ih, e]
  | sep u' t r ih =>
    rw [F.append, F.dicts_sep, F.dicts_sep, ih]
    simp [F.len]

/-! ## The denotation -/

/-- the two counters a run consumes -/
structure DS where
  tick : Nat
  nu : Nat

/-- result of the denotation: the forest performed, the outcome, the success fields of the
current action afterwards, the counters afterwards, and whether every declared (typed) field was
there when its serializer ran -/
structure R where
  f : F
  out : Outcome
  s : Fields
  ds : DS
  wf : Bool

def leafR (sepr : Bool) (d : DS) (s : Fields) (ms : MSpec) : R :=
  if sepr then
    { f := .sep d.nu (.leaf d.tick ms) .nil, out := .ok, s := s, ds := { tick := d.tick + 1, nu := d.nu + 1 },
      wf := presentOpt ms.sers ms.fields }
  else
    { f := .own (.leaf d.tick ms) .nil, out := .ok, s := s, ds := { tick := d.tick + 1, nu := d.nu },
      wf := presentOpt ms.sers ms.fields }

mutual
/-- `cur` = the exception being handled, `inAct` = inside some action -/
def denS (env : Env) (cur : Option Exc) (inAct : Bool) : Stmt → DS → Fields → R
  | .withAction task sp body, d, s =>
    let sepr := task || !inAct
    let r := denB env cur true body { tick := d.tick + 1, nu := if sepr then d.nu + 1 else d.nu } []
    let t := T.node sp d.tick r.ds.tick r.s r.out r.f
    { f := if sepr then .sep d.nu t .nil else .own t .nil, out := r.out, s := s,
      ds := { tick := r.ds.tick + 1, nu := r.ds.nu },
      wf := presentOpt (sp.sers.map (·.1)) sp.fields && r.wf &&
        (match r.out with | .ok => presentOpt (sp.sers.map (·.2)) r.s | _ => true) }
  | .log ms, d, s => leafR (!inAct) d s ms
  | .raise i, d, s => { f := .nil, out := .raised (.user i), s := s, ds := d, wf := true }
  | .tryCatch body handler, d, s =>
    let r := denB env cur inAct body d s
    match r.out with
    | .raised e =>
      let r2 := denB env (some e) inAct handler r.ds r.s
      { f := r.f.append r2.f, out := r2.out, s := r2.s, ds := r2.ds, wf := r.wf && r2.wf }
    | _ => r
  | .writeTraceback, d, s =>
    match cur with
    | some e => leafR (!inAct) d s (tbSpec env e)
    | none => { f := .nil, out := .stuck, s := s, ds := d, wf := false }
  | .addSuccess none fs, d, s => { f := .nil, out := .ok, s := s.update fs, ds := d, wf := inAct }
  | .probe _, d, s => { f := .nil, out := .ok, s := s, ds := d, wf := true }
  | _, d, s => { f := .nil, out := .stuck, s := s, ds := d, wf := false }
def denB (env : Env) (cur : Option Exc) (inAct : Bool) : Block → DS → Fields → R
  | .nil, d, s => { f := .nil, out := .ok, s := s, ds := d, wf := true }
  | .cons st rest, d, s =>
    let r := denS env cur inAct st d s
    match r.out with
    | .ok =>
      let r2 := denB env cur inAct rest r.ds r.s
      { f := r.f.append r2.f, out := r2.out, s := r2.s, ds := r2.ds, wf := r.wf && r2.wf }
    | _ => r
end

/-! ## The structured fragment (shape only) -/
mutual
/-- `inH` = inside an `except` handler (so `write_traceback()` has an exception), `inAct` = inside
an action (so `add_success_fields` has a current action) -/
def Stmt.structured (inH inAct : Bool) : Stmt → Bool
  | .withAction _ _ body => body.structured inH true
  | .log _ => true
  | .raise _ => true
  | .tryCatch body handler => body.structured inH inAct && handler.structured true inAct
  | .writeTraceback => inH
  | .addSuccess none _ => inAct
  | .probe _ => true
  | _ => false
def Block.structured (inH inAct : Bool) : Block → Bool
  | .nil => true
  | .cons s r => s.structured inH inAct && r.structured inH inAct
end

end Sys.Emit
