import Eliot.Proofs.SysFan
import Eliot.Proofs.SysVars
import Eliot.Properties.C04
/-!
# The emission lemma for the structured fragment of the core language (C01, also C03/C17)

`Sys.Emit` defines

* the **structured fragment** (`Stmt.structured` / `Block.structured`): `with start_action/start_task`,
  `log`, `raise`, `try/except` (handler may call `write_traceback`), `add_success_fields` on the
  current action, `probe`, and the explicit spelling of an action (`Block.structuredX`):
  `x = start_action(..)`, context segments `with x.context():` / `x.run(..)`, `x.finish(..)`, adjacent
  in one block;
* the **denotation** `denS`/`denB`: "what the program performed" as a forest (`T`/`F`) of actions and
  messages carrying what was logged (`MSpec`/`Spec`, success fields, outcome), defined without the
  machine: no action table, no context variable, no levels, no destinations — only the three
  counters every run consumes (clock reads = message ids, `uuid4()` calls, exception-extractor calls);
* the **expected dicts** `T.dicts`/`F.dicts`: the dicts such a forest puts on the wire when it is the
  content of action `(u, lvl)` from position `k` on, in depth-first emission order (a task started
  inside an action is emitted in place but takes no position);
* the **emission lemma** `execB_emits` (inside an action) / `execB_top` (outside any action), with
  `execX_emits` / `execX_top` for the rest of a block while an explicitly spelled action is open: the
  model of the real code stages exactly those dicts.
-/
namespace Sys.Emit
open Sys Sys.C04

/-! ## Serialization without the machine -/

/-- `_MessageSerializer.serialize` for serializers that do not raise: `σ sid v k` is what serializer
`sid` returns for `v` when it is the `k`-th serializer call overall (the result may depend on the call
number); `k` = the number of serializer calls made before this message; a declared key that is missing
is skipped here and excluded by `present`. -/
def applyT (σ : Nat → FV → Nat → FV) : Nat → List (String × Nat) → Msg → Msg
  | _, [], m => m
  | k, (key, sid) :: r, m =>
    match m.get? key with
    | none => applyT σ k r m
    | some v => applyT σ (k + 1) r (m.set key (σ sid v k))

def serOpt (σ : Nat → FV → Nat → FV) (k : Nat) (sers : Option (List (String × Nat))) (m : Msg) : Msg :=
  match sers with
  | none => m
  | some ss => applyT σ k ss m

/-- the number of serializer calls a message with these declared fields makes -/
def nser (sers : Option (List (String × Nat))) : Nat :=
  match sers with
  | none => 0
  | some ss => ss.length

/-- every declared key is a key of the dict -/
def present (ss : List (String × Nat)) (m : Fields) : Bool := ss.all fun p => (m.get? p.1).isSome

def presentOpt (sers : Option (List (String × Nat))) (m : Fields) : Bool :=
  match sers with
  | none => true
  | some ss => present ss m

/-! ## The dicts of one message, as functions of where it sits -/

/-- the dict of `log_message(ms.mtype, **ms.fields)` / `MessageType.log` in task `u` at level `L`,
stamped by clock read `tick`, serialized after `k` earlier serializer calls -/
def leafDict (σ : Nat → FV → Nat → FV) (u : Nat) (L : Level) (tick k : Nat) (ms : MSpec) : Msg :=
  serOpt σ k ms.sers
    ((((ms.fields.set "timestamp" (.ts tick)).set "task_uuid" (.uuid u)).set "task_level" (.lvl L)).set
      "message_type" (.str ms.mtype))

/-- the start message of an action of spec `sp`; `L` is the level of the message (action level ++ [1]) -/
def startDict (σ : Nat → FV → Nat → FV) (u : Nat) (L : Level) (tick k : Nat) (sp : Spec) : Msg :=
  serOpt σ k (sp.sers.map (·.1))
    (((((sp.fields.set "action_status" (.str "started")).set "timestamp" (.ts tick)).set "task_uuid" (.uuid u)).set
      "action_type" (.str sp.atype)).set "task_level" (.lvl L))

/-- the end message: success fields (serialized), or the fields `xf` extracted from the exception
with the exception's class and text (and the structural keys) written over them -/
def endDict (env : Env) (σ : Nat → FV → Nat → FV) (u : Nat) (L : Level) (tick k : Nat) (atype : String)
    (sers : Option (List (String × Nat) × List (String × Nat))) (succ xf : Fields) : Outcome → Msg
  | .ok =>
    serOpt σ k (sers.map (·.2))
      (((((succ.set "action_status" (.str "succeeded")).set "timestamp" (.ts tick)).set "task_uuid" (.uuid u)).set
        "action_type" (.str atype)).set "task_level" (.lvl L))
  | .raised e =>
    Fields.set (Fields.set (Fields.set (Fields.set
      (Fields.set (Fields.set (Fields.set xf "exception" (.str (e.qual env))) "reason" (.str (e.safeStr env)))
        "action_status" (.str "failed"))
      "timestamp" (.ts tick)) "task_uuid" (.uuid u)) "action_type" (.str atype)) "task_level" (.lvl L)
  | .stuck => []

/-- what `write_traceback()` logs for exception `e` whose extracted fields are `xf`: the
traceback's own `reason` / `traceback` / `exception` written over them -/
def tbSpec (env : Env) (e : Exc) (xf : Fields) : MSpec :=
  { mtype := "eliot:traceback", fields := tracebackFields env e xf }

/-- `get_fields_for_exception(e)` when no extractor raises, as a function: the fields returned — on
its `k`-th call overall — by the extractor registered for the nearest class in `e`'s MRO (none
registered along the MRO: no fields, no call), and the number of extractor calls afterwards -/
def extOf (env : Env) (e : Exc) (k : Nat) : Fields × Nat :=
  match firstExtractor env (env.mro (e.cls env)) with
  | none => ([], k)
  | some f => (match f e k with | .ok fs => fs | .error _ => [], k + 1)

/-- … for the outcome of an action's body: only a failure consults an extractor -/
def extOut (env : Env) (o : Outcome) (k : Nat) : Fields × Nat :=
  match o with
  | .raised e => extOf env e k
  | _ => ([], k)

/-! ## What a program performed -/

mutual
/-- an action or message the program performed; `tick`/`st`/`et` identify the message(s): the
number of the clock read that stamped it; `sk`/`ss`/`es`: the number of serializer calls made before the
message was serialized; `xf` = the fields an exception extractor returned for
the exception that failed the action (`[]` otherwise) -/
inductive T where
  | leaf (tick sk : Nat) (ms : MSpec)
  | node (sp : Spec) (st et ss es : Nat) (succ : Fields) (res : Outcome) (xf : Fields) (kids : F)
/-- the content of an action in order; `sep u t` = a task started (or a message logged) outside
the action's tree: its own tree with uuid number `u`, taking no position -/
inductive F where
  | nil
  | own (t : T) (rest : F)
  | sep (u : Nat) (t : T) (rest : F)
end

def F.append : F → F → F
  | .nil, g => g
  | .own t r, g => .own t (r.append g)
  | .sep u t r, g => .sep u t (r.append g)

/-- number of positions used -/
def F.len : F → Nat
  | .nil => 0
  | .own _ r => r.len + 1
  | .sep _ _ r => r.len

/-- the level at which a separate tree sits: a one-message task is the message at `[1]` -/
def T.rootLevel : T → Level
  | .leaf .. => [1]
  | .node .. => []

mutual
def T.dicts (env : Env) (σ : Nat → FV → Nat → FV) (u : Nat) : T → Level → List Msg
  | .leaf tick sk ms, L => [leafDict σ u L tick sk ms]
  | .node sp st et ss es succ res xf kids, L =>
    startDict σ u (L ++ [1]) st ss sp ::
      (F.dicts env σ u kids L 2 ++ [endDict env σ u (L ++ [kids.len + 2]) et es sp.atype sp.sers succ xf res])
def F.dicts (env : Env) (σ : Nat → FV → Nat → FV) (u : Nat) : F → Level → Nat → List Msg
  | .nil, _, _ => []
  | .own t r, L, k => T.dicts env σ u t (L ++ [k]) ++ F.dicts env σ u r L (k + 1)
  | .sep u' t r, L, k => T.dicts env σ u' t t.rootLevel ++ F.dicts env σ u r L k
end

/-- the dicts of a separate tree with uuid number `u` -/
def T.top (env : Env) (σ : Nat → FV → Nat → FV) (u : Nat) (t : T) : List Msg := T.dicts env σ u t t.rootLevel

theorem F.dicts_sep (env : Env) (σ : Nat → FV → Nat → FV) (u u' : Nat) (t : T) (r : F) (L : Level) (k : Nat) :
    F.dicts env σ u (.sep u' t r) L k = T.top env σ u' t ++ F.dicts env σ u r L k := by
  simp [F.dicts, T.top]

theorem F.len_append : ∀ (f g : F), (f.append g).len = f.len + g.len
  | .nil, g => by simp [F.append, F.len]
  | .own t r, g => by simp [F.append, F.len, F.len_append r g]; omega
  | .sep u t r, g => by simp [F.append, F.len, F.len_append r g]

theorem F.dicts_append (env : Env) (σ : Nat → FV → Nat → FV) (u : Nat) : ∀ (f g : F) (L : Level) (k : Nat),
    F.dicts env σ u (f.append g) L k = F.dicts env σ u f L k ++ F.dicts env σ u g L (k + f.len)
  | .nil, g, L, k => by simp [F.append, F.dicts, F.len]
  | .own t r, g, L, k => by
    have e : k + 1 + r.len = k + (r.len + 1) := by omega
    simp [F.append, F.dicts, F.len, F.dicts_append env σ u r g L (k + 1), e]
  | .sep u' t r, g, L, k => by
    rw [F.append, F.dicts_sep, F.dicts_sep, F.dicts_append env σ u r g L k]
    simp [F.len]

/-! ## The denotation -/

/-- the four counters a run consumes: clock reads, `uuid4()` calls, exception-extractor calls,
field-serializer calls -/
structure DS where
  tick : Nat
  nu : Nat
  ex : Nat
  sc : Nat

/-- result of the denotation: the forest performed, the outcome, the success fields of the
current action afterwards, the counters afterwards, and whether every declared (typed) field was
there when its serializer ran -/
structure R where
  f : F
  out : Outcome
  s : Fields
  ds : DS
  wf : Bool

def leafR (sepr : Bool) (d : DS) (s : Fields) (ms : MSpec) : R :=
  if sepr then
    { f := .sep d.nu (.leaf d.tick d.sc ms) .nil, out := .ok, s := s,
      ds := { tick := d.tick + 1, nu := d.nu + 1, ex := d.ex, sc := d.sc + nser ms.sers },
      wf := presentOpt ms.sers ms.fields }
  else
    { f := .own (.leaf d.tick d.sc ms) .nil, out := .ok, s := s,
      ds := { tick := d.tick + 1, nu := d.nu, ex := d.ex, sc := d.sc + nser ms.sers },
      wf := presentOpt ms.sers ms.fields }

/-- serializer calls made by the end message of an action -/
def endSer (sers : Option (List (String × Nat) × List (String × Nat))) (res : Outcome) : Nat :=
  match res with
  | .ok => nser (sers.map (·.2))
  | _ => 0

/-- the result of `with <new action of spec sp>: body` from counters `d`, given the result `r` of
the body: one node — a tree of its own (`sepr`) or the next item of the enclosing action — whose end
message carries the success fields or what the extractor returned for the body's exception -/
def withR (env : Env) (sepr : Bool) (sp : Spec) (d : DS) (s : Fields) (r : R) : R :=
  { f := if sepr then .sep d.nu (T.node sp d.tick r.ds.tick d.sc r.ds.sc r.s r.out (extOut env r.out r.ds.ex).1 r.f) .nil
         else .own (T.node sp d.tick r.ds.tick d.sc r.ds.sc r.s r.out (extOut env r.out r.ds.ex).1 r.f) .nil,
    out := r.out, s := s,
    ds := { tick := r.ds.tick + 1, nu := r.ds.nu, ex := (extOut env r.out r.ds.ex).2, sc := r.ds.sc + endSer sp.sers r.out },
    wf := presentOpt (sp.sers.map (·.1)) sp.fields && r.wf &&
      (match r.out with | .ok => presentOpt (sp.sers.map (·.2)) r.s | _ => true) }

/-- the result of `x.finish(exc)` closing the explicitly spelled action `x = start_action(sp)` that was
started at counters `d0` and has since performed `kids` and collected success fields `sx`: the same
node as the `with` block — but `finish` does not raise, the outcome is `ok` -/
def closeR (env : Env) (sepr : Bool) (sp : Spec) (d0 : DS) (s : Fields) (kids : F) (sx : Fields) (res : Outcome) (d : DS) : R :=
  { f := if sepr then .sep d0.nu (T.node sp d0.tick d.tick d0.sc d.sc sx res (extOut env res d.ex).1 kids) .nil
         else .own (T.node sp d0.tick d.tick d0.sc d.sc sx res (extOut env res d.ex).1 kids) .nil,
    out := .ok, s := s,
    ds := { tick := d.tick + 1, nu := d.nu, ex := (extOut env res d.ex).2, sc := d.sc + endSer sp.sers res },
    wf := match res with | .ok => presentOpt (sp.sers.map (·.2)) sx | _ => true }

/-- the result of `with x: body` on the open action `x` (cf. `closeR`): the body's result `rb` is
appended, the node is closed with the body's outcome, which is also the outcome of the statement -/
def closeW (env : Env) (sepr : Bool) (sp : Spec) (d0 : DS) (s : Fields) (kids : F) (rb : R) : R :=
  { closeR env sepr sp d0 s (kids.append rb.f) rb.s rb.out rb.ds with
    out := rb.out, wf := rb.wf && (closeR env sepr sp d0 s (kids.append rb.f) rb.s rb.out rb.ds).wf }

/-- what `x.finish(exc)` is told -/
def finRes : Option Nat → Outcome
  | none => .ok
  | some e => .raised (.user e)

/-- `write_traceback()` for `e` from counters `d`: the extractor is consulted, then one message -/
def tbR (env : Env) (sepr : Bool) (d : DS) (s : Fields) (e : Exc) : R :=
  leafR sepr { d with ex := (extOf env e d.ex).2 } s (tbSpec env e (extOf env e d.ex).1)

mutual
/-- `cur` = the exception being handled, `inAct` = inside some action -/
def denS (env : Env) (cur : Option Exc) (inAct : Bool) : Stmt → DS → Fields → R
  | .withAction task sp body, d, s =>
    withR env (task || !inAct) sp d s
      (denB env cur true body { tick := d.tick + 1, nu := (if (task || !inAct) = true then d.nu + 1 else d.nu), ex := d.ex, sc := d.sc + nser (sp.sers.map (·.1)) } [])
  | .log ms, d, s => leafR (!inAct) d s ms
  | .raise i, d, s => { f := .nil, out := .raised (.user i), s := s, ds := d, wf := true }
  | .tryCatch body handler, d, s =>
    let r := denB env cur inAct body d s
    match r.out with
    | .raised e =>
      let r2 := denB env (some e) inAct handler r.ds r.s
      { f := r.f.append r2.f, out := r2.out, s := r2.s, ds := r2.ds, wf := r.wf && r2.wf }
    | _ => r
  | .writeTraceback, d, s =>
    match cur with
    | some e => tbR env (!inAct) d s e
    | none => { f := .nil, out := .stuck, s := s, ds := d, wf := false }
  | .addSuccess none fs, d, s => { f := .nil, out := .ok, s := s.update fs, ds := d, wf := inAct }
  | .probe _, d, s => { f := .nil, out := .ok, s := s, ds := d, wf := true }
  | _, d, s => { f := .nil, out := .stuck, s := s, ds := d, wf := false }
def denB (env : Env) (cur : Option Exc) (inAct : Bool) : Block → DS → Fields → R
  | .nil, d, s => { f := .nil, out := .ok, s := s, ds := d, wf := true }
  | .cons st rest, d, s =>
    match st with
    | .startAs x task sp =>
      -- the explicit spelling of an action: `x = start_action(..)`, then (`denX`) its content, then `x.finish(..)`
      let r := denX env cur inAct x (task || !inAct) sp d s rest .nil []
        { tick := d.tick + 1, nu := (if (task || !inAct) = true then d.nu + 1 else d.nu), ex := d.ex, sc := d.sc + nser (sp.sers.map (·.1)) }
      { r with wf := presentOpt (sp.sers.map (·.1)) sp.fields && r.wf }
    | st =>
      let r := denS env cur inAct st d s
      match r.out with
      | .ok =>
        let r2 := denB env cur inAct rest r.ds r.s
        { f := r.f.append r2.f, out := r2.out, s := r2.s, ds := r2.ds, wf := r.wf && r2.wf }
      | _ => r
/-- the rest of a block after `x = start_action(sp)` (started at counters `d0`, a tree of its own iff
`sepr`; `s` = the success fields of the enclosing action), while `x` is open: it has performed `kids`
and collected success fields `sx`, the counters are `d`.  Allowed: `with x.context(): body` /
`x.run(lambda: body)` whose body ends normally (a body that raises would leave the action unfinished:
excluded, `wf = false`), `x.log(..)`, `x.add_success_fields(..)`, then `x.finish(exc)` or `with x: body`,
which closes the node, and the block goes on (unless the body of `with x:` raised). -/
def denX (env : Env) (cur : Option Exc) (inAct : Bool) (x : Nat) (sepr : Bool) (sp : Spec) (d0 : DS) (s : Fields) :
    Block → F → Fields → DS → R
  | .nil, _, _, _ => { f := .nil, out := .stuck, s := s, ds := d0, wf := false }
  | .cons st rest, kids, sx, d =>
    match st with
    | .inContext y body =>
      if y = x then
        let rb := denB env cur true body d sx
        match rb.out with
        | .ok =>
          let r := denX env cur inAct x sepr sp d0 s rest (kids.append rb.f) rb.s rb.ds
          { r with wf := rb.wf && r.wf }
        | _ => { f := .nil, out := .stuck, s := s, ds := d0, wf := false }
      else { f := .nil, out := .stuck, s := s, ds := d0, wf := false }
    | .runIn y body =>
      if y = x then
        let rb := denB env cur true body d sx
        match rb.out with
        | .ok =>
          let r := denX env cur inAct x sepr sp d0 s rest (kids.append rb.f) rb.s rb.ds
          { r with wf := rb.wf && r.wf }
        | _ => { f := .nil, out := .stuck, s := s, ds := d0, wf := false }
      else { f := .nil, out := .stuck, s := s, ds := d0, wf := false }
    | .finish y exc =>
      if y = x then
        let r := closeR env sepr sp d0 s kids sx (finRes exc) d
        let r2 := denB env cur inAct rest r.ds r.s
        { f := r.f.append r2.f, out := r2.out, s := r2.s, ds := r2.ds, wf := r.wf && r2.wf }
      else { f := .nil, out := .stuck, s := s, ds := d0, wf := false }
    | .logTo y ms =>
      -- `x.log(..)` / `Message.log(action=x)` between the segments: the next item of `x`
      if y = x then
        let r := denX env cur inAct x sepr sp d0 s rest (kids.append (.own (.leaf d.tick d.sc ms) .nil)) sx
          { tick := d.tick + 1, nu := d.nu, ex := d.ex, sc := d.sc + nser ms.sers }
        { r with wf := presentOpt ms.sers ms.fields && r.wf }
      else { f := .nil, out := .stuck, s := s, ds := d0, wf := false }
    | .addSuccess z fs =>
      match z with
      | some y =>
        -- `x.add_success_fields(..)`
        if y = x then denX env cur inAct x sepr sp d0 s rest kids (sx.update fs) d
        else { f := .nil, out := .stuck, s := s, ds := d0, wf := false }
      | none => { f := .nil, out := .stuck, s := s, ds := d0, wf := false }
    | .withHandle y body =>
      -- `with x: body`: the `with` block's behaviour on the existing handle; closes the node with the body's outcome
      if y = x then
        let r := closeW env sepr sp d0 s kids (denB env cur true body d sx)
        match r.out with
        | .ok =>
          let r2 := denB env cur inAct rest r.ds r.s
          { f := r.f.append r2.f, out := r2.out, s := r2.s, ds := r2.ds, wf := r.wf && r2.wf }
        | _ => r
      else { f := .nil, out := .stuck, s := s, ds := d0, wf := false }
    | _ => { f := .nil, out := .stuck, s := s, ds := d0, wf := false }
end

end Sys.Emit

/-! ## The structured fragment (shape only) -/
namespace Sys
mutual
/-- `inH` = inside an `except` handler (so `write_traceback()` has an exception), `inAct` = inside
an action (so `add_success_fields` has a current action) -/
def Stmt.structured (inH inAct : Bool) : Stmt → Bool
  | .withAction _ _ body => body.structured inH true
  | .log _ => true
  | .raise _ => true
  | .tryCatch body handler => body.structured inH inAct && handler.structured true inAct
  | .writeTraceback => inH
  | .addSuccess none _ => inAct
  | .probe _ => true
  | _ => false
def Block.structured (inH inAct : Bool) : Block → Bool
  | .nil => true
  | .cons s r =>
    match s with
    | .startAs x _ _ => r.structuredX inH inAct x
    | s => s.structured inH inAct && r.structured inH inAct
/-- the rest of a block after `x = start_action(..)`: context segments for `x` whose bodies are
structured and do not rebind `x`, `x.log(..)`, `x.add_success_fields(..)`, then `x.finish(..)` or
`with x: <structured body>`, then a structured rest -/
def Block.structuredX (inH inAct : Bool) (x : Nat) : Block → Bool
  | .nil => false
  | .cons s r =>
    match s with
    | .inContext y body => y == x && body.structured inH true && !body.binds x && r.structuredX inH inAct x
    | .runIn y body => y == x && body.structured inH true && !body.binds x && r.structuredX inH inAct x
    | .finish y _ => y == x && r.structured inH inAct
    | .logTo y _ => y == x && r.structuredX inH inAct x
    | .addSuccess (some y) _ => y == x && r.structuredX inH inAct x
    | .withHandle y body => y == x && body.structured inH true && r.structured inH inAct
    | _ => false
end
end Sys

namespace Sys.Emit
open Sys Sys.C04

/-! ## Effects of the primitives under the fragment's hypotheses -/

/-- field serializers do not raise (`σ sid v k` = what serializer `sid` returns for `v` on the `k`-th
serializer call overall: the result may depend on the call number), registered exception extractors (for any classes,
returning any fields, possibly different ones on every call) do not raise, the destinations in `ds`
never raise -/
structure EnvOK (env : Env) (σ : Nat → FV → Nat → FV) (ds : List Nat) : Prop where
  ser : ∀ sid v k, env.serialize sid v k = .ok (σ sid v k)
  ext : ∀ c f, env.extractor c = some f → ∀ e k, ∃ fs, f e k = .ok fs
  healthy : ∀ d ∈ ds, ∀ k, env.destFails d k = none

/-- the hypothesis of the first version of these theorems (no extractor registered) is a special case -/
theorem EnvOK.ofNoExtractor {env : Env} {σ : Nat → FV → Nat → FV} {ds : List Nat}
    (ser : ∀ sid v k, env.serialize sid v k = .ok (σ sid v k)) (ext : ∀ c, env.extractor c = none)
    (healthy : ∀ d ∈ ds, ∀ k, env.destFails d k = none) : EnvOK env σ ds :=
  ⟨ser, fun c f h => (by rw [ext c] at h; cases h), healthy⟩

/-- `w'` is `w` with the action table `acts`, `dt` more clock reads, `du` more uuids, `dc` more
serializer calls and `out` staged; context, destinations, global fields, program variables,
extractor-call count untouched -/
structure Eff (w w' : World) (acts : List Act) (dt du dc : Nat) (out : List Msg) : Prop where
  acts : w'.acts = acts
  ctx : w'.ctx = w.ctx
  tick : w'.tick = w.tick + dt
  nu : w'.nextUuid = w.nextUuid + du
  dests : w'.dests = w.dests
  globals : w'.globals = w.globals
  stage : w'.stage = w.stage ++ out
  ext : w'.extCalls = w.extCalls
  vars : w'.vars = w.vars
  sc : w'.serCalls = w.serCalls + dc

theorem Eff.refl (w : World) : Eff w w w.acts 0 0 0 [] := ⟨rfl, rfl, rfl, rfl, rfl, rfl, by simp, rfl, rfl, rfl⟩

theorem Eff.trans {a b c : World} {x y : List Act} {t1 t2 u1 u2 s1 s2 : Nat} {o1 o2 : List Msg}
    (h1 : Eff a b x t1 u1 s1 o1) (h2 : Eff b c y t2 u2 s2 o2) : Eff a c y (t1 + t2) (u1 + u2) (s1 + s2) (o1 ++ o2) :=
  ⟨h2.acts, h2.ctx.trans h1.ctx, by rw [h2.tick, h1.tick]; omega, by rw [h2.nu, h1.nu]; omega,
   h2.dests.trans h1.dests, h2.globals.trans h1.globals, by rw [h2.stage, h1.stage, List.append_assoc],
   h2.ext.trans h1.ext, h2.vars.trans h1.vars, by rw [h2.sc, h1.sc]; omega⟩

/-- the world is in the fragment's configuration: only destinations from `ds`, no global fields -/
structure WOK (w : World) (ds : List Nat) : Prop where
  dests : ∀ d ∈ w.dests, d ∈ ds
  globals : w.globals = []

theorem WOK.ofEff {w w' : World} {ds : List Nat} {x : List Act} {t u v : Nat} {o : List Msg}
    (h : WOK w ds) (e : Eff w w' x t u v o) : WOK w' ds :=
  ⟨by rw [e.dests]; exact h.dests, by rw [e.globals]; exact h.globals⟩

theorem fanOut_core (env : Env) (m : Msg) (l : List Nat) (hh : ∀ d ∈ l, ∀ k, env.destFails d k = none) (w : World) :
    (World.fanOut env w m l).2 = [] ∧ Eff w (World.fanOut env w m l).1 w.acts 0 0 0 [] := by
  induction l generalizing w with
  | nil => exact ⟨rfl, Eff.refl w⟩
  | cons d l ih =>
    simp only [World.fanOut]
    have hd : env.destFails d ((lookupNat w.destCalls d).getD 0) = none := hh d List.mem_cons_self _
    obtain ⟨h1, h2⟩ := ih (fun d' hd' => hh d' (List.mem_cons_of_mem _ hd')) (w.callDest env d m).1
    have hc : (w.callDest env d m).2 = none := by simp [World.callDest, hd]
    have he : Eff w (w.callDest env d m).1 w.acts 0 0 0 [] := by
      simp only [World.callDest, hd]
      exact ⟨rfl, rfl, rfl, rfl, rfl, rfl, by simp, rfl, rfl, rfl⟩
    refine ⟨by simp [h1, hc], ?_⟩
    have := he.trans h2
    rw [he.acts] at this
    simpa using this

theorem eff_send {env : Env} {σ : Nat → FV → Nat → FV} {ds : List Nat} (H : EnvOK env σ ds) (w : World) (hw : WOK w ds)
    (m : Msg) : Eff w (w.send env m) w.acts 0 0 0 [m] := by
  have hm : Fields.update m w.globals = m := by rw [hw.globals]; rfl
  unfold World.send World.deliver
  simp only [hm]
  split
  · obtain ⟨h1, h2⟩ := fanOut_core env m w.dests (fun d hd => H.healthy d (hw.dests d hd))
      { w with stage := w.stage ++ [m], stageAt := w.stageAt ++ [w.dests] }
    simp only [h1, ite_self, World.reportAll]
    exact ⟨h2.acts, h2.ctx, h2.tick, h2.nu, h2.dests, h2.globals, by rw [h2.stage]; simp, h2.ext, h2.vars, h2.sc⟩
  · simp only [World.reportAll]
    exact ⟨rfl, rfl, rfl, rfl, rfl, rfl, rfl, rfl, rfl, rfl⟩

theorem present_set (ss : List (String × Nat)) (m : Fields) (k : String) (v : FV) (h : present ss m = true) :
    present ss (m.set k v) = true := by
  simp only [present, List.all_eq_true] at h ⊢
  intro q hq
  by_cases e : q.1 = k
  · rw [e, Fields.get?_set_self]; rfl
  · rw [Fields.get?_set_ne _ _ _ _ e]; exact h q hq

/-- `_MessageSerializer.serialize` with serializers that do not raise on a dict that has every declared
key: one call per declared field, numbered consecutively -/
theorem serializeFields_ok {env : Env} {σ : Nat → FV → Nat → FV} {ds : List Nat} (H : EnvOK env σ ds)
    (ss : List (String × Nat)) (w : World) (m : Msg) (hp : present ss m = true) :
    serializeFields env w ss m = ({ w with serCalls := w.serCalls + ss.length }, .ok (applyT σ w.serCalls ss m)) := by
  induction ss generalizing w m with
  | nil => rfl
  | cons p r ih =>
    obtain ⟨key, sid⟩ := p
    simp only [present, List.all_cons, Bool.and_eq_true] at hp
    obtain ⟨h1, h2⟩ := hp
    cases hv : m.get? key with
    | none => simp [hv] at h1
    | some v =>
      have hp' : present r (m.set key (σ sid v w.serCalls)) = true := present_set r m key _ h2
      have := ih { w with serCalls := w.serCalls + 1 } (m.set key (σ sid v w.serCalls)) hp'
      simp only [serializeFields, hv, H.ser, applyT, this]
      simp [Nat.add_assoc, Nat.add_comm 1]

theorem eff_loggerWrite {env : Env} {σ : Nat → FV → Nat → FV} {ds : List Nat} (H : EnvOK env σ ds) (w : World) (hw : WOK w ds)
    (m : Msg) (sers : Option (List (String × Nat))) (hp : presentOpt sers m = true) :
    Eff w (w.loggerWrite env m sers) w.acts 0 0 (nser sers) [serOpt σ w.serCalls sers m] := by
  cases sers with
  | none => exact eff_send H w hw m
  | some ss =>
    have hk := serializeFields_ok H ss w m hp
    simp only [World.loggerWrite, hk, serOpt, nser]
    have hw' : WOK ({ w with serCalls := w.serCalls + ss.length } : World) ds := ⟨hw.dests, hw.globals⟩
    have := eff_send H ({ w with serCalls := w.serCalls + ss.length } : World) hw' (applyT σ w.serCalls ss m)
    exact ⟨this.acts, this.ctx, this.tick, this.nu, this.dests, this.globals, this.stage, this.ext, this.vars, this.sc⟩

theorem presentOpt_set (sers : Option (List (String × Nat))) (m : Fields) (k : String) (v : FV)
    (h : presentOpt sers m = true) : presentOpt sers (m.set k v) = true := by
  cases sers with
  | none => rfl
  | some ss => exact present_set ss m k v h

theorem firstExtractor_none {env : Env} (h : ∀ c, env.extractor c = none) (l : List Nat) : firstExtractor env l = none := by
  induction l with
  | nil => rfl
  | cons c cs ih => simp [firstExtractor, h, ih]

theorem firstExtractor_mem {env : Env} {l : List Nat} {f : Exc → Nat → Except Exc Fields}
    (h : firstExtractor env l = some f) : ∃ c, env.extractor c = some f := by
  induction l with
  | nil => cases h
  | cons c cs ih =>
    simp only [firstExtractor] at h
    cases hc : env.extractor c with
    | none => rw [hc] at h; exact ih h
    | some g => rw [hc] at h; cases h; exact ⟨c, hc⟩

/-- `get_fields_for_exception` when no registered extractor raises: one extractor call (if one is
registered along the MRO), its fields returned, nothing logged -/
theorem getFields_ok {env : Env} (h : ∀ c f, env.extractor c = some f → ∀ e k, ∃ fs, f e k = .ok fs) (w : World) (e : Exc) :
    World.getFields env w e = ({ w with extCalls := (extOf env e w.extCalls).2 }, (extOf env e w.extCalls).1) := by
  unfold World.getFields extOf
  cases hf : firstExtractor env (env.mro (e.cls env)) with
  | none => rfl
  | some f =>
    obtain ⟨c, hc⟩ := firstExtractor_mem hf
    obtain ⟨fs, hfs⟩ := h c f hc e w.extCalls
    simp only [hfs]

theorem getFields_none {env : Env} (h : ∀ c, env.extractor c = none) (w : World) (e : Exc) :
    World.getFields env w e = (w, []) := by
  simp [World.getFields, firstExtractor_none h]

theorem extOf_none {env : Env} (h : ∀ c, env.extractor c = none) (e : Exc) (k : Nat) : extOf env e k = ([], k) := by
  simp [extOf, firstExtractor_none h]

/-- **nearest class in the MRO**: the extractor consulted is the one registered for the first class
of `e`'s MRO that has one -/
theorem extOf_nearest {env : Env} {e : Exc} {pre post : List Nat} {c : Nat} {f : Exc → Nat → Except Exc Fields}
    (hm : env.mro (e.cls env) = pre ++ c :: post) (hpre : ∀ c' ∈ pre, env.extractor c' = none) (hc : env.extractor c = some f)
    (k : Nat) (fs : Fields) (hf : f e k = .ok fs) : extOf env e k = (fs, k + 1) := by
  have : firstExtractor env (pre ++ c :: post) = some f := by
    clear hm
    induction pre with
    | nil => simp [firstExtractor, hc]
    | cons a r ih =>
      simp only [List.cons_append, firstExtractor, hpre a List.mem_cons_self]
      exact ih (fun c' h' => hpre c' (List.mem_cons_of_mem _ h'))
  simp only [extOf, hm, this, hf]

theorem lt_of_get {w : World} {h : Nat} {a : Act} (ha : w.acts[h]? = some a) : h < w.acts.length := by
  rcases Nat.lt_or_ge h w.acts.length with hl | hl
  · exact hl
  · rw [List.getElem?_eq_none hl] at ha; cases ha

section prims
variable {env : Env} {σ : Nat → FV → Nat → FV} {ds : List Nat} (H : EnvOK env σ ds)
include H

/-- `Logger.write` after steps that staged nothing -/
theorem Eff.thenWrite {w w1 : World} {A : List Act} {dt du : Nat} (e : Eff w w1 A dt du 0 []) (hw : WOK w ds)
    (m : Msg) (sers : Option (List (String × Nat))) (hp : presentOpt sers m = true) :
    Eff w (w1.loggerWrite env m sers) A dt du (nser sers) [serOpt σ w.serCalls sers m] := by
  have := e.trans (eff_loggerWrite H w1 (hw.ofEff e) m sers hp)
  rw [e.acts, e.sc] at this
  simpa using this

theorem Eff.thenWrite' {w w1 : World} {A : List Act} {dt du : Nat} (e : Eff w w1 A dt du 0 []) (hw : WOK w ds)
    (m : Msg) (sers : Option (List (String × Nat))) (hp : presentOpt sers m = true) (out : Msg) (dc : Nat)
    (ho : out = serOpt σ w.serCalls sers m) (hd : dc = nser sers) : Eff w (w1.loggerWrite env m sers) A dt du dc [out] :=
  ho ▸ hd ▸ Eff.thenWrite H e hw m sers hp

/-- a message logged while action `c` is current -/
theorem eff_log_in (w : World) (hw : WOK w ds) (c : Nat) (a : Act) (hc : w.ctx = some c) (ha : w.acts[c]? = some a)
    (ms : MSpec) (hp : presentOpt ms.sers ms.fields = true) :
    Eff w (w.logMessage env ms) (w.acts.set c { a with last := a.last + 1 }) 1 0 (nser ms.sers)
      [leafDict σ a.uuid (a.level ++ [a.last + 1]) w.tick w.serCalls ms] := by
  have hp' := presentOpt_set _ _ "message_type" (.str ms.mtype) (presentOpt_set _ _ "task_level" (.lvl (a.level ++ [a.last + 1]))
    (presentOpt_set _ _ "task_uuid" (.uuid a.uuid) (presentOpt_set _ _ "timestamp" (.ts w.tick) hp)))
  simp only [World.logMessage, World.currentOrFresh, hc, World.buildLog, World.clock, World.nextLevel, ha,
    Option.map_some, Option.getD_some]
  refine Eff.thenWrite H (A := w.acts.set c { a with last := a.last + 1 }) (dt := 1) (du := 0) ?_ hw _ _ hp'
  exact ⟨rfl, hc.symm, rfl, rfl, rfl, rfl, by simp, rfl, rfl, rfl⟩

/-- `x.log(..)` / `Message.log(action=x)` on the handle of an action, whatever the current action is -/
theorem eff_logTo (w : World) (hw : WOK w ds) (h : Nat) (a : Act) (ha : w.acts[h]? = some a)
    (ms : MSpec) (hp : presentOpt ms.sers ms.fields = true) :
    Eff w (w.logTo env h ms) (w.acts.set h { a with last := a.last + 1 }) 1 0 (nser ms.sers)
      [leafDict σ a.uuid (a.level ++ [a.last + 1]) w.tick w.serCalls ms] := by
  have hp' := presentOpt_set _ _ "message_type" (.str ms.mtype) (presentOpt_set _ _ "task_level" (.lvl (a.level ++ [a.last + 1]))
    (presentOpt_set _ _ "task_uuid" (.uuid a.uuid) (presentOpt_set _ _ "timestamp" (.ts w.tick) hp)))
  simp only [World.logTo, World.buildLog, World.clock, World.nextLevel, ha, Option.map_some, Option.getD_some]
  refine Eff.thenWrite H (A := w.acts.set h { a with last := a.last + 1 }) (dt := 1) (du := 0) ?_ hw _ _ hp'
  exact ⟨rfl, rfl, rfl, rfl, rfl, rfl, by simp, rfl, rfl, rfl⟩

/-- a message logged outside any action: a fresh one-message task -/
theorem eff_log_out (w : World) (hw : WOK w ds) (hc : w.ctx = none) (ms : MSpec)
    (hp : presentOpt ms.sers ms.fields = true) :
    Eff w (w.logMessage env ms) (w.acts ++ [{ uuid := w.nextUuid, level := [], last := 1 }]) 1 1 (nser ms.sers)
      [leafDict σ w.nextUuid [1] w.tick w.serCalls ms] := by
  have hp' := presentOpt_set _ _ "message_type" (.str ms.mtype) (presentOpt_set _ _ "task_level" (.lvl [1])
    (presentOpt_set _ _ "task_uuid" (.uuid w.nextUuid) (presentOpt_set _ _ "timestamp" (.ts w.tick) hp)))
  simp only [World.logMessage, World.currentOrFresh, hc, World.freshAction, World.buildLog, World.clock, World.nextLevel,
    List.getElem?_concat_length, Option.map_some, Option.getD_some, List.nil_append, Nat.zero_add]
  refine Eff.thenWrite H (A := w.acts ++ [{ uuid := w.nextUuid, level := [], last := 1 }]) (dt := 1) (du := 1) ?_ hw _ _ hp'
  exact ⟨by simp, hc.symm, rfl, rfl, rfl, rfl, by simp, rfl, rfl, rfl⟩

/-- `write_traceback()` = one extractor consultation, then an ordinary untyped message -/
theorem writeTraceback_eq (w : World) (e : Exc) :
    w.writeTraceback env e =
      ({ w with extCalls := (extOf env e w.extCalls).2 } : World).logMessage env (tbSpec env e (extOf env e w.extCalls).1) := by
  simp only [World.writeTraceback, getFields_ok H.ext, World.logNoSer, World.logMessage, World.loggerWrite, tbSpec]

/-- `Action._start` of action `h` -/
theorem eff_startRec (w : World) (hw : WOK w ds) (h : Nat) (a : Act) (ha : w.acts[h]? = some a) (fields : Fields)
    (hp : presentOpt (a.sers.map (·.1)) fields = true) :
    Eff w (w.startRec env h fields) (w.acts.set h { a with last := a.last + 1 }) 1 0 (nser (a.sers.map (·.1)))
      [startDict σ a.uuid (a.level ++ [a.last + 1]) w.tick w.serCalls { atype := a.atype, fields := fields, sers := a.sers }] := by
  have hp' := presentOpt_set _ _ "task_level" (.lvl (a.level ++ [a.last + 1])) (presentOpt_set _ _ "action_type" (.str a.atype)
    (presentOpt_set _ _ "task_uuid" (.uuid a.uuid) (presentOpt_set _ _ "timestamp" (.ts w.tick)
    (presentOpt_set _ _ "action_status" (.str "started") hp))))
  simp only [World.startRec, ha, World.clock, World.nextLevel]
  refine Eff.thenWrite H (A := w.acts.set h { a with last := a.last + 1 }) (dt := 1) (du := 0) ?_ hw _ _ hp'
  exact ⟨rfl, rfl, rfl, rfl, rfl, rfl, by simp, rfl, rfl, rfl⟩

/-- `start_action` inside action `p`: `p.child()` + `_start` -/
theorem eff_start_child (w : World) (hw : WOK w ds) (p : Nat) (pa : Act) (hc : w.ctx = some p) (ha : w.acts[p]? = some pa)
    (sp : Spec) (hp : presentOpt (sp.sers.map (·.1)) sp.fields = true) :
    (w.startAction env false sp).2 = w.acts.length ∧
    Eff w (w.startAction env false sp).1
      (w.acts.set p { pa with last := pa.last + 1 } ++
        [{ uuid := pa.uuid, level := pa.level ++ [pa.last + 1], last := 1, atype := sp.atype, sers := sp.sers }]) 1 0
      (nser (sp.sers.map (·.1))) [startDict σ pa.uuid (pa.level ++ [pa.last + 1] ++ [1]) w.tick w.serCalls sp] := by
  have hlt := lt_of_get ha
  simp only [World.startAction, Bool.false_eq_true, if_false, hc, ha, World.nextLevel, List.length_set]
  refine ⟨trivial, ?_⟩
  have e := eff_startRec H
    ({ w with
        acts := w.acts.set p { pa with last := pa.last + 1 } ++
          [{ uuid := pa.uuid, level := pa.level ++ [pa.last + 1], atype := sp.atype, sers := sp.sers }]
        ctx := some p
        slots := w.slots ++ [(p, pa.last + 1)]
        lastSlot := some (p, pa.last + 1) } : World) ⟨hw.dests, hw.globals⟩ w.acts.length
    { uuid := pa.uuid, level := pa.level ++ [pa.last + 1], atype := sp.atype, sers := sp.sers }
    (by simp) sp.fields hp
  exact ⟨by rw [e.acts]; simp, e.ctx.trans hc.symm, e.tick, e.nu, e.dests, e.globals, e.stage, e.ext, e.vars, e.sc⟩

/-- `start_task`, or `start_action` outside any action: a fresh tree -/
theorem eff_start_fresh (w : World) (hw : WOK w ds) (task : Bool) (hc : task = true ∨ w.ctx = none)
    (sp : Spec) (hp : presentOpt (sp.sers.map (·.1)) sp.fields = true) :
    (w.startAction env task sp).2 = w.acts.length ∧
    Eff w (w.startAction env task sp).1
      (w.acts ++ [{ uuid := w.nextUuid, level := [], last := 1, atype := sp.atype, sers := sp.sers }]) 1 1
      (nser (sp.sers.map (·.1))) [startDict σ w.nextUuid [1] w.tick w.serCalls sp] := by
  have hn : (if task = true then none else w.ctx) = none := by
    rcases hc with h | h
    · simp [h]
    · simp [h]
  simp only [World.startAction, hn, World.freshAction]
  refine ⟨trivial, ?_⟩
  have e := eff_startRec H
    ({ w with
        acts := w.acts ++ [{ uuid := w.nextUuid, level := [], atype := sp.atype, sers := sp.sers }]
        nextUuid := w.nextUuid + 1 } : World) ⟨hw.dests, hw.globals⟩ w.acts.length
    { uuid := w.nextUuid, level := [], atype := sp.atype, sers := sp.sers }
    (by simp) sp.fields hp
  exact ⟨by rw [e.acts]; simp, e.ctx, e.tick, e.nu, e.dests, e.globals, e.stage, e.ext, e.vars, e.sc⟩

/-- `Action.finish(exception)` of an unfinished action (a failure consults the extractor first) -/
theorem eff_finish (w : World) (hw : WOK w ds) (h : Nat) (a : Act) (ha : w.acts[h]? = some a) (hf : a.finished = false)
    (res : Outcome) (hres : res ≠ .stuck) (hp : res = .ok → presentOpt (a.sers.map (·.2)) a.succ = true) :
    Eff { w with extCalls := (extOut env res w.extCalls).2 } (w.finishRec env h (outcomeExc res))
      (w.acts.set h { a with finished := true, last := a.last + 1 }) 1 0 (endSer a.sers res)
      [endDict env σ a.uuid (a.level ++ [a.last + 1]) w.tick w.serCalls a.atype a.sers a.succ (extOut env res w.extCalls).1 res] := by
  have hlt := lt_of_get ha
  cases res with
  | stuck => exact absurd rfl hres
  | ok =>
    have hp' := presentOpt_set _ _ "task_level" (.lvl (a.level ++ [a.last + 1])) (presentOpt_set _ _ "action_type" (.str a.atype)
      (presentOpt_set _ _ "task_uuid" (.uuid a.uuid) (presentOpt_set _ _ "timestamp" (.ts w.tick)
      (presentOpt_set _ _ "action_status" (.str "succeeded") (hp rfl)))))
    simp only [World.finishRec, ha, hf, outcomeExc, World.clock, World.nextLevel, List.getElem?_set_self hlt,
      Bool.false_eq_true, if_false, endDict, extOut, endSer]
    refine Eff.thenWrite H (w := { w with extCalls := w.extCalls })
      (A := w.acts.set h { a with finished := true, last := a.last + 1 }) (dt := 1) (du := 0) ?_
      ⟨hw.dests, hw.globals⟩ _ _ hp'
    exact ⟨by simp, rfl, rfl, rfl, rfl, rfl, by simp, rfl, rfl, rfl⟩
  | raised e =>
    simp only [World.finishRec, ha, hf, outcomeExc, getFields_ok H.ext, World.clock, World.nextLevel,
      List.getElem?_set_self hlt, Bool.false_eq_true, if_false, endDict, extOut, endSer]
    have hs : ∀ (k : Nat) (m : Msg), serOpt σ k (a.sers.map (fun _ => ([] : List (String × Nat)))) m = m := by
      intro k m; cases a.sers <;> rfl
    have hn : nser (a.sers.map (fun _ => ([] : List (String × Nat)))) = 0 := by cases a.sers <;> rfl
    have hp' : ∀ m : Msg, presentOpt (a.sers.map (fun _ => ([] : List (String × Nat)))) m = true := by
      intro m; cases a.sers <;> rfl
    refine Eff.thenWrite' H (w := { w with extCalls := (extOf env e w.extCalls).2 })
      (A := w.acts.set h { a with finished := true, last := a.last + 1 }) (dt := 1) (du := 0)
      ?_ ⟨hw.dests, hw.globals⟩ _ _ (hp' _) _ _ (hs _ _).symm hn.symm
    exact ⟨by simp, rfl, rfl, rfl, rfl, rfl, by simp, rfl, rfl, rfl⟩

end prims

/-! ## The emission lemma -/

/-- identity of an action: what never changes in its record -/
structure AI where
  uuid : Nat
  level : Level
  atype : String
  sers : Option (List (String × Nat) × List (String × Nat))

/-- the record of an unfinished action that has handed out `n` positions and collected success fields `s` -/
def AI.act (i : AI) (n : Nat) (s : Fields) : Act :=
  { uuid := i.uuid, level := i.level, last := n, finished := false, succ := s, atype := i.atype, sers := i.sers }

/-- before: action `c` is current and unfinished, the counters are `d` -/
structure Pre (ds : List Nat) (w : World) (c : Nat) (i : AI) (n : Nat) (s : Fields) (d : DS) : Prop where
  wok : WOK w ds
  good : w.acts[c]? = some (i.act n s)
  ctx : w.ctx = some c
  tick : w.tick = d.tick
  nu : w.nextUuid = d.nu
  ex : w.extCalls = d.ex
  sc : w.serCalls = d.sc

/-- after running something whose denotation is `r` inside action `c` -/
structure Post (env : Env) (σ : Nat → FV → Nat → FV) (ds : List Nat) (w w' : World) (c : Nat) (i : AI) (n : Nat) (r : R) : Prop where
  /-- exactly these dicts were staged, in this order -/
  stage : w'.stage = w.stage ++ F.dicts env σ i.uuid r.f i.level (n + 1)
  /-- the action's counter advanced by the number of direct items; it is still unfinished -/
  good : w'.acts[c]? = some (i.act (n + r.f.len) r.s)
  /-- other actions are untouched -/
  frame : ∀ h, h < w.acts.length → h ≠ c → w'.acts[h]? = w.acts[h]?
  grow : w.acts.length ≤ w'.acts.length
  ctx : w'.ctx = w.ctx
  tick : w'.tick = r.ds.tick
  nu : w'.nextUuid = r.ds.nu
  ex : w'.extCalls = r.ds.ex
  sc : w'.serCalls = r.ds.sc
  wok : WOK w' ds

theorem Post.pre {env : Env} {σ : Nat → FV → Nat → FV} {ds : List Nat} {w w' : World} {c : Nat} {i : AI} {n : Nat} {r : R}
    (p : Post env σ ds w w' c i n r) (hc : w.ctx = some c) : Pre ds w' c i (n + r.f.len) r.s r.ds :=
  ⟨p.wok, p.good, p.ctx.trans hc, p.tick, p.nu, p.ex, p.sc⟩

theorem Post.trans' {env : Env} {σ : Nat → FV → Nat → FV} {ds : List Nat} {w w1 w2 : World} {c : Nat} {i : AI} {n : Nat}
    {r1 r2 : R} (h1 : Post env σ ds w w1 c i n r1) (h2 : Post env σ ds w1 w2 c i (n + r1.f.len) r2) (b : Bool) :
    Post env σ ds w w2 c i n { f := r1.f.append r2.f, out := r2.out, s := r2.s, ds := r2.ds, wf := b } := by
  refine ⟨?_, ?_, ?_, Nat.le_trans h1.grow h2.grow, h2.ctx.trans h1.ctx, h2.tick, h2.nu, h2.ex, h2.sc, h2.wok⟩
  · have e : n + r1.f.len + 1 = n + 1 + r1.f.len := by omega
    rw [h2.stage, h1.stage, F.dicts_append, List.append_assoc, e]
  · have := h2.good
    rw [F.len_append, ← Nat.add_assoc]; exact this
  · intro h hh hne
    rw [h2.frame h (Nat.lt_of_lt_of_le hh h1.grow) hne, h1.frame h hh hne]

/-- the extractor-call count of the starting world is not part of what `Post` says about it -/
theorem Post.ofExt {env : Env} {σ : Nat → FV → Nat → FV} {ds : List Nat} {w w' : World} {c : Nat} {i : AI} {n : Nat} {r : R} {k : Nat}
    (p : Post env σ ds { w with extCalls := k } w' c i n r) : Post env σ ds w w' c i n r :=
  ⟨p.stage, p.good, p.frame, p.grow, p.ctx, p.tick, p.nu, p.ex, p.sc, p.wok⟩

/-- nothing happened (`raise`, `probe`) -/
theorem Post.same {env : Env} {σ : Nat → FV → Nat → FV} {ds : List Nat} {w w' : World} {c : Nat} {i : AI} {n : Nat} {s : Fields} {d : DS}
    (pre : Pre ds w c i n s d) (ha : w'.acts = w.acts) (hs : w'.stage = w.stage) (hc : w'.ctx = w.ctx) (ht : w'.tick = w.tick)
    (hn : w'.nextUuid = w.nextUuid) (hx : w'.extCalls = w.extCalls) (hsc : w'.serCalls = w.serCalls) (hd : w'.dests = w.dests)
    (hg : w'.globals = w.globals) (o : Outcome) (b : Bool) :
    Post env σ ds w w' c i n { f := .nil, out := o, s := s, ds := d, wf := b } :=
  ⟨by simp [F.dicts, hs], by simpa [F.len, ha] using pre.good, fun h _ _ => by rw [ha], Nat.le_of_eq (by rw [ha]), hc, ht.trans pre.tick,
   hn.trans pre.nu, hx.trans pre.ex, hsc.trans pre.sc, ⟨by rw [hd]; exact pre.wok.dests, by rw [hg]; exact pre.wok.globals⟩⟩

/-- what the induction establishes for a statement / block with denotation `r` -/
def Emits (env : Env) (σ : Nat → FV → Nat → FV) (ds : List Nat) (run : World → World × Outcome) (den : DS → Fields → R) : Prop :=
  ∀ (w : World) (c : Nat) (i : AI) (n : Nat) (s : Fields) (d : DS), Pre ds w c i n s d → (den d s).wf = true →
    Post env σ ds w (run w).1 c i n (den d s) ∧ (run w).2 = (den d s).out ∧ (den d s).out ≠ .stuck

/-- `with <action h>:` on an action that exists, was started and is unfinished, with `k` positions
handed out and success fields `sx`: enter, body, exit, `finish` (a failure consults the extractor
first). -/
theorem run_handle {env : Env} {σ : Nat → FV → Nat → FV} {ds : List Nat} (H : EnvOK env σ ds) {run : World → World × Outcome}
    {den : DS → Fields → R} (hb : Emits env σ ds run den) (W1 : World) (h : Nat) (i' : AI) (k : Nat) (sx : Fields) (d1 : DS)
    (hw : WOK W1 ds) (hA : W1.acts[h]? = some (i'.act k sx)) (ht : W1.tick = d1.tick) (hn : W1.nextUuid = d1.nu)
    (hx : W1.extCalls = d1.ex) (hsc : W1.serCalls = d1.sc) (hwf : (den d1 sx).wf = true)
    (hps : (den d1 sx).out = .ok → presentOpt (i'.sers.map (·.2)) (den d1 sx).s = true) :
    let W2 := (withBlock env W1 h run).1
    let rb := den d1 sx
    W2.stage = W1.stage ++ (F.dicts env σ i'.uuid rb.f i'.level (k + 1) ++
      [endDict env σ i'.uuid (i'.level ++ [k + rb.f.len + 1]) rb.ds.tick rb.ds.sc i'.atype i'.sers rb.s
        (extOut env rb.out rb.ds.ex).1 rb.out]) ∧
    (∀ g, g < W1.acts.length → g ≠ h → W2.acts[g]? = W1.acts[g]?) ∧ W1.acts.length ≤ W2.acts.length ∧ W2.ctx = W1.ctx ∧
    W2.tick = rb.ds.tick + 1 ∧ W2.nextUuid = rb.ds.nu ∧
    (W2.extCalls = (extOut env rb.out rb.ds.ex).2 ∧ W2.serCalls = rb.ds.sc + endSer i'.sers rb.out) ∧ WOK W2 ds ∧
    (withBlock env W1 h run).2 = rb.out ∧ rb.out ≠ .stuck := by
  intro W2 rb
  have pre : Pre ds ({ W1 with ctx := some h } : World) h i' k sx d1 :=
    ⟨⟨hw.dests, hw.globals⟩, hA, rfl, ht, hn, hx, hsc⟩
  obtain ⟨post, hout, hns⟩ := hb _ _ _ _ _ _ pre hwf
  cases hrun : run ({ W1 with ctx := some h } : World) with
  | mk Wb ob =>
  rw [hrun] at post hout
  simp only at post hout
  obtain ⟨Wf, hWf⟩ : ∃ Wf : World, Wf = { Wb with ctx := W1.ctx } := ⟨_, rfl⟩
  have hfa : Wf.acts = Wb.acts := by rw [hWf]
  have hfs : Wf.stage = Wb.stage := by rw [hWf]
  have hft : Wf.tick = Wb.tick := by rw [hWf]
  have hfn : Wf.nextUuid = Wb.nextUuid := by rw [hWf]
  have hfx : Wf.extCalls = Wb.extCalls := by rw [hWf]
  have hfsc : Wf.serCalls = Wb.serCalls := by rw [hWf]
  have hfc : Wf.ctx = W1.ctx := by rw [hWf]
  have hfw : WOK Wf ds := ⟨by rw [hWf]; exact post.wok.dests, by rw [hWf]; exact post.wok.globals⟩
  have hW2 : W2 = World.finishRec env Wf h (outcomeExc rb.out) := by
    simp only [W2, withBlock, hrun, hout, rb, hWf]
  obtain ⟨Wx, hWx⟩ : ∃ Wx : World, Wx = { Wf with extCalls := (extOut env rb.out Wf.extCalls).2 } := ⟨_, rfl⟩
  have hxs : Wx.stage = Wf.stage := by rw [hWx]
  have hxt : Wx.tick = Wf.tick := by rw [hWx]
  have hxn : Wx.nextUuid = Wf.nextUuid := by rw [hWx]
  have hxc : Wx.ctx = Wf.ctx := by rw [hWx]
  have hxsc : Wx.serCalls = Wf.serCalls := by rw [hWx]
  have hxx : Wx.extCalls = (extOut env rb.out rb.ds.ex).2 := by rw [hWx, hfx, post.ex]
  have hxw : WOK Wx ds := ⟨by rw [hWx]; exact hfw.dests, by rw [hWx]; exact hfw.globals⟩
  have e : Eff Wx W2
      (Wb.acts.set h { i'.act (k + rb.f.len) rb.s with finished := true, last := k + rb.f.len + 1 }) 1 0 (endSer i'.sers rb.out)
      [endDict env σ i'.uuid (i'.level ++ [k + rb.f.len + 1]) rb.ds.tick rb.ds.sc i'.atype i'.sers rb.s
        (extOut env rb.out rb.ds.ex).1 rb.out] := by
    have := eff_finish H Wf hfw h (i'.act (k + rb.f.len) rb.s) (by rw [hfa]; exact post.good) rfl rb.out hns hps
    rw [← hWx, ← hW2, hft, post.tick, hfa, hfx, post.ex, hfsc, post.sc] at this
    simpa only [AI.act] using this
  refine ⟨?_, ?_, ?_, (e.ctx.trans hxc).trans hfc, ?_, ?_, ⟨e.ext.trans hxx, by rw [e.sc, hxsc, hfsc, post.sc]⟩, WOK.ofEff hxw e, ?_, hns⟩
  · rw [e.stage, hxs, hfs, post.stage]
    simp only [List.append_assoc]
    rfl
  · intro g hg hne
    rw [e.acts, List.getElem?_set_ne (Ne.symm hne)]
    exact post.frame g hg hne
  · rw [e.acts, List.length_set]
    exact post.grow
  · rw [e.tick, hxt, hft]; exact congrArg (· + 1) post.tick
  · rw [e.nu, hxn, hfn]; exact post.nu
  · simp only [withBlock, hrun, hout, rb]

/-- the part of `with <new action>:` after the action `h` has been created and started:
enter, body, exit, `finish`.  `A` = the action table before `h` was appended. -/
theorem run_action {env : Env} {σ : Nat → FV → Nat → FV} {ds : List Nat} (H : EnvOK env σ ds) {run : World → World × Outcome}
    {den : DS → Fields → R} (hb : Emits env σ ds run den) (W1 : World) (A : List Act) (i' : AI) (d1 : DS)
    (hw : WOK W1 ds) (hA : W1.acts = A ++ [i'.act 1 []]) (ht : W1.tick = d1.tick) (hn : W1.nextUuid = d1.nu)
    (hx : W1.extCalls = d1.ex) (hsc : W1.serCalls = d1.sc) (hwf : (den d1 []).wf = true)
    (hps : (den d1 []).out = .ok → presentOpt (i'.sers.map (·.2)) (den d1 []).s = true) :
    let W2 := (withBlock env W1 A.length run).1
    let rb := den d1 []
    W2.stage = W1.stage ++ (F.dicts env σ i'.uuid rb.f i'.level 2 ++
      [endDict env σ i'.uuid (i'.level ++ [rb.f.len + 2]) rb.ds.tick rb.ds.sc i'.atype i'.sers rb.s (extOut env rb.out rb.ds.ex).1 rb.out]) ∧
    (∀ h, h < A.length → W2.acts[h]? = A[h]?) ∧ A.length + 1 ≤ W2.acts.length ∧ W2.ctx = W1.ctx ∧
    W2.tick = rb.ds.tick + 1 ∧ W2.nextUuid = rb.ds.nu ∧
    (W2.extCalls = (extOut env rb.out rb.ds.ex).2 ∧ W2.serCalls = rb.ds.sc + endSer i'.sers rb.out) ∧ WOK W2 ds ∧
    (withBlock env W1 A.length run).2 = rb.out ∧ rb.out ≠ .stuck := by
  intro W2 rb
  obtain ⟨r1, r2, r3, r4, r5, r6, r7, r8, r9, r10⟩ :=
    run_handle H hb W1 A.length i' 1 [] d1 hw (by simp [hA]) ht hn hx hsc hwf hps
  have e1 : 1 + rb.f.len + 1 = rb.f.len + 2 := by omega
  have hlen : W1.acts.length = A.length + 1 := by simp [hA]
  refine ⟨?_, ?_, ?_, r4, r5, r6, r7, r8, r9, r10⟩
  · rw [r1]; simp only [rb, e1]
  · intro h hh
    rw [r2 h (by omega) (by omega), hA, List.getElem?_append_left hh]
  · rw [← hlen]; exact r3

/-- one message logged in the current action -/
theorem post_leaf {env : Env} {σ : Nat → FV → Nat → FV} {ds : List Nat} {w w' : World} {c : Nat} {i : AI} {n : Nat} {s : Fields} {d : DS}
    (pre : Pre ds w c i n s d) (ms : MSpec)
    (e : Eff w w' (w.acts.set c { i.act n s with last := (i.act n s).last + 1 }) 1 0 (nser ms.sers)
      [leafDict σ (i.act n s).uuid ((i.act n s).level ++ [(i.act n s).last + 1]) w.tick w.serCalls ms]) :
    Post env σ ds w w' c i n (leafR false d s ms) := by
  have hlt := lt_of_get pre.good
  refine ⟨?_, ?_, ?_, ?_, e.ctx, ?_, ?_, ?_, ?_, pre.wok.ofEff e⟩
  · rw [e.stage, pre.tick, pre.sc]; simp [leafR, F.dicts, T.dicts, AI.act]
  · rw [e.acts, List.getElem?_set_self hlt]; simp [leafR, F.len, AI.act]
  · intro h _ hne; rw [e.acts, List.getElem?_set_ne (Ne.symm hne)]
  · rw [e.acts, List.length_set]; exact Nat.le_refl _
  · rw [e.tick, pre.tick]; rfl
  · rw [e.nu, pre.nu]; rfl
  · rw [e.ext, pre.ex]; rfl
  · rw [e.sc, pre.sc]; rfl

theorem denS_with (env : Env) (cur : Option Exc) (inAct task : Bool) (sp : Spec) (body : Block) (d : DS) (s : Fields) :
    denS env cur inAct (.withAction task sp body) d s =
      withR env (task || !inAct) sp d s
        (denB env cur true body { tick := d.tick + 1, nu := if (task || !inAct) = true then d.nu + 1 else d.nu, ex := d.ex, sc := d.sc + nser (sp.sers.map (·.1)) } []) := by
  simp only [denS]

theorem denS_try (env : Env) (cur : Option Exc) (inAct : Bool) (body handler : Block) (d : DS) (s : Fields) :
    denS env cur inAct (.tryCatch body handler) d s =
      match (denB env cur inAct body d s).out with
      | .raised e =>
        { f := (denB env cur inAct body d s).f.append
            (denB env (some e) inAct handler (denB env cur inAct body d s).ds (denB env cur inAct body d s).s).f,
          out := (denB env (some e) inAct handler (denB env cur inAct body d s).ds (denB env cur inAct body d s).s).out,
          s := (denB env (some e) inAct handler (denB env cur inAct body d s).ds (denB env cur inAct body d s).s).s,
          ds := (denB env (some e) inAct handler (denB env cur inAct body d s).ds (denB env cur inAct body d s).s).ds,
          wf := (denB env cur inAct body d s).wf &&
            (denB env (some e) inAct handler (denB env cur inAct body d s).ds (denB env cur inAct body d s).s).wf }
      | _ => denB env cur inAct body d s := by
  simp only [denS]

theorem denB_cons (env : Env) (cur : Option Exc) (inAct : Bool) (st : Stmt) (rest : Block) (d : DS) (s : Fields)
    (hns : ∀ x task sp, st ≠ .startAs x task sp) :
    denB env cur inAct (.cons st rest) d s =
      match (denS env cur inAct st d s).out with
      | .ok =>
        { f := (denS env cur inAct st d s).f.append
            (denB env cur inAct rest (denS env cur inAct st d s).ds (denS env cur inAct st d s).s).f,
          out := (denB env cur inAct rest (denS env cur inAct st d s).ds (denS env cur inAct st d s).s).out,
          s := (denB env cur inAct rest (denS env cur inAct st d s).ds (denS env cur inAct st d s).s).s,
          ds := (denB env cur inAct rest (denS env cur inAct st d s).ds (denS env cur inAct st d s).s).ds,
          wf := (denS env cur inAct st d s).wf &&
            (denB env cur inAct rest (denS env cur inAct st d s).ds (denS env cur inAct st d s).s).wf }
      | _ => denS env cur inAct st d s := by
  cases st <;> first | exact absurd rfl (hns _ _ _) | simp only [denB]

theorem Stmt.start_or (st : Stmt) :
    (∃ x task sp, st = .startAs x task sp) ∨ (∀ x task sp, st ≠ .startAs x task sp) := by
  cases st <;> first | exact Or.inl ⟨_, _, _, rfl⟩ | exact Or.inr (fun _ _ _ h => by cases h)

theorem denB_start (env : Env) (cur : Option Exc) (inAct : Bool) (x : Nat) (task : Bool) (sp : Spec) (rest : Block) (d : DS) (s : Fields) :
    denB env cur inAct (.cons (.startAs x task sp) rest) d s =
      { denX env cur inAct x (task || !inAct) sp d s rest .nil []
          { tick := d.tick + 1, nu := if (task || !inAct) = true then d.nu + 1 else d.nu, ex := d.ex, sc := d.sc + nser (sp.sers.map (·.1)) } with
        wf := presentOpt (sp.sers.map (·.1)) sp.fields &&
          (denX env cur inAct x (task || !inAct) sp d s rest .nil []
            { tick := d.tick + 1, nu := if (task || !inAct) = true then d.nu + 1 else d.nu, ex := d.ex, sc := d.sc + nser (sp.sers.map (·.1)) }).wf } := by
  simp only [denB]

/-- result of `denX` on anything that is not the explicit spelling -/
def badR (d0 : DS) (s : Fields) : R := { f := .nil, out := .stuck, s := s, ds := d0, wf := false }

/-- a context segment: the body must end normally -/
def segR (d0 : DS) (s : Fields) (rb r : R) : R :=
  match rb.out with
  | .ok => { r with wf := rb.wf && r.wf }
  | _ => badR d0 s

theorem denX_ctx (env : Env) (cur : Option Exc) (inAct : Bool) (x : Nat) (sepr : Bool) (sp : Spec) (d0 : DS) (s : Fields)
    (body rest : Block) (kids : F) (sx : Fields) (d : DS) :
    denX env cur inAct x sepr sp d0 s (.cons (.inContext x body) rest) kids sx d =
      segR d0 s (denB env cur true body d sx)
        (denX env cur inAct x sepr sp d0 s rest (kids.append (denB env cur true body d sx).f) (denB env cur true body d sx).s
          (denB env cur true body d sx).ds) := by
  simp only [denX, if_true, segR, badR]

theorem denX_run (env : Env) (cur : Option Exc) (inAct : Bool) (x : Nat) (sepr : Bool) (sp : Spec) (d0 : DS) (s : Fields)
    (body rest : Block) (kids : F) (sx : Fields) (d : DS) :
    denX env cur inAct x sepr sp d0 s (.cons (.runIn x body) rest) kids sx d =
      segR d0 s (denB env cur true body d sx)
        (denX env cur inAct x sepr sp d0 s rest (kids.append (denB env cur true body d sx).f) (denB env cur true body d sx).s
          (denB env cur true body d sx).ds) := by
  simp only [denX, if_true, segR, badR]

theorem denX_finish (env : Env) (cur : Option Exc) (inAct : Bool) (x : Nat) (sepr : Bool) (sp : Spec) (d0 : DS) (s : Fields)
    (exc : Option Nat) (rest : Block) (kids : F) (sx : Fields) (d : DS) :
    denX env cur inAct x sepr sp d0 s (.cons (.finish x exc) rest) kids sx d =
      { f := (closeR env sepr sp d0 s kids sx (finRes exc) d).f.append
          (denB env cur inAct rest (closeR env sepr sp d0 s kids sx (finRes exc) d).ds (closeR env sepr sp d0 s kids sx (finRes exc) d).s).f,
        out := (denB env cur inAct rest (closeR env sepr sp d0 s kids sx (finRes exc) d).ds (closeR env sepr sp d0 s kids sx (finRes exc) d).s).out,
        s := (denB env cur inAct rest (closeR env sepr sp d0 s kids sx (finRes exc) d).ds (closeR env sepr sp d0 s kids sx (finRes exc) d).s).s,
        ds := (denB env cur inAct rest (closeR env sepr sp d0 s kids sx (finRes exc) d).ds (closeR env sepr sp d0 s kids sx (finRes exc) d).s).ds,
        wf := (closeR env sepr sp d0 s kids sx (finRes exc) d).wf &&
          (denB env cur inAct rest (closeR env sepr sp d0 s kids sx (finRes exc) d).ds (closeR env sepr sp d0 s kids sx (finRes exc) d).s).wf } := by
  simp only [denX, if_true]

theorem denX_logTo (env : Env) (cur : Option Exc) (inAct : Bool) (x : Nat) (sepr : Bool) (sp : Spec) (d0 : DS) (s : Fields)
    (ms : MSpec) (rest : Block) (kids : F) (sx : Fields) (d : DS) :
    denX env cur inAct x sepr sp d0 s (.cons (.logTo x ms) rest) kids sx d =
      { denX env cur inAct x sepr sp d0 s rest (kids.append (.own (.leaf d.tick d.sc ms) .nil)) sx
          { tick := d.tick + 1, nu := d.nu, ex := d.ex, sc := d.sc + nser ms.sers } with
        wf := presentOpt ms.sers ms.fields &&
          (denX env cur inAct x sepr sp d0 s rest (kids.append (.own (.leaf d.tick d.sc ms) .nil)) sx
            { tick := d.tick + 1, nu := d.nu, ex := d.ex, sc := d.sc + nser ms.sers }).wf } := by
  simp only [denX, if_true]

theorem denX_addSucc (env : Env) (cur : Option Exc) (inAct : Bool) (x : Nat) (sepr : Bool) (sp : Spec) (d0 : DS) (s : Fields)
    (fs : Fields) (rest : Block) (kids : F) (sx : Fields) (d : DS) :
    denX env cur inAct x sepr sp d0 s (.cons (.addSuccess (some x) fs) rest) kids sx d =
      denX env cur inAct x sepr sp d0 s rest kids (sx.update fs) d := by
  simp only [denX, if_true]

theorem denX_with (env : Env) (cur : Option Exc) (inAct : Bool) (x : Nat) (sepr : Bool) (sp : Spec) (d0 : DS) (s : Fields)
    (body rest : Block) (kids : F) (sx : Fields) (d : DS) :
    denX env cur inAct x sepr sp d0 s (.cons (.withHandle x body) rest) kids sx d =
      match (closeW env sepr sp d0 s kids (denB env cur true body d sx)).out with
      | .ok =>
        { f := (closeW env sepr sp d0 s kids (denB env cur true body d sx)).f.append
            (denB env cur inAct rest (closeW env sepr sp d0 s kids (denB env cur true body d sx)).ds
              (closeW env sepr sp d0 s kids (denB env cur true body d sx)).s).f,
          out := (denB env cur inAct rest (closeW env sepr sp d0 s kids (denB env cur true body d sx)).ds
              (closeW env sepr sp d0 s kids (denB env cur true body d sx)).s).out,
          s := (denB env cur inAct rest (closeW env sepr sp d0 s kids (denB env cur true body d sx)).ds
              (closeW env sepr sp d0 s kids (denB env cur true body d sx)).s).s,
          ds := (denB env cur inAct rest (closeW env sepr sp d0 s kids (denB env cur true body d sx)).ds
              (closeW env sepr sp d0 s kids (denB env cur true body d sx)).s).ds,
          wf := (closeW env sepr sp d0 s kids (denB env cur true body d sx)).wf &&
            (denB env cur inAct rest (closeW env sepr sp d0 s kids (denB env cur true body d sx)).ds
              (closeW env sepr sp d0 s kids (denB env cur true body d sx)).s).wf }
      | _ => closeW env sepr sp d0 s kids (denB env cur true body d sx) := by
  simp only [denX, if_true]

theorem Block.structured_cons (inH inAct : Bool) (st : Stmt) (rest : Block) (hns : ∀ x task sp, st ≠ .startAs x task sp) :
    (Block.cons st rest).structured inH inAct = (st.structured inH inAct && rest.structured inH inAct) := by
  cases st <;> first | exact absurd rfl (hns _ _ _) | simp only [Block.structured]

theorem Block.structured_start (inH inAct : Bool) (x : Nat) (task : Bool) (sp : Spec) (rest : Block) :
    (Block.cons (.startAs x task sp) rest).structured inH inAct = rest.structuredX inH inAct x := by
  simp only [Block.structured]

theorem execS_with_eq (env : Env) (cur : Option Exc) (w : World) (task : Bool) (sp : Spec) (body : Block) :
    execS env cur w (.withAction task sp body) =
      withBlock env (w.startAction env task sp).1 (w.startAction env task sp).2 (fun w' => execB env cur w' body) := by
  simp only [execS]

/-- `with start_action(..)/start_task(..): body` inside an action -/
theorem emits_with {env : Env} {σ : Nat → FV → Nat → FV} {ds : List Nat} (H : EnvOK env σ ds) (cur : Option Exc) (task : Bool)
    (sp : Spec) (body : Block) (hb : Emits env σ ds (fun w => execB env cur w body) (denB env cur true body)) :
    Emits env σ ds (fun w => execS env cur w (.withAction task sp body)) (denS env cur true (.withAction task sp body)) := by
  intro w c i n s d pre hwf
  have hlt := lt_of_get pre.good
  rw [denS_with] at hwf ⊢
  simp only [execS_with_eq, withR]
  simp only [withR] at hwf
  cases task with
  | false =>
    simp only [Bool.not_true, Bool.or_self, Bool.false_eq_true, if_false, Bool.and_eq_true] at hwf ⊢
    obtain ⟨⟨hp1, hwf2⟩, hps⟩ := hwf
    obtain ⟨hh, e⟩ := eff_start_child H w pre.wok c (i.act n s) pre.ctx pre.good sp hp1
    cases hst : w.startAction env false sp with
    | mk W1 h =>
    rw [hst] at hh e
    simp only at hh e
    subst hh
    have hAl : (w.acts.set c { i.act n s with last := (i.act n s).last + 1 }).length = w.acts.length := List.length_set
    have ra := run_action H hb W1 (w.acts.set c { i.act n s with last := (i.act n s).last + 1 })
      { uuid := i.uuid, level := i.level ++ [n + 1], atype := sp.atype, sers := sp.sers } { tick := d.tick + 1, nu := d.nu, ex := d.ex, sc := d.sc + nser (sp.sers.map (·.1)) }
      (pre.wok.ofEff e) e.acts (by rw [e.tick, pre.tick]) (by rw [e.nu, pre.nu]; rfl) (by rw [e.ext, pre.ex]) (by rw [e.sc, pre.sc]) hwf2
      (fun ho => by simpa [ho] using hps)
    rw [hAl] at ra
    obtain ⟨r1, r2, r3, r4, r5, r6, rx, r7, r8, r9⟩ := ra
    refine ⟨⟨?_, ?_, ?_, ?_, r4.trans e.ctx, r5, r6, rx.1, rx.2, r7⟩, r8, r9⟩
    · rw [r1, e.stage, pre.tick, pre.sc]
      simp [F.dicts, T.dicts, AI.act, List.append_assoc]
    · rw [r2 c hlt, List.getElem?_set_self hlt]
      simp [F.len, AI.act]
    · intro h hh hne
      rw [r2 h hh, List.getElem?_set_ne (Ne.symm hne)]
    · exact Nat.le_of_succ_le r3
  | true =>
    simp only [Bool.true_or, if_true, Bool.and_eq_true] at hwf ⊢
    obtain ⟨⟨hp1, hwf2⟩, hps⟩ := hwf
    obtain ⟨hh, e⟩ := eff_start_fresh H w pre.wok true (Or.inl rfl) sp hp1
    cases hst : w.startAction env true sp with
    | mk W1 h =>
    rw [hst] at hh e
    simp only at hh e
    subst hh
    have ra := run_action H hb W1 w.acts
      { uuid := w.nextUuid, level := [], atype := sp.atype, sers := sp.sers } { tick := d.tick + 1, nu := d.nu + 1, ex := d.ex, sc := d.sc + nser (sp.sers.map (·.1)) }
      (pre.wok.ofEff e) e.acts (by rw [e.tick, pre.tick]) (by rw [e.nu, pre.nu]) (by rw [e.ext, pre.ex]) (by rw [e.sc, pre.sc]) hwf2
      (fun ho => by simpa [ho] using hps)
    obtain ⟨r1, r2, r3, r4, r5, r6, rx, r7, r8, r9⟩ := ra
    refine ⟨⟨?_, ?_, ?_, ?_, r4.trans e.ctx, r5, r6, rx.1, rx.2, r7⟩, r8, r9⟩
    · rw [r1, e.stage, pre.tick, pre.nu, pre.sc]
      simp [F.dicts, T.dicts, T.rootLevel, List.append_assoc]
    · rw [r2 c hlt]
      simpa [F.len] using pre.good
    · intro h hh _
      rw [r2 h hh]
    · exact Nat.le_of_succ_le r3

/-- sequencing: `first` ran to a normal end, then `second` -/
theorem emits_seq {env : Env} {σ : Nat → FV → Nat → FV} {ds : List Nat} {w w1 : World} {c : Nat} {i : AI} {n : Nat} {r1 : R}
    {run2 : World → World × Outcome} {den2 : DS → Fields → R} (hc : w.ctx = some c)
    (p1 : Post env σ ds w w1 c i n r1) (h2 : Emits env σ ds run2 den2) (b : Bool) (hwf2 : (den2 r1.ds r1.s).wf = true) :
    Post env σ ds w (run2 w1).1 c i n
      { f := r1.f.append (den2 r1.ds r1.s).f, out := (den2 r1.ds r1.s).out, s := (den2 r1.ds r1.s).s,
        ds := (den2 r1.ds r1.s).ds, wf := b } ∧
    (run2 w1).2 = (den2 r1.ds r1.s).out ∧ (den2 r1.ds r1.s).out ≠ .stuck := by
  obtain ⟨p2, o2, n2⟩ := h2 w1 c i (n + r1.f.len) r1.s r1.ds (p1.pre hc) hwf2
  exact ⟨Post.trans' p1 p2 b, o2, n2⟩

/-! ## The explicit spelling of an action: `x = start_action(..)`, context segments, `x.finish(..)` -/

/-- identity of the action `x = start_action(sp)` / `start_task(sp)` started at counters `d0` as the
`(n+1)`-th item of the action with identity `i`, or (`sepr`) as a tree of its own -/
def AI.sub (i : AI) (n : Nat) (sepr : Bool) (sp : Spec) (d0 : DS) : AI :=
  if sepr then { uuid := d0.nu, level := [], atype := sp.atype, sers := sp.sers }
  else { uuid := i.uuid, level := i.level ++ [n + 1], atype := sp.atype, sers := sp.sers }

theorem AI.sub_atype (i : AI) (n : Nat) (sepr : Bool) (sp : Spec) (d0 : DS) : (i.sub n sepr sp d0).atype = sp.atype := by
  cases sepr <;> rfl

theorem AI.sub_sers (i : AI) (n : Nat) (sepr : Bool) (sp : Spec) (d0 : DS) : (i.sub n sepr sp d0).sers = sp.sers := by
  cases sepr <;> rfl

/-- the dicts of the node, as an item of the enclosing action or as a tree of its own -/
theorem dicts_sub (env : Env) (σ : Nat → FV → Nat → FV) (i : AI) (n : Nat) (sepr : Bool) (sp : Spec) (d0 : DS) (t : T)
    (ht : t.rootLevel = []) :
    F.dicts env σ i.uuid (if sepr = true then F.sep d0.nu t .nil else F.own t .nil) i.level (n + 1) =
      T.dicts env σ (i.sub n sepr sp d0).uuid t (i.sub n sepr sp d0).level := by
  cases sepr <;> simp [AI.sub, F.dicts, ht]

/-- in the middle of an explicitly spelled action: relative to the world `w0` before
`x = start_action(sp)` (counters `d0`; `c` current, `n` positions handed out), the world `w` has staged
the start message and the dicts of `kids`, the new action `h` — bound to `x` — is open with
`1 + kids.len` positions handed out and success fields `sx`, `c` is current again -/
structure PreX (env : Env) (σ : Nat → FV → Nat → FV) (ds : List Nat) (w0 w : World) (c : Nat) (i : AI) (n : Nat) (s : Fields)
    (x h : Nat) (sepr : Bool) (sp : Spec) (d0 : DS) (kids : F) (sx : Fields) (d : DS) : Prop where
  wok : WOK w ds
  stage : w.stage = w0.stage ++ startDict σ (i.sub n sepr sp d0).uuid ((i.sub n sepr sp d0).level ++ [1]) d0.tick d0.sc sp ::
    F.dicts env σ (i.sub n sepr sp d0).uuid kids (i.sub n sepr sp d0).level 2
  outer : w.acts[c]? = some (i.act (if sepr = true then n else n + 1) s)
  inner : w.acts[h]? = some ((i.sub n sepr sp d0).act (1 + kids.len) sx)
  new : w0.acts.length ≤ h
  old : c < w0.acts.length
  frame : ∀ g, g < w0.acts.length → g ≠ c → w.acts[g]? = w0.acts[g]?
  ctx : w.ctx = some c
  ctx0 : w0.ctx = some c
  var : lookupNat w.vars x = some h
  tick : w.tick = d.tick
  nu : w.nextUuid = d.nu
  ex : w.extCalls = d.ex
  sc : w.serCalls = d.sc

theorem outcomeExc_finRes (exc : Option Nat) : outcomeExc (finRes exc) = exc.map Exc.user := by
  cases exc <;> rfl

/-- `x.finish(exc)`: the node is complete -/
theorem postX_finish {env : Env} {σ : Nat → FV → Nat → FV} {ds : List Nat} (H : EnvOK env σ ds) {w0 w : World} {c : Nat} {i : AI}
    {n : Nat} {s : Fields} {x h : Nat} {sepr : Bool} {sp : Spec} {d0 : DS} {kids : F} {sx : Fields} {d : DS}
    (px : PreX env σ ds w0 w c i n s x h sepr sp d0 kids sx d) (exc : Option Nat)
    (hp : (closeR env sepr sp d0 s kids sx (finRes exc) d).wf = true) :
    Post env σ ds w0 (w.finishRec env h (exc.map Exc.user)) c i n (closeR env sepr sp d0 s kids sx (finRes exc) d) := by
  have hlt := lt_of_get px.inner
  have hne : h ≠ c := by have := px.new; have := px.old; omega
  have hres : finRes exc ≠ .stuck := by cases exc <;> simp [finRes]
  have e := eff_finish H w px.wok h _ px.inner rfl (finRes exc) hres (by
    intro ho
    simp only [closeR, ho] at hp
    simpa [AI.act, AI.sub_sers] using hp)
  rw [outcomeExc_finRes] at e
  obtain ⟨wF, hwF⟩ : ∃ wF : World, wF = w.finishRec env h (exc.map Exc.user) := ⟨_, rfl⟩
  rw [← hwF] at e ⊢
  have hst : wF.stage = w.stage ++ _ := e.stage
  have hct : wF.ctx = w.ctx := e.ctx
  have htk : wF.tick = w.tick + 1 := e.tick
  have hnu : wF.nextUuid = w.nextUuid + 0 := e.nu
  have hds : wF.dests = w.dests := e.dests
  have hgl : wF.globals = w.globals := e.globals
  have hsc : wF.serCalls = w.serCalls + endSer (i.sub n sepr sp d0).sers (finRes exc) := e.sc
  refine ⟨?_, ?_, ?_, ?_, hct.trans (px.ctx.trans px.ctx0.symm), ?_, ?_, ?_, ?_, ⟨by rw [hds]; exact px.wok.dests, by rw [hgl]; exact px.wok.globals⟩⟩
  · rw [hst, px.stage]
    simp only [closeR]
    rw [dicts_sub env σ i n sepr sp d0 _ rfl]
    have e1 : 1 + kids.len + 1 = kids.len + 2 := by omega
    simp only [T.dicts, AI.act, AI.sub_atype, AI.sub_sers, e1, px.tick, px.ex, px.sc, List.append_assoc, List.cons_append]
  · rw [e.acts, List.getElem?_set_ne hne, px.outer]
    cases sepr <;> simp [closeR, F.len]
  · intro g hg hgc
    rw [e.acts, List.getElem?_set_ne (by have := px.new; omega)]
    exact px.frame g hg hgc
  · rw [e.acts, List.length_set]
    have := px.new; omega
  · rw [htk, px.tick]; rfl
  · rw [hnu, px.nu]; rfl
  · rw [e.ext]; simp only [closeR, px.ex]
  · rw [hsc, px.sc, AI.sub_sers]; rfl

/-- a context segment (`with x.context(): body` / `x.run(lambda: body)`) whose body ends normally -/
theorem preX_segment {env : Env} {σ : Nat → FV → Nat → FV} {ds : List Nat} {run : World → World × Outcome}
    {den : DS → Fields → R} (hb : Emits env σ ds run den) {w0 w : World} {c : Nat} {i : AI}
    {n : Nat} {s : Fields} {x h : Nat} {sepr : Bool} {sp : Spec} {d0 : DS} {kids : F} {sx : Fields} {d : DS}
    (px : PreX env σ ds w0 w c i n s x h sepr sp d0 kids sx d) (hwf : (den d sx).wf = true) (hok : (den d sx).out = .ok)
    (hv : ∀ w', lookupNat (run w').1.vars x = lookupNat w'.vars x) :
    (scopedBlock w h run).2 = .ok ∧
    PreX env σ ds w0 (scopedBlock w h run).1 c i n s x h sepr sp d0 (kids.append (den d sx).f) (den d sx).s (den d sx).ds := by
  have hne : h ≠ c := by have := px.new; have := px.old; omega
  have pre : Pre ds ({ w with ctx := some h } : World) h (i.sub n sepr sp d0) (1 + kids.len) sx d :=
    ⟨⟨px.wok.dests, px.wok.globals⟩, px.inner, rfl, px.tick, px.nu, px.ex, px.sc⟩
  obtain ⟨post, hout, _⟩ := hb _ _ _ _ _ _ pre hwf
  have hv' := hv ({ w with ctx := some h } : World)
  cases hrun : run ({ w with ctx := some h } : World) with
  | mk Wb ob =>
  rw [hrun] at post hout hv'
  simp only at post hout hv'
  have hclt : c < w.acts.length := lt_of_get px.outer
  refine ⟨by simp only [scopedBlock, hrun, hout, hok], ?_⟩
  simp only [scopedBlock, hrun]
  refine ⟨⟨post.wok.dests, post.wok.globals⟩, ?_, ?_, ?_, px.new, px.old, ?_, px.ctx, px.ctx0, hv'.trans px.var, post.tick, post.nu, post.ex, post.sc⟩
  · have e : 1 + kids.len + 1 = 2 + kids.len := by omega
    show Wb.stage = _
    rw [post.stage]
    show w.stage ++ _ = _
    rw [px.stage, F.dicts_append, e]
    simp only [List.append_assoc, List.cons_append]
  · show Wb.acts[c]? = _
    rw [post.frame c hclt (Ne.symm hne)]
    exact px.outer
  · show Wb.acts[h]? = _
    rw [post.good, F.len_append, Nat.add_assoc]
  · intro g hg hgc
    show Wb.acts[g]? = _
    rw [post.frame g (by have := px.new; have := lt_of_get px.inner; show g < w.acts.length; omega) (by have := px.new; omega)]
    exact px.frame g hg hgc

/-- `x.log(..)` while `x` is open: its next item -/
theorem preX_logTo {env : Env} {σ : Nat → FV → Nat → FV} {ds : List Nat} (H : EnvOK env σ ds) {w0 w : World} {c : Nat} {i : AI}
    {n : Nat} {s : Fields} {x h : Nat} {sepr : Bool} {sp : Spec} {d0 : DS} {kids : F} {sx : Fields} {d : DS}
    (px : PreX env σ ds w0 w c i n s x h sepr sp d0 kids sx d) (ms : MSpec) (hp : presentOpt ms.sers ms.fields = true) :
    PreX env σ ds w0 (w.logTo env h ms) c i n s x h sepr sp d0 (kids.append (.own (.leaf d.tick d.sc ms) .nil)) sx
      { tick := d.tick + 1, nu := d.nu, ex := d.ex, sc := d.sc + nser ms.sers } := by
  have hlt := lt_of_get px.inner
  have hne : h ≠ c := by have := px.new; have := px.old; omega
  have e := eff_logTo H w px.wok h _ px.inner ms hp
  refine ⟨px.wok.ofEff e, ?_, ?_, ?_, px.new, px.old, ?_, e.ctx.trans px.ctx, px.ctx0, ?_, ?_, ?_, ?_, ?_⟩
  · have e1 : 1 + kids.len + 1 = 2 + kids.len := by omega
    rw [e.stage, px.stage, F.dicts_append]
    simp [F.dicts, T.dicts, AI.act, e1, px.tick, px.sc]
  · rw [e.acts, List.getElem?_set_ne hne]; exact px.outer
  · rw [e.acts, List.getElem?_set_self hlt, F.len_append]
    simp [AI.act, F.len, Nat.add_assoc]
  · intro g hg hgc
    rw [e.acts, List.getElem?_set_ne (by have := px.new; omega)]
    exact px.frame g hg hgc
  · rw [e.vars]; exact px.var
  · rw [e.tick, px.tick]
  · rw [e.nu, px.nu]; rfl
  · rw [e.ext, px.ex]
  · rw [e.sc, px.sc]

/-- `x.add_success_fields(..)` while `x` is open -/
theorem preX_addSucc {env : Env} {σ : Nat → FV → Nat → FV} {ds : List Nat} {w0 w : World} {c : Nat} {i : AI}
    {n : Nat} {s : Fields} {x h : Nat} {sepr : Bool} {sp : Spec} {d0 : DS} {kids : F} {sx : Fields} {d : DS}
    (px : PreX env σ ds w0 w c i n s x h sepr sp d0 kids sx d) (fs : Fields) :
    PreX env σ ds w0 { w with acts := w.acts.set h { (i.sub n sepr sp d0).act (1 + kids.len) sx with
        succ := ((i.sub n sepr sp d0).act (1 + kids.len) sx).succ.update fs } } c i n s x h sepr sp d0 kids (sx.update fs) d := by
  have hlt := lt_of_get px.inner
  have hne : h ≠ c := by have := px.new; have := px.old; omega
  refine ⟨⟨px.wok.dests, px.wok.globals⟩, px.stage, ?_, ?_, px.new, px.old, ?_, px.ctx, px.ctx0, px.var, px.tick, px.nu, px.ex, px.sc⟩
  · show (w.acts.set h _)[c]? = _
    rw [List.getElem?_set_ne hne]; exact px.outer
  · show (w.acts.set h _)[h]? = _
    rw [List.getElem?_set_self hlt]; rfl
  · intro g hg hgc
    show (w.acts.set h _)[g]? = _
    rw [List.getElem?_set_ne (by have := px.new; omega)]
    exact px.frame g hg hgc

/-- `with x: body` while `x` is open: the body's items follow, the node is closed with the body's outcome -/
theorem postX_with {env : Env} {σ : Nat → FV → Nat → FV} {ds : List Nat} (H : EnvOK env σ ds) {run : World → World × Outcome}
    {den : DS → Fields → R} (hb : Emits env σ ds run den) {w0 w : World} {c : Nat} {i : AI}
    {n : Nat} {s : Fields} {x h : Nat} {sepr : Bool} {sp : Spec} {d0 : DS} {kids : F} {sx : Fields} {d : DS}
    (px : PreX env σ ds w0 w c i n s x h sepr sp d0 kids sx d)
    (hwf : (closeW env sepr sp d0 s kids (den d sx)).wf = true) :
    Post env σ ds w0 (withBlock env w h run).1 c i n (closeW env sepr sp d0 s kids (den d sx)) ∧
      (withBlock env w h run).2 = (den d sx).out ∧ (den d sx).out ≠ .stuck := by
  have hlt := lt_of_get px.inner
  have hclt := lt_of_get px.outer
  have hne : h ≠ c := by have := px.new; have := px.old; omega
  simp only [closeW, Bool.and_eq_true] at hwf
  obtain ⟨r1, r2, r3, r4, r5, r6, r7, r8, r9, r10⟩ := run_handle H hb w h (i.sub n sepr sp d0) (1 + kids.len) sx d px.wok px.inner
    px.tick px.nu px.ex px.sc hwf.1 (fun ho => by
      have := hwf.2
      simp only [closeR, ho] at this
      simpa [AI.sub_sers] using this)
  refine ⟨⟨?_, ?_, ?_, ?_, r4.trans (px.ctx.trans px.ctx0.symm), ?_, r6, ?_, ?_, r8⟩, r9, r10⟩
  · rw [r1, px.stage]
    simp only [closeW, closeR]
    rw [dicts_sub env σ i n sepr sp d0 _ rfl]
    have e1 : 1 + kids.len + 1 = 2 + kids.len := by omega
    have e2 : 1 + kids.len + (den d sx).f.len + 1 = kids.len + (den d sx).f.len + 2 := by omega
    simp only [T.dicts, F.dicts_append, F.len_append, AI.sub_atype, AI.sub_sers, e1, e2, List.append_assoc, List.cons_append]
  · rw [r2 c hclt (Ne.symm hne), px.outer]
    cases sepr <;> simp [closeW, closeR, F.len]
  · intro g hg hgc
    rw [r2 g (by have := px.new; omega) (by have := px.new; omega)]
    exact px.frame g hg hgc
  · have := px.new; omega
  · rw [r5]; rfl
  · rw [r7.1]; rfl
  · rw [r7.2, AI.sub_sers]; rfl

/-- after `x = start_action(sp)` / `start_task(sp)` inside action `c` -/
theorem preX_start {env : Env} {σ : Nat → FV → Nat → FV} {ds : List Nat} (H : EnvOK env σ ds) (cur : Option Exc) {w : World} {c : Nat}
    {i : AI} {n : Nat} {s : Fields} {d : DS} (pre : Pre ds w c i n s d) (x : Nat) (task : Bool) (sp : Spec)
    (hp : presentOpt (sp.sers.map (·.1)) sp.fields = true) :
    (execS env cur w (.startAs x task sp)).2 = .ok ∧
    PreX env σ ds w (execS env cur w (.startAs x task sp)).1 c i n s x w.acts.length task sp d .nil []
      { tick := d.tick + 1, nu := if task = true then d.nu + 1 else d.nu, ex := d.ex, sc := d.sc + nser (sp.sers.map (·.1)) } := by
  have hlt := lt_of_get pre.good
  refine ⟨by simp only [execS], ?_⟩
  simp only [execS]
  cases task with
  | false =>
    obtain ⟨hh, e⟩ := eff_start_child H w pre.wok c (i.act n s) pre.ctx pre.good sp hp
    cases hst : w.startAction env false sp with
    | mk W1 h =>
    rw [hst] at hh e
    simp only at hh e
    subst hh
    refine ⟨⟨fun d hd => (pre.wok.ofEff e).dests d hd, (pre.wok.ofEff e).globals⟩, ?_, ?_, ?_, Nat.le_refl _, hlt, ?_,
      e.ctx.trans pre.ctx, pre.ctx, lookupNat_setNat_self _ _ _, ?_, ?_, ?_, ?_⟩
    · show W1.stage = _
      rw [e.stage, pre.tick, pre.sc]
      simp [AI.sub, F.dicts, AI.act]
    · show W1.acts[c]? = _
      rw [e.acts, List.getElem?_append_left (by rw [List.length_set]; exact hlt), List.getElem?_set_self hlt]
      simp [AI.act]
    · show W1.acts[w.acts.length]? = _
      rw [e.acts]
      have : w.acts.length = (w.acts.set c { i.act n s with last := (i.act n s).last + 1 }).length := by simp
      rw [this, List.getElem?_concat_length]
      simp [AI.sub, AI.act, F.len]
    · intro g hg hgc
      show W1.acts[g]? = _
      rw [e.acts, List.getElem?_append_left (by rw [List.length_set]; exact hg), List.getElem?_set_ne (Ne.symm hgc)]
    · show W1.tick = _
      rw [e.tick, pre.tick]
    · show W1.nextUuid = _
      rw [e.nu, pre.nu]; rfl
    · show W1.extCalls = _
      rw [e.ext, pre.ex]
    · show W1.serCalls = _
      rw [e.sc, pre.sc]
  | true =>
    obtain ⟨hh, e⟩ := eff_start_fresh H w pre.wok true (Or.inl rfl) sp hp
    cases hst : w.startAction env true sp with
    | mk W1 h =>
    rw [hst] at hh e
    simp only at hh e
    subst hh
    refine ⟨⟨fun d hd => (pre.wok.ofEff e).dests d hd, (pre.wok.ofEff e).globals⟩, ?_, ?_, ?_, Nat.le_refl _, hlt, ?_,
      e.ctx.trans pre.ctx, pre.ctx, lookupNat_setNat_self _ _ _, ?_, ?_, ?_, ?_⟩
    · show W1.stage = _
      rw [e.stage, pre.tick, pre.nu, pre.sc]
      simp [AI.sub, F.dicts]
    · show W1.acts[c]? = _
      rw [e.acts, List.getElem?_append_left hlt]
      simpa using pre.good
    · show W1.acts[w.acts.length]? = _
      rw [e.acts, List.getElem?_concat_length, pre.nu]
      simp [AI.sub, AI.act, F.len]
    · intro g hg _
      show W1.acts[g]? = _
      rw [e.acts, List.getElem?_append_left hg]
    · show W1.tick = _
      rw [e.tick, pre.tick]
    · show W1.nextUuid = _
      rw [e.nu, pre.nu]; rfl
    · show W1.extCalls = _
      rw [e.ext, pre.ex]
    · show W1.serCalls = _
      rw [e.sc, pre.sc]

/-- what the induction establishes for the rest of a block after `x = start_action(sp)` -/
def EmitsX (env : Env) (σ : Nat → FV → Nat → FV) (ds : List Nat) (cur : Option Exc) (x : Nat) (b : Block) : Prop :=
  ∀ (w0 w : World) (c : Nat) (i : AI) (n : Nat) (s : Fields) (h : Nat) (sepr : Bool) (sp : Spec) (d0 : DS) (kids : F) (sx : Fields)
    (d : DS), PreX env σ ds w0 w c i n s x h sepr sp d0 kids sx d →
    (denX env cur true x sepr sp d0 s b kids sx d).wf = true →
    Post env σ ds w0 (execB env cur w b).1 c i n (denX env cur true x sepr sp d0 s b kids sx d) ∧
      (execB env cur w b).2 = (denX env cur true x sepr sp d0 s b kids sx d).out ∧
      (denX env cur true x sepr sp d0 s b kids sx d).out ≠ .stuck

/-- one context segment, then the rest -/
theorem emitsX_segment {env : Env} {σ : Nat → FV → Nat → FV} {ds : List Nat} (cur : Option Exc) (x : Nat) (body rest : Block)
    (hb : Emits env σ ds (fun w => execB env cur w body) (denB env cur true body)) (hnb : body.binds x = false)
    (hr : EmitsX env σ ds cur x rest)
    (st : Stmt) (hst : ∀ w h, lookupNat w.vars x = some h → execS env cur w st = scopedBlock w h (fun w' => execB env cur w' body))
    (hden : ∀ sepr sp d0 s kids sx d, denX env cur true x sepr sp d0 s (.cons st rest) kids sx d =
      segR d0 s (denB env cur true body d sx)
        (denX env cur true x sepr sp d0 s rest (kids.append (denB env cur true body d sx).f) (denB env cur true body d sx).s
          (denB env cur true body d sx).ds)) :
    EmitsX env σ ds cur x (.cons st rest) := by
  intro w0 w c i n s h sepr sp d0 kids sx d px hwf
  rw [hden] at hwf ⊢
  simp only [segR] at hwf ⊢
  cases ho : (denB env cur true body d sx).out with
  | stuck => simp [ho, badR] at hwf
  | raised e => simp [ho, badR] at hwf
  | ok =>
    simp only [ho, Bool.and_eq_true] at hwf ⊢
    obtain ⟨ok1, px1⟩ := preX_segment hb px hwf.1 ho (fun w' => execB_vars env cur x body hnb w')
    simp only [execB, hst w h px.var]
    cases hsc : scopedBlock w h (fun w' => execB env cur w' body) with
    | mk w1 o1 =>
    rw [hsc] at ok1 px1
    simp only at ok1 px1
    subst ok1
    simp only
    obtain ⟨p, o, nn⟩ := hr _ _ _ _ _ _ _ _ _ _ _ _ _ px1 hwf.2
    exact ⟨⟨p.stage, p.good, p.frame, p.grow, p.ctx, p.tick, p.nu, p.ex, p.sc, p.wok⟩, o, nn⟩

mutual
/-- **Emission lemma**, statements. -/
theorem execS_emits {env : Env} {σ : Nat → FV → Nat → FV} {ds : List Nat} (H : EnvOK env σ ds) (cur : Option Exc) (inH : Bool)
    (hcur : inH = true → cur.isSome = true) (st : Stmt) (hs : st.structured inH true = true) :
    Emits env σ ds (fun w => execS env cur w st) (denS env cur true st) := by
  cases st with
  | withAction task sp body =>
    exact emits_with H cur task sp body (execB_emits H cur inH hcur body (by simpa [Stmt.structured] using hs))
  | log ms =>
    intro w c i n s d pre hwf
    have hd : denS env cur true (.log ms) d s = leafR false d s ms := by simp only [denS]; rfl
    rw [hd] at hwf ⊢
    have e := eff_log_in H w pre.wok c (i.act n s) pre.ctx pre.good ms (by simpa [leafR] using hwf)
    exact ⟨by simpa only [execS] using post_leaf pre ms e, by simp [execS, leafR], by simp [leafR]⟩
  | raise k =>
    intro w c i n s d pre _
    have hd : denS env cur true (.raise k) d s = { f := .nil, out := .raised (.user k), s := s, ds := d, wf := true } := by
      simp only [denS]
    rw [hd]
    exact ⟨by simpa only [execS] using Post.same pre rfl rfl rfl rfl rfl rfl rfl rfl rfl _ _, by simp [execS], by simp⟩
  | tryCatch body handler =>
    intro w c i n s d pre hwf
    simp only [Stmt.structured, Bool.and_eq_true] at hs
    obtain ⟨p1, o1, n1⟩ := execB_emits H cur inH hcur body hs.1 w c i n s d pre (by
      rw [denS_try] at hwf
      cases ho : (denB env cur true body d s).out <;> simp only [ho, Bool.and_eq_true] at hwf
      · exact hwf
      · exact hwf.1
      · exact hwf)
    rw [denS_try] at hwf ⊢
    simp only [execS]
    cases hb : execB env cur w body with
    | mk w1 ob =>
    dsimp only at p1 o1
    rw [hb] at p1 o1
    dsimp only at p1 o1
    cases ho : (denB env cur true body d s).out with
    | ok =>
      rw [ho] at o1; subst o1
      simp only [ho]
      refine ⟨p1, ?_, ?_⟩ <;> simp
    | stuck => exact absurd ho n1
    | raised e =>
      rw [ho] at o1; subst o1
      simp only [ho, Bool.and_eq_true] at hwf ⊢
      exact emits_seq pre.ctx p1 (execB_emits H (some e) true (fun _ => rfl) handler hs.2) _ hwf.2
  | writeTraceback =>
    intro w c i n s d pre hwf
    simp only [Stmt.structured] at hs
    cases cur with
    | none => simp at hcur; exact absurd hs (by simp [hcur])
    | some e =>
      have hd : denS env (some e) true .writeTraceback d s = tbR env false d s e := by simp only [denS]; rfl
      rw [hd]
      simp only [execS, writeTraceback_eq H, pre.ex, tbR]
      have pre' : Pre ds ({ w with extCalls := (extOf env e d.ex).2 } : World) c i n s { d with ex := (extOf env e d.ex).2 } :=
        ⟨⟨pre.wok.dests, pre.wok.globals⟩, pre.good, pre.ctx, pre.tick, pre.nu, rfl, pre.sc⟩
      have ee := eff_log_in H _ pre'.wok c (i.act n s) pre'.ctx pre'.good (tbSpec env e (extOf env e d.ex).1) rfl
      exact ⟨(post_leaf pre' _ ee).ofExt, by simp [leafR], by simp [leafR]⟩
  | addSuccess x fs =>
    cases x with
    | some x => simp [Stmt.structured] at hs
    | none =>
      intro w c i n s d pre _
      have hlt := lt_of_get pre.good
      have hd : denS env cur true (.addSuccess none fs) d s = { f := .nil, out := .ok, s := s.update fs, ds := d, wf := true } := by
        simp only [denS]
      rw [hd]
      simp only [execS, pre.ctx, pre.good]
      refine ⟨⟨by simp [F.dicts], ?_, ?_, by simp, pre.ctx.symm, pre.tick, pre.nu, pre.ex, pre.sc, ⟨pre.wok.dests, pre.wok.globals⟩⟩, by simp, by simp⟩
      · simp [List.getElem?_set_self hlt, F.len, AI.act]
      · intro h _ hne
        simp [List.getElem?_set_ne (Ne.symm hne)]
  | probe k =>
    intro w c i n s d pre _
    have hd : denS env cur true (.probe k) d s = { f := .nil, out := .ok, s := s, ds := d, wf := true } := by
      simp only [denS]
    rw [hd]
    simp only [execS]
    refine ⟨?_, by simp, by simp⟩
    refine Post.same pre ?_ ?_ ?_ ?_ ?_ ?_ ?_ ?_ ?_ _ _ <;> rfl
  | startAs x task sp => simp [Stmt.structured] at hs
  | withHandle x body => simp [Stmt.structured] at hs
  | inContext x body => simp [Stmt.structured] at hs
  | runIn x body => simp [Stmt.structured] at hs
  | finish x exc => simp [Stmt.structured] at hs
  | logTo x ms => simp [Stmt.structured] at hs
  | serializeAs y x => simp [Stmt.structured] at hs
  | continueWith y sp body => simp [Stmt.structured] at hs
  | addDests l => simp [Stmt.structured] at hs
  | removeDest x => simp [Stmt.structured] at hs
  | addGlobals fs => simp [Stmt.structured] at hs
/-- **Emission lemma**, blocks: a structured block run inside action `c` (uuid `i.uuid`, level
`i.level`, `n` positions handed out, unfinished) stages exactly `F.dicts … (n+1)` of its
denotation, advances the action's counter by the number of direct items, leaves every other
existing action alone, restores the context, and ends with the denotation's outcome. -/
theorem execB_emits {env : Env} {σ : Nat → FV → Nat → FV} {ds : List Nat} (H : EnvOK env σ ds) (cur : Option Exc) (inH : Bool)
    (hcur : inH = true → cur.isSome = true) (b : Block) (hs : b.structured inH true = true) :
    Emits env σ ds (fun w => execB env cur w b) (denB env cur true b) := by
  cases b with
  | nil =>
    intro w c i n s d pre _
    have hd : denB env cur true .nil d s = { f := .nil, out := .ok, s := s, ds := d, wf := true } := by simp only [denB]
    rw [hd]
    exact ⟨by simpa only [execB] using Post.same pre rfl rfl rfl rfl rfl rfl rfl rfl rfl _ _, by simp [execB], by simp⟩
  | cons st rest =>
    intro w c i n s d pre hwf
    rcases Stmt.start_or st with ⟨x, task, sp, rfl⟩ | hns
    · -- the explicit spelling: `x = start_action(sp)`, then `execX_emits` on the rest
      rw [Block.structured_start] at hs
      rw [denB_start] at hwf ⊢
      simp only [Bool.not_true, Bool.or_false, Bool.and_eq_true] at hwf ⊢
      obtain ⟨ok1, px⟩ := preX_start H cur pre x task sp hwf.1
      simp only [execB]
      cases hst : execS env cur w (.startAs x task sp) with
      | mk w1 o1 =>
      rw [hst] at ok1 px
      simp only at ok1 px
      subst ok1
      simp only
      obtain ⟨p, o, nn⟩ := execX_emits H cur inH hcur x rest hs w w1 c i n s _ _ _ _ _ _ _ px hwf.2
      exact ⟨⟨p.stage, p.good, p.frame, p.grow, p.ctx, p.tick, p.nu, p.ex, p.sc, p.wok⟩, o, nn⟩
    · rw [Block.structured_cons _ _ _ _ hns] at hs
      simp only [Bool.and_eq_true] at hs
      obtain ⟨p1, o1, n1⟩ := execS_emits H cur inH hcur st hs.1 w c i n s d pre (by
        rw [denB_cons _ _ _ _ _ _ _ hns] at hwf
        cases ho : (denS env cur true st d s).out <;> simp only [ho, Bool.and_eq_true] at hwf
        · exact hwf.1
        · exact hwf
        · exact hwf)
      rw [denB_cons _ _ _ _ _ _ _ hns] at hwf ⊢
      simp only [execB]
      cases hb : execS env cur w st with
      | mk w1 ob =>
      dsimp only at p1 o1
      rw [hb] at p1 o1
      dsimp only at p1 o1
      cases ho : (denS env cur true st d s).out with
      | ok =>
        rw [ho] at o1; subst o1
        simp only [ho, Bool.and_eq_true] at hwf ⊢
        exact emits_seq pre.ctx p1 (execB_emits H cur inH hcur rest hs.2) _ hwf.2
      | stuck => exact absurd ho n1
      | raised e =>
        rw [ho] at o1; subst o1
        simp only [ho]
        refine ⟨p1, ?_, ?_⟩ <;> simp
/-- **Emission lemma**, the explicit spelling: the rest of a block after `x = start_action(sp)`, run
while `x` is open and the enclosing action `c` is current, completes the node of `x` — same dicts as
the `with` block's — and goes on as a structured block. -/
theorem execX_emits {env : Env} {σ : Nat → FV → Nat → FV} {ds : List Nat} (H : EnvOK env σ ds) (cur : Option Exc) (inH : Bool)
    (hcur : inH = true → cur.isSome = true) (x : Nat) (b : Block) (hs : b.structuredX inH true x = true) :
    EmitsX env σ ds cur x b := by
  cases b with
  | nil => simp [Block.structuredX] at hs
  | cons st rest =>
    cases st with
    | inContext y body =>
      simp only [Block.structuredX, Bool.and_eq_true, beq_iff_eq, Bool.not_eq_true'] at hs
      obtain ⟨⟨⟨rfl, hsb⟩, hnb⟩, hsr⟩ := hs
      exact emitsX_segment cur y body rest (execB_emits H cur inH hcur body hsb) hnb (execX_emits H cur inH hcur y rest hsr) _
        (fun w h hv => by simp only [execS, hv]) (fun _ _ _ _ _ _ _ => denX_ctx ..)
    | runIn y body =>
      simp only [Block.structuredX, Bool.and_eq_true, beq_iff_eq, Bool.not_eq_true'] at hs
      obtain ⟨⟨⟨rfl, hsb⟩, hnb⟩, hsr⟩ := hs
      exact emitsX_segment cur y body rest (execB_emits H cur inH hcur body hsb) hnb (execX_emits H cur inH hcur y rest hsr) _
        (fun w h hv => by simp only [execS, hv]) (fun _ _ _ _ _ _ _ => denX_run ..)
    | finish y exc =>
      simp only [Block.structuredX, Bool.and_eq_true, beq_iff_eq] at hs
      obtain ⟨rfl, hsr⟩ := hs
      intro w0 w c i n s h sepr sp d0 kids sx d px hwf
      rw [denX_finish] at hwf ⊢
      simp only [Bool.and_eq_true] at hwf
      have p1 := postX_finish H px exc hwf.1
      simp only [execB, execS, px.var]
      exact emits_seq px.ctx0 p1 (execB_emits H cur inH hcur rest hsr) _ hwf.2
    | logTo y ms =>
      simp only [Block.structuredX, Bool.and_eq_true, beq_iff_eq] at hs
      obtain ⟨rfl, hsr⟩ := hs
      intro w0 w c i n s h sepr sp d0 kids sx d px hwf
      rw [denX_logTo] at hwf ⊢
      simp only [Bool.and_eq_true] at hwf
      have px1 := preX_logTo H px ms hwf.1
      simp only [execB, execS, px.var]
      obtain ⟨p, o, nn⟩ := execX_emits H cur inH hcur y rest hsr _ _ _ _ _ _ _ _ _ _ _ _ _ px1 hwf.2
      exact ⟨⟨p.stage, p.good, p.frame, p.grow, p.ctx, p.tick, p.nu, p.ex, p.sc, p.wok⟩, o, nn⟩
    | addSuccess z fs =>
      cases z with
      | none => simp [Block.structuredX] at hs
      | some y =>
        simp only [Block.structuredX, Bool.and_eq_true, beq_iff_eq] at hs
        obtain ⟨rfl, hsr⟩ := hs
        intro w0 w c i n s h sepr sp d0 kids sx d px hwf
        rw [denX_addSucc] at hwf ⊢
        have px1 := preX_addSucc px fs
        simp only [execB, execS, px.var, px.inner]
        exact execX_emits H cur inH hcur y rest hsr _ _ _ _ _ _ _ _ _ _ _ _ _ px1 hwf
    | withHandle y body =>
      simp only [Block.structuredX, Bool.and_eq_true, beq_iff_eq] at hs
      obtain ⟨⟨rfl, hsb⟩, hsr⟩ := hs
      intro w0 w c i n s h sepr sp d0 kids sx d px hwf
      rw [denX_with] at hwf ⊢
      have hco : (closeW env sepr sp d0 s kids (denB env cur true body d sx)).out = (denB env cur true body d sx).out := rfl
      simp only [execB, execS, px.var]
      cases ho : (denB env cur true body d sx).out with
      | ok =>
        simp only [hco, ho, Bool.and_eq_true] at hwf ⊢
        obtain ⟨p1, o1, _⟩ := postX_with H (execB_emits H cur inH hcur body hsb) px hwf.1
        cases hwb : withBlock env w h (fun w' => execB env cur w' body) with
        | mk w1 ob =>
        rw [hwb] at p1 o1
        simp only at p1 o1
        rw [ho] at o1; subst o1
        exact emits_seq px.ctx0 p1 (execB_emits H cur inH hcur rest hsr) _ hwf.2
      | stuck =>
        simp only [hco, ho] at hwf
        exact absurd ho (postX_with H (execB_emits H cur inH hcur body hsb) px hwf).2.2
      | raised e =>
        simp only [hco, ho] at hwf ⊢
        obtain ⟨p1, o1, _⟩ := postX_with H (execB_emits H cur inH hcur body hsb) px hwf
        cases hwb : withBlock env w h (fun w' => execB env cur w' body) with
        | mk w1 ob =>
        rw [hwb] at p1 o1
        simp only at p1 o1
        rw [ho] at o1; subst o1
        exact ⟨p1, by simp [hco, ho], by simp [hco, ho]⟩
    | withAction task sp body => simp [Block.structuredX] at hs
    | log ms => simp [Block.structuredX] at hs
    | raise k => simp [Block.structuredX] at hs
    | tryCatch body handler => simp [Block.structuredX] at hs
    | writeTraceback => simp [Block.structuredX] at hs
    | probe k => simp [Block.structuredX] at hs
    | startAs z task sp => simp [Block.structuredX] at hs
    | serializeAs z z' => simp [Block.structuredX] at hs
    | continueWith z sp body => simp [Block.structuredX] at hs
    | addDests l => simp [Block.structuredX] at hs
    | removeDest z => simp [Block.structuredX] at hs
    | addGlobals fs => simp [Block.structuredX] at hs
end

/-! ## Outside any action -/

structure PreT (ds : List Nat) (w : World) (d : DS) : Prop where
  wok : WOK w ds
  ctx : w.ctx = none
  tick : w.tick = d.tick
  nu : w.nextUuid = d.nu
  ex : w.extCalls = d.ex
  sc : w.serCalls = d.sc

/-- after running something whose denotation is `r` outside any action: only separate trees -/
structure PostT (env : Env) (σ : Nat → FV → Nat → FV) (ds : List Nat) (w w' : World) (r : R) : Prop where
  stage : w'.stage = w.stage ++ F.dicts env σ 0 r.f [] 0
  flat : r.f.len = 0
  frame : ∀ h, h < w.acts.length → w'.acts[h]? = w.acts[h]?
  grow : w.acts.length ≤ w'.acts.length
  ctx : w'.ctx = w.ctx
  tick : w'.tick = r.ds.tick
  nu : w'.nextUuid = r.ds.nu
  ex : w'.extCalls = r.ds.ex
  sc : w'.serCalls = r.ds.sc
  wok : WOK w' ds

theorem PostT.ofExt {env : Env} {σ : Nat → FV → Nat → FV} {ds : List Nat} {w w' : World} {r : R} {k : Nat}
    (p : PostT env σ ds { w with extCalls := k } w' r) : PostT env σ ds w w' r :=
  ⟨p.stage, p.flat, p.frame, p.grow, p.ctx, p.tick, p.nu, p.ex, p.sc, p.wok⟩

def EmitsT (env : Env) (σ : Nat → FV → Nat → FV) (ds : List Nat) (run : World → World × Outcome) (den : DS → Fields → R) : Prop :=
  ∀ (w : World) (s : Fields) (d : DS), PreT ds w d → (den d s).wf = true →
    PostT env σ ds w (run w).1 (den d s) ∧ (run w).2 = (den d s).out ∧ (den d s).out ≠ .stuck

theorem PostT.pre {env : Env} {σ : Nat → FV → Nat → FV} {ds : List Nat} {w w' : World} {r : R}
    (p : PostT env σ ds w w' r) (hc : w.ctx = none) : PreT ds w' r.ds :=
  ⟨p.wok, p.ctx.trans hc, p.tick, p.nu, p.ex, p.sc⟩

theorem PostT.trans' {env : Env} {σ : Nat → FV → Nat → FV} {ds : List Nat} {w w1 w2 : World}
    {r1 r2 : R} (h1 : PostT env σ ds w w1 r1) (h2 : PostT env σ ds w1 w2 r2) (b : Bool) :
    PostT env σ ds w w2 { f := r1.f.append r2.f, out := r2.out, s := r2.s, ds := r2.ds, wf := b } := by
  refine ⟨?_, by rw [F.len_append, h1.flat, h2.flat], ?_, Nat.le_trans h1.grow h2.grow, h2.ctx.trans h1.ctx, h2.tick, h2.nu, h2.ex, h2.sc, h2.wok⟩
  · rw [h2.stage, h1.stage, F.dicts_append, List.append_assoc, h1.flat]
  · intro h hh
    rw [h2.frame h (Nat.lt_of_lt_of_le hh h1.grow), h1.frame h hh]

theorem PostT.same {env : Env} {σ : Nat → FV → Nat → FV} {ds : List Nat} {w w' : World} {s : Fields} {d : DS}
    (pre : PreT ds w d) (ha : w'.acts = w.acts) (hs : w'.stage = w.stage) (hc : w'.ctx = w.ctx) (ht : w'.tick = w.tick)
    (hn : w'.nextUuid = w.nextUuid) (hx : w'.extCalls = w.extCalls) (hsc : w'.serCalls = w.serCalls) (hd : w'.dests = w.dests)
    (hg : w'.globals = w.globals) (o : Outcome) (b : Bool) :
    PostT env σ ds w w' { f := .nil, out := o, s := s, ds := d, wf := b } :=
  ⟨by simp [F.dicts, hs], rfl, fun h _ => by rw [ha], Nat.le_of_eq (by rw [ha]), hc, ht.trans pre.tick,
   hn.trans pre.nu, hx.trans pre.ex, hsc.trans pre.sc, ⟨by rw [hd]; exact pre.wok.dests, by rw [hg]; exact pre.wok.globals⟩⟩

theorem emitsT_seq {env : Env} {σ : Nat → FV → Nat → FV} {ds : List Nat} {w w1 : World} {r1 : R}
    {run2 : World → World × Outcome} {den2 : DS → Fields → R} (hc : w.ctx = none)
    (p1 : PostT env σ ds w w1 r1) (h2 : EmitsT env σ ds run2 den2) (b : Bool) (hwf2 : (den2 r1.ds r1.s).wf = true) :
    PostT env σ ds w (run2 w1).1
      { f := r1.f.append (den2 r1.ds r1.s).f, out := (den2 r1.ds r1.s).out, s := (den2 r1.ds r1.s).s,
        ds := (den2 r1.ds r1.s).ds, wf := b } ∧
    (run2 w1).2 = (den2 r1.ds r1.s).out ∧ (den2 r1.ds r1.s).out ≠ .stuck := by
  obtain ⟨p2, o2, n2⟩ := h2 w1 r1.s r1.ds (p1.pre hc) hwf2
  exact ⟨PostT.trans' p1 p2 b, o2, n2⟩

/-- a message logged outside any action -/
theorem postT_leaf {env : Env} {σ : Nat → FV → Nat → FV} {ds : List Nat} {w w' : World} {s : Fields} {d : DS}
    (pre : PreT ds w d) (ms : MSpec)
    (e : Eff w w' (w.acts ++ [{ uuid := w.nextUuid, level := [], last := 1 }]) 1 1 (nser ms.sers)
      [leafDict σ w.nextUuid [1] w.tick w.serCalls ms]) :
    PostT env σ ds w w' (leafR true d s ms) := by
  refine ⟨?_, rfl, ?_, ?_, e.ctx, ?_, ?_, ?_, ?_, pre.wok.ofEff e⟩
  · rw [e.stage, pre.tick, pre.nu, pre.sc]; simp [leafR, F.dicts, T.dicts, T.rootLevel]
  · intro h hh; rw [e.acts, List.getElem?_append_left hh]
  · rw [e.acts]; simp
  · rw [e.tick, pre.tick]; rfl
  · rw [e.nu, pre.nu]; rfl
  · rw [e.ext, pre.ex]; rfl
  · rw [e.sc, pre.sc]; rfl

/-- `with start_action(..)/start_task(..): body` outside any action: a new tree -/
theorem emitsT_with {env : Env} {σ : Nat → FV → Nat → FV} {ds : List Nat} (H : EnvOK env σ ds) (cur : Option Exc) (task : Bool)
    (sp : Spec) (body : Block) (hb : Emits env σ ds (fun w => execB env cur w body) (denB env cur true body)) :
    EmitsT env σ ds (fun w => execS env cur w (.withAction task sp body)) (denS env cur false (.withAction task sp body)) := by
  intro w s d pre hwf
  rw [denS_with] at hwf ⊢
  simp only [execS_with_eq, withR]
  simp only [withR] at hwf
  simp only [Bool.not_false, Bool.or_true, if_true, Bool.and_eq_true] at hwf ⊢
  obtain ⟨⟨hp1, hwf2⟩, hps⟩ := hwf
  obtain ⟨hh, e⟩ := eff_start_fresh H w pre.wok task (Or.inr pre.ctx) sp hp1
  cases hst : w.startAction env task sp with
  | mk W1 h =>
  rw [hst] at hh e
  simp only at hh e
  subst hh
  have ra := run_action H hb W1 w.acts
    { uuid := w.nextUuid, level := [], atype := sp.atype, sers := sp.sers } { tick := d.tick + 1, nu := d.nu + 1, ex := d.ex, sc := d.sc + nser (sp.sers.map (·.1)) }
    (pre.wok.ofEff e) e.acts (by rw [e.tick, pre.tick]) (by rw [e.nu, pre.nu]) (by rw [e.ext, pre.ex]) (by rw [e.sc, pre.sc]) hwf2
    (fun ho => by simpa [ho] using hps)
  obtain ⟨r1, r2, r3, r4, r5, r6, rx, r7, r8, r9⟩ := ra
  refine ⟨⟨?_, rfl, r2, Nat.le_of_succ_le r3, r4.trans e.ctx, r5, r6, rx.1, rx.2, r7⟩, r8, r9⟩
  rw [r1, e.stage, pre.tick, pre.nu, pre.sc]
  simp [F.dicts, T.dicts, T.rootLevel, List.append_assoc]

/-! ### the explicit spelling outside any action -/

/-- identity of a tree of its own started at counters `d0` -/
def AI.top (sp : Spec) (d0 : DS) : AI := { uuid := d0.nu, level := [], atype := sp.atype, sers := sp.sers }

/-- in the middle of an explicitly spelled top-level action (cf. `PreX`; no action is current) -/
structure PreXT (env : Env) (σ : Nat → FV → Nat → FV) (ds : List Nat) (w0 w : World) (x h : Nat) (sp : Spec) (d0 : DS)
    (kids : F) (sx : Fields) (d : DS) : Prop where
  wok : WOK w ds
  stage : w.stage = w0.stage ++ startDict σ d0.nu [1] d0.tick d0.sc sp :: F.dicts env σ d0.nu kids [] 2
  inner : w.acts[h]? = some ((AI.top sp d0).act (1 + kids.len) sx)
  new : w0.acts.length ≤ h
  frame : ∀ g, g < w0.acts.length → w.acts[g]? = w0.acts[g]?
  ctx : w.ctx = none
  ctx0 : w0.ctx = none
  var : lookupNat w.vars x = some h
  tick : w.tick = d.tick
  nu : w.nextUuid = d.nu
  ex : w.extCalls = d.ex
  sc : w.serCalls = d.sc

theorem postXT_finish {env : Env} {σ : Nat → FV → Nat → FV} {ds : List Nat} (H : EnvOK env σ ds) {w0 w : World}
    {s : Fields} {x h : Nat} {sp : Spec} {d0 : DS} {kids : F} {sx : Fields} {d : DS}
    (px : PreXT env σ ds w0 w x h sp d0 kids sx d) (exc : Option Nat)
    (hp : (closeR env true sp d0 s kids sx (finRes exc) d).wf = true) :
    PostT env σ ds w0 (w.finishRec env h (exc.map Exc.user)) (closeR env true sp d0 s kids sx (finRes exc) d) := by
  have hlt := lt_of_get px.inner
  have hres : finRes exc ≠ .stuck := by cases exc <;> simp [finRes]
  have e := eff_finish H w px.wok h _ px.inner rfl (finRes exc) hres (by
    intro ho
    simp only [closeR, ho] at hp
    simpa [AI.act, AI.top] using hp)
  rw [outcomeExc_finRes] at e
  obtain ⟨wF, hwF⟩ : ∃ wF : World, wF = w.finishRec env h (exc.map Exc.user) := ⟨_, rfl⟩
  rw [← hwF] at e ⊢
  have hst : wF.stage = w.stage ++ _ := e.stage
  have hct : wF.ctx = w.ctx := e.ctx
  have htk : wF.tick = w.tick + 1 := e.tick
  have hnu : wF.nextUuid = w.nextUuid + 0 := e.nu
  have hds : wF.dests = w.dests := e.dests
  have hgl : wF.globals = w.globals := e.globals
  have hsc : wF.serCalls = w.serCalls + endSer (AI.top sp d0).sers (finRes exc) := e.sc
  refine ⟨?_, by simp [closeR, F.len], ?_, ?_, hct.trans (px.ctx.trans px.ctx0.symm), ?_, ?_, ?_, ?_,
    ⟨by rw [hds]; exact px.wok.dests, by rw [hgl]; exact px.wok.globals⟩⟩
  · rw [hst, px.stage]
    have e1 : 1 + kids.len + 1 = kids.len + 2 := by omega
    simp only [closeR, if_true, F.dicts, T.rootLevel, T.dicts, AI.act, AI.top, e1, px.tick, px.ex, px.sc, List.append_assoc,
      List.cons_append, List.append_nil, List.nil_append]
  · intro g hg
    rw [e.acts, List.getElem?_set_ne (by have := px.new; omega)]
    exact px.frame g hg
  · rw [e.acts, List.length_set]
    have := px.new; omega
  · rw [htk, px.tick]; rfl
  · rw [hnu, px.nu]; rfl
  · rw [e.ext]; simp only [closeR, px.ex]
  · rw [hsc, px.sc]; rfl

theorem preXT_segment {env : Env} {σ : Nat → FV → Nat → FV} {ds : List Nat} {run : World → World × Outcome}
    {den : DS → Fields → R} (hb : Emits env σ ds run den) {w0 w : World}
    {x h : Nat} {sp : Spec} {d0 : DS} {kids : F} {sx : Fields} {d : DS}
    (px : PreXT env σ ds w0 w x h sp d0 kids sx d) (hwf : (den d sx).wf = true) (hok : (den d sx).out = .ok)
    (hv : ∀ w', lookupNat (run w').1.vars x = lookupNat w'.vars x) :
    (scopedBlock w h run).2 = .ok ∧
    PreXT env σ ds w0 (scopedBlock w h run).1 x h sp d0 (kids.append (den d sx).f) (den d sx).s (den d sx).ds := by
  have pre : Pre ds ({ w with ctx := some h } : World) h (AI.top sp d0) (1 + kids.len) sx d :=
    ⟨⟨px.wok.dests, px.wok.globals⟩, px.inner, rfl, px.tick, px.nu, px.ex, px.sc⟩
  obtain ⟨post, hout, _⟩ := hb _ _ _ _ _ _ pre hwf
  have hv' := hv ({ w with ctx := some h } : World)
  cases hrun : run ({ w with ctx := some h } : World) with
  | mk Wb ob =>
  rw [hrun] at post hout hv'
  simp only at post hout hv'
  refine ⟨by simp only [scopedBlock, hrun, hout, hok], ?_⟩
  simp only [scopedBlock, hrun]
  refine ⟨⟨post.wok.dests, post.wok.globals⟩, ?_, ?_, px.new, ?_, px.ctx, px.ctx0, hv'.trans px.var, post.tick, post.nu, post.ex, post.sc⟩
  · have e : 1 + kids.len + 1 = 2 + kids.len := by omega
    show Wb.stage = _
    rw [post.stage]
    show w.stage ++ _ = _
    rw [px.stage, F.dicts_append, e]
    simp only [List.append_assoc, List.cons_append, AI.top]
  · show Wb.acts[h]? = _
    rw [post.good, F.len_append, Nat.add_assoc]
  · intro g hg
    show Wb.acts[g]? = _
    rw [post.frame g (by have := px.new; have := lt_of_get px.inner; show g < w.acts.length; omega) (by have := px.new; omega)]
    exact px.frame g hg

theorem preXT_logTo {env : Env} {σ : Nat → FV → Nat → FV} {ds : List Nat} (H : EnvOK env σ ds) {w0 w : World}
    {x h : Nat} {sp : Spec} {d0 : DS} {kids : F} {sx : Fields} {d : DS}
    (px : PreXT env σ ds w0 w x h sp d0 kids sx d) (ms : MSpec) (hp : presentOpt ms.sers ms.fields = true) :
    PreXT env σ ds w0 (w.logTo env h ms) x h sp d0 (kids.append (.own (.leaf d.tick d.sc ms) .nil)) sx
      { tick := d.tick + 1, nu := d.nu, ex := d.ex, sc := d.sc + nser ms.sers } := by
  have hlt := lt_of_get px.inner
  have e := eff_logTo H w px.wok h _ px.inner ms hp
  refine ⟨px.wok.ofEff e, ?_, ?_, px.new, ?_, e.ctx.trans px.ctx, px.ctx0, ?_, ?_, ?_, ?_, ?_⟩
  · have e1 : 1 + kids.len + 1 = 2 + kids.len := by omega
    rw [e.stage, px.stage, F.dicts_append]
    simp [F.dicts, T.dicts, AI.act, AI.top, e1, px.tick, px.sc]
  · rw [e.acts, List.getElem?_set_self hlt, F.len_append]
    simp [AI.act, F.len, Nat.add_assoc]
  · intro g hg
    rw [e.acts, List.getElem?_set_ne (by have := px.new; omega)]
    exact px.frame g hg
  · rw [e.vars]; exact px.var
  · rw [e.tick, px.tick]
  · rw [e.nu, px.nu]; rfl
  · rw [e.ext, px.ex]
  · rw [e.sc, px.sc]

theorem preXT_addSucc {env : Env} {σ : Nat → FV → Nat → FV} {ds : List Nat} {w0 w : World}
    {x h : Nat} {sp : Spec} {d0 : DS} {kids : F} {sx : Fields} {d : DS}
    (px : PreXT env σ ds w0 w x h sp d0 kids sx d) (fs : Fields) :
    PreXT env σ ds w0 { w with acts := w.acts.set h { (AI.top sp d0).act (1 + kids.len) sx with
        succ := ((AI.top sp d0).act (1 + kids.len) sx).succ.update fs } } x h sp d0 kids (sx.update fs) d := by
  have hlt := lt_of_get px.inner
  refine ⟨⟨px.wok.dests, px.wok.globals⟩, px.stage, ?_, px.new, ?_, px.ctx, px.ctx0, px.var, px.tick, px.nu, px.ex, px.sc⟩
  · show (w.acts.set h _)[h]? = _
    rw [List.getElem?_set_self hlt]; rfl
  · intro g hg
    show (w.acts.set h _)[g]? = _
    rw [List.getElem?_set_ne (by have := px.new; omega)]
    exact px.frame g hg

theorem postXT_with {env : Env} {σ : Nat → FV → Nat → FV} {ds : List Nat} (H : EnvOK env σ ds) {run : World → World × Outcome}
    {den : DS → Fields → R} (hb : Emits env σ ds run den) {w0 w : World}
    {s : Fields} {x h : Nat} {sp : Spec} {d0 : DS} {kids : F} {sx : Fields} {d : DS}
    (px : PreXT env σ ds w0 w x h sp d0 kids sx d)
    (hwf : (closeW env true sp d0 s kids (den d sx)).wf = true) :
    PostT env σ ds w0 (withBlock env w h run).1 (closeW env true sp d0 s kids (den d sx)) ∧
      (withBlock env w h run).2 = (den d sx).out ∧ (den d sx).out ≠ .stuck := by
  have hlt := lt_of_get px.inner
  simp only [closeW, Bool.and_eq_true] at hwf
  obtain ⟨r1, r2, r3, r4, r5, r6, r7, r8, r9, r10⟩ := run_handle H hb w h (AI.top sp d0) (1 + kids.len) sx d px.wok px.inner
    px.tick px.nu px.ex px.sc hwf.1 (fun ho => by
      have := hwf.2
      simp only [closeR, ho] at this
      simpa [AI.top] using this)
  refine ⟨⟨?_, by simp [closeW, closeR, F.len], ?_, ?_, r4.trans (px.ctx.trans px.ctx0.symm), ?_, r6, ?_, ?_, r8⟩, r9, r10⟩
  · rw [r1, px.stage]
    have e1 : 1 + kids.len + 1 = 2 + kids.len := by omega
    have e2 : 1 + kids.len + (den d sx).f.len + 1 = kids.len + (den d sx).f.len + 2 := by omega
    simp only [closeW, closeR, if_true, F.dicts, T.rootLevel, T.dicts, F.dicts_append, F.len_append, AI.top, e1, e2,
      List.append_assoc, List.cons_append, List.append_nil, List.nil_append]
  · intro g hg
    rw [r2 g (by have := px.new; omega) (by have := px.new; omega)]
    exact px.frame g hg
  · have := px.new; omega
  · rw [r5]; rfl
  · rw [r7.1]; rfl
  · rw [r7.2]; rfl

theorem preXT_start {env : Env} {σ : Nat → FV → Nat → FV} {ds : List Nat} (H : EnvOK env σ ds) (cur : Option Exc) {w : World}
    {d : DS} (pre : PreT ds w d) (x : Nat) (task : Bool) (sp : Spec)
    (hp : presentOpt (sp.sers.map (·.1)) sp.fields = true) :
    (execS env cur w (.startAs x task sp)).2 = .ok ∧
    PreXT env σ ds w (execS env cur w (.startAs x task sp)).1 x w.acts.length sp d .nil []
      { tick := d.tick + 1, nu := d.nu + 1, ex := d.ex, sc := d.sc + nser (sp.sers.map (·.1)) } := by
  refine ⟨by simp only [execS], ?_⟩
  simp only [execS]
  obtain ⟨hh, e⟩ := eff_start_fresh H w pre.wok task (Or.inr pre.ctx) sp hp
  cases hst : w.startAction env task sp with
  | mk W1 h =>
  rw [hst] at hh e
  simp only at hh e
  subst hh
  refine ⟨⟨fun d hd => (pre.wok.ofEff e).dests d hd, (pre.wok.ofEff e).globals⟩, ?_, ?_, Nat.le_refl _, ?_,
    e.ctx.trans pre.ctx, pre.ctx, lookupNat_setNat_self _ _ _, ?_, ?_, ?_, ?_⟩
  · show W1.stage = _
    rw [e.stage, pre.tick, pre.nu, pre.sc]
    simp [F.dicts]
  · show W1.acts[w.acts.length]? = _
    rw [e.acts, List.getElem?_concat_length, pre.nu]
    simp [AI.top, AI.act, F.len]
  · intro g hg
    show W1.acts[g]? = _
    rw [e.acts, List.getElem?_append_left hg]
  · show W1.tick = _
    rw [e.tick, pre.tick]
  · show W1.nextUuid = _
    rw [e.nu, pre.nu]
  · show W1.extCalls = _
    rw [e.ext, pre.ex]
  · show W1.serCalls = _
    rw [e.sc, pre.sc]

def EmitsXT (env : Env) (σ : Nat → FV → Nat → FV) (ds : List Nat) (cur : Option Exc) (x : Nat) (b : Block) : Prop :=
  ∀ (w0 w : World) (s : Fields) (h : Nat) (sp : Spec) (d0 : DS) (kids : F) (sx : Fields)
    (d : DS), PreXT env σ ds w0 w x h sp d0 kids sx d →
    (denX env cur false x true sp d0 s b kids sx d).wf = true →
    PostT env σ ds w0 (execB env cur w b).1 (denX env cur false x true sp d0 s b kids sx d) ∧
      (execB env cur w b).2 = (denX env cur false x true sp d0 s b kids sx d).out ∧
      (denX env cur false x true sp d0 s b kids sx d).out ≠ .stuck

theorem emitsXT_segment {env : Env} {σ : Nat → FV → Nat → FV} {ds : List Nat} (cur : Option Exc) (x : Nat) (body rest : Block)
    (hb : Emits env σ ds (fun w => execB env cur w body) (denB env cur true body)) (hnb : body.binds x = false)
    (hr : EmitsXT env σ ds cur x rest)
    (st : Stmt) (hst : ∀ w h, lookupNat w.vars x = some h → execS env cur w st = scopedBlock w h (fun w' => execB env cur w' body))
    (hden : ∀ sp d0 s kids sx d, denX env cur false x true sp d0 s (.cons st rest) kids sx d =
      segR d0 s (denB env cur true body d sx)
        (denX env cur false x true sp d0 s rest (kids.append (denB env cur true body d sx).f) (denB env cur true body d sx).s
          (denB env cur true body d sx).ds)) :
    EmitsXT env σ ds cur x (.cons st rest) := by
  intro w0 w s h sp d0 kids sx d px hwf
  rw [hden] at hwf ⊢
  simp only [segR] at hwf ⊢
  cases ho : (denB env cur true body d sx).out with
  | stuck => simp [ho, badR] at hwf
  | raised e => simp [ho, badR] at hwf
  | ok =>
    simp only [ho, Bool.and_eq_true] at hwf ⊢
    obtain ⟨ok1, px1⟩ := preXT_segment hb px hwf.1 ho (fun w' => execB_vars env cur x body hnb w')
    simp only [execB, hst w h px.var]
    cases hsc : scopedBlock w h (fun w' => execB env cur w' body) with
    | mk w1 o1 =>
    rw [hsc] at ok1 px1
    simp only at ok1 px1
    subst ok1
    simp only
    obtain ⟨p, o, nn⟩ := hr _ _ _ _ _ _ _ _ _ px1 hwf.2
    exact ⟨⟨p.stage, p.flat, p.frame, p.grow, p.ctx, p.tick, p.nu, p.ex, p.sc, p.wok⟩, o, nn⟩

mutual
theorem execS_top {env : Env} {σ : Nat → FV → Nat → FV} {ds : List Nat} (H : EnvOK env σ ds) (cur : Option Exc) (inH : Bool)
    (hcur : inH = true → cur.isSome = true) (st : Stmt) (hs : st.structured inH false = true) :
    EmitsT env σ ds (fun w => execS env cur w st) (denS env cur false st) := by
  cases st with
  | withAction task sp body =>
    exact emitsT_with H cur task sp body (execB_emits H cur inH hcur body (by simpa [Stmt.structured] using hs))
  | log ms =>
    intro w s d pre hwf
    have hd : denS env cur false (.log ms) d s = leafR true d s ms := by simp only [denS]; rfl
    rw [hd] at hwf ⊢
    have e := eff_log_out H w pre.wok pre.ctx ms (by simpa [leafR] using hwf)
    exact ⟨by simpa only [execS] using postT_leaf pre ms e, by simp [execS, leafR], by simp [leafR]⟩
  | raise k =>
    intro w s d pre _
    have hd : denS env cur false (.raise k) d s = { f := .nil, out := .raised (.user k), s := s, ds := d, wf := true } := by
      simp only [denS]
    rw [hd]
    simp only [execS]
    refine ⟨?_, by simp, by simp⟩
    refine PostT.same pre ?_ ?_ ?_ ?_ ?_ ?_ ?_ ?_ ?_ _ _ <;> rfl
  | tryCatch body handler =>
    intro w s d pre hwf
    simp only [Stmt.structured, Bool.and_eq_true] at hs
    obtain ⟨p1, o1, n1⟩ := execB_top H cur inH hcur body hs.1 w s d pre (by
      rw [denS_try] at hwf
      cases ho : (denB env cur false body d s).out <;> simp only [ho, Bool.and_eq_true] at hwf
      · exact hwf
      · exact hwf.1
      · exact hwf)
    rw [denS_try] at hwf ⊢
    simp only [execS]
    cases hb : execB env cur w body with
    | mk w1 ob =>
    dsimp only at p1 o1
    rw [hb] at p1 o1
    dsimp only at p1 o1
    cases ho : (denB env cur false body d s).out with
    | ok =>
      rw [ho] at o1; subst o1
      simp only [ho]
      refine ⟨p1, ?_, ?_⟩ <;> simp
    | stuck => exact absurd ho n1
    | raised e =>
      rw [ho] at o1; subst o1
      simp only [ho, Bool.and_eq_true] at hwf ⊢
      exact emitsT_seq pre.ctx p1 (execB_top H (some e) true (fun _ => rfl) handler hs.2) _ hwf.2
  | writeTraceback =>
    intro w s d pre hwf
    simp only [Stmt.structured] at hs
    cases cur with
    | none => simp at hcur; exact absurd hs (by simp [hcur])
    | some e =>
      have hd : denS env (some e) false .writeTraceback d s = tbR env true d s e := by simp only [denS]; rfl
      rw [hd]
      simp only [execS, writeTraceback_eq H, pre.ex, tbR]
      have pre' : PreT ds ({ w with extCalls := (extOf env e d.ex).2 } : World) { d with ex := (extOf env e d.ex).2 } :=
        ⟨⟨pre.wok.dests, pre.wok.globals⟩, pre.ctx, pre.tick, pre.nu, rfl, pre.sc⟩
      have ee := eff_log_out H _ pre'.wok pre'.ctx (tbSpec env e (extOf env e d.ex).1) rfl
      exact ⟨(postT_leaf pre' _ ee).ofExt, by simp [leafR], by simp [leafR]⟩
  | addSuccess x fs => cases x <;> simp [Stmt.structured] at hs
  | probe k =>
    intro w s d pre _
    have hd : denS env cur false (.probe k) d s = { f := .nil, out := .ok, s := s, ds := d, wf := true } := by
      simp only [denS]
    rw [hd]
    simp only [execS]
    refine ⟨?_, by simp, by simp⟩
    refine PostT.same pre ?_ ?_ ?_ ?_ ?_ ?_ ?_ ?_ ?_ _ _ <;> rfl
  | startAs x task sp => simp [Stmt.structured] at hs
  | withHandle x body => simp [Stmt.structured] at hs
  | inContext x body => simp [Stmt.structured] at hs
  | runIn x body => simp [Stmt.structured] at hs
  | finish x exc => simp [Stmt.structured] at hs
  | logTo x ms => simp [Stmt.structured] at hs
  | serializeAs y x => simp [Stmt.structured] at hs
  | continueWith y sp body => simp [Stmt.structured] at hs
  | addDests l => simp [Stmt.structured] at hs
  | removeDest x => simp [Stmt.structured] at hs
  | addGlobals fs => simp [Stmt.structured] at hs
/-- **Emission lemma, top level**: a structured block run outside any action stages exactly the
dicts of its denotation — a sequence of separate trees (one per `with` block, one one-message task per
message), each emitted in place — creates only new actions, and leaves the context empty. -/
theorem execB_top {env : Env} {σ : Nat → FV → Nat → FV} {ds : List Nat} (H : EnvOK env σ ds) (cur : Option Exc) (inH : Bool)
    (hcur : inH = true → cur.isSome = true) (b : Block) (hs : b.structured inH false = true) :
    EmitsT env σ ds (fun w => execB env cur w b) (denB env cur false b) := by
  cases b with
  | nil =>
    intro w s d pre _
    have hd : denB env cur false .nil d s = { f := .nil, out := .ok, s := s, ds := d, wf := true } := by simp only [denB]
    rw [hd]
    simp only [execB]
    refine ⟨?_, by simp, by simp⟩
    refine PostT.same pre ?_ ?_ ?_ ?_ ?_ ?_ ?_ ?_ ?_ _ _ <;> rfl
  | cons st rest =>
    intro w s d pre hwf
    rcases Stmt.start_or st with ⟨x, task, sp, rfl⟩ | hns
    · rw [Block.structured_start] at hs
      rw [denB_start] at hwf ⊢
      simp only [Bool.not_false, Bool.or_true, if_true, Bool.and_eq_true] at hwf ⊢
      obtain ⟨ok1, px⟩ := preXT_start H cur pre x task sp hwf.1
      simp only [execB]
      cases hst : execS env cur w (.startAs x task sp) with
      | mk w1 o1 =>
      rw [hst] at ok1 px
      simp only at ok1 px
      subst ok1
      simp only
      obtain ⟨p, o, nn⟩ := execX_top H cur inH hcur x rest hs w w1 s _ _ _ _ _ _ px hwf.2
      exact ⟨⟨p.stage, p.flat, p.frame, p.grow, p.ctx, p.tick, p.nu, p.ex, p.sc, p.wok⟩, o, nn⟩
    · rw [Block.structured_cons _ _ _ _ hns] at hs
      simp only [Bool.and_eq_true] at hs
      obtain ⟨p1, o1, n1⟩ := execS_top H cur inH hcur st hs.1 w s d pre (by
        rw [denB_cons _ _ _ _ _ _ _ hns] at hwf
        cases ho : (denS env cur false st d s).out <;> simp only [ho, Bool.and_eq_true] at hwf
        · exact hwf.1
        · exact hwf
        · exact hwf)
      rw [denB_cons _ _ _ _ _ _ _ hns] at hwf ⊢
      simp only [execB]
      cases hb : execS env cur w st with
      | mk w1 ob =>
      dsimp only at p1 o1
      rw [hb] at p1 o1
      dsimp only at p1 o1
      cases ho : (denS env cur false st d s).out with
      | ok =>
        rw [ho] at o1; subst o1
        simp only [ho, Bool.and_eq_true] at hwf ⊢
        exact emitsT_seq pre.ctx p1 (execB_top H cur inH hcur rest hs.2) _ hwf.2
      | stuck => exact absurd ho n1
      | raised e =>
        rw [ho] at o1; subst o1
        simp only [ho]
        refine ⟨p1, ?_, ?_⟩ <;> simp
/-- the explicit spelling at top level: the rest of a block after `x = start_action(sp)`, run while `x`
is open and no action is current, completes the tree of `x` and goes on as a structured block. -/
theorem execX_top {env : Env} {σ : Nat → FV → Nat → FV} {ds : List Nat} (H : EnvOK env σ ds) (cur : Option Exc) (inH : Bool)
    (hcur : inH = true → cur.isSome = true) (x : Nat) (b : Block) (hs : b.structuredX inH false x = true) :
    EmitsXT env σ ds cur x b := by
  cases b with
  | nil => simp [Block.structuredX] at hs
  | cons st rest =>
    cases st with
    | inContext y body =>
      simp only [Block.structuredX, Bool.and_eq_true, beq_iff_eq, Bool.not_eq_true'] at hs
      obtain ⟨⟨⟨rfl, hsb⟩, hnb⟩, hsr⟩ := hs
      exact emitsXT_segment cur y body rest (execB_emits H cur inH hcur body hsb) hnb (execX_top H cur inH hcur y rest hsr) _
        (fun w h hv => by simp only [execS, hv]) (fun _ _ _ _ _ _ => denX_ctx ..)
    | runIn y body =>
      simp only [Block.structuredX, Bool.and_eq_true, beq_iff_eq, Bool.not_eq_true'] at hs
      obtain ⟨⟨⟨rfl, hsb⟩, hnb⟩, hsr⟩ := hs
      exact emitsXT_segment cur y body rest (execB_emits H cur inH hcur body hsb) hnb (execX_top H cur inH hcur y rest hsr) _
        (fun w h hv => by simp only [execS, hv]) (fun _ _ _ _ _ _ => denX_run ..)
    | finish y exc =>
      simp only [Block.structuredX, Bool.and_eq_true, beq_iff_eq] at hs
      obtain ⟨rfl, hsr⟩ := hs
      intro w0 w s h sp d0 kids sx d px hwf
      rw [denX_finish] at hwf ⊢
      simp only [Bool.and_eq_true] at hwf
      have p1 := postXT_finish H px exc hwf.1
      simp only [execB, execS, px.var]
      exact emitsT_seq px.ctx0 p1 (execB_top H cur inH hcur rest hsr) _ hwf.2
    | logTo y ms =>
      simp only [Block.structuredX, Bool.and_eq_true, beq_iff_eq] at hs
      obtain ⟨rfl, hsr⟩ := hs
      intro w0 w s h sp d0 kids sx d px hwf
      rw [denX_logTo] at hwf ⊢
      simp only [Bool.and_eq_true] at hwf
      have px1 := preXT_logTo H px ms hwf.1
      simp only [execB, execS, px.var]
      obtain ⟨p, o, nn⟩ := execX_top H cur inH hcur y rest hsr _ _ _ _ _ _ _ _ _ px1 hwf.2
      exact ⟨⟨p.stage, p.flat, p.frame, p.grow, p.ctx, p.tick, p.nu, p.ex, p.sc, p.wok⟩, o, nn⟩
    | addSuccess z fs =>
      cases z with
      | none => simp [Block.structuredX] at hs
      | some y =>
        simp only [Block.structuredX, Bool.and_eq_true, beq_iff_eq] at hs
        obtain ⟨rfl, hsr⟩ := hs
        intro w0 w s h sp d0 kids sx d px hwf
        rw [denX_addSucc] at hwf ⊢
        have px1 := preXT_addSucc px fs
        simp only [execB, execS, px.var, px.inner]
        exact execX_top H cur inH hcur y rest hsr _ _ _ _ _ _ _ _ _ px1 hwf
    | withHandle y body =>
      simp only [Block.structuredX, Bool.and_eq_true, beq_iff_eq] at hs
      obtain ⟨⟨rfl, hsb⟩, hsr⟩ := hs
      intro w0 w s h sp d0 kids sx d px hwf
      rw [denX_with] at hwf ⊢
      have hco : (closeW env true sp d0 s kids (denB env cur true body d sx)).out = (denB env cur true body d sx).out := rfl
      simp only [execB, execS, px.var]
      cases ho : (denB env cur true body d sx).out with
      | ok =>
        simp only [hco, ho, Bool.and_eq_true] at hwf ⊢
        obtain ⟨p1, o1, _⟩ := postXT_with H (execB_emits H cur inH hcur body hsb) px hwf.1
        cases hwb : withBlock env w h (fun w' => execB env cur w' body) with
        | mk w1 ob =>
        rw [hwb] at p1 o1
        simp only at p1 o1
        rw [ho] at o1; subst o1
        exact emitsT_seq px.ctx0 p1 (execB_top H cur inH hcur rest hsr) _ hwf.2
      | stuck =>
        simp only [hco, ho] at hwf
        exact absurd ho (postXT_with H (execB_emits H cur inH hcur body hsb) px hwf).2.2
      | raised e =>
        simp only [hco, ho] at hwf ⊢
        obtain ⟨p1, o1, _⟩ := postXT_with H (execB_emits H cur inH hcur body hsb) px hwf
        cases hwb : withBlock env w h (fun w' => execB env cur w' body) with
        | mk w1 ob =>
        rw [hwb] at p1 o1
        simp only at p1 o1
        rw [ho] at o1; subst o1
        exact ⟨p1, by simp [hco, ho], by simp [hco, ho]⟩
    | withAction task sp body => simp [Block.structuredX] at hs
    | log ms => simp [Block.structuredX] at hs
    | raise k => simp [Block.structuredX] at hs
    | tryCatch body handler => simp [Block.structuredX] at hs
    | writeTraceback => simp [Block.structuredX] at hs
    | probe k => simp [Block.structuredX] at hs
    | startAs z task sp => simp [Block.structuredX] at hs
    | serializeAs z z' => simp [Block.structuredX] at hs
    | continueWith z sp body => simp [Block.structuredX] at hs
    | addDests l => simp [Block.structuredX] at hs
    | removeDest z => simp [Block.structuredX] at hs
    | addGlobals fs => simp [Block.structuredX] at hs
end

end Sys.Emit
