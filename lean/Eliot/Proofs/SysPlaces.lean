import Eliot.Proofs.SysSlots
import Eliot.Proofs.SysAction
import Eliot.Properties.C08
/-!
# From handed-out positions to offered messages (C02, run-level)

Ghost state of the model (`Eliot/Model/Sys.lean`): `lastSlot` = the position handed out by the most
recent `_nextTaskLevel` until a message is delivered for it; `offeredAt` = `offered` with the slot
recorded at each destination call; `bufferAt` = `buffer` with slots; `pendingAt` = the entries the
first `Destinations.add` has still to re-deliver; `dupAdd` = a destination was registered twice.

* **Layer 1** (`GInv`, every program, lifted through `BasicD`/`BasicCfg`): every recorded slot is a
  handed-out position; no position is recorded for two waiting messages; a waiting position was
  never offered; and — unless a destination was registered twice — no position is offered twice to
  the same destination.
* **Layer 2** (`CInv`, programs whose declared serializer keys and global fields avoid `task_uuid` /
  `task_level`; proved along the call chain, because it depends on *which* dict is delivered): every
  offered / buffered message carries the place `(task_uuid, task_level)` of the slot recorded for it;
  `offeredAt`, `bufferAt` project to `offered`, `buffer`.  It needs handle validity (`HInv`).
-/
namespace Sys

abbrev Slot := Nat × Nat

/-! ## Layer 1: the ghost bookkeeping -/

/-- slots offered to destination `d`, in order -/
def offS (oa : List (Nat × Msg × Option Slot)) (d : Nat) : List Slot :=
  (oa.filter (fun x => x.1 == d)).filterMap (·.2.2)

/-- slots waiting for delivery: the last one handed out, those pending re-delivery, those buffered -/
def waitS (ls : Option Slot) (ba pa : List (Msg × Option Slot)) : List Slot :=
  ls.toList ++ (pa ++ ba).filterMap (·.2)

structure GA (slots : List Slot) (oa : List (Nat × Msg × Option Slot)) (ba pa : List (Msg × Option Slot))
    (ls : Option Slot) : Prop where
  offIn : ∀ x ∈ oa, ∀ s, x.2.2 = some s → s ∈ slots
  waitIn : ∀ s ∈ waitS ls ba pa, s ∈ slots
  waitNodup : (waitS ls ba pa).Nodup
  offWait : ∀ x ∈ oa, ∀ s, x.2.2 = some s → s ∉ waitS ls ba pa

structure GB (oa : List (Nat × Msg × Option Slot)) (dests : List Nat) : Prop where
  offNodup : ∀ d, (offS oa d).Nodup
  destsNodup : dests.Nodup

theorem offS_append (oa ob : List (Nat × Msg × Option Slot)) (d : Nat) : offS (oa ++ ob) d = offS oa d ++ offS ob d := by
  simp [offS, List.filter_append, List.filterMap_append]

theorem mem_offS {oa : List (Nat × Msg × Option Slot)} {d : Nat} {s : Slot} (h : s ∈ offS oa d) :
    ∃ x ∈ oa, x.2.2 = some s := by
  unfold offS at h
  obtain ⟨x, hx, hs⟩ := List.mem_filterMap.mp h
  exact ⟨x, (List.mem_filter.mp hx).1, hs⟩

/-- what one fan-out adds to the slots offered to `d` -/
theorem offS_fan_notMem (m : Msg) (ls : Option Slot) (d : Nat) (ds : List Nat) (h : d ∉ ds) :
    offS (ds.map fun d' => (d', m, ls)) d = [] := by
  induction ds with
  | nil => rfl
  | cons x xs ih =>
    have hx : x ≠ d := fun e => h (e ▸ List.mem_cons_self)
    have hxs : d ∉ xs := fun e => h (List.mem_cons_of_mem _ e)
    have := ih hxs
    simp only [offS] at this ⊢
    simp [hx, this]

theorem offS_fan_nodup (m : Msg) (ls : Option Slot) (d : Nat) (ds : List Nat) (hn : ds.Nodup) :
    (offS (ds.map fun d' => (d', m, ls)) d).Nodup := by
  induction ds with
  | nil => exact List.nodup_nil
  | cons x xs ih =>
    rw [List.nodup_cons] at hn
    by_cases hx : x = d
    · subst hx
      have e : offS ((x :: xs).map fun d' => (d', m, ls)) x = ls.toList := by
        have := offS_fan_notMem m ls x xs hn.1
        simp only [offS] at this ⊢
        cases ls <;> simp [this]
      rw [e]
      cases ls <;> simp
    · have e : offS ((x :: xs).map fun d' => (d', m, ls)) d = offS (xs.map fun d' => (d', m, ls)) d := by
        simp [offS, hx]
      rw [e]; exact ih hn.2

theorem mem_offS_fan {m : Msg} {ls : Option Slot} {d : Nat} {ds : List Nat} {s : Slot}
    (h : s ∈ offS (ds.map fun d' => (d', m, ls)) d) : ls = some s := by
  obtain ⟨x, hx, hs⟩ := mem_offS h
  obtain ⟨d', _, rfl⟩ := List.mem_map.mp hx
  exact hs

namespace GA
variable {slots : List Slot} {oa : List (Nat × Msg × Option Slot)} {ba pa : List (Msg × Option Slot)} {ls : Option Slot}

/-- the waiting slots are rearranged / some are dropped -/
theorem rewait (g : GA slots oa ba pa ls) {ba' pa' : List (Msg × Option Slot)} {ls' : Option Slot}
    (hn : (waitS ls' ba' pa').Nodup) (hs : ∀ s ∈ waitS ls' ba' pa', s ∈ waitS ls ba pa) : GA slots oa ba' pa' ls' where
  offIn := g.offIn
  waitIn := fun s h => g.waitIn s (hs s h)
  waitNodup := hn
  offWait := fun x hx s e h => g.offWait x hx s e (hs s h)

theorem rewait_sublist (g : GA slots oa ba pa ls) {ba' pa' : List (Msg × Option Slot)} {ls' : Option Slot}
    (h : (waitS ls' ba' pa').Sublist (waitS ls ba pa)) : GA slots oa ba' pa' ls' :=
  g.rewait (List.Nodup.sublist h g.waitNodup) (fun _ hs => h.subset hs)

/-- the waiting slot (if any) is offered to the destinations `ds` -/
theorem offer (g : GA slots oa ba pa ls) (m : Msg) (ds : List Nat) :
    GA slots (oa ++ ds.map fun d => (d, m, ls)) ba pa none := by
  have hsub : (waitS none ba pa).Sublist (waitS ls ba pa) := by
    unfold waitS; exact List.sublist_append_right _ _
  have g0 := g.rewait_sublist hsub
  refine ⟨fun x hx s e => ?_, g0.waitIn, g0.waitNodup, fun x hx s e => ?_⟩
  · rcases List.mem_append.mp hx with hx | hx
    · exact g.offIn x hx s e
    · obtain ⟨d, _, rfl⟩ := List.mem_map.mp hx
      exact g.waitIn s (by unfold waitS; rw [show ls = some s from e]; simp)
  · rcases List.mem_append.mp hx with hx | hx
    · exact g0.offWait x hx s e
    · obtain ⟨d, _, rfl⟩ := List.mem_map.mp hx
      have e' : ls = some s := e
      have hn := g.waitNodup
      unfold waitS at hn ⊢
      rw [e'] at hn
      simp only [Option.toList_some, List.singleton_append, List.nodup_cons] at hn
      simpa using hn.1

/-- `_nextTaskLevel`: a new position becomes the waiting one (the previous one, if any, is dropped) -/
theorem handOut (g : GA slots oa ba pa ls) (s : Slot) (hs : s ∉ slots) : GA (slots ++ [s]) oa ba pa (some s) := by
  have hsub : (waitS none ba pa).Sublist (waitS ls ba pa) := by
    unfold waitS; exact List.sublist_append_right _ _
  have g0 := g.rewait_sublist hsub
  have hw : waitS (some s) ba pa = s :: waitS none ba pa := by simp [waitS]
  refine ⟨fun x hx t e => List.mem_append_left _ (g.offIn x hx t e), fun t ht => ?_, ?_, fun x hx t e ht => ?_⟩
  · rw [hw] at ht
    rcases List.mem_cons.mp ht with rfl | ht
    · simp
    · exact List.mem_append_left _ (g0.waitIn t ht)
  · rw [hw, List.nodup_cons]
    exact ⟨fun h => hs (g0.waitIn s h), g0.waitNodup⟩
  · rw [hw] at ht
    rcases List.mem_cons.mp ht with rfl | ht
    · exact hs (g.offIn x hx t e)
    · exact g0.offWait x hx t e ht

end GA

theorem GB.offer {slots : List Slot} {oa : List (Nat × Msg × Option Slot)} {ba pa : List (Msg × Option Slot)} {ls : Option Slot}
    {dests : List Nat} (g : GA slots oa ba pa ls) (b : GB oa dests) (m : Msg) :
    GB (oa ++ dests.map fun d => (d, m, ls)) dests := by
  refine ⟨fun d => ?_, b.destsNodup⟩
  rw [offS_append, List.nodup_append]
  refine ⟨b.offNodup d, offS_fan_nodup m ls d dests b.destsNodup, fun s hs t ht e => ?_⟩
  subst e
  have hl : ls = some s := mem_offS_fan ht
  obtain ⟨x, hx, hxs⟩ := mem_offS hs
  exact g.offWait x hx s hxs (by unfold waitS; rw [hl]; simp)

/-- the layer-1 invariant of a state -/
def GInv (w : World) : Prop :=
  GA w.slots w.offeredAt w.bufferAt w.pendingAt w.lastSlot ∧ (w.dupAdd = false → GB w.offeredAt w.dests)

theorem GInv.init : GInv {} :=
  ⟨⟨by simp, by simp [waitS], by simp [waitS], by simp⟩, fun _ => ⟨fun d => by simp [offS], List.nodup_nil⟩⟩

/-! ### what `fanOut` / `deliver` do to the fields the two layers read -/
structure FanEff (w w' : World) (m : Msg) (ds : List Nat) : Prop where
  offeredAt : w'.offeredAt = w.offeredAt ++ ds.map fun d => (d, m, w.lastSlot)
  offered : w'.offered = w.offered ++ ds.map fun d => (d, m)
  lastSlot : w'.lastSlot = w.lastSlot
  bufferAt : w'.bufferAt = w.bufferAt
  buffer : w'.buffer = w.buffer
  pendingAt : w'.pendingAt = w.pendingAt
  slots : w'.slots = w.slots
  dests : w'.dests = w.dests
  dupAdd : w'.dupAdd = w.dupAdd
  acts : w'.acts = w.acts
  globals : w'.globals = w.globals

theorem fanOut_eff (env : Env) (m : Msg) (ds : List Nat) (w : World) : FanEff w (World.fanOut env w m ds).1 m ds := by
  induction ds generalizing w with
  | nil => exact ⟨by simp [World.fanOut], by simp [World.fanOut], rfl, rfl, rfl, rfl, rfl, rfl, rfl, rfl, rfl⟩
  | cons d ds ih =>
    have h1 : FanEff w (w.callDest env d m).1 m [d] := by
      unfold World.callDest
      simp only
      split <;> exact ⟨rfl, rfl, rfl, rfl, rfl, rfl, rfl, rfl, rfl, rfl, rfl⟩
    have h2 := ih (w.callDest env d m).1
    simp only [World.fanOut]
    exact ⟨by rw [h2.offeredAt, h1.offeredAt, h1.lastSlot]; simp, by rw [h2.offered, h1.offered]; simp,
      h2.lastSlot.trans h1.lastSlot, h2.bufferAt.trans h1.bufferAt, h2.buffer.trans h1.buffer,
      h2.pendingAt.trans h1.pendingAt, h2.slots.trans h1.slots, h2.dests.trans h1.dests, h2.dupAdd.trans h1.dupAdd,
      h2.acts.trans h1.acts, h2.globals.trans h1.globals⟩

/-- `deliver`: either the message (after the global fields are merged in) is offered to every
registered destination, or it is buffered; in both cases with the waiting slot, which is consumed. -/
theorem deliver_eff (env : Env) (w : World) (m : Msg) :
    let m' := Fields.update m w.globals
    let w' := (w.deliver env m).1
    w'.lastSlot = none ∧ w'.pendingAt = w.pendingAt ∧ w'.slots = w.slots ∧ w'.dests = w.dests ∧ w'.dupAdd = w.dupAdd ∧
    w'.acts = w.acts ∧ w'.globals = w.globals ∧
    ((w'.offeredAt = w.offeredAt ++ w.dests.map (fun d => (d, m', w.lastSlot)) ∧
        w'.offered = w.offered ++ w.dests.map (fun d => (d, m')) ∧ w'.bufferAt = w.bufferAt ∧ w'.buffer = w.buffer) ∨
     (w'.offeredAt = w.offeredAt ∧ w'.offered = w.offered ∧
        w'.bufferAt = trimAt (w.bufferAt ++ [(m', w.lastSlot)]) ∧ w'.buffer = trim1000 (w.buffer ++ [m']))) := by
  intro m' w'
  by_cases ha : w.anyAdded = true
  · have f := fanOut_eff env m' w.dests { w with stage := w.stage ++ [m'], stageAt := w.stageAt ++ [w.dests] }
    have e : w' = { (World.fanOut env { w with stage := w.stage ++ [m'], stageAt := w.stageAt ++ [w.dests] } m' w.dests).1 with lastSlot := none } := by
      simp only [w', World.deliver, ha, if_true]; rfl
    rw [e]
    exact ⟨rfl, f.pendingAt, f.slots, f.dests, f.dupAdd, f.acts, f.globals, Or.inl ⟨f.offeredAt, f.offered, f.bufferAt, f.buffer⟩⟩
  · have e : w' =
        { w with stage := w.stage ++ [m'], stageAt := w.stageAt ++ [w.dests], buffer := trim1000 (w.buffer ++ [m']),
                 bufferAt := trimAt (w.bufferAt ++ [(m', w.lastSlot)]), lastSlot := none } := by
      simp only [w', World.deliver, ha]; rfl
    rw [e]
    exact ⟨rfl, rfl, rfl, rfl, rfl, rfl, rfl, Or.inr ⟨rfl, rfl, by dsimp only, by dsimp only⟩⟩

/-! ### the steps of the model preserve layer 1 -/
theorem filterMap_snd_singleton (m : Msg) (ls : Option Slot) :
    ([(m, ls)] : List (Msg × Option Slot)).filterMap (·.2) = ls.toList := by
  cases ls <;> rfl

theorem ginv_deliver (env : Env) (w : World) (m : Msg) (g : GInv w) : GInv (w.deliver env m).1 := by
  obtain ⟨e1, e2, e3, e4, e5, _, _, h⟩ := deliver_eff env w m
  unfold GInv
  rw [e1, e2, e3, e4, e5]
  rcases h with ⟨f1, _, f3, _⟩ | ⟨f1, _, f3, _⟩
  · rw [f1, f3]
    exact ⟨g.1.offer _ _, fun hd => GB.offer g.1 (g.2 hd) _⟩
  · rw [f1, f3]
    refine ⟨?_, g.2⟩
    have hsub : (waitS none (trimAt (w.bufferAt ++ [(Fields.update m w.globals, w.lastSlot)])) w.pendingAt).Sublist
        ((w.pendingAt ++ w.bufferAt).filterMap (·.2) ++ w.lastSlot.toList) := by
      unfold waitS trimAt
      rw [Option.toList_none, List.nil_append, ← filterMap_snd_singleton (Fields.update m w.globals) w.lastSlot,
        ← List.filterMap_append, List.append_assoc]
      exact List.Sublist.filterMap _ (List.Sublist.append_left (List.drop_sublist _ _) _)
    have hperm : ((w.pendingAt ++ w.bufferAt).filterMap (·.2) ++ w.lastSlot.toList).Perm
        (waitS w.lastSlot w.bufferAt w.pendingAt) := List.perm_append_comm
    exact g.1.rewait (List.Nodup.sublist hsub (hperm.nodup_iff.mpr g.1.waitNodup))
      (fun s hs => hperm.subset (hsub.subset hs))

theorem ginv_nextLevel (w : World) (h : Nat) (inv : SInv w) (g : GInv w) : GInv (w.nextLevel h).1 := by
  cases ha : w.acts[h]? with
  | none =>
    have : w.nextLevel h = (w, []) := by simp only [World.nextLevel, ha]
    rw [this]; exact g
  | some a =>
    rw [nextLevel_eq ha]
    refine ⟨g.1.handOut (h, a.last + 1) (fun hm => ?_), g.2⟩
    have := (inv.mem_slots_iff ha (a.last + 1)).mp hm
    omega

theorem ginv_popPending (w : World) (g : GInv w) : GInv w.popPending := by
  refine ⟨g.1.rewait_sublist ?_, g.2⟩
  show (waitS (w.pendingAt.head?.bind (·.2)) w.bufferAt w.pendingAt.tail).Sublist (waitS w.lastSlot w.bufferAt w.pendingAt)
  unfold waitS
  cases hp : w.pendingAt with
  | nil => exact List.sublist_append_right _ _
  | cons y ys =>
    have : (y.2.toList ++ (ys ++ w.bufferAt).filterMap (·.2)) = ((y :: ys) ++ w.bufferAt).filterMap (·.2) := by
      obtain ⟨ym, yo⟩ := y
      cases yo <;> simp
    simp only [List.head?_cons, Option.bind_some, List.tail_cons]
    rw [this]
    exact List.sublist_append_right _ _

/-- layer 1 together with the slot invariant it needs (freshness of the position handed out) -/
def L1 (w : World) : Prop := SInv w ∧ GInv w

def L1Pres (w w' : World) : Prop := L1 w → L1 w'

theorem l1_basic (env : Env) : BasicD env L1Pres where
  refl := fun _ h => h
  trans := fun h1 h2 h => h2 (h1 h)
  deliver := fun w m h => ⟨(sinv_basic env).toD.deliver w m h.1, ginv_deliver env w m h.2⟩
  clock := fun _ h => h
  nextLevel := fun w p h => ⟨sinv_nextLevel w p h.1, ginv_nextLevel w p h.1 h.2⟩
  freshAction := fun w t s h => ⟨sinv_freshAction w t s h.1, h.2⟩
  extCalls := fun _ h => h
  serCalls := fun _ h => h
  setFinished := fun w p a ha h => ⟨(sinv_basic env).setFinished w p a ha h.1, h.2⟩
  appendChild := fun w p pa t s hp h => ⟨sinv_child w p pa t s hp h.1, ginv_nextLevel w p h.1 h.2⟩
  appendRemote := fun w y u lvl t s hl h => ⟨sinv_remote w y u lvl t s hl h.1, h.2⟩
  setCtx := fun _ _ h => h
  setVars := fun _ _ h => h
  reserve := fun w p a y ha h => ⟨sinv_reserve w p a y ha h.1, ginv_nextLevel w p h.1 h.2⟩
  probe := fun _ _ h => h
  succ := fun w p a fs ha h => ⟨(sinv_basic env).succ w p a fs ha h.1, h.2⟩

theorem l1_basicCfg (env : Env) : BasicCfg env L1Pres where
  startDelivery := fun w ds h => by
    refine ⟨h.1, h.2.1.rewait_sublist ?_, fun hd => ?_⟩
    · show (waitS w.lastSlot [] w.bufferAt).Sublist (waitS w.lastSlot w.bufferAt w.pendingAt)
      unfold waitS
      rw [List.append_nil, List.filterMap_append]
      exact List.Sublist.append_left (List.sublist_append_right _ _) _
    · have hd' : (w.dupAdd || hasDup ds) = false := hd
      rw [Bool.or_eq_false_iff] at hd'
      exact ⟨(h.2.2 hd'.1).offNodup, (hasDup_eq_false_iff ds).mp hd'.2⟩
  extendDests := fun w ds h => by
    refine ⟨h.1, h.2.1, fun hd => ?_⟩
    have hd' : (w.dupAdd || hasDup (w.dests ++ ds)) = false := hd
    rw [Bool.or_eq_false_iff] at hd'
    exact ⟨(h.2.2 hd'.1).offNodup, (hasDup_eq_false_iff _).mp hd'.2⟩
  removeDest := fun w d h => ⟨h.1, h.2.1, fun hd => ⟨(h.2.2 hd).offNodup, (h.2.2 hd).destsNodup.erase d⟩⟩
  addGlobals := fun _ _ h => h
  popPending := fun w h => ⟨h.1, ginv_popPending w h.2⟩

/-- layer 1 holds in every state reached by a program -/
theorem l1_execB (env : Env) (cur : Option Exc) (w : World) (b : Block) (h : L1 w) : L1 (execB env cur w b).1 :=
  execB_lift (l1_basic env).prim cur w b (Or.inr ((l1_basic env).primCfg (l1_basicCfg env))) h

theorem L1.init : L1 {} := ⟨SInv.init, GInv.init⟩

/-! ## Layer 2: the delivered dict carries the place of its slot -/

def placeKey (k : String) : Bool := k == "task_uuid" || k == "task_level"

/-- declared serializer keys avoid the two place keys (`_MessageSerializer.__init__` rejects them:
`RESERVED_FIELDS`) -/
def keysOk (ss : List (String × Nat)) : Bool := ss.all fun p => !placeKey p.1

def sersOk (s : Option (List (String × Nat) × List (String × Nat))) : Bool :=
  match s with
  | none => true
  | some p => keysOk p.1 && keysOk p.2

def msersOk (s : Option (List (String × Nat))) : Bool :=
  match s with
  | none => true
  | some ss => keysOk ss

/-- the dict has neither `task_uuid` nor `task_level` -/
def fieldsFree (f : Fields) : Bool := (f.get? "task_uuid").isNone && (f.get? "task_level").isNone

/-- `m` carries the place of slot `s` -/
def AtSlot (acts : List Act) (m : Msg) (s : Slot) : Prop :=
  ∃ a : Act, acts[s.1]? = some a ∧ m.get? "task_uuid" = some (.uuid a.uuid) ∧
    m.get? "task_level" = some (.lvl (a.level ++ [s.2]))

def AtSome (acts : List Act) (m : Msg) (o : Option Slot) : Prop := ∃ s, o = some s ∧ AtSlot acts m s

theorem AtSlot.keeps {acts acts' : List Act} (k : KeepsL acts acts') {m : Msg} {s : Slot} (h : AtSlot acts m s) :
    AtSlot acts' m s := by
  obtain ⟨a, ha, h1, h2⟩ := h
  obtain ⟨a', ha', e1, e2, _⟩ := k s.1 a ha
  exact ⟨a', ha', by rw [e1]; exact h1, by rw [e2]; exact h2⟩

theorem AtSome.keeps {acts acts' : List Act} (k : KeepsL acts acts') {m : Msg} {o : Option Slot} (h : AtSome acts m o) :
    AtSome acts' m o := by
  obtain ⟨s, e, hs⟩ := h
  exact ⟨s, e, hs.keeps k⟩

theorem placeKey_false {k : String} (h : placeKey k = false) : k ≠ "task_uuid" ∧ k ≠ "task_level" := by
  simpa [placeKey] using h

theorem AtSlot.set {acts : List Act} {m : Msg} {s : Slot} (h : AtSlot acts m s) (k : String) (v : FV)
    (hk : placeKey k = false) : AtSlot acts (m.set k v) s := by
  obtain ⟨a, ha, h1, h2⟩ := h
  obtain ⟨k1, k2⟩ := placeKey_false hk
  exact ⟨a, ha, by rw [C04.Fields.get?_set_ne _ _ _ _ (Ne.symm k1)]; exact h1,
    by rw [C04.Fields.get?_set_ne _ _ _ _ (Ne.symm k2)]; exact h2⟩

theorem fieldsFree_iff {f : Fields} : fieldsFree f = true ↔ f.get? "task_uuid" = none ∧ f.get? "task_level" = none := by
  simp [fieldsFree]

theorem AtSlot.update {acts : List Act} {m : Msg} {s : Slot} (h : AtSlot acts m s) (g : Fields) (hg : fieldsFree g = true) :
    AtSlot acts (Fields.update m g) s := by
  obtain ⟨a, ha, h1, h2⟩ := h
  obtain ⟨g1, g2⟩ := fieldsFree_iff.mp hg
  exact ⟨a, ha, by rw [C08.Fields.get?_update_none _ _ _ g1]; exact h1, by rw [C08.Fields.get?_update_none _ _ _ g2]; exact h2⟩

theorem fieldsFree_update {g fs : Fields} (hg : fieldsFree g = true) (hf : fieldsFree fs = true) :
    fieldsFree (Fields.update g fs) = true := by
  obtain ⟨g1, g2⟩ := fieldsFree_iff.mp hg
  obtain ⟨f1, f2⟩ := fieldsFree_iff.mp hf
  exact fieldsFree_iff.mpr ⟨by rw [C08.Fields.get?_update_none _ _ _ f1]; exact g1,
    by rw [C08.Fields.get?_update_none _ _ _ f2]; exact g2⟩

structure CInvC (acts : List Act) (globals : Fields) (offered : List (Nat × Msg)) (oa : List (Nat × Msg × Option Slot))
    (buffer : List Msg) (ba pa : List (Msg × Option Slot)) : Prop where
  offPar : oa.map (fun x => (x.1, x.2.1)) = offered
  bufPar : ba.map (·.1) = buffer
  offAt : ∀ x ∈ oa, AtSome acts x.2.1 x.2.2
  bufAt : ∀ y ∈ ba, AtSome acts y.1 y.2
  penAt : ∀ y ∈ pa, AtSome acts y.1 y.2
  glob : fieldsFree globals = true
  sers : ∀ a ∈ acts, sersOk a.sers = true

theorem CInvC.reacts {acts : List Act} {globals : Fields} {offered : List (Nat × Msg)} {oa : List (Nat × Msg × Option Slot)}
    {buffer : List Msg} {ba pa : List (Msg × Option Slot)} (c : CInvC acts globals offered oa buffer ba pa)
    {acts' : List Act} (k : KeepsL acts acts') (hs : ∀ a ∈ acts', sersOk a.sers = true) :
    CInvC acts' globals offered oa buffer ba pa :=
  ⟨c.offPar, c.bufPar, fun x hx => (c.offAt x hx).keeps k, fun y hy => (c.bufAt y hy).keeps k,
    fun y hy => (c.penAt y hy).keeps k, c.glob, hs⟩

def CInv (w : World) : Prop := CInvC w.acts w.globals w.offered w.offeredAt w.buffer w.bufferAt w.pendingAt

/-- the dict `m` is ready to be delivered: it carries the place of the waiting slot -/
def Ready (w : World) (m : Msg) : Prop := AtSome w.acts m w.lastSlot

/-- the current action and the program's handle variables denote existing actions -/
def HInv (w : World) : Prop :=
  (∀ h, w.ctx = some h → h < w.acts.length) ∧ (∀ x h, lookupNat w.vars x = some h → h < w.acts.length)

theorem HInv.mono {w w' : World} (h : HInv w) (h1 : w'.ctx = w.ctx) (h2 : w'.vars = w.vars)
    (h3 : w.acts.length ≤ w'.acts.length) : HInv w' :=
  ⟨fun x hx => Nat.lt_of_lt_of_le (h.1 x (h1 ▸ hx)) h3, fun x y hy => Nat.lt_of_lt_of_le (h.2 x y (h2 ▸ hy)) h3⟩

theorem HInv.frame {w w' : World} (f : Frame w w') (h : HInv w) : HInv w' := h.mono f.ctx f.vars f.grow

theorem CInv.init : CInv {} := ⟨rfl, rfl, by simp, by simp, by simp, rfl, by simp⟩
theorem HInv.init : HInv {} := ⟨by simp, by simp [lookupNat]⟩

theorem sers_set {acts : List Act} {h : Nat} {a a' : Act} (hs : ∀ b ∈ acts, sersOk b.sers = true) (ha : acts[h]? = some a)
    (e : a'.sers = a.sers) : ∀ b ∈ acts.set h a', sersOk b.sers = true := by
  intro b hb
  rcases List.mem_or_eq_of_mem_set hb with hb | rfl
  · exact hs b hb
  · rw [e]; exact hs a (List.mem_of_getElem? ha)

theorem sers_append {acts : List Act} {x : Act} (hs : ∀ b ∈ acts, sersOk b.sers = true) (hx : sersOk x.sers = true) :
    ∀ b ∈ acts ++ [x], sersOk b.sers = true := by
  intro b hb
  rcases List.mem_append.mp hb with hb | hb
  · exact hs b hb
  · rw [List.mem_singleton.mp hb]; exact hx

/-! ### the call chain -/
theorem cinv_nextLevel (w : World) (h : Nat) (c : CInv w) : CInv (w.nextLevel h).1 := by
  cases ha : w.acts[h]? with
  | none =>
    have : w.nextLevel h = (w, []) := by simp only [World.nextLevel, ha]
    rw [this]; exact c
  | some a =>
    rw [nextLevel_eq ha]
    exact c.reacts (KeepsL.set _ h a _ ha rfl rfl rfl rfl id) (sers_set c.sers ha rfl)

/-- right after `_nextTaskLevel` of `h`, a dict carrying `h`'s uuid and the level just returned is ready -/
theorem ready_nextLevel (w : World) (h : Nat) (a : Act) (ha : w.acts[h]? = some a) (m : Msg)
    (h1 : m.get? "task_uuid" = some (.uuid a.uuid)) (h2 : m.get? "task_level" = some (.lvl (w.nextLevel h).2)) :
    Ready (w.nextLevel h).1 m := by
  rw [nextLevel_eq ha] at h2 ⊢
  exact ⟨(h, a.last + 1), rfl, { a with last := a.last + 1 }, List.getElem?_set_self (lt_of_getElem?_some ha), h1, h2⟩

theorem cinv_deliver (env : Env) (w : World) (m : Msg) (c : CInv w) (r : Ready w m) : CInv (w.deliver env m).1 := by
  obtain ⟨_, e2, _, _, _, e6, e7, h⟩ := deliver_eff env w m
  have r' : AtSome w.acts (Fields.update m w.globals) w.lastSlot := by
    obtain ⟨s, e, hs⟩ := r
    exact ⟨s, e, hs.update _ c.glob⟩
  unfold CInv
  rw [e2, e6, e7]
  rcases h with ⟨f1, f2, f3, f4⟩ | ⟨f1, f2, f3, f4⟩
  · rw [f1, f2, f3, f4]
    refine ⟨?_, c.bufPar, fun x hx => ?_, c.bufAt, c.penAt, c.glob, c.sers⟩
    · rw [List.map_append, c.offPar, List.map_map]; rfl
    · rcases List.mem_append.mp hx with hx | hx
      · exact c.offAt x hx
      · obtain ⟨d, _, rfl⟩ := List.mem_map.mp hx
        exact r'
  · rw [f1, f2, f3, f4]
    refine ⟨c.offPar, ?_, c.offAt, fun y hy => ?_, c.penAt, c.glob, c.sers⟩
    · unfold trimAt trim1000
      rw [List.map_drop, List.map_append, c.bufPar, List.length_append, List.length_append, ← c.bufPar, List.length_map]
      rfl
    · unfold trimAt at hy
      rcases List.mem_append.mp (List.mem_of_mem_drop hy) with hy | hy
      · exact c.bufAt y hy
      · rw [List.mem_singleton.mp hy]; exact r'

theorem cinv_buildLog (w : World) (h : Nat) (t : String) (f : Fields) (a : Act) (c : CInv w) (ha : w.acts[h]? = some a) :
    CInv (w.buildLog h t f).1 ∧ Ready (w.buildLog h t f).1 (w.buildLog h t f).2 := by
  have hc : w.clock.1.acts[h]? = some a := ha
  unfold World.buildLog
  refine ⟨cinv_nextLevel w.clock.1 h c, ready_nextLevel w.clock.1 h a hc _ ?_ ?_⟩
  · simp only [hc, Option.map_some, Option.getD_some]
    rw [C04.Fields.get?_set_ne _ _ _ _ (by decide), C04.Fields.get?_set_ne _ _ _ _ (by decide), C04.Fields.get?_set_self]
  · rw [C04.Fields.get?_set_ne _ _ _ _ (by decide), C04.Fields.get?_set_self]

theorem cinv_freshAction (w : World) (t : String) (s : Option (List (String × Nat) × List (String × Nat))) (c : CInv w)
    (hs : sersOk s = true) :
    CInv (w.freshAction t s).1 ∧ (w.freshAction t s).1.acts[(w.freshAction t s).2]? =
      some { uuid := w.nextUuid, level := [], atype := t, sers := s } :=
  ⟨c.reacts (KeepsL.append _ _) (sers_append c.sers hs), by simp [World.freshAction]⟩

theorem cinv_currentOrFresh (w : World) (c : CInv w) (hh : HInv w) :
    CInv w.currentOrFresh.1 ∧ ∃ a : Act, w.currentOrFresh.1.acts[w.currentOrFresh.2]? = some a := by
  unfold World.currentOrFresh
  cases hc : w.ctx with
  | none =>
    obtain ⟨c1, h1⟩ := cinv_freshAction w "" none c rfl
    exact ⟨c1, _, h1⟩
  | some h => exact ⟨c, w.acts[h]'(hh.1 h hc), List.getElem?_eq_getElem (hh.1 h hc)⟩

theorem cinv_logReport (env : Env) (w : World) (f : Fields) (c : CInv w) (hh : HInv w) : CInv (w.logReport env f) := by
  unfold World.logReport
  obtain ⟨c1, a, ha⟩ := cinv_currentOrFresh w c hh
  obtain ⟨c2, r2⟩ := cinv_buildLog _ _ DESTINATION_FAILURE f a c1 ha
  exact cinv_deliver env _ _ c2 r2

theorem cinv_reportAll (env : Env) (m : Msg) (es : List Exc) (w : World) (c : CInv w) (hh : HInv w) :
    CInv (World.reportAll env w m es) := by
  induction es generalizing w with
  | nil => exact c
  | cons e es ih => exact ih _ (cinv_logReport env w _ c hh) (hh.frame (frame_logReport env w _))

theorem cinv_send (env : Env) (w : World) (m : Msg) (c : CInv w) (hh : HInv w) (r : Ready w m) : CInv (w.send env m) := by
  unfold World.send
  exact cinv_reportAll env _ _ _ (cinv_deliver env w m c r) (hh.frame (frame_deliver env w m))

theorem cinv_logNoSer (env : Env) (w : World) (t : String) (f : Fields) (c : CInv w) (hh : HInv w) :
    CInv (w.logNoSer env t f) := by
  unfold World.logNoSer
  obtain ⟨c1, a, ha⟩ := cinv_currentOrFresh w c hh
  obtain ⟨c2, r2⟩ := cinv_buildLog _ _ t f a c1 ha
  exact cinv_send env _ _ c2 ((hh.frame (frame_currentOrFresh w)).frame (frame_buildLog _ _ _ _)) r2

theorem cinv_getFields (env : Env) (w : World) (e : Exc) (c : CInv w) (hh : HInv w) : CInv (World.getFields env w e).1 := by
  unfold World.getFields
  cases firstExtractor env (env.mro (e.cls env)) with
  | none => exact c
  | some f =>
    simp only
    cases f e w.extCalls with
    | ok fs => exact c
    | error e' => exact cinv_logNoSer env _ _ _ c hh

theorem cinv_writeTraceback (env : Env) (w : World) (e : Exc) (c : CInv w) (hh : HInv w) : CInv (w.writeTraceback env e) := by
  unfold World.writeTraceback
  exact cinv_logNoSer env _ _ _ (cinv_getFields env w e c hh) (hh.frame (frame_getFields env w e))

/-- `serialize` touches only the serializer-call counter, and keeps the two place keys of the dict -/
theorem serializeFields_spec (env : Env) (ss : List (String × Nat)) (hk : keysOk ss = true) (w : World) (m : Msg) :
    (CInv w → CInv (serializeFields env w ss m).1) ∧
    (∀ m', (serializeFields env w ss m).2 = .ok m' → Ready w m → Ready (serializeFields env w ss m).1 m') := by
  induction ss generalizing w m with
  | nil =>
    refine ⟨id, fun m' h r => ?_⟩
    simp only [serializeFields] at h
    cases h; exact r
  | cons p rest ih =>
    obtain ⟨key, sid⟩ := p
    have hk' : placeKey key = false ∧ keysOk rest = true := by
      simpa [keysOk] using hk
    unfold serializeFields
    cases m.get? key with
    | none => exact ⟨id, fun m' h => by cases h⟩
    | some v =>
      simp only
      cases env.serialize sid v w.serCalls with
      | ok v' =>
        obtain ⟨i1, i2⟩ := ih hk'.2 { w with serCalls := w.serCalls + 1 } (m.set key v')
        refine ⟨fun c => i1 c, fun m' h r => i2 m' h ?_⟩
        obtain ⟨s, e, hs⟩ := r
        exact ⟨s, e, hs.set key v' hk'.1⟩
      | error e => exact ⟨id, fun m' h => by cases h⟩

theorem cinv_loggerWrite (env : Env) (w : World) (m : Msg) (sers : Option (List (String × Nat))) (c : CInv w) (hh : HInv w)
    (r : Ready w m) (hs : msersOk sers = true) : CInv (w.loggerWrite env m sers) := by
  unfold World.loggerWrite
  cases sers with
  | none => exact cinv_send env w m c hh r
  | some ss =>
    simp only
    obtain ⟨i1, i2⟩ := serializeFields_spec env ss hs w m
    have hh1 := hh.frame (frame_serializeFields env ss w m)
    cases h : (serializeFields env w ss m).2 with
    | ok m' => exact cinv_send env _ _ (i1 c) hh1 (i2 m' h r)
    | error e =>
      exact cinv_logNoSer env _ _ _ (cinv_writeTraceback env _ e (i1 c) hh1) (hh1.frame (frame_writeTraceback env _ e))

theorem cinv_logMessage (env : Env) (w : World) (ms : MSpec) (c : CInv w) (hh : HInv w) (hs : msersOk ms.sers = true) :
    CInv (w.logMessage env ms) := by
  unfold World.logMessage
  obtain ⟨c1, a, ha⟩ := cinv_currentOrFresh w c hh
  obtain ⟨c2, r2⟩ := cinv_buildLog _ _ ms.mtype ms.fields a c1 ha
  exact cinv_loggerWrite env _ _ _ c2 ((hh.frame (frame_currentOrFresh w)).frame (frame_buildLog _ _ _ _)) r2 hs

theorem cinv_logTo (env : Env) (w : World) (h : Nat) (ms : MSpec) (c : CInv w) (hh : HInv w) (hs : msersOk ms.sers = true)
    (hv : h < w.acts.length) : CInv (w.logTo env h ms) := by
  unfold World.logTo
  obtain ⟨c2, r2⟩ := cinv_buildLog w h ms.mtype ms.fields _ c (List.getElem?_eq_getElem hv)
  exact cinv_loggerWrite env _ _ _ c2 (hh.frame (frame_buildLog _ _ _ _)) r2 hs

/-- hand out the next position of `h` and write a dict that carries `h`'s uuid and that position -/
theorem cinv_emit (env : Env) (w : World) (h : Nat) (a : Act) (m : Msg) (sers : Option (List (String × Nat)))
    (c : CInv w) (hh : HInv w) (ha : w.acts[h]? = some a) (h1 : m.get? "task_uuid" = some (.uuid a.uuid))
    (h2 : m.get? "task_level" = some (.lvl (w.nextLevel h).2)) (hs : msersOk sers = true) :
    CInv ((w.nextLevel h).1.loggerWrite env m sers) :=
  cinv_loggerWrite env _ _ _ (cinv_nextLevel w h c) (hh.frame (frame_nextLevel w h)) (ready_nextLevel w h a ha m h1 h2) hs

theorem msersOk_fst {s : Option (List (String × Nat) × List (String × Nat))} (h : sersOk s = true) :
    msersOk (s.map (·.1)) = true := by
  cases s with
  | none => rfl
  | some p => simp only [sersOk, Bool.and_eq_true] at h; exact h.1

theorem msersOk_snd {s : Option (List (String × Nat) × List (String × Nat))} (h : sersOk s = true) :
    msersOk (s.map (·.2)) = true := by
  cases s with
  | none => rfl
  | some p => simp only [sersOk, Bool.and_eq_true] at h; exact h.2

theorem msersOk_nil (s : Option (List (String × Nat) × List (String × Nat))) : msersOk (s.map (fun _ => [])) = true := by
  cases s <;> rfl

theorem cinv_startRec (env : Env) (w : World) (h : Nat) (f : Fields) (c : CInv w) (hh : HInv w) : CInv (w.startRec env h f) := by
  cases ha : w.acts[h]? with
  | none =>
    have : w.startRec env h f = w := by simp only [World.startRec, ha]
    rw [this]; exact c
  | some a =>
    rw [startRec_eq env w h a f ha]
    have hc : w.clock.1.acts[h]? = some a := ha
    refine cinv_emit env w.clock.1 h a _ _ c hh hc ?_ ?_ (msersOk_fst (c.sers a (List.mem_of_getElem? ha)))
    · unfold startDict
      rw [C04.Fields.get?_set_ne _ _ _ _ (by decide), C04.Fields.get?_set_ne _ _ _ _ (by decide), C04.Fields.get?_set_self]
    · unfold startDict
      rw [C04.Fields.get?_set_self, nextLevel_eq hc]

theorem cinv_setFin (w : World) (h : Nat) (a : Act) (ha : w.acts[h]? = some a) (c : CInv w) (hh : HInv w) :
    CInv (w.setFin h a) ∧ HInv (w.setFin h a) :=
  ⟨c.reacts (KeepsL.set _ h a _ ha rfl rfl rfl rfl (fun _ => rfl)) (sers_set c.sers ha rfl),
    hh.mono rfl rfl (by simp [World.setFin])⟩

theorem cinv_finishRec (env : Env) (w : World) (h : Nat) (exc : Option Exc) (c : CInv w) (hh : HInv w) :
    CInv (w.finishRec env h exc) := by
  cases ha : w.acts[h]? with
  | none => rw [finishRec_none env w h exc ha]; exact c
  | some a =>
    cases hf : a.finished with
    | true => rw [finishRec_finished env w h exc a ha hf]; exact c
    | false =>
      obtain ⟨c1, hh1⟩ := cinv_setFin w h a ha c hh
      have h0 := setFin_get w h a ha
      have hso := c.sers a (List.mem_of_getElem? ha)
      cases exc with
      | none =>
        rw [finishRec_ok_eq env w h a ha hf]
        have hc : (w.setFin h a).clock.1.acts[h]? = some { a with finished := true } := h0
        refine cinv_emit env (w.setFin h a).clock.1 h _ _ _ c1 hh1 hc ?_ ?_ (msersOk_snd hso)
        · unfold succDict
          rw [C04.Fields.get?_set_ne _ _ _ _ (by decide), C04.Fields.get?_set_ne _ _ _ _ (by decide), C04.Fields.get?_set_self]
        · unfold succDict
          rw [C04.Fields.get?_set_self, nextLevel_eq hc]
      | some e =>
        rw [finishRec_err_eq env w h a e ha hf]
        have fg := frame_getFields env (w.setFin h a) e
        obtain ⟨a', ha', eu, _⟩ := fg.keep h _ h0
        have hc : (World.getFields env (w.setFin h a) e).1.clock.1.acts[h]? = some a' := ha'
        refine cinv_emit env (World.getFields env (w.setFin h a) e).1.clock.1 h a' _ _
          (cinv_getFields env _ e c1 hh1) (hh1.frame (fg.trans (frame_clock _))) hc ?_ ?_ (msersOk_nil a.sers)
        · rw [C04.Fields.get?_set_ne _ _ _ _ (by decide), C04.Fields.get?_set_ne _ _ _ _ (by decide), C04.Fields.get?_set_self, eu]
        · rw [C04.Fields.get?_set_self]

theorem cinv_startAction (env : Env) (w : World) (task : Bool) (sp : Spec) (c : CInv w) (hh : HInv w)
    (hs : sersOk sp.sers = true) :
    CInv (w.startAction env task sp).1 ∧ (w.startAction env task sp).2 < (w.startAction env task sp).1.acts.length := by
  unfold World.startAction
  split
  · obtain ⟨c1, h1⟩ := cinv_freshAction w sp.atype sp.sers c hs
    have hh1 : HInv (w.freshAction sp.atype sp.sers).1 := hh.frame (frame_freshAction w _ _)
    exact ⟨cinv_startRec env _ _ _ c1 hh1,
      Nat.lt_of_lt_of_le (lt_of_getElem?_some h1) (frame_startRec env _ _ _).grow⟩
  · rename_i p hp
    have hctx : w.ctx = some p := by
      cases task with
      | true => simp at hp
      | false => simpa using hp
    have hv := hh.1 p hctx
    split
    · rename_i hnone
      rw [List.getElem?_eq_none_iff] at hnone
      omega
    · rename_i pa hpa
      have c1 : CInv (w.nextLevel p).1 := cinv_nextLevel w p c
      have hh1 : HInv (w.nextLevel p).1 := hh.frame (frame_nextLevel w p)
      have c2 : CInv { (w.nextLevel p).1 with acts := (w.nextLevel p).1.acts ++
          [({ uuid := pa.uuid, level := (w.nextLevel p).2, atype := sp.atype, sers := sp.sers } : Act)] } :=
        c1.reacts (KeepsL.append _ _) (sers_append c1.sers hs)
      have hh2 : HInv { (w.nextLevel p).1 with acts := (w.nextLevel p).1.acts ++
          [({ uuid := pa.uuid, level := (w.nextLevel p).2, atype := sp.atype, sers := sp.sers } : Act)] } :=
        hh1.mono rfl rfl (by simp)
      refine ⟨cinv_startRec env _ _ _ c2 hh2, Nat.lt_of_lt_of_le ?_ (frame_startRec env _ _ _).grow⟩
      simp

theorem cinv_continueTask (env : Env) (w : World) (u : Nat) (lvl : Level) (sp : Spec) (c : CInv w) (hh : HInv w)
    (hs : sersOk sp.sers = true) :
    CInv (w.continueTask env u lvl sp).1 ∧ (w.continueTask env u lvl sp).2 < (w.continueTask env u lvl sp).1.acts.length := by
  unfold World.continueTask
  have c2 : CInv { w with acts := w.acts ++ [({ uuid := u, level := lvl, atype := sp.atype, sers := sp.sers } : Act)] } :=
    c.reacts (KeepsL.append _ _) (sers_append c.sers hs)
  have hh2 : HInv { w with acts := w.acts ++ [({ uuid := u, level := lvl, atype := sp.atype, sers := sp.sers } : Act)] } :=
    hh.mono rfl rfl (by simp)
  refine ⟨cinv_startRec env _ _ _ c2 hh2, Nat.lt_of_lt_of_le ?_ (frame_startRec env _ _ _).grow⟩
  simp

/-! ### re-delivery of the buffer -/
theorem pendingAt_nextLevel (w : World) (h : Nat) : (w.nextLevel h).1.pendingAt = w.pendingAt := by
  unfold World.nextLevel
  split <;> rfl

/-- only `Destinations.add` touches the list of entries to re-deliver -/
theorem pen_basic (env : Env) : BasicD env (fun w w' => w'.pendingAt = w.pendingAt) where
  refl := fun _ => rfl
  trans := fun h1 h2 => h2.trans h1
  deliver := fun w m => (deliver_eff env w m).2.1
  clock := fun _ => rfl
  nextLevel := pendingAt_nextLevel
  freshAction := fun _ _ _ => rfl
  extCalls := fun _ => rfl
  serCalls := fun _ => rfl
  setFinished := fun _ _ _ _ => rfl
  appendChild := fun w p _ _ _ _ => pendingAt_nextLevel w p
  appendRemote := fun _ _ _ _ _ _ _ => rfl
  setCtx := fun _ _ => rfl
  setVars := fun _ _ => rfl
  reserve := fun w p _ _ _ => pendingAt_nextLevel w p
  probe := fun _ _ => rfl
  succ := fun _ _ _ _ _ => rfl

theorem cinv_addDests (env : Env) (w : World) (ds : List Nat) (c : CInv w) (hh : HInv w) :
    CInv (w.addDests env ds) ∧ HInv (w.addDests env ds) := by
  unfold World.addDests
  split
  · exact ⟨c, hh⟩
  · have key : ∀ (buf : List Msg) (w1 : World), CInv w1 → HInv w1 → w1.pendingAt.map (·.1) = buf →
        CInv (buf.foldl (fun acc m => acc.popPending.send env m) w1) ∧
        HInv (buf.foldl (fun acc m => acc.popPending.send env m) w1) := by
      intro buf
      induction buf with
      | nil => intro w1 c1 h1 _; exact ⟨c1, h1⟩
      | cons m ms ih =>
        intro w1 c1 h1 hp
        cases hpa : w1.pendingAt with
        | nil => rw [hpa] at hp; cases hp
        | cons y ys =>
          rw [hpa] at hp
          simp only [List.map_cons, List.cons.injEq] at hp
          have c2 : CInv w1.popPending :=
            ⟨c1.offPar, c1.bufPar, c1.offAt, c1.bufAt,
              fun z hz => c1.penAt z (by rw [hpa]; exact List.mem_cons_of_mem _ (by simpa [World.popPending, hpa] using hz)),
              c1.glob, c1.sers⟩
          have r2 : Ready w1.popPending m := by
            have := c1.penAt y (by rw [hpa]; exact List.mem_cons_self)
            rw [hp.1] at this
            simpa [Ready, World.popPending, hpa] using this
          have h2 : HInv w1.popPending := h1.frame (frame_popPending w1)
          have e3 : (w1.popPending.send env m).pendingAt = ys := by
            rw [(pen_basic env).send w1.popPending m]
            simp [World.popPending, hpa]
          exact ih _ (cinv_send env _ m c2 h2 r2) (h2.frame (frame_send env _ m)) (by rw [e3]; exact hp.2)
    exact key w.buffer _ ⟨c.offPar, rfl, c.offAt, by simp, c.bufAt, c.glob, c.sers⟩ hh c.bufPar

/-! ## Programs -/
mutual
/-- no serializer declared by the statement and no `add_global_fields` of it names `task_uuid` /
`task_level` (for serializers this is what `_MessageSerializer.__init__` enforces) -/
def Stmt.placeOk : Stmt → Bool
  | .withAction _ sp b => sersOk sp.sers && b.placeOk
  | .log ms => msersOk ms.sers
  | .tryCatch b h => b.placeOk && h.placeOk
  | .startAs _ _ sp => sersOk sp.sers
  | .withHandle _ b => b.placeOk
  | .inContext _ b => b.placeOk
  | .runIn _ b => b.placeOk
  | .logTo _ ms => msersOk ms.sers
  | .continueWith _ sp b => sersOk sp.sers && b.placeOk
  | .addGlobals fs => fieldsFree fs
  | _ => true
def Block.placeOk : Block → Bool
  | .nil => true
  | .cons s r => s.placeOk && r.placeOk
end

theorem KeepsL.length_le {l l' : List Act} (k : KeepsL l l') : l.length ≤ l'.length := by
  rcases Nat.lt_or_ge l'.length l.length with h | h
  · obtain ⟨a', ha', _⟩ := k l'.length l[l'.length] (List.getElem?_eq_getElem h)
    exact absurd (lt_of_getElem?_some ha') (Nat.lt_irrefl _)
  · exact h

theorem lookupNat_setNat {α} (l : List (Nat × α)) (k : Nat) (v : α) (x : Nat) (y : α)
    (h : lookupNat (setNat l k v) x = some y) : (x = k ∧ y = v) ∨ lookupNat l x = some y := by
  induction l with
  | nil =>
    simp only [setNat, lookupNat] at h
    split at h
    · rename_i e; cases h; exact Or.inl ⟨e.symm, rfl⟩
    · cases h
  | cons p r ih =>
    obtain ⟨k', v'⟩ := p
    simp only [setNat] at h
    split at h
    · rename_i e
      simp only [lookupNat] at h ⊢
      split at h
      · rename_i e2; cases h; exact Or.inl ⟨e2.symm, rfl⟩
      · rename_i e2; rw [if_neg (by rw [e]; exact e2)]; exact Or.inr h
    · simp only [lookupNat] at h ⊢
      split at h
      · rename_i e2; rw [if_pos e2]; exact Or.inr h
      · rename_i e2; rw [if_neg e2]; exact ih h

/-- layer 2 with what it needs: slot invariant (uuid bounds for the frame lemmas), handle validity -/
def L2 (w : World) : Prop := SInv w ∧ CInv w ∧ HInv w

theorem L2.init : L2 {} := ⟨SInv.init, CInv.init, HInv.init⟩

theorem l2_finishRec (env : Env) (w : World) (h : Nat) (exc : Option Exc) (hw : L2 w) : L2 (w.finishRec env h exc) :=
  ⟨(sinv_basic env).prim.finishRec w h exc hw.1, cinv_finishRec env w h exc hw.2.1 hw.2.2,
    hw.2.2.frame (frame_finishRec env w h exc)⟩

theorem withBlock_l2 (env : Env) (w : World) (h : Nat) (run : World → World × Outcome) (hv : h < w.acts.length) (hw : L2 w)
    (hrun : ∀ w', L2 w' → L2 (run w').1) (hk : ∀ w', Keeps w' (run w').1) : L2 (withBlock env w h run).1 := by
  unfold withBlock
  have h1 : L2 { w with ctx := some h } :=
    ⟨hw.1, hw.2.1, fun x hx => by cases hx; exact hv, hw.2.2.2⟩
  have h2 := hrun _ h1
  have hlen : w.acts.length ≤ (run { w with ctx := some h }).1.acts.length := (hk { w with ctx := some h }).length_le
  have h3 : L2 { (run { w with ctx := some h }).1 with ctx := w.ctx } :=
    ⟨h2.1, h2.2.1, fun x hx => Nat.lt_of_lt_of_le (hw.2.2.1 x hx) hlen, h2.2.2.2⟩
  exact l2_finishRec env _ h _ h3

theorem scopedBlock_l2 (w : World) (h : Nat) (run : World → World × Outcome) (hv : h < w.acts.length) (hw : L2 w)
    (hrun : ∀ w', L2 w' → L2 (run w').1) (hk : ∀ w', Keeps w' (run w').1) : L2 (scopedBlock w h run).1 := by
  unfold scopedBlock
  have h1 : L2 { w with ctx := some h } :=
    ⟨hw.1, hw.2.1, fun x hx => by cases hx; exact hv, hw.2.2.2⟩
  have h2 := hrun _ h1
  have hlen : w.acts.length ≤ (run { w with ctx := some h }).1.acts.length := (hk { w with ctx := some h }).length_le
  exact ⟨h2.1, h2.2.1, fun x hx => Nat.lt_of_lt_of_le (hw.2.2.1 x hx) hlen, h2.2.2.2⟩

theorem l2_startAction (env : Env) (w : World) (task : Bool) (sp : Spec) (hs : sersOk sp.sers = true) (hw : L2 w) :
    L2 (w.startAction env task sp).1 ∧ (w.startAction env task sp).2 < (w.startAction env task sp).1.acts.length := by
  obtain ⟨c, hv⟩ := cinv_startAction env w task sp hw.2.1 hw.2.2 hs
  exact ⟨⟨(sinv_basic env).prim.startAction w task sp hw.1, c, hw.2.2.frame (frame_startAction env w task sp hw.1.ubA)⟩, hv⟩

mutual
theorem execS_l2 (env : Env) (cur : Option Exc) (w : World) (s : Stmt) (hs : s.placeOk = true) (hw : L2 w) :
    L2 (execS env cur w s).1 := by
  cases s with
  | withAction task sp body =>
    simp only [Stmt.placeOk, Bool.and_eq_true] at hs
    simp only [execS]
    obtain ⟨h1, hv⟩ := l2_startAction env w task sp hs.1 hw
    exact withBlock_l2 env _ _ _ hv h1 (fun w' => execB_l2 env cur w' body hs.2) (fun w' => keeps_execB env cur w' body)
  | log ms =>
    exact ⟨(sinv_basic env).prim.logMessage w ms hw.1, cinv_logMessage env w ms hw.2.1 hw.2.2 hs,
      hw.2.2.frame (frame_logMessage env w ms)⟩
  | raise i => exact hw
  | tryCatch body handler =>
    simp only [Stmt.placeOk, Bool.and_eq_true] at hs
    simp only [execS]
    have hb := execB_l2 env cur w body hs.1 hw
    split
    · rename_i w1 e heq
      rw [heq] at hb
      exact execB_l2 env (some e) w1 handler hs.2 hb
    · exact hb
  | writeTraceback =>
    simp only [execS]
    cases cur with
    | none => exact hw
    | some e =>
      exact ⟨(sinv_basic env).prim.writeTraceback w e hw.1, cinv_writeTraceback env w e hw.2.1 hw.2.2,
        hw.2.2.frame (frame_writeTraceback env w e)⟩
  | startAs x task sp =>
    simp only [execS]
    obtain ⟨h1, hv⟩ := l2_startAction env w task sp hs hw
    refine ⟨h1.1, h1.2.1, h1.2.2.1, fun y z hy => ?_⟩
    rcases lookupNat_setNat _ _ _ _ _ hy with ⟨_, rfl⟩ | hy
    · exact hv
    · exact h1.2.2.2 y z hy
  | withHandle x body =>
    simp only [execS]
    cases hx : lookupNat w.vars x with
    | none => exact hw
    | some h =>
      exact withBlock_l2 env _ _ _ (hw.2.2.2 x h hx) hw (fun w' => execB_l2 env cur w' body hs) (fun w' => keeps_execB env cur w' body)
  | inContext x body =>
    simp only [execS]
    cases hx : lookupNat w.vars x with
    | none => exact hw
    | some h =>
      exact scopedBlock_l2 _ _ _ (hw.2.2.2 x h hx) hw (fun w' => execB_l2 env cur w' body hs) (fun w' => keeps_execB env cur w' body)
  | runIn x body =>
    simp only [execS]
    cases hx : lookupNat w.vars x with
    | none => exact hw
    | some h =>
      exact scopedBlock_l2 _ _ _ (hw.2.2.2 x h hx) hw (fun w' => execB_l2 env cur w' body hs) (fun w' => keeps_execB env cur w' body)
  | finish x exc =>
    simp only [execS]
    cases lookupNat w.vars x with
    | none => exact hw
    | some h => exact l2_finishRec env w h _ hw
  | addSuccess x fs =>
    simp only [execS]
    split
    · rename_i h _
      split
      · rename_i a ha
        exact ⟨(sinv_basic env).succ w h a fs ha hw.1,
          hw.2.1.reacts (KeepsL.set _ h a _ ha rfl rfl rfl rfl id) (sers_set hw.2.1.sers ha rfl),
          hw.2.2.mono rfl rfl (by simp)⟩
      · exact hw
    · exact hw
  | logTo x ms =>
    simp only [execS]
    cases hx : lookupNat w.vars x with
    | none => exact hw
    | some h =>
      exact ⟨(sinv_basic env).prim.logTo w h ms hw.1, cinv_logTo env w h ms hw.2.1 hw.2.2 hs (hw.2.2.2 x h hx),
        hw.2.2.frame (frame_logTo env w h ms)⟩
  | serializeAs y x =>
    simp only [execS]
    split
    · rename_i h _
      split
      · rename_i a ha
        exact ⟨sinv_reserve w h a y ha hw.1, cinv_nextLevel w h hw.2.1,
          (show HInv (w.nextLevel h).1 from hw.2.2.frame (frame_nextLevel w h))⟩
      · exact hw
    · exact hw
  | continueWith y sp body =>
    simp only [Stmt.placeOk, Bool.and_eq_true] at hs
    simp only [execS]
    cases hl : lookupNat w.ids y with
    | none => exact hw
    | some p =>
      obtain ⟨u, lvl⟩ := p
      have hu : u < w.nextUuid := hw.1.ubI (y, (u, lvl)) (Sys.C04.lookupNat_mem _ _ _ hl)
      obtain ⟨c, hv⟩ := cinv_continueTask env ({ w with ids := w.ids.filter (fun e => e.1 != y) } : World) u lvl sp
        hw.2.1 hw.2.2 hs.1
      have h1 : L2 (World.continueTask env ({ w with ids := w.ids.filter (fun e => e.1 != y) } : World) u lvl sp).1 :=
        ⟨(sinv_basic env).prim.continueTask w y u lvl sp hl hw.1, c,
          HInv.frame (frame_continueTask env ({ w with ids := w.ids.filter (fun e => e.1 != y) } : World) u lvl sp hu) hw.2.2⟩
      exact withBlock_l2 env _ _ _ hv h1 (fun w' => execB_l2 env cur w' body hs.2) (fun w' => keeps_execB env cur w' body)
  | addDests ds =>
    simp only [execS]
    obtain ⟨c, hh⟩ := cinv_addDests env w ds hw.2.1 hw.2.2
    exact ⟨((sinv_basic env).primCfg (sinv_basicCfg env)).addDests w ds hw.1, c, hh⟩
  | removeDest d =>
    simp only [execS]
    split
    · exact hw
    · exact hw
  | addGlobals fs =>
    simp only [Stmt.placeOk] at hs
    exact ⟨hw.1, ⟨hw.2.1.offPar, hw.2.1.bufPar, hw.2.1.offAt, hw.2.1.bufAt, hw.2.1.penAt,
      fieldsFree_update hw.2.1.glob hs, hw.2.1.sers⟩, hw.2.2⟩
  | probe n => exact hw
theorem execB_l2 (env : Env) (cur : Option Exc) (w : World) (b : Block) (hs : b.placeOk = true) (hw : L2 w) :
    L2 (execB env cur w b).1 := by
  cases b with
  | nil => exact hw
  | cons s rest =>
    simp only [Block.placeOk, Bool.and_eq_true] at hs
    simp only [execB]
    have h1 := execS_l2 env cur w s hs.1 hw
    split
    · rename_i w1 heq
      rw [heq] at h1
      exact execB_l2 env cur w1 rest hs.2 h1
    · exact h1
end

/-! ## Consequences: offered messages sit at pairwise different handed-out places -/

/-- the place a dict claims: its `task_uuid` and `task_level` fields -/
def place (m : Msg) : Option FV × Option FV := (m.get? "task_uuid", m.get? "task_level")

theorem nodup_map_of_filterMap {α β γ} (f : α → β) (g : α → Option γ) (l : List α) (hn : (l.filterMap g).Nodup)
    (hall : ∀ x ∈ l, ∃ s, g x = some s)
    (hinj : ∀ x ∈ l, ∀ y ∈ l, ∀ s t, g x = some s → g y = some t → f x = f y → s = t) : (l.map f).Nodup := by
  induction l with
  | nil => exact List.nodup_nil
  | cons x xs ih =>
    obtain ⟨s, hs⟩ := hall x List.mem_cons_self
    rw [List.filterMap_cons_some hs, List.nodup_cons] at hn
    rw [List.map_cons, List.nodup_cons]
    refine ⟨fun hm => ?_, ih hn.2 (fun y hy => hall y (List.mem_cons_of_mem _ hy))
      (fun y hy z hz => hinj y (List.mem_cons_of_mem _ hy) z (List.mem_cons_of_mem _ hz))⟩
    obtain ⟨y, hy, hfy⟩ := List.mem_map.mp hm
    obtain ⟨t, ht⟩ := hall y (List.mem_cons_of_mem _ hy)
    have : s = t := hinj x List.mem_cons_self y (List.mem_cons_of_mem _ hy) s t hs ht hfy.symm
    exact hn.1 (List.mem_filterMap.mpr ⟨y, hy, this ▸ ht⟩)

/-- two dicts that carry the places of two slots and claim the same place were built for the same slot -/
theorem AtSlot.inj {w : World} (inv : SInv w) {m m' : Msg} {s t : Slot} (h1 : AtSlot w.acts m s) (h2 : AtSlot w.acts m' t)
    (e : place m = place m') : s = t := by
  obtain ⟨a, ha, u1, l1⟩ := h1
  obtain ⟨b, hb, u2, l2⟩ := h2
  have eu : m.get? "task_uuid" = m'.get? "task_uuid" := congrArg Prod.fst e
  have el : m.get? "task_level" = m'.get? "task_level" := congrArg Prod.snd e
  rw [u1, u2] at eu
  rw [l1, l2] at el
  have eu' : a.uuid = b.uuid := by injection eu with eu; injection eu
  have el' : a.level ++ [s.2] = b.level ++ [t.2] := by injection el with el; injection el
  obtain ⟨f1, f2⟩ := List.append_inj' el' rfl
  exact Prod.ext (inv.inj s.1 t.1 a b ha hb eu' f1) (by simpa using f2)

/-- **every offered message sits at a handed-out position** -/
theorem offered_at_slot {w : World} (h1 : L1 w) (h2 : L2 w) (d : Nat) (m : Msg) (hm : (d, m) ∈ w.offered) :
    ∃ s ∈ w.slots, AtSlot w.acts m s := by
  rw [← h2.2.1.offPar] at hm
  obtain ⟨x, hx, e⟩ := List.mem_map.mp hm
  obtain ⟨s, hs, hat⟩ := h2.2.1.offAt x hx
  have : x.2.1 = m := congrArg Prod.snd e
  exact ⟨s, h1.2.1.offIn x hx s hs, this ▸ hat⟩

/-- **no two messages offered to one destination claim the same place** (no destination registered twice) -/
theorem offered_places_nodup {w : World} (h1 : L1 w) (h2 : L2 w) (hd : w.dupAdd = false) (d : Nat) :
    ((offeredTo w d).map place).Nodup := by
  have e : (offeredTo w d).map place = (w.offeredAt.filter (fun x => x.1 == d)).map (fun x => place x.2.1) := by
    unfold offeredTo
    rw [← h2.2.1.offPar, List.filter_map, List.map_map, List.map_map]
    rfl
  rw [e]
  have hn : ((w.offeredAt.filter (fun x => x.1 == d)).filterMap (fun x => x.2.2)).Nodup := (h1.2.2 hd).offNodup d
  refine nodup_map_of_filterMap _ (fun x => x.2.2) _ hn (fun x hx => ?_) (fun x hx y hy s t hs ht e => ?_)
  · obtain ⟨s, hs, _⟩ := h2.2.1.offAt x (List.mem_filter.mp hx).1
    exact ⟨s, hs⟩
  · obtain ⟨s', hs', a1⟩ := h2.2.1.offAt x (List.mem_filter.mp hx).1
    obtain ⟨t', ht', a2⟩ := h2.2.1.offAt y (List.mem_filter.mp hy).1
    have es : s' = s := Option.some.inj (hs'.symm.trans hs)
    have et : t' = t := Option.some.inj (ht'.symm.trans ht)
    subst es; subst et
    exact AtSlot.inj h1.1 a1 a2 e

/-- the same for the messages waiting in the buffer (before the first `Destinations.add`) -/
theorem buffered_at_slot {w : World} (h1 : L1 w) (h2 : L2 w) (m : Msg) (hm : m ∈ w.buffer) :
    ∃ s ∈ w.slots, AtSlot w.acts m s := by
  rw [← h2.2.1.bufPar] at hm
  obtain ⟨y, hy, e⟩ := List.mem_map.mp hm
  obtain ⟨s, hs, hat⟩ := h2.2.1.bufAt y hy
  refine ⟨s, h1.2.1.waitIn s ?_, e ▸ hat⟩
  unfold waitS
  exact List.mem_append_right _ (List.mem_filterMap.mpr ⟨y, List.mem_append_right _ hy, hs⟩)

/-- both layers hold after every program that keeps the place keys free -/
theorem places_execB (env : Env) (p : Block) (hp : p.placeOk = true) :
    L1 (execB env none {} p).1 ∧ L2 (execB env none {} p).1 :=
  ⟨l1_execB env none {} p L1.init, execB_l2 env none {} p hp L2.init⟩

end Sys
