import Eliot.Proofs.ParseFlat
import Eliot.Proofs.ParseParser
/-!
# `Parser` over the flat tasks refines `Parser` over the tries

`FParser.add` (`Model/ParseFlat.lean`, the function the driver runs against the real `Parser`) routes by uuid, adds, hands back and
discards exactly like `PM.Parser.add`, on `FTask`s.
`PInv`: the two parsers hold the same uuids in the same order, task by task related by `Inv`.
`FParser.add_refines` / `FParser.feed_refines`: preserved by every addition inside the domain;
`pdom_of_spec`: messages of a well-formed specification are always inside the domain.
-/
namespace PM

inductive PInv : List (String × FTask) → List (String × Task) → Prop
  | nil : PInv [] []
  | cons {u : String} {ft : FTask} {t : Task} {fp : List (String × FTask)} {p : List (String × Task)} :
      Inv ft t → PInv fp p → PInv ((u, ft) :: fp) ((u, t) :: p)

theorem PInv.lookup {fp : List (String × FTask)} {p : List (String × Task)} (h : PInv fp p) (u : String) :
    Inv ((fp.lookup u).getD {}) ((p.lookup u).getD {}) := by
  induction h with
  | nil => exact Inv.init
  | @cons u' ft t fp p hi _ ih =>
    simp only [List.lookup_cons]
    cases hu : (u == u') with
    | true => simpa using hi
    | false => simpa using ih

theorem PInv.filter {fp : List (String × FTask)} {p : List (String × Task)} (h : PInv fp p) (u : String) :
    PInv (fp.filter (fun e => e.1 != u)) (p.filter (fun e => e.1 != u)) := by
  induction h with
  | nil => exact PInv.nil
  | @cons u' ft t fp p hi _ ih =>
    simp only [List.filter_cons]
    cases hu : (u' != u) with
    | true => simpa using PInv.cons hi ih
    | false => simpa using ih

theorem PInv.append {a : List (String × FTask)} {b : List (String × Task)} {c : List (String × FTask)}
    {d : List (String × Task)} (h1 : PInv a b) (h2 : PInv c d) : PInv (a ++ c) (b ++ d) := by
  induction h1 with
  | nil => simpa using h2
  | cons hi _ ih => exact PInv.cons hi ih

/-- one `Parser.add`: the flat parser follows -/
theorem FParser.add_refines {fp : FParser} {p : Parser} {m : PMsg} {done : List (String × Task)} {p' : Parser}
    (hinv : PInv fp p) (hdom : PlainDom ((p.lookup m.uuid).getD {}) m) (h : p.add m = .ok (done, p')) :
    ∃ fdone fp', fp.add m = .ok (fdone, fp') ∧ PInv fdone done ∧ PInv fp' p' := by
  unfold Parser.add at h
  simp only [bind, Except.bind] at h
  cases hadd : ((p.lookup m.uuid).getD {}).add m with
  | error e => simp [hadd] at h
  | ok t' =>
    simp only [hadd] at h
    obtain ⟨ft', hf, hinv'⟩ := PM.add_refines (hinv.lookup m.uuid) hdom hadd
    unfold FParser.add
    simp only [bind, Except.bind, hf, hinv'.complete_eq]
    by_cases hc : t'.isComplete = true
    · simp only [hc, if_true, pure, Except.pure] at h ⊢
      cases h
      exact ⟨_, _, rfl, PInv.cons hinv' PInv.nil, hinv.filter _⟩
    · simp only [hc, Bool.false_eq_true, if_false, pure, Except.pure] at h ⊢
      cases h
      exact ⟨_, _, rfl, PInv.nil, PInv.cons hinv' (hinv.filter _)⟩

/-- every message of the sequence arrives inside the domain of the task it belongs to -/
def DomP (p : Parser) : List PMsg → Prop
  | [] => True
  | m :: ms => PlainDom ((p.lookup m.uuid).getD {}) m ∧ ∀ done p', p.add m = .ok (done, p') → DomP p' ms

theorem FParser.feed_refines : ∀ (ms : List PMsg) (fp : FParser) (p : Parser) (done : List (String × Task)) (p' : Parser),
    PInv fp p → DomP p ms → Parser.feed p ms = .ok (done, p') →
    ∃ fdone fp', FParser.feed fp ms = .ok (fdone, fp') ∧ PInv fdone done ∧ PInv fp' p' := by
  intro ms
  induction ms with
  | nil =>
    intro fp p done p' hinv _ h
    simp only [Parser.feed, pure, Except.pure] at h
    cases h
    exact ⟨[], fp, rfl, PInv.nil, hinv⟩
  | cons m ms ih =>
    intro fp p done p' hinv hdom h
    simp only [Parser.feed, bind, Except.bind] at h
    cases hadd : p.add m with
    | error e => simp [hadd] at h
    | ok r =>
      obtain ⟨d1, p1⟩ := r
      simp only [hadd] at h
      cases hfeed : Parser.feed p1 ms with
      | error e => simp [hfeed] at h
      | ok r2 =>
        obtain ⟨d2, p2⟩ := r2
        simp only [hfeed, pure, Except.pure] at h
        have h' : d1 ++ d2 = done ∧ p2 = p' := by cases h; exact ⟨rfl, rfl⟩
        obtain ⟨rfl, rfl⟩ := h'
        obtain ⟨fd1, fp1, hf1, hi1, hp1⟩ := FParser.add_refines hinv hdom.1 hadd
        obtain ⟨fd2, fp2, hf2, hi2, hp2⟩ := ih fp1 p1 d2 p2 hp1 (hdom.2 d1 p1 hadd) hfeed
        refine ⟨fd1 ++ fd2, fp2, ?_, hi1.append hi2, hp2⟩
        simp only [FParser.feed, bind, Except.bind, hf1, hf2, pure, Except.pure]

/-- a message of a well-formed specification that has not arrived yet is inside the domain of the task the parser holds for it -/
theorem pdom_of_spec {S : PMsg → Bool} {ts : Spec} {p : Parser} (hwf : ts.WF) (hp : POK S ts p)
    {u : String} {t : Tree} (ht : (u, t) ∈ ts) {m : PMsg} (hm : m ∈ tmsgs u t) (hS : S m = false) :
    PlainDom ((p.lookup m.uuid).getD {}) m := by
  have hmu : m.uuid = u := tmsgs_uuid u t m hm
  cases t with
  | leaf b =>
    simp only [tmsgs, List.mem_cons, List.not_mem_nil, or_false] at hm
    have hnone : p.lookup m.uuid = none := by
      apply lookup_none_of_not_mem
      intro T hT
      rw [hmu] at hT
      obtain ⟨t', ht', _, ⟨x, hx, hxs⟩, _⟩ := hp.sound _ T hT
      have := hwf.unique ht ht'
      subst this
      simp only [tmsgs, List.mem_cons, List.not_mem_nil, or_false] at hx
      rw [hx, ← hm, hS] at hxs; cases hxs
    rw [hnone]
    intro _
    subst hm
    simp [leafMsg]
  | node a sb eb ok kids =>
    cases hl : p.lookup m.uuid with
    | none =>
      intro _
      simp only [Option.getD_none]
      split
      · trivial
      · intro x hx; simp [Task.lookup] at hx
    | some T =>
      have hT : (u, T) ∈ p := by rw [← hmu]; exact mem_of_lookup hl
      obtain ⟨t', ht', hT', _, _⟩ := hp.sound u T hT
      have := hwf.unique ht ht'; subst this
      simp only [Option.getD_some]
      intro hat
      have hl1 := (Tree.msgs_root_level u a sb eb ok kids m hm).2 hat
      simp only [hl1, if_false]
      obtain ⟨q, hq, hx⟩ := Tree.plain_lookup u _ [] m hm hat
      intro x hh
      simp only [List.nil_append] at hq
      have hroot : T.root = Tree.view S u (.node a sb eb ok kids) [] := hT'.root
      rw [Task.lookup, hroot, hq] at hh
      exact hx S x hh

end PM
