/-! Finite sums over thread indices `0 .. n-1` and their behaviour under a point update. -/
namespace Eliot.Conc

def sumTo (n : Nat) (f : Nat → Nat) : Nat :=
  match n with
  | 0 => 0
  | k + 1 => sumTo k f + f k

theorem sumTo_congr {n : Nat} {f g : Nat → Nat} (h : ∀ x, x < n → f x = g x) : sumTo n f = sumTo n g := by
  induction n with
  | zero => rfl
  | succ k ih =>
    simp only [sumTo]
    rw [ih (fun x hx => h x (Nat.lt_succ_of_lt hx)), h k (Nat.lt_succ_self k)]

/-- changing the summand at one index `i < n` -/
theorem sumTo_update {n : Nat} {f g : Nat → Nat} {i : Nat} (hi : i < n) (h : ∀ x, x ≠ i → f x = g x) :
    sumTo n f + g i = sumTo n g + f i := by
  induction n with
  | zero => omega
  | succ k ih =>
    simp only [sumTo]
    by_cases hik : i = k
    · subst hik
      have : sumTo i f = sumTo i g := sumTo_congr (fun x hx => h x (Nat.ne_of_lt hx))
      omega
    · have hlt : i < k := by omega
      have := ih hlt
      have hk : f k = g k := h k (fun e => hik e.symm)
      omega

theorem sumTo_zero {n : Nat} {f : Nat → Nat} (h : ∀ x, x < n → f x = 0) : sumTo n f = 0 := by
  induction n with
  | zero => rfl
  | succ k ih => simp only [sumTo]; rw [ih (fun x hx => h x (Nat.lt_succ_of_lt hx)), h k (Nat.lt_succ_self k)]

end Eliot.Conc
