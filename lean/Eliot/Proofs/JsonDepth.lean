import Eliot.Proofs.JsonCodec
/-! `encode` = `encodeU` guarded by orjson's nesting limit: the `encodeU` lemmas carried over. -/
namespace EJ

theorem encode_ok_iff (v : JVal) (s : List Nat) :
    encode v = .ok s ↔ v.depth ≤ maxDepth ∧ encodeU v = .ok s := by
  unfold encode
  by_cases h : v.depth ≤ maxDepth <;> simp [h]

/-- more than 254 nested containers: refused, whatever is inside -/
theorem encode_depth_refused (v : JVal) (h : maxDepth < v.depth) : encode v = .error .depth := by
  unfold encode
  have : ¬ v.depth ≤ maxDepth := by omega
  simp [this]

theorem encode_ne_nil (v : JVal) (s : List Nat) (h : encode v = .ok s) : s ≠ [] :=
  encodeU_ne_nil v s ((encode_ok_iff v s).mp h).2

theorem encode_no_newline (v : JVal) (s : List Nat) (h : encode v = .ok s) : 10 ∉ s ∧ 13 ∉ s :=
  encodeU_no_newline v s ((encode_ok_iff v s).mp h).2

theorem encode_scalar (v : JVal) (s : List Nat) (h : encode v = .ok s) : ∀ c ∈ s, Scalar c :=
  encodeU_scalar v s ((encode_ok_iff v s).mp h).2

theorem encode_is_object (kvs : List (List Nat × JVal)) (s : List Nat) (h : encode (.obj kvs) = .ok s) :
    s.head? = some 123 ∧ s.getLast? = some 125 :=
  encodeU_is_object kvs s ((encode_ok_iff _ s).mp h).2

/-- a JSON-native value nested in at most 254 containers is never refused -/
theorem encode_native_ok (v : JVal) (h : JsonNative v) (hd : v.depth ≤ maxDepth) : ∃ s, encode v = .ok s := by
  obtain ⟨s, hs⟩ := encodeU_native_ok v h
  exact ⟨s, (encode_ok_iff v s).mpr ⟨hd, hs⟩⟩

theorem decode_encode_pairs (v : JVal) (s : List Nat) (hn : JsonNative v) (h : encode v = .ok s) :
    decode s = some v :=
  decode_encodeU_pairs v s hn ((encode_ok_iff v s).mp h).2

theorem decode_encode (v : JVal) (s : List Nat) (hn : JsonNative v) (hd : NodupKeysDeep v)
    (h : encode v = .ok s) : loads s = some v :=
  decode_encodeU v s hn hd ((encode_ok_iff v s).mp h).2

theorem native_of_encode (v : JVal) (s : List Nat) (h : encode v = .ok s) (hf : FiniteFloats v) :
    JsonNative v :=
  native_of_encodeU v s ((encode_ok_iff v s).mp h).2 hf

end EJ
