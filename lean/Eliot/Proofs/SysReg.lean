import Eliot.Proofs.SysFan
import Eliot.Proofs.SysBasic
/-! Registration facts for programs that (un)register destinations while they run.

`World.stageAt` (ghost, parallel to `stage`) records `dests` at the moment an entry is staged.
`Reg` is the invariant "the sequence of destination calls is exactly what the staged entries and the
destinations registered at their staging moments prescribe"; it is preserved by every basic step
(`regBasicD`) and by the configuration statements (`regPrimCfg`), hence by every program.
`Unreg d` is the relation "an unregistered destination stays unregistered and is offered nothing";
it is lifted over programs that never add `d` (`execB_liftQ`). -/
namespace Sys

/-- the staged entries, each with the destinations registered when it was staged -/
def World.staged (w : World) : List (Msg × List Nat) := w.stage.zip w.stageAt

/-- the destination calls prescribed by a list of staged entries: entry by entry, every destination
registered at that moment, in registration order -/
def fanCalls (l : List (Msg × List Nat)) : List (Nat × Msg) := l.flatMap (fun e => e.2.map (fun d => (d, e.1)))

/-- the entries staged while `d` was registered, in stage order, each as often as `d` was registered -/
def seenBy (d : Nat) (l : List (Msg × List Nat)) : List Msg := l.flatMap (fun e => List.replicate (e.2.count d) e.1)

/-- the entries staged while `d` was registered, in stage order, each exactly once -/
def stagedWhile (d : Nat) (l : List (Msg × List Nat)) : List Msg := (l.filter (fun e => e.2.contains d)).map (·.1)

theorem map_filter_fst (ds : List Nat) (m : Msg) (d : Nat) :
    ((ds.map (fun d' => (d', m))).filter (fun e => e.1 == d)).map (·.2) = List.replicate (ds.count d) m := by
  induction ds with
  | nil => rfl
  | cons x xs ih =>
    simp only [List.map_cons, List.filter, List.count_cons]
    by_cases hx : x = d
    · subst hx
      simp only [beq_self_eq_true, List.map_cons, ih, if_true, List.replicate_succ']
      rw [← List.replicate_succ, List.replicate_succ']
    · have hb : (x == d) = false := by simpa using hx
      simp only [hb, ih]
      simp

theorem fanCalls_filter (d : Nat) (l : List (Msg × List Nat)) :
    ((fanCalls l).filter (fun e => e.1 == d)).map (·.2) = seenBy d l := by
  induction l with
  | nil => rfl
  | cons e es ih =>
    simp only [fanCalls, seenBy, List.flatMap_cons, List.filter_append, List.map_append] at ih ⊢
    rw [ih, map_filter_fst]

theorem fanCalls_append (a b : List (Msg × List Nat)) : fanCalls (a ++ b) = fanCalls a ++ fanCalls b := by
  simp [fanCalls, List.flatMap_append]

theorem seenBy_append (d : Nat) (a b : List (Msg × List Nat)) : seenBy d (a ++ b) = seenBy d a ++ seenBy d b := by
  simp [seenBy, List.flatMap_append]

theorem count_nodup (l : List Nat) (hn : l.Nodup) (d : Nat) : l.count d = if l.contains d then 1 else 0 := by
  induction l with
  | nil => rfl
  | cons x xs ih =>
    simp only [List.nodup_cons] at hn
    simp only [List.count_cons, ih hn.2, List.contains_cons]
    by_cases hx : x = d
    · subst hx
      simp [hn.1]
    · have hb : (x == d) = false := by simpa using hx
      have hb' : (d == x) = false := by simpa using (Ne.symm hx)
      simp [hb, hb']

/-- no destination registered twice at any staging moment: "as often as registered" is "once" -/
theorem seenBy_eq_stagedWhile (d : Nat) (l : List (Msg × List Nat)) (hn : ∀ e ∈ l, e.2.Nodup) :
    seenBy d l = stagedWhile d l := by
  induction l with
  | nil => rfl
  | cons e es ih =>
    have h1 := ih (fun e' he' => hn e' (List.mem_cons_of_mem _ he'))
    simp only [seenBy, stagedWhile, List.flatMap_cons, List.filter] at h1 ⊢
    rw [h1, count_nodup e.2 (hn e List.mem_cons_self) d]
    cases e.2.contains d <;> simp

theorem mem_zip_snd {α β} {l : List α} {r : List β} {e : α × β} (h : e ∈ l.zip r) : e.2 ∈ r :=
  (List.of_mem_zip h).2

/-! ### the invariant -/
structure Reg (env : Env) (w : World) : Prop where
  len : w.stageAt.length = w.stage.length
  /-- the whole call sequence, across destinations -/
  off : w.offered = fanCalls w.staged
  /-- a destination that never raises accepts whatever it is offered -/
  acc : ∀ d, healthy env d → acceptedBy w d = offeredTo w d
  /-- before the first `Destinations.add` nothing is registered … -/
  idle : w.anyAdded = false → w.dests = []
  /-- … and nothing was ever registered -/
  quiet : w.anyAdded = false → ∀ l ∈ w.stageAt, l = []
  /-- `dupAdd` is exact about the past -/
  nodup : w.dupAdd = false → w.dests.Nodup ∧ ∀ l ∈ w.stageAt, l.Nodup

theorem Reg.init (env : Env) : Reg env {} :=
  ⟨rfl, rfl, fun _ _ => rfl, fun _ => rfl, fun _ _ hl => (nomatch hl), fun _ => ⟨List.nodup_nil, fun _ hl => (nomatch hl)⟩⟩

/-- what only grows -/
structure Grow (w w' : World) : Prop where
  stage : w.stage <+: w'.stage
  stageAt : w.stageAt <+: w'.stageAt
  dup : w.dupAdd = true → w'.dupAdd = true

def RegStep (env : Env) (w w' : World) : Prop := Grow w w' ∧ (Reg env w → Reg env w')

theorem RegStep.refl (env : Env) (w : World) : RegStep env w w :=
  ⟨⟨List.prefix_refl _, List.prefix_refl _, id⟩, id⟩

theorem RegStep.trans {env : Env} {a b c : World} (h1 : RegStep env a b) (h2 : RegStep env b c) : RegStep env a c :=
  ⟨⟨h1.1.stage.trans h2.1.stage, h1.1.stageAt.trans h2.1.stageAt, fun h => h2.1.dup (h1.1.dup h)⟩, fun h => h2.2 (h1.2 h)⟩

/-- steps that touch neither the output stage nor the registration -/
theorem RegStep.ofSame {env : Env} {w w' : World} (h1 : w'.stage = w.stage) (h2 : w'.stageAt = w.stageAt)
    (h3 : w'.offered = w.offered) (h4 : w'.accepted = w.accepted) (h5 : w'.dests = w.dests)
    (h6 : w'.anyAdded = w.anyAdded) (h7 : w'.dupAdd = w.dupAdd) : RegStep env w w' := by
  refine ⟨⟨by rw [h1]; exact List.prefix_refl _, by rw [h2]; exact List.prefix_refl _, fun h => by rw [h7]; exact h⟩, fun r => ?_⟩
  refine ⟨by rw [h1, h2]; exact r.len, by rw [h3, World.staged, h1, h2]; exact r.off, fun d hd => ?_, ?_, ?_, ?_⟩
  · simp only [acceptedBy, offeredTo, h3, h4]; exact r.acc d hd
  · rw [h5, h6]; exact r.idle
  · rw [h2, h6]; exact r.quiet
  · rw [h2, h5, h7]; exact r.nodup

theorem nextLevel_same (w : World) (h : Nat) :
    (w.nextLevel h).1.stage = w.stage ∧ (w.nextLevel h).1.stageAt = w.stageAt ∧ (w.nextLevel h).1.offered = w.offered ∧
    (w.nextLevel h).1.accepted = w.accepted ∧ (w.nextLevel h).1.dests = w.dests ∧ (w.nextLevel h).1.anyAdded = w.anyAdded ∧
    (w.nextLevel h).1.dupAdd = w.dupAdd := by
  unfold World.nextLevel
  cases w.acts[h]? <;> exact ⟨rfl, rfl, rfl, rfl, rfl, rfl, rfl⟩

/-! ### `deliver` -/
theorem callDest_ghost (env : Env) (w : World) (d : Nat) (m : Msg) :
    (w.callDest env d m).1.stageAt = w.stageAt ∧ (w.callDest env d m).1.dupAdd = w.dupAdd := by
  unfold World.callDest
  simp only
  split <;> exact ⟨rfl, rfl⟩

theorem fanOut_ghost (env : Env) (m : Msg) (ds : List Nat) (w : World) :
    (World.fanOut env w m ds).1.stageAt = w.stageAt ∧ (World.fanOut env w m ds).1.dupAdd = w.dupAdd := by
  induction ds generalizing w with
  | nil => exact ⟨rfl, rfl⟩
  | cons d ds ih =>
    simp only [World.fanOut]
    obtain ⟨h1, h2⟩ := ih (w.callDest env d m).1
    obtain ⟨c1, c2⟩ := callDest_ghost env w d m
    exact ⟨h1.trans c1, h2.trans c2⟩

/-- everything `deliver` does to the fields the registration facts speak about -/
theorem deliver_reg_eff (env : Env) (w : World) (m : Msg) :
    (w.deliver env m).1.stage = w.stage ++ [Fields.update m w.globals] ∧
    (w.deliver env m).1.stageAt = w.stageAt ++ [w.dests] ∧
    (w.deliver env m).1.dests = w.dests ∧ (w.deliver env m).1.anyAdded = w.anyAdded ∧
    (w.deliver env m).1.dupAdd = w.dupAdd ∧
    ∃ calls acc, calls = (if w.anyAdded = true then w.dests.map (fun d => (d, Fields.update m w.globals)) else []) ∧
      (w.deliver env m).1.offered = w.offered ++ calls ∧ (w.deliver env m).1.accepted = w.accepted ++ acc ∧
      (∀ e ∈ acc, e.1 ∈ w.dests) ∧
      ∀ d, healthy env d → acc.filter (fun e => e.1 == d) = calls.filter (fun e => e.1 == d) := by
  by_cases ha : w.anyAdded = true
  · have e : (w.deliver env m).1 = { (World.fanOut env { w with stage := w.stage ++ [Fields.update m w.globals], stageAt := w.stageAt ++ [w.dests] } (Fields.update m w.globals) w.dests).1 with lastSlot := none } := by
      simp only [World.deliver, ha, if_true]
    obtain ⟨o1, o2⟩ := fanOut_offered env (Fields.update m w.globals) w.dests
      { w with stage := w.stage ++ [Fields.update m w.globals], stageAt := w.stageAt ++ [w.dests] }
    obtain ⟨g1, g2⟩ := fanOut_ghost env (Fields.update m w.globals) w.dests
      { w with stage := w.stage ++ [Fields.update m w.globals], stageAt := w.stageAt ++ [w.dests] }
    obtain ⟨acc, a1, a2, a3⟩ := fanOut_accepted env (Fields.update m w.globals) w.dests
      { w with stage := w.stage ++ [Fields.update m w.globals], stageAt := w.stageAt ++ [w.dests] }
    have f := frame_fanOut env (Fields.update m w.globals) w.dests
      { w with stage := w.stage ++ [Fields.update m w.globals], stageAt := w.stageAt ++ [w.dests] }
    rw [e]
    refine ⟨o2, g1, f.dests, f.anyAdded, g2, _, acc, rfl, ?_, a1, fun e he => (a2 e he).1, fun d hd => ?_⟩
    · rw [if_pos ha]; exact o1
    · rw [if_pos ha, a3 d hd, List.filter_map]
      rfl
  · have e : (w.deliver env m).1 =
        { w with stage := w.stage ++ [Fields.update m w.globals], stageAt := w.stageAt ++ [w.dests], buffer := trim1000 (w.buffer ++ [Fields.update m w.globals]), bufferAt := trimAt (w.bufferAt ++ [(Fields.update m w.globals, w.lastSlot)]), lastSlot := none } := by
      simp only [World.deliver, ha]; rfl
    rw [e]
    exact ⟨rfl, rfl, rfl, rfl, rfl, [], [], by rw [if_neg ha], by simp, by simp, by simp, by simp⟩

theorem reg_deliver (env : Env) (w : World) (m : Msg) : RegStep env w (w.deliver env m).1 := by
  obtain ⟨h1, h2, h3, h4, h5, calls, acc, hc, h6, h7, _, h9⟩ := deliver_reg_eff env w m
  refine ⟨⟨by rw [h1]; exact List.prefix_append _ _, by rw [h2]; exact List.prefix_append _ _, fun h => by rw [h5]; exact h⟩,
    fun r => ⟨by rw [h1, h2]; simp [r.len], ?_, fun d hd => ?_, by rw [h3, h4]; exact r.idle, ?_, ?_⟩⟩
  · rw [h6, World.staged, h1, h2, List.zip_append r.len.symm, fanCalls_append, ← World.staged, ← r.off, hc]
    congr 1
    by_cases ha : w.anyAdded = true
    · simp [ha, fanCalls]
    · have hd := r.idle (by simpa using ha)
      simp [ha, fanCalls, hd]
  · have := r.acc d hd
    simp only [acceptedBy, offeredTo] at this ⊢
    rw [h6, h7, List.filter_append, List.filter_append, List.map_append, List.map_append, this, h9 d hd]
  · rw [h4, h2]
    intro ha l hl
    rcases List.mem_append.mp hl with hl | hl
    · exact r.quiet ha l hl
    · rw [List.mem_singleton.mp hl]; exact r.idle ha
  · rw [h5, h3, h2]
    intro hd
    refine ⟨(r.nodup hd).1, fun l hl => ?_⟩
    rcases List.mem_append.mp hl with hl | hl
    · exact (r.nodup hd).2 l hl
    · rw [List.mem_singleton.mp hl]; exact (r.nodup hd).1

theorem regBasicD (env : Env) : BasicD env (RegStep env) where
  refl := RegStep.refl env
  trans := RegStep.trans
  deliver := reg_deliver env
  clock := fun _ => RegStep.ofSame rfl rfl rfl rfl rfl rfl rfl
  nextLevel := fun w h => by
    obtain ⟨h1, h2, h3, h4, h5, h6, h7⟩ := nextLevel_same w h
    exact RegStep.ofSame h1 h2 h3 h4 h5 h6 h7
  freshAction := fun _ _ _ => RegStep.ofSame rfl rfl rfl rfl rfl rfl rfl
  extCalls := fun _ => RegStep.ofSame rfl rfl rfl rfl rfl rfl rfl
  serCalls := fun _ => RegStep.ofSame rfl rfl rfl rfl rfl rfl rfl
  setFinished := fun _ _ _ _ => RegStep.ofSame rfl rfl rfl rfl rfl rfl rfl
  appendChild := fun w p _ _ _ _ => by
    obtain ⟨h1, h2, h3, h4, h5, h6, h7⟩ := nextLevel_same w p
    exact RegStep.ofSame h1 h2 h3 h4 h5 h6 h7
  appendRemote := fun _ _ _ _ _ _ _ => RegStep.ofSame rfl rfl rfl rfl rfl rfl rfl
  setCtx := fun _ _ => RegStep.ofSame rfl rfl rfl rfl rfl rfl rfl
  setVars := fun _ _ => RegStep.ofSame rfl rfl rfl rfl rfl rfl rfl
  reserve := fun w h _ _ _ => by
    obtain ⟨h1, h2, h3, h4, h5, h6, h7⟩ := nextLevel_same w h
    exact RegStep.ofSame h1 h2 h3 h4 h5 h6 h7
  probe := fun _ _ => RegStep.ofSame rfl rfl rfl rfl rfl rfl rfl
  succ := fun _ _ _ _ _ => RegStep.ofSame rfl rfl rfl rfl rfl rfl rfl

/-- the re-delivery loop of the first `Destinations.add` -/
theorem flush_lift {env : Env} {R : World → World → Prop} (hb : BasicD env R) (hpop : ∀ w : World, R w w.popPending)
    (buf : List Msg) (w1 : World) : R w1 (buf.foldl (fun acc m => acc.popPending.send env m) w1) := by
  induction buf generalizing w1 with
  | nil => exact hb.refl w1
  | cons m ms ih => exact hb.trans (hb.trans (hpop w1) (hb.send _ m)) (ih _)

theorem reg_addDests (env : Env) (w : World) (ds : List Nat) : RegStep env w (w.addDests env ds) := by
  unfold World.addDests
  split
  · rename_i ha
    refine ⟨⟨List.prefix_refl _, List.prefix_refl _, fun h => by simp [h]⟩, fun r => ?_⟩
    refine ⟨r.len, r.off, r.acc, fun h => absurd ha (by simp [show w.anyAdded = false from h]),
      fun h => absurd ha (by simp [show w.anyAdded = false from h]), fun hd => ?_⟩
    have hd' : (w.dupAdd || hasDup (w.dests ++ ds)) = false := hd
    rw [Bool.or_eq_false_iff] at hd'
    exact ⟨(hasDup_eq_false_iff _).mp hd'.2, (r.nodup hd'.1).2⟩
  · have h0 : RegStep env w { w with anyAdded := true, dests := ds, buffer := [], pendingAt := w.bufferAt, bufferAt := [], dupAdd := w.dupAdd || hasDup ds } := by
      refine ⟨⟨List.prefix_refl _, List.prefix_refl _, fun h => by simp [h]⟩, fun r => ?_⟩
      refine ⟨r.len, r.off, r.acc, fun h => (by cases h), fun h => (by cases h), fun hd => ?_⟩
      have hd' : (w.dupAdd || hasDup ds) = false := hd
      rw [Bool.or_eq_false_iff] at hd'
      exact ⟨(hasDup_eq_false_iff _).mp hd'.2, (r.nodup hd'.1).2⟩
    exact h0.trans (flush_lift (regBasicD env) (fun w => RegStep.ofSame rfl rfl rfl rfl rfl rfl rfl) _ _)

theorem reg_removeDest (env : Env) (w : World) (d : Nat) : RegStep env w { w with dests := w.dests.erase d } := by
  refine ⟨⟨List.prefix_refl _, List.prefix_refl _, id⟩, fun r => ?_⟩
  refine ⟨r.len, r.off, r.acc, fun h => ?_, r.quiet, fun hd => ⟨(r.nodup hd).1.erase d, (r.nodup hd).2⟩⟩
  show w.dests.erase d = []
  rw [r.idle h]; rfl

theorem regPrimCfg (env : Env) : PrimCfg env (RegStep env) where
  addDests := reg_addDests env
  removeDest := reg_removeDest env
  addGlobals := fun _ _ => RegStep.ofSame rfl rfl rfl rfl rfl rfl rfl

/-- every program, from every world -/
theorem reg_execB (env : Env) (cur : Option Exc) (w : World) (p : Block) : RegStep env w (execB env cur w p).1 :=
  execB_lift (regBasicD env).prim cur w p (Or.inr (regPrimCfg env))

/-- the entries staged between two states, with their registrations -/
def newStaged (w w' : World) : List (Msg × List Nat) := w'.staged.drop w.stage.length

theorem staged_split {env : Env} {w w' : World} (g : Grow w w') (r : Reg env w) (r' : Reg env w') :
    w'.staged = w.staged ++ newStaged w w' := by
  obtain ⟨x, hx⟩ := g.stage
  obtain ⟨y, hy⟩ := g.stageAt
  have hl : x.length = y.length := by
    have h1 := r'.len
    rw [← hx, ← hy, List.length_append, List.length_append, r.len] at h1
    omega
  have e : w'.staged = w.staged ++ x.zip y := by
    rw [World.staged, World.staged, ← hx, ← hy, List.zip_append r.len.symm]
  have hlen : w.staged.length = w.stage.length := by simp [World.staged, r.len]
  rw [newStaged, e, ← hlen, List.drop_left']
  rfl

theorem newStaged_eq {w w' : World} {xs : List Msg} {x : List (List Nat)} (h1 : w'.stage = w.stage ++ xs)
    (h2 : w'.stageAt = w.stageAt ++ x) (hl : w.stageAt.length = w.stage.length) : newStaged w w' = xs.zip x := by
  have hlen : (w.stage.zip w.stageAt).length = w.stage.length := by simp [hl]
  rw [newStaged, World.staged, h1, h2, List.zip_append hl.symm, ← hlen, List.drop_left']
  rfl

/-! ### programs that do not (un)register: every new entry is staged under the same registration -/
def Const (w w' : World) : Prop := w'.dests = w.dests ∧ ∃ x, w'.stageAt = w.stageAt ++ x ∧ ∀ l ∈ x, l = w.dests

theorem Const.ofSame {w w' : World} (h1 : w'.stageAt = w.stageAt) (h2 : w'.dests = w.dests) : Const w w' :=
  ⟨h2, [], by simp [h1], fun _ h => (nomatch h)⟩

theorem constBasicD (env : Env) : BasicD env Const where
  refl := fun _ => Const.ofSame rfl rfl
  trans := fun h1 h2 => by
    obtain ⟨d1, x, hx, ax⟩ := h1
    obtain ⟨d2, y, hy, ay⟩ := h2
    refine ⟨d2.trans d1, x ++ y, by rw [hy, hx, List.append_assoc], fun l hl => ?_⟩
    rcases List.mem_append.mp hl with h | h
    · exact ax l h
    · rw [ay l h, d1]
  deliver := fun w m => by
    obtain ⟨_, h2, h3, _⟩ := deliver_reg_eff env w m
    exact ⟨h3, [w.dests], h2, by simp⟩
  clock := fun _ => Const.ofSame rfl rfl
  nextLevel := fun w h => by
    obtain ⟨_, h2, _, _, h5, _, _⟩ := nextLevel_same w h
    exact Const.ofSame h2 h5
  freshAction := fun _ _ _ => Const.ofSame rfl rfl
  extCalls := fun _ => Const.ofSame rfl rfl
  serCalls := fun _ => Const.ofSame rfl rfl
  setFinished := fun _ _ _ _ => Const.ofSame rfl rfl
  appendChild := fun w p _ _ _ _ => by
    obtain ⟨_, h2, _, _, h5, _, _⟩ := nextLevel_same w p
    exact Const.ofSame h2 h5
  appendRemote := fun _ _ _ _ _ _ _ => Const.ofSame rfl rfl
  setCtx := fun _ _ => Const.ofSame rfl rfl
  setVars := fun _ _ => Const.ofSame rfl rfl
  reserve := fun w h _ _ _ => by
    obtain ⟨_, h2, _, _, h5, _, _⟩ := nextLevel_same w h
    exact Const.ofSame h2 h5
  probe := fun _ _ => Const.ofSame rfl rfl
  succ := fun _ _ _ _ _ => Const.ofSame rfl rfl

theorem const_execB (env : Env) (cur : Option Exc) (w : World) (p : Block) (hp : p.noCfg = true) :
    Const w (execB env cur w p).1 :=
  execB_lift (constBasicD env).prim cur w p (Or.inl hp)

theorem seenBy_zip_const (d : Nat) (D : List Nat) (hc : D.count d = 1) (xs : List Msg) (x : List (List Nat))
    (hl : xs.length = x.length) (hx : ∀ l ∈ x, l = D) : seenBy d (xs.zip x) = xs := by
  induction xs generalizing x with
  | nil => rfl
  | cons m ms ih =>
    cases x with
    | nil => cases hl
    | cons l ls =>
      have hl' : ms.length = ls.length := by simpa using hl
      have h1 := ih ls hl' (fun l' h' => hx l' (List.mem_cons_of_mem _ h'))
      simp only [seenBy, List.zip_cons_cons, List.flatMap_cons] at h1 ⊢
      rw [h1, hx l List.mem_cons_self, hc]
      rfl

theorem seenBy_const {env : Env} {w w' : World} {d : Nat} (g : Grow w w') (r : Reg env w) (r' : Reg env w') (c : Const w w')
    (hn : w.dests.Nodup) (hd : d ∈ w.dests) : seenBy d (newStaged w w') = newStage w w' := by
  obtain ⟨xs, hxs⟩ := g.stage
  obtain ⟨_, x, hx, ax⟩ := c
  have hl : xs.length = x.length := by
    have h1 := r'.len
    rw [← hxs, hx, List.length_append, List.length_append, r.len] at h1
    omega
  have hc : w.dests.count d = 1 := by
    rw [count_nodup _ hn]
    simp [hd]
  rw [newStaged_eq hxs.symm hx r.len, seenBy_zip_const d w.dests hc xs x hl ax, newStage, ← hxs, List.drop_left']
  rfl

/-! ### a destination that is not registered -/
def Unreg (d : Nat) (w w' : World) : Prop :=
  d ∉ w.dests → (d ∉ w'.dests ∧ offeredTo w' d = offeredTo w d ∧ acceptedBy w' d = acceptedBy w d)

theorem Unreg.ofSame {d : Nat} {w w' : World} (h1 : w'.offered = w.offered) (h2 : w'.accepted = w.accepted)
    (h3 : w'.dests = w.dests) : Unreg d w w' :=
  fun h => ⟨by rw [h3]; exact h, by simp [offeredTo, h1], by simp [acceptedBy, h2]⟩

theorem unreg_deliver (env : Env) (d : Nat) (w : World) (m : Msg) : Unreg d w (w.deliver env m).1 := by
  obtain ⟨_, _, h3, _, _, calls, acc, hc, h6, h7, h8, _⟩ := deliver_reg_eff env w m
  intro hd
  refine ⟨by rw [h3]; exact hd, ?_, ?_⟩
  · simp only [offeredTo, h6, List.filter_append, List.map_append]
    have : calls.filter (fun e => e.1 == d) = [] := by
      apply List.filter_eq_nil_iff.mpr
      intro e he
      rw [hc] at he
      split at he
      · obtain ⟨y, hy, rfl⟩ := List.mem_map.mp he
        simp only [beq_iff_eq]
        intro h; subst h; exact hd hy
      · cases he
    rw [this]; simp
  · simp only [acceptedBy, h7, List.filter_append, List.map_append]
    have : acc.filter (fun e => e.1 == d) = [] := by
      apply List.filter_eq_nil_iff.mpr
      intro e he
      simp only [beq_iff_eq]
      intro h; subst h; exact hd (h8 e he)
    rw [this]; simp

theorem unregBasicD (env : Env) (d : Nat) : BasicD env (Unreg d) where
  refl := fun _ h => ⟨h, rfl, rfl⟩
  trans := fun h1 h2 h => by
    obtain ⟨a1, a2, a3⟩ := h1 h
    obtain ⟨b1, b2, b3⟩ := h2 a1
    exact ⟨b1, b2.trans a2, b3.trans a3⟩
  deliver := unreg_deliver env d
  clock := fun _ => Unreg.ofSame rfl rfl rfl
  nextLevel := fun w h => by
    obtain ⟨_, _, h3, h4, h5, _, _⟩ := nextLevel_same w h
    exact Unreg.ofSame h3 h4 h5
  freshAction := fun _ _ _ => Unreg.ofSame rfl rfl rfl
  extCalls := fun _ => Unreg.ofSame rfl rfl rfl
  serCalls := fun _ => Unreg.ofSame rfl rfl rfl
  setFinished := fun _ _ _ _ => Unreg.ofSame rfl rfl rfl
  appendChild := fun w p _ _ _ _ => by
    obtain ⟨_, _, h3, h4, h5, _, _⟩ := nextLevel_same w p
    exact Unreg.ofSame h3 h4 h5
  appendRemote := fun _ _ _ _ _ _ _ => Unreg.ofSame rfl rfl rfl
  setCtx := fun _ _ => Unreg.ofSame rfl rfl rfl
  setVars := fun _ _ => Unreg.ofSame rfl rfl rfl
  reserve := fun w h _ _ _ => by
    obtain ⟨_, _, h3, h4, h5, _, _⟩ := nextLevel_same w h
    exact Unreg.ofSame h3 h4 h5
  probe := fun _ _ => Unreg.ofSame rfl rfl rfl
  succ := fun _ _ _ _ _ => Unreg.ofSame rfl rfl rfl

/-! ### programs whose `add_destinations` calls all satisfy a condition -/
mutual
/-- every `add_destinations(*ds)` in the statement has `q ds` -/
def Stmt.addsOnly (q : List Nat → Bool) : Stmt → Bool
  | .withAction _ _ b => b.addsOnly q
  | .tryCatch b h => b.addsOnly q && h.addsOnly q
  | .withHandle _ b => b.addsOnly q
  | .inContext _ b => b.addsOnly q
  | .runIn _ b => b.addsOnly q
  | .continueWith _ _ b => b.addsOnly q
  | .addDests ds => q ds
  | _ => true
def Block.addsOnly (q : List Nat → Bool) : Block → Bool
  | .nil => true
  | .cons s r => s.addsOnly q && r.addsOnly q
end

/-- the statement never registers `d` -/
def Stmt.neverAdds (d : Nat) (s : Stmt) : Bool := s.addsOnly (fun ds => !ds.contains d)
def Block.neverAdds (d : Nat) (b : Block) : Bool := b.addsOnly (fun ds => !ds.contains d)

/-- the configuration statements, `add_destinations` only for argument lists with `q` -/
structure PrimCfgQ (env : Env) (q : List Nat → Bool) (G : World → World → Prop) : Prop where
  addDests : ∀ w ds, q ds = true → G w (w.addDests env ds)
  removeDest : ∀ w d, G w { w with dests := w.dests.erase d }
  addGlobals : ∀ w fs, G w { w with globals := w.globals.update fs }

mutual
theorem execS_liftQ {env : Env} {G : World → World → Prop} {q : List Nat → Bool} (hp : Prim env G) (hc : PrimCfgQ env q G)
    (cur : Option Exc) (w : World) (s : Stmt) (hq : s.addsOnly q = true) : G w (execS env cur w s).1 := by
  cases s with
  | withAction task sp body =>
    simp only [execS]
    have hq' : body.addsOnly q = true := by simpa [Stmt.addsOnly] using hq
    exact hp.trans (hp.startAction w task sp) (withBlock_lift hp _ _ _ (fun w' => execB_liftQ hp hc cur w' body hq'))
  | log ms => exact hp.logMessage w ms
  | raise i => exact hp.refl w
  | tryCatch body handler =>
    simp only [execS]
    have hq' : body.addsOnly q = true ∧ handler.addsOnly q = true := by simpa [Stmt.addsOnly] using hq
    have hb := execB_liftQ hp hc cur w body hq'.1
    split
    · rename_i w1 e heq
      rw [heq] at hb
      exact hp.trans hb (execB_liftQ hp hc (some e) w1 handler hq'.2)
    · exact hb
  | writeTraceback =>
    simp only [execS]
    cases cur with
    | none => exact hp.refl w
    | some e => exact hp.writeTraceback w e
  | startAs x task sp =>
    simp only [execS]
    exact hp.trans (hp.startAction w task sp) (hp.setVars _ _)
  | withHandle x body =>
    simp only [execS]
    have hq' : body.addsOnly q = true := by simpa [Stmt.addsOnly] using hq
    cases lookupNat w.vars x with
    | none => exact hp.refl w
    | some h => exact withBlock_lift hp _ _ _ (fun w' => execB_liftQ hp hc cur w' body hq')
  | inContext x body =>
    simp only [execS]
    have hq' : body.addsOnly q = true := by simpa [Stmt.addsOnly] using hq
    cases lookupNat w.vars x with
    | none => exact hp.refl w
    | some h => exact scopedBlock_lift hp _ _ _ (fun w' => execB_liftQ hp hc cur w' body hq')
  | runIn x body =>
    simp only [execS]
    have hq' : body.addsOnly q = true := by simpa [Stmt.addsOnly] using hq
    cases lookupNat w.vars x with
    | none => exact hp.refl w
    | some h => exact scopedBlock_lift hp _ _ _ (fun w' => execB_liftQ hp hc cur w' body hq')
  | finish x exc =>
    simp only [execS]
    cases lookupNat w.vars x with
    | none => exact hp.refl w
    | some h => exact hp.finishRec w h _
  | addSuccess x fs =>
    simp only [execS]
    split
    · rename_i h _
      split
      · rename_i a ha; exact hp.succ w h a fs ha
      · exact hp.refl w
    · exact hp.refl w
  | logTo x ms =>
    simp only [execS]
    cases lookupNat w.vars x with
    | none => exact hp.refl w
    | some h => exact hp.logTo w h ms
  | serializeAs y x =>
    simp only [execS]
    split
    · rename_i h _
      split
      · rename_i a ha; exact hp.reserve w h a y ha
      · exact hp.refl w
    · exact hp.refl w
  | continueWith y sp body =>
    simp only [execS]
    have hq' : body.addsOnly q = true := by simpa [Stmt.addsOnly] using hq
    cases hl : lookupNat w.ids y with
    | none => exact hp.refl w
    | some p =>
      obtain ⟨u, lvl⟩ := p
      exact hp.trans (hp.continueTask w y u lvl sp hl) (withBlock_lift hp _ _ _ (fun w' => execB_liftQ hp hc cur w' body hq'))
  | addDests ds => exact hc.addDests w ds (by simpa [Stmt.addsOnly] using hq)
  | removeDest d =>
    simp only [execS]; split
    · exact hc.removeDest w d
    · exact hp.refl w
  | addGlobals fs => exact hc.addGlobals w fs
  | probe n => exact hp.probe w _
theorem execB_liftQ {env : Env} {G : World → World → Prop} {q : List Nat → Bool} (hp : Prim env G) (hc : PrimCfgQ env q G)
    (cur : Option Exc) (w : World) (b : Block) (hq : b.addsOnly q = true) : G w (execB env cur w b).1 := by
  cases b with
  | nil => exact hp.refl w
  | cons s rest =>
    simp only [execB]
    have hq' : s.addsOnly q = true ∧ rest.addsOnly q = true := by simpa [Block.addsOnly] using hq
    have hs := execS_liftQ hp hc cur w s hq'.1
    split
    · rename_i w1 heq
      rw [heq] at hs
      exact hp.trans hs (execB_liftQ hp hc cur w1 rest hq'.2)
    · exact hs
end

theorem unregPrimCfgQ (env : Env) (d : Nat) : PrimCfgQ env (fun ds => !ds.contains d) (Unreg d) where
  addDests := fun w ds hq => by
    have hd : d ∉ ds := by simpa using hq
    unfold World.addDests
    split
    · intro h
      exact ⟨fun hm => (List.mem_append.mp hm).elim h hd, rfl, rfl⟩
    · have h0 : Unreg d w { w with anyAdded := true, dests := ds, buffer := [], pendingAt := w.bufferAt, bufferAt := [], dupAdd := w.dupAdd || hasDup ds } := fun _ => ⟨hd, rfl, rfl⟩
      exact (unregBasicD env d).trans h0 (flush_lift (unregBasicD env d) (fun w => Unreg.ofSame rfl rfl rfl) _ _)
  removeDest := fun w d' h => ⟨fun hm => h (List.mem_of_mem_erase hm), rfl, rfl⟩
  addGlobals := fun _ _ => Unreg.ofSame rfl rfl rfl

/-- every program that never registers `d`, from every world in which `d` is not registered -/
theorem unreg_execB (env : Env) (d : Nat) (cur : Option Exc) (w : World) (p : Block) (hp : p.neverAdds d = true) :
    Unreg d w (execB env cur w p).1 :=
  execB_liftQ (unregBasicD env d).prim (unregPrimCfgQ env d) cur w p hp

end Sys
