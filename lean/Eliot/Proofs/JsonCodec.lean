import Eliot.Model.Json
import Eliot.Proofs.JsonNum
/-! The JSON codec of the model: shape of the encoder's output (no raw newline, only scalar values,
an object is `{...}`) and the round trip `json.loads(dumps(v)) == v` on JSON-native values. -/
namespace EJ

/-- The only thing the model assumes about the text orjson prints for a finite float: it is a JSON
number with a fraction or an exponent which the scanner reads back as that same token. -/
structure FloatCodec (tok : List Nat) : Prop where
  reparse : scanNum tok = some (.num tok, [])

theorem floatCodec_iff (tok : List Nat) : FloatCodec tok ↔ isFloatTok tok = true := by
  constructor
  · intro h
    simp [isFloatTok, h.reparse]
  · intro h
    exact ⟨isFloatTok_scan tok h⟩

mutual
/-- JSON-native values: text without surrogates, 64-bit integers, finite floats, booleans, null,
lists, string-keyed dicts -/
def JsonNative : JVal → Prop
  | .null => True
  | .bool _ => True
  | .int i => inRange i
  | .num tok => FloatCodec tok
  | .str s => ∀ c ∈ s, Scalar c
  | .arr xs => JsonNativeL xs
  | .obj kvs => JsonNativeM kvs
def JsonNativeL : List JVal → Prop
  | [] => True
  | x :: xs => JsonNative x ∧ JsonNativeL xs
def JsonNativeM : List (List Nat × JVal) → Prop
  | [] => True
  | (k, v) :: kvs => (∀ c ∈ k, Scalar c) ∧ JsonNative v ∧ JsonNativeM kvs
end

mutual
/-- no object, at any depth, has two members with the same key (always true of a Python dict) -/
def NodupKeysDeep : JVal → Prop
  | .arr xs => NodupKeysDeepL xs
  | .obj kvs => (kvs.map Prod.fst).Nodup ∧ NodupKeysDeepM kvs
  | _ => True
def NodupKeysDeepL : List JVal → Prop
  | [] => True
  | x :: xs => NodupKeysDeep x ∧ NodupKeysDeepL xs
def NodupKeysDeepM : List (List Nat × JVal) → Prop
  | [] => True
  | (_, v) :: kvs => NodupKeysDeep v ∧ NodupKeysDeepM kvs
end

/-! ## String layer -/

theorem hexDigit_ge (n : Nat) : 48 ≤ hexDigit n := by unfold hexDigit; split <;> omega

theorem hexDigit_le (n : Nat) (h : n < 16) : hexDigit n ≤ 102 := by unfold hexDigit; split <;> omega

/-- characters the encoder may emit: scalar values other than LF and CR -/
def Good (c : Nat) : Prop := Scalar c ∧ c ≠ 10 ∧ c ≠ 13

theorem escChar_good (c : Nat) (hc : Scalar c) : ∀ x ∈ escChar c, Good x := by
  have h1 := hexDigit_ge (c / 16)
  have h2 := hexDigit_ge (c % 16)
  intro x hx
  unfold escChar at hx
  unfold Good Scalar
  unfold Scalar at hc
  repeat' split at hx
  all_goals simp only [List.mem_cons, List.not_mem_nil, or_false] at hx
  · omega
  · omega
  · omega
  · omega
  · omega
  · omega
  · omega
  · have h3 := hexDigit_le (c / 16) (by omega)
    have h4 := hexDigit_le (c % 16) (by omega)
    omega
  · omega

theorem escChar_no_newline (c : Nat) : 10 ∉ escChar c ∧ 13 ∉ escChar c := by
  have h1 := hexDigit_ge (c / 16)
  have h2 := hexDigit_ge (c % 16)
  unfold escChar
  repeat' split
  all_goals simp only [List.mem_cons, List.not_mem_nil, or_false, not_or]
  all_goals omega

theorem encStr_no_newline (s : List Nat) : 10 ∉ encStr s ∧ 13 ∉ encStr s := by
  simp only [encStr, encBody, List.mem_cons, List.mem_append, List.mem_flatMap, List.not_mem_nil,
    or_false, not_or, not_exists, not_and]
  exact ⟨⟨by omega, fun c _ => (escChar_no_newline c).1, by omega⟩,
    ⟨by omega, fun c _ => (escChar_no_newline c).2, by omega⟩⟩

theorem encStr_good (s : List Nat) (h : ∀ c ∈ s, Scalar c) : ∀ c ∈ encStr s, Good c := by
  intro c hc
  simp only [encStr, encBody, List.mem_cons, List.mem_append, List.mem_flatMap, List.not_mem_nil,
    or_false] at hc
  rcases hc with rfl | ⟨a, ha, hca⟩ | rfl
  · unfold Good Scalar; omega
  · exact escChar_good a (h a ha) c hca
  · unfold Good Scalar; omega

theorem encStr_scalar (s : List Nat) (h : ∀ c ∈ s, Scalar c) : ∀ c ∈ encStr s, Scalar c :=
  fun c hc => (encStr_good s h c hc).1

theorem joinSurr_scalar (s : List Nat) (h : ∀ c ∈ s, Scalar c) : joinSurr s = s := by
  induction s with
  | nil => simp [joinSurr]
  | cons hi t ih =>
    cases t with
    | nil => simp [joinSurr]
    | cons lo r =>
      have hhi : Scalar hi := h hi (by simp)
      have hn : ¬ (0xD800 ≤ hi ∧ hi ≤ 0xDBFF ∧ 0xDC00 ≤ lo ∧ lo ≤ 0xDFFF) := by
        unfold Scalar at hhi; omega
      have ih' := ih (fun c hc => h c (List.mem_cons_of_mem _ hc))
      simp only [joinSurr, hn, if_false, ih']

theorem hexVal_hexDigit (n : Nat) (h : n < 16) : hexVal (hexDigit n) = some n := by
  unfold hexVal hexDigit
  by_cases h10 : n < 10
  · have : 48 ≤ 48 + n ∧ 48 + n ≤ 57 := by omega
    simp [h10, this]
  · have a : ¬ (48 ≤ 87 + n ∧ 87 + n ≤ 57) := by omega
    have b : 97 ≤ 87 + n ∧ 87 + n ≤ 102 := by omega
    simp [h10, a, b]

theorem decBody_quote (rest : List Nat) : decBody (34 :: rest) = some ([], rest) := by
  rw [decBody.eq_def]; simp

theorem decBody_bs (e u : Nat) (rest1 s r : List Nat) (he : e ≠ 117) (hu : unescape e = some u)
    (h : decBody rest1 = some (s, r)) :
    decBody (92 :: e :: rest1) = some (u :: s, r) := by
  rw [decBody.eq_def]; simp [he, hu, h]

theorem decBody_u (a b c d u : Nat) (rest2 s r : List Nat) (hu : hex4 a b c d = some u)
    (h : decBody rest2 = some (s, r)) :
    decBody (92 :: 117 :: a :: b :: c :: d :: rest2) = some (u :: s, r) := by
  rw [decBody.eq_def]; simp [hu, h]

theorem decBody_plain (c : Nat) (tail s r : List Nat) (h : decBody tail = some (s, r))
    (h34 : c ≠ 34) (h92 : c ≠ 92) (h32 : ¬ c < 32) (hs : Scalar c) :
    decBody (c :: tail) = some (c :: s, r) := by
  rw [decBody.eq_def]
  simp [h34, h92, h32, hs, h]

theorem decBody_esc (c : Nat) (tail : List Nat) (s r : List Nat) (hs : Scalar c)
    (h : decBody tail = some (s, r)) :
    decBody (escChar c ++ tail) = some (c :: s, r) := by
  unfold escChar
  split; · subst_vars; exact decBody_bs _ _ _ _ _ (by decide) (by decide) h
  split; · subst_vars; exact decBody_bs _ _ _ _ _ (by decide) (by decide) h
  split; · subst_vars; exact decBody_bs _ _ _ _ _ (by decide) (by decide) h
  split; · subst_vars; exact decBody_bs _ _ _ _ _ (by decide) (by decide) h
  split; · subst_vars; exact decBody_bs _ _ _ _ _ (by decide) (by decide) h
  split; · subst_vars; exact decBody_bs _ _ _ _ _ (by decide) (by decide) h
  split; · subst_vars; exact decBody_bs _ _ _ _ _ (by decide) (by decide) h
  split
  · rename_i hlt
    have h1 : c / 16 < 16 := by omega
    have h2 : c % 16 < 16 := by omega
    have e : c / 16 * 16 + c % 16 = c := by omega
    have hv0 : hexVal 48 = some 0 := by simp [hexVal]
    refine decBody_u _ _ _ _ _ _ _ _ ?_ h
    simp only [hex4, hv0, hexVal_hexDigit _ h1, hexVal_hexDigit _ h2]
    simp
    omega
  · rename_i a b _ _ _ _ _ hge
    exact decBody_plain c tail s r h a b hge hs

theorem decBody_encBody (s rest : List Nat) (hs : ∀ c ∈ s, Scalar c) :
    decBody (encBody s ++ 34 :: rest) = some (s, rest) := by
  induction s with
  | nil => simpa [encBody] using decBody_quote rest
  | cons c s ih =>
    have : encBody (c :: s) ++ 34 :: rest = escChar c ++ (encBody s ++ 34 :: rest) := by
      simp [encBody]
    rw [this]
    exact decBody_esc c _ s rest (hs c (by simp)) (ih (fun x hx => hs x (List.mem_cons_of_mem _ hx)))

theorem decStr_encBody (s rest : List Nat) (h : ∀ c ∈ s, Scalar c) :
    decStr (encBody s ++ 34 :: rest) = some (s, rest) := by
  simp only [decStr, decBody_encBody s rest h, joinSurr_scalar s h]

/-! ## Encoder output -/

theorem encStrE_ok {k a : List Nat} (h : encStrE k = .ok a) : a = encStr k ∧ ∀ c ∈ k, Scalar c := by
  unfold encStrE at h
  split at h
  · rename_i hk
    simp only [Except.ok.injEq] at h
    exact ⟨h.symm, hk⟩
  · simp at h

theorem isNonFinite_of_floatTok (tok : List Nat) (h : isFloatTok tok = true) :
    isNonFinite tok = false := by
  have hc := isFloatTok_chars tok h
  cases hn : isNonFinite tok with
  | false => rfl
  | true =>
    exfalso
    simp only [isNonFinite, Bool.or_eq_true, beq_iff_eq] at hn
    rcases hn with (rfl | rfl) | rfl
    · have := hc 110 (by simp); simp [isDigit] at this
    · have := hc 105 (by simp); simp [isDigit] at this
    · have := hc 105 (by simp); simp [isDigit] at this

theorem numChar_good (c : Nat) (h : isDigit c = true ∨ c = 43 ∨ c = 45 ∨ c = 46 ∨ c = 101 ∨ c = 69) :
    Good c ∧ c ≠ 93 ∧ c ≠ 125 ∧ c ≠ 44 ∧ c ≠ 110 ∧ c ≠ 116 ∧ c ≠ 102 ∧ c ≠ 34 ∧ c ≠ 91 ∧ c ≠ 123 := by
  rw [isDigit_iff] at h
  unfold Good Scalar
  omega

theorem tNull_good : ∀ c ∈ tNull, Good c := by
  intro c hc
  simp only [tNull, List.mem_cons, List.not_mem_nil, or_false] at hc
  unfold Good Scalar; omega
theorem tTrue_good : ∀ c ∈ tTrue, Good c := by
  intro c hc
  simp only [tTrue, List.mem_cons, List.not_mem_nil, or_false] at hc
  unfold Good Scalar; omega
theorem tFalse_good : ∀ c ∈ tFalse, Good c := by
  intro c hc
  simp only [tFalse, List.mem_cons, List.not_mem_nil, or_false] at hc
  unfold Good Scalar; omega

theorem good_lit {c : Nat} (h : c = 91 ∨ c = 93 ∨ c = 123 ∨ c = 125 ∨ c = 44 ∨ c = 58) : Good c := by
  unfold Good Scalar; omega

mutual
theorem encodeU_good : ∀ (v : JVal) (s : List Nat), encodeU v = .ok s → ∀ c ∈ s, Good c
  | .null, s, h => by
    simp only [encodeU, Except.ok.injEq] at h; subst h; exact tNull_good
  | .bool true, s, h => by
    simp only [encodeU, Except.ok.injEq] at h; subst h; exact tTrue_good
  | .bool false, s, h => by
    simp only [encodeU, Except.ok.injEq] at h; subst h; exact tFalse_good
  | .int i, s, h => by
    simp only [encodeU] at h
    split at h
    · simp only [Except.ok.injEq] at h; subst h
      intro c hc
      exact (numChar_good c (by rcases encInt_chars i c hc with h | h <;> simp [h])).1
    · simp at h
  | .num tok, s, h => by
    simp only [encodeU] at h
    split at h
    · simp only [Except.ok.injEq] at h; subst h; exact tNull_good
    · split at h
      · rename_i hf
        simp only [Except.ok.injEq] at h; subst h
        intro c hc
        exact (numChar_good c (isFloatTok_chars _ hf c hc)).1
      · simp at h
  | .str t, s, h => by
    simp only [encodeU] at h
    obtain ⟨rfl, ht⟩ := encStrE_ok h
    exact encStr_good t ht
  | .arr [], s, h => by
    simp only [encodeU, Except.ok.injEq] at h; subst h
    intro c hc
    simp only [List.mem_cons, List.not_mem_nil, or_false] at hc
    exact good_lit (by omega)
  | .arr (x :: xs), s, h => by
    simp only [encodeU] at h
    cases hx : encodeU x with
    | error e => simp [hx] at h
    | ok a =>
      cases hxs : encTail xs with
      | error e => simp [hx, hxs] at h
      | ok b =>
        simp only [hx, hxs, Except.ok.injEq] at h; subst h
        intro c hc
        simp only [List.mem_cons, List.mem_append] at hc
        rcases hc with rfl | hc | hc
        · exact good_lit (by omega)
        · exact encodeU_good x a hx c hc
        · exact encTail_good xs b hxs c hc
  | .obj [], s, h => by
    simp only [encodeU, Except.ok.injEq] at h; subst h
    intro c hc
    simp only [List.mem_cons, List.not_mem_nil, or_false] at hc
    exact good_lit (by omega)
  | .obj ((k, v) :: kvs), s, h => by
    simp only [encodeU] at h
    cases hk : encStrE k with
    | error e => simp [hk] at h
    | ok a =>
      cases hv : encodeU v with
      | error e => simp [hk, hv] at h
      | ok b =>
        cases hm : encMembers kvs with
        | error e => simp [hk, hv, hm] at h
        | ok c' =>
          simp only [hk, hv, hm, Except.ok.injEq] at h; subst h
          obtain ⟨rfl, hks⟩ := encStrE_ok hk
          intro c hc
          simp only [List.mem_cons, List.mem_append] at hc
          rcases hc with rfl | hc | rfl | hc | hc
          · exact good_lit (by omega)
          · exact encStr_good k hks c hc
          · exact good_lit (by omega)
          · exact encodeU_good v b hv c hc
          · exact encMembers_good kvs c' hm c hc
theorem encTail_good : ∀ (xs : List JVal) (s : List Nat), encTail xs = .ok s → ∀ c ∈ s, Good c
  | [], s, h => by
    simp only [encTail, Except.ok.injEq] at h; subst h
    intro c hc
    simp only [List.mem_cons, List.not_mem_nil, or_false] at hc
    exact good_lit (by omega)
  | x :: xs, s, h => by
    simp only [encTail] at h
    cases hx : encodeU x with
    | error e => simp [hx] at h
    | ok a =>
      cases hxs : encTail xs with
      | error e => simp [hx, hxs] at h
      | ok b =>
        simp only [hx, hxs, Except.ok.injEq] at h; subst h
        intro c hc
        simp only [List.mem_cons, List.mem_append] at hc
        rcases hc with rfl | hc | hc
        · exact good_lit (by omega)
        · exact encodeU_good x a hx c hc
        · exact encTail_good xs b hxs c hc
theorem encMembers_good : ∀ (kvs : List (List Nat × JVal)) (s : List Nat),
    encMembers kvs = .ok s → ∀ c ∈ s, Good c
  | [], s, h => by
    simp only [encMembers, Except.ok.injEq] at h; subst h
    intro c hc
    simp only [List.mem_cons, List.not_mem_nil, or_false] at hc
    exact good_lit (by omega)
  | (k, v) :: kvs, s, h => by
    simp only [encMembers] at h
    cases hk : encStrE k with
    | error e => simp [hk] at h
    | ok a =>
      cases hv : encodeU v with
      | error e => simp [hk, hv] at h
      | ok b =>
        cases hm : encMembers kvs with
        | error e => simp [hk, hv, hm] at h
        | ok c' =>
          simp only [hk, hv, hm, Except.ok.injEq] at h; subst h
          obtain ⟨rfl, hks⟩ := encStrE_ok hk
          intro c hc
          simp only [List.mem_cons, List.mem_append] at hc
          rcases hc with rfl | hc | rfl | hc | hc
          · exact good_lit (by omega)
          · exact encStr_good k hks c hc
          · exact good_lit (by omega)
          · exact encodeU_good v b hv c hc
          · exact encMembers_good kvs c' hm c hc
end

theorem encodeU_no_newline (v : JVal) (s : List Nat) (h : encodeU v = .ok s) : 10 ∉ s ∧ 13 ∉ s :=
  ⟨fun hc => (encodeU_good v s h 10 hc).2.1 rfl, fun hc => (encodeU_good v s h 13 hc).2.2 rfl⟩

theorem encodeU_scalar (v : JVal) (s : List Nat) (h : encodeU v = .ok s) : ∀ c ∈ s, Scalar c :=
  fun c hc => (encodeU_good v s h c hc).1

/-- the first character of an encoded value -/
theorem encodeU_head (v : JVal) (s : List Nat) (h : encodeU v = .ok s) :
    ∃ c t, s = c :: t ∧ c ≠ 93 ∧ c ≠ 125 ∧ c ≠ 44 := by
  cases v with
  | null => simp only [encodeU, Except.ok.injEq] at h; subst h; exact ⟨_, _, rfl, by decide⟩
  | bool b =>
    cases b <;> simp only [encodeU, Except.ok.injEq] at h <;> subst h <;> exact ⟨_, _, rfl, by decide⟩
  | int i =>
    simp only [encodeU] at h
    split at h
    · simp only [Except.ok.injEq] at h; subst h
      cases he : encInt i with
      | nil => exact absurd he (encInt_ne_nil i)
      | cons c t =>
        have := numChar_good c (by rcases encInt_chars i c (by simp [he]) with h | h <;> simp [h])
        exact ⟨c, t, rfl, this.2.1, this.2.2.1, this.2.2.2.1⟩
    · simp at h
  | num tok =>
    simp only [encodeU] at h
    split at h
    · simp only [Except.ok.injEq] at h; subst h; exact ⟨_, _, rfl, by decide⟩
    · split at h
      · rename_i hf
        simp only [Except.ok.injEq] at h; subst h
        cases tok with
        | nil => exact absurd rfl (isFloatTok_ne_nil _ hf)
        | cons c t =>
          have := numChar_good c (isFloatTok_chars _ hf c (by simp))
          exact ⟨c, t, rfl, this.2.1, this.2.2.1, this.2.2.2.1⟩
      · simp at h
  | str t =>
    simp only [encodeU] at h
    obtain ⟨rfl, _⟩ := encStrE_ok h
    exact ⟨_, _, rfl, by decide⟩
  | arr xs =>
    cases xs with
    | nil => simp only [encodeU, Except.ok.injEq] at h; subst h; exact ⟨_, _, rfl, by decide⟩
    | cons x xs =>
      simp only [encodeU] at h
      cases hx : encodeU x with
      | error e => simp [hx] at h
      | ok a =>
        cases hxs : encTail xs with
        | error e => simp [hx, hxs] at h
        | ok b =>
          simp only [hx, hxs, Except.ok.injEq] at h; subst h; exact ⟨_, _, rfl, by decide⟩
  | obj kvs =>
    cases kvs with
    | nil => simp only [encodeU, Except.ok.injEq] at h; subst h; exact ⟨_, _, rfl, by decide⟩
    | cons kv kvs =>
      obtain ⟨k, v⟩ := kv
      simp only [encodeU] at h
      cases hk : encStrE k with
      | error e => simp [hk] at h
      | ok a =>
        cases hv : encodeU v with
        | error e => simp [hk, hv] at h
        | ok b =>
          cases hm : encMembers kvs with
          | error e => simp [hk, hv, hm] at h
          | ok c' =>
            simp only [hk, hv, hm, Except.ok.injEq] at h; subst h; exact ⟨_, _, rfl, by decide⟩

theorem encodeU_ne_nil (v : JVal) (s : List Nat) (h : encodeU v = .ok s) : s ≠ [] := by
  obtain ⟨c, t, rfl, _⟩ := encodeU_head v s h
  simp

/-- `encTail` output starts with `,` or `]` -/
theorem encTail_head (xs : List JVal) (b : List Nat) (h : encTail xs = .ok b) :
    ∃ c t, b = c :: t ∧ (c = 44 ∨ c = 93) := by
  cases xs with
  | nil => simp only [encTail, Except.ok.injEq] at h; subst h; exact ⟨_, _, rfl, by decide⟩
  | cons x xs =>
    simp only [encTail] at h
    cases hx : encodeU x with
    | error e => simp [hx] at h
    | ok a =>
      cases hxs : encTail xs with
      | error e => simp [hx, hxs] at h
      | ok b =>
        simp only [hx, hxs, Except.ok.injEq] at h; subst h; exact ⟨_, _, rfl, by decide⟩

/-- `encMembers` output starts with `,` or `}` -/
theorem encMembers_head (kvs : List (List Nat × JVal)) (b : List Nat) (h : encMembers kvs = .ok b) :
    ∃ c t, b = c :: t ∧ (c = 44 ∨ c = 125) := by
  cases kvs with
  | nil => simp only [encMembers, Except.ok.injEq] at h; subst h; exact ⟨_, _, rfl, by decide⟩
  | cons kv kvs =>
    obtain ⟨k, v⟩ := kv
    simp only [encMembers] at h
    cases hk : encStrE k with
    | error e => simp [hk] at h
    | ok a =>
      cases hv : encodeU v with
      | error e => simp [hk, hv] at h
      | ok b =>
        cases hm : encMembers kvs with
        | error e => simp [hk, hv, hm] at h
        | ok c' =>
          simp only [hk, hv, hm, Except.ok.injEq] at h; subst h; exact ⟨_, _, rfl, by decide⟩

theorem encMembers_last : ∀ (kvs : List (List Nat × JVal)) (b : List Nat),
    encMembers kvs = .ok b → b.getLast? = some 125
  | [], b, h => by simp only [encMembers, Except.ok.injEq] at h; subst h; rfl
  | (k, v) :: kvs, s, h => by
    simp only [encMembers] at h
    cases hk : encStrE k with
    | error e => simp [hk] at h
    | ok a =>
      cases hv : encodeU v with
      | error e => simp [hk, hv] at h
      | ok b =>
        cases hm : encMembers kvs with
        | error e => simp [hk, hv, hm] at h
        | ok c' =>
          simp only [hk, hv, hm, Except.ok.injEq] at h; subst h
          have ih := encMembers_last kvs c' hm
          rw [List.getLast?_eq_some_iff] at ih ⊢
          obtain ⟨ys, hys⟩ := ih
          exact ⟨44 :: (a ++ 58 :: (b ++ ys)), by simp [hys]⟩

theorem encodeU_is_object (kvs : List (List Nat × JVal)) (s : List Nat) (h : encodeU (.obj kvs) = .ok s) :
    s.head? = some 123 ∧ s.getLast? = some 125 := by
  cases kvs with
  | nil => simp only [encodeU, Except.ok.injEq] at h; subst h; exact ⟨rfl, rfl⟩
  | cons kv kvs =>
    obtain ⟨k, v⟩ := kv
    simp only [encodeU] at h
    cases hk : encStrE k with
    | error e => simp [hk] at h
    | ok a =>
      cases hv : encodeU v with
      | error e => simp [hk, hv] at h
      | ok b =>
        cases hm : encMembers kvs with
        | error e => simp [hk, hv, hm] at h
        | ok c' =>
          simp only [hk, hv, hm, Except.ok.injEq] at h; subst h
          refine ⟨rfl, ?_⟩
          have ih := encMembers_last kvs c' hm
          rw [List.getLast?_eq_some_iff] at ih ⊢
          obtain ⟨ys, hys⟩ := ih
          exact ⟨123 :: (a ++ 58 :: (b ++ ys)), by simp [hys]⟩

set_option linter.unusedVariables false in
mutual
theorem encodeU_native_ok : ∀ (v : JVal) (h : JsonNative v), ∃ s, encodeU v = .ok s
  | .null, _ => by simp only [encodeU]; exact ⟨_, rfl⟩
  | .bool true, _ => by simp only [encodeU]; exact ⟨_, rfl⟩
  | .bool false, _ => by simp only [encodeU]; exact ⟨_, rfl⟩
  | .int i, h => by
    simp only [JsonNative] at h
    exact ⟨encInt i, by simp only [encodeU, h, if_true]⟩
  | .num tok, h => by
    simp only [JsonNative] at h
    have hf := (floatCodec_iff tok).1 h
    exact ⟨tok, by simp [encodeU, hf, isNonFinite_of_floatTok tok hf]⟩
  | .str t, h => by
    simp only [JsonNative] at h
    exact ⟨encStr t, by simp only [encodeU, encStrE]; rw [if_pos h]⟩
  | .arr [], _ => by simp only [encodeU]; exact ⟨_, rfl⟩
  | .arr (x :: xs), h => by
    simp only [JsonNative, JsonNativeL] at h
    obtain ⟨a, ha⟩ := encodeU_native_ok x h.1
    obtain ⟨b, hb⟩ := encTail_native_ok xs h.2
    simp only [encodeU, ha, hb]; exact ⟨_, rfl⟩
  | .obj [], _ => by simp only [encodeU]; exact ⟨_, rfl⟩
  | .obj ((k, v) :: kvs), h => by
    simp only [JsonNative, JsonNativeM] at h
    obtain ⟨b, hb⟩ := encodeU_native_ok v h.2.1
    obtain ⟨c, hc⟩ := encMembers_native_ok kvs h.2.2
    have hk : encStrE k = .ok (encStr k) := by simp only [encStrE]; rw [if_pos h.1]
    simp only [encodeU, hk, hb, hc]; exact ⟨_, rfl⟩
theorem encTail_native_ok : ∀ (xs : List JVal), JsonNativeL xs → ∃ s, encTail xs = .ok s
  | [], _ => by simp only [encTail]; exact ⟨_, rfl⟩
  | x :: xs, h => by
    simp only [JsonNativeL] at h
    obtain ⟨a, ha⟩ := encodeU_native_ok x h.1
    obtain ⟨b, hb⟩ := encTail_native_ok xs h.2
    simp only [encTail, ha, hb]; exact ⟨_, rfl⟩
theorem encMembers_native_ok : ∀ (kvs : List (List Nat × JVal)), JsonNativeM kvs →
    ∃ s, encMembers kvs = .ok s
  | [], _ => by simp only [encMembers]; exact ⟨_, rfl⟩
  | (k, v) :: kvs, h => by
    simp only [JsonNativeM] at h
    obtain ⟨b, hb⟩ := encodeU_native_ok v h.2.1
    obtain ⟨c, hc⟩ := encMembers_native_ok kvs h.2.2
    have hk : encStrE k = .ok (encStr k) := by simp only [encStrE]; rw [if_pos h.1]
    simp only [encMembers, hk, hb, hc]; exact ⟨_, rfl⟩
end

/-! ## One step of the parser -/

theorem parseVal_str (f : Nat) (r s r' : List Nat) (h : decStr r = some (s, r')) :
    parseVal (f + 1) (34 :: r) = some (.str s, r') := by
  rw [parseVal.eq_def]; simp [h]

theorem parseVal_scan (f c : Nat) (r : List Nat) (h1 : c ≠ 110) (h2 : c ≠ 116) (h3 : c ≠ 102)
    (h4 : c ≠ 34) (h5 : c ≠ 91) (h6 : c ≠ 123) :
    parseVal (f + 1) (c :: r) = scanNum (c :: r) := by
  rw [parseVal.eq_def]; simp [h1, h2, h3, h4, h5, h6]

theorem parseVal_arr_nil (f : Nat) (r : List Nat) :
    parseVal (f + 1) (91 :: 93 :: r) = some (.arr [], r) := by
  rw [parseVal.eq_def]; simp

theorem parseVal_arr_cons (f c1 : Nat) (r1 r2 r3 : List Nat) (v : JVal) (vs : List JVal)
    (hc : c1 ≠ 93) (hv : parseVal f (c1 :: r1) = some (v, r2))
    (ht : parseTail f r2 = some (vs, r3)) :
    parseVal (f + 1) (91 :: c1 :: r1) = some (.arr (v :: vs), r3) := by
  rw [parseVal.eq_def]; simp [hc, hv, ht]

theorem parseVal_obj_nil (f : Nat) (r : List Nat) :
    parseVal (f + 1) (123 :: 125 :: r) = some (.obj [], r) := by
  rw [parseVal.eq_def]; simp

theorem parseVal_obj_cons (f c1 : Nat) (r1 r2 r3 : List Nat) (kv : List Nat × JVal)
    (kvs : List (List Nat × JVal))
    (hc : c1 ≠ 125) (hv : parseMember f (c1 :: r1) = some (kv, r2))
    (ht : parseMembers f r2 = some (kvs, r3)) :
    parseVal (f + 1) (123 :: c1 :: r1) = some (.obj (kv :: kvs), r3) := by
  rw [parseVal.eq_def]; simp [hc, hv, ht]

theorem parseTail_nil (f : Nat) (r : List Nat) : parseTail (f + 1) (93 :: r) = some ([], r) := by
  rw [parseTail.eq_def]; simp

theorem parseTail_cons (f : Nat) (r r1 r2 : List Nat) (v : JVal) (vs : List JVal)
    (hv : parseVal f r = some (v, r1)) (ht : parseTail f r1 = some (vs, r2)) :
    parseTail (f + 1) (44 :: r) = some (v :: vs, r2) := by
  rw [parseTail.eq_def]; simp [hv, ht]

theorem parseMember_ok (f : Nat) (r r2 r3 k : List Nat) (v : JVal)
    (hk : decStr r = some (k, 58 :: r2)) (hv : parseVal f r2 = some (v, r3)) :
    parseMember (f + 1) (34 :: r) = some ((k, v), r3) := by
  rw [parseMember.eq_def]; simp [hk, hv]

theorem parseMembers_nil (f : Nat) (r : List Nat) :
    parseMembers (f + 1) (125 :: r) = some ([], r) := by
  rw [parseMembers.eq_def]; simp

theorem parseMembers_cons (f : Nat) (r r1 r2 : List Nat) (kv : List Nat × JVal)
    (kvs : List (List Nat × JVal))
    (hv : parseMember f r = some (kv, r1)) (ht : parseMembers f r1 = some (kvs, r2)) :
    parseMembers (f + 1) (44 :: r) = some (kv :: kvs, r2) := by
  rw [parseMembers.eq_def]; simp [hv, ht]

/-! ## Round trip -/

theorem parseVal_null (f : Nat) (r : List Nat) : parseVal (f + 1) (tNull ++ r) = some (.null, r) := by
  rw [parseVal.eq_def]; simp [tNull]

theorem parseVal_true (f : Nat) (r : List Nat) :
    parseVal (f + 1) (tTrue ++ r) = some (.bool true, r) := by
  rw [parseVal.eq_def]; simp [tTrue]

theorem parseVal_false (f : Nat) (r : List Nat) :
    parseVal (f + 1) (tFalse ++ r) = some (.bool false, r) := by
  rw [parseVal.eq_def]; simp [tFalse]

theorem parseMember_enc (f : Nat) (k b tail : List Nat) (v : JVal) (hk : ∀ c ∈ k, Scalar c)
    (hv : parseVal f (b ++ tail) = some (v, tail)) :
    parseMember (f + 1) (encStr k ++ 58 :: (b ++ tail)) = some ((k, v), tail) := by
  have e : encStr k ++ 58 :: (b ++ tail) = 34 :: (encBody k ++ 34 :: 58 :: (b ++ tail)) := by
    simp [encStr]
  rw [e]
  exact parseMember_ok f _ _ _ k v (decStr_encBody k _ hk) hv

theorem delim_of_head {c : Nat} {t : List Nat} (h : c = 44 ∨ c = 93 ∨ c = 125) : Delim (c :: t) := h

set_option linter.unusedVariables false in
mutual
theorem parseVal_encodeU : ∀ (v : JVal) (s rest : List Nat) (f : Nat) (hn : JsonNative v)
    (h : encodeU v = .ok s) (hr : Delim rest) (hf : s.length ≤ f),
    parseVal f (s ++ rest) = some (v, rest)
  | .null, s, rest, f, _, h, _, hf => by
    simp only [encodeU, Except.ok.injEq] at h; subst h
    cases f with
    | zero => simp [tNull] at hf
    | succ f => exact parseVal_null f rest
  | .bool true, s, rest, f, _, h, _, hf => by
    simp only [encodeU, Except.ok.injEq] at h; subst h
    cases f with
    | zero => simp [tTrue] at hf
    | succ f => exact parseVal_true f rest
  | .bool false, s, rest, f, _, h, _, hf => by
    simp only [encodeU, Except.ok.injEq] at h; subst h
    cases f with
    | zero => simp [tFalse] at hf
    | succ f => exact parseVal_false f rest
  | .int i, s, rest, f, hn, h, hr, hf => by
    simp only [JsonNative] at hn
    simp only [encodeU, hn, if_true, Except.ok.injEq] at h; subst h
    cases he : encInt i with
    | nil => exact absurd he (encInt_ne_nil i)
    | cons c t =>
      have g := numChar_good c (by rcases encInt_chars i c (by simp [he]) with h | h <;> simp [h])
      cases f with
      | zero => simp [he] at hf
      | succ f =>
        rw [List.cons_append, parseVal_scan f c _ g.2.2.2.2.1 g.2.2.2.2.2.1 g.2.2.2.2.2.2.1
          g.2.2.2.2.2.2.2.1 g.2.2.2.2.2.2.2.2.1 g.2.2.2.2.2.2.2.2.2, ← List.cons_append, ← he]
        exact scanNum_encInt i rest hr
  | .num tok, s, rest, f, hn, h, hr, hf => by
    simp only [JsonNative] at hn
    have hft := (floatCodec_iff tok).1 hn
    simp only [encodeU, isNonFinite_of_floatTok tok hft, hft, if_true] at h
    simp at h
    subst h
    cases tok with
    | nil => exact absurd rfl (isFloatTok_ne_nil _ hft)
    | cons c t =>
      have g := numChar_good c (isFloatTok_chars _ hft c (by simp))
      cases f with
      | zero => simp at hf
      | succ f =>
        rw [List.cons_append, parseVal_scan f c _ g.2.2.2.2.1 g.2.2.2.2.2.1 g.2.2.2.2.2.2.1
          g.2.2.2.2.2.2.2.1 g.2.2.2.2.2.2.2.2.1 g.2.2.2.2.2.2.2.2.2, ← List.cons_append]
        exact scanNum_append _ rest _ hn.reparse hr
  | .str t, s, rest, f, hn, h, _, hf => by
    simp only [JsonNative] at hn
    simp only [encodeU] at h
    obtain ⟨rfl, _⟩ := encStrE_ok h
    cases f with
    | zero => simp [encStr] at hf
    | succ f =>
      have e : encStr t ++ rest = 34 :: (encBody t ++ 34 :: rest) := by simp [encStr]
      rw [e]
      exact parseVal_str f _ t rest (decStr_encBody t rest hn)
  | .arr [], s, rest, f, _, h, _, hf => by
    simp only [encodeU, Except.ok.injEq] at h; subst h
    cases f with
    | zero => simp at hf
    | succ f => exact parseVal_arr_nil f rest
  | .arr (x :: xs), s, rest, f, hn, h, hr, hf => by
    simp only [JsonNative, JsonNativeL] at hn
    simp only [encodeU] at h
    cases hx : encodeU x with
    | error e => simp [hx] at h
    | ok a =>
      cases hxs : encTail xs with
      | error e => simp [hx, hxs] at h
      | ok b =>
        simp only [hx, hxs, Except.ok.injEq] at h; subst h
        cases f with
        | zero => simp at hf
        | succ f =>
          simp only [List.length_cons, List.length_append] at hf
          have ih1 := parseVal_encodeU x a (b ++ rest) f hn.1 hx (by
            obtain ⟨c, t, rfl, hc⟩ := encTail_head xs b hxs
            exact delim_of_head (by omega)) (by omega)
          have ih2 := parseTail_encTail xs b rest f hn.2 hxs hr (by omega)
          obtain ⟨c1, ta, rfl, hc1, _⟩ := encodeU_head x a hx
          have e : 91 :: (c1 :: ta ++ b) ++ rest = 91 :: c1 :: (ta ++ (b ++ rest)) := by simp
          rw [e]
          refine parseVal_arr_cons f c1 _ _ _ x xs hc1 ?_ ih2
          simpa using ih1
  | .obj [], s, rest, f, _, h, _, hf => by
    simp only [encodeU, Except.ok.injEq] at h; subst h
    cases f with
    | zero => simp at hf
    | succ f => exact parseVal_obj_nil f rest
  | .obj ((k, v) :: kvs), s, rest, f, hn, h, hr, hf => by
    simp only [JsonNative, JsonNativeM] at hn
    simp only [encodeU] at h
    cases hk : encStrE k with
    | error e => simp [hk] at h
    | ok a =>
      cases hv : encodeU v with
      | error e => simp [hk, hv] at h
      | ok b =>
        cases hm : encMembers kvs with
        | error e => simp [hk, hv, hm] at h
        | ok c' =>
          simp only [hk, hv, hm, Except.ok.injEq] at h; subst h
          obtain ⟨rfl, hks⟩ := encStrE_ok hk
          simp only [List.length_cons, List.length_append, encStr] at hf
          match f, hf with
          | f + 2, hf =>
            have ih1 := parseVal_encodeU v b (c' ++ rest) f hn.2.1 hv (by
              obtain ⟨c, t, rfl, hc⟩ := encMembers_head kvs c' hm
              exact delim_of_head (by omega)) (by omega)
            have ih2 := parseMembers_encMembers kvs c' rest (f + 1) hn.2.2 hm hr (by omega)
            have hmem := parseMember_enc f k b (c' ++ rest) v hks ih1
            have e : 123 :: (encStr k ++ 58 :: (b ++ c')) ++ rest
                = 123 :: 34 :: ((encBody k ++ [34]) ++ 58 :: (b ++ (c' ++ rest))) := by
              simp [encStr]
            rw [e]
            refine parseVal_obj_cons (f + 1) 34 _ _ _ (k, v) kvs (by decide) ?_ ih2
            simpa [encStr] using hmem
theorem parseTail_encTail : ∀ (xs : List JVal) (b rest : List Nat) (f : Nat) (_hn : JsonNativeL xs)
    (_h : encTail xs = .ok b) (_hr : Delim rest) (_hf : b.length ≤ f),
    parseTail f (b ++ rest) = some (xs, rest)
  | [], s, rest, f, _, h, _, hf => by
    simp only [encTail, Except.ok.injEq] at h; subst h
    cases f with
    | zero => simp at hf
    | succ f => exact parseTail_nil f rest
  | x :: xs, s, rest, f, hn, h, hr, hf => by
    simp only [JsonNativeL] at hn
    simp only [encTail] at h
    cases hx : encodeU x with
    | error e => simp [hx] at h
    | ok a =>
      cases hxs : encTail xs with
      | error e => simp [hx, hxs] at h
      | ok b =>
        simp only [hx, hxs, Except.ok.injEq] at h; subst h
        cases f with
        | zero => simp at hf
        | succ f =>
          simp only [List.length_cons, List.length_append] at hf
          have ih1 := parseVal_encodeU x a (b ++ rest) f hn.1 hx (by
            obtain ⟨c, t, rfl, hc⟩ := encTail_head xs b hxs
            exact delim_of_head (by omega)) (by omega)
          have ih2 := parseTail_encTail xs b rest f hn.2 hxs hr (by omega)
          have e : 44 :: (a ++ b) ++ rest = 44 :: (a ++ (b ++ rest)) := by simp
          rw [e]
          exact parseTail_cons f _ _ _ x xs ih1 ih2
theorem parseMembers_encMembers : ∀ (kvs : List (List Nat × JVal)) (c rest : List Nat) (f : Nat)
    (_hn : JsonNativeM kvs) (_h : encMembers kvs = .ok c) (_hr : Delim rest) (_hf : c.length ≤ f),
    parseMembers f (c ++ rest) = some (kvs, rest)
  | [], s, rest, f, _, h, _, hf => by
    simp only [encMembers, Except.ok.injEq] at h; subst h
    cases f with
    | zero => simp at hf
    | succ f => exact parseMembers_nil f rest
  | (k, v) :: kvs, s, rest, f, hn, h, hr, hf => by
    simp only [JsonNativeM] at hn
    simp only [encMembers] at h
    cases hk : encStrE k with
    | error e => simp [hk] at h
    | ok a =>
      cases hv : encodeU v with
      | error e => simp [hk, hv] at h
      | ok b =>
        cases hm : encMembers kvs with
        | error e => simp [hk, hv, hm] at h
        | ok c' =>
          simp only [hk, hv, hm, Except.ok.injEq] at h; subst h
          obtain ⟨rfl, hks⟩ := encStrE_ok hk
          simp only [List.length_cons, List.length_append, encStr] at hf
          match f, hf with
          | f + 2, hf =>
            have ih1 := parseVal_encodeU v b (c' ++ rest) f hn.2.1 hv (by
              obtain ⟨c, t, rfl, hc⟩ := encMembers_head kvs c' hm
              exact delim_of_head (by omega)) (by omega)
            have ih2 := parseMembers_encMembers kvs c' rest (f + 1) hn.2.2 hm hr (by omega)
            have hmem := parseMember_enc f k b (c' ++ rest) v hks ih1
            have e : 44 :: (encStr k ++ 58 :: (b ++ c')) ++ rest
                = 44 :: (encStr k ++ 58 :: (b ++ (c' ++ rest))) := by simp
            rw [e]
            exact parseMembers_cons (f + 1) _ _ _ (k, v) kvs hmem ih2
end

theorem decode_encodeU_pairs (v : JVal) (s : List Nat) (hn : JsonNative v) (h : encodeU v = .ok s) :
    decode s = some v := by
  have := parseVal_encodeU v s [] s.length hn h trivial (Nat.le_refl _)
  simp only [List.append_nil] at this
  simp only [decode, this]

/-! ## `dict(pairs)` on pairwise distinct keys -/

theorem dictSet_fresh (k : List Nat) (v : JVal) :
    ∀ (acc : List (List Nat × JVal)), k ∉ acc.map Prod.fst → dictSet k v acc = acc ++ [(k, v)]
  | [], _ => rfl
  | (k', v') :: r, h => by
    simp only [List.map_cons, List.mem_cons, not_or] at h
    have hne : ¬ k' = k := fun e => h.1 e.symm
    simp only [dictSet, hne, if_false, dictSet_fresh k v r h.2, List.cons_append]

theorem foldl_dictSet_nodup : ∀ (kvs acc : List (List Nat × JVal)),
    ((acc ++ kvs).map Prod.fst).Nodup →
    kvs.foldl (fun d kv => dictSet kv.1 kv.2 d) acc = acc ++ kvs
  | [], acc, _ => by simp
  | (k, v) :: kvs, acc, h => by
    have hk : k ∉ acc.map Prod.fst := by
      simp only [List.map_append, List.map_cons] at h
      rw [List.nodup_append] at h
      intro hmem
      exact h.2.2 k hmem k (by simp) rfl
    simp only [List.foldl_cons, dictSet_fresh k v acc hk]
    rw [foldl_dictSet_nodup kvs (acc ++ [(k, v)]) (by simpa using h)]
    simp

theorem dictOf_nodup (kvs : List (List Nat × JVal)) (h : (kvs.map Prod.fst).Nodup) :
    dictOf kvs = kvs := by
  simpa [dictOf] using foldl_dictSet_nodup kvs [] (by simpa using h)

set_option linter.unusedVariables false in
mutual
theorem norm_of_nodup : ∀ (v : JVal) (h : NodupKeysDeep v), v.norm = v
  | .null, _ => by simp only [JVal.norm]
  | .bool _, _ => by simp only [JVal.norm]
  | .int _, _ => by simp only [JVal.norm]
  | .num _, _ => by simp only [JVal.norm]
  | .str _, _ => by simp only [JVal.norm]
  | .arr xs, h => by
    simp only [NodupKeysDeep] at h
    simp only [JVal.norm, normList_of_nodup xs h]
  | .obj kvs, h => by
    simp only [NodupKeysDeep] at h
    simp only [JVal.norm, normMembers_of_nodup kvs h.2, dictOf_nodup kvs h.1]
theorem normList_of_nodup : ∀ (xs : List JVal) (_h : NodupKeysDeepL xs), normList xs = xs
  | [], _ => by simp only [normList]
  | x :: xs, h => by
    simp only [NodupKeysDeepL] at h
    simp only [normList, norm_of_nodup x h.1, normList_of_nodup xs h.2]
theorem normMembers_of_nodup : ∀ (kvs : List (List Nat × JVal)) (_h : NodupKeysDeepM kvs),
    normMembers kvs = kvs
  | [], _ => by simp only [normMembers]
  | (k, v) :: kvs, h => by
    simp only [NodupKeysDeepM] at h
    simp only [normMembers, norm_of_nodup v h.1, normMembers_of_nodup kvs h.2]
end

/-- `json.loads(dumps(v)) == v` -/
theorem decode_encodeU (v : JVal) (s : List Nat) (hn : JsonNative v) (hd : NodupKeysDeep v)
    (h : encodeU v = .ok s) : loads s = some v := by
  simp only [loads, decode_encodeU_pairs v s hn h, norm_of_nodup v hd]

/-! ## Converse of `encodeU_native_ok` -/

mutual
/-- no float of the value is `nan`, `inf` or `-inf` -/
def FiniteFloats : JVal → Prop
  | .null => True
  | .bool _ => True
  | .int _ => True
  | .num tok => isNonFinite tok = false
  | .str _ => True
  | .arr xs => FiniteFloatsL xs
  | .obj kvs => FiniteFloatsM kvs
def FiniteFloatsL : List JVal → Prop
  | [] => True
  | x :: xs => FiniteFloats x ∧ FiniteFloatsL xs
def FiniteFloatsM : List (List Nat × JVal) → Prop
  | [] => True
  | (_, v) :: kvs => FiniteFloats v ∧ FiniteFloatsM kvs
end

mutual
/-- a value that encodes and has no non-finite float is JSON-native -/
theorem native_of_encodeU : ∀ (v : JVal) (s : List Nat) (_h : encodeU v = .ok s)
    (_hf : FiniteFloats v), JsonNative v
  | .null, _, _, _ => by simp only [JsonNative]
  | .bool _, _, _, _ => by simp only [JsonNative]
  | .int i, s, h, _ => by
    simp only [encodeU] at h
    simp only [JsonNative]
    split at h
    · assumption
    · simp at h
  | .num tok, s, h, hf => by
    simp only [FiniteFloats] at hf
    simp only [encodeU, hf] at h
    simp only [JsonNative]
    split at h
    · rename_i hc; simp at hc
    · split at h
      · rename_i hft; exact (floatCodec_iff tok).2 hft
      · simp at h
  | .str t, s, h, _ => by
    simp only [encodeU] at h
    simp only [JsonNative]
    exact (encStrE_ok h).2
  | .arr [], _, _, _ => by simp only [JsonNative, JsonNativeL]
  | .arr (x :: xs), s, h, hf => by
    simp only [FiniteFloats, FiniteFloatsL] at hf
    simp only [encodeU] at h
    cases hx : encodeU x with
    | error e => simp [hx] at h
    | ok a =>
      cases hxs : encTail xs with
      | error e => simp [hx, hxs] at h
      | ok b =>
        simp only [JsonNative, JsonNativeL]
        exact ⟨native_of_encodeU x a hx hf.1, nativeL_of_encTail xs b hxs hf.2⟩
  | .obj [], _, _, _ => by simp only [JsonNative, JsonNativeM]
  | .obj ((k, v) :: kvs), s, h, hf => by
    simp only [FiniteFloats, FiniteFloatsM] at hf
    simp only [encodeU] at h
    cases hk : encStrE k with
    | error e => simp [hk] at h
    | ok a =>
      cases hv : encodeU v with
      | error e => simp [hk, hv] at h
      | ok b =>
        cases hm : encMembers kvs with
        | error e => simp [hk, hv, hm] at h
        | ok c' =>
          simp only [JsonNative, JsonNativeM]
          exact ⟨(encStrE_ok hk).2, native_of_encodeU v b hv hf.1,
            nativeM_of_encMembers kvs c' hm hf.2⟩
theorem nativeL_of_encTail : ∀ (xs : List JVal) (s : List Nat) (_h : encTail xs = .ok s)
    (_hf : FiniteFloatsL xs), JsonNativeL xs
  | [], _, _, _ => by simp only [JsonNativeL]
  | x :: xs, s, h, hf => by
    simp only [FiniteFloatsL] at hf
    simp only [encTail] at h
    cases hx : encodeU x with
    | error e => simp [hx] at h
    | ok a =>
      cases hxs : encTail xs with
      | error e => simp [hx, hxs] at h
      | ok b =>
        simp only [JsonNativeL]
        exact ⟨native_of_encodeU x a hx hf.1, nativeL_of_encTail xs b hxs hf.2⟩
theorem nativeM_of_encMembers : ∀ (kvs : List (List Nat × JVal)) (s : List Nat)
    (_h : encMembers kvs = .ok s) (_hf : FiniteFloatsM kvs), JsonNativeM kvs
  | [], _, _, _ => by simp only [JsonNativeM]
  | (k, v) :: kvs, s, h, hf => by
    simp only [FiniteFloatsM] at hf
    simp only [encMembers] at h
    cases hk : encStrE k with
    | error e => simp [hk] at h
    | ok a =>
      cases hv : encodeU v with
      | error e => simp [hk, hv] at h
      | ok b =>
        cases hm : encMembers kvs with
        | error e => simp [hk, hv, hm] at h
        | ok c' =>
          simp only [JsonNativeM]
          exact ⟨(encStrE_ok hk).2, native_of_encodeU v b hv hf.1,
            nativeM_of_encMembers kvs c' hm hf.2⟩
end

end EJ
