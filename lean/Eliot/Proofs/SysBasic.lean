import Eliot.Proofs.SysLift
/-! The logging primitives are compositions of a dozen *basic steps*; a reflexive–transitive
relation that holds for every basic step holds for every primitive (`Basic.prim`), hence — by
`execS_lift`/`execB_lift` — for every program.  New invariants only have to be checked on the
basic steps. -/
namespace Sys

structure Basic (env : Env) (R : World → World → Prop) : Prop where
  refl : ∀ w, R w w
  trans : ∀ {a b c}, R a b → R b c → R a c
  callDest : ∀ (w : World) (d : Nat) (m : Msg), R w (w.callDest env d m).1
  stagePush : ∀ (w : World) (m : Msg), R w { w with stage := w.stage ++ [m], stageAt := w.stageAt ++ [w.dests] }
  bufferSet : ∀ (w : World) (b : List Msg), R w { w with buffer := b }
  /-- ghost bookkeeping of `deliver`: the pending slot is consumed (and recorded with the buffered message) -/
  ghostSlot : ∀ (w : World) (l : Option (Nat × Nat)) (b : List (Msg × Option (Nat × Nat))), R w { w with lastSlot := l, bufferAt := b }
  clock : ∀ (w : World), R w w.clock.1
  nextLevel : ∀ (w : World) (h : Nat), R w (w.nextLevel h).1
  freshAction : ∀ (w : World) (t : String) (s : Option (List (String × Nat) × List (String × Nat))), R w (w.freshAction t s).1
  extCalls : ∀ (w : World), R w { w with extCalls := w.extCalls + 1 }
  serCalls : ∀ (w : World), R w { w with serCalls := w.serCalls + 1 }
  setFinished : ∀ (w : World) (h : Nat) (a : Act), w.acts[h]? = some a → R w { w with acts := w.acts.set h { a with finished := true } }
  /-- `parent.child(..)`: hand out the next position of `p` and create the child there (one step:
  a relation that speaks about which places are occupied could not hold for the creation alone) -/
  appendChild : ∀ (w : World) (p : Nat) (pa : Act) (t : String) (s : Option (List (String × Nat) × List (String × Nat))), w.acts[p]? = some pa →
    R w { (w.nextLevel p).1 with acts := (w.nextLevel p).1.acts ++
      [({ uuid := pa.uuid, level := (w.nextLevel p).2, atype := t, sers := s } : Act)] }
  /-- the action created by `continue_task` from a task id that was in `ids` -/
  appendRemote : ∀ (w : World) (y u : Nat) (lvl : Level) (t : String) (s : Option (List (String × Nat) × List (String × Nat))), lookupNat w.ids y = some (u, lvl) →
    R w { w with ids := w.ids.filter (fun e => e.1 != y),
                 acts := w.acts ++ [({ uuid := u, level := lvl, atype := t, sers := s } : Act)] }
  setCtx : ∀ (w : World) (c : Option Nat), R w { w with ctx := c }
  setVars : ∀ (w : World) (v : List (Nat × Nat)), R w { w with vars := v }
  /-- `serialize_task_id`: hand out the next position of `h` and remember it as task id `y` -/
  reserve : ∀ (w : World) (h : Nat) (a : Act) (y : Nat), w.acts[h]? = some a →
    R w { (w.nextLevel h).1 with ids := setNat (w.nextLevel h).1.ids y (a.uuid, (w.nextLevel h).2) }
  probe : ∀ (w : World) (p : List (Nat × Option (Nat × Level × String))), R w { w with probes := p }
  succ : ∀ (w : World) (h : Nat) (a : Act) (fs : Fields), w.acts[h]? = some a → R w { w with acts := w.acts.set h { a with succ := a.succ.update fs } }

structure BasicD (env : Env) (R : World → World → Prop) : Prop where
  refl : ∀ w, R w w
  trans : ∀ {a b c}, R a b → R b c → R a c
  /-- the body of `Destinations.send` up to and including the fan-out loop, as one step -/
  deliver : ∀ (w : World) (m : Msg), R w (w.deliver env m).1
  clock : ∀ (w : World), R w w.clock.1
  nextLevel : ∀ (w : World) (h : Nat), R w (w.nextLevel h).1
  freshAction : ∀ (w : World) (t : String) (s : Option (List (String × Nat) × List (String × Nat))), R w (w.freshAction t s).1
  extCalls : ∀ (w : World), R w { w with extCalls := w.extCalls + 1 }
  serCalls : ∀ (w : World), R w { w with serCalls := w.serCalls + 1 }
  setFinished : ∀ (w : World) (h : Nat) (a : Act), w.acts[h]? = some a → R w { w with acts := w.acts.set h { a with finished := true } }
  /-- `parent.child(..)`: hand out the next position of `p` and create the child there (one step:
  a relation that speaks about which places are occupied could not hold for the creation alone) -/
  appendChild : ∀ (w : World) (p : Nat) (pa : Act) (t : String) (s : Option (List (String × Nat) × List (String × Nat))), w.acts[p]? = some pa →
    R w { (w.nextLevel p).1 with acts := (w.nextLevel p).1.acts ++
      [({ uuid := pa.uuid, level := (w.nextLevel p).2, atype := t, sers := s } : Act)] }
  /-- the action created by `continue_task` from a task id that was in `ids` -/
  appendRemote : ∀ (w : World) (y u : Nat) (lvl : Level) (t : String) (s : Option (List (String × Nat) × List (String × Nat))), lookupNat w.ids y = some (u, lvl) →
    R w { w with ids := w.ids.filter (fun e => e.1 != y),
                 acts := w.acts ++ [({ uuid := u, level := lvl, atype := t, sers := s } : Act)] }
  setCtx : ∀ (w : World) (c : Option Nat), R w { w with ctx := c }
  setVars : ∀ (w : World) (v : List (Nat × Nat)), R w { w with vars := v }
  /-- `serialize_task_id`: hand out the next position of `h` and remember it as task id `y` -/
  reserve : ∀ (w : World) (h : Nat) (a : Act) (y : Nat), w.acts[h]? = some a →
    R w { (w.nextLevel h).1 with ids := setNat (w.nextLevel h).1.ids y (a.uuid, (w.nextLevel h).2) }
  probe : ∀ (w : World) (p : List (Nat × Option (Nat × Level × String))), R w { w with probes := p }
  succ : ∀ (w : World) (h : Nat) (a : Act) (fs : Fields), w.acts[h]? = some a → R w { w with acts := w.acts.set h { a with succ := a.succ.update fs } }

namespace BasicD
variable {env : Env} {R : World → World → Prop} (hb : BasicD env R)
include hb

theorem currentOrFresh (w : World) : R w w.currentOrFresh.1 := by
  unfold World.currentOrFresh
  cases w.ctx with
  | none => exact hb.freshAction w "" none
  | some h => exact hb.refl w

theorem buildLog (w : World) (h : Nat) (t : String) (f : Fields) : R w (w.buildLog h t f).1 := by
  unfold World.buildLog
  exact hb.trans (hb.clock w) (hb.nextLevel _ _)

theorem logReport (w : World) (f : Fields) : R w (w.logReport env f) := by
  unfold World.logReport
  exact hb.trans (hb.currentOrFresh w) (hb.trans (hb.buildLog _ _ _ _) (hb.deliver _ _))

theorem reportAll (m : Msg) (es : List Exc) (w : World) : R w (World.reportAll env w m es) := by
  induction es generalizing w with
  | nil => exact hb.refl w
  | cons e es ih => exact hb.trans (hb.logReport w _) (ih _)

theorem send (w : World) (m : Msg) : R w (w.send env m) := by
  unfold World.send
  exact hb.trans (hb.deliver w m) (hb.reportAll _ _ _)

theorem logNoSer (w : World) (t : String) (f : Fields) : R w (w.logNoSer env t f) := by
  unfold World.logNoSer
  exact hb.trans (hb.currentOrFresh w) (hb.trans (hb.buildLog _ _ _ _) (hb.send _ _))

theorem getFields (w : World) (e : Exc) : R w (World.getFields env w e).1 := by
  unfold World.getFields
  cases firstExtractor env (env.mro (e.cls env)) with
  | none => exact hb.refl w
  | some f =>
    simp only
    cases f e w.extCalls with
    | ok fs => exact hb.extCalls w
    | error e' => exact hb.trans (hb.extCalls w) (hb.logNoSer _ _ _)

theorem writeTraceback (w : World) (e : Exc) : R w (w.writeTraceback env e) := by
  unfold World.writeTraceback
  exact hb.trans (hb.getFields w e) (hb.logNoSer _ _ _)

theorem serializeFields (ss : List (String × Nat)) (w : World) (m : Msg) : R w (Sys.serializeFields env w ss m).1 := by
  induction ss generalizing w m with
  | nil => exact hb.refl w
  | cons p r ih =>
    obtain ⟨key, sid⟩ := p
    unfold Sys.serializeFields
    cases m.get? key with
    | none => exact hb.refl w
    | some v =>
      simp only
      cases env.serialize sid v w.serCalls with
      | ok v' => exact hb.trans (hb.serCalls w) (ih _ _)
      | error e => exact hb.serCalls w

theorem loggerWrite (w : World) (m : Msg) (sers : Option (List (String × Nat))) : R w (w.loggerWrite env m sers) := by
  unfold World.loggerWrite
  cases sers with
  | none => exact hb.send w m
  | some ss =>
    simp only
    have h1 := hb.serializeFields ss w m
    cases h : (Sys.serializeFields env w ss m).2 with
    | ok m' => exact hb.trans h1 (hb.send _ _)
    | error e => exact hb.trans h1 (hb.trans (hb.writeTraceback _ e) (hb.logNoSer _ _ _))

theorem logMessage (w : World) (ms : MSpec) : R w (w.logMessage env ms) := by
  unfold World.logMessage
  exact hb.trans (hb.currentOrFresh w) (hb.trans (hb.buildLog _ _ _ _) (hb.loggerWrite _ _ _))

theorem logTo (w : World) (h : Nat) (ms : MSpec) : R w (w.logTo env h ms) := by
  unfold World.logTo
  exact hb.trans (hb.buildLog _ _ _ _) (hb.loggerWrite _ _ _)

theorem startRec (w : World) (h : Nat) (f : Fields) : R w (w.startRec env h f) := by
  unfold World.startRec
  cases w.acts[h]? with
  | none => exact hb.refl w
  | some a => exact hb.trans (hb.clock w) (hb.trans (hb.nextLevel _ _) (hb.loggerWrite _ _ _))

theorem finishRec (w : World) (h : Nat) (exc : Option Exc) : R w (w.finishRec env h exc) := by
  unfold World.finishRec
  cases ha : w.acts[h]? with
  | none => exact hb.refl w
  | some a =>
    simp only
    split
    · exact hb.refl w
    · have h0 := hb.setFinished w h a ha
      cases exc with
      | none => exact hb.trans h0 (hb.trans (hb.clock _) (hb.trans (hb.nextLevel _ _) (hb.loggerWrite _ _ _)))
      | some e =>
        exact hb.trans h0 (hb.trans (hb.getFields _ e) (hb.trans (hb.clock _) (hb.trans (hb.nextLevel _ _) (hb.loggerWrite _ _ _))))

theorem startAction (w : World) (task : Bool) (sp : Spec) : R w (w.startAction env task sp).1 := by
  unfold World.startAction
  split
  · exact hb.trans (hb.freshAction w _ _) (hb.startRec _ _ _)
  · rename_i p _
    split
    · exact hb.refl w
    · rename_i pa hpa
      exact hb.trans (hb.appendChild w p pa sp.atype sp.sers hpa) (hb.startRec _ _ _)

theorem continueTask (w : World) (y u : Nat) (lvl : Level) (sp : Spec) (hl : lookupNat w.ids y = some (u, lvl)) :
    R w (World.continueTask env ({ w with ids := w.ids.filter (fun e => e.1 != y) } : World) u lvl sp).1 := by
  unfold World.continueTask
  exact hb.trans (hb.appendRemote w y u lvl sp.atype sp.sers hl) (hb.startRec _ _ _)

/-- every primitive the program language is built from -/
theorem prim : Prim env R where
  refl := hb.refl
  trans := hb.trans
  startAction := hb.startAction
  continueTask := hb.continueTask
  logMessage := hb.logMessage
  logTo := hb.logTo
  writeTraceback := hb.writeTraceback
  finishRec := hb.finishRec
  setCtx := hb.setCtx
  setVars := hb.setVars
  reserve := hb.reserve
  probe := hb.probe
  succ := hb.succ

end BasicD

/-- the three configuration statements, from their basic steps -/
structure BasicCfg (env : Env) (R : World → World → Prop) : Prop where
  startDelivery : ∀ (w : World) (ds : List Nat), 
    R w { w with anyAdded := true, dests := ds, buffer := [], pendingAt := w.bufferAt, bufferAt := [], dupAdd := w.dupAdd || hasDup ds }
  extendDests : ∀ (w : World) (ds : List Nat), R w { w with dests := w.dests ++ ds, dupAdd := w.dupAdd || hasDup (w.dests ++ ds) }
  /-- ghost step of the re-delivery loop of the first `Destinations.add` -/
  popPending : ∀ (w : World), R w w.popPending
  removeDest : ∀ (w : World) (d : Nat), R w { w with dests := w.dests.erase d }
  addGlobals : ∀ (w : World) (fs : Fields), R w { w with globals := w.globals.update fs }

theorem BasicD.primCfg {env : Env} {R : World → World → Prop} (hb : BasicD env R) (hc : BasicCfg env R) : PrimCfg env R where
  addDests := fun w ds => by
    unfold World.addDests
    split
    · exact hc.extendDests w ds
    · have key : ∀ (buf : List Msg) (w1 : World), R w1 (buf.foldl (fun acc m => acc.popPending.send env m) w1) := by
        intro buf
        induction buf with
        | nil => intro w1; exact hb.refl w1
        | cons m ms ih => intro w1; exact hb.trans (hb.trans (hc.popPending w1) (hb.send _ m)) (ih _)
      exact hb.trans (hc.startDelivery w ds) (key _ _)
  removeDest := hc.removeDest
  addGlobals := hc.addGlobals

/-- the fine-grained steps give the coarse one -/
theorem Basic.toD {env : Env} {R : World → World → Prop} (hb : Basic env R) : BasicD env R where
  refl := hb.refl
  trans := hb.trans
  deliver := fun w m => by
    have fan : ∀ (ds : List Nat) (w : World) (m : Msg), R w (World.fanOut env w m ds).1 := by
      intro ds
      induction ds with
      | nil => intro w m; exact hb.refl w
      | cons d ds ih => intro w m; exact hb.trans (hb.callDest w d m) (ih _ _)
    unfold World.deliver
    simp only
    split
    · exact hb.trans (hb.trans (hb.stagePush w _) (fan _ _ _)) (hb.ghostSlot _ none _)
    · -- (the trimmed lists are made opaque: comparing `_ - 1000` terms up to reduction is expensive)
      generalize trim1000 _ = B
      generalize trimAt _ = BA
      exact hb.trans (hb.stagePush w (Fields.update m w.globals)) (hb.trans (hb.bufferSet _ B) (hb.ghostSlot _ none BA))
  clock := hb.clock
  nextLevel := hb.nextLevel
  freshAction := hb.freshAction
  extCalls := hb.extCalls
  serCalls := hb.serCalls
  setFinished := hb.setFinished
  appendChild := hb.appendChild
  appendRemote := hb.appendRemote
  setCtx := hb.setCtx
  setVars := hb.setVars
  reserve := hb.reserve
  probe := hb.probe
  succ := hb.succ

theorem Basic.prim {env : Env} {R : World → World → Prop} (hb : Basic env R) : Prim env R := hb.toD.prim
theorem Basic.primCfg {env : Env} {R : World → World → Prop} (hb : Basic env R) (hc : BasicCfg env R) : PrimCfg env R :=
  hb.toD.primCfg hc

end Sys
