import Eliot.Proofs.ParseStep
/-!
# Sub-trees of specification trees (C06): the part of a task that is logged elsewhere

`Tree.sub t p` — the sub-tree of `t` at the relative path of positions `p` (position `k ≥ 2` of an
action is its `(k-2)`-th item; positions `1` and `n` are its start and end message).
`Tree.cutMsgs u t lvl p` — the messages of `t` (placed at `lvl`) *except* those of the sub-tree at
path `p`: what the originating side logs when the item at `p` is handed over to another
thread/process; `Tree.msgs u r (lvl ++ p)` is what the remote side logs.
`Node.at n p` — the node at relative path `p` of a parsed tree.

Lemmas: all messages of a tree have pairwise different levels (`Tree.msgs_nodup`); origin's and
remote's logs together are a permutation of the tree's messages (`Tree.cut_perm`); in the fully
arrived view the sub-tree's view sits at path `p` (`Tree.view_at`); the same over chains of
hand-overs (`hopLogs_perm`).
-/
namespace PM

/-! ## levels are pairwise different -/
mutual
theorem Tree.msgs_nodup (u : String) (t : Tree) (lvl : Level) : (Tree.msgs u t lvl).Nodup := by
  cases t with
  | leaf b => simp [Tree.msgs]
  | node a sb eb ok kids =>
    simp only [Tree.msgs]
    rw [List.nodup_cons]
    constructor
    · intro hmem
      rcases List.mem_append.mp hmem with h | h
      · obtain ⟨k, hk, hp⟩ := Forest.msgs_prefix u kids lvl 2 _ h
        exact ne_of_prefix lvl k 1 _ (startMsg u lvl a sb) hp (by simp [startMsg]) (by omega) rfl
      · simp only [List.mem_singleton] at h
        have := congrArg PMsg.level h
        simp [startMsg, endMsg] at this
    · rw [List.nodup_append]
      refine ⟨Forest.msgs_nodup u kids lvl 2, by simp, ?_⟩
      intro x hx y hy
      simp only [List.mem_singleton] at hy
      subst hy
      obtain ⟨k, hk, hk2, hp⟩ := Forest.msgs_prefix_lt u kids lvl 2 x hx
      exact ne_of_prefix lvl k (kids.len + 2) x _ hp (by simp [endMsg]) (by omega)
theorem Forest.msgs_nodup (u : String) (f : Forest) (lvl : Level) (k0 : Nat) : (Forest.msgs u f lvl k0).Nodup := by
  cases f with
  | nil => simp [Forest.msgs]
  | cons t rest =>
    simp only [Forest.msgs]
    rw [List.nodup_append]
    refine ⟨Tree.msgs_nodup u t _, Forest.msgs_nodup u rest lvl (k0 + 1), ?_⟩
    intro x hx y hy
    obtain ⟨k, hk, hp⟩ := Forest.msgs_prefix u rest lvl (k0 + 1) y hy
    exact ne_of_prefix lvl k0 k x y (Tree.msgs_prefix u t _ x hx) hp (by omega)
end

/-! ## sub-trees, the origin's share of the messages -/
mutual
def Tree.sub : Tree → List Nat → Option Tree
  | t, [] => some t
  | .leaf _, _ :: _ => none
  | .node _ _ _ _ kids, k :: p => Forest.sub kids 2 k p
/-- `k0` is the position of the first item of the forest -/
def Forest.sub : Forest → Nat → Nat → List Nat → Option Tree
  | .nil, _, _, _ => none
  | .cons t rest, k0, k, p => if k = k0 then Tree.sub t p else Forest.sub rest (k0 + 1) k p
end

mutual
def Tree.cutMsgs (u : String) : Tree → Level → List Nat → List PMsg
  | _, _, [] => []
  | .leaf b, lvl, _ :: _ => [leafMsg u lvl b]
  | .node a sb eb ok kids, lvl, k :: p =>
    startMsg u lvl a sb :: (Forest.cutMsgs u kids lvl 2 k p ++ [endMsg u lvl a eb ok (kids.len + 2)])
def Forest.cutMsgs (u : String) : Forest → Level → Nat → Nat → List Nat → List PMsg
  | .nil, _, _, _, _ => []
  | .cons t rest, lvl, k0, k, p =>
    if k = k0 then Tree.cutMsgs u t (lvl ++ [k0]) p ++ Forest.msgs u rest lvl (k0 + 1)
    else Tree.msgs u t (lvl ++ [k0]) ++ Forest.cutMsgs u rest lvl (k0 + 1) k p
end

theorem Tree.sub_nil (t : Tree) : Tree.sub t [] = some t := by cases t <;> rfl
theorem Tree.cutMsgs_nil (u : String) (t : Tree) (lvl : Level) : Tree.cutMsgs u t lvl [] = [] := by
  cases t <;> rfl

/- the origin's log and the remote side's log are, together, the messages of the whole tree -/
mutual
theorem Tree.cut_perm (u : String) (t : Tree) (lvl : Level) (p : List Nat) (r : Tree) (h : Tree.sub t p = some r) :
    (Tree.cutMsgs u t lvl p ++ Tree.msgs u r (lvl ++ p)).Perm (Tree.msgs u t lvl) := by
  cases p with
  | nil =>
    rw [Tree.sub_nil] at h
    cases h
    rw [Tree.cutMsgs_nil]
    simp
  | cons k p =>
    cases t with
    | leaf b => simp [Tree.sub] at h
    | node a sb eb ok kids =>
      simp only [Tree.sub] at h
      have ih := Forest.cut_perm u kids lvl 2 k p r h
      simp only [Tree.cutMsgs, Tree.msgs, List.cons_append]
      refine List.Perm.cons _ ?_
      -- (X ++ [e]) ++ R ~ (X ++ R) ++ [e] ~ F ++ [e]
      have h1 : ((Forest.cutMsgs u kids lvl 2 k p ++ [endMsg u lvl a eb ok (kids.len + 2)]) ++ Tree.msgs u r (lvl ++ k :: p)).Perm
          ((Forest.cutMsgs u kids lvl 2 k p ++ Tree.msgs u r (lvl ++ k :: p)) ++ [endMsg u lvl a eb ok (kids.len + 2)]) := by
        rw [List.append_assoc, List.append_assoc]
        exact List.Perm.append_left _ List.perm_append_comm
      exact h1.trans (List.Perm.append_right _ ih)
theorem Forest.cut_perm (u : String) (f : Forest) (lvl : Level) (k0 k : Nat) (p : List Nat) (r : Tree)
    (h : Forest.sub f k0 k p = some r) :
    (Forest.cutMsgs u f lvl k0 k p ++ Tree.msgs u r (lvl ++ k :: p)).Perm (Forest.msgs u f lvl k0) := by
  cases f with
  | nil => simp [Forest.sub] at h
  | cons t rest =>
    simp only [Forest.sub] at h
    simp only [Forest.cutMsgs, Forest.msgs]
    by_cases e : k = k0
    · subst e
      simp only [↓reduceIte] at h ⊢
      have ih := Tree.cut_perm u t (lvl ++ [k]) p r h
      have e2 : lvl ++ [k] ++ p = lvl ++ k :: p := by simp
      rw [e2] at ih
      -- (C ++ Rest) ++ R ~ (C ++ R) ++ Rest ~ T ++ Rest
      have h1 : ((Tree.cutMsgs u t (lvl ++ [k]) p ++ Forest.msgs u rest lvl (k + 1)) ++ Tree.msgs u r (lvl ++ k :: p)).Perm
          ((Tree.cutMsgs u t (lvl ++ [k]) p ++ Tree.msgs u r (lvl ++ k :: p)) ++ Forest.msgs u rest lvl (k + 1)) := by
        rw [List.append_assoc, List.append_assoc]
        exact List.Perm.append_left _ List.perm_append_comm
      exact h1.trans (List.Perm.append_right _ ih)
    · simp only [e, ↓reduceIte] at h ⊢
      have ih := Forest.cut_perm u rest lvl (k0 + 1) k p r h
      rw [List.append_assoc]
      exact List.Perm.append_left _ ih
end

/-- a path into a forest only finds items of the forest: positions `k0 … k0 + len - 1` -/
theorem Forest.sub_bound (f : Forest) (k0 k : Nat) (p : List Nat) (r : Tree) (h : Forest.sub f k0 k p = some r) :
    k0 ≤ k ∧ k < k0 + f.len := by
  cases f with
  | nil => simp [Forest.sub] at h
  | cons t rest =>
    simp only [Forest.sub] at h
    by_cases e : k = k0
    · subst e; simp [Forest.len]
    · simp only [e, ↓reduceIte] at h
      have := Forest.sub_bound rest (k0 + 1) k p r h
      simp only [Forest.len]
      omega

/-- the reserved place is used by no message of the origin's log -/
theorem Tree.cut_disjoint (u : String) (t : Tree) (lvl : Level) (p : List Nat) (r : Tree) (h : Tree.sub t p = some r) :
    ∀ x ∈ Tree.cutMsgs u t lvl p, ∀ y ∈ Tree.msgs u r (lvl ++ p), x ≠ y := by
  have hn : (Tree.cutMsgs u t lvl p ++ Tree.msgs u r (lvl ++ p)).Nodup :=
    (Tree.cut_perm u t lvl p r h).nodup_iff.mpr (Tree.msgs_nodup u t lvl)
  exact (List.nodup_append.mp hn).2.2

/-! ## the node at a path of a parsed tree -/
def Node.child? : Node → Nat → Option Node
  | .msg _, _ => none
  | .act _ _ ch, k => ch.get? k

def Node.at : Node → List Nat → Option Node
  | n, [] => some n
  | n, k :: p => (n.child? k).bind (fun c => c.at p)

def allIn : PMsg → Bool := fun _ => true

theorem view_all_node (u : String) (a : String) (sb eb : Nat) (ok : Bool) (kids : Forest) (lvl : Level) :
    Tree.view allIn u (.node a sb eb ok kids) lvl =
      some (.act (some (startMsg u lvl a sb)) (some (endMsg u lvl a eb ok (kids.len + 2))) (Forest.view allIn u kids lvl 2)) := by
  simp [Tree.view, pick, allIn]

theorem view_all_isSome (u : String) (t : Tree) (lvl : Level) : ∃ n, Tree.view allIn u t lvl = some n := by
  cases t with
  | leaf b => exact ⟨.msg (leafMsg u lvl b), by simp [Tree.view, pick, allIn]⟩
  | node a sb eb ok kids => exact ⟨_, view_all_node u a sb eb ok kids lvl⟩

/- in the view of the fully arrived tree, the view of the sub-tree at path `p` sits at path `p` -/
mutual
theorem Tree.view_at (u : String) (t : Tree) (lvl : Level) (p : List Nat) (r : Tree) (h : Tree.sub t p = some r) :
    (Tree.view allIn u t lvl).bind (fun n => n.at p) = Tree.view allIn u r (lvl ++ p) := by
  cases p with
  | nil =>
    rw [Tree.sub_nil] at h
    cases h
    obtain ⟨n, hn⟩ := view_all_isSome u t lvl
    simp [hn, Node.at]
  | cons k p =>
    cases t with
    | leaf b => simp [Tree.sub] at h
    | node a sb eb ok kids =>
      simp only [Tree.sub] at h
      rw [view_all_node]
      simp only [Option.bind_some, Node.at, Node.child?]
      exact Forest.view_at u kids lvl 2 k p r h
theorem Forest.view_at (u : String) (f : Forest) (lvl : Level) (k0 k : Nat) (p : List Nat) (r : Tree)
    (h : Forest.sub f k0 k p = some r) :
    ((Forest.view allIn u f lvl k0).get? k).bind (fun c => c.at p) = Tree.view allIn u r (lvl ++ k :: p) := by
  cases f with
  | nil => simp [Forest.sub] at h
  | cons t rest =>
    simp only [Forest.sub] at h
    obtain ⟨n, hn⟩ := view_all_isSome u t (lvl ++ [k0])
    simp only [Forest.view, hn]
    by_cases e : k = k0
    · subst e
      simp only [↓reduceIte] at h
      have ih := Tree.view_at u t (lvl ++ [k]) p r h
      rw [hn] at ih
      simp only [Kids.get?, ↓reduceIte]
      have e2 : lvl ++ [k] ++ p = lvl ++ k :: p := by simp
      rw [← e2]
      exact ih
    · simp only [e, ↓reduceIte] at h
      have hb := Forest.sub_bound rest (k0 + 1) k p r h
      have h1 : ¬ k < k0 := by omega
      simp only [Kids.get?, e, h1, ↓reduceIte]
      exact Forest.view_at u rest lvl (k0 + 1) k p r h
end

mutual
theorem Tree.sub_append (t : Tree) (p q : List Nat) (r s : Tree) (h1 : Tree.sub t p = some r) (h2 : Tree.sub r q = some s) :
    Tree.sub t (p ++ q) = some s := by
  cases p with
  | nil => rw [Tree.sub_nil] at h1; cases h1; simpa using h2
  | cons k p =>
    cases t with
    | leaf b => simp [Tree.sub] at h1
    | node a sb eb ok kids =>
      simp only [Tree.sub, List.cons_append] at h1 ⊢
      exact Forest.sub_append kids 2 k p q r s h1 h2
theorem Forest.sub_append (f : Forest) (k0 k : Nat) (p q : List Nat) (r s : Tree) (h1 : Forest.sub f k0 k p = some r)
    (h2 : Tree.sub r q = some s) : Forest.sub f k0 k (p ++ q) = some s := by
  cases f with
  | nil => simp [Forest.sub] at h1
  | cons t rest =>
    simp only [Forest.sub] at h1 ⊢
    by_cases e : k = k0
    · simp only [e, ↓reduceIte] at h1 ⊢
      exact Tree.sub_append t p q r s h1 h2
    · simp only [e, ↓reduceIte] at h1 ⊢
      exact Forest.sub_append rest (k0 + 1) k p q r s h1 h2
end

/-! ## chains of hand-overs -/

/-- The separate logs of a chain of hand-overs: `t` (placed at `lvl`) hands the item at path `p₁`
over, the side that runs it hands the item at (relative) path `p₂` of *that* action over, and so
on; the last side logs its sub-tree in full.  `none` if a path does not lead to an item. -/
def hopLogs (u : String) : Tree → Level → List (List Nat) → Option (List (List PMsg))
  | t, lvl, [] => some [Tree.msgs u t lvl]
  | t, lvl, p :: ps =>
    match Tree.sub t p with
    | none => none
    | some r =>
      match hopLogs u r (lvl ++ p) ps with
      | none => none
      | some logs => some (Tree.cutMsgs u t lvl p :: logs)

theorem hopLogs_perm (u : String) (hops : List (List Nat)) : ∀ (t : Tree) (lvl : Level) (logs : List (List PMsg)),
    hopLogs u t lvl hops = some logs → logs.flatten.Perm (Tree.msgs u t lvl) := by
  induction hops with
  | nil =>
    intro t lvl logs h
    simp only [hopLogs, Option.some.injEq] at h
    subst h; simp
  | cons p ps ih =>
    intro t lvl logs h
    simp only [hopLogs] at h
    cases hs : Tree.sub t p with
    | none => simp [hs] at h
    | some r =>
      simp only [hs] at h
      cases hl : hopLogs u r (lvl ++ p) ps with
      | none => simp [hl] at h
      | some logs' =>
        simp only [hl, Option.some.injEq] at h
        subst h
        simp only [List.flatten_cons]
        exact (List.Perm.append_left _ (ih r (lvl ++ p) logs' hl)).trans (Tree.cut_perm u t lvl p r hs)

end PM
