import Eliot.Model.LogCall
/-! The outer function `boltons.funcutils.wraps` generates binds a call exactly as the wrapped function
does — `bind sig.demote pos kw = bind sig pos kw` — as long as no keyword of the call is spelled like
a positional-only parameter (`posOnlyRespected`).  This is the structural half of the per-call
hypothesis `bindingAgrees` of C18's partial theorems: where the binders can disagree at all is
exactly the two known positional-only findings. -/
namespace LC

def Slot.demote (s : Slot) : Slot := ⟨s.p.demote, s.v⟩

theorem Param.demote_name (p : Param) : p.demote.name = p.name := by
  unfold Param.demote; split <;> rfl

theorem Param.demote_default (p : Param) : p.demote.default = p.default := by
  unfold Param.demote; split <;> rfl

theorem Param.demote_kind_ne_posOnly (p : Param) : p.demote.kind ≠ .posOnly := by
  unfold Param.demote
  split
  · simp
  · rename_i h; simpa using h

theorem Param.demote_of_not_posOnly {p : Param} (h : p.kind ≠ .posOnly) : p.demote = p := by
  unfold Param.demote
  split
  · rename_i hk; exact absurd hk h
  · rfl

theorem Param.demote_isPositional (p : Param) : p.demote.kind.isPositional = p.kind.isPositional := by
  unfold Param.demote
  split
  · rename_i h; simp [h, Kind.isPositional]
  · rfl

theorem Param.demote_kind_eq {p : Param} {k : Kind} (hk : k ≠ .posOnly) (hk' : k ≠ .posOrKw) :
    (p.demote.kind == k) = (p.kind == k) := by
  unfold Param.demote
  split
  · rename_i h
    have h1 : (Kind.posOrKw == k) = false := by
      cases k <;> simp_all
    have h2 : (p.kind == k) = false := by
      rw [h]; cases k <;> simp_all
    simp [h1, h2]
  · rfl

theorem demote_positional (sig : Sig) : (Sig.demote sig).positional = sig.positional.map Param.demote := by
  induction sig with
  | nil => rfl
  | cons p ps ih =>
    simp only [Sig.demote, Sig.positional, List.map_cons, List.filter_cons] at ih ⊢
    rw [Param.demote_isPositional]
    split
    · simp only [List.map_cons]; rw [ih]
    · exact ih

theorem demote_kwOnly (sig : Sig) : (Sig.demote sig).kwOnly = sig.kwOnly.map Param.demote := by
  induction sig with
  | nil => rfl
  | cons p ps ih =>
    simp only [Sig.demote, Sig.kwOnly, List.map_cons, List.filter_cons] at ih ⊢
    rw [Param.demote_kind_eq (by decide) (by decide)]
    split
    · simp only [List.map_cons]; rw [ih]
    · exact ih

theorem demote_find (sig : Sig) (k : Kind) (hk : k ≠ .posOnly) (hk' : k ≠ .posOrKw) :
    ((Sig.demote sig).find? (·.kind == k)).map (·.name) = (sig.find? (·.kind == k)).map (·.name) := by
  induction sig with
  | nil => rfl
  | cons p ps ih =>
    simp only [Sig.demote, List.map_cons, List.find?_cons] at ih ⊢
    rw [Param.demote_kind_eq hk hk']
    split
    · simp [Param.demote_name]
    · exact ih

theorem demote_varKw (sig : Sig) : (Sig.demote sig).varKw = sig.varKw := demote_find sig .varKw (by decide) (by decide)
theorem demote_varPos (sig : Sig) : (Sig.demote sig).varPos = sig.varPos := demote_find sig .varPos (by decide) (by decide)

theorem fillPos_demote : ∀ (ps : List Param) (vs : List Val),
    fillPos (ps.map Param.demote) vs = (fillPos ps vs).map Slot.demote
  | [], _ => rfl
  | p :: ps, [] => by simp [fillPos, Slot.demote, fillPos_demote ps []]
  | p :: ps, v :: vs => by simp [fillPos, Slot.demote, fillPos_demote ps vs]

/-- no slot is a positional-only parameter called `k` -/
def Clear (k : String) (slots : List Slot) : Prop := ∀ s ∈ slots, ¬ (s.p.kind = .posOnly ∧ s.p.name = k)

def KwRes.demote : KwRes → KwRes
  | .notFound => .notFound
  | .dup => .dup
  | .set r => .set (r.map Slot.demote)

theorem assignKw_demote (k : String) (v : Val) : ∀ (slots : List Slot), Clear k slots →
    assignKw k v (slots.map Slot.demote) = (assignKw k v slots).demote
  | [], _ => rfl
  | s :: rest, hc => by
    have hs := hc s (by simp)
    have ih := assignKw_demote k v rest (fun x hx => hc x (List.mem_cons_of_mem _ hx))
    simp only [List.map_cons, assignKw]
    have hcond : ((Slot.demote s).p.kind ≠ .posOnly ∧ (Slot.demote s).p.name = k) ↔ (s.p.kind ≠ .posOnly ∧ s.p.name = k) := by
      simp only [Slot.demote, Param.demote_name]
      constructor
      · intro ⟨_, hn⟩
        exact ⟨fun hk => hs ⟨hk, hn⟩, hn⟩
      · intro ⟨_, hn⟩
        exact ⟨Param.demote_kind_ne_posOnly s.p, hn⟩
    by_cases h : s.p.kind ≠ .posOnly ∧ s.p.name = k
    · rw [if_pos (hcond.mpr h), if_pos h]
      simp only [Slot.demote]
      cases s.v <;> simp [KwRes.demote, Slot.demote]
    · rw [if_neg (fun hh => h (hcond.mp hh)), if_neg h, ih]
      cases assignKw k v rest <;> simp [KwRes.demote]

theorem assignKw_params (k : String) (v : Val) : ∀ (slots r : List Slot),
    assignKw k v slots = .set r → r.map (·.p) = slots.map (·.p)
  | [], r, h => by simp [assignKw] at h
  | s :: rest, r, h => by
    simp only [assignKw] at h
    split at h
    · split at h
      · cases h
      · cases h; rfl
    · cases hr : assignKw k v rest with
      | set r' =>
        simp [hr] at h
        cases h
        simp [assignKw_params k v rest r' hr]
      | dup => simp [hr] at h
      | notFound => simp [hr] at h

theorem clear_of_params {k : String} {a b : List Slot} (h : a.map (·.p) = b.map (·.p)) (hc : Clear k b) : Clear k a := by
  intro s hs
  have : s.p ∈ a.map (·.p) := List.mem_map.mpr ⟨s, hs, rfl⟩
  rw [h] at this
  obtain ⟨s', hs', hp⟩ := List.mem_map.mp this
  rw [← hp]
  exact hc s' hs'

theorem any_posOnly_false {k : String} {slots : List Slot} (hc : Clear k slots) :
    slots.any (fun s => s.p.kind == .posOnly && s.p.name == k) = false := by
  apply List.any_eq_false.mpr
  intro s hs
  have := hc s hs
  simp only [Bool.and_eq_true, beq_iff_eq]
  exact this

theorem any_posOnly_demote_false (k : String) (slots : List Slot) :
    (slots.map Slot.demote).any (fun s => s.p.kind == .posOnly && s.p.name == k) = false := by
  apply List.any_eq_false.mpr
  intro s hs
  obtain ⟨s', _, rfl⟩ := List.mem_map.mp hs
  simp only [Slot.demote, Bool.and_eq_true, beq_iff_eq, not_and]
  intro h
  exact absurd h (Param.demote_kind_ne_posOnly s'.p)

def demoteRes : Except TypeErr (List Slot × Dict Val) → Except TypeErr (List Slot × Dict Val)
  | .ok (s, d) => .ok (s.map Slot.demote, d)
  | .error e => .error e

theorem bindKws_demote (hv : Bool) : ∀ (kw : List (String × Val)) (slots : List Slot) (kwd : Dict Val),
    (∀ e ∈ kw, Clear e.1 slots) →
    bindKws hv kw (slots.map Slot.demote) kwd = demoteRes (bindKws hv kw slots kwd)
  | [], slots, kwd, _ => rfl
  | (k, v) :: rest, slots, kwd, hc => by
    have hk : Clear k slots := hc (k, v) (by simp)
    simp only [bindKws]
    rw [assignKw_demote k v slots hk]
    cases hr : assignKw k v slots with
    | set r =>
      simp only [KwRes.demote]
      have hp := assignKw_params k v slots r hr
      exact bindKws_demote hv rest r kwd (fun e he => clear_of_params hp (hc e (List.mem_cons_of_mem _ he)))
    | dup => rfl
    | notFound =>
      simp only [KwRes.demote]
      cases hv with
      | true =>
        simp only [if_true]
        exact bindKws_demote true rest slots _ (fun e he => hc e (List.mem_cons_of_mem _ he))
      | false =>
        simp only [Bool.false_eq_true, if_false]
        rw [any_posOnly_demote_false, any_posOnly_false hk]
        rfl

theorem slotValue_demote (name : String) : ∀ slots : List Slot, slotValue (slots.map Slot.demote) name = slotValue slots name
  | [] => rfl
  | s :: rest => by
    simp only [List.map_cons, slotValue, Slot.demote, Param.demote_name]
    rw [slotValue_demote name rest]

theorem finishParam_demote (slots : List Slot) (extra : List Val) (kwd : Dict Val) (p : Param) :
    finishParam (slots.map Slot.demote) extra kwd p.demote = finishParam slots extra kwd p := by
  by_cases h : p.kind = .posOnly
  · have hd : p.demote = { p with kind := .posOrKw } := by unfold Param.demote; simp [h]
    simp only [finishParam, hd, h, slotValue_demote]
  · rw [Param.demote_of_not_posOnly h]
    simp only [finishParam, slotValue_demote]

theorem finishAll_demote (slots : List Slot) (extra : List Val) (kwd : Dict Val) : ∀ ps : List Param,
    finishAll (slots.map Slot.demote) extra kwd (ps.map Param.demote) = finishAll slots extra kwd ps
  | [] => rfl
  | p :: ps => by
    simp only [List.map_cons, finishAll, finishParam_demote, finishAll_demote slots extra kwd ps]

theorem clear_of_respected {sig : Sig} {kw : List (String × Val)} (h : posOnlyRespected sig kw = true)
    (slots : List Slot) (hs : ∀ s ∈ slots, s.p ∈ sig) : ∀ e ∈ kw, Clear e.1 slots := by
  intro e he s hmem hbad
  simp only [posOnlyRespected, List.all_eq_true] at h
  have := h e he s.p (hs s hmem)
  simp [hbad.1, hbad.2] at this

theorem fillPos_params : ∀ (ps : List Param) (vs : List Val) (s : Slot), s ∈ fillPos ps vs → s.p ∈ ps
  | [], _, s, h => by simp [fillPos] at h
  | p :: ps, [], s, h => by
    simp only [fillPos, List.mem_cons] at h
    rcases h with rfl | h
    · simp
    · exact List.mem_cons_of_mem _ (fillPos_params ps [] s h)
  | p :: ps, v :: vs, s, h => by
    simp only [fillPos, List.mem_cons] at h
    rcases h with rfl | h
    · simp
    · exact List.mem_cons_of_mem _ (fillPos_params ps vs s h)

/-- **The generated outer function binds like the function itself** whenever no keyword of the call is
spelled like a positional-only parameter. -/
theorem bind_demote (sig : Sig) (pos : List Val) (kw : List (String × Val)) (h : posOnlyRespected sig kw = true) :
    bind (Sig.demote sig) pos kw = bind sig pos kw := by
  have hslots : ∀ s ∈ fillPos sig.positional pos ++ (sig.kwOnly.map fun p => (⟨p, Option.none⟩ : Slot)), s.p ∈ sig := by
    intro s hs
    rcases List.mem_append.mp hs with h1 | h1
    · exact (List.mem_filter.mp (fillPos_params _ _ s h1)).1
    · obtain ⟨p, hp, rfl⟩ := List.mem_map.mp h1
      exact (List.mem_filter.mp hp).1
  have hclear := clear_of_respected h _ hslots
  have hs0 : fillPos (Sig.demote sig).positional pos ++ ((Sig.demote sig).kwOnly.map fun p => (⟨p, Option.none⟩ : Slot))
      = (fillPos sig.positional pos ++ (sig.kwOnly.map fun p => (⟨p, Option.none⟩ : Slot))).map Slot.demote := by
    rw [demote_positional, demote_kwOnly, fillPos_demote]
    simp [Slot.demote, Function.comp_def]
  unfold bind
  simp only [hs0, demote_varKw, demote_varPos]
  rw [bindKws_demote _ kw _ [] hclear]
  have hlen : (Sig.demote sig).positional.length = sig.positional.length := by
    rw [demote_positional, List.length_map]
  cases hb : bindKws sig.varKw.isSome kw (fillPos sig.positional pos ++ (sig.kwOnly.map fun p => (⟨p, Option.none⟩ : Slot))) [] with
  | error e => simp [demoteRes]
  | ok r =>
    obtain ⟨slots, kwd⟩ := r
    simp only [demoteRes, hlen]
    split
    · rfl
    · exact finishAll_demote slots _ kwd sig

end LC
