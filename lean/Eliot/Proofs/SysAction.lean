import Eliot.Proofs.SysBasic
/-! Facts about `Action._start` / `Action.finish` used by C03: the `finished` flag is monotone
(over every basic step, hence over every program), and `finish` decomposed into "set the flag" +
"build and write the end dict". -/
namespace Sys

/-! ### identity and `finished` flag of existing actions are kept -/

/-- every existing action keeps its place in the table, its identity (uuid, level, type,
serializers) and, once set, its `finished` flag.  (Unlike `Frame.keep` this also holds for
`add_success_fields`.) -/
def KeepsL (l l' : List Act) : Prop :=
  ∀ (h : Nat) (a : Act), l[h]? = some a → ∃ a' : Act, l'[h]? = some a' ∧ a'.uuid = a.uuid ∧ a'.level = a.level ∧
    a'.atype = a.atype ∧ a'.sers = a.sers ∧ (a.finished = true → a'.finished = true)

def Keeps (w w' : World) : Prop := KeepsL w.acts w'.acts

theorem KeepsL.refl (l : List Act) : KeepsL l l := fun _ a h => ⟨a, h, rfl, rfl, rfl, rfl, id⟩

theorem KeepsL.trans {a b c : List Act} (h1 : KeepsL a b) (h2 : KeepsL b c) : KeepsL a c := fun h x hx => by
  obtain ⟨y, hy, e1, e2, e3, e4, e5⟩ := h1 h x hx
  obtain ⟨z, hz, f1, f2, f3, f4, f5⟩ := h2 h y hy
  exact ⟨z, hz, f1.trans e1, f2.trans e2, f3.trans e3, f4.trans e4, fun t => f5 (e5 t)⟩

theorem KeepsL.append (l : List Act) (ys : List Act) : KeepsL l (l ++ ys) := fun h a ha => by
  have hlt : h < l.length := by
    rcases Nat.lt_or_ge h l.length with hl | hl
    · exact hl
    · rw [List.getElem?_eq_none hl] at ha; cases ha
  exact ⟨a, by rw [List.getElem?_append_left hlt]; exact ha, rfl, rfl, rfl, rfl, id⟩

theorem KeepsL.set (l : List Act) (h : Nat) (a b : Act) (ha : l[h]? = some a) (e1 : b.uuid = a.uuid) (e2 : b.level = a.level)
    (e3 : b.atype = a.atype) (e4 : b.sers = a.sers) (e5 : a.finished = true → b.finished = true) : KeepsL l (l.set h b) := by
  intro h' a' ha'
  have hlt : h < l.length := by
    rcases Nat.lt_or_ge h l.length with hl | hl
    · exact hl
    · rw [List.getElem?_eq_none hl] at ha; cases ha
  by_cases e : h = h'
  · subst e
    rw [ha] at ha'; cases ha'
    exact ⟨b, by simp [List.getElem?_set_self hlt], e1, e2, e3, e4, e5⟩
  · exact ⟨a', by simp [List.getElem?_set_ne e, ha'], rfl, rfl, rfl, rfl, id⟩

theorem Keeps.refl (w : World) : Keeps w w := KeepsL.refl _
theorem Keeps.trans {a b c : World} (h1 : Keeps a b) (h2 : Keeps b c) : Keeps a c := KeepsL.trans h1 h2

theorem Keeps.ofFrame {w w' : World} (f : Frame w w') : Keeps w w' := fun h a ha => by
  obtain ⟨a', h1, h2, h3, _, h5, _, h7, h8⟩ := f.keep h a ha
  exact ⟨a', h1, h2, h3, h7, h8, h5⟩

theorem keeps_basic (env : Env) : Basic env Keeps where
  refl := Keeps.refl
  trans := Keeps.trans
  callDest := fun w d m => Keeps.ofFrame (frame_callDest env w d m)
  stagePush := fun w _ => KeepsL.refl w.acts
  bufferSet := fun w _ => KeepsL.refl w.acts
  ghostSlot := fun w _ _ => KeepsL.refl w.acts
  clock := fun w => KeepsL.refl w.acts
  nextLevel := fun w h => Keeps.ofFrame (frame_nextLevel w h)
  freshAction := fun w t s => Keeps.ofFrame (frame_freshAction w t s)
  extCalls := fun w => KeepsL.refl w.acts
  serCalls := fun w => KeepsL.refl w.acts
  setFinished := fun w h a ha => Keeps.ofFrame (frame_setFinished w h a ha)
  appendChild := fun w p _ _ _ _ =>
    KeepsL.trans (show KeepsL w.acts (w.nextLevel p).1.acts from Keeps.ofFrame (frame_nextLevel w p)) (KeepsL.append _ _)
  appendRemote := fun w _ _ _ _ _ _ => KeepsL.append w.acts _
  setCtx := fun w _ => KeepsL.refl w.acts
  setVars := fun w _ => KeepsL.refl w.acts
  reserve := fun w h _ _ _ => show KeepsL w.acts (w.nextLevel h).1.acts from Keeps.ofFrame (frame_nextLevel w h)
  probe := fun w _ => KeepsL.refl w.acts
  succ := fun w h a fs ha => KeepsL.set w.acts h a _ ha rfl rfl rfl rfl id

theorem keeps_basicCfg (env : Env) : BasicCfg env Keeps where
  startDelivery := fun w _ => KeepsL.refl w.acts
  extendDests := fun w _ => KeepsL.refl w.acts
  popPending := fun w => KeepsL.refl w.acts
  removeDest := fun w _ => KeepsL.refl w.acts
  addGlobals := fun w _ => KeepsL.refl w.acts

/-- every program (configuration statements included), every environment, every handled exception -/
theorem keeps_execB (env : Env) (cur : Option Exc) (w : World) (p : Block) : Keeps w (execB env cur w p).1 :=
  execB_lift (keeps_basic env).prim cur w p (Or.inr ((keeps_basic env).primCfg (keeps_basicCfg env)))

theorem keeps_execS (env : Env) (cur : Option Exc) (w : World) (s : Stmt) : Keeps w (execS env cur w s).1 :=
  execS_lift (keeps_basic env).prim cur w s (Or.inr ((keeps_basic env).primCfg (keeps_basicCfg env)))

/-! ### `finish`, decomposed -/

/-- `self._finished = True` -/
def World.setFin (w : World) (h : Nat) (a : Act) : World := { w with acts := w.acts.set h { a with finished := true } }

/-- the five structural keys every action message carries -/
def STRUCT : List String := ["action_status", "timestamp", "task_uuid", "action_type", "task_level"]

/-- the dict `_start` hands to `Logger.write` -/
def startDict (a : Act) (ts : FV) (f : Fields) : Msg :=
  ((((f.set "action_status" (.str "started")).set "timestamp" ts).set "task_uuid" (.uuid a.uuid)).set
    "action_type" (.str a.atype)).set "task_level" (.lvl (a.level ++ [a.last + 1]))

/-- the dict `finish(None)` hands to `Logger.write`; `a` is the action as it is at that moment -/
def succDict (a : Act) (ts : FV) : Msg :=
  ((((a.succ.set "action_status" (.str "succeeded")).set "timestamp" ts).set "task_uuid" (.uuid a.uuid)).set
    "action_type" (.str a.atype)).set "task_level" (.lvl (a.level ++ [a.last + 1]))

/-- the dict `finish(e)` hands to `Logger.write`; `fs` = what `get_fields_for_exception` returned -/
def failDict (env : Env) (a : Act) (ts : FV) (e : Exc) (fs : Fields) : Msg :=
  ((((((fs.set "exception" (.str (e.qual env))).set "reason" (.str (e.safeStr env))).set "action_status" (.str "failed")).set
    "timestamp" ts).set "task_uuid" (.uuid a.uuid)).set "action_type" (.str a.atype)).set "task_level" (.lvl (a.level ++ [a.last + 1]))

theorem lt_of_get {α} {l : List α} {i : Nat} {a : α} (h : l[i]? = some a) : i < l.length := by
  rcases Nat.lt_or_ge i l.length with hl | hl
  · exact hl
  · rw [List.getElem?_eq_none hl] at h; cases h

theorem nextLevel_of_get {w : World} {h : Nat} {a : Act} (ha : w.acts[h]? = some a) :
    w.nextLevel h = ({ w with acts := w.acts.set h { a with last := a.last + 1 }, slots := w.slots ++ [(h, a.last + 1)],
                              lastSlot := some (h, a.last + 1) },
      a.level ++ [a.last + 1]) := by
  simp only [World.nextLevel, ha]

theorem startRec_eq (env : Env) (w : World) (h : Nat) (a : Act) (f : Fields) (ha : w.acts[h]? = some a) :
    w.startRec env h f = (w.clock.1.nextLevel h).1.loggerWrite env (startDict a (.ts w.tick) f) (a.sers.map (·.1)) := by
  have hc : w.clock.1.acts[h]? = some a := ha
  simp only [World.startRec, ha, nextLevel_of_get hc, startDict]
  rfl

theorem finishRec_none (env : Env) (w : World) (h : Nat) (exc : Option Exc) (hn : w.acts[h]? = none) :
    w.finishRec env h exc = w := by
  simp only [World.finishRec, hn]

/-- the `if self._finished: return` guard -/
theorem finishRec_finished (env : Env) (w : World) (h : Nat) (exc : Option Exc) (a : Act) (ha : w.acts[h]? = some a)
    (hf : a.finished = true) : w.finishRec env h exc = w := by
  simp only [World.finishRec, ha, hf, if_true]

theorem setFin_get (w : World) (h : Nat) (a : Act) (ha : w.acts[h]? = some a) :
    (w.setFin h a).acts[h]? = some { a with finished := true } := by
  simp [World.setFin, List.getElem?_set_self (lt_of_get ha)]

theorem finishRec_ok_eq (env : Env) (w : World) (h : Nat) (a : Act) (ha : w.acts[h]? = some a) (hf : a.finished = false) :
    w.finishRec env h none =
      ((w.setFin h a).clock.1.nextLevel h).1.loggerWrite env (succDict a (.ts w.tick)) (a.sers.map (·.2)) := by
  have hc : ({ w with acts := w.acts.set h { a with finished := true } } : World).clock.1.acts[h]? =
      some { a with finished := true } := setFin_get w h a ha
  simp only [World.finishRec, ha, hf, World.setFin, nextLevel_of_get hc, succDict]
  rfl

theorem finishRec_err_eq (env : Env) (w : World) (h : Nat) (a : Act) (e : Exc) (ha : w.acts[h]? = some a)
    (hf : a.finished = false) :
    w.finishRec env h (some e) =
      (((World.getFields env (w.setFin h a) e).1.clock.1.nextLevel h).1).loggerWrite env
        ((((((((World.getFields env (w.setFin h a) e).2.set "exception" (.str (e.qual env))).set "reason"
          (.str (e.safeStr env))).set "action_status" (.str "failed")).set "timestamp"
          (.ts (World.getFields env (w.setFin h a) e).1.tick)).set "task_uuid" (.uuid a.uuid)).set "action_type"
          (.str a.atype)).set "task_level" (.lvl ((World.getFields env (w.setFin h a) e).1.clock.1.nextLevel h).2))
        (a.sers.map (fun _ => [])) := by
  simp only [World.finishRec, ha, hf]
  rfl

/-- after `finish` the action is finished — whatever else `finish` did (extractors, tracebacks,
destinations, failure reports) -/
theorem finishRec_sets_finished (env : Env) (w : World) (h : Nat) (exc : Option Exc) (a : Act) (ha : w.acts[h]? = some a) :
    ∃ a' : Act, (w.finishRec env h exc).acts[h]? = some a' ∧ a'.finished = true ∧ a'.uuid = a.uuid ∧ a'.level = a.level := by
  cases hf : a.finished with
  | true => rw [finishRec_finished env w h exc a ha hf]; exact ⟨a, ha, hf, rfl, rfl⟩
  | false =>
    have h0 := setFin_get w h a ha
    cases exc with
    | none =>
      rw [finishRec_ok_eq env w h a ha hf]
      have f := ((frame_clock (w.setFin h a)).trans ((frame_nextLevel _ h).trans
        (frame_loggerWrite env _ (succDict a (.ts w.tick)) (a.sers.map (·.2)))))
      obtain ⟨a', h1, h2, h3, _, h5, _⟩ := f.keep h _ h0
      exact ⟨a', h1, h5 rfl, h2, h3⟩
    | some e =>
      rw [finishRec_err_eq env w h a e ha hf]
      have f : ∀ (m : Msg) (s : Option (List (String × Nat))), Frame (w.setFin h a)
          (((World.getFields env (w.setFin h a) e).1.clock.1.nextLevel h).1.loggerWrite env m s) := fun m s =>
        (frame_getFields env (w.setFin h a) e).trans ((frame_clock _).trans ((frame_nextLevel _ h).trans
          (frame_loggerWrite env _ m s)))
      obtain ⟨a', h1, h2, h3, _, h5, _⟩ := (f _ _).keep h _ h0
      exact ⟨a', h1, h5 rfl, h2, h3⟩

end Sys
