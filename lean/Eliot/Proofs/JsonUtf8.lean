import Eliot.Model.Json

/-! UTF-8 encoder / strict decoder round trip and byte-level facts about `utf8enc`. -/
namespace EJ

theorem utf8enc_append (a b : List Nat) : utf8enc (a ++ b) = utf8enc a ++ utf8enc b := by
  simp [utf8enc]

theorem utf8enc_nil : utf8enc [] = [] := rfl

theorem utf8enc_cons (c : Nat) (s : List Nat) : utf8enc (c :: s) = utf8enc1 c ++ utf8enc s := by
  simp [utf8enc]

private theorem isCont_low (x : Nat) (hx : x < 64) : isCont (0x80 + x) = true := by
  simp only [isCont, Bool.and_eq_true, decide_eq_true_eq]; omega

theorem utf8dec_enc1 (c : Nat) (h : Scalar c) (t s : List Nat) (ht : utf8dec t = some s) :
    utf8dec (utf8enc1 c ++ t) = some (c :: s) := by
  unfold utf8enc1
  simp only [Scalar] at h
  split
  · next h1 =>
    simp only [List.cons_append, List.nil_append]
    rw [utf8dec.eq_def]
    simp only [if_pos h1, ht]
  · split
    · next h1 h2 =>
      simp only [List.cons_append, List.nil_append]
      simp only [utf8dec]
      rw [if_neg (by omega), if_neg (by omega), if_pos (by omega)]
      rw [if_pos (isCont_low _ (by omega)), ht]
      simp only [Option.some.injEq, List.cons.injEq, and_true]
      omega
    · split
      · next h1 h2 h3 =>
        simp only [List.cons_append, List.nil_append]
        simp only [utf8dec]
        rw [if_neg (by omega), if_neg (by omega), if_neg (by omega), if_pos (by omega)]
        have hv : (0xE0 + c / 4096 - 0xE0) * 4096 + (0x80 + c / 64 % 64 - 0x80) * 64
            + (0x80 + c % 64 - 0x80) = c := by omega
        rw [hv, if_pos ⟨isCont_low _ (by omega), isCont_low _ (by omega), by omega, by
          simp only [Scalar]; omega⟩, ht]
      · next h1 h2 h3 =>
        simp only [List.cons_append, List.nil_append]
        simp only [utf8dec]
        rw [if_neg (by omega), if_neg (by omega), if_neg (by omega), if_neg (by omega),
          if_pos (by omega)]
        have hv : (0xF0 + c / 262144 - 0xF0) * 262144 + (0x80 + c / 4096 % 64 - 0x80) * 4096
            + (0x80 + c / 64 % 64 - 0x80) * 64 + (0x80 + c % 64 - 0x80) = c := by omega
        rw [hv, if_pos ⟨isCont_low _ (by omega), isCont_low _ (by omega), isCont_low _ (by omega),
          by omega, by omega⟩, ht]

theorem utf8dec_utf8enc (s : List Nat) (h : ∀ c ∈ s, Scalar c) : utf8dec (utf8enc s) = some s := by
  induction s with
  | nil => simp [utf8enc, utf8dec]
  | cons c s ih =>
    rw [utf8enc_cons]
    exact utf8dec_enc1 c (h c (by simp)) _ _ (ih (fun d hd => h d (by simp [hd])))

/-- an ASCII byte occurs in the encoding only as the encoding of that very character -/
theorem mem_utf8enc1_ascii (c b : Nat) (hb : b < 128) : b ∈ utf8enc1 c ↔ c = b := by
  unfold utf8enc1
  split
  · simp only [List.mem_singleton]; omega
  · split
    · simp only [List.mem_cons, List.not_mem_nil, or_false]; omega
    · split
      · simp only [List.mem_cons, List.not_mem_nil, or_false]; omega
      · simp only [List.mem_cons, List.not_mem_nil, or_false]; omega

theorem mem_utf8enc_ascii (s : List Nat) (b : Nat) (hb : b < 128) : b ∈ utf8enc s ↔ b ∈ s := by
  simp only [utf8enc, List.mem_flatMap]
  constructor
  · rintro ⟨c, hc, hbc⟩
    have := (mem_utf8enc1_ascii c b hb).1 hbc
    subst this; exact hc
  · intro hbs
    exact ⟨b, hbs, (mem_utf8enc1_ascii b b hb).2 rfl⟩

theorem utf8enc1_byte (c : Nat) (h : Scalar c) : ∀ b ∈ utf8enc1 c, b < 256 := by
  intro b
  unfold utf8enc1
  simp only [Scalar] at h
  split
  · simp only [List.mem_singleton]; omega
  · split
    · simp only [List.mem_cons, List.not_mem_nil, or_false]; omega
    · split
      · simp only [List.mem_cons, List.not_mem_nil, or_false]; omega
      · simp only [List.mem_cons, List.not_mem_nil, or_false]; omega

theorem utf8enc_byte (s : List Nat) (h : ∀ c ∈ s, Scalar c) : ∀ b ∈ utf8enc s, b < 256 := by
  intro b hb
  simp only [utf8enc, List.mem_flatMap] at hb
  obtain ⟨c, hc, hbc⟩ := hb
  exact utf8enc1_byte c (h c hc) b hbc

end EJ
