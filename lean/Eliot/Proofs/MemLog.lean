import Eliot.Conc.MemLog
/-! Linearizability invariant of the lock-discipline model (C16), for any skeleton table with
`AllLocked`; sequential facts about tables with `WritePairs`. -/
namespace Eliot.Conc.MemLog

theorem lookup_mem {tbl : Table} {n : String} {m : MethodSkel} (h : lookup tbl n = some m) : (n, m) ∈ tbl := by
  unfold lookup at h
  induction tbl with
  | nil => simp [List.lookup] at h
  | cons p ps ih =>
    obtain ⟨k, v⟩ := p
    simp only [List.lookup] at h
    by_cases hk : n == k
    · simp only [hk] at h
      have : n = k := by simpa using hk
      cases h; subst this; exact List.mem_cons_self
    · simp only [hk] at h
      exact List.mem_cons_of_mem _ (ih h)

theorem applyAccs_cons (c : Call) (m : Mem) (a : Acc) (as : List Acc) :
    applyAccs c m (a :: as) = applyAccs c (applyAcc c m a) as := rfl

theorem applyAccs_snoc (c : Call) (m : Mem) (pre : List Acc) (a : Acc) :
    applyAccs c m (pre ++ [a]) = applyAcc c (applyAccs c m pre) a := by
  simp [applyAccs, List.foldl_append]

theorem applyAccs_noShared (c : Call) (m : Mem) (body : List Acc) (h : sharedAccs body = []) :
    applyAccs c m body = m := by
  induction body generalizing m with
  | nil => rfl
  | cons a as ih =>
    cases a with
    | call n =>
      have : sharedAccs as = [] := by simpa [sharedAccs] using h
      rw [applyAccs_cons]; exact ih _ this
    | append f cnd => simp [sharedAccs] at h
    | clear f => simp [sharedAccs] at h
    | filterAssign f => simp [sharedAccs] at h
    | read f => simp [sharedAccs] at h
    | unknown => simp [sharedAccs] at h

def seqStep (tbl : Table) (m : Mem) (c : Call) : Mem :=
  match lookup tbl c.meth with
  | some sk => applyAccs c m sk.body
  | none => m

theorem seqRun_eq (tbl : Table) (m0 : Mem) (cs : List Call) : seqRun tbl m0 cs = cs.foldl (seqStep tbl) m0 := rfl

theorem seqRun_append (tbl : Table) (m0 : Mem) (a b : List Call) :
    seqRun tbl m0 (a ++ b) = seqRun tbl (seqRun tbl m0 a) b := by
  simp [seqRun_eq, List.foldl_append]

theorem seqRun_cons (tbl : Table) (m0 : Mem) (c : Call) (cs : List Call) :
    seqRun tbl m0 (c :: cs) = seqRun tbl (seqStep tbl m0 c) cs := rfl

/-- a call that touches nothing shared -/
def Quiet (tbl : Table) (c : Call) : Prop := ∃ sk, lookup tbl c.meth = some sk ∧ sharedAccs sk.body = []

theorem seqStep_quiet {tbl : Table} {c : Call} (h : Quiet tbl c) (m : Mem) : seqStep tbl m c = m := by
  obtain ⟨sk, hl, hq⟩ := h
  simp [seqStep, hl, applyAccs_noShared _ _ _ hq]

theorem seqRun_quiet {tbl : Table} (m : Mem) (qs : List Call) (h : ∀ q ∈ qs, Quiet tbl q) : seqRun tbl m qs = m := by
  induction qs generalizing m with
  | nil => rfl
  | cons q qs ih =>
    rw [seqRun_cons, seqStep_quiet (h q List.mem_cons_self)]
    exact ih m (fun x hx => h x (List.mem_cons_of_mem _ hx))

def calls (s : State) : List Call := s.hist.map (·.2)

/-- Linearizability invariant: with the lock free every thread is between calls and the shared
state (the lists *and* the log of what readers saw) is that of the sequential execution of the calls
in lock-acquisition order; with the lock held by `h`, only `h` is inside a call, and the state is the
sequential one of the earlier calls plus the accesses `h` has performed so far (calls that started
after `h` acquired the lock touch nothing shared). -/
def Inv (tbl : Table) (s : State) : Prop :=
  match s.lock with
  | none => (∀ t, s.pc t = .idle) ∧ s.mem = seqRun tbl Mem.empty (calls s)
  | some h => ∃ c rem pre hs sk qs, s.pc h = .body c true rem ∧ lookup tbl c.meth = some sk ∧
      sk.body = pre ++ rem ∧ s.hist = hs ++ (h, c) :: qs ∧ (∀ q ∈ qs, Quiet tbl q.2) ∧
      s.mem = applyAccs c (seqRun tbl Mem.empty (hs.map (·.2))) pre ∧ ∀ t, t ≠ h → s.pc t = .idle

theorem inv_init (tbl : Table) (prog : Nat → List Call) : Inv tbl (init prog) := by
  simp [Inv, init, calls, seqRun]

theorem inv_step (tbl : Table) (hL : AllLocked tbl) (s : State) (t : Nat) (s' : State)
    (hi : Inv tbl s) (hs : step tbl s t = some s') : Inv tbl s' := by
  unfold step at hs
  cases hpc : s.pc t with
  | idle =>
    rw [hpc] at hs
    simp only at hs
    cases hp : s.pending t with
    | nil => rw [hp] at hs; simp at hs
    | cons c rest =>
      rw [hp] at hs
      simp only at hs
      cases hlk : lookup tbl c.meth with
      | none => rw [hlk] at hs; simp at hs
      | some m =>
        rw [hlk] at hs
        simp only at hs
        by_cases hm : m.locked = true
        · simp only [hm, ↓reduceIte] at hs
          cases hl : s.lock with
          | some h => rw [hl] at hs; simp at hs
          | none =>
            rw [hl] at hs
            simp only [Option.some.injEq] at hs
            subst hs
            unfold Inv at hi ⊢
            rw [hl] at hi
            simp only at hi ⊢
            refine ⟨c, m.body, [], s.hist, m, [], by simp [upd], hlk, by simp, by simp, by simp, ?_, ?_⟩
            · simp [applyAccs, hi.2, calls]
            · intro x hx; simp [upd, hx, hi.1 x]
        · have hsh : sharedAccs m.body = [] := by
            rcases hL _ (lookup_mem hlk) with h | h
            · exact absurd h hm
            · exact h
          have hq : Quiet tbl c := ⟨m, hlk, hsh⟩
          simp only [hm, hsh, ↓reduceIte] at hs
          injection hs with hs
          subst hs
          unfold Inv at hi ⊢
          cases hl : s.lock with
          | none =>
            rw [hl] at hi
            simp only at hi ⊢
            refine ⟨hi.1, ?_⟩
            simp only [calls, List.map_append, List.map_cons, List.map_nil]
            rw [seqRun_append, seqRun_cons, seqStep_quiet hq]
            exact hi.2
          | some h =>
            rw [hl] at hi
            simp only at hi ⊢
            obtain ⟨c', rem, pre, hs', sk, qs, hpch, hlk', hbody, hhist, hqs, hmem, hidle⟩ := hi
            refine ⟨c', rem, pre, hs', sk, qs ++ [(t, c)], hpch, hlk', hbody, by simp [hhist], ?_, hmem, hidle⟩
            intro q hqm
            rcases List.mem_append.mp hqm with h1 | h1
            · exact hqs q h1
            · have : q = (t, c) := by simpa using h1
              subst this; exact hq
  | body c l rem =>
    rw [hpc] at hs
    unfold Inv at hi
    cases hl : s.lock with
    | none =>
      rw [hl] at hi
      have := hi.1 t
      rw [hpc] at this; cases this
    | some h =>
      rw [hl] at hi
      obtain ⟨c', rem', pre, hs', sk, qs, hpch, hlk, hbody, hhist, hqs, hmem, hidle⟩ := hi
      have hth : t = h := by
        by_cases e : t = h
        · exact e
        · have := hidle t e; rw [hpc] at this; cases this
      subst hth
      rw [hpc] at hpch
      cases hpch
      cases rem with
      | nil =>
        simp only [↓reduceIte, Option.some.injEq] at hs
        subst hs
        unfold Inv
        simp only
        refine ⟨fun x => ?_, ?_⟩
        · by_cases hx : x = t
          · simp [upd, hx]
          · simp [upd, hx, hidle x hx]
        · simp only [calls, hhist, List.map_append, List.map_cons]
          rw [seqRun_append, seqRun_cons, seqRun_quiet _ _ (by
            intro q hq
            obtain ⟨p, hp, rfl⟩ := List.mem_map.mp hq
            exact hqs p hp)]
          simp only [seqStep, hlk]
          rw [hmem, hbody, List.append_nil]
      | cons a as =>
        by_cases hu : a = .unknown
        · simp [hu] at hs
        · simp only [hu, ↓reduceIte, Option.some.injEq] at hs
          subst hs
          unfold Inv
          simp only [hl]
          refine ⟨c, as, pre ++ [a], hs', sk, qs, by simp [upd], hlk, by simp [hbody], hhist, hqs, ?_, ?_⟩
          · rw [applyAccs_snoc, hmem]
          · intro x hx; simp [upd, hx, hidle x hx]

theorem inv_run (tbl : Table) (hL : AllLocked tbl) (s : State) (hi : Inv tbl s) (sched : List Nat) :
    Inv tbl (run tbl s sched) :=
  (sys tbl).inv_run (Inv tbl) (fun s t s' h hs => inv_step tbl hL s t s' h hs) s hi sched

end Eliot.Conc.MemLog

namespace Eliot.Conc.MemLog

/-! ### Sequential facts: a table with `WritePairs` implements `spec` -/

def applyOp (c : Call) (f : Fld) (l : List Item) : Op → List Item
  | .app cond => if !cond || guard c f then l ++ [c.item] else l
  | .clr => []
  | .flt => l.filter (fun it => !flushes c it)

theorem fld_applyAcc (c : Call) (m : Mem) (a : Acc) (f : Fld) :
    (applyAcc c m a).fld f = (match opOn f a with
      | some o => applyOp c f (m.fld f) o
      | none => m.fld f) := by
  cases a with
  | append g cnd =>
    by_cases hg : g = f
    · subst hg; by_cases hc : (!cnd || guard c g) = true <;> simp [applyAcc, opOn, applyOp, Mem.set, hc]
    · have hg' : ¬ f = g := fun h => hg h.symm
      by_cases hc : (!cnd || guard c g) = true <;> simp [applyAcc, opOn, Mem.set, hc, hg, hg']
  | clear g =>
    by_cases hg : g = f
    · subst hg; simp [applyAcc, opOn, applyOp, Mem.set]
    · have hg' : ¬ f = g := fun h => hg h.symm
      simp [applyAcc, opOn, Mem.set, hg, hg']
  | filterAssign g =>
    by_cases hg : g = f
    · subst hg; simp [applyAcc, opOn, applyOp, Mem.set]
    · have hg' : ¬ f = g := fun h => hg h.symm
      simp [applyAcc, opOn, Mem.set, hg, hg']
  | read g => simp [applyAcc, opOn]
  | call n => simp [applyAcc, opOn]
  | unknown => simp [applyAcc, opOn]

theorem fld_applyAccs (c : Call) (m : Mem) (body : List Acc) (f : Fld) :
    (applyAccs c m body).fld f = (opsOn f body).foldl (applyOp c f) (m.fld f) := by
  induction body generalizing m with
  | nil => rfl
  | cons a as ih =>
    rw [applyAccs_cons, ih, fld_applyAcc]
    cases h : opOn f a <;> simp [opsOn, h]

/-- the three lists agree with a `(messages, tracebacks)` pair of the specification -/
def Good (m : Mem) (st : List Item × List Item) : Prop :=
  m.fld .messages = st.1 ∧ m.fld .serializers = st.1 ∧ m.fld .tracebacks = st.2

theorem good_step (tbl : Table) (hW : WritePairs tbl) (m : Mem) (st : List Item × List Item) (c : Call)
    (hg : Good m st) : Good (seqStep tbl m c) (specStep st c) := by
  obtain ⟨_, hops, hw, hr, hf⟩ := hW
  obtain ⟨g1, g2, g3⟩ := hg
  cases hlk : lookup tbl c.meth with
  | none =>
    have h1 : c.meth ≠ "write" := fun h => by rw [h] at hlk; simp [hlk] at hw
    have h2 : c.meth ≠ "reset" := fun h => by rw [h] at hlk; simp [hlk] at hr
    have h3 : c.meth ≠ "flushTracebacks" := fun h => by rw [h] at hlk; simp [hlk] at hf
    simp [seqStep, hlk, specStep, h1, h2, h3, Good, g1, g2, g3]
  | some sk =>
    have hp := hops _ (lookup_mem hlk)
    simp only at hp
    simp only [seqStep, hlk, Good, fld_applyAccs]
    by_cases h1 : c.meth = "write"
    · simp only [h1, ↓reduceIte] at hp
      obtain ⟨a, b, d⟩ := hp
      simp only [a, b, d, specStep, h1, ↓reduceIte, List.foldl_cons, List.foldl_nil, applyOp, g1, g2, g3, guard]
      by_cases ht : c.tag = 0 <;> simp [ht]
    · by_cases h2 : c.meth = "reset"
      · have h2' : ¬ ("reset" = "write") := by decide
        simp only [h2, h2', ↓reduceIte] at hp
        obtain ⟨a, b, d⟩ := hp
        simp [a, b, d, specStep, h2, applyOp]
      · by_cases h3 : c.meth = "flushTracebacks"
        · have h3' : ¬ ("flushTracebacks" = "write") := by decide
          have h3'' : ¬ ("flushTracebacks" = "reset") := by decide
          simp only [h3, h3', h3'', ↓reduceIte] at hp
          obtain ⟨a, b, d⟩ := hp
          simp [a, b, d, specStep, h3, applyOp, g1, g2, g3]
        · simp only [h1, h2, h3, ↓reduceIte] at hp
          obtain ⟨a, b, d⟩ := hp
          simp [a, b, d, specStep, h1, h2, h3, g1, g2, g3]

theorem seq_spec_from (tbl : Table) (hW : WritePairs tbl) (cs : List Call) (m : Mem) (st : List Item × List Item)
    (hg : Good m st) : Good (seqRun tbl m cs) (cs.foldl specStep st) := by
  induction cs generalizing m st with
  | nil => exact hg
  | cons c cs ih => exact ih _ _ (good_step tbl hW m st c hg)

/-- The sequential execution of any list of calls leaves `messages = serializers = (spec cs).1` and
`tracebackMessages = (spec cs).2`. -/
theorem seq_spec (tbl : Table) (hW : WritePairs tbl) (cs : List Call) : Good (seqRun tbl Mem.empty cs) (spec cs) :=
  seq_spec_from tbl hW cs Mem.empty ([], []) ⟨rfl, rfl, rfl⟩

end Eliot.Conc.MemLog

namespace Eliot.Conc.MemLog

/-- calls of thread `t` that have started, in order -/
def startedBy (s : State) (t : Nat) : List Call := (s.hist.filter (fun p => decide (p.1 = t))).map (·.2)

/-- No call is lost or duplicated: per thread, started calls followed by pending calls are the program. -/
def Complete (prog : Nat → List Call) (s : State) : Prop := ∀ t, startedBy s t ++ s.pending t = prog t

theorem complete_step (tbl : Table) (prog : Nat → List Call) (s : State) (t : Nat) (s' : State)
    (hi : Complete prog s) (hs : step tbl s t = some s') : Complete prog s' := by
  have key : ∀ (c : Call) (rest : List Call) (mem : Mem) (lock : Option Nat) (pc : Nat → Pc), s.pending t = c :: rest →
      Complete prog { mem := mem, lock := lock, pending := upd s.pending t rest, pc := pc, hist := s.hist ++ [(t, c)] } := by
    intro c rest mem lock pc hp x
    have hx := hi x
    by_cases e : x = t
    · subst e
      rw [hp] at hx
      simpa [startedBy, upd, List.filter_append] using hx
    · have e' : ¬ t = x := fun h => e h.symm
      simpa [startedBy, upd, List.filter_append, e, e'] using hx
  unfold step at hs
  cases hpc : s.pc t with
  | idle =>
    rw [hpc] at hs
    simp only at hs
    cases hp : s.pending t with
    | nil => rw [hp] at hs; simp at hs
    | cons c rest =>
      rw [hp] at hs
      simp only at hs
      cases hlk : lookup tbl c.meth with
      | none => rw [hlk] at hs; simp at hs
      | some m =>
        rw [hlk] at hs
        simp only at hs
        by_cases hm : m.locked = true
        · simp only [hm, ↓reduceIte] at hs
          cases hl : s.lock with
          | some h => rw [hl] at hs; simp at hs
          | none =>
            rw [hl] at hs
            injection hs with hs
            subst hs
            exact key c rest _ _ _ hp
        · simp only [hm] at hs
          by_cases hq : sharedAccs m.body = []
          · simp only [hq, ↓reduceIte] at hs
            injection hs with hs
            subst hs
            exact key c rest _ _ _ hp
          · simp only [hq, ↓reduceIte] at hs
            injection hs with hs
            subst hs
            exact key c rest _ _ _ hp
  | body c l rem =>
    rw [hpc] at hs
    cases rem with
    | nil =>
      injection hs with hs
      subst hs
      exact hi
    | cons a as =>
      by_cases hu : a = .unknown
      · simp [hu] at hs
      · simp only [hu, ↓reduceIte] at hs
        injection hs with hs
        subst hs
        exact hi

theorem complete_run (tbl : Table) (prog : Nat → List Call) (sched : List Nat) :
    Complete prog (run tbl (init prog) sched) :=
  (sys tbl).inv_run (Complete prog) (fun s t s' h hs => complete_step tbl prog s t s' h hs) _
    (by intro t; simp [startedBy, init]) sched

end Eliot.Conc.MemLog
