import Eliot.Conc.Gen
/-! Transparency of the wrapper loop over an arbitrary generator body (contexts erased). -/
namespace Gen

/-- what the wrapper does to an output: nothing, except that with `keepsReturn = false` a returned
value becomes `None` -/
def retK (k : Bool) : Out → Out
  | .returned v => .returned (if k then v else none)
  | o => o

theorem retK_true (o : Out) : retK true o = o := by cases o <;> rfl

theorem wrapAfterGo_eq (k : Bool) (o : Out) : wrapAfterGo k o = retK k o := by cases o <;> rfl

/-- simulation relation: wrapper status = plain status, and unless finished the inner generator
object is in the plain generator's state -/
def Sim {σ} (ws : Status × (Status × σ)) (ps : Status × σ) : Prop :=
  ws.1 = ps.1 ∧ (ws.1 = .finished ∨ ws.2 = ps)

theorem sim_step {σ} (k : Bool) (g : Body σ) (inp : Inp) (ws : Status × (Status × σ)) (ps : Status × σ)
    (h : Sim ws ps) :
    (wrapResumeK k g inp ws).1 = retK k (plainResume g inp ps).1 ∧
    Sim (wrapResumeK k g inp ws).2 (plainResume g inp ps).2 := by
  obtain ⟨wst, ist, s⟩ := ws
  obtain ⟨pst, ps⟩ := ps
  obtain ⟨h1, h2⟩ := h
  simp only at h1 h2
  subst h1
  cases wst with
  | finished =>
    cases inp <;> simp [wrapResumeK, plainResume, proto, retK, Sim]
  | unstarted =>
    have h3 : ist = .unstarted ∧ s = ps := by simpa using h2
    obtain ⟨rfl, rfl⟩ := h3
    cases inp with
    | send v =>
      cases v with
      | some v => simp [wrapResumeK, plainResume, proto, retK, Sim]
      | none =>
        rcases hb : g.step .start s with ⟨o, s'⟩
        cases o <;> simp [wrapResumeK, plainResume, proto, wrapBodyA, wrapInput, hb, statusAfter, wrapAfterGo, retK, Sim]
    | throw e => simp [wrapResumeK, plainResume, proto, retK, Sim]
    | close => simp [wrapResumeK, plainResume, proto, retK, Sim]
  | suspended =>
    have h3 : ist = .suspended ∧ s = ps := by simpa using h2
    obtain ⟨rfl, rfl⟩ := h3
    cases inp with
    | send v =>
      rcases hb : g.step (.val v) s with ⟨o, s'⟩
      cases o <;> simp [wrapResumeK, plainResume, proto, wrapBodyA, wrapInput, hb, statusAfter, wrapAfterGo, retK, Sim]
    | throw e =>
      rcases hb : g.step (.exc e) s with ⟨o, s'⟩
      cases o <;> simp [wrapResumeK, plainResume, proto, wrapBodyA, wrapInput, hb, statusAfter, wrapAfterGo, retK, Sim]
    | close =>
      rcases hb : g.step (.exc .genExit) s with ⟨o, s'⟩
      cases o with
      | yielded v => simp [wrapResumeK, plainResume, proto, wrapBodyA, wrapInput, hb, statusAfter, wrapAfterGo, retK, Sim]
      | returned v => simp [wrapResumeK, plainResume, proto, wrapBodyA, wrapInput, hb, statusAfter, wrapAfterGo, retK, Sim]
      | raised e => cases e <;> simp [wrapResumeK, plainResume, proto, wrapBodyA, wrapInput, hb, statusAfter, wrapAfterGo, retK, Sim]

theorem sim_run {σ} (k : Bool) (g : Body σ) (inputs : List Inp) :
    ∀ (ws : Status × (Status × σ)) (ps : Status × σ), Sim ws ps →
      runInputs (wrapResumeK k g) ws inputs = (runInputs (plainResume g) ps inputs).map (retK k) := by
  induction inputs with
  | nil => intro ws ps _; rfl
  | cons i is ih =>
    intro ws ps h
    have hs := sim_step k g i ws ps h
    simp only [runInputs, List.map_cons]
    rw [hs.1, ih _ _ hs.2]

theorem wrapOutputsK_eq {σ} (k : Bool) (g : Body σ) (s0 : σ) (inputs : List Inp) :
    wrapOutputsK k g s0 inputs = (outputs g s0 inputs).map (retK k) :=
  sim_run k g inputs _ _ ⟨rfl, Or.inr rfl⟩

end Gen
