import Eliot.Proofs.SysFan
import Eliot.Proofs.SysBasic
import Eliot.Proofs.SysVars
/-! Which errors `Destinations.send` collects: exactly what the destinations raised, in call order.

`raisedBy env dc ds` is written without the machine state: walk the destinations in order, ask the
oracle what destination `d` does on its next call (`dc` = the per-destination call counters),
count the call.  `fanOut_errors` / `deliver_errors`: this is what the fan-out loop collects.
`CallsOK`: the call counter of `d` is the number of dicts `d` has been offered so far — for every
program (`callsOK_execB`). -/
namespace Sys

/-- `message_type == "eliot:destination_failure"` -/
def isReport (m : Msg) : Bool := m.get? "message_type" == some (.str DESTINATION_FAILURE)

/-- the exceptions raised when the destinations `ds` are called once each, in this order, starting
from the call counters `dc` -/
def raisedBy (env : Env) : List (Nat × Nat) → List Nat → List Exc
  | _, [] => []
  | dc, d :: ds =>
    (match env.destFails d ((lookupNat dc d).getD 0) with | some e => [e] | none => []) ++
      raisedBy env (setNat dc d ((lookupNat dc d).getD 0 + 1)) ds

theorem callDest_calls (env : Env) (w : World) (d : Nat) (m : Msg) :
    (w.callDest env d m).1.destCalls = setNat w.destCalls d ((lookupNat w.destCalls d).getD 0 + 1) ∧
    (w.callDest env d m).2 = env.destFails d ((lookupNat w.destCalls d).getD 0) := by
  unfold World.callDest
  simp only
  split <;> simp_all

/-- the fan-out loop collects exactly what the destinations raise -/
theorem fanOut_errors (env : Env) (m : Msg) (ds : List Nat) (w : World) :
    (World.fanOut env w m ds).2 = raisedBy env w.destCalls ds := by
  induction ds generalizing w with
  | nil => rfl
  | cons d ds ih =>
    obtain ⟨c1, c2⟩ := callDest_calls env w d m
    simp only [World.fanOut, raisedBy, ih, c1, c2]
    cases env.destFails d ((lookupNat w.destCalls d).getD 0) <;> rfl

theorem filterMap_congr' {α β} (f g : α → Option β) (l : List α) (h : ∀ x ∈ l, f x = g x) : l.filterMap f = l.filterMap g := by
  induction l with
  | nil => rfl
  | cons x xs ih =>
    simp only [List.filterMap_cons, h x List.mem_cons_self, ih (fun y hy => h y (List.mem_cons_of_mem _ hy))]

/-- destinations registered once each: the call number of a destination at its turn is its call
number when the loop starts -/
theorem raisedBy_nodup (env : Env) (dc : List (Nat × Nat)) (ds : List Nat) (hn : ds.Nodup) :
    raisedBy env dc ds = ds.filterMap (fun d => env.destFails d ((lookupNat dc d).getD 0)) := by
  induction ds generalizing dc with
  | nil => rfl
  | cons d ds ih =>
    simp only [List.nodup_cons] at hn
    simp only [raisedBy, List.filterMap_cons]
    rw [ih _ hn.2]
    have e : ds.filterMap (fun d' => env.destFails d' ((lookupNat (setNat dc d ((lookupNat dc d).getD 0 + 1)) d').getD 0)) =
        ds.filterMap (fun d' => env.destFails d' ((lookupNat dc d').getD 0)) := by
      apply filterMap_congr'
      intro d' hd'
      have hne : d ≠ d' := fun h => hn.1 (h ▸ hd')
      rw [lookupNat_setNat_ne _ _ _ _ hne]
    rw [e]
    cases env.destFails d ((lookupNat dc d).getD 0) <;> rfl

/-- **what `send` collects**: for a message that is not itself a failure report, while destinations
are registered, the exceptions of the destinations that raised, in registration order; nothing for
a failure report; nothing while messages are buffered. -/
theorem deliver_errors (env : Env) (w : World) (m : Msg) :
    (w.deliver env m).2.2 =
      if w.anyAdded = true ∧ isReport (Fields.update m w.globals) = false then raisedBy env w.destCalls w.dests else [] := by
  unfold World.deliver isReport
  simp only
  by_cases ha : w.anyAdded = true
  · simp only [ha, if_true, true_and]
    rw [fanOut_errors]
    cases (Fields.update m w.globals).get? "message_type" == some (.str DESTINATION_FAILURE) <;> rfl
  · simp [ha]

/-! ### the call counter of a destination is the number of dicts it has been offered -/
def CallsOK (w : World) : Prop := ∀ d, (lookupNat w.destCalls d).getD 0 = (offeredTo w d).length

def CallsStep (w w' : World) : Prop := CallsOK w → CallsOK w'

theorem CallsStep.ofSame {w w' : World} (h1 : w'.destCalls = w.destCalls) (h2 : w'.offered = w.offered) : CallsStep w w' :=
  fun h d => by simp only [offeredTo, h1, h2]; exact h d

theorem nextLevel_calls (w : World) (h : Nat) :
    (w.nextLevel h).1.destCalls = w.destCalls ∧ (w.nextLevel h).1.offered = w.offered := by
  unfold World.nextLevel
  cases w.acts[h]? <;> exact ⟨rfl, rfl⟩

theorem callsBasic (env : Env) : Basic env CallsStep where
  refl := fun _ h => h
  trans := fun h1 h2 h => h2 (h1 h)
  callDest := fun w d m h d' => by
    obtain ⟨c1, _⟩ := callDest_calls env w d m
    obtain ⟨o1, _, _⟩ := callDest_offered env w d m
    simp only [offeredTo, c1, o1, List.filter_append, List.map_append, List.length_append]
    by_cases e : d = d'
    · subst e
      rw [lookupNat_setNat_self]
      have := h d
      simp only [offeredTo] at this
      simp [this]
    · rw [lookupNat_setNat_ne _ _ _ _ e]
      have hb : (d == d') = false := by simpa using e
      have := h d'
      simp only [offeredTo] at this
      simp [List.filter, hb, this]
  stagePush := fun _ _ => CallsStep.ofSame rfl rfl
  bufferSet := fun _ _ => CallsStep.ofSame rfl rfl
  ghostSlot := fun _ _ _ => CallsStep.ofSame rfl rfl
  clock := fun _ => CallsStep.ofSame rfl rfl
  nextLevel := fun w h => CallsStep.ofSame (nextLevel_calls w h).1 (nextLevel_calls w h).2
  freshAction := fun _ _ _ => CallsStep.ofSame rfl rfl
  extCalls := fun _ => CallsStep.ofSame rfl rfl
  serCalls := fun _ => CallsStep.ofSame rfl rfl
  setFinished := fun _ _ _ _ => CallsStep.ofSame rfl rfl
  appendChild := fun w p _ _ _ _ => CallsStep.ofSame (nextLevel_calls w p).1 (nextLevel_calls w p).2
  appendRemote := fun _ _ _ _ _ _ _ => CallsStep.ofSame rfl rfl
  setCtx := fun _ _ => CallsStep.ofSame rfl rfl
  setVars := fun _ _ => CallsStep.ofSame rfl rfl
  reserve := fun w h _ _ _ => CallsStep.ofSame (nextLevel_calls w h).1 (nextLevel_calls w h).2
  probe := fun _ _ => CallsStep.ofSame rfl rfl
  succ := fun _ _ _ _ _ => CallsStep.ofSame rfl rfl

theorem callsBasicCfg (env : Env) : BasicCfg env CallsStep where
  startDelivery := fun _ _ => CallsStep.ofSame rfl rfl
  extendDests := fun _ _ => CallsStep.ofSame rfl rfl
  popPending := fun _ => CallsStep.ofSame rfl rfl
  removeDest := fun _ _ => CallsStep.ofSame rfl rfl
  addGlobals := fun _ _ => CallsStep.ofSame rfl rfl

theorem callsOK_execB (env : Env) (cur : Option Exc) (w : World) (p : Block) (h : CallsOK w) : CallsOK (execB env cur w p).1 :=
  execB_lift (callsBasic env).prim cur w p (Or.inr ((callsBasic env).primCfg (callsBasicCfg env))) h

end Sys
