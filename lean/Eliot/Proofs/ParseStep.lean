import Eliot.Model.Parse
namespace PM

mutual
inductive Tree where
  | leaf (b : Nat)
  | node (a : String) (sb eb : Nat) (ok : Bool) (kids : Forest)
inductive Forest where
  | nil
  | cons (t : Tree) (rest : Forest)
end

def Forest.len : Forest → Nat
  | .nil => 0
  | .cons _ r => r.len + 1

def leafMsg (u : String) (lvl : Level) (b : Nat) : PMsg := ⟨u, lvl, none, none, b⟩
def startMsg (u : String) (lvl : Level) (a : String) (sb : Nat) : PMsg :=
  ⟨u, lvl ++ [1], some a, some "started", sb⟩
def endMsg (u : String) (lvl : Level) (a : String) (eb : Nat) (ok : Bool) (n : Nat) : PMsg :=
  ⟨u, lvl ++ [n], some a, some (if ok then "succeeded" else "failed"), eb⟩

def pick (S : PMsg → Bool) (m : PMsg) : Option PMsg := if S m then some m else none

def Kids.isNil : Kids → Bool
  | .nil => true
  | _ => false

mutual
def Tree.view (S : PMsg → Bool) (u : String) : Tree → Level → Option Node
  | .leaf b, lvl => (pick S (leafMsg u lvl b)).map Node.msg
  | .node a sb eb ok kids, lvl =>
    let s := pick S (startMsg u lvl a sb)
    let e := pick S (endMsg u lvl a eb ok (kids.len + 2))
    let ch := Forest.view S u kids lvl 2
    if s.isNone && e.isNone && ch.isNil then none else some (.act s e ch)
def Forest.view (S : PMsg → Bool) (u : String) : Forest → Level → Nat → Kids
  | .nil, _, _ => .nil
  | .cons t rest, lvl, k =>
    match Tree.view S u t (lvl ++ [k]) with
    | some n => .cons k n (Forest.view S u rest lvl (k+1))
    | none => Forest.view S u rest lvl (k+1)
end

mutual
def Tree.msgs (u : String) : Tree → Level → List PMsg
  | .leaf b, lvl => [leafMsg u lvl b]
  | .node a sb eb ok kids, lvl =>
    startMsg u lvl a sb :: (Forest.msgs u kids lvl 2 ++ [endMsg u lvl a eb ok (kids.len + 2)])
def Forest.msgs (u : String) : Forest → Level → Nat → List PMsg
  | .nil, _, _ => []
  | .cons t rest, lvl, k => Tree.msgs u t (lvl ++ [k]) ++ Forest.msgs u rest lvl (k+1)
end

-- all messages of a subtree at `lvl` have a level extending `lvl`
mutual
theorem Tree.msgs_prefix (u : String) (t : Tree) (lvl : Level) :
    ∀ m ∈ Tree.msgs u t lvl, lvl <+: m.level := by
  cases t with
  | leaf b => intro m hm; simp [Tree.msgs, leafMsg] at hm; subst hm; simp
  | node a sb eb ok kids =>
    intro m hm
    simp only [Tree.msgs, List.mem_cons, List.mem_append, List.not_mem_nil, or_false] at hm
    rcases hm with h | h | h
    · subst h; simp [startMsg]
    · obtain ⟨k, _, hk⟩ := Forest.msgs_prefix u kids lvl 2 m h
      exact (List.prefix_append lvl [k]).trans hk
    · subst h; simp [endMsg]
theorem Forest.msgs_prefix (u : String) (f : Forest) (lvl : Level) (k0 : Nat) :
    ∀ m ∈ Forest.msgs u f lvl k0, ∃ k, k0 ≤ k ∧ (lvl ++ [k]) <+: m.level := by
  cases f with
  | nil => intro m hm; simp [Forest.msgs] at hm
  | cons t rest =>
    intro m hm
    simp only [Forest.msgs, List.mem_append] at hm
    rcases hm with h | h
    · exact ⟨k0, Nat.le_refl _, Tree.msgs_prefix u t _ m h⟩
    · obtain ⟨k, hk, hp⟩ := Forest.msgs_prefix u rest lvl (k0+1) m h
      exact ⟨k, by omega, hp⟩
end

-- views agree when the arrival sets agree on the subtree's own messages
mutual
theorem Tree.view_congr (S S' : PMsg → Bool) (u : String) (t : Tree) (lvl : Level)
    (h : ∀ m ∈ Tree.msgs u t lvl, S m = S' m) : Tree.view S u t lvl = Tree.view S' u t lvl := by
  cases t with
  | leaf b => simp [Tree.view, pick, h (leafMsg u lvl b) (by simp [Tree.msgs])]
  | node a sb eb ok kids =>
    have hs := h (startMsg u lvl a sb) (by simp [Tree.msgs])
    have he := h (endMsg u lvl a eb ok (kids.len + 2)) (by simp [Tree.msgs])
    have hk := Forest.view_congr S S' u kids lvl 2 (fun m hm => h m (by simp [Tree.msgs, hm]))
    simp [Tree.view, pick, hs, he, hk]
theorem Forest.view_congr (S S' : PMsg → Bool) (u : String) (f : Forest) (lvl : Level) (k : Nat)
    (h : ∀ m ∈ Forest.msgs u f lvl k, S m = S' m) : Forest.view S u f lvl k = Forest.view S' u f lvl k := by
  cases f with
  | nil => simp [Forest.view]
  | cons t rest =>
    have h1 := Tree.view_congr S S' u t (lvl ++ [k]) (fun m hm => h m (by simp [Forest.msgs, hm]))
    have h2 := Forest.view_congr S S' u rest lvl (k+1) (fun m hm => h m (by simp [Forest.msgs, hm]))
    simp [Forest.view, h1, h2]
end

def Node.updE : List Nat → Op → Node → Except Err Node
  | [], op, n => op.apply n
  | k :: rest, op, n =>
    match n with
    | .msg _ => .error .underMessage
    | .act s e ch => do
      let child' ← Node.updE rest op ((ch.get? k).getD emptyAct)
      pure (.act s e (ch.set k child'))

theorem Node.addAt_fst (c : List Level) (pre : Level) (p : List Nat) (op : Op) (n : Node) :
    (Node.addAt c pre p op n).map (·.1) = Node.updE p op n := by
  induction p generalizing pre n with
  | nil =>
    simp only [Node.addAt, Node.updE]
    cases op.apply n <;> rfl
  | cons k rest ih =>
    cases n with
    | msg m => rfl
    | act s e ch =>
      simp only [Node.addAt, Node.updE]
      have := ih (pre ++ [k]) ((ch.get? k).getD emptyAct)
      cases h : Node.addAt c (pre ++ [k]) rest op ((ch.get? k).getD emptyAct) with
      | error err => simp [h] at this; simp [← this]; rfl
      | ok r => simp [h] at this; simp [← this]; rfl

def Forest.get? : Forest → Nat → Option Tree
  | .nil, _ => none
  | .cons t _, 0 => some t
  | .cons _ r, i+1 => r.get? i

theorem view_node_getD (S : PMsg → Bool) (u : String) (a : String) (sb eb : Nat) (ok : Bool)
    (kids : Forest) (lvl : Level) :
    (Tree.view S u (.node a sb eb ok kids) lvl).getD emptyAct =
      .act (pick S (startMsg u lvl a sb)) (pick S (endMsg u lvl a eb ok (kids.len + 2)))
        (Forest.view S u kids lvl 2) := by
  simp only [Tree.view]
  split
  · rename_i h
    simp only [Bool.and_eq_true, Option.isNone_iff_eq_none] at h
    obtain ⟨⟨h1, h2⟩, h3⟩ := h
    cases hc : Forest.view S u kids lvl 2 <;> simp_all [emptyAct, Kids.isNil]
  · rfl

theorem Forest.view_get? (S : PMsg → Bool) (u : String) (f : Forest) (lvl : Level) (k0 k : Nat) :
    (Forest.view S u f lvl k0).get? k =
      if k0 ≤ k then (f.get? (k - k0)).bind (fun t => Tree.view S u t (lvl ++ [k])) else none := by
  cases f with
  | nil => simp [Forest.view, Kids.get?, Forest.get?]
  | cons t rest =>
    have ih := Forest.view_get? S u rest lvl (k0+1) k
    simp only [Forest.view]
    by_cases hk : k0 ≤ k
    · by_cases he : k = k0
      · subst he
        simp only [Nat.le_refl, ↓reduceIte, Nat.sub_self, Forest.get?, Option.bind_some]
        cases hv : Tree.view S u t (lvl ++ [k]) with
        | some n => simp [Kids.get?]
        | none => simp [ih]; omega
      · have h1 : k0 + 1 ≤ k := by omega
        have h2 : k - k0 = (k - (k0+1)) + 1 := by omega
        simp only [hk, ↓reduceIte, h2, Forest.get?]
        simp only [h1, ↓reduceIte] at ih
        cases hv : Tree.view S u t (lvl ++ [k0]) with
        | some n =>
          have h3 : ¬ k < k0 := by omega
          simp [Kids.get?, he, h3, ih]
        | none => simp [ih]
    · have h1 : ¬ k0 + 1 ≤ k := by omega
      simp only [hk, ↓reduceIte]
      simp only [h1, ↓reduceIte] at ih
      cases hv : Tree.view S u t (lvl ++ [k0]) with
      | some n =>
        have h3 : k < k0 := by omega
        have h4 : k ≠ k0 := by omega
        simp [Kids.get?, h3, h4]
      | none => simp [ih]

theorem Forest.view_eq_of_get (S S' : PMsg → Bool) (u : String) (f : Forest) (lvl : Level) (k0 : Nat)
    (h : ∀ j t', f.get? j = some t' → Tree.view S' u t' (lvl ++ [k0 + j]) = Tree.view S u t' (lvl ++ [k0 + j])) :
    Forest.view S' u f lvl k0 = Forest.view S u f lvl k0 := by
  cases f with
  | nil => simp [Forest.view]
  | cons t rest =>
    have h0 := h 0 t (by simp [Forest.get?])
    have ih := Forest.view_eq_of_get S S' u rest lvl (k0+1) (fun j t' hj => by
      have := h (j+1) t' (by simp [Forest.get?, hj])
      rwa [show k0 + (j + 1) = k0 + 1 + j by omega] at this)
    simp only [Nat.add_zero] at h0
    simp [Forest.view, h0, ih]

def Kids.lb (b : Nat) : Kids → Prop
  | .nil => True
  | .cons k _ _ => b ≤ k

theorem Kids.set_of_lb (k b : Nat) (v : Node) (R : Kids) (hk : k < b) (hR : R.lb b) :
    R.set k v = .cons k v R := by
  cases R with
  | nil => simp [Kids.set]
  | cons k1 n rest =>
    simp only [Kids.lb] at hR
    have : k < k1 := by omega
    simp [Kids.set, this]

theorem Forest.view_lb (S : PMsg → Bool) (u : String) (f : Forest) (lvl : Level) (k0 : Nat) :
    (Forest.view S u f lvl k0).lb k0 := by
  cases f with
  | nil => simp [Forest.view, Kids.lb]
  | cons t rest =>
    simp only [Forest.view]
    cases hv : Tree.view S u t (lvl ++ [k0]) with
    | some n => simp [Kids.lb]
    | none =>
      have := Forest.view_lb S u rest lvl (k0+1)
      cases hr : Forest.view S u rest lvl (k0+1) with
      | nil => simp [Kids.lb]
      | cons k1 n r => rw [hr] at this; simp only [Kids.lb] at *; omega

theorem Forest.view_set (S S' : PMsg → Bool) (u : String) (f : Forest) (lvl : Level) (k0 k : Nat)
    (hk : k0 ≤ k) (t : Tree) (ht : f.get? (k - k0) = some t) (n' : Node)
    (hn : Tree.view S' u t (lvl ++ [k]) = some n')
    (hother : ∀ j, j ≠ k - k0 → ∀ t', f.get? j = some t' →
      Tree.view S' u t' (lvl ++ [k0 + j]) = Tree.view S u t' (lvl ++ [k0 + j])) :
    (Forest.view S u f lvl k0).set k n' = Forest.view S' u f lvl k0 := by
  cases f with
  | nil => simp [Forest.get?] at ht
  | cons t0 rest =>
    by_cases he : k = k0
    · subst he
      simp only [Nat.sub_self, Forest.get?, Option.some.injEq] at ht
      subst ht
      have hrest : Forest.view S' u rest lvl (k+1) = Forest.view S u rest lvl (k+1) :=
        Forest.view_eq_of_get S S' u rest lvl (k+1) (fun j t' hj => by
          have := hother (j+1) (by omega) t' (by simp [Forest.get?, hj])
          rwa [show k + (j + 1) = k + 1 + j by omega] at this)
      simp only [Forest.view, hn, hrest]
      cases hv : Tree.view S u t0 (lvl ++ [k]) with
      | some n => simp [Kids.set]
      | none =>
        simp only
        exact Kids.set_of_lb k (k+1) n' _ (by omega) (Forest.view_lb S u rest lvl (k+1))
    · have h1 : k0 + 1 ≤ k := by omega
      have h2 : k - k0 = (k - (k0+1)) + 1 := by omega
      rw [h2] at ht
      simp only [Forest.get?] at ht
      have h0 := hother 0 (by omega) t0 (by simp [Forest.get?])
      simp only [Nat.add_zero] at h0
      have ih := Forest.view_set S S' u rest lvl (k0+1) k h1 t ht n' hn (fun j hj t' hj' => by
        have := hother (j+1) (by omega) t' (by simp [Forest.get?, hj'])
        rwa [show k0 + (j + 1) = k0 + 1 + j by omega] at this)
      simp only [Forest.view, h0]
      cases hv : Tree.view S u t0 (lvl ++ [k0]) with
      | some n =>
        have h3 : ¬ k < k0 := by omega
        simp [Kids.set, h3, he, ih]
      | none => simpa using ih

def relPath (lvl : Level) (m : PMsg) : List Nat := (m.level.drop lvl.length).dropLast

def opOf (m : PMsg) : Op :=
  match m.atype, m.status with
  | some _, some "started" => .setStart m
  | some _, _ => .setEnd m
  | none, _ => .addMsg (m.level.getLast?.getD 0) m

def ext (S : PMsg → Bool) (m : PMsg) : PMsg → Bool := fun x => S x || x == m

theorem prefix_snoc_inj (lvl : Level) (k k' : Nat) (l : Level)
    (h1 : (lvl ++ [k]) <+: l) (h2 : (lvl ++ [k']) <+: l) : k = k' := by
  obtain ⟨r1, rfl⟩ := h1
  obtain ⟨r2, h⟩ := h2
  simp only [List.append_assoc, List.append_cancel_left_eq, List.cons_append, List.nil_append,
    List.cons.injEq] at h
  exact h.1.symm

-- a node's messages are strictly below its level
theorem Tree.msgs_node_shape (u : String) (a : String) (sb eb : Nat) (ok : Bool) (kids : Forest)
    (lvl : Level) (m : PMsg) (hm : m ∈ Tree.msgs u (.node a sb eb ok kids) lvl) :
    ∃ j r, m.level = lvl ++ j :: r := by
  simp only [Tree.msgs, List.mem_cons, List.mem_append, List.not_mem_nil, or_false] at hm
  rcases hm with h | h | h
  · subst h; exact ⟨1, [], rfl⟩
  · obtain ⟨k, _, r, hr⟩ := Forest.msgs_prefix u kids lvl 2 m h
    exact ⟨k, r, by rw [← hr]; simp⟩
  · subst h; exact ⟨_, [], rfl⟩

theorem relPath_cons (lvl : Level) (k j : Nat) (r : List Nat) (m : PMsg)
    (h : m.level = lvl ++ [k] ++ j :: r) :
    relPath lvl m = k :: relPath (lvl ++ [k]) m := by
  simp [relPath, h, List.dropLast]

-- upper bound on the child index owning a message
theorem Forest.msgs_prefix_lt (u : String) (f : Forest) (lvl : Level) (k0 : Nat) :
    ∀ m ∈ Forest.msgs u f lvl k0, ∃ k, k0 ≤ k ∧ k < k0 + f.len ∧ (lvl ++ [k]) <+: m.level := by
  cases f with
  | nil => intro m hm; simp [Forest.msgs] at hm
  | cons t rest =>
    intro m hm
    simp only [Forest.msgs, List.mem_append] at hm
    rcases hm with h | h
    · exact ⟨k0, Nat.le_refl _, by simp [Forest.len], Tree.msgs_prefix u t _ m h⟩
    · obtain ⟨k, hk, hk2, hp⟩ := Forest.msgs_prefix_lt u rest lvl (k0+1) m h
      exact ⟨k, by omega, by simp [Forest.len]; omega, hp⟩

mutual
theorem Tree.view_some_of_mem (S : PMsg → Bool) (u : String) (t : Tree) (lvl : Level) (m : PMsg)
    (hm : m ∈ Tree.msgs u t lvl) (hS : S m = true) : (Tree.view S u t lvl).isSome := by
  cases t with
  | leaf b =>
    simp only [Tree.msgs, List.mem_cons, List.not_mem_nil, or_false] at hm
    subst hm; simp [Tree.view, pick, hS]
  | node a sb eb ok kids =>
    simp only [Tree.msgs, List.mem_cons, List.mem_append, List.not_mem_nil, or_false] at hm
    simp only [Tree.view]
    rcases hm with h | h | h
    · subst h; simp [pick, hS]
    · have := Forest.view_ne_nil_of_mem S u kids lvl 2 m h hS
      cases hc : Forest.view S u kids lvl 2 <;> simp_all [Kids.isNil]
    · subst h; simp [pick, hS]
theorem Forest.view_ne_nil_of_mem (S : PMsg → Bool) (u : String) (f : Forest) (lvl : Level) (k0 : Nat)
    (m : PMsg) (hm : m ∈ Forest.msgs u f lvl k0) (hS : S m = true) :
    Forest.view S u f lvl k0 ≠ .nil := by
  cases f with
  | nil => simp [Forest.msgs] at hm
  | cons t rest =>
    simp only [Forest.msgs, List.mem_append] at hm
    simp only [Forest.view]
    rcases hm with h | h
    · have := Tree.view_some_of_mem S u t (lvl ++ [k0]) m h hS
      cases hv : Tree.view S u t (lvl ++ [k0]) <;> simp_all
    · have := Forest.view_ne_nil_of_mem S u rest lvl (k0+1) m h hS
      cases hv : Tree.view S u t (lvl ++ [k0]) <;> simp_all
end

theorem ext_self (S : PMsg → Bool) (m : PMsg) : ext S m m = true := by simp [ext]
theorem ext_of_ne (S : PMsg → Bool) (m x : PMsg) (h : x ≠ m) : ext S m x = S x := by simp [ext, h]

theorem ne_of_level_ne {m m' : PMsg} (h : m.level ≠ m'.level) : m ≠ m' := by
  intro e; exact h (by rw [e])

-- a message strictly inside child k of `lvl` is not the message at `lvl ++ [j]` for j ≠ k
theorem ne_of_prefix (lvl : Level) (k j : Nat) (m m' : PMsg) (hk : (lvl ++ [k]) <+: m.level)
    (hj : (lvl ++ [j]) <+: m'.level) (hne : k ≠ j) : m ≠ m' := by
  intro e; subst e; exact hne (prefix_snoc_inj lvl k j _ hk hj)

theorem Forest.step_congr_other (S : PMsg → Bool) (u : String) (t : Tree) (lvl : Level) (k j : Nat) (m : PMsg)
    (hk : (lvl ++ [k]) <+: m.level) (hne : j ≠ k) :
    Tree.view (ext S m) u t (lvl ++ [j]) = Tree.view S u t (lvl ++ [j]) :=
  Tree.view_congr _ _ u t _ (fun m' hm' =>
    ext_of_ne S m m' (ne_of_prefix lvl j k m' m (Tree.msgs_prefix u t _ m' hm') hk hne))

theorem some_getD_of_isSome {α} (x : Option α) (d : α) (h : x.isSome) : x = some (x.getD d) := by
  cases x <;> simp_all

mutual
theorem Tree.step (S : PMsg → Bool) (u : String) (a : String) (sb eb : Nat) (ok : Bool) (kids : Forest)
    (lvl : Level) (m : PMsg) (hm : m ∈ Tree.msgs u (.node a sb eb ok kids) lvl) (hS : S m = false) :
    Node.updE (relPath lvl m) (opOf m) ((Tree.view S u (.node a sb eb ok kids) lvl).getD emptyAct)
      = .ok ((Tree.view (ext S m) u (.node a sb eb ok kids) lvl).getD emptyAct) := by
  rw [view_node_getD, view_node_getD]
  simp only [Tree.msgs, List.mem_cons, List.mem_append, List.not_mem_nil, or_false] at hm
  rcases hm with h | h | h
  · -- start message
    subst h
    have hp : relPath lvl (startMsg u lvl a sb) = [] := by simp [relPath, startMsg]
    have ho : opOf (startMsg u lvl a sb) = .setStart (startMsg u lvl a sb) := by simp [opOf, startMsg]
    have hne : endMsg u lvl a eb ok (kids.len + 2) ≠ startMsg u lvl a sb :=
      ne_of_level_ne (by simp [endMsg, startMsg])
    have hk : Forest.view (ext S (startMsg u lvl a sb)) u kids lvl 2 = Forest.view S u kids lvl 2 :=
      Forest.view_congr _ _ u kids lvl 2 (fun m' hm' => by
        obtain ⟨k, hk2, hp⟩ := Forest.msgs_prefix u kids lvl 2 m' hm'
        exact ext_of_ne S _ m' (ne_of_prefix lvl k 1 m' _ hp (by simp [startMsg]) (by omega)))
    simp only [hp, ho, Node.updE, Op.apply, pick, hS, ext_self, ext_of_ne S _ _ hne, hk]
    simp [startMsg]
  · -- inside the children
    have hs' : pick (ext S m) (startMsg u lvl a sb) = pick S (startMsg u lvl a sb) := by
      obtain ⟨k, hk2, hp⟩ := Forest.msgs_prefix u kids lvl 2 m h
      have : startMsg u lvl a sb ≠ m :=
        ne_of_prefix lvl 1 k _ m (by simp [startMsg]) hp (by omega)
      simp [pick, ext_of_ne S m _ this]
    have he' : pick (ext S m) (endMsg u lvl a eb ok (kids.len + 2)) = pick S (endMsg u lvl a eb ok (kids.len + 2)) := by
      obtain ⟨k, hk2, hk3, hp⟩ := Forest.msgs_prefix_lt u kids lvl 2 m h
      have : endMsg u lvl a eb ok (kids.len + 2) ≠ m :=
        ne_of_prefix lvl (kids.len + 2) k _ m (by simp [endMsg]) hp (by omega)
      simp [pick, ext_of_ne S m _ this]
    rw [hs', he']
    rcases Forest.step S u kids lvl 2 m h hS with ⟨k, _, hp, ho, hset⟩ | ⟨k, child', _, hp, hupd, hset⟩
    · simp [hp, ho, Node.updE, Op.apply, hset]
    · simp only [hp, Node.updE, hupd]
      show Except.ok _ = _
      rw [hset]
  · -- end message
    subst h
    have hp : relPath lvl (endMsg u lvl a eb ok (kids.len + 2)) = [] := by simp [relPath, endMsg]
    have ho : opOf (endMsg u lvl a eb ok (kids.len + 2)) = .setEnd (endMsg u lvl a eb ok (kids.len + 2)) := by
      cases ok <;> simp [opOf, endMsg]
    have hne : startMsg u lvl a sb ≠ endMsg u lvl a eb ok (kids.len + 2) :=
      ne_of_level_ne (by simp [endMsg, startMsg])
    have hk : Forest.view (ext S (endMsg u lvl a eb ok (kids.len + 2))) u kids lvl 2 = Forest.view S u kids lvl 2 :=
      Forest.view_congr _ _ u kids lvl 2 (fun m' hm' => by
        obtain ⟨k, hk2, hk3, hp⟩ := Forest.msgs_prefix_lt u kids lvl 2 m' hm'
        exact ext_of_ne S _ m' (ne_of_prefix lvl k (kids.len + 2) m' _ hp (by simp [endMsg]) (by omega)))
    simp only [hp, ho, Node.updE, Op.apply, pick, hS, ext_self, ext_of_ne S _ _ hne, hk]
    cases hs : S (startMsg u lvl a sb) <;> cases ok <;> simp [Node.atype?, endMsg, startMsg]
theorem Forest.step (S : PMsg → Bool) (u : String) (f : Forest) (lvl : Level) (k0 : Nat) (m : PMsg)
    (hm : m ∈ Forest.msgs u f lvl k0) (hS : S m = false) :
    (∃ k, k0 ≤ k ∧ relPath lvl m = [] ∧ opOf m = .addMsg k m ∧
        (Forest.view S u f lvl k0).set k (.msg m) = Forest.view (ext S m) u f lvl k0)
    ∨ (∃ k child', k0 ≤ k ∧ relPath lvl m = k :: relPath (lvl ++ [k]) m ∧
        Node.updE (relPath (lvl ++ [k]) m) (opOf m) (((Forest.view S u f lvl k0).get? k).getD emptyAct)
          = .ok child' ∧
        (Forest.view S u f lvl k0).set k child' = Forest.view (ext S m) u f lvl k0) := by
  cases f with
  | nil => simp [Forest.msgs] at hm
  | cons t rest =>
    simp only [Forest.msgs, List.mem_append] at hm
    rcases hm with h | h
    · -- m lives in the first child, at index k0
      have hother : ∀ j, j ≠ k0 - k0 → ∀ t', (Forest.cons t rest).get? j = some t' →
          Tree.view (ext S m) u t' (lvl ++ [k0 + j]) = Tree.view S u t' (lvl ++ [k0 + j]) :=
        fun j hj t' _ => Forest.step_congr_other S u t' lvl k0 (k0 + j) m
          (Tree.msgs_prefix u t _ m h) (by omega)
      cases t with
      | leaf b =>
        simp only [Tree.msgs, List.mem_cons, List.not_mem_nil, or_false] at h
        subst h
        refine Or.inl ⟨k0, Nat.le_refl _, by simp [relPath, leafMsg], by simp [opOf, leafMsg], ?_⟩
        exact Forest.view_set S _ u _ lvl k0 k0 (Nat.le_refl _) (.leaf b) (by simp [Forest.get?]) _
          (by simp [Tree.view, pick, ext_self]) hother
      | node a sb eb ok kids =>
        obtain ⟨j, r, hshape⟩ := Tree.msgs_node_shape u a sb eb ok kids (lvl ++ [k0]) m h
        have hstep := Tree.step S u a sb eb ok kids (lvl ++ [k0]) m h hS
        have hsome := Tree.view_some_of_mem (ext S m) u (.node a sb eb ok kids) (lvl ++ [k0]) m h (ext_self S m)
        refine Or.inr ⟨k0, (Tree.view (ext S m) u (.node a sb eb ok kids) (lvl ++ [k0])).getD emptyAct, Nat.le_refl _, relPath_cons lvl k0 j r m hshape, ?_, ?_⟩
        · rw [Forest.view_get?]
          simpa [Forest.get?] using hstep
        · exact Forest.view_set S _ u _ lvl k0 k0 (Nat.le_refl _) _ (by simp [Forest.get?]) _
            (some_getD_of_isSome _ _ hsome) hother
    · -- m lives further right
      obtain ⟨k', hk'1, hpre⟩ := Forest.msgs_prefix u rest lvl (k0+1) m h
      have hv : Tree.view (ext S m) u t (lvl ++ [k0]) = Tree.view S u t (lvl ++ [k0]) :=
        Forest.step_congr_other S u t lvl k' k0 m hpre (by omega)
      rcases Forest.step S u rest lvl (k0+1) m h hS with ⟨k, hk, hp, ho, hset⟩ | ⟨k, child', hk, hp, hupd, hset⟩
      · refine Or.inl ⟨k, by omega, hp, ho, ?_⟩
        simp only [Forest.view, hv]
        cases hv' : Tree.view S u t (lvl ++ [k0]) with
        | some n =>
          have h1 : ¬ k < k0 := by omega
          have h2 : k ≠ k0 := by omega
          simp [Kids.set, h1, h2, hset]
        | none => simpa using hset
      · refine Or.inr ⟨k, child', by omega, hp, ?_, ?_⟩
        · simp only [Forest.view]
          cases hv' : Tree.view S u t (lvl ++ [k0]) with
          | some n =>
            have h1 : ¬ k < k0 := by omega
            have h2 : k ≠ k0 := by omega
            simpa [Kids.get?, h1, h2] using hupd
          | none => simpa using hupd
        · simp only [Forest.view, hv]
          cases hv' : Tree.view S u t (lvl ++ [k0]) with
          | some n =>
            have h1 : ¬ k < k0 := by omega
            have h2 : k ≠ k0 := by omega
            simp [Kids.set, h1, h2, hset]
          | none => simpa using hset
end



end PM
