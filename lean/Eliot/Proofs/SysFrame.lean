import Eliot.Model.Sys
/-! Frame facts: what the logging primitives of the core model leave untouched. -/
namespace Sys

/-- The *control state* (current action, registered destinations, buffering flag, global fields,
program variables) is untouched, and the action table only grows, keeping identities. -/
structure Frame (w w' : World) : Prop where
  ctx : w'.ctx = w.ctx
  dests : w'.dests = w.dests
  anyAdded : w'.anyAdded = w.anyAdded
  globals : w'.globals = w.globals
  vars : w'.vars = w.vars
  ids : w'.ids = w.ids
  probes : w'.probes = w.probes
  grow : w.acts.length ≤ w'.acts.length
  keep : ∀ (h : Nat) (a : Act), w.acts[h]? = some a → ∃ a' : Act, w'.acts[h]? = some a' ∧ a'.uuid = a.uuid ∧ a'.level = a.level ∧
          a.last ≤ a'.last ∧ (a.finished = true → a'.finished = true) ∧ a'.succ = a.succ ∧ a'.atype = a.atype ∧
          a'.sers = a.sers
  uuidMono : w.nextUuid ≤ w'.nextUuid
  offered : w.offered <+: w'.offered
  accepted : w.accepted <+: w'.accepted
  stage : w.stage <+: w'.stage
  /-- every action's uuid was produced by the uuid counter -/
  bound : (∀ a ∈ w.acts, a.uuid < w.nextUuid) → (∀ a ∈ w'.acts, a.uuid < w'.nextUuid)

theorem Frame.refl (w : World) : Frame w w :=
  ⟨rfl, rfl, rfl, rfl, rfl, rfl, rfl, Nat.le_refl _, fun _ a h => ⟨a, h, rfl, rfl, Nat.le_refl _, id, rfl, rfl, rfl⟩,
   Nat.le_refl _, List.prefix_refl _, List.prefix_refl _, List.prefix_refl _, id⟩

theorem Frame.trans {a b c : World} (h1 : Frame a b) (h2 : Frame b c) : Frame a c where
  ctx := h2.ctx.trans h1.ctx
  dests := h2.dests.trans h1.dests
  anyAdded := h2.anyAdded.trans h1.anyAdded
  globals := h2.globals.trans h1.globals
  vars := h2.vars.trans h1.vars
  ids := h2.ids.trans h1.ids
  probes := h2.probes.trans h1.probes
  grow := Nat.le_trans h1.grow h2.grow
  keep := fun h x hx => by
    obtain ⟨y, hy, e1, e2, e3, e4, e5, e6, e7⟩ := h1.keep h x hx
    obtain ⟨z, hz, f1, f2, f3, f4, f5, f6, f7⟩ := h2.keep h y hy
    exact ⟨z, hz, f1.trans e1, f2.trans e2, Nat.le_trans e3 f3, fun t => f4 (e4 t), f5.trans e5, f6.trans e6, f7.trans e7⟩
  uuidMono := Nat.le_trans h1.uuidMono h2.uuidMono
  offered := h1.offered.trans h2.offered
  accepted := h1.accepted.trans h2.accepted
  stage := h1.stage.trans h2.stage
  bound := fun h => h2.bound (h1.bound h)

/-! ### primitives -/
theorem frame_callDest (env : Env) (w : World) (d : Nat) (m : Msg) : Frame w (w.callDest env d m).1 := by
  unfold World.callDest
  simp only
  split <;>
    exact ⟨rfl, rfl, rfl, rfl, rfl, rfl, rfl, Nat.le_refl _, fun _ a h => ⟨a, h, rfl, rfl, Nat.le_refl _, id, rfl, rfl, rfl⟩,
      Nat.le_refl _, by simp, by simp, by simp, id⟩

theorem frame_fanOut (env : Env) (m : Msg) (ds : List Nat) (w : World) : Frame w (World.fanOut env w m ds).1 := by
  induction ds generalizing w with
  | nil => exact Frame.refl w
  | cons d ds ih => exact (frame_callDest env w d m).trans (ih _)

/-- ghost bookkeeping only -/
theorem frame_lastSlot (w : World) (l : Option (Nat × Nat)) : Frame w { w with lastSlot := l } :=
  ⟨rfl, rfl, rfl, rfl, rfl, rfl, rfl, Nat.le_refl _, fun _ a h => ⟨a, h, rfl, rfl, Nat.le_refl _, id, rfl, rfl, rfl⟩,
    Nat.le_refl _, List.prefix_refl _, List.prefix_refl _, List.prefix_refl _, id⟩

theorem frame_popPending (w : World) : Frame w w.popPending :=
  ⟨rfl, rfl, rfl, rfl, rfl, rfl, rfl, Nat.le_refl _, fun _ a h => ⟨a, h, rfl, rfl, Nat.le_refl _, id, rfl, rfl, rfl⟩,
    Nat.le_refl _, List.prefix_refl _, List.prefix_refl _, List.prefix_refl _, id⟩

theorem frame_deliver (env : Env) (w : World) (m : Msg) : Frame w (w.deliver env m).1 := by
  unfold World.deliver
  have h0 : Frame w { w with stage := w.stage ++ [Fields.update m w.globals], stageAt := w.stageAt ++ [w.dests] } :=
    ⟨rfl, rfl, rfl, rfl, rfl, rfl, rfl, Nat.le_refl _, fun _ a h => ⟨a, h, rfl, rfl, Nat.le_refl _, id, rfl, rfl, rfl⟩,
      Nat.le_refl _, List.prefix_refl _, List.prefix_refl _, by simp, id⟩
  simp only
  split
  · exact (h0.trans (frame_fanOut env _ _ _)).trans (frame_lastSlot _ _)
  · exact h0.trans ⟨rfl, rfl, rfl, rfl, rfl, rfl, rfl, Nat.le_refl _,
      fun _ a h => ⟨a, h, rfl, rfl, Nat.le_refl _, id, rfl, rfl, rfl⟩, Nat.le_refl _, List.prefix_refl _,
      List.prefix_refl _, List.prefix_refl _, id⟩

theorem frame_nextLevel (w : World) (h : Nat) : Frame w (w.nextLevel h).1 := by
  unfold World.nextLevel
  cases hh : w.acts[h]? with
  | none => exact Frame.refl w
  | some a =>
    refine ⟨rfl, rfl, rfl, rfl, rfl, rfl, rfl, by simp, ?_, Nat.le_refl _, List.prefix_refl _, List.prefix_refl _, List.prefix_refl _,
      fun hb x hx => ?_⟩
    rotate_left
    · rcases List.mem_or_eq_of_mem_set hx with hx | hx
      · exact hb x hx
      · subst hx; exact hb a (List.mem_of_getElem? hh)
    intro h' a' ha'
    by_cases e : h = h'
    · subst e
      rw [hh] at ha'; cases ha'
      have hlt : h < w.acts.length := by
        rcases Nat.lt_or_ge h w.acts.length with hl | hl
        · exact hl
        · rw [List.getElem?_eq_none hl] at hh; cases hh
      exact ⟨{ a with last := a.last + 1 }, by simp [List.getElem?_set_self hlt], rfl, rfl, Nat.le_succ _, id, rfl, rfl, rfl⟩
    · exact ⟨a', by simp [List.getElem?_set_ne e, ha'], rfl, rfl, Nat.le_refl _, id, rfl, rfl, rfl⟩

theorem frame_clock (w : World) : Frame w w.clock.1 :=
  ⟨rfl, rfl, rfl, rfl, rfl, rfl, rfl, Nat.le_refl _, fun _ a h => ⟨a, h, rfl, rfl, Nat.le_refl _, id, rfl, rfl, rfl⟩,
    Nat.le_refl _, List.prefix_refl _, List.prefix_refl _, List.prefix_refl _, id⟩

theorem frame_freshAction (w : World) (t : String) (s) : Frame w (w.freshAction t s).1 := by
  refine ⟨rfl, rfl, rfl, rfl, rfl, rfl, rfl, by simp [World.freshAction], ?_, by simp [World.freshAction],
    List.prefix_refl _, List.prefix_refl _, List.prefix_refl _, fun hb x hx => ?_⟩
  rotate_left
  · simp only [World.freshAction, List.mem_append, List.mem_singleton] at hx ⊢
    rcases hx with hx | hx
    · exact Nat.lt_succ_of_lt (hb x hx)
    · subst hx; exact Nat.lt_succ_self _
  intro h a ha
  have hlt : h < w.acts.length := by
    rcases Nat.lt_or_ge h w.acts.length with hl | hl
    · exact hl
    · rw [List.getElem?_eq_none hl] at ha; cases ha
  exact ⟨a, by simp [World.freshAction, List.getElem?_append_left hlt, ha], rfl, rfl, Nat.le_refl _, id, rfl, rfl, rfl⟩

theorem frame_currentOrFresh (w : World) : Frame w w.currentOrFresh.1 := by
  unfold World.currentOrFresh
  cases w.ctx with
  | none => exact frame_freshAction w "" none
  | some h => exact Frame.refl w

theorem frame_buildLog (w : World) (h : Nat) (t : String) (f : Fields) : Frame w (w.buildLog h t f).1 := by
  unfold World.buildLog
  exact (frame_clock w).trans (frame_nextLevel _ _)

theorem frame_logReport (env : Env) (w : World) (f : Fields) : Frame w (w.logReport env f) := by
  unfold World.logReport
  exact (frame_currentOrFresh w).trans ((frame_buildLog _ _ _ _).trans (frame_deliver env _ _))

theorem frame_reportAll (env : Env) (m : Msg) (es : List Exc) (w : World) : Frame w (World.reportAll env w m es) := by
  induction es generalizing w with
  | nil => exact Frame.refl w
  | cons e es ih => exact (frame_logReport env w _).trans (ih _)

theorem frame_send (env : Env) (w : World) (m : Msg) : Frame w (w.send env m) := by
  unfold World.send
  exact (frame_deliver env w m).trans (frame_reportAll env _ _ _)

theorem frame_logNoSer (env : Env) (w : World) (t : String) (f : Fields) : Frame w (w.logNoSer env t f) := by
  unfold World.logNoSer
  exact (frame_currentOrFresh w).trans ((frame_buildLog _ _ _ _).trans (frame_send env _ _))

theorem frame_getFields (env : Env) (w : World) (e : Exc) : Frame w (World.getFields env w e).1 := by
  unfold World.getFields
  cases firstExtractor env (env.mro (e.cls env)) with
  | none => exact Frame.refl w
  | some f =>
    have h0 : Frame w { w with extCalls := w.extCalls + 1 } :=
      ⟨rfl, rfl, rfl, rfl, rfl, rfl, rfl, Nat.le_refl _, fun _ a h => ⟨a, h, rfl, rfl, Nat.le_refl _, id, rfl, rfl, rfl⟩,
        Nat.le_refl _, List.prefix_refl _, List.prefix_refl _, List.prefix_refl _, id⟩
    simp only
    cases f e w.extCalls with
    | ok fs => exact h0
    | error e' => exact h0.trans (frame_logNoSer env _ _ _)

theorem frame_writeTraceback (env : Env) (w : World) (e : Exc) : Frame w (w.writeTraceback env e) := by
  unfold World.writeTraceback
  exact (frame_getFields env w e).trans (frame_logNoSer env _ _ _)

theorem frame_serializeFields (env : Env) (ss : List (String × Nat)) (w : World) (m : Msg) :
    Frame w (serializeFields env w ss m).1 := by
  induction ss generalizing w m with
  | nil => exact Frame.refl w
  | cons p r ih =>
    obtain ⟨key, sid⟩ := p
    unfold serializeFields
    cases m.get? key with
    | none => exact Frame.refl w
    | some v =>
      have h0 : Frame w { w with serCalls := w.serCalls + 1 } :=
        ⟨rfl, rfl, rfl, rfl, rfl, rfl, rfl, Nat.le_refl _, fun _ a h => ⟨a, h, rfl, rfl, Nat.le_refl _, id, rfl, rfl, rfl⟩,
          Nat.le_refl _, List.prefix_refl _, List.prefix_refl _, List.prefix_refl _, id⟩
      simp only
      cases env.serialize sid v w.serCalls with
      | ok v' => exact h0.trans (ih _ _)
      | error e => exact h0

theorem frame_loggerWrite (env : Env) (w : World) (m : Msg) (sers : Option (List (String × Nat))) :
    Frame w (w.loggerWrite env m sers) := by
  unfold World.loggerWrite
  cases sers with
  | none => exact frame_send env w m
  | some ss =>
    simp only
    have h1 := frame_serializeFields env ss w m
    cases h : (serializeFields env w ss m).2 with
    | ok m' => exact h1.trans (frame_send env _ _)
    | error e => exact h1.trans ((frame_writeTraceback env _ e).trans (frame_logNoSer env _ _ _))

theorem frame_logMessage (env : Env) (w : World) (ms : MSpec) : Frame w (w.logMessage env ms) := by
  unfold World.logMessage
  exact (frame_currentOrFresh w).trans ((frame_buildLog _ _ _ _).trans (frame_loggerWrite env _ _ _))

theorem frame_logTo (env : Env) (w : World) (h : Nat) (ms : MSpec) : Frame w (w.logTo env h ms) := by
  unfold World.logTo
  exact (frame_buildLog _ _ _ _).trans (frame_loggerWrite env _ _ _)

theorem frame_startRec (env : Env) (w : World) (h : Nat) (f : Fields) : Frame w (w.startRec env h f) := by
  unfold World.startRec
  cases w.acts[h]? with
  | none => exact Frame.refl w
  | some a => exact (frame_clock w).trans ((frame_nextLevel _ _).trans (frame_loggerWrite env _ _ _))

theorem frame_setFinished (w : World) (h : Nat) (a : Act) (ha : w.acts[h]? = some a) :
    Frame w { w with acts := w.acts.set h { a with finished := true } } := by
  refine ⟨rfl, rfl, rfl, rfl, rfl, rfl, rfl, by simp, ?_, Nat.le_refl _, List.prefix_refl _, List.prefix_refl _, List.prefix_refl _,
    fun hb x hx => ?_⟩
  rotate_left
  · rcases List.mem_or_eq_of_mem_set hx with hx | hx
    · exact hb x hx
    · subst hx; exact hb a (List.mem_of_getElem? ha)
  intro h' a' ha'
  by_cases e : h = h'
  · subst e
    rw [ha] at ha'; cases ha'
    have hlt : h < w.acts.length := by
      rcases Nat.lt_or_ge h w.acts.length with hl | hl
      · exact hl
      · rw [List.getElem?_eq_none hl] at ha; cases ha
    exact ⟨{ a with finished := true }, by simp [List.getElem?_set_self hlt], rfl, rfl, Nat.le_refl _, fun _ => rfl, rfl, rfl, rfl⟩
  · exact ⟨a', by simp [List.getElem?_set_ne e, ha'], rfl, rfl, Nat.le_refl _, id, rfl, rfl, rfl⟩

theorem frame_finishRec (env : Env) (w : World) (h : Nat) (exc : Option Exc) : Frame w (w.finishRec env h exc) := by
  unfold World.finishRec
  cases ha : w.acts[h]? with
  | none => exact Frame.refl w
  | some a =>
    simp only
    split
    · exact Frame.refl w
    · have h0 := frame_setFinished w h a ha
      cases exc with
      | none => exact h0.trans ((frame_clock _).trans ((frame_nextLevel _ _).trans (frame_loggerWrite env _ _ _)))
      | some e =>
        exact h0.trans ((frame_getFields env _ e).trans ((frame_clock _).trans ((frame_nextLevel _ _).trans (frame_loggerWrite env _ _ _))))

end Sys

namespace Sys

theorem frame_appendAct (w : World) (a : Act) (hu : a.uuid < w.nextUuid) :
    Frame w { w with acts := w.acts ++ [a] } := by
  refine ⟨rfl, rfl, rfl, rfl, rfl, rfl, rfl, by simp, ?_, Nat.le_refl _,
    List.prefix_refl _, List.prefix_refl _, List.prefix_refl _, fun hb x hx => ?_⟩
  rotate_left
  · simp only [List.mem_append, List.mem_singleton] at hx
    rcases hx with hx | hx
    · exact hb x hx
    · subst hx; exact hu
  intro h x hx
  have hlt : h < w.acts.length := by
    rcases Nat.lt_or_ge h w.acts.length with hl | hl
    · exact hl
    · rw [List.getElem?_eq_none hl] at hx; cases hx
  exact ⟨x, by simp [List.getElem?_append_left hlt, hx], rfl, rfl, Nat.le_refl _, id, rfl, rfl, rfl⟩

/-- `start_action` / `start_task`: a frame step, provided every existing action's uuid came from the
uuid counter (so that the child's inherited uuid did too). -/
theorem frame_startAction (env : Env) (w : World) (task : Bool) (sp : Spec)
    (hb : ∀ a ∈ w.acts, a.uuid < w.nextUuid) : Frame w (w.startAction env task sp).1 := by
  unfold World.startAction
  split
  · exact (frame_freshAction w _ _).trans (frame_startRec env _ _ _)
  · rename_i p _
    split
    · exact Frame.refl w
    · rename_i pa hpa
      have h1 := frame_nextLevel w p
      have hb1 := h1.bound hb
      obtain ⟨pa', hpa', hu, _⟩ := h1.keep p pa hpa
      have : pa.uuid < (w.nextLevel p).1.nextUuid := by
        rw [← hu]; exact hb1 pa' (List.mem_of_getElem? hpa')
      exact h1.trans ((frame_appendAct (w.nextLevel p).1
        { uuid := pa.uuid, level := (w.nextLevel p).2, atype := sp.atype, sers := sp.sers } this).trans
        (frame_startRec env _ _ _))

theorem frame_continueTask (env : Env) (w : World) (u : Nat) (lvl : Level) (sp : Spec) (hu : u < w.nextUuid) :
    Frame w (w.continueTask env u lvl sp).1 := by
  unfold World.continueTask
  exact (frame_appendAct w _ hu).trans (frame_startRec env _ _ _)

end Sys
