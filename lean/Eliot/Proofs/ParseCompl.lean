import Eliot.Proofs.ParseStep
namespace PM

mutual
def Tree.full (S : PMsg → Bool) (u : String) : Tree → Level → Bool
  | .leaf b, lvl => S (leafMsg u lvl b)
  | .node a sb eb ok kids, lvl =>
    S (startMsg u lvl a sb) && S (endMsg u lvl a eb ok (kids.len + 2)) && Forest.full S u kids lvl 2
def Forest.full (S : PMsg → Bool) (u : String) : Forest → Level → Nat → Bool
  | .nil, _, _ => true
  | .cons t rest, lvl, k => Tree.full S u t (lvl ++ [k]) && Forest.full S u rest lvl (k+1)
end

def Tree.isNode : Tree → Bool
  | .node .. => true
  | .leaf _ => false

-- `C` is right about the action children of `f` (levels lvl++[k0+j])
def KidsOK (S : PMsg → Bool) (u : String) (C : List Level) (f : Forest) (lvl : Level) (k0 : Nat) : Prop :=
  ∀ j t, f.get? j = some t → t.isNode = true →
    (C.contains (lvl ++ [k0 + j]) = Tree.full S u t (lvl ++ [k0 + j]))

theorem Forest.view_length_le (S : PMsg → Bool) (u : String) (f : Forest) (lvl : Level) (k0 : Nat) :
    (Forest.view S u f lvl k0).length ≤ f.len := by
  cases f with
  | nil => simp [Forest.view, Kids.length, Forest.len]
  | cons t rest =>
    have ih := Forest.view_length_le S u rest lvl (k0+1)
    simp only [Forest.view, Forest.len]
    cases hv : Tree.view S u t (lvl ++ [k0]) with
    | some n => simp [Kids.length]; omega
    | none => simp; omega

-- view of a node is an `act`, view of a leaf is a `msg`
theorem Tree.view_leaf_some (S : PMsg → Bool) (u : String) (b : Nat) (lvl : Level) (n : Node)
    (h : Tree.view S u (.leaf b) lvl = some n) : n = .msg (leafMsg u lvl b) ∧ S (leafMsg u lvl b) = true := by
  simp only [Tree.view, pick] at h
  split at h <;> simp_all

theorem Tree.view_node_some (S : PMsg → Bool) (u : String) (a : String) (sb eb : Nat) (ok : Bool)
    (kids : Forest) (lvl : Level) (n : Node)
    (h : Tree.view S u (.node a sb eb ok kids) lvl = some n) : ∃ s e ch, n = .act s e ch := by
  simp only [Tree.view] at h
  split at h
  · simp at h
  · exact ⟨_, _, _, (Option.some.inj h).symm⟩

theorem Tree.full_view_some (S : PMsg → Bool) (u : String) (t : Tree) (lvl : Level)
    (h : Tree.full S u t lvl = true) : (Tree.view S u t lvl).isSome := by
  cases t with
  | leaf b => simp_all [Tree.full, Tree.view, pick]
  | node a sb eb ok kids =>
    simp only [Tree.full, Bool.and_eq_true] at h
    simp [Tree.view, pick, h.1.1]

theorem Forest.full_iff (S : PMsg → Bool) (u : String) (C : List Level) (f : Forest) (lvl : Level) (k0 : Nat)
    (hC : KidsOK S u C f lvl k0) :
    ((Forest.view S u f lvl k0).length == f.len && (Forest.view S u f lvl k0).allActsIn C lvl)
      = Forest.full S u f lvl k0 := by
  cases f with
  | nil => simp [Forest.view, Kids.length, Forest.len, Kids.allActsIn, Forest.full]
  | cons t rest =>
    have hC' : KidsOK S u C rest lvl (k0+1) := fun j t' hj hn => by
      have := hC (j+1) t' (by simp [Forest.get?, hj]) hn
      rwa [show k0 + (j + 1) = k0 + 1 + j by omega] at this
    have ih := Forest.full_iff S u C rest lvl (k0+1) hC'
    have hle := Forest.view_length_le S u rest lvl (k0+1)
    simp only [Forest.view, Forest.len, Forest.full]
    cases hv : Tree.view S u t (lvl ++ [k0]) with
    | none =>
      have hnf : Tree.full S u t (lvl ++ [k0]) = false := by
        cases hf : Tree.full S u t (lvl ++ [k0]) with
        | false => rfl
        | true => have := Tree.full_view_some S u t _ hf; simp [hv] at this
      have : ((Forest.view S u rest lvl (k0+1)).length == rest.len + 1) = false := by
        simp; omega
      simp [hnf, this]
    | some n =>
      cases t with
      | leaf b =>
        obtain ⟨hn, hS⟩ := Tree.view_leaf_some S u b _ n hv
        subst hn
        simp only [Kids.length, Kids.allActsIn, Tree.full, hS, Bool.true_and]
        rw [← ih]; simp
      | node a sb eb ok kids =>
        obtain ⟨s, e, ch, hn⟩ := Tree.view_node_some S u a sb eb ok kids _ n hv
        subst hn
        have h0 := hC 0 (.node a sb eb ok kids) (by simp [Forest.get?]) rfl
        simp only [Nat.add_zero] at h0
        simp only [Kids.length, Kids.allActsIn, h0]
        rw [← ih]
        cases Tree.full S u (.node a sb eb ok kids) (lvl ++ [k0]) <;> simp

mutual
def Tree.cmem (S : PMsg → Bool) (u : String) : Tree → Level → Level → Bool
  | .leaf _, _, _ => false
  | .node a sb eb ok kids, lvl, L =>
    (L == lvl && Tree.full S u (.node a sb eb ok kids) lvl) || Forest.cmem S u kids lvl 2 L
def Forest.cmem (S : PMsg → Bool) (u : String) : Forest → Level → Nat → Level → Bool
  | .nil, _, _, _ => false
  | .cons t rest, lvl, k, L => Tree.cmem S u t (lvl ++ [k]) L || Forest.cmem S u rest lvl (k+1) L
end

mutual
theorem Tree.cmem_prefix (S : PMsg → Bool) (u : String) (t : Tree) (lvl L : Level)
    (h : Tree.cmem S u t lvl L = true) : lvl <+: L := by
  cases t with
  | leaf b => simp [Tree.cmem] at h
  | node a sb eb ok kids =>
    simp only [Tree.cmem, Bool.or_eq_true, Bool.and_eq_true, beq_iff_eq] at h
    rcases h with ⟨h, _⟩ | h
    · subst h; exact List.prefix_refl _
    · obtain ⟨k, _, hp⟩ := Forest.cmem_prefix S u kids lvl 2 L h
      exact (List.prefix_append lvl [k]).trans hp
theorem Forest.cmem_prefix (S : PMsg → Bool) (u : String) (f : Forest) (lvl : Level) (k0 : Nat) (L : Level)
    (h : Forest.cmem S u f lvl k0 L = true) : ∃ k, k0 ≤ k ∧ (lvl ++ [k]) <+: L := by
  cases f with
  | nil => simp [Forest.cmem] at h
  | cons t rest =>
    simp only [Forest.cmem, Bool.or_eq_true] at h
    rcases h with h | h
    · exact ⟨k0, Nat.le_refl _, Tree.cmem_prefix S u t _ L h⟩
    · obtain ⟨k, hk, hp⟩ := Forest.cmem_prefix S u rest lvl (k0+1) L h
      exact ⟨k, by omega, hp⟩
end

theorem not_snoc_prefix_self (lvl : Level) (k : Nat) : ¬ (lvl ++ [k]) <+: lvl := by
  intro h
  have := h.length_le
  simp at this
  omega

theorem Forest.cmem_self_false (S : PMsg → Bool) (u : String) (f : Forest) (lvl : Level) (k0 : Nat) :
    Forest.cmem S u f lvl k0 lvl = false := by
  cases h : Forest.cmem S u f lvl k0 lvl with
  | false => rfl
  | true =>
    obtain ⟨k, _, hp⟩ := Forest.cmem_prefix S u f lvl k0 lvl h
    exact absurd hp (not_snoc_prefix_self lvl k)

theorem Tree.cmem_self (S : PMsg → Bool) (u : String) (a : String) (sb eb : Nat) (ok : Bool) (kids : Forest)
    (lvl : Level) :
    Tree.cmem S u (.node a sb eb ok kids) lvl lvl = Tree.full S u (.node a sb eb ok kids) lvl := by
  simp [Tree.cmem, Forest.cmem_self_false]

-- cmem of a forest at a level under child k is decided by child k alone
theorem Forest.cmem_at (S : PMsg → Bool) (u : String) (f : Forest) (lvl : Level) (k0 j : Nat) (t : Tree)
    (ht : f.get? j = some t) (L : Level) (hL : (lvl ++ [k0 + j]) <+: L) :
    Forest.cmem S u f lvl k0 L = Tree.cmem S u t (lvl ++ [k0 + j]) L := by
  cases f with
  | nil => simp [Forest.get?] at ht
  | cons t0 rest =>
    simp only [Forest.cmem]
    cases j with
    | zero =>
      simp only [Forest.get?, Option.some.injEq] at ht
      subst ht
      have : Forest.cmem S u rest lvl (k0+1) L = false := by
        cases h : Forest.cmem S u rest lvl (k0+1) L with
        | false => rfl
        | true =>
          obtain ⟨k, hk, hp⟩ := Forest.cmem_prefix S u rest lvl (k0+1) L h
          have := prefix_snoc_inj lvl k (k0 + 0) L hp hL
          omega
      simp [this]
    | succ j =>
      simp only [Forest.get?] at ht
      have h0 : Tree.cmem S u t0 (lvl ++ [k0]) L = false := by
        cases h : Tree.cmem S u t0 (lvl ++ [k0]) L with
        | false => rfl
        | true =>
          have hp := Tree.cmem_prefix S u t0 _ L h
          have := prefix_snoc_inj lvl k0 (k0 + (j+1)) L hp hL
          omega
      have ih := Forest.cmem_at S u rest lvl (k0+1) j t ht L (by rwa [show k0 + 1 + j = k0 + (j+1) by omega])
      rw [h0, ih, show k0 + 1 + j = k0 + (j+1) by omega]
      simp

-- monotonicity and congruence of `full` / `cmem`
mutual
theorem Tree.full_congr (S S' : PMsg → Bool) (u : String) (t : Tree) (lvl : Level)
    (h : ∀ m ∈ Tree.msgs u t lvl, S m = S' m) : Tree.full S u t lvl = Tree.full S' u t lvl := by
  cases t with
  | leaf b => simp [Tree.full, h (leafMsg u lvl b) (by simp [Tree.msgs])]
  | node a sb eb ok kids =>
    have hs := h (startMsg u lvl a sb) (by simp [Tree.msgs])
    have he := h (endMsg u lvl a eb ok (kids.len + 2)) (by simp [Tree.msgs])
    have hk := Forest.full_congr S S' u kids lvl 2 (fun m hm => h m (by simp [Tree.msgs, hm]))
    simp [Tree.full, hs, he, hk]
theorem Forest.full_congr (S S' : PMsg → Bool) (u : String) (f : Forest) (lvl : Level) (k : Nat)
    (h : ∀ m ∈ Forest.msgs u f lvl k, S m = S' m) : Forest.full S u f lvl k = Forest.full S' u f lvl k := by
  cases f with
  | nil => simp [Forest.full]
  | cons t rest =>
    have h1 := Tree.full_congr S S' u t (lvl ++ [k]) (fun m hm => h m (by simp [Forest.msgs, hm]))
    have h2 := Forest.full_congr S S' u rest lvl (k+1) (fun m hm => h m (by simp [Forest.msgs, hm]))
    simp [Forest.full, h1, h2]
end

mutual
theorem Tree.cmem_congr (S S' : PMsg → Bool) (u : String) (t : Tree) (lvl : Level) (L : Level)
    (h : ∀ m ∈ Tree.msgs u t lvl, S m = S' m) : Tree.cmem S u t lvl L = Tree.cmem S' u t lvl L := by
  cases t with
  | leaf b => simp [Tree.cmem]
  | node a sb eb ok kids =>
    have hf := Tree.full_congr S S' u (.node a sb eb ok kids) lvl h
    have hk := Forest.cmem_congr S S' u kids lvl 2 L (fun m hm => h m (by simp [Tree.msgs, hm]))
    simp [Tree.cmem, hf, hk]
theorem Forest.cmem_congr (S S' : PMsg → Bool) (u : String) (f : Forest) (lvl : Level) (k : Nat) (L : Level)
    (h : ∀ m ∈ Forest.msgs u f lvl k, S m = S' m) : Forest.cmem S u f lvl k L = Forest.cmem S' u f lvl k L := by
  cases f with
  | nil => simp [Forest.cmem]
  | cons t rest =>
    have h1 := Tree.cmem_congr S S' u t (lvl ++ [k]) L (fun m hm => h m (by simp [Forest.msgs, hm]))
    have h2 := Forest.cmem_congr S S' u rest lvl (k+1) L (fun m hm => h m (by simp [Forest.msgs, hm]))
    simp [Forest.cmem, h1, h2]
end

mutual
theorem Tree.full_mono (S : PMsg → Bool) (m : PMsg) (u : String) (t : Tree) (lvl : Level)
    (h : Tree.full S u t lvl = true) : Tree.full (ext S m) u t lvl = true := by
  cases t with
  | leaf b => simp_all [Tree.full, ext]
  | node a sb eb ok kids =>
    simp only [Tree.full, Bool.and_eq_true] at h ⊢
    exact ⟨⟨by simp [ext, h.1.1], by simp [ext, h.1.2]⟩, Forest.full_mono S m u kids lvl 2 h.2⟩
theorem Forest.full_mono (S : PMsg → Bool) (m : PMsg) (u : String) (f : Forest) (lvl : Level) (k : Nat)
    (h : Forest.full S u f lvl k = true) : Forest.full (ext S m) u f lvl k = true := by
  cases f with
  | nil => simp [Forest.full]
  | cons t rest =>
    simp only [Forest.full, Bool.and_eq_true] at h ⊢
    exact ⟨Tree.full_mono S m u t _ h.1, Forest.full_mono S m u rest lvl (k+1) h.2⟩
end

mutual
theorem Tree.cmem_mono (S : PMsg → Bool) (m : PMsg) (u : String) (t : Tree) (lvl L : Level)
    (h : Tree.cmem S u t lvl L = true) : Tree.cmem (ext S m) u t lvl L = true := by
  cases t with
  | leaf b => simp [Tree.cmem] at h
  | node a sb eb ok kids =>
    simp only [Tree.cmem, Bool.or_eq_true, Bool.and_eq_true] at h ⊢
    rcases h with ⟨h1, h2⟩ | h
    · exact Or.inl ⟨h1, Tree.full_mono S m u _ lvl h2⟩
    · exact Or.inr (Forest.cmem_mono S m u kids lvl 2 L h)
theorem Forest.cmem_mono (S : PMsg → Bool) (m : PMsg) (u : String) (f : Forest) (lvl : Level) (k : Nat) (L : Level)
    (h : Forest.cmem S u f lvl k L = true) : Forest.cmem (ext S m) u f lvl k L = true := by
  cases f with
  | nil => simp [Forest.cmem] at h
  | cons t rest =>
    simp only [Forest.cmem, Bool.or_eq_true] at h ⊢
    rcases h with h | h
    · exact Or.inl (Tree.cmem_mono S m u t _ L h)
    · exact Or.inr (Forest.cmem_mono S m u rest lvl (k+1) L h)
end

-- a subtree that still misses a message is not full
mutual
theorem Tree.not_full_of_missing (S : PMsg → Bool) (u : String) (t : Tree) (lvl : Level) (m : PMsg)
    (hm : m ∈ Tree.msgs u t lvl) (hS : S m = false) : Tree.full S u t lvl = false := by
  cases t with
  | leaf b =>
    simp only [Tree.msgs, List.mem_cons, List.not_mem_nil, or_false] at hm
    subst hm; simp [Tree.full, hS]
  | node a sb eb ok kids =>
    simp only [Tree.msgs, List.mem_cons, List.mem_append, List.not_mem_nil, or_false] at hm
    simp only [Tree.full]
    rcases hm with h | h | h
    · subst h; simp [hS]
    · simp [Forest.not_full_of_missing S u kids lvl 2 m h hS]
    · subst h; simp [hS]
theorem Forest.not_full_of_missing (S : PMsg → Bool) (u : String) (f : Forest) (lvl : Level) (k : Nat) (m : PMsg)
    (hm : m ∈ Forest.msgs u f lvl k) (hS : S m = false) : Forest.full S u f lvl k = false := by
  cases f with
  | nil => simp [Forest.msgs] at hm
  | cons t rest =>
    simp only [Forest.msgs, List.mem_append] at hm
    simp only [Forest.full]
    rcases hm with h | h
    · simp [Tree.not_full_of_missing S u t _ m h hS]
    · simp [Forest.not_full_of_missing S u rest lvl (k+1) m h hS]
end

def Cok (S : PMsg → Bool) (u : String) (t : Tree) (lvl : Level) (c : List Level) : Prop :=
  ∀ L, lvl <+: L → c.contains L = Tree.cmem S u t lvl L

def CokF (S : PMsg → Bool) (u : String) (f : Forest) (lvl : Level) (k0 : Nat) (c : List Level) : Prop :=
  ∀ k, k0 ≤ k → ∀ L, (lvl ++ [k]) <+: L → c.contains L = Forest.cmem S u f lvl k0 L

theorem snoc_ne_self (lvl : Level) (k : Nat) : (lvl ++ [k] == lvl) = false := by
  cases h : (lvl ++ [k] == lvl) with
  | false => rfl
  | true =>
    have := congrArg List.length (beq_iff_eq.mp h)
    simp at this

theorem kidsOK_of (S : PMsg → Bool) (u : String) (C : List Level) (kids : Forest) (lvl : Level) (k0 : Nat)
    (h : ∀ j t, kids.get? j = some t → t.isNode = true →
      C.contains (lvl ++ [k0 + j]) = Forest.cmem S u kids lvl k0 (lvl ++ [k0 + j])) :
    KidsOK S u C kids lvl k0 := by
  intro j t hj hn
  rw [h j t hj hn, Forest.cmem_at S u kids lvl k0 j t hj _ (List.prefix_refl _)]
  cases t with
  | leaf b => simp [Tree.isNode] at hn
  | node a sb eb ok kids' => exact Tree.cmem_self S u a sb eb ok kids' _

theorem completeNow_eq (S : PMsg → Bool) (u : String) (C : List Level) (a : String) (sb eb : Nat) (ok : Bool)
    (kids : Forest) (lvl : Level) (hC : KidsOK S u C kids lvl 2) :
    ((Tree.view S u (.node a sb eb ok kids) lvl).getD emptyAct).completeNow C lvl
      = Tree.full S u (.node a sb eb ok kids) lvl := by
  rw [view_node_getD]
  have hf := Forest.full_iff S u C kids lvl 2 hC
  simp only [Tree.full, pick]
  cases hs : S (startMsg u lvl a sb) <;> cases he : S (endMsg u lvl a eb ok (kids.len + 2)) <;>
    simp [Node.completeNow, endMsg, ← hf]

-- Cok for the tree gives the forest-level hypothesis
theorem Cok.toF {S : PMsg → Bool} {u : String} {a : String} {sb eb : Nat} {ok : Bool} {kids : Forest}
    {lvl : Level} {c : List Level} (hc : Cok S u (.node a sb eb ok kids) lvl c) : CokF S u kids lvl 2 c := by
  intro k _ L hL
  have hp : lvl <+: L := (List.prefix_append lvl [k]).trans hL
  rw [hc L hp]
  have hne : (L == lvl) = false := by
    cases h : (L == lvl) with
    | false => rfl
    | true =>
      rw [beq_iff_eq.mp h] at hL
      exact absurd hL (not_snoc_prefix_self lvl k)
  simp [Tree.cmem, hne]

theorem contains_append' (l l' : List Level) (x : Level) :
    (l ++ l').contains x = (l.contains x || l'.contains x) := by
  simp [List.contains_eq_mem, List.mem_append]

-- result shape for the node case
theorem tree_newC_spec (S : PMsg → Bool) (u : String) (a : String) (sb eb : Nat) (ok : Bool) (kids : Forest)
    (lvl : Level) (m : PMsg) (hm : m ∈ Tree.msgs u (.node a sb eb ok kids) lvl) (hS : S m = false)
    (newC : List Level)
    (hnew : ∀ L, newC.contains L = (Forest.cmem (ext S m) u kids lvl 2 L && !Forest.cmem S u kids lvl 2 L))
    (L : Level) :
    ((if Tree.full (ext S m) u (.node a sb eb ok kids) lvl then newC ++ [lvl] else newC).contains L)
      = (Tree.cmem (ext S m) u (.node a sb eb ok kids) lvl L && !Tree.cmem S u (.node a sb eb ok kids) lvl L) := by
  have hnf := Tree.not_full_of_missing S u (.node a sb eb ok kids) lvl m hm hS
  simp only [Tree.cmem, hnf, Bool.and_false, Bool.false_or]
  by_cases hL : L = lvl
  · subst hL
    have h1 := Forest.cmem_self_false (ext S m) u kids L 2
    have h2 := Forest.cmem_self_false S u kids L 2
    have h3 := hnew L
    simp only [h1, h2, Bool.false_and] at h3
    cases hf : Tree.full (ext S m) u (.node a sb eb ok kids) L
    · simp only [Bool.false_eq_true, ↓reduceIte, h3]; simp [h1]
    · simp only [↓reduceIte]; rw [contains_append', h3]; simp [h1, h2]
  · have hb : (L == lvl) = false := by simp [hL]
    have hsing : ([lvl] : List Level).contains L = false := by simp [hL]
    cases hf : Tree.full (ext S m) u (.node a sb eb ok kids) lvl
    · simp only [Bool.false_eq_true, ↓reduceIte]; rw [hnew L]; simp [hb]
    · simp only [↓reduceIte]; rw [contains_append', hnew L, hsing]; simp [hb]

-- Forest-level facts when the new message is not inside the forest at all (start / end of the parent)
theorem forest_unchanged (S : PMsg → Bool) (u : String) (kids : Forest) (lvl : Level) (m : PMsg)
    (hout : ∀ m' ∈ Forest.msgs u kids lvl 2, m' ≠ m) (L : Level) :
    Forest.cmem (ext S m) u kids lvl 2 L = Forest.cmem S u kids lvl 2 L :=
  Forest.cmem_congr _ _ u kids lvl 2 L (fun m' hm' => ext_of_ne S m m' (hout m' hm'))

theorem base_case (S : PMsg → Bool) (u : String) (a : String) (sb eb : Nat) (ok : Bool) (kids : Forest)
    (lvl : Level) (m : PMsg) (hm : m ∈ Tree.msgs u (.node a sb eb ok kids) lvl) (hS : S m = false)
    (c : List Level) (hc : Cok S u (.node a sb eb ok kids) lvl c)
    (hp : relPath lvl m = [])
    (hcm : ∀ L, Forest.cmem (ext S m) u kids lvl 2 L = Forest.cmem S u kids lvl 2 L) :
    ∃ newC, Node.addAt c lvl (relPath lvl m) (opOf m) ((Tree.view S u (.node a sb eb ok kids) lvl).getD emptyAct)
        = .ok ((Tree.view (ext S m) u (.node a sb eb ok kids) lvl).getD emptyAct, newC)
      ∧ ∀ L, newC.contains L =
          (Tree.cmem (ext S m) u (.node a sb eb ok kids) lvl L && !Tree.cmem S u (.node a sb eb ok kids) lvl L) := by
  have hstep := Tree.step S u a sb eb ok kids lvl m hm hS
  rw [hp] at hstep ⊢
  simp only [Node.updE] at hstep
  have hK : KidsOK (ext S m) u c kids lvl 2 := kidsOK_of _ u c kids lvl 2 (fun j t hj hn => by
    rw [hc.toF (2 + j) (by omega) _ (List.prefix_refl _), hcm])
  have hcn := completeNow_eq (ext S m) u c a sb eb ok kids lvl hK
  refine ⟨if Tree.full (ext S m) u (.node a sb eb ok kids) lvl then [] ++ [lvl] else [], ?_, ?_⟩
  · simp only [Node.addAt, hstep]
    show Except.ok (_, _) = _
    rw [hcn]
    rfl
  · intro L
    exact tree_newC_spec S u a sb eb ok kids lvl m hm hS [] (fun L => by simp [hcm L]) L

theorem cmem_disj (S1 S2 : PMsg → Bool) (u : String) (t : Tree) (rest : Forest) (lvl : Level) (k0 : Nat) (L : Level)
    (h1 : Tree.cmem S1 u t (lvl ++ [k0]) L = true) (h2 : Forest.cmem S2 u rest lvl (k0+1) L = true) : False := by
  have hp := Tree.cmem_prefix S1 u t _ L h1
  obtain ⟨k, hk, hp2⟩ := Forest.cmem_prefix S2 u rest lvl (k0+1) L h2
  have := prefix_snoc_inj lvl k0 k L hp hp2
  omega

mutual
theorem Tree.stepC (S : PMsg → Bool) (u : String) (a : String) (sb eb : Nat) (ok : Bool) (kids : Forest)
    (lvl : Level) (m : PMsg) (hm : m ∈ Tree.msgs u (.node a sb eb ok kids) lvl) (hS : S m = false)
    (c : List Level) (hc : Cok S u (.node a sb eb ok kids) lvl c) :
    ∃ newC, Node.addAt c lvl (relPath lvl m) (opOf m) ((Tree.view S u (.node a sb eb ok kids) lvl).getD emptyAct)
        = .ok ((Tree.view (ext S m) u (.node a sb eb ok kids) lvl).getD emptyAct, newC)
      ∧ ∀ L, newC.contains L =
          (Tree.cmem (ext S m) u (.node a sb eb ok kids) lvl L && !Tree.cmem S u (.node a sb eb ok kids) lvl L) := by
  have hm' := hm
  simp only [Tree.msgs, List.mem_cons, List.mem_append, List.not_mem_nil, or_false] at hm'
  rcases hm' with h | h | h
  · -- start
    refine base_case S u a sb eb ok kids lvl m hm hS c hc (by rw [h]; simp [relPath, startMsg])
      (fun L => Forest.cmem_congr _ _ u kids lvl 2 L (fun m' hm' => ext_of_ne S m m' ?_))
    obtain ⟨k, hk2, hp⟩ := Forest.msgs_prefix u kids lvl 2 m' hm'
    rw [h]
    exact ne_of_prefix lvl k 1 m' _ hp (by simp [startMsg]) (by omega)
  · -- children
    rcases Forest.stepC S u kids lvl 2 m h hS c hc.toF with
      ⟨k, _, hp, _, _, hcm⟩ | ⟨k, child', newC, hk, hp, hadd, hset, hnew⟩
    · exact base_case S u a sb eb ok kids lvl m hm hS c hc hp hcm
    · have hfst := Node.addAt_fst c lvl (relPath lvl m) (opOf m)
        ((Tree.view S u (.node a sb eb ok kids) lvl).getD emptyAct)
      rw [Tree.step S u a sb eb ok kids lvl m hm hS] at hfst
      have hK : KidsOK (ext S m) u (newC ++ c) kids lvl 2 := kidsOK_of _ u _ kids lvl 2 (fun j t hj hn => by
        rw [contains_append', hnew, hc.toF (2 + j) (by omega) _ (List.prefix_refl _)]
        cases h1 : Forest.cmem S u kids lvl 2 (lvl ++ [2 + j]) with
        | false => simp
        | true => simp [Forest.cmem_mono S m u kids lvl 2 _ h1])
      have hcn := completeNow_eq (ext S m) u (newC ++ c) a sb eb ok kids lvl hK
      refine ⟨if Tree.full (ext S m) u (.node a sb eb ok kids) lvl then newC ++ [lvl] else newC, ?_,
        tree_newC_spec S u a sb eb ok kids lvl m hm hS newC hnew⟩
      rw [hp, view_node_getD] at hfst ⊢
      simp only [Node.addAt, hadd] at hfst ⊢
      have hn' : Node.act (pick S (startMsg u lvl a sb)) (pick S (endMsg u lvl a eb ok (kids.len + 2)))
          (Kids.set k child' (Forest.view S u kids lvl 2))
          = (Tree.view (ext S m) u (.node a sb eb ok kids) lvl).getD emptyAct := by
        have : Except.ok (Node.act (pick S (startMsg u lvl a sb)) (pick S (endMsg u lvl a eb ok (kids.len + 2)))
          (Kids.set k child' (Forest.view S u kids lvl 2))) = Except.ok ((Tree.view (ext S m) u (.node a sb eb ok kids) lvl).getD emptyAct) := hfst
        exact Except.ok.inj this
      show Except.ok (_, _) = _
      rw [hn', hcn]
  · -- end
    refine base_case S u a sb eb ok kids lvl m hm hS c hc (by rw [h]; simp [relPath, endMsg])
      (fun L => Forest.cmem_congr _ _ u kids lvl 2 L (fun m' hm' => ext_of_ne S m m' ?_))
    obtain ⟨k, hk2, hk3, hp⟩ := Forest.msgs_prefix_lt u kids lvl 2 m' hm'
    rw [h]
    exact ne_of_prefix lvl k (kids.len + 2) m' _ hp (by simp [endMsg]) (by omega)
theorem Forest.stepC (S : PMsg → Bool) (u : String) (f : Forest) (lvl : Level) (k0 : Nat) (m : PMsg)
    (hm : m ∈ Forest.msgs u f lvl k0) (hS : S m = false) (c : List Level) (hc : CokF S u f lvl k0 c) :
    (∃ k, k0 ≤ k ∧ relPath lvl m = [] ∧ opOf m = .addMsg k m ∧
        (Forest.view S u f lvl k0).set k (.msg m) = Forest.view (ext S m) u f lvl k0 ∧
        (∀ L, Forest.cmem (ext S m) u f lvl k0 L = Forest.cmem S u f lvl k0 L))
    ∨ (∃ k child' newC, k0 ≤ k ∧ relPath lvl m = k :: relPath (lvl ++ [k]) m ∧
        Node.addAt c (lvl ++ [k]) (relPath (lvl ++ [k]) m) (opOf m)
          (((Forest.view S u f lvl k0).get? k).getD emptyAct) = .ok (child', newC) ∧
        (Forest.view S u f lvl k0).set k child' = Forest.view (ext S m) u f lvl k0 ∧
        (∀ L, newC.contains L = (Forest.cmem (ext S m) u f lvl k0 L && !Forest.cmem S u f lvl k0 L))) := by
  cases f with
  | nil => simp [Forest.msgs] at hm
  | cons t rest =>
    simp only [Forest.msgs, List.mem_append] at hm
    rcases hm with h | h
    · -- m lives in the first child
      have hpre0 : (lvl ++ [k0]) <+: m.level := Tree.msgs_prefix u t _ m h
      have hother : ∀ j, j ≠ k0 - k0 → ∀ t', (Forest.cons t rest).get? j = some t' →
          Tree.view (ext S m) u t' (lvl ++ [k0 + j]) = Tree.view S u t' (lvl ++ [k0 + j]) :=
        fun j hj t' _ => Forest.step_congr_other S u t' lvl k0 (k0 + j) m hpre0 (by omega)
      have hrest : ∀ L, Forest.cmem (ext S m) u rest lvl (k0+1) L = Forest.cmem S u rest lvl (k0+1) L :=
        fun L => Forest.cmem_congr _ _ u rest lvl (k0+1) L (fun m' hm' => by
          obtain ⟨k, hk, hp⟩ := Forest.msgs_prefix u rest lvl (k0+1) m' hm'
          exact ext_of_ne S m m' (ne_of_prefix lvl k k0 m' m hp hpre0 (by omega)))
      cases t with
      | leaf b =>
        simp only [Tree.msgs, List.mem_cons, List.not_mem_nil, or_false] at h
        subst h
        refine Or.inl ⟨k0, Nat.le_refl _, by simp [relPath, leafMsg], by simp [opOf, leafMsg], ?_, ?_⟩
        · exact Forest.view_set S _ u _ lvl k0 k0 (Nat.le_refl _) (.leaf b) (by simp [Forest.get?]) _
            (by simp [Tree.view, pick, ext_self]) hother
        · intro L; simp [Forest.cmem, Tree.cmem, hrest L]
      | node a sb eb ok kids =>
        obtain ⟨j, r, hshape⟩ := Tree.msgs_node_shape u a sb eb ok kids (lvl ++ [k0]) m h
        have hcT : Cok S u (.node a sb eb ok kids) (lvl ++ [k0]) c := fun L hL => by
          rw [hc k0 (Nat.le_refl _) L hL]
          have := Forest.cmem_at S u (.cons (.node a sb eb ok kids) rest) lvl k0 0 (.node a sb eb ok kids)
            (by simp [Forest.get?]) L (by simpa using hL)
          simpa using this
        obtain ⟨newC, hadd, hnew⟩ := Tree.stepC S u a sb eb ok kids (lvl ++ [k0]) m h hS c hcT
        have hsome := Tree.view_some_of_mem (ext S m) u (.node a sb eb ok kids) (lvl ++ [k0]) m h (ext_self S m)
        refine Or.inr ⟨k0, (Tree.view (ext S m) u (.node a sb eb ok kids) (lvl ++ [k0])).getD emptyAct, newC,
          Nat.le_refl _, relPath_cons lvl k0 j r m hshape, ?_, ?_, ?_⟩
        · rw [Forest.view_get?]
          simpa [Forest.get?] using hadd
        · exact Forest.view_set S _ u _ lvl k0 k0 (Nat.le_refl _) _ (by simp [Forest.get?]) _
            (some_getD_of_isSome _ _ hsome) hother
        · intro L
          rw [hnew L]
          simp only [Forest.cmem, hrest L]
          cases hR : Forest.cmem S u rest lvl (k0+1) L with
          | false => simp
          | true =>
            have h1 : Tree.cmem (ext S m) u (.node a sb eb ok kids) (lvl ++ [k0]) L = false := by
              cases hh : Tree.cmem (ext S m) u (.node a sb eb ok kids) (lvl ++ [k0]) L with
              | false => rfl
              | true => exact (cmem_disj _ S u _ rest lvl k0 L hh hR).elim
            simp [h1]
    · -- m lives further right
      obtain ⟨k', hk'1, hpre⟩ := Forest.msgs_prefix u rest lvl (k0+1) m h
      have hv : Tree.view (ext S m) u t (lvl ++ [k0]) = Tree.view S u t (lvl ++ [k0]) :=
        Forest.step_congr_other S u t lvl k' k0 m hpre (by omega)
      have hT : ∀ L, Tree.cmem (ext S m) u t (lvl ++ [k0]) L = Tree.cmem S u t (lvl ++ [k0]) L :=
        fun L => Tree.cmem_congr _ _ u t _ L (fun m' hm' =>
          ext_of_ne S m m' (ne_of_prefix lvl k0 k' m' m (Tree.msgs_prefix u t _ m' hm') hpre (by omega)))
      have hcR : CokF S u rest lvl (k0+1) c := fun k hk L hL => by
        rw [hc k (by omega) L hL]
        have h0 : Tree.cmem S u t (lvl ++ [k0]) L = false := by
          cases hh : Tree.cmem S u t (lvl ++ [k0]) L with
          | false => rfl
          | true =>
            have := prefix_snoc_inj lvl k0 k L (Tree.cmem_prefix S u t _ L hh) hL
            omega
        simp [Forest.cmem, h0]
      rcases Forest.stepC S u rest lvl (k0+1) m h hS c hcR with
        ⟨k, hk, hp, ho, hset, hcm⟩ | ⟨k, child', newC, hk, hp, hadd, hset, hnew⟩
      · refine Or.inl ⟨k, by omega, hp, ho, ?_, ?_⟩
        · simp only [Forest.view, hv]
          cases hv' : Tree.view S u t (lvl ++ [k0]) with
          | some n =>
            have h1 : ¬ k < k0 := by omega
            have h2 : k ≠ k0 := by omega
            simp [Kids.set, h1, h2, hset]
          | none => simpa using hset
        · intro L; simp [Forest.cmem, hT L, hcm L]
      · refine Or.inr ⟨k, child', newC, by omega, hp, ?_, ?_, ?_⟩
        · simp only [Forest.view]
          cases hv' : Tree.view S u t (lvl ++ [k0]) with
          | some n =>
            have h1 : ¬ k < k0 := by omega
            have h2 : k ≠ k0 := by omega
            simpa [Kids.get?, h1, h2] using hadd
          | none => simpa using hadd
        · simp only [Forest.view, hv]
          cases hv' : Tree.view S u t (lvl ++ [k0]) with
          | some n =>
            have h1 : ¬ k < k0 := by omega
            have h2 : k ≠ k0 := by omega
            simp [Kids.set, h1, h2, hset]
          | none => simpa using hset
        · intro L
          rw [hnew L]
          simp only [Forest.cmem, hT L]
          cases hTL : Tree.cmem S u t (lvl ++ [k0]) L with
          | false => simp
          | true =>
            have h1 : Forest.cmem (ext S m) u rest lvl (k0+1) L = false := by
              cases hh : Forest.cmem (ext S m) u rest lvl (k0+1) L with
              | false => rfl
              | true => exact (cmem_disj S _ u t rest lvl k0 L hTL hh).elim
            simp [h1]
end



end PM
