import Eliot.Proofs.JsonCodec

/-! Whatever `encodeU` emits is valid JSON: it decodes, to the value in which the non-finite floats
(which orjson prints as `null`) have been replaced by `null`.  No Mathlib. -/
namespace EJ

mutual
/-- the value `json.loads` gives back: NaN / inf / -inf have become null -/
def nullify : JVal → JVal
  | .null => .null
  | .bool b => .bool b
  | .int i => .int i
  | .num tok => if isNonFinite tok then .null else .num tok
  | .str s => .str s
  | .arr xs => .arr (nullifyList xs)
  | .obj kvs => .obj (nullifyMembers kvs)
def nullifyList : List JVal → List JVal
  | [] => []
  | x :: xs => nullify x :: nullifyList xs
def nullifyMembers : List (List Nat × JVal) → List (List Nat × JVal)
  | [] => []
  | (k, v) :: kvs => (k, nullify v) :: nullifyMembers kvs
end

mutual
theorem encodeU_nullify : ∀ (v : JVal) (s : List Nat), encodeU v = .ok s →
    encodeU (nullify v) = .ok s
  | .null, _, h => by simp only [nullify]; exact h
  | .bool _, _, h => by simp only [nullify]; exact h
  | .int _, _, h => by simp only [nullify]; exact h
  | .num tok, s, h => by
    by_cases hf : isNonFinite tok = true
    · simp only [encodeU, hf, if_true] at h
      simp only [nullify, hf, if_true, encodeU]
      exact h
    · have hf' : isNonFinite tok = false := by simpa using hf
      simp only [nullify, hf', Bool.false_eq_true, if_false]
      exact h
  | .str _, _, h => by simp only [nullify]; exact h
  | .arr [], _, h => by simp only [nullify, nullifyList]; exact h
  | .arr (x :: xs), s, h => by
    simp only [encodeU] at h
    cases hx : encodeU x with
    | error e => simp [hx] at h
    | ok a =>
      cases hxs : encTail xs with
      | error e => simp [hx, hxs] at h
      | ok b =>
        simp only [hx, hxs] at h
        simp only [nullify, nullifyList, encodeU, encodeU_nullify x a hx, encTail_nullify xs b hxs]
        exact h
  | .obj [], _, h => by simp only [nullify, nullifyMembers]; exact h
  | .obj ((k, v) :: kvs), s, h => by
    simp only [encodeU] at h
    cases hk : encStrE k with
    | error e => simp [hk] at h
    | ok a =>
      cases hv : encodeU v with
      | error e => simp [hk, hv] at h
      | ok b =>
        cases hm : encMembers kvs with
        | error e => simp [hk, hv, hm] at h
        | ok c' =>
          simp only [hk, hv, hm] at h
          simp only [nullify, nullifyMembers, encodeU, hk, encodeU_nullify v b hv,
            encMembers_nullify kvs c' hm]
          exact h
theorem encTail_nullify : ∀ (xs : List JVal) (s : List Nat), encTail xs = .ok s →
    encTail (nullifyList xs) = .ok s
  | [], _, h => by simp only [nullifyList]; exact h
  | x :: xs, s, h => by
    simp only [encTail] at h
    cases hx : encodeU x with
    | error e => simp [hx] at h
    | ok a =>
      cases hxs : encTail xs with
      | error e => simp [hx, hxs] at h
      | ok b =>
        simp only [hx, hxs] at h
        simp only [nullifyList, encTail, encodeU_nullify x a hx, encTail_nullify xs b hxs]
        exact h
theorem encMembers_nullify : ∀ (kvs : List (List Nat × JVal)) (s : List Nat),
    encMembers kvs = .ok s → encMembers (nullifyMembers kvs) = .ok s
  | [], _, h => by simp only [nullifyMembers]; exact h
  | (k, v) :: kvs, s, h => by
    simp only [encMembers] at h
    cases hk : encStrE k with
    | error e => simp [hk] at h
    | ok a =>
      cases hv : encodeU v with
      | error e => simp [hk, hv] at h
      | ok b =>
        cases hm : encMembers kvs with
        | error e => simp [hk, hv, hm] at h
        | ok c' =>
          simp only [hk, hv, hm] at h
          simp only [nullifyMembers, encMembers, hk, encodeU_nullify v b hv,
            encMembers_nullify kvs c' hm]
          exact h
end

mutual
theorem finiteFloats_nullify : ∀ (v : JVal), FiniteFloats (nullify v)
  | .null => by simp only [nullify, FiniteFloats]
  | .bool _ => by simp only [nullify, FiniteFloats]
  | .int _ => by simp only [nullify, FiniteFloats]
  | .num tok => by
    by_cases hf : isNonFinite tok = true
    · simp only [nullify, hf, if_true, FiniteFloats]
    · have hf' : isNonFinite tok = false := by simpa using hf
      simp only [nullify, hf', Bool.false_eq_true, if_false]
      simp only [FiniteFloats]
      exact hf'
  | .str _ => by simp only [nullify, FiniteFloats]
  | .arr xs => by simp only [nullify, FiniteFloats]; exact finiteFloatsL_nullify xs
  | .obj kvs => by simp only [nullify, FiniteFloats]; exact finiteFloatsM_nullify kvs
theorem finiteFloatsL_nullify : ∀ (xs : List JVal), FiniteFloatsL (nullifyList xs)
  | [] => by simp only [nullifyList, FiniteFloatsL]
  | x :: xs => by
    simp only [nullifyList, FiniteFloatsL]
    exact ⟨finiteFloats_nullify x, finiteFloatsL_nullify xs⟩
theorem finiteFloatsM_nullify : ∀ (kvs : List (List Nat × JVal)),
    FiniteFloatsM (nullifyMembers kvs)
  | [] => by simp only [nullifyMembers, FiniteFloatsM]
  | (k, v) :: kvs => by
    simp only [nullifyMembers, FiniteFloatsM]
    exact ⟨finiteFloats_nullify v, finiteFloatsM_nullify kvs⟩
end

mutual
theorem depth_nullify : ∀ (v : JVal), (nullify v).depth = v.depth
  | .null => by simp only [nullify]
  | .bool _ => by simp only [nullify]
  | .int _ => by simp only [nullify]
  | .num tok => by
    by_cases hf : isNonFinite tok = true
    · simp only [nullify, hf, if_true, JVal.depth]
    · have hf' : isNonFinite tok = false := by simpa using hf
      simp only [nullify, hf', Bool.false_eq_true, if_false]
  | .str _ => by simp only [nullify]
  | .arr xs => by simp only [nullify, JVal.depth, depthList_nullify xs]
  | .obj kvs => by simp only [nullify, JVal.depth, depthMembers_nullify kvs]
theorem depthList_nullify : ∀ (xs : List JVal), depthList (nullifyList xs) = depthList xs
  | [] => by simp only [nullifyList]
  | x :: xs => by
    simp only [nullifyList, depthList, depth_nullify x, depthList_nullify xs]
theorem depthMembers_nullify : ∀ (kvs : List (List Nat × JVal)),
    depthMembers (nullifyMembers kvs) = depthMembers kvs
  | [] => by simp only [nullifyMembers]
  | (k, v) :: kvs => by
    simp only [nullifyMembers, depthMembers, depth_nullify v, depthMembers_nullify kvs]
end

/-- whatever the encoder emits is valid JSON: it decodes, to the value with non-finite floats
replaced by null -/
theorem decode_encodeU_valid (v : JVal) (s : List Nat) (h : encodeU v = .ok s) :
    decode s = some (nullify v) :=
  decode_encodeU_pairs (nullify v) s
    (native_of_encodeU _ _ (encodeU_nullify v s h) (finiteFloats_nullify v))
    (encodeU_nullify v s h)

end EJ
