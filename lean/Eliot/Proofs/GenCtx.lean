import Eliot.Conc.Gen
/-! Context privacy of wrapped generators: invariant, frame conditions, and the specification of
`resumeGen` proved by induction on the nesting fuel and on the body code. -/
namespace Gen

/-- no generator with index ≥ j owns Context `c` -/
def NotOwnedFrom (j : Nat) (w : World) (c : Nat) : Prop :=
  ∀ k g, j ≤ k → w.gens k = some g → g.wctx ≠ some c

/-- the tokens of the own entered actions, the ghost stack of own actions and the value of the
ContextVar in the private Context `c` fit together -/
def TokChain (c : Nat) (base : Option Nat) : List Nat → List Tok → Option Nat → Prop
  | [], [], v => v = base
  | a :: own, t :: toks, v => v = some a ∧ t.ctx = c ∧ TokChain c base own toks t.old
  | _, _, _ => False

theorem TokChain.expected {c v} {g : GSt} (h : Gen.TokChain c g.base g.own g.toks v) : v = expectedOf g := by
  unfold expectedOf
  cases ho : g.own <;> cases ht : g.toks <;> rw [ho, ht] at h <;> simp only [Gen.TokChain] at h
  · exact h
  · exact h.1

def GenOK (w : World) (g : GSt) : Prop :=
  g.wrapped = true ∧
  match g.wctx with
  | none => g.toks = [] ∧ g.own = [] ∧ g.ist = .unstarted
  | some c => c < w.nctx ∧ g.wst ≠ .unstarted ∧ g.ist ≠ .unstarted ∧ TokChain c g.base g.own g.toks (w.ctxs c)

structure InvFrom (j : Nat) (w : World) : Prop where
  ok : ∀ k g, j ≤ k → w.gens k = some g → GenOK w g
  distinct : ∀ k k' g g' c, j ≤ k → j ≤ k' → k ≠ k' → w.gens k = some g → w.gens k' = some g' →
    g.wctx = some c → g'.wctx ≠ some c

structure Good (w : World) : Prop where
  obs : ∀ o ∈ w.obs, o.seen = o.expected
  nrecs : ∀ r ∈ w.nrecs, r.after = r.before

structure Frame (j : Nat) (w w' : World) : Prop where
  cur_eq : w'.cur = w.cur
  nctx_le : w.nctx ≤ w'.nctx
  dtoks_eq : w'.dtoks = w.dtoks
  gens_lt : ∀ k, k < j → w'.gens k = w.gens k
  ctxs_eq : ∀ c, c < w.nctx → NotOwnedFrom j w c → w'.ctxs c = w.ctxs c
  wctx_new : ∀ k g' c, w'.gens k = some g' → g'.wctx = some c →
    (∃ g, w.gens k = some g ∧ g.wctx = some c) ∨ w.nctx ≤ c

/-- the two worlds agree on everything the invariants read -/
structure Core (w w' : World) : Prop where
  gens : w'.gens = w.gens
  ctxs : w'.ctxs = w.ctxs
  nctx : w'.nctx = w.nctx
  cur : w'.cur = w.cur
  dtoks : w'.dtoks = w.dtoks

theorem Core.refl (w : World) : Core w w := ⟨rfl, rfl, rfl, rfl, rfl⟩

theorem NotOwnedFrom.core {j w w' c} (h : NotOwnedFrom j w c) (hc : Core w w') : NotOwnedFrom j w' c := by
  intro k g hk hg; rw [hc.gens] at hg; exact h k g hk hg

theorem NotOwnedFrom.mono {j j' w c} (h : NotOwnedFrom j w c) (hj : j ≤ j') : NotOwnedFrom j' w c :=
  fun k g hk hg => h k g (Nat.le_trans hj hk) hg

theorem GenOK.core {w w' g} (h : GenOK w g) (hc : Core w w') : GenOK w' g := by
  unfold GenOK at *; rw [hc.nctx, hc.ctxs]; exact h

theorem InvFrom.core {j w w'} (h : InvFrom j w) (hc : Core w w') : InvFrom j w' := by
  constructor
  · intro k g hk hg; rw [hc.gens] at hg; exact (h.ok k g hk hg).core hc
  · intro k k' g g' c hk hk' hne hg hg'; rw [hc.gens] at hg hg'; exact h.distinct k k' g g' c hk hk' hne hg hg'

theorem InvFrom.mono {j j' w} (h : InvFrom j w) (hj : j ≤ j') : InvFrom j' w :=
  ⟨fun k g hk hg => h.ok k g (Nat.le_trans hj hk) hg,
   fun k k' g g' c hk hk' => h.distinct k k' g g' c (Nat.le_trans hj hk) (Nat.le_trans hj hk')⟩

theorem Frame.refl (j : Nat) (w : World) : Frame j w w :=
  ⟨rfl, Nat.le_refl _, rfl, fun _ _ => rfl, fun _ _ _ => rfl, fun _ g' _ hg hc => Or.inl ⟨g', hg, hc⟩⟩

theorem Frame.notOwned {j w w' c} (f : Frame j w w') (hc : c < w.nctx) (h : NotOwnedFrom j w c) :
    NotOwnedFrom j w' c := by
  intro k g' hk hg' hw
  rcases f.wctx_new k g' c hg' hw with ⟨g, hg, hgc⟩ | hge
  · exact h k g hk hg hgc
  · omega

theorem Frame.trans {j w w' w''} (f : Frame j w w') (f' : Frame j w' w'') : Frame j w w'' := by
  refine ⟨f'.cur_eq.trans f.cur_eq, Nat.le_trans f.nctx_le f'.nctx_le, f'.dtoks_eq.trans f.dtoks_eq,
    fun k hk => (f'.gens_lt k hk).trans (f.gens_lt k hk), ?_, ?_⟩
  · intro c hc hn
    rw [f'.ctxs_eq c (Nat.lt_of_lt_of_le hc f.nctx_le) (f.notOwned hc hn), f.ctxs_eq c hc hn]
  · intro k g'' c hg'' hw
    rcases f'.wctx_new k g'' c hg'' hw with ⟨g', hg', hgc⟩ | hge
    · exact f.wctx_new k g' c hg' hgc
    · exact Or.inr (Nat.le_trans f.nctx_le hge)

theorem Frame.mono {j j' w w'} (f : Frame j' w w') (hj : j ≤ j') : Frame j w w' :=
  ⟨f.cur_eq, f.nctx_le, f.dtoks_eq, fun k hk => f.gens_lt k (Nat.lt_of_lt_of_le hk hj),
   fun c hc hn => f.ctxs_eq c hc (hn.mono hj), f.wctx_new⟩

theorem Frame.core_right {j w w' w''} (f : Frame j w w') (hc : Core w' w'') : Frame j w w'' := by
  refine ⟨hc.cur.trans f.cur_eq, hc.nctx ▸ f.nctx_le, hc.dtoks.trans f.dtoks_eq, ?_, ?_, ?_⟩
  · intro k hk; rw [hc.gens]; exact f.gens_lt k hk
  · intro c h1 h2; rw [hc.ctxs]; exact f.ctxs_eq c h1 h2
  · intro k g' c hg; rw [hc.gens] at hg; exact f.wctx_new k g' c hg

/-- lifting: the callee's invariant for indices ≥ j plus its frame give back the caller's invariant -/
theorem InvFrom.lift {m j w w'} (h : InvFrom m w) (hmj : m ≤ j) (h' : InvFrom j w') (f : Frame j w w') :
    InvFrom m w' := by
  have own_lt : ∀ k g c, m ≤ k → w.gens k = some g → g.wctx = some c → c < w.nctx := by
    intro k g c hk hg hc
    have := (h.ok k g hk hg).2
    rw [hc] at this; exact this.1
  constructor
  · intro k g hk hg
    by_cases hkj : j ≤ k
    · exact h'.ok k g hkj hg
    · have hlt : k < j := Nat.lt_of_not_le hkj
      rw [f.gens_lt k hlt] at hg
      have hok := h.ok k g hk hg
      refine ⟨hok.1, ?_⟩
      have h2 := hok.2
      cases hc : g.wctx with
      | none => rw [hc] at h2; exact h2
      | some c =>
        rw [hc] at h2
        have hno : NotOwnedFrom j w c := by
          intro k' g' hk' hg' hc'
          exact h.distinct k k' g g' c hk (Nat.le_trans hmj hk') (by omega) hg hg' hc hc'
        simp only
        rw [f.ctxs_eq c h2.1 hno]
        exact ⟨Nat.lt_of_lt_of_le h2.1 f.nctx_le, h2.2.1, h2.2.2.1, h2.2.2.2⟩
  · intro k k' g g' c hk hk' hne hg hg' hc hc'
    by_cases hkj : j ≤ k <;> by_cases hkj' : j ≤ k'
    · exact h'.distinct k k' g g' c hkj hkj' hne hg hg' hc hc'
    · have hlt' : k' < j := Nat.lt_of_not_le hkj'
      rw [f.gens_lt k' hlt'] at hg'
      rcases f.wctx_new k g c hg hc with ⟨g0, hg0, hc0⟩ | hge
      · exact h.distinct k k' g0 g' c hk hk' hne hg0 hg' hc0 hc'
      · have := own_lt k' g' c hk' hg' hc'; omega
    · have hlt : k < j := Nat.lt_of_not_le hkj
      rw [f.gens_lt k hlt] at hg
      rcases f.wctx_new k' g' c hg' hc' with ⟨g0, hg0, hc0⟩ | hge
      · exact h.distinct k k' g g0 c hk hk' hne hg hg0 hc hc0
      · have := own_lt k g c hk hg hc; omega
    · have hlt : k < j := Nat.lt_of_not_le hkj
      have hlt' : k' < j := Nat.lt_of_not_le hkj'
      rw [f.gens_lt k hlt] at hg
      rw [f.gens_lt k' hlt'] at hg'
      exact h.distinct k k' g g' c hk hk' hne hg hg' hc hc'

/-! ### elementary world updates -/

theorem GenOK.setCtx {w g c v} (h : GenOK w g) (hc : g.wctx ≠ some c) : GenOK (w.setCtx c v) g := by
  unfold GenOK at *
  refine ⟨h.1, ?_⟩
  have h2 := h.2
  cases hw : g.wctx with
  | none => rw [hw] at h2; exact h2
  | some c' =>
    rw [hw] at h2
    have hne : c' ≠ c := by intro e; apply hc; rw [hw, e]
    simp only [World.setCtx, hne, if_false]
    exact h2

theorem InvFrom.setCtx {j w c v} (h : InvFrom j w) (hn : NotOwnedFrom j w c) : InvFrom j (w.setCtx c v) :=
  ⟨fun k g hk hg => (h.ok k g hk hg).setCtx (hn k g hk hg), h.distinct⟩

theorem NotOwnedFrom.setCtx {j w c c' v} (h : NotOwnedFrom j w c) : NotOwnedFrom j (w.setCtx c' v) c := h

theorem Frame.setCtx_right {i w0 w g0 c v} (f : Frame i w0 w) (hg : w.gens i = some g0) (hc : g0.wctx = some c) :
    Frame i w0 (w.setCtx c v) := by
  refine ⟨f.cur_eq, f.nctx_le, f.dtoks_eq, f.gens_lt, ?_, f.wctx_new⟩
  intro c' hlt hn
  have hne : c' ≠ c := by
    intro e
    rcases f.wctx_new i g0 c hg hc with ⟨g, hg', hc'⟩ | hge
    · exact hn i g (Nat.le_refl _) hg' (e ▸ hc')
    · omega
  simp only [World.setCtx, hne, if_false]
  exact f.ctxs_eq c' hlt hn

theorem GenOK.setGen {w g i g'} (h : GenOK w g) : GenOK (w.setGen i g') g := h

theorem InvFrom.setGen_lt {j w i g'} (h : InvFrom j w) (hi : i < j) : InvFrom j (w.setGen i g') := by
  constructor
  · intro k g hk hg
    have : k ≠ i := by omega
    simp only [World.setGen, this, if_false] at hg
    exact h.ok k g hk hg
  · intro k k' g g' c hk hk' hne hg hg'
    have h1 : k ≠ i := by omega
    have h2 : k' ≠ i := by omega
    simp only [World.setGen, h1, h2, if_false] at hg hg'
    exact h.distinct k k' g g' c hk hk' hne hg hg'

theorem NotOwnedFrom.setGen_lt {j w i g' c} (h : NotOwnedFrom j w c) (hi : i < j) : NotOwnedFrom j (w.setGen i g') c := by
  intro k g hk hg
  have : k ≠ i := by omega
  simp only [World.setGen, this, if_false] at hg
  exact h k g hk hg

theorem Frame.setGen_right {i w0 w g0 g'} (f : Frame i w0 w) (hg : w.gens i = some g0) (hc : g'.wctx = g0.wctx) :
    Frame i w0 (w.setGen i g') := by
  refine ⟨f.cur_eq, f.nctx_le, f.dtoks_eq, ?_, f.ctxs_eq, ?_⟩
  · intro k hk
    have : k ≠ i := by omega
    simp only [World.setGen, this, if_false]
    exact f.gens_lt k hk
  · intro k g'' c hg'' hw
    by_cases hk : k = i
    · subst hk
      simp only [World.setGen, if_true] at hg''
      have : g'' = g' := (Option.some.inj hg'').symm
      subst this
      exact f.wctx_new k g0 c hg (hc ▸ hw)
    · simp only [World.setGen, hk, if_false] at hg''
      exact f.wctx_new k g'' c hg'' hw

/-! ### the body loop -/

/-- specification of "resume generator j" as seen by a caller -/
def ResSpec (f : Inp → World → Out × World) (j : Nat) : Prop :=
  ∀ inp w, InvFrom j w → w.cur < w.nctx → NotOwnedFrom j w w.cur → Good w → w.pending = w.ctxs w.cur →
    InvFrom j (f inp w).2 ∧ Frame j w (f inp w).2 ∧ Good (f inp w).2

def ChildOK (child : Nat → Inp → World → Out × World) (i : Nat) : Prop :=
  ∀ j, (i < j ∧ ResSpec (child j) j) ∨ (∀ inp w, (child j inp w).2 = w)

structure BodyInv (i c : Nat) (w0 : World) (g : GSt) (w : World) : Prop where
  cur : w.cur = c
  lt : c < w.nctx
  wr : g.wrapped = true
  gw : g.wctx = some c
  tbl : ∃ g0, w.gens i = some g0 ∧ g0.wctx = some c
  inv : InvFrom (i+1) w
  no : NotOwnedFrom (i+1) w c
  chain : TokChain c g.base g.own g.toks (w.ctxs c)
  good : Good w
  fr : Frame i w0 w

def BodyPost (i c : Nat) (w0 : World) (wst ist : Status) (w' : World) : Prop :=
  ∃ g', w'.gens i = some g' ∧ g'.wctx = some c ∧ g'.wrapped = true ∧ g'.wst = wst ∧ g'.ist = ist ∧
    TokChain c g'.base g'.own g'.toks (w'.ctxs c) ∧ InvFrom (i+1) w' ∧ NotOwnedFrom (i+1) w' c ∧ Good w' ∧
    Frame i w0 w' ∧ c < w'.nctx ∧ w'.cur = c

theorem BodyInv.congr_g {i c w0 g g' w} (h : BodyInv i c w0 g w) (h1 : g'.wrapped = g.wrapped) (h2 : g'.wctx = g.wctx)
    (h3 : g'.base = g.base) (h4 : g'.own = g.own) (h5 : g'.toks = g.toks) : BodyInv i c w0 g' w :=
  ⟨h.cur, h.lt, h1 ▸ h.wr, h2 ▸ h.gw, h.tbl, h.inv, h.no, by rw [h3, h4, h5]; exact h.chain, h.good, h.fr⟩

theorem BodyInv.core {i c w0 g w w'} (h : BodyInv i c w0 g w) (hc : Core w w') (hg : Good w') : BodyInv i c w0 g w' :=
  ⟨hc.cur.trans h.cur, hc.nctx ▸ h.lt, h.wr, h.gw, by rw [hc.gens]; exact h.tbl, h.inv.core hc, h.no.core hc,
   by rw [hc.ctxs]; exact h.chain, hg, h.fr.core_right hc⟩

theorem BodyInv.finish {i c w0 g w} (h : BodyInv i c w0 g w) (code : List Instr) :
    BodyPost i c w0 g.wst g.ist (w.setGen i { g with code := code }) := by
  obtain ⟨g0, hg0, hc0⟩ := h.tbl
  refine ⟨{ g with code := code }, by simp [World.setGen], h.gw, h.wr, rfl, rfl, h.chain,
    h.inv.setGen_lt (Nat.lt_succ_self i), h.no.setGen_lt (Nat.lt_succ_self i), ⟨h.good.obs, h.good.nrecs⟩, ?_, h.lt, h.cur⟩
  exact h.fr.setGen_right hg0 (by rw [hc0]; exact h.gw)

theorem BodyInv.enter {i c w0 g w} (h : BodyInv i c w0 g w) (a : Nat) :
    BodyInv i c w0 { g with toks := ⟨w.cur, w.ctxs w.cur⟩ :: g.toks, own := a :: g.own } (w.setCtx w.cur (some a)) := by
  obtain ⟨g0, hg0, hc0⟩ := h.tbl
  have hcur := h.cur
  refine ⟨h.cur, h.lt, h.wr, h.gw, h.tbl, ?_, h.no, ?_, ⟨h.good.obs, h.good.nrecs⟩, ?_⟩
  · rw [hcur]; exact h.inv.setCtx h.no
  · simp only [TokChain, World.setCtx, hcur, if_true, true_and]
    exact h.chain
  · rw [hcur]; exact h.fr.setCtx_right hg0 hc0

theorem BodyInv.exit {i c w0 g w t ts} (h : BodyInv i c w0 g w) (ht : g.toks = t :: ts) :
    t.ctx = w.cur ∧ BodyInv i c w0 { g with toks := ts, own := g.own.tail } (w.setCtx w.cur t.old) := by
  obtain ⟨g0, hg0, hc0⟩ := h.tbl
  have hcur := h.cur
  have hch := h.chain
  rw [ht] at hch
  cases ho : g.own with
  | nil => rw [ho] at hch; simp only [TokChain] at hch
  | cons a own =>
    rw [ho] at hch
    simp only [TokChain] at hch
    refine ⟨by rw [hcur]; exact hch.2.1, h.cur, h.lt, h.wr, h.gw, h.tbl, ?_, h.no, ?_, ⟨h.good.obs, h.good.nrecs⟩, ?_⟩
    · rw [hcur]; exact h.inv.setCtx h.no
    · simp only [World.setCtx, hcur, if_true, List.tail_cons]
      exact hch.2.2
    · rw [hcur]; exact h.fr.setCtx_right hg0 hc0

theorem BodyInv.log {i c w0 g w} (h : BodyInv i c w0 g w) (m : Nat) :
    BodyInv i c w0 g { w with obs := ⟨i, m, w.ctxs w.cur, expectedOf g⟩ :: w.obs } := by
  refine h.core ⟨rfl, rfl, rfl, rfl, rfl⟩ ⟨?_, h.good.nrecs⟩
  intro o ho
  rcases List.mem_cons.mp ho with rfl | ho
  · show w.ctxs w.cur = expectedOf g
    rw [h.cur]
    exact h.chain.expected
  · exact h.good.obs o ho

theorem BodyInv.resume {child i c w0 g w} (hch : ChildOK child i) (h : BodyInv i c w0 g w) (j : Nat) (inp : Inp) :
    BodyInv i c w0 g
      { (child j inp { w with pending := w.ctxs w.cur }).2 with
        nrecs := ⟨i, j, w.ctxs w.cur,
          (child j inp { w with pending := w.ctxs w.cur }).2.ctxs (child j inp { w with pending := w.ctxs w.cur }).2.cur⟩ ::
          (child j inp { w with pending := w.ctxs w.cur }).2.nrecs } := by
  have hp : BodyInv i c w0 g { w with pending := w.ctxs w.cur } :=
    h.core ⟨rfl, rfl, rfl, rfl, rfl⟩ ⟨h.good.obs, h.good.nrecs⟩
  generalize hwp : ({ w with pending := w.ctxs w.cur } : World) = wp at hp
  have hpc : wp.ctxs wp.cur = w.ctxs w.cur := by rw [← hwp]
  have hpp : wp.pending = wp.ctxs wp.cur := by rw [← hwp]
  rw [← hpc]
  clear hwp hpc h
  rcases hch j with ⟨hij, spec⟩ | hsame
  · have hle : i + 1 ≤ j := hij
    obtain ⟨hinv, hfr, hgood⟩ := spec inp wp (hp.inv.mono hle) (hp.cur ▸ hp.lt) (hp.cur ▸ hp.no.mono hle) hp.good hpp
    generalize (child j inp wp).2 = w' at hinv hfr hgood
    have hcur : w'.cur = c := hfr.cur_eq.trans hp.cur
    have hctx : w'.ctxs c = wp.ctxs c := hfr.ctxs_eq c hp.lt (hp.no.mono hle)
    have hb : BodyInv i c w0 g w' :=
      ⟨hcur, Nat.lt_of_lt_of_le hp.lt hfr.nctx_le, hp.wr, hp.gw, by rw [hfr.gens_lt i hij]; exact hp.tbl,
       hp.inv.lift hle hinv hfr, (hfr.mono hle).notOwned hp.lt hp.no, by rw [hctx]; exact hp.chain, hgood,
       hp.fr.trans (hfr.mono (Nat.le_of_lt hij))⟩
    refine hb.core ⟨rfl, rfl, rfl, rfl, rfl⟩ ⟨hgood.obs, ?_⟩
    intro r hr
    rcases List.mem_cons.mp hr with rfl | hr
    · show w'.ctxs w'.cur = wp.ctxs wp.cur
      rw [hcur, hp.cur, hctx]
    · exact hgood.nrecs r hr
  · rw [hsame inp wp]
    refine hp.core ⟨rfl, rfl, rfl, rfl, rfl⟩ ⟨hp.good.obs, ?_⟩
    intro r hr
    rcases List.mem_cons.mp hr with rfl | hr
    · rfl
    · exact hp.good.nrecs r hr

theorem runCode_spec {child i c w0} (hch : ChildOK child i) :
    ∀ (code : List Instr) (mode : Mode) (g : GSt) (w : World), BodyInv i c w0 g w →
      BodyPost i c w0 g.wst g.ist (runCode child i code mode g w).2 := by
  intro code
  induction code with
  | nil =>
    intro mode g w h
    cases mode <;> exact h.finish []
  | cons ins rest ih =>
    intro mode g w h
    cases mode with
    | normal =>
      cases ins with
      | enter a => simp only [runCode]; exact ih _ _ _ (h.enter a)
      | exit =>
        simp only [runCode]
        cases ht : g.toks with
        | nil => simp only; exact ih _ _ _ h
        | cons t ts =>
          obtain ⟨h1, h2⟩ := h.exit ht
          simp only [h1, if_true]
          exact ih _ _ _ h2
      | wenter a => simp only [runCode]; exact ih _ _ _ (h.enter a)
      | wexit =>
        simp only [runCode]
        cases ht : g.toks with
        | nil => simp only; exact ih _ _ _ h
        | cons t ts =>
          obtain ⟨h1, h2⟩ := h.exit ht
          simp only [h1, if_true]
          exact ih _ _ _ h2
      | log m => simp only [runCode]; exact ih _ _ _ (h.log m)
      | yield v => simp only [runCode]; exact h.finish rest
      | yieldLast => simp only [runCode]; exact h.finish rest
      | ret v => simp only [runCode]; exact h.finish []
      | raise e => simp only [runCode]; exact ih _ _ _ h
      | try_ => simp only [runCode]; exact ih _ _ _ h
      | catch_ all => simp only [runCode]; exact ih _ _ _ h
      | endcatch => simp only [runCode]; exact ih _ _ _ h
      | resume j inp =>
        have hr := h.resume hch j inp
        simp only [runCode]
        rcases hc : child j inp { w with pending := w.ctxs w.cur } with ⟨o, w'⟩
        rw [hc] at hr
        cases o with
        | yielded v => exact ih _ _ _ (hr.congr_g rfl rfl rfl rfl rfl)
        | returned v => exact ih _ _ _ (hr.congr_g rfl rfl rfl rfl rfl)
        | raised e => exact ih _ _ _ hr
    | prop e d =>
      cases ins with
      | catch_ all =>
        simp only [runCode]
        split
        · split <;> exact ih _ _ _ h
        · exact ih _ _ _ h
      | wexit =>
        simp only [runCode]
        split
        · cases ht : g.toks with
          | nil => simp only; exact ih _ _ _ h
          | cons t ts =>
            obtain ⟨h1, h2⟩ := h.exit ht
            simp only [h1, if_true]
            exact ih _ _ _ h2
        · exact ih _ _ _ h
      | _ => simp only [runCode]; exact ih _ _ _ h
    | skip d =>
      cases ins with
      | endcatch =>
        simp only [runCode]
        split <;> exact ih _ _ _ h
      | _ => simp only [runCode]; exact ih _ _ _ h

/-! ### the generator protocol calls the body at most once -/

theorem proto_cases {S : Type} (body : BIn → S → Out × S) (st : Status) (inp : Inp) (s : S) :
    (∃ b, (b = .start → st = .unstarted ∧ inp = .send none) ∧ (b ≠ .start → st = .suspended) ∧
        (proto body st inp s).2 = (body b s).2 ∧ (proto body st inp s).1.1 ≠ .unstarted) ∨
    ((proto body st inp s).2 = s ∧ (st = .unstarted → inp ≠ .send none) ∧
      ((proto body st inp s).1.1 = .unstarted → st = .unstarted ∧ ∃ v, inp = .send (some v))) := by
  cases st with
  | finished => right; cases inp <;> simp [proto]
  | unstarted =>
    cases inp with
    | send v =>
      cases v with
      | some v => right; simp [proto]
      | none =>
        left; refine ⟨.start, fun _ => ⟨rfl, rfl⟩, fun h => absurd rfl h, ?_⟩
        simp only [proto]
        rcases body .start s with ⟨o, s'⟩
        cases o <;> simp [statusAfter]
    | throw e => right; simp [proto]
    | close => right; simp [proto]
  | suspended =>
    left
    cases inp with
    | send v =>
      refine ⟨.val v, (fun h => by cases h), fun _ => rfl, ?_⟩
      simp only [proto]
      rcases body (.val v) s with ⟨o, s'⟩
      cases o <;> simp [statusAfter]
    | throw e =>
      refine ⟨.exc e, (fun h => by cases h), fun _ => rfl, ?_⟩
      simp only [proto]
      rcases body (.exc e) s with ⟨o, s'⟩
      cases o <;> simp [statusAfter]
    | close =>
      refine ⟨.exc .genExit, (fun h => by cases h), fun _ => rfl, ?_⟩
      simp only [proto]
      rcases body (.exc .genExit) s with ⟨o, s'⟩
      cases o with
      | yielded v => simp
      | returned v => simp
      | raised e => cases e <;> simp

/-! ### inner generator object -/

structure PreInner (i c : Nat) (g : GSt) (w : World) : Prop where
  tbl : w.gens i = some g
  cur : w.cur = c
  lt : c < w.nctx
  wr : g.wrapped = true
  gw : g.wctx = some c
  inv : InvFrom (i+1) w
  no : NotOwnedFrom (i+1) w c
  good : Good w

theorem PreInner.bodyInv {i c g w} (p : PreInner i c g w) {g1 : GSt} (h1 : g1.wrapped = g.wrapped) (h2 : g1.wctx = g.wctx)
    (hch : TokChain c g1.base g1.own g1.toks (w.ctxs c)) : BodyInv i c w g1 w :=
  ⟨p.cur, p.lt, h1 ▸ p.wr, h2 ▸ p.gw, ⟨g, p.tbl, p.gw⟩, p.inv, p.no, hch, p.good, Frame.refl i w⟩

theorem innerBody_spec {child i c g w} (hch : ChildOK child i) (p : PreInner i c g w) (b : BIn)
    (hs : b = .start → g.toks = [] ∧ g.own = [] ∧ w.pending = w.ctxs w.cur)
    (hn : b ≠ .start → TokChain c g.base g.own g.toks (w.ctxs c)) :
    BodyPost i c w g.wst g.ist (innerBody child i b w).2 := by
  unfold innerBody
  rw [p.tbl]
  cases b with
  | start =>
    obtain ⟨ht, ho, hp⟩ := hs rfl
    have hb : BodyInv i c w { g with base := w.ctxs w.cur } w :=
      p.bodyInv (g1 := { g with base := w.ctxs w.cur }) rfl rfl (by simp only [ht, ho, TokChain, p.cur])
    have hb' : BodyInv i c w { g with base := w.ctxs w.cur } { w with obs := ⟨i, 0, w.ctxs w.cur, w.pending⟩ :: w.obs } := by
      refine hb.core ⟨rfl, rfl, rfl, rfl, rfl⟩ ⟨?_, p.good.nrecs⟩
      intro o hm
      rcases List.mem_cons.mp hm with rfl | hm
      · exact hp.symm
      · exact p.good.obs o hm
    exact runCode_spec hch _ _ _ _ hb'
  | val v =>
    have hb : BodyInv i c w { g with last := v } w := p.bodyInv rfl rfl (hn (by simp))
    exact runCode_spec hch _ _ _ _ hb
  | exc e =>
    have hb : BodyInv i c w g w := p.bodyInv rfl rfl (hn (by simp))
    exact runCode_spec hch _ _ _ _ hb

def InnerPost (i c : Nat) (w0 : World) (wst : Status) (w' : World) : Prop :=
  ∃ g', w'.gens i = some g' ∧ g'.wctx = some c ∧ g'.wrapped = true ∧ g'.wst = wst ∧ g'.ist ≠ .unstarted ∧
    TokChain c g'.base g'.own g'.toks (w'.ctxs c) ∧ InvFrom (i+1) w' ∧ NotOwnedFrom (i+1) w' c ∧ Good w' ∧
    Frame i w0 w' ∧ c < w'.nctx ∧ w'.cur = c

theorem innerResume_eq (child : Nat → Inp → World → Out × World) (i : Nat) (inp : Inp) (w : World) (g : GSt)
    (hg : w.gens i = some g) :
    innerResume child i inp w =
      match (proto (innerBody child i) g.ist inp w).2.gens i with
      | none => (.raised .badGen, (proto (innerBody child i) g.ist inp w).2)
      | some g' => ((proto (innerBody child i) g.ist inp w).1.2,
          (proto (innerBody child i) g.ist inp w).2.setGen i { g' with ist := (proto (innerBody child i) g.ist inp w).1.1 }) := by
  unfold innerResume
  rw [hg]
  simp only []
  generalize proto (innerBody child i) g.ist inp w = r
  obtain ⟨⟨st, o⟩, w'⟩ := r
  rfl

theorem innerResume_spec {child i c g w} (hch : ChildOK child i) (p : PreInner i c g w) (inp : Inp)
    (hs : g.ist = .unstarted → inp = .send none ∧ g.toks = [] ∧ g.own = [] ∧ w.pending = w.ctxs w.cur)
    (hn : g.ist ≠ .unstarted → TokChain c g.base g.own g.toks (w.ctxs c)) :
    InnerPost i c w g.wst (innerResume child i inp w).2 := by
  rw [innerResume_eq child i inp w g p.tbl]
  rcases proto_cases (innerBody child i) g.ist inp w with ⟨b, hb1, hb2, hw, hst⟩ | ⟨hw, hex, hst⟩
  · have hpost := innerBody_spec hch p b (fun h => (hs (hb1 h).1).2)
      (fun h => hn (by rw [hb2 h]; simp))
    rw [← hw] at hpost
    generalize proto (innerBody child i) g.ist inp w = r at hpost hst
    obtain ⟨g', hg', h1, h2, h3, _, h5, h6, h7, h8, h9, h10, h11⟩ := hpost
    rw [hg']
    refine ⟨{ g' with ist := r.1.1 }, by simp [World.setGen], h1, h2, h3, hst, h5,
      h6.setGen_lt (Nat.lt_succ_self i), h7.setGen_lt (Nat.lt_succ_self i), ⟨h8.obs, h8.nrecs⟩,
      h9.setGen_right hg' rfl, h10, h11⟩
  · have hne : g.ist ≠ .unstarted := by
      intro h
      exact hex h (hs h).1
    have hst' : (proto (innerBody child i) g.ist inp w).1.1 ≠ .unstarted := by
      intro h; exact hne (hst h).1
    generalize proto (innerBody child i) g.ist inp w = r at hw hst'
    rw [hw, p.tbl]
    refine ⟨{ g with ist := r.1.1 }, by simp [World.setGen], p.gw, p.wr, rfl, hst', hn hne,
      p.inv.setGen_lt (Nat.lt_succ_self i), p.no.setGen_lt (Nat.lt_succ_self i), ⟨p.good.obs, p.good.nrecs⟩,
      (Frame.refl i w).setGen_right p.tbl rfl, p.lt, p.cur⟩

/-! ### the wrapper generator object -/

theorem Frame.core_left {j w0 w0' w} (f : Frame j w0 w) (hc : Core w0 w0') : Frame j w0' w := by
  refine ⟨f.cur_eq.trans hc.cur.symm, hc.nctx ▸ f.nctx_le, f.dtoks_eq.trans hc.dtoks.symm, ?_, ?_, ?_⟩
  · intro k hk; rw [hc.gens]; exact f.gens_lt k hk
  · intro c h1 h2
    rw [hc.ctxs]
    exact f.ctxs_eq c (hc.nctx ▸ h1) (fun k g hk hg => h2 k g hk (by rw [hc.gens]; exact hg))
  · intro k g' c hg hw
    rw [hc.gens, hc.nctx]
    exact f.wctx_new k g' c hg hw

theorem Frame.withCur {j w w'} (f : Frame j w w') (x : Nat) : Frame j { w with cur := x } { w' with cur := x } :=
  ⟨rfl, f.nctx_le, f.dtoks_eq, f.gens_lt, f.ctxs_eq, f.wctx_new⟩

theorem GenOK.nctx_le {w g n} (h : GenOK w g) (hn : w.nctx ≤ n) : GenOK { w with nctx := n } g := by
  unfold GenOK at *
  refine ⟨h.1, ?_⟩
  have h2 := h.2
  cases hw : g.wctx with
  | none => rw [hw] at h2; exact h2
  | some c => rw [hw] at h2; exact ⟨Nat.lt_of_lt_of_le h2.1 hn, h2.2⟩

theorem InvFrom.nctx_le {j w n} (h : InvFrom j w) (hn : w.nctx ≤ n) : InvFrom j { w with nctx := n } :=
  ⟨fun k g hk hg => (h.ok k g hk hg).nctx_le hn, h.distinct⟩

theorem InvFrom.owned_lt {j w k g c} (h : InvFrom j w) (hk : j ≤ k) (hg : w.gens k = some g) (hc : g.wctx = some c) :
    c < w.nctx := by
  have := (h.ok k g hk hg).2
  rw [hc] at this; exact this.1

theorem InvFrom.extend {j w g} (h : InvFrom (j+1) w) (hg : w.gens j = some g) (hok : GenOK w g)
    (hno : ∀ c, g.wctx = some c → NotOwnedFrom (j+1) w c) : InvFrom j w := by
  constructor
  · intro k g' hk hg'
    by_cases hkj : k = j
    · subst hkj; rw [hg] at hg'; cases hg'; exact hok
    · exact h.ok k g' (by omega) hg'
  · intro k k' g1 g2 c hk hk' hne h1 h2 hc hc'
    by_cases hkj : k = j <;> by_cases hkj' : k' = j
    · omega
    · subst hkj; rw [hg] at h1; cases h1
      exact hno c hc k' g2 (by omega) h2 hc'
    · subst hkj'; rw [hg] at h2; cases h2
      exact hno c hc' k g1 (by omega) h1 hc
    · exact h.distinct k k' g1 g2 c (by omega) (by omega) hne h1 h2 hc hc'

theorem InvFrom.withCur {j w} (h : InvFrom j w) (x : Nat) : InvFrom j { w with cur := x } :=
  ⟨fun k g hk hg => h.ok k g hk hg, h.distinct⟩

theorem runIn_snd (c : Nat) (f : World → Out × World) (w : World) :
    (runIn c f w).2 = { (f { w with cur := c }).2 with cur := w.cur } := by
  unfold runIn
  generalize f { w with cur := c } = r
  obtain ⟨o, w'⟩ := r
  rfl

def WrapPost (i : Nat) (w : World) (wst : Status) (w' : World) : Prop :=
  ∃ g' c, w'.gens i = some g' ∧ g'.wctx = some c ∧ g'.wrapped = true ∧ g'.wst = wst ∧ g'.ist ≠ .unstarted ∧
    TokChain c g'.base g'.own g'.toks (w'.ctxs c) ∧ c < w'.nctx ∧ c ≠ w.cur ∧ InvFrom (i+1) w' ∧
    NotOwnedFrom (i+1) w' c ∧ Good w' ∧ Frame i w w'

theorem wrapPost_of_inner {i c w w3 w4 wst} (hcore : Core w { w3 with cur := w.cur }) (hne : c ≠ w.cur)
    (h : InnerPost i c w3 wst w4) : WrapPost i w wst { w4 with cur := w.cur } := by
  obtain ⟨g', hg', h1, h2, h3, h4, h5, h6, h7, h8, h9, h10, _⟩ := h
  refine ⟨g', c, hg', h1, h2, h3, h4, h5, h10, hne, h6.withCur w.cur, h7, ⟨h8.obs, h8.nrecs⟩, ?_⟩
  exact (h9.withCur w.cur).core_left ⟨hcore.gens.symm, hcore.ctxs.symm, hcore.nctx.symm, rfl, hcore.dtoks.symm⟩

theorem wrapBodyW_spec {k child i g w} (hch : ChildOK child i) (hinv : InvFrom i w) (hlt : w.cur < w.nctx)
    (hno : NotOwnedFrom i w w.cur) (hgood : Good w) (hpend : w.pending = w.ctxs w.cur)
    (hg : w.gens i = some g) (b : BIn) (hb : b = .start → g.wst = .unstarted) :
    (wrapBodyW k child i b w).2 = w ∨ WrapPost i w g.wst (wrapBodyW k child i b w).2 := by
  have hok := hinv.ok i g (Nat.le_refl _) hg
  have hinv1 : InvFrom (i+1) w := hinv.mono (Nat.le_succ i)
  cases hw : g.wctx with
  | none =>
    have h2 := hok.2
    rw [hw] at h2
    obtain ⟨ht, ho, hi⟩ := h2
    by_cases hbs : b = .start
    · subst hbs
      right
      -- context = copy_context()
      have hfresh : NotOwnedFrom (i+1) w w.nctx := by
        intro k' g' hk' hg' hc'
        have := hinv.owned_lt (Nat.le_of_succ_le hk') hg' hc'
        omega
      have hp : PreInner i w.nctx { g with wctx := some w.nctx }
          { ({ (w.setCtx w.nctx (w.ctxs w.cur)) with nctx := w.nctx + 1 } : World).setGen i { g with wctx := some w.nctx } with cur := w.nctx } := by
        refine ⟨by simp [World.setGen], rfl, Nat.lt_succ_self _, hok.1, rfl, ?_, ?_, ⟨hgood.obs, hgood.nrecs⟩⟩
        · exact (((hinv1.setCtx hfresh).nctx_le (Nat.le_succ _)).setGen_lt (Nat.lt_succ_self i)).withCur _
        · exact (NotOwnedFrom.setGen_lt (w := { (w.setCtx w.nctx (w.ctxs w.cur)) with nctx := w.nctx + 1 }) hfresh (Nat.lt_succ_self i))
      have hpost := innerResume_spec hch hp (wrapInput .start)
        (fun _ => ⟨rfl, ht, ho, by simp [World.setGen, World.setCtx, hpend]⟩) (fun h => absurd hi h)
      have hne : w.nctx ≠ w.cur := by omega
      have hfin := wrapPost_of_inner (w := { ({ (w.setCtx w.nctx (w.ctxs w.cur)) with nctx := w.nctx + 1 } : World).setGen i { g with wctx := some w.nctx } with cur := w.cur })
        (w3 := { ({ (w.setCtx w.nctx (w.ctxs w.cur)) with nctx := w.nctx + 1 } : World).setGen i { g with wctx := some w.nctx } with cur := w.nctx })
        ⟨rfl, rfl, rfl, rfl, rfl⟩ hne hpost
      -- the frame of the allocation itself
      have hfa : Frame i w ({ ({ (w.setCtx w.nctx (w.ctxs w.cur)) with nctx := w.nctx + 1 } : World).setGen i { g with wctx := some w.nctx } with cur := w.cur }) := by
        refine ⟨rfl, Nat.le_succ _, rfl, ?_, ?_, ?_⟩
        · intro k' hk'
          have : k' ≠ i := by omega
          simp [World.setGen, World.setCtx, this]
        · intro c' hc' _
          have : c' ≠ w.nctx := by omega
          simp [World.setGen, World.setCtx, this]
        · intro k' g' c' hg' hc'
          by_cases hk' : k' = i
          · subst hk'
            simp only [World.setGen, if_true] at hg'
            cases hg'
            simp only at hc'
            cases hc'
            exact Or.inr (Nat.le_refl _)
          · simp only [World.setGen, hk', if_false] at hg'
            exact Or.inl ⟨g', hg', hc'⟩
      obtain ⟨g', c, a1, a2, a3, a4, a5, a6, a7, a8, a9, a10, a11, a12⟩ := hfin
      unfold wrapBodyW
      rw [hg]
      simp only [runIn_snd]
      exact ⟨g', c, a1, a2, a3, a4, a5, a6, a7, a8, a9, a10, a11, hfa.trans a12⟩
    · left
      unfold wrapBodyW
      rw [hg]
      cases b <;> simp_all
  | some c =>
    have h2 := hok.2
    rw [hw] at h2
    obtain ⟨hc, hwst, hist, hchain⟩ := h2
    have hbs : b ≠ .start := fun h => hwst (hb h)
    right
    have hcno : NotOwnedFrom (i+1) w c := by
      intro k' g' hk' hg' hc'
      exact hinv.distinct i k' g g' c (Nat.le_refl _) (Nat.le_of_succ_le hk') (by omega) hg hg' hw hc'
    have hne : c ≠ w.cur := fun e => hno i g (Nat.le_refl _) hg (e ▸ hw)
    have hp : PreInner i c g { w with cur := c } :=
      ⟨hg, rfl, hc, hok.1, hw, hinv1.withCur c, hcno, ⟨hgood.obs, hgood.nrecs⟩⟩
    have hpost := innerResume_spec hch hp (wrapInput b) (fun h => absurd h hist) (fun _ => hchain)
    have hfin := wrapPost_of_inner (w := w) (w3 := { w with cur := c }) ⟨rfl, rfl, rfl, rfl, rfl⟩ hne hpost
    unfold wrapBodyW
    rw [hg]
    cases b with
    | start => exact absurd rfl hbs
    | val v => simp only [hw, runIn_snd]; exact hfin
    | exc e => simp only [hw, runIn_snd]; exact hfin

/-! ### `resumeGen` -/

theorem InvFrom.setGen_self {j w g g'} (h : InvFrom j w) (hg : w.gens j = some g) (hc : g'.wctx = g.wctx)
    (hok : GenOK w g') : InvFrom j (w.setGen j g') := by
  constructor
  · intro k g1 hk hg1
    by_cases hkj : k = j
    · subst hkj; simp only [World.setGen, if_true] at hg1; cases hg1; exact hok
    · simp only [World.setGen, hkj, if_false] at hg1; exact h.ok k g1 hk hg1
  · intro k k' g1 g2 c hk hk' hne h1 h2 hc1 hc2
    by_cases hkj : k = j <;> by_cases hkj' : k' = j
    · omega
    · subst hkj
      simp only [World.setGen, if_true] at h1; cases h1
      simp only [World.setGen, hkj', if_false] at h2
      exact h.distinct k k' g g2 c hk hk' hne hg h2 (hc ▸ hc1) hc2
    · subst hkj'
      simp only [World.setGen, if_true] at h2; cases h2
      simp only [World.setGen, hkj, if_false] at h1
      exact h.distinct k k' g1 g c hk hk' hne h1 hg hc1 (hc ▸ hc2)
    · simp only [World.setGen, hkj, hkj', if_false] at h1 h2
      exact h.distinct k k' g1 g2 c hk hk' hne h1 h2 hc1 hc2

theorem resumeGen_eq (k : Bool) (fuel i : Nat) (inp : Inp) (w : World) (g : GSt) (hg : w.gens i = some g)
    (hwr : g.wrapped = true) :
    (resumeGen k (fuel + 1) i inp w).2 =
      match (proto (wrapBodyW k (fun j inp' w' => if i < j then resumeGen k fuel j inp' w' else (.raised .badGen, w')) i) g.wst inp w).2.gens i with
      | none => (proto (wrapBodyW k (fun j inp' w' => if i < j then resumeGen k fuel j inp' w' else (.raised .badGen, w')) i) g.wst inp w).2
      | some g' => (proto (wrapBodyW k (fun j inp' w' => if i < j then resumeGen k fuel j inp' w' else (.raised .badGen, w')) i) g.wst inp w).2.setGen i
          { g' with wst := (proto (wrapBodyW k (fun j inp' w' => if i < j then resumeGen k fuel j inp' w' else (.raised .badGen, w')) i) g.wst inp w).1.1 } := by
  simp only [resumeGen, hg, hwr, if_true]
  generalize proto _ g.wst inp w = r
  obtain ⟨⟨st, o⟩, w'⟩ := r
  simp only
  cases w'.gens i <;> rfl

theorem resumeGen_spec (k : Bool) : ∀ (fuel j : Nat), ResSpec (resumeGen k fuel j) j := by
  intro fuel
  induction fuel with
  | zero =>
    intro j inp w hinv _ _ hgood _
    exact ⟨hinv, Frame.refl j w, hgood⟩
  | succ fuel ih =>
    intro j inp w hinv hlt hno hgood hpend
    cases hg : w.gens j with
    | none =>
      have : (resumeGen k (fuel + 1) j inp w).2 = w := by simp [resumeGen, hg]
      rw [this]; exact ⟨hinv, Frame.refl j w, hgood⟩
    | some g =>
      have hok := hinv.ok j g (Nat.le_refl _) hg
      rw [resumeGen_eq k fuel j inp w g hg hok.1]
      have hch : ChildOK (fun j' inp' w' => if j < j' then resumeGen k fuel j' inp' w' else (.raised .badGen, w')) j := by
        intro j'
        by_cases hj : j < j'
        · left; refine ⟨hj, ?_⟩
          simp only [hj, if_true]
          exact ih j'
        · right; intro inp' w'; simp only [hj, if_false]
      generalize (fun j' inp' w' => if j < j' then resumeGen k fuel j' inp' w' else ((Out.raised Exc.badGen, w') : Out × World)) = child at hch
      -- the case where nothing but the wrapper status changes
      have hsame : ∀ st : Status, (st = .unstarted → g.wst = .unstarted) →
          InvFrom j (w.setGen j { g with wst := st }) ∧ Frame j w (w.setGen j { g with wst := st }) ∧ Good (w.setGen j { g with wst := st }) := by
        intro st hst
        refine ⟨hinv.setGen_self hg rfl ?_, (Frame.refl j w).setGen_right hg rfl, ⟨hgood.obs, hgood.nrecs⟩⟩
        refine ⟨hok.1, ?_⟩
        have h2 := hok.2
        cases hw : g.wctx with
        | none => rw [hw] at h2; exact h2
        | some c =>
          rw [hw] at h2
          exact ⟨h2.1, fun e => h2.2.1 (hst e), h2.2.2⟩
      rcases proto_cases (wrapBodyW k child j) g.wst inp w with ⟨b, hb1, _, hw, hst⟩ | ⟨hw, _, hst⟩
      · rcases wrapBodyW_spec (k := k) hch hinv hlt hno hgood hpend hg b (fun h => (hb1 h).1) with hu | hp
        · rw [hu] at hw
          generalize proto (wrapBodyW k child j) g.wst inp w = r at hw hst
          rw [hw, hg]
          exact hsame r.1.1 (fun e => absurd e hst)
        · rw [← hw] at hp
          generalize proto (wrapBodyW k child j) g.wst inp w = r at hp hst
          obtain ⟨g', c, a1, a2, a3, a4, a5, a6, a7, a8, a9, a10, a11, a12⟩ := hp
          rw [a1]
          refine ⟨?_, a12.setGen_right a1 rfl, ⟨a11.obs, a11.nrecs⟩⟩
          have hok' : GenOK (r.2.setGen j { g' with wst := r.1.1 }) { g' with wst := r.1.1 } := by
            refine ⟨a3, ?_⟩
            simp only [a2]
            exact ⟨a7, hst, a5, a6⟩
          refine InvFrom.extend (a9.setGen_lt (Nat.lt_succ_self j)) (by simp [World.setGen]) hok' ?_
          intro c' hc'
          simp only [a2] at hc'
          cases hc'
          exact a10.setGen_lt (Nat.lt_succ_self j)
      · generalize proto (wrapBodyW k child j) g.wst inp w = r at hw hst
        rw [hw, hg]
        exact hsame r.1.1 (fun e => (hst e).1)

end Gen
