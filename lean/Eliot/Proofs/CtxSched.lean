import Eliot.Conc.Ctx
/-! Schedule independence for `Eliot.Conc.Ctx`: the potential-function invariant
`log ++ future ~ seqLog` (as multisets), where `future` is what the started units will still emit
(including everything the units they will spawn emit). -/
namespace Ctx

/-- what started unit `u` will still emit (with all units it will still spawn) -/
def fut (p : Prog) (s : State) (u : Nat) : List Rec :=
  if (s.units u).started = true then denCode p u (s.units u).ctx (s.units u).toks (s.units u).code else []

def future (p : Prog) (s : State) : List Rec := (List.range p.n).flatMap (fut p s)

structure PInv (p : Prog) (s : State) : Prop where
  perm : (s.log ++ future p s).Perm (seqLog p)
  lt : ∀ u, (s.units u).started = true → u < p.n

theorem flatMap_congr' {α β} {l : List α} {f g : α → List β} (h : ∀ w ∈ l, f w = g w) :
    l.flatMap f = l.flatMap g := by
  induction l with
  | nil => rfl
  | cons a l ih =>
    simp only [List.flatMap_cons]
    rw [h a (List.mem_cons_self), ih (fun w hw => h w (List.mem_cons_of_mem _ hw))]

theorem count_flatMap_range (f : Nat → List Rec) {n u : Nat} (hu : u < n) (a : Rec) :
    ((List.range n).flatMap f).count a = (f u).count a + (((List.range n).erase u).flatMap f).count a := by
  have hp : ((List.range n).flatMap f).Perm ((u :: (List.range n).erase u).flatMap f) :=
    List.Perm.flatMap_right f (List.perm_cons_erase (List.mem_range.mpr hu))
  rw [hp.count_eq, List.flatMap_cons, List.count_append]

/-- two states that differ (as far as `fut` is concerned) only at `u` -/
theorem future_update1 {p : Prog} {s s' : State} {u : Nat} (hu : u < p.n)
    (hsame : ∀ w, w ≠ u → fut p s' w = fut p s w) (a : Rec) :
    ∃ R : Nat, (future p s).count a = (fut p s u).count a + R ∧ (future p s').count a = (fut p s' u).count a + R := by
  refine ⟨(((List.range p.n).erase u).flatMap (fut p s)).count a, count_flatMap_range _ hu a, ?_⟩
  unfold future
  rw [count_flatMap_range _ hu a]
  congr 2
  apply flatMap_congr'
  intro w hw
  exact hsame w ((List.nodup_range.mem_erase_iff.mp hw).1)

theorem future_update2 {p : Prog} {s s' : State} {u v : Nat} (hu : u < p.n) (hv : v < p.n) (huv : u ≠ v)
    (hsame : ∀ w, w ≠ u → w ≠ v → fut p s' w = fut p s w) (a : Rec) :
    ∃ R : Nat, (future p s).count a = (fut p s u).count a + (fut p s v).count a + R ∧
      (future p s').count a = (fut p s' u).count a + (fut p s' v).count a + R := by
  have hv' : v ∈ (List.range p.n).erase u :=
    (List.nodup_range.mem_erase_iff).mpr ⟨fun e => huv e.symm, List.mem_range.mpr hv⟩
  have key : ∀ f : Nat → List Rec, ((List.range p.n).flatMap f).count a =
      (f u).count a + (f v).count a + ((((List.range p.n).erase u).erase v).flatMap f).count a := by
    intro f
    rw [count_flatMap_range f hu a]
    have hp : (((List.range p.n).erase u).flatMap f).Perm ((v :: ((List.range p.n).erase u).erase v).flatMap f) :=
      List.Perm.flatMap_right f (List.perm_cons_erase hv')
    rw [hp.count_eq, List.flatMap_cons, List.count_append]
    omega
  refine ⟨((((List.range p.n).erase u).erase v).flatMap (fut p s)).count a, key _, ?_⟩
  unfold future
  rw [key]
  congr 2
  apply flatMap_congr'
  intro w hw
  have hnd : ((List.range p.n).erase u).Nodup := List.nodup_range.erase u
  have h1 := (hnd.mem_erase_iff.mp hw)
  have h2 := (List.nodup_range.mem_erase_iff.mp h1.2)
  exact hsame w h2.1 h1.1

theorem pinv_emit1 {p : Prog} {s s' : State} {u : Nat} {r : Rec} (h : PInv p s) (hu : u < p.n)
    (hlog : s'.log = r :: s.log) (hsame : ∀ w, w ≠ u → fut p s' w = fut p s w)
    (hfu : fut p s u = r :: fut p s' u) (hlt : ∀ w, (s'.units w).started = true → w < p.n) : PInv p s' := by
  refine ⟨List.perm_iff_count.mpr (fun a => ?_), hlt⟩
  have h0 := h.perm.count_eq a
  obtain ⟨R, h1, h2⟩ := future_update1 hu hsame a
  rw [hlog]
  rw [hfu] at h1
  simp only [List.count_append, List.count_cons] at h0 h1 h2 ⊢
  omega

theorem pinv_silent1 {p : Prog} {s s' : State} {u : Nat} (h : PInv p s) (hu : u < p.n)
    (hlog : s'.log = s.log) (hsame : ∀ w, w ≠ u → fut p s' w = fut p s w)
    (hfu : fut p s u = fut p s' u) (hlt : ∀ w, (s'.units w).started = true → w < p.n) : PInv p s' := by
  refine ⟨List.perm_iff_count.mpr (fun a => ?_), hlt⟩
  have h0 := h.perm.count_eq a
  obtain ⟨R, h1, h2⟩ := future_update1 hu hsame a
  rw [hlog]
  rw [hfu] at h1
  simp only [List.count_append] at h0 h1 h2 ⊢
  omega

theorem pinv_spawn {p : Prog} {s s' : State} {u v : Nat} (h : PInv p s) (hu : u < p.n) (hv : v < p.n) (huv : u ≠ v)
    (hlog : s'.log = s.log) (hsame : ∀ w, w ≠ u → w ≠ v → fut p s' w = fut p s w)
    (hfu : fut p s u = fut p s' v ++ fut p s' u) (hfv : fut p s v = [])
    (hlt : ∀ w, (s'.units w).started = true → w < p.n) : PInv p s' := by
  refine ⟨List.perm_iff_count.mpr (fun a => ?_), hlt⟩
  have h0 := h.perm.count_eq a
  obtain ⟨R, h1, h2⟩ := future_update2 hu hv huv hsame a
  rw [hlog]
  rw [hfu, hfv] at h1
  simp only [List.count_append, List.count_nil] at h0 h1 h2 ⊢
  omega

theorem fut_setUnit_ne {p : Prog} {s : State} {u w : Nat} {x : UState} (h : w ≠ u) :
    fut p (s.setUnit u x) w = fut p s w := by
  simp [fut, State.setUnit, h]

theorem fut_setUnit_self {p : Prog} {s : State} {u : Nat} {x : UState} :
    fut p (s.setUnit u x) u = if x.started = true then denCode p u x.ctx x.toks x.code else [] := by
  simp [fut, State.setUnit]

theorem step_inv {p : Prog} {s s' : State} {u : Nat} (h : PInv p s) (hs : step p s u = some s') : PInv p s' := by
  unfold step at hs
  simp only at hs
  by_cases hst : (s.units u).started = false
  · simp [hst] at hs
  · have hst' : (s.units u).started = true := by simpa using hst
    have hu := h.lt u hst'
    simp only [hst', Bool.true_eq_false, if_false] at hs
    have hfu0 : fut p s u = denCode p u (s.units u).ctx (s.units u).toks (s.units u).code := by
      simp [fut, hst']
    have hlt1 : ∀ (x : UState), x.started = true → ∀ w, ((s.setUnit u x).units w).started = true → w < p.n := by
      intro x _ w hw
      by_cases hwu : w = u
      · subst hwu; exact hu
      · simp only [State.setUnit, hwu, if_false] at hw; exact h.lt w hw
    cases hc : (s.units u).code with
    | nil => rw [hc] at hs; cases hs
    | cons st rest =>
      rw [hc] at hs hfu0
      cases st with
      | enter o =>
        simp only [Option.some.injEq] at hs
        subst hs
        refine pinv_emit1 h hu rfl (fun w hw => fut_setUnit_ne hw) ?_ (hlt1 _ rfl)
        rw [hfu0, denCode]
        simp [fut, State.setUnit, State.emit, hst']
      | exit =>
        cases ht : (s.units u).toks with
        | nil =>
          rw [ht] at hs hfu0
          simp only [Option.some.injEq] at hs
          subst hs
          refine pinv_silent1 h hu rfl (fun w hw => fut_setUnit_ne hw) ?_ (hlt1 _ rfl)
          rw [hfu0, denCode]
          simp [fut, State.setUnit, hst', ht]
        | cons t ts =>
          obtain ⟨o, old, fin⟩ := t
          rw [ht] at hs hfu0
          cases fin with
          | true =>
            simp only [Option.some.injEq] at hs
            subst hs
            refine pinv_emit1 h hu rfl (fun w hw => fut_setUnit_ne hw) ?_ (hlt1 _ rfl)
            rw [hfu0, denCode]
            simp [fut, State.setUnit, State.emit, hst']
          | false =>
            simp only [Option.some.injEq] at hs
            subst hs
            refine pinv_silent1 h hu rfl (fun w hw => fut_setUnit_ne hw) ?_ (hlt1 _ rfl)
            rw [hfu0, denCode]
            simp [fut, State.setUnit, hst']
      | log o =>
        simp only [Option.some.injEq] at hs
        subst hs
        refine pinv_emit1 h hu rfl (fun w hw => fut_setUnit_ne hw) ?_ (hlt1 _ rfl)
        rw [hfu0, denCode]
        simp [fut, State.setUnit, State.emit, hst']
      | create o =>
        simp only [Option.some.injEq] at hs
        subst hs
        refine pinv_emit1 h hu rfl (fun w hw => fut_setUnit_ne hw) ?_ (hlt1 _ rfl)
        rw [hfu0, denCode]
        simp [fut, State.setUnit, State.emit, hst']
      | remote o =>
        cases hx : (s.units u).ctx with
        | none => rw [hx] at hs; cases hs
        | some a =>
          rw [hx] at hs hfu0
          simp only [Option.some.injEq] at hs
          subst hs
          refine pinv_emit1 h hu rfl (fun w hw => fut_setUnit_ne hw) ?_ (hlt1 _ rfl)
          rw [hfu0, denCode]
          simp [fut, State.setUnit, State.emit, hst']
      | withOf o =>
        simp only at hs
        split at hs
        · simp only [Option.some.injEq] at hs
          subst hs
          refine pinv_silent1 h hu rfl (fun w hw => fut_setUnit_ne hw) ?_ (hlt1 _ rfl)
          rw [hfu0, denCode]
          simp [fut, State.setUnit, hst']
        · cases hs
      | ctxOf o =>
        simp only at hs
        split at hs
        · simp only [Option.some.injEq] at hs
          subst hs
          refine pinv_silent1 h hu rfl (fun w hw => fut_setUnit_ne hw) ?_ (hlt1 _ rfl)
          rw [hfu0, denCode]
          simp [fut, State.setUnit, hst']
        · cases hs
      | join v =>
        simp only at hs
        split at hs
        · simp only [Option.some.injEq] at hs
          subst hs
          refine pinv_silent1 h hu rfl (fun w hw => fut_setUnit_ne hw) ?_ (hlt1 _ rfl)
          rw [hfu0, denCode]
          simp [fut, State.setUnit, hst']
        · cases hs
      | spawnThread v =>
        simp only at hs
        split at hs
        · rename_i hg
          obtain ⟨huv, hvn, hvs⟩ := hg
          simp only [Option.some.injEq] at hs
          subst hs
          have hne : u ≠ v := Nat.ne_of_lt huv
          refine pinv_spawn h hu hvn hne rfl ?_ ?_ ?_ ?_
          · intro w h1 h2; rw [fut_setUnit_ne h2, fut_setUnit_ne h1]
          · rw [hfu0, denCode]
            simp [fut, State.setUnit, hst', huv, hvn, hne, hne.symm]
          · simp [fut, hvs]
          · intro w hw
            by_cases hwv : w = v
            · subst hwv; exact hvn
            · simp only [State.setUnit, hwv, if_false] at hw
              by_cases hwu : w = u
              · subst hwu; exact hu
              · simp only [hwu, if_false] at hw; exact h.lt w hw
        · cases hs
      | spawnTask v =>
        simp only at hs
        split at hs
        · rename_i hg
          obtain ⟨huv, hvn, hvs⟩ := hg
          simp only [Option.some.injEq] at hs
          subst hs
          have hne : u ≠ v := Nat.ne_of_lt huv
          refine pinv_spawn h hu hvn hne rfl ?_ ?_ ?_ ?_
          · intro w h1 h2; rw [fut_setUnit_ne h2, fut_setUnit_ne h1]
          · rw [hfu0, denCode]
            simp [fut, State.setUnit, hst', huv, hvn, hne, hne.symm]
          · simp [fut, hvs]
          · intro w hw
            by_cases hwv : w = v
            · subst hwv; exact hvn
            · simp only [State.setUnit, hwv, if_false] at hw
              by_cases hwu : w = u
              · subst hwu; exact hu
              · simp only [hwu, if_false] at hw; exact h.lt w hw
        · cases hs

theorem flatMap_const_nil {α β} (l : List α) : l.flatMap (fun _ => ([] : List β)) = [] := by
  induction l with
  | nil => rfl
  | cons a l ih => simp [List.flatMap_cons, ih]

theorem init_inv (p : Prog) : PInv p (init p) := by
  constructor
  · show ([] ++ future p (init p)).Perm (seqLog p)
    rw [List.nil_append]
    by_cases hn : 0 < p.n
    · refine List.perm_iff_count.mpr (fun a => ?_)
      unfold future
      rw [count_flatMap_range _ hn a]
      have h0 : fut p (init p) 0 = seqLog p := by simp [fut, init, hn, seqLog]
      have hrest : ((List.range p.n).erase 0).flatMap (fut p (init p)) = ((List.range p.n).erase 0).flatMap (fun _ => []) := by
        apply flatMap_congr'
        intro w hw
        have : w ≠ 0 := (List.nodup_range.mem_erase_iff.mp hw).1
        simp [fut, init, this]
      rw [h0, hrest, flatMap_const_nil]
      simp
    · have hn0 : p.n = 0 := by omega
      have hc : p.code 0 = [] := by
        have : p.codes = [] := List.length_eq_zero_iff.mp hn0
        simp [Prog.code, this]
      simp [future, hn0, seqLog, hc, denCode]
  · intro u hu
    by_cases h0 : u = 0
    · subst h0; simpa [init] using hu
    · simp [init, h0] at hu

theorem stepD_inv {p : Prog} {s : State} (u : Nat) (h : PInv p s) : PInv p (stepD p s u) := by
  unfold stepD
  cases hs : step p s u with
  | none => exact h
  | some s' => exact step_inv h hs

theorem foldl_inv {p : Prog} (sched : List Nat) : ∀ s, PInv p s → PInv p (sched.foldl (stepD p) s) := by
  induction sched with
  | nil => intro s h; exact h
  | cons u us ih => intro s h; exact ih _ (stepD_inv u h)

theorem run_inv (p : Prog) (sched : List Nat) : PInv p (run p sched) := foldl_inv sched _ (init_inv p)

/-- soundness: whatever a schedule has logged so far is a record of the reference run -/
theorem log_subset_seq (p : Prog) (sched : List Nat) : ∀ r ∈ (run p sched).log, r ∈ seqLog p := by
  intro r hr
  exact (run_inv p sched).perm.subset (List.mem_append_left _ hr)

theorem future_nil_of_allDone {p : Prog} {s : State} (h : AllDone s) : future p s = [] := by
  unfold future
  rw [flatMap_congr' (g := fun _ => []) ?_]
  · exact flatMap_const_nil _
  · intro u _
    unfold fut
    by_cases hs : (s.units u).started = true
    · rw [if_pos hs, h u hs, denCode]
    · rw [if_neg hs]

/-- completeness: once every started unit has finished, the log is the reference run's records -/
theorem log_perm_seq (p : Prog) (sched : List Nat) (h : AllDone (run p sched)) :
    (run p sched).log.Perm (seqLog p) := by
  have := (run_inv p sched).perm
  rwa [future_nil_of_allDone h, List.append_nil] at this

theorem eq_of_key_eq {l : List Rec} (hn : (l.map Rec.key).Nodup) {r1 r2 : Rec} (h1 : r1 ∈ l) (h2 : r2 ∈ l)
    (hk : r1.key = r2.key) : r1 = r2 := by
  induction l with
  | nil => cases h1
  | cons a l ih =>
    simp only [List.map_cons, List.nodup_cons, List.mem_map, not_exists, not_and] at hn
    rcases List.mem_cons.mp h1 with rfl | h1' <;> rcases List.mem_cons.mp h2 with rfl | h2'
    · rfl
    · exact absurd hk.symm (hn.1 r2 h2')
    · exact absurd hk (hn.1 r1 h1')
    · exact ih hn.2 h1' h2'

/-! ### the shape of a step, and fork–join structure -/

theorem step_shape {p : Prog} {s s' : State} {u : Nat} (hs : step p s u = some s') :
    ∃ st rest, (s.units u).started = true ∧ (s.units u).code = st :: rest ∧
      (s'.units u).started = true ∧ (s'.units u).code = rest ∧
      (∀ v, st = .join v → (s.units v).done = true) ∧
      ((∀ w, w ≠ u → s'.units w = s.units w) ∨
       (∃ v, (st = .spawnThread v ∨ st = .spawnTask v) ∧ u < v ∧ v < p.n ∧ (s.units v).started = false ∧
          (s'.units v).started = true ∧ (s'.units v).code = p.code v ∧ (s'.units v).toks = [] ∧
          (s'.units v).ctx = (if st = .spawnThread v then none else (s.units u).ctx) ∧
          ∀ w, w ≠ u → w ≠ v → s'.units w = s.units w)) := by
  unfold step at hs
  simp only at hs
  by_cases hst : (s.units u).started = false
  · simp [hst] at hs
  · have hst' : (s.units u).started = true := by simpa using hst
    simp only [hst', Bool.true_eq_false, if_false] at hs
    cases hc : (s.units u).code with
    | nil => rw [hc] at hs; cases hs
    | cons st rest =>
      rw [hc] at hs
      refine ⟨st, rest, hst', rfl, ?_⟩
      cases st with
      | enter o =>
        simp only [Option.some.injEq] at hs; subst hs
        exact ⟨(by simp [State.setUnit]), (by simp [State.setUnit]), (by intro v h; cases h),
          Or.inl (by intro w hw; simp [State.setUnit, State.emit, hw])⟩
      | exit =>
        cases ht : (s.units u).toks with
        | nil =>
          rw [ht] at hs
          simp only [Option.some.injEq] at hs; subst hs
          exact ⟨(by simp [State.setUnit]), (by simp [State.setUnit]), (by intro v h; cases h),
            Or.inl (by intro w hw; simp [State.setUnit, hw])⟩
        | cons t ts =>
          obtain ⟨o, old, fin⟩ := t
          rw [ht] at hs
          cases fin <;>
          · simp only [Option.some.injEq] at hs; subst hs
            exact ⟨(by simp [State.setUnit]), (by simp [State.setUnit]), (by intro v h; cases h),
              Or.inl (by intro w hw; simp [State.setUnit, State.emit, hw])⟩
      | log o =>
        simp only [Option.some.injEq] at hs; subst hs
        exact ⟨(by simp [State.setUnit]), (by simp [State.setUnit]), (by intro v h; cases h),
          Or.inl (by intro w hw; simp [State.setUnit, State.emit, hw])⟩
      | create o =>
        simp only [Option.some.injEq] at hs; subst hs
        exact ⟨(by simp [State.setUnit]), (by simp [State.setUnit]), (by intro v h; cases h),
          Or.inl (by intro w hw; simp [State.setUnit, State.emit, hw])⟩
      | remote o =>
        cases hx : (s.units u).ctx with
        | none => rw [hx] at hs; cases hs
        | some a =>
          rw [hx] at hs
          simp only [Option.some.injEq] at hs; subst hs
          exact ⟨(by simp [State.setUnit]), (by simp [State.setUnit]), (by intro v h; cases h),
            Or.inl (by intro w hw; simp [State.setUnit, State.emit, hw])⟩
      | withOf o =>
        simp only at hs
        split at hs
        · simp only [Option.some.injEq] at hs; subst hs
          exact ⟨(by simp [State.setUnit]), (by simp [State.setUnit]), (by intro v h; cases h),
            Or.inl (by intro w hw; simp [State.setUnit, hw])⟩
        · cases hs
      | ctxOf o =>
        simp only at hs
        split at hs
        · simp only [Option.some.injEq] at hs; subst hs
          exact ⟨(by simp [State.setUnit]), (by simp [State.setUnit]), (by intro v h; cases h),
            Or.inl (by intro w hw; simp [State.setUnit, hw])⟩
        · cases hs
      | join v =>
        simp only at hs
        split at hs
        · rename_i hd
          simp only [Option.some.injEq] at hs; subst hs
          exact ⟨(by simp [State.setUnit]), (by simp [State.setUnit]), (by intro v' h; cases h; exact hd),
            Or.inl (by intro w hw; simp [State.setUnit, hw])⟩
        · cases hs
      | spawnThread v =>
        simp only at hs
        split at hs
        · rename_i hg
          obtain ⟨huv, hvn, hvs⟩ := hg
          simp only [Option.some.injEq] at hs; subst hs
          have hne : u ≠ v := Nat.ne_of_lt huv
          exact ⟨(by simp [State.setUnit, hne]), (by simp [State.setUnit, hne]), (by intro v' h; cases h),
            Or.inr ⟨v, Or.inl rfl, huv, hvn, hvs, (by simp [State.setUnit]), (by simp [State.setUnit]), (by simp [State.setUnit]),
              (by simp [State.setUnit]), (by intro w h1 h2; simp [State.setUnit, h1, h2])⟩⟩
        · cases hs
      | spawnTask v =>
        simp only at hs
        split at hs
        · rename_i hg
          obtain ⟨huv, hvn, hvs⟩ := hg
          simp only [Option.some.injEq] at hs; subst hs
          have hne : u ≠ v := Nat.ne_of_lt huv
          exact ⟨(by simp [State.setUnit, hne]), (by simp [State.setUnit, hne]), (by intro v' h; cases h),
            Or.inr ⟨v, Or.inr rfl, huv, hvn, hvs, (by simp [State.setUnit]), (by simp [State.setUnit]), (by simp [State.setUnit]),
              (by simp [State.setUnit]), (by intro w h1 h2; simp [State.setUnit, h1, h2])⟩⟩
        · cases hs

theorem joinedB_pend {code : List Stmt} : ∀ {pend : List (Nat × Nat)} {d : List Bool}, joinedB pend d code = true →
    ∀ e ∈ pend, Stmt.join e.1 ∈ code := by
  induction code with
  | nil =>
    intro pend d h e he
    simp only [joinedB, List.isEmpty_iff] at h
    subst h; cases he
  | cons st r ih =>
    intro pend d h e he
    cases st with
    | enter o => exact List.mem_cons_of_mem _ (ih (by simpa [joinedB] using h) e he)
    | exit =>
      cases d with
      | nil => exact List.mem_cons_of_mem _ (ih (by simpa [joinedB] using h) e he)
      | cons b d =>
        cases b with
        | false => exact List.mem_cons_of_mem _ (ih (by simpa [joinedB] using h) e he)
        | true =>
          simp only [joinedB, Bool.and_eq_true] at h
          exact List.mem_cons_of_mem _ (ih h.2 e he)
    | log o => exact List.mem_cons_of_mem _ (ih (by simpa [joinedB] using h) e he)
    | create o => exact List.mem_cons_of_mem _ (ih (by simpa [joinedB] using h) e he)
    | remote o => exact List.mem_cons_of_mem _ (ih (by simpa [joinedB] using h) e he)
    | withOf o => exact List.mem_cons_of_mem _ (ih (by simpa [joinedB] using h) e he)
    | ctxOf o => exact List.mem_cons_of_mem _ (ih (by simpa [joinedB] using h) e he)
    | spawnThread v =>
      exact List.mem_cons_of_mem _ (ih (by simpa [joinedB] using h) e (List.mem_cons_of_mem _ he))
    | spawnTask v =>
      exact List.mem_cons_of_mem _ (ih (by simpa [joinedB] using h) e (List.mem_cons_of_mem _ he))
    | join v =>
      by_cases hv : e.1 = v
      · rw [hv]; exact List.mem_cons_self
      · refine List.mem_cons_of_mem _ (ih (by simpa [joinedB] using h) e ?_)
        exact List.mem_filter.mpr ⟨he, by simpa using hv⟩

theorem joinedB_split {pre : List Stmt} : ∀ {pend : List (Nat × Nat)} {d : List Bool} {st : Stmt} {r : List Stmt} {v : Nat},
    (st = .spawnThread v ∨ st = .spawnTask v) → joinedB pend d (pre ++ st :: r) = true → Stmt.join v ∈ r := by
  induction pre with
  | nil =>
    intro pend d st r v hst h
    rcases hst with rfl | rfl
    · exact joinedB_pend (by simpa [joinedB] using h) (v, d.count true) List.mem_cons_self
    · exact joinedB_pend (by simpa [joinedB] using h) (v, d.count true) List.mem_cons_self
  | cons a pre ih =>
    intro pend d st r v hst h
    cases a with
    | exit =>
      cases d with
      | nil => exact ih hst (by simpa [joinedB] using h)
      | cons b d =>
        cases b with
        | false => exact ih hst (by simpa [joinedB] using h)
        | true =>
          simp only [List.cons_append, joinedB, Bool.and_eq_true] at h
          exact ih hst h.2
    | _ => exact ih hst (by simpa [joinedB] using h)

theorem code_mem_codes {p : Prog} {u : Nat} (h : p.code u ≠ []) : p.code u ∈ p.codes := by
  unfold Prog.code at *
  cases hc : p.codes[u]? with
  | none => rw [hc] at h; exact absurd rfl h
  | some c => simp only [Option.getD_some]; exact List.mem_of_getElem? hc

structure JInv (p : Prog) (s : State) : Prop where
  suffix : ∀ u, (s.units u).started = true → ∃ pre, p.code u = pre ++ (s.units u).code
  link : ∀ v, (s.units v).started = true → v ≠ 0 → (s.units v).code ≠ [] →
    ∃ w, w < v ∧ (s.units w).started = true ∧ Stmt.join v ∈ (s.units w).code

theorem jinv_init (p : Prog) : JInv p (init p) := by
  constructor
  · intro u hu
    by_cases h0 : u = 0
    · subst h0; exact ⟨[], by simp [init]⟩
    · simp [init, h0] at hu
  · intro v hv h0
    simp [init, h0] at hv

theorem jinv_step {p : Prog} {s s' : State} {u : Nat} (hJ : Joined p) (h : JInv p s) (hs : step p s u = some s') :
    JInv p s' := by
  obtain ⟨st, rest, hus, huc, hus', huc', hjoin, hothers⟩ := step_shape hs
  obtain ⟨pre, hpre⟩ := h.suffix u hus
  rw [huc] at hpre
  -- states of units that are started in `s` and are not `u` do not change
  have hkeep : ∀ w, w ≠ u → (s.units w).started = true → s'.units w = s.units w := by
    intro w hw hws
    rcases hothers with ho | ⟨v, _, _, _, hvs, _, _, _, _, ho⟩
    · exact ho w hw
    · exact ho w hw (fun e => by rw [e, hvs] at hws; cases hws)
  constructor
  · intro x hx
    by_cases hxu : x = u
    · subst hxu; exact ⟨pre ++ [st], by rw [huc', hpre]; simp⟩
    · rcases hothers with ho | ⟨v, _, _, _, _, _, hvc, _, _, ho⟩
      · rw [ho x hxu] at hx ⊢; exact h.suffix x hx
      · by_cases hxv : x = v
        · subst hxv; exact ⟨[], by rw [hvc]; rfl⟩
        · rw [ho x hxu hxv] at hx ⊢; exact h.suffix x hx
  · intro x hx hx0 hxc
    -- was x started before?
    by_cases hxs : (s.units x).started = true
    · -- x started before: its old link
      have hxc0 : (s.units x).code ≠ [] := by
        by_cases hxu : x = u
        · subst hxu; rw [huc]; exact List.cons_ne_nil _ _
        · rw [hkeep x hxu hxs] at hxc; exact hxc
      obtain ⟨w, hwx, hws, hwj⟩ := h.link x hxs hx0 hxc0
      refine ⟨w, hwx, ?_⟩
      by_cases hwu : w = u
      · subst hwu
        refine ⟨hus', ?_⟩
        rw [huc'] 
        rw [huc] at hwj
        rcases List.mem_cons.mp hwj with hst | hr
        · exfalso
          have hd := hjoin x hst.symm
          simp only [UState.done, Bool.and_eq_true, List.isEmpty_iff] at hd
          exact hxc0 hd.2
        · exact hr
      · rw [hkeep w hwu hws]; exact ⟨hws, hwj⟩
    · -- x is the unit spawned by this step
      rcases hothers with ho | ⟨v, hst, huv, _, _, _, _, _, _, ho⟩
      · have hxu : x ≠ u := fun e => hxs (e ▸ hus)
        rw [ho x hxu] at hx; exact absurd hx hxs
      · have hxu : x ≠ u := fun e => hxs (e ▸ hus)
        have hxv : x = v := by
          apply Classical.byContradiction
          intro hne
          rw [ho x hxu hne] at hx; exact hxs hx
        subst hxv
        refine ⟨u, huv, hus', ?_⟩
        rw [huc']
        have hne : p.code u ≠ [] := by rw [hpre]; simp
        have := hJ _ (code_mem_codes hne)
        rw [hpre] at this
        exact joinedB_split hst this

theorem jinv_run {p : Prog} (hJ : Joined p) (sched : List Nat) : JInv p (run p sched) := by
  unfold run
  suffices h : ∀ s, JInv p s → JInv p (sched.foldl (stepD p) s) from h _ (jinv_init p)
  induction sched with
  | nil => intro s h; exact h
  | cons u us ih =>
    intro s h
    apply ih
    unfold stepD
    cases hs : step p s u with
    | none => exact h
    | some s' => exact jinv_step hJ h hs

/-- in a fork–join program the end of the main unit is the end of everything -/
theorem allDone_of_mainDone {p : Prog} {s : State} (h : JInv p s) (hm : MainDone s) : AllDone s := by
  intro v
  induction v using Nat.strongRecOn with
  | _ v ih =>
    intro hv
    by_cases h0 : v = 0
    · subst h0; exact hm
    · apply Classical.byContradiction
      intro hc
      obtain ⟨w, hwv, hws, hwj⟩ := h.link v hv h0 hc
      rw [ih w hwv hws] at hwj
      cases hwj

/-! ### every unit logs in its own program order -/

def blocksOf (x : UState) : List (Nat × Bool) := x.toks.map (fun t => (t.1, t.2.2))

theorem step_own {p : Prog} {s s' : State} {u : Nat} (hs : step p s u = some s') :
    ∃ em : Option Rec, s'.log = em.toList ++ s.log ∧ (∀ r ∈ em.toList, r.unit = u) ∧
      em.toList.map Rec.key ++ ownKeys (blocksOf (s'.units u)) (s'.units u).code =
        ownKeys (blocksOf (s.units u)) (s.units u).code := by
  unfold step at hs
  simp only at hs
  by_cases hst : (s.units u).started = false
  · simp [hst] at hs
  · have hst' : (s.units u).started = true := by simpa using hst
    simp only [hst', Bool.true_eq_false, if_false] at hs
    cases hc : (s.units u).code with
    | nil => rw [hc] at hs; cases hs
    | cons st rest =>
      rw [hc] at hs
      cases st with
      | enter o =>
        simp only [Option.some.injEq] at hs; subst hs
        exact ⟨some ⟨u, o, .start, (s.units u).ctx⟩, rfl, (by simp), (by simp [ownKeys, blocksOf, State.setUnit, Rec.key])⟩
      | exit =>
        cases ht : (s.units u).toks with
        | nil =>
          rw [ht] at hs
          simp only [Option.some.injEq] at hs; subst hs
          exact ⟨none, rfl, (by simp), (by simp [ownKeys, blocksOf, State.setUnit, ht])⟩
        | cons t ts =>
          obtain ⟨o, old, fin⟩ := t
          rw [ht] at hs
          cases fin with
          | true =>
            simp only [Option.some.injEq] at hs; subst hs
            exact ⟨some ⟨u, o, .end_, some o⟩, rfl, (by simp), (by simp [ownKeys, blocksOf, State.setUnit, ht, Rec.key])⟩
          | false =>
            simp only [Option.some.injEq] at hs; subst hs
            exact ⟨none, rfl, (by simp), (by simp [ownKeys, blocksOf, State.setUnit, ht])⟩
      | log o =>
        simp only [Option.some.injEq] at hs; subst hs
        exact ⟨some ⟨u, o, .msg, (s.units u).ctx⟩, rfl, (by simp), (by simp [ownKeys, blocksOf, State.setUnit, Rec.key])⟩
      | create o =>
        simp only [Option.some.injEq] at hs; subst hs
        exact ⟨some ⟨u, o, .start, (s.units u).ctx⟩, rfl, (by simp), (by simp [ownKeys, blocksOf, State.setUnit, Rec.key])⟩
      | remote o =>
        cases hx : (s.units u).ctx with
        | none => rw [hx] at hs; cases hs
        | some a =>
          rw [hx] at hs
          simp only [Option.some.injEq] at hs; subst hs
          exact ⟨some ⟨u, o, .start, some a⟩, rfl, (by simp), (by simp [ownKeys, blocksOf, State.setUnit, Rec.key])⟩
      | withOf o =>
        simp only at hs
        split at hs
        · simp only [Option.some.injEq] at hs; subst hs
          exact ⟨none, rfl, (by simp), (by simp [ownKeys, blocksOf, State.setUnit])⟩
        · cases hs
      | ctxOf o =>
        simp only at hs
        split at hs
        · simp only [Option.some.injEq] at hs; subst hs
          exact ⟨none, rfl, (by simp), (by simp [ownKeys, blocksOf, State.setUnit])⟩
        · cases hs
      | join v =>
        simp only at hs
        split at hs
        · simp only [Option.some.injEq] at hs; subst hs
          exact ⟨none, rfl, (by simp), (by simp [ownKeys, blocksOf, State.setUnit])⟩
        · cases hs
      | spawnThread v =>
        simp only at hs
        split at hs
        · rename_i hg
          have hne : u ≠ v := Nat.ne_of_lt hg.1
          simp only [Option.some.injEq] at hs; subst hs
          exact ⟨none, rfl, (by simp), (by simp [ownKeys, blocksOf, State.setUnit, hne])⟩
        · cases hs
      | spawnTask v =>
        simp only at hs
        split at hs
        · rename_i hg
          have hne : u ≠ v := Nat.ne_of_lt hg.1
          simp only [Option.some.injEq] at hs; subst hs
          exact ⟨none, rfl, (by simp), (by simp [ownKeys, blocksOf, State.setUnit, hne])⟩
        · cases hs

structure OInv (p : Prog) (s : State) : Prop where
  started : ∀ u, (s.units u).started = true →
    unitKeys s.log u ++ ownKeys (blocksOf (s.units u)) (s.units u).code = ownKeys [] (p.code u)
  idle : ∀ u, (s.units u).started = false → unitKeys s.log u = []

theorem unitKeys_cons_ne {log : List Rec} {em : Option Rec} {u w : Nat} (h : ∀ r ∈ em.toList, r.unit = u) (hw : w ≠ u) :
    unitKeys (em.toList ++ log) w = unitKeys log w := by
  cases em with
  | none => rfl
  | some r =>
    have hr : r.unit = u := h r (by simp)
    have : (r.unit == w) = false := by simp [hr, Ne.symm hw]
    simp [unitKeys, List.filter_cons, this]

theorem unitKeys_cons_self {log : List Rec} {em : Option Rec} {u : Nat} (h : ∀ r ∈ em.toList, r.unit = u) :
    unitKeys (em.toList ++ log) u = unitKeys log u ++ em.toList.map Rec.key := by
  cases em with
  | none => simp [unitKeys]
  | some r =>
    have hr : r.unit = u := h r (by simp)
    simp [unitKeys, List.filter_cons, hr]

theorem oinv_init (p : Prog) : OInv p (init p) := by
  constructor
  · intro u hu
    by_cases h0 : u = 0
    · subst h0; simp [init, unitKeys, blocksOf]
    · simp [init, h0] at hu
  · intro u _; simp [init, unitKeys]

theorem oinv_step {p : Prog} {s s' : State} {u : Nat} (h : OInv p s) (hs : step p s u = some s') : OInv p s' := by
  obtain ⟨em, hlog, hem, hown⟩ := step_own hs
  obtain ⟨st, rest, hus, _, hus', _, _, hothers⟩ := step_shape hs
  constructor
  · intro w hw
    rw [hlog]
    by_cases hwu : w = u
    · subst hwu
      rw [unitKeys_cons_self hem, List.append_assoc, hown]
      exact h.started w hus
    · rw [unitKeys_cons_ne hem hwu]
      rcases hothers with ho | ⟨v, _, _, _, hvs, _, hvc, hvt, _, ho⟩
      · rw [ho w hwu] at hw ⊢; exact h.started w hw
      · by_cases hwv : w = v
        · subst hwv
          rw [h.idle w hvs]
          simp [blocksOf, hvt, hvc]
        · rw [ho w hwu hwv] at hw ⊢; exact h.started w hw
  · intro w hw
    rw [hlog]
    have hwu : w ≠ u := fun e => by rw [e, hus'] at hw; cases hw
    rw [unitKeys_cons_ne hem hwu]
    rcases hothers with ho | ⟨v, _, _, _, _, hvs', _, _, _, ho⟩
    · rw [ho w hwu] at hw; exact h.idle w hw
    · have hwv : w ≠ v := fun e => by rw [e, hvs'] at hw; cases hw
      rw [ho w hwu hwv] at hw; exact h.idle w hw

theorem oinv_run (p : Prog) (sched : List Nat) : OInv p (run p sched) := by
  unfold run
  suffices h : ∀ s, OInv p s → OInv p (sched.foldl (stepD p) s) from h _ (oinv_init p)
  induction sched with
  | nil => intro s h; exact h
  | cons u us ih =>
    intro s h
    apply ih
    unfold stepD
    cases hs : step p s u with
    | none => exact h
    | some s' => exact oinv_step h hs

theorem eq_of_map_key_eq {S : List Rec} (hn : (S.map Rec.key).Nodup) :
    ∀ (l₁ l₂ : List Rec), l₁.map Rec.key = l₂.map Rec.key → (∀ r ∈ l₁, r ∈ S) → (∀ r ∈ l₂, r ∈ S) → l₁ = l₂ := by
  intro l₁
  induction l₁ with
  | nil => intro l₂ h _ _; cases l₂ with
    | nil => rfl
    | cons b l => simp at h
  | cons a l ih =>
    intro l₂ h h1 h2
    cases l₂ with
    | nil => simp at h
    | cons b l' =>
      simp only [List.map_cons, List.cons.injEq] at h
      have hab : a = b := eq_of_key_eq hn (h1 a List.mem_cons_self) (h2 b List.mem_cons_self) h.1
      rw [hab, ih l' h.2 (fun r hr => h1 r (List.mem_cons_of_mem _ hr)) (fun r hr => h2 r (List.mem_cons_of_mem _ hr))]

end Ctx
