import Eliot.Conc.HandoverSkel
import Eliot.Generated.Handover
/-! Generated obligation (extractor E8): the current source has the repaired shape for which
`Eliot.Conc.HandoverFix` is written and `handover_no_loss` / `handover_no_overtake` are proved. -/
namespace Eliot.Conc.Handover

example : Eliot.Generated.handover = fixedSkel := by decide

end Eliot.Conc.Handover
