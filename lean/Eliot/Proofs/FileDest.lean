import Eliot.Model.File
import Eliot.Proofs.JsonUtf8
import Eliot.Proofs.JsonDepth
/-! Helper lemmas about `dumpsBytes` / `dumpsText` and the `FileDestination` call sequence (C10). -/
namespace EJ

theorem dumpsCP_no_newline (ext : Bool) (o : PyVal) (s : List Nat) (h : dumpsCP ext o = .ok s) :
    10 ∉ s ∧ 13 ∉ s := by
  unfold dumpsCP at h
  cases hl : lower ext o with
  | error e => simp [hl] at h
  | ok v => simp only [hl] at h; exact encode_no_newline v s h

theorem dumpsCP_scalar (ext : Bool) (o : PyVal) (s : List Nat) (h : dumpsCP ext o = .ok s) :
    ∀ c ∈ s, Scalar c := by
  unfold dumpsCP at h
  cases hl : lower ext o with
  | error e => simp [hl] at h
  | ok v => simp only [hl] at h; exact encode_scalar v s h

theorem dumpsBytes_eq (ext : Bool) (o : PyVal) :
    dumpsBytes ext o = (match dumpsCP ext o with | .ok s => .ok (utf8enc s) | .error e => .error e) := by
  unfold dumpsBytes; cases dumpsCP ext o <;> rfl

/-- `_dumps_unicode` gives exactly the code points whose UTF-8 encoding `_dumps_bytes` gives -/
theorem dumpsText_eq (ext : Bool) (o : PyVal) : dumpsText ext o = dumpsCP ext o := by
  unfold dumpsText dumpsBytes
  cases h : dumpsCP ext o with
  | error e => rfl
  | ok s => simp only [utf8dec_utf8enc s (dumpsCP_scalar ext o s h)]

theorem utf8enc_snoc_nl (s : List Nat) : utf8enc (s ++ [10]) = utf8enc s ++ [10] := by
  rw [utf8enc_append]; rfl

theorem dumps_binary (ext : Bool) (o : PyVal) :
    (FileDest.mk .binary ext).dumps o = (match dumpsCP ext o with | .ok s => .ok (utf8enc s) | .error e => .error e) := by
  simp only [FileDest.dumps, dumpsBytes_eq]

theorem dumps_text (ext : Bool) (o : PyVal) : (FileDest.mk .text ext).dumps o = dumpsCP ext o := by
  simp only [FileDest.dumps, dumpsText_eq]

/-- the calls one logging call adds -/
def callsOf (d : FileDest) (m : PyVal) : List Call :=
  match d.line m with
  | some l => [.write l, .flush]
  | none => []

theorem call_eq (d : FileDest) (log : FileLog) (m : PyVal) :
    (match d.call log m with | .ok log' => log' | .error _ => log) = log ++ callsOf d m := by
  unfold FileDest.call FileDest.callWith callsOf FileDest.line
  cases d.dumps m with
  | error e => simp
  | ok p => simp [stdShape, CallShape.run]

theorem feed_eq (d : FileDest) (log : FileLog) (msgs : List PyVal) :
    d.feed log msgs = log ++ msgs.flatMap (callsOf d) := by
  induction msgs generalizing log with
  | nil => simp [FileDest.feed]
  | cons m ms ih =>
    have h := call_eq d log m
    unfold FileDest.feed
    cases hc : d.call log m with
    | error e => simp only [hc] at h ⊢; rw [ih]; simp only [List.flatMap_cons]; rw [← List.append_assoc, ← h]
    | ok log' => simp only [hc] at h ⊢; rw [ih, h]; simp [List.flatMap_cons]

theorem fileCalls_eq (mode : Mode) (ext : Bool) (msgs : List PyVal) :
    fileCalls mode ext msgs = .write [] :: msgs.flatMap (callsOf (FileDest.mk mode ext)) := by
  unfold fileCalls FileDest.new
  rw [feed_eq]; rfl

theorem content_append (a b : FileLog) : content (a ++ b) = content a ++ content b := by
  induction a with
  | nil => rfl
  | cons c r ih => cases c <;> simp [content, ih]

theorem content_flatMap_callsOf (d : FileDest) (msgs : List PyVal) :
    content (msgs.flatMap (callsOf d)) = (msgs.filterMap d.line).flatten := by
  induction msgs with
  | nil => rfl
  | cons m ms ih =>
    simp only [List.flatMap_cons, content_append, ih, List.filterMap_cons]
    unfold callsOf
    cases d.line m <;> simp [content]

theorem line_shape (d : FileDest) (m : PyVal) (l : List Nat) (h : d.line m = some l) :
    ∃ body, l = body ++ [10] ∧ 10 ∉ body ∧ 13 ∉ body := by
  obtain ⟨mode, ext⟩ := d
  unfold FileDest.line at h
  cases mode with
  | text =>
    rw [dumps_text] at h
    cases hd : dumpsCP ext m with
    | error e => simp [hd] at h
    | ok s =>
      simp only [hd, Option.some.injEq] at h
      exact ⟨s, h.symm, dumpsCP_no_newline ext m s hd⟩
  | binary =>
    rw [dumps_binary] at h
    cases hd : dumpsCP ext m with
    | error e => simp [hd] at h
    | ok s =>
      simp only [hd, Option.some.injEq] at h
      have hn := dumpsCP_no_newline ext m s hd
      refine ⟨utf8enc s, h.symm, ?_, ?_⟩
      · rw [mem_utf8enc_ascii s 10 (by decide)]; exact hn.1
      · rw [mem_utf8enc_ascii s 13 (by decide)]; exact hn.2

/-- the binary line is the UTF-8 encoding of the text line -/
theorem line_binary_text (ext : Bool) (m : PyVal) :
    (FileDest.mk .binary ext).line m = ((FileDest.mk .text ext).line m).map utf8enc := by
  unfold FileDest.line
  rw [dumps_binary, dumps_text]
  cases dumpsCP ext m with
  | error e => rfl
  | ok s => simp [utf8enc_snoc_nl]

theorem line_text_scalar (ext : Bool) (m : PyVal) (l : List Nat) (h : (FileDest.mk .text ext).line m = some l) :
    ∀ c ∈ l, Scalar c := by
  unfold FileDest.line at h
  rw [dumps_text] at h
  cases hd : dumpsCP ext m with
  | error e => simp [hd] at h
  | ok s =>
    simp only [hd, Option.some.injEq] at h
    subst h
    intro c hc
    rcases List.mem_append.mp hc with hc | hc
    · exact dumpsCP_scalar ext m s hd c hc
    · simp at hc; subst hc; decide

theorem utf8enc_flatten (ls : List (List Nat)) : utf8enc ls.flatten = (ls.map utf8enc).flatten := by
  induction ls with
  | nil => rfl
  | cons l r ih => simp [utf8enc_append, ih]

theorem content_binary_text (ext : Bool) (msgs : List PyVal) :
    content (fileCalls .binary ext msgs) = utf8enc (content (fileCalls .text ext msgs))
    ∧ ∀ c ∈ content (fileCalls .text ext msgs), Scalar c := by
  simp only [fileCalls_eq, content, List.nil_append, content_flatMap_callsOf]
  constructor
  · rw [utf8enc_flatten]
    congr 1
    induction msgs with
    | nil => rfl
    | cons m ms ih =>
      simp only [List.filterMap_cons, line_binary_text]
      cases h : (FileDest.mk .text ext).line m with
      | none => simpa [line_binary_text] using ih
      | some l => simp only [Option.map_some, List.map_cons]; rw [← ih]
  · intro c hc
    simp only [List.mem_flatten, List.mem_filterMap] at hc
    obtain ⟨l, ⟨m, _, hm⟩, hcl⟩ := hc
    exact line_text_scalar ext m l hm c hcl

end EJ
