import Eliot.Conc.Handover
import Eliot.Generated.Handover
/-! C12, concurrent clause "no message logged by any thread is lost across the hand-over":
**false on the pinned tree**.  Witness schedules, by evaluation of the model compiled from the
regenerated skeleton. -/
namespace Eliot.Conc.Handover

/-- generated obligation: the source still has the shape the model (and the witnesses) are about -/
example : Eliot.Generated.handover = assumed := by decide

/-- one logger logging message 7, one destination (id 0) added by the first `add`, nothing buffered before -/
def raceInit : State := init Eliot.Generated.handover [] (fun i => if i = 0 then [7] else []) [0]

/-- The full-strength clause would be
`∀ sched, finished (run raceInit sched) 1 = true → lostB (run raceInit sched) [7] = false`.
It does not hold: the logger obtains the iterator over the old list `[buffer]`, the adder runs the
whole first `add` (swap, extend, nothing to re-send), then the logger appends to the stale buffer. -/
theorem handover_race_witness :
    ∃ sched, finished (run raceInit sched) 1 = true ∧ lostB (run raceInit sched) [7] = true :=
  ⟨[.logger 0, .logger 0] ++ List.replicate 7 Tid.adder ++ [.logger 0, .logger 0], by decide⟩

theorem handover_no_loss_false :
    ¬ (∀ sched, finished (run raceInit sched) 1 = true → lostB (run raceInit sched) [7] = false) := by
  intro h
  obtain ⟨sched, hf, hl⟩ := handover_race_witness
  rw [h sched hf] at hl
  cases hl

/-- a second losing schedule: the logger evaluates `self._destinations` between `self._destinations = []`
and `.extend(destinations)`: it iterates the new, still empty list - delivered nowhere, not buffered. -/
theorem handover_race_witness_empty_list :
    ∃ sched, finished (run raceInit sched) 1 = true ∧ lostB (run raceInit sched) [7] = true ∧
      (run raceInit sched).buf = [] :=
  ⟨[.logger 0] ++ List.replicate 5 Tid.adder ++ [.logger 0] ++ List.replicate 2 Tid.adder, by decide⟩

/-- with messages already buffered the re-send loop runs, and the late append still comes too late -/
theorem handover_race_witness_prebuffered :
    ∃ sched, let s := run (init Eliot.Generated.handover [1, 2] (fun i => if i = 0 then [7] else []) [0]) sched
      finished s 1 = true ∧ lostB s [7] = true ∧ s.delivered 0 = [1, 2] :=
  ⟨[.logger 0, .logger 0] ++ List.replicate 30 Tid.adder ++ [.logger 0, .logger 0], by decide⟩

/-! Sanity (the model is not trivially lossy): without interleaving nothing is lost. -/
example : lostB (run raceInit ([.logger 0, .logger 0, .logger 0, .logger 0] ++ List.replicate 20 Tid.adder)) [7] = false := by decide
example : lostB (run raceInit (List.replicate 7 Tid.adder ++ [.logger 0, .logger 0, .logger 0, .logger 0])) [7] = false := by decide
example : finished (run raceInit ([.logger 0, .logger 0, .logger 0, .logger 0] ++ List.replicate 20 Tid.adder)) 1 = true := by decide
/-- a message logged while the re-send loop runs can overtake older buffered messages -/
example : (run (init Eliot.Generated.handover [1, 2] (fun i => if i = 0 then [7] else []) [0])
    (List.replicate 14 Tid.adder ++ List.replicate 4 (Tid.logger 0) ++ List.replicate 20 Tid.adder)).delivered 0 = [1, 7, 2] := by decide

end Eliot.Conc.Handover
