import Eliot.Conc.Handover
/-! C12, concurrent clause "no message logged by any thread is lost across the hand-over":
**false for the skeleton of the pinned tree** (`pinnedSkel`, i.e. before the repair that /repo now
contains).  Witness schedules, by evaluation of the model compiled from that skeleton.  These are
theorems about the OLD skeleton only; the repaired one is treated in `Proofs/HandoverFix.lean`. -/
namespace Eliot.Conc.Handover

/-- one logger logging message 7, one destination (id 0) added by the first `add`, nothing buffered before -/
def raceInit : State := init pinnedSkel [] (fun i => if i = 0 then [7] else []) [0]

/-- The full-strength clause would be
`∀ sched, finished (run raceInit sched) 1 = true → lostB (run raceInit sched) [7] = false`.
It does not hold: the logger obtains the iterator over the old list `[buffer]`, the adder runs the
whole first `add` (swap, extend, nothing to re-send), then the logger appends to the stale buffer. -/
theorem handover_race_witness :
    ∃ sched, finished (run raceInit sched) 1 = true ∧ lostB (run raceInit sched) [7] = true :=
  ⟨[.logger 0, .logger 0] ++ List.replicate 7 Tid.adder ++ [.logger 0, .logger 0], by decide⟩

theorem handover_no_loss_false :
    ¬ (∀ sched, finished (run raceInit sched) 1 = true → lostB (run raceInit sched) [7] = false) := by
  intro h
  obtain ⟨sched, hf, hl⟩ := handover_race_witness
  rw [h sched hf] at hl
  cases hl

/-- a second losing schedule: the logger evaluates `self._destinations` between `self._destinations = []`
and `.extend(destinations)`: it iterates the new, still empty list - delivered nowhere, not buffered. -/
theorem handover_race_witness_empty_list :
    ∃ sched, finished (run raceInit sched) 1 = true ∧ lostB (run raceInit sched) [7] = true ∧
      (run raceInit sched).buf = [] :=
  ⟨[.logger 0] ++ List.replicate 5 Tid.adder ++ [.logger 0] ++ List.replicate 2 Tid.adder, by decide⟩

/-- with messages already buffered the re-send loop runs, and the late append still comes too late -/
theorem handover_race_witness_prebuffered :
    ∃ sched, let s := run (init pinnedSkel [1, 2] (fun i => if i = 0 then [7] else []) [0]) sched
      finished s 1 = true ∧ lostB s [7] = true ∧ s.delivered 0 = [1, 2] :=
  ⟨[.logger 0, .logger 0] ++ List.replicate 30 Tid.adder ++ [.logger 0, .logger 0], by decide⟩

/-! Sanity (the model is not trivially lossy): without interleaving nothing is lost. -/
example : lostB (run raceInit ([.logger 0, .logger 0, .logger 0, .logger 0] ++ List.replicate 20 Tid.adder)) [7] = false := by decide
example : lostB (run raceInit (List.replicate 7 Tid.adder ++ [.logger 0, .logger 0, .logger 0, .logger 0])) [7] = false := by decide
example : finished (run raceInit ([.logger 0, .logger 0, .logger 0, .logger 0] ++ List.replicate 20 Tid.adder)) 1 = true := by decide
/-- a message logged while the re-send loop runs can overtake older buffered messages -/
theorem handover_overtake_witness :
    ∃ sched, let s := run (init pinnedSkel [1, 2] (fun i => if i = 0 then [7] else []) [0]) sched
      finished s 1 = true ∧ s.delivered 0 = [1, 7, 2] :=
  ⟨List.replicate 14 Tid.adder ++ List.replicate 4 (Tid.logger 0) ++ List.replicate 20 Tid.adder, by decide⟩

end Eliot.Conc.Handover
