import Eliot.Proofs.SysFrame
/-!
# Which handle variables a program can (re)bind

`Stmt.binds x` / `Block.binds x`: the program text contains `x = start_action(..)` / `x = start_task(..)`
for this `x` (anywhere, executed or not).  A program that does not leaves the binding of `x` alone —
for every program of the core language, every environment, from every world (`execB_vars`).
-/
namespace Sys

mutual
def Stmt.binds (x : Nat) : Stmt → Bool
  | .withAction _ _ body => body.binds x
  | .tryCatch body handler => body.binds x || handler.binds x
  | .startAs y _ _ => y == x
  | .withHandle _ body => body.binds x
  | .inContext _ body => body.binds x
  | .runIn _ body => body.binds x
  | .continueWith _ _ body => body.binds x
  | _ => false
def Block.binds (x : Nat) : Block → Bool
  | .nil => false
  | .cons s r => s.binds x || r.binds x
end

theorem lookupNat_setNat_ne {α} (l : List (Nat × α)) (k k' : Nat) (v : α) (h : k ≠ k') :
    lookupNat (setNat l k v) k' = lookupNat l k' := by
  induction l with
  | nil => simp [setNat, lookupNat, h]
  | cons p r ih =>
    obtain ⟨a, b⟩ := p
    by_cases e : a = k
    · subst e; simp [setNat, lookupNat, h]
    · by_cases e' : a = k'
      · subst e'; simp [setNat, lookupNat, e]
      · simp [setNat, lookupNat, e, e', ih]

theorem lookupNat_setNat_self {α} (l : List (Nat × α)) (k : Nat) (v : α) : lookupNat (setNat l k v) k = some v := by
  induction l with
  | nil => simp [setNat, lookupNat]
  | cons p r ih =>
    obtain ⟨a, b⟩ := p
    by_cases e : a = k
    · simp [setNat, lookupNat, e]
    · simp [setNat, lookupNat, e, ih]

theorem startAction_vars (env : Env) (w : World) (task : Bool) (sp : Spec) : (w.startAction env task sp).1.vars = w.vars := by
  unfold World.startAction
  split
  · exact ((frame_freshAction w _ _).trans (frame_startRec env _ _ _)).vars
  · split
    · rfl
    · rw [(frame_startRec env _ _ _).vars]
      exact (frame_nextLevel w _).vars

theorem continueTask_vars (env : Env) (w : World) (u : Nat) (lvl : Level) (sp : Spec) :
    (w.continueTask env u lvl sp).1.vars = w.vars := by
  unfold World.continueTask
  rw [(frame_startRec env _ _ _).vars]

theorem addDests_vars (env : Env) (w : World) (ds : List Nat) : (w.addDests env ds).vars = w.vars := by
  unfold World.addDests
  split
  · rfl
  · have : ∀ (l : List Msg) (w1 : World), (l.foldl (fun acc m => acc.popPending.send env m) w1).vars = w1.vars := by
      intro l
      induction l with
      | nil => intro w1; rfl
      | cons m r ih =>
        intro w1
        rw [List.foldl_cons, ih, (frame_send env _ _).vars, (frame_popPending w1).vars]
    rw [this]

theorem withBlock_vars (env : Env) (w : World) (h : Nat) (run : World → World × Outcome) (x : Nat)
    (hr : ∀ w', lookupNat (run w').1.vars x = lookupNat w'.vars x) :
    lookupNat (withBlock env w h run).1.vars x = lookupNat w.vars x := by
  unfold withBlock
  simp only
  rw [(frame_finishRec env _ _ _).vars]
  exact hr _

theorem scopedBlock_vars (w : World) (h : Nat) (run : World → World × Outcome) (x : Nat)
    (hr : ∀ w', lookupNat (run w').1.vars x = lookupNat w'.vars x) :
    lookupNat (scopedBlock w h run).1.vars x = lookupNat w.vars x := by
  unfold scopedBlock
  exact hr _

mutual
theorem execS_vars (env : Env) (cur : Option Exc) (x : Nat) (st : Stmt) (hb : st.binds x = false) (w : World) :
    lookupNat (execS env cur w st).1.vars x = lookupNat w.vars x := by
  cases st with
  | withAction task sp body =>
    simp only [Stmt.binds] at hb
    simp only [execS]
    rw [withBlock_vars env _ _ _ x (fun w' => execB_vars env cur x body hb w'), startAction_vars]
  | log ms => simp only [execS, (frame_logMessage env w ms).vars]
  | raise i => rfl
  | tryCatch body handler =>
    simp only [Stmt.binds, Bool.or_eq_false_iff] at hb
    simp only [execS]
    have h1 := execB_vars env cur x body hb.1 w
    cases hr : execB env cur w body with
    | mk w1 o =>
      rw [hr] at h1
      cases o with
      | ok => exact h1
      | stuck => exact h1
      | raised e => simp only; rw [execB_vars env (some e) x handler hb.2 w1]; exact h1
  | writeTraceback =>
    simp only [execS]
    cases cur with
    | none => rfl
    | some e => simp only [(frame_writeTraceback env w e).vars]
  | startAs y task sp =>
    simp only [Stmt.binds, beq_eq_false_iff_ne, ne_eq] at hb
    simp only [execS]
    rw [lookupNat_setNat_ne _ _ _ _ hb, startAction_vars]
  | withHandle y body =>
    simp only [Stmt.binds] at hb
    simp only [execS]
    cases lookupNat w.vars y with
    | none => rfl
    | some h => exact withBlock_vars env _ _ _ x (fun w' => execB_vars env cur x body hb w')
  | inContext y body =>
    simp only [Stmt.binds] at hb
    simp only [execS]
    cases lookupNat w.vars y with
    | none => rfl
    | some h => exact scopedBlock_vars _ _ _ x (fun w' => execB_vars env cur x body hb w')
  | runIn y body =>
    simp only [Stmt.binds] at hb
    simp only [execS]
    cases lookupNat w.vars y with
    | none => rfl
    | some h => exact scopedBlock_vars _ _ _ x (fun w' => execB_vars env cur x body hb w')
  | finish y exc =>
    simp only [execS]
    cases lookupNat w.vars y with
    | none => rfl
    | some h => simp only [(frame_finishRec env w h _).vars]
  | addSuccess y fs =>
    simp only [execS]
    split
    · split <;> rfl
    · rfl
  | logTo y ms =>
    simp only [execS]
    cases lookupNat w.vars y with
    | none => rfl
    | some h => simp only [(frame_logTo env w h ms).vars]
  | serializeAs y z =>
    simp only [execS]
    split
    · split
      · simp only [(frame_nextLevel w _).vars]
      · rfl
    · rfl
  | continueWith y sp body =>
    simp only [Stmt.binds] at hb
    simp only [execS]
    cases lookupNat w.ids y with
    | none => rfl
    | some p =>
      obtain ⟨u, lvl⟩ := p
      simp only
      rw [withBlock_vars env _ _ _ x (fun w' => execB_vars env cur x body hb w'), continueTask_vars]
  | addDests l => simp only [execS, addDests_vars]
  | removeDest d => simp only [execS]; split <;> rfl
  | addGlobals fs => rfl
  | probe n => rfl
/-- a program in which `x = start_action(..)` does not occur leaves the binding of `x` alone -/
theorem execB_vars (env : Env) (cur : Option Exc) (x : Nat) (b : Block) (hb : b.binds x = false) (w : World) :
    lookupNat (execB env cur w b).1.vars x = lookupNat w.vars x := by
  cases b with
  | nil => rfl
  | cons st rest =>
    simp only [Block.binds, Bool.or_eq_false_iff] at hb
    simp only [execB]
    have h1 := execS_vars env cur x st hb.1 w
    cases hr : execS env cur w st with
    | mk w1 o =>
      rw [hr] at h1
      cases o with
      | ok => simp only; rw [execB_vars env cur x rest hb.2 w1]; exact h1
      | stuck => exact h1
      | raised e => exact h1
end

end Sys
