import Eliot.Conc.Once
import Eliot.Generated.Once
/-! `at_most_once` (C06): with the non-blocking-lock guard exactly one of n concurrent invocations
runs f, all others raise TooManyCalls - for every n and every schedule. -/
namespace Eliot.Conc.Once

/-- generated obligation (E3): the guard in the current source is a non-blocking acquire of a
`threading.Lock` that is never released -/
example : Eliot.Generated.onceGuard = .tryLock := by decide

structure Inv (n : Nat) (s : State) : Prop where
  tk : s.taken = s.winner.isSome
  win : ∀ t, (s.pc t = .passed ∨ s.pc t = .ran) ↔ s.winner = some t
  lt : ∀ w, s.winner = some w → w < n
  rz : ∀ t, s.pc t = .raised → s.winner.isSome = true
  nc : ∀ t, s.pc t ≠ .checked
  rn : s.runs = (match s.winner with | some w => if s.pc w = .ran then 1 else 0 | none => 0)

theorem inv_init (n : Nat) : Inv n init := by
  constructor <;> simp [init]

theorem inv_step (n : Nat) (s : State) (t : Nat) (s' : State) (hi : Inv n s) (hs : step .tryLock n s t = some s') :
    Inv n s' := by
  unfold step at hs
  by_cases htn : t < n
  · simp only [htn, ↓reduceIte] at hs
    cases hpc : s.pc t with
    | start =>
      rw [hpc] at hs
      simp only at hs
      by_cases htk : s.taken = true
      · rw [if_pos htk] at hs
        injection hs with hs
        subst hs
        have hw : s.winner.isSome = true := by rw [← hi.tk]; exact htk
        have hne : s.winner ≠ some t := by
          intro h
          have := (hi.win t).mpr h
          rw [hpc] at this
          rcases this with h | h <;> cases h
        refine { tk := hi.tk, win := ?_, lt := hi.lt, rz := ?_, nc := ?_, rn := ?_ }
        · intro x
          by_cases hx : x = t
          · subst hx; simp [upd, hne]
          · simpa [upd, hx] using hi.win x
        · intro x hx'
          exact hw
        · intro x
          by_cases hx : x = t
          · subst hx; simp [upd]
          · simpa [upd, hx] using hi.nc x
        · have := hi.rn
          cases hwn : s.winner with
          | none => rw [hwn] at hw; cases hw
          | some w =>
            have hwt : w ≠ t := fun h => hne (by rw [hwn, h])
            simp only [hwn] at this ⊢
            simpa [upd, hwt] using this
      · have htk' : s.taken = false := by simpa using htk
        rw [if_neg htk] at hs
        injection hs with hs
        subst hs
        have hwn : s.winner = none := by
          have := hi.tk; rw [htk'] at this
          cases h : s.winner with
          | none => rfl
          | some w => rw [h] at this; cases this
        have hnone : ∀ x, ¬ (s.pc x = .passed ∨ s.pc x = .ran) := by
          intro x h; have := (hi.win x).mp h; rw [hwn] at this; cases this
        refine { tk := rfl, win := ?_, lt := ?_, rz := ?_, nc := ?_, rn := ?_ }
        · intro x
          by_cases hx : x = t
          · subst hx; simp [upd]
          · have hx' : ¬ t = x := fun h => hx h.symm
            simp only [upd, hx, ↓reduceIte, Option.some.injEq, hx', iff_false]
            exact hnone x
        · intro w hw; simp only [Option.some.injEq] at hw; subst hw; exact htn
        · intro x _; rfl
        · intro x
          by_cases hx : x = t
          · subst hx; simp [upd]
          · simpa [upd, hx] using hi.nc x
        · have := hi.rn
          rw [hwn] at this
          simp [upd, this]
    | checked => exact absurd hpc (hi.nc t)
    | passed =>
      rw [hpc] at hs
      injection hs with hs
      subst hs
      have hw : s.winner = some t := (hi.win t).mp (Or.inl hpc)
      refine { tk := hi.tk, win := ?_, lt := hi.lt, rz := ?_, nc := ?_, rn := ?_ }
      · intro x
        by_cases hx : x = t
        · subst hx; simp [upd, hw]
        · simpa [upd, hx] using hi.win x
      · intro x hx'
        by_cases hx : x = t
        · subst hx; simp [hw]
        · exact hi.rz x (by simpa [upd, hx] using hx')
      · intro x
        by_cases hx : x = t
        · subst hx; simp [upd]
        · simpa [upd, hx] using hi.nc x
      · have := hi.rn
        rw [hw] at this
        simp only [hpc] at this
        simp [hw, upd, this]
    | ran => rw [hpc] at hs; cases hs
    | raised => rw [hpc] at hs; cases hs
  · simp [htn] at hs

theorem inv_run (n : Nat) (sched : List Nat) : Inv n (run .tryLock n sched) :=
  (sys .tryLock n).inv_run (Inv n) (fun s t s' h hs => inv_step n s t s' h hs) _ (inv_init n) sched

/-- **at_most_once**: for every number n of concurrent invocations and every schedule, f never runs
more than once; and once all n invocations have finished (n ≥ 1), exactly one of them ran f and
every other one raised TooManyCalls. -/
theorem at_most_once (n : Nat) (sched : List Nat) :
    let s := run .tryLock n sched
    s.runs ≤ 1 ∧
    (0 < n → Done n s → s.runs = 1 ∧ ∃ w, w < n ∧ s.pc w = .ran ∧ ∀ t, t < n → t ≠ w → s.pc t = .raised) := by
  intro s
  have hi : Inv n s := inv_run n sched
  clear_value s
  refine ⟨?_, ?_⟩
  · rw [hi.rn]
    cases s.winner with
    | none => simp
    | some w => simp only; split <;> simp
  · intro hn hd
    have h0 := hd 0 hn
    have hws : s.winner.isSome = true := by
      rcases h0 with h | h
      · rw [(hi.win 0).mp (Or.inr h)]; rfl
      · exact hi.rz 0 h
    cases hw : s.winner with
    | none => rw [hw] at hws; cases hws
    | some w =>
      have hwn := hi.lt w hw
      have hwr : s.pc w = .ran := by
        rcases hd w hwn with h | h
        · exact h
        · have := (hi.win w).mpr hw
          rw [h] at this
          rcases this with h | h <;> cases h
      refine ⟨by rw [hi.rn, hw]; simp [hwr], w, hwn, hwr, ?_⟩
      intro t ht hne
      rcases hd t ht with h | h
      · have := (hi.win t).mp (Or.inr h)
        rw [hw] at this
        exact absurd (Option.some.inj this).symm hne
      · exact h

/-! Non-vacuity, and what the failing-input search finds for a check-then-set flag. -/
example : (run .tryLock 3 [0, 1, 2, 1, 0, 2]).runs = 1 ∧ (run .tryLock 3 [0, 1, 2, 1, 0, 2]).pc 0 = .ran ∧
    (run .tryLock 3 [0, 1, 2, 1, 0, 2]).pc 1 = .raised ∧ (run .tryLock 3 [0, 1, 2, 1, 0, 2]).pc 2 = .raised := by decide
theorem check_then_set_runs_twice : ∃ sched, (run .checkThenSet 2 sched).runs = 2 :=
  ⟨[0, 1, 0, 1, 0, 1], by decide⟩

end Eliot.Conc.Once
