import Eliot.Model.Level
/-! Lemmas about the string form of task levels (C06): decimal digits are non-empty, contain no
separator and parse back; `split` undoes `join` on separator-free non-empty pieces. -/
namespace Level

/-! ## digits -/

theorem charDigit_digitChar (d : Nat) (hd : d < 10) : charDigit? (digitChar d) = some d := by
  match d, hd with
  | 0, _ => rfl | 1, _ => rfl | 2, _ => rfl | 3, _ => rfl | 4, _ => rfl
  | 5, _ => rfl | 6, _ => rfl | 7, _ => rfl | 8, _ => rfl | 9, _ => rfl
  | n + 10, h => exact absurd h (by omega)

/-- a digit is one of the ten ASCII digit characters: code point 48..57 -/
theorem digitChar_range (d : Nat) : 48 ≤ (digitChar d).toNat ∧ (digitChar d).toNat ≤ 57 := by
  match d with
  | 0 => decide | 1 => decide | 2 => decide | 3 => decide | 4 => decide
  | 5 => decide | 6 => decide | 7 => decide | 8 => decide
  | n + 9 =>
    have : digitChar (n + 9) = '9' := by
      unfold digitChar
      split <;> first | rfl | omega
    rw [this]; decide

theorem digitChar_ne_of_not_digit (d : Nat) (c : Char) (hc : c.toNat < 48 ∨ 57 < c.toNat) : digitChar d ≠ c := by
  intro h
  have := digitChar_range d
  rw [h] at this
  omega

theorem natDigits_ne_nil (n : Nat) : natDigits n ≠ [] := by
  unfold natDigits
  split <;> simp

/-- every character of `str(n)` is an ASCII digit -/
theorem natDigits_range (n : Nat) : ∀ c ∈ natDigits n, 48 ≤ c.toNat ∧ c.toNat ≤ 57 := by
  induction n using Nat.strongRecOn with
  | _ n ih =>
    intro c hc
    unfold natDigits at hc
    split at hc
    · simp only [List.mem_singleton] at hc
      subst hc; exact digitChar_range n
    · rename_i h
      simp only [List.mem_append, List.mem_singleton] at hc
      rcases hc with hc | hc
      · exact ih (n / 10) (by omega) c hc
      · subst hc; exact digitChar_range _

theorem natDigits_no (n : Nat) (c : Char) (hc : c.toNat < 48 ∨ 57 < c.toNat) : c ∉ natDigits n := by
  intro h
  have := natDigits_range n c h
  omega

theorem parseDigits_append (acc : Nat) (a b : List Char) :
    parseDigits acc (a ++ b) = (parseDigits acc a).bind (fun r => parseDigits r b) := by
  induction a generalizing acc with
  | nil => rfl
  | cons c cs ih =>
    simp only [List.cons_append, parseDigits]
    cases charDigit? c with
    | none => rfl
    | some d => exact ih _

theorem parseDigits_natDigits (n : Nat) : parseDigits 0 (natDigits n) = some n := by
  induction n using Nat.strongRecOn with
  | _ n ih =>
    unfold natDigits
    split
    · rename_i h
      simp [parseDigits, charDigit_digitChar n h]
    · rename_i h
      rw [parseDigits_append, ih (n / 10) (by omega)]
      simp only [Option.bind_some, parseDigits, charDigit_digitChar (n % 10) (by omega)]
      congr 1
      omega

/-- `int(str(n)) == n` -/
theorem parseNat_natDigits (n : Nat) : parseNat? (natDigits n) = some n := by
  have h := parseDigits_natDigits n
  cases hd : natDigits n with
  | nil => exact absurd hd (natDigits_ne_nil n)
  | cons c cs => rw [hd] at h; exact h

/-! ## split / join -/

theorem splitOn_ne_nil (sep : Char) (s : List Char) : splitOn sep s ≠ [] := by
  induction s with
  | nil => simp [splitOn]
  | cons c cs ih =>
    unfold splitOn
    split
    · simp
    · split <;> simp

/-- no separator: one piece -/
theorem splitOn_of_not_mem (sep : Char) (s : List Char) (h : sep ∉ s) : splitOn sep s = [s] := by
  induction s with
  | nil => rfl
  | cons c cs ih =>
    have hc : c ≠ sep := fun e => h (by simp [e])
    have hcs : sep ∉ cs := fun e => h (by simp [e])
    rw [splitOn.eq_2, if_neg hc, ih hcs]

/-- the first separator ends the first piece -/
theorem splitOn_append_sep (sep : Char) (a b : List Char) (h : sep ∉ a) :
    splitOn sep (a ++ sep :: b) = a :: splitOn sep b := by
  induction a with
  | nil => simp [splitOn]
  | cons c cs ih =>
    have hc : c ≠ sep := fun e => h (by simp [e])
    have hcs : sep ∉ cs := fun e => h (by simp [e])
    rw [List.cons_append, splitOn.eq_2, if_neg hc, ih hcs]

/-- `sep.join(ps).split(sep) == ps` for a non-empty list of separator-free pieces -/
theorem splitOn_joinWith (sep : Char) (ps : List (List Char)) (hne : ps ≠ []) (h : ∀ p ∈ ps, sep ∉ p) :
    splitOn sep (joinWith sep ps) = ps := by
  induction ps with
  | nil => exact absurd rfl hne
  | cons x r ih =>
    cases r with
    | nil => exact splitOn_of_not_mem sep x (h x (by simp))
    | cons y r' =>
      simp only [joinWith]
      rw [splitOn_append_sep sep x _ (h x (by simp)), ih (by simp) (fun p hp => h p (by simp [hp]))]

theorem mapNat_map_natDigits (l : List Nat) : mapNat? (l.map natDigits) = some l := by
  induction l with
  | nil => rfl
  | cons n ns ih => simp [mapNat?, parseNat_natDigits, ih]

theorem components_toChars (l : List Nat) : components (toChars l) = l.map natDigits := by
  unfold components toChars
  have hslash : ('/' : Char).toNat < 48 ∨ 57 < ('/' : Char).toNat := by decide
  cases l with
  | nil => simp [joinWith, splitOn]
  | cons n ns =>
    have hs : splitOn '/' ('/' :: joinWith '/' ((n :: ns).map natDigits)) = [] :: (n :: ns).map natDigits := by
      have := splitOn_append_sep '/' [] (joinWith '/' ((n :: ns).map natDigits)) (by simp)
      rw [List.nil_append] at this
      rw [this, splitOn_joinWith '/' _ (by simp)]
      intro p hp
      obtain ⟨m, _, rfl⟩ := List.mem_map.mp hp
      exact natDigits_no m '/' hslash
    rw [hs]
    rw [List.filter_cons_of_neg (by simp)]
    apply List.filter_eq_self.mpr
    intro p hp
    obtain ⟨m, _, rfl⟩ := List.mem_map.mp hp
    have := natDigits_ne_nil m
    cases hd : natDigits m with
    | nil => exact absurd hd this
    | cons c cs => simp

/-! ## ASCII -/

theorem joinWith_digits_ascii (l : List Nat) : ∀ c ∈ joinWith '/' (l.map natDigits), c.toNat < 128 := by
  induction l with
  | nil => intro c hc; simp [joinWith] at hc
  | cons n ns ih =>
    intro c hc
    cases ns with
    | nil =>
      simp only [List.map_cons, List.map_nil, joinWith] at hc
      have := natDigits_range n c hc; omega
    | cons m ms =>
      simp only [List.map_cons, joinWith, List.mem_append, List.mem_cons] at hc
      rcases hc with hc | hc | hc
      · have := natDigits_range n c hc; omega
      · rw [hc]; decide
      · exact ih c (by simpa [List.map_cons] using hc)

theorem toChars_ascii (l : List Nat) : ∀ c ∈ toChars l, c.toNat < 128 := by
  unfold toChars
  intro c hc
  rcases List.mem_cons.mp hc with hc | hc
  · rw [hc]; decide
  · exact joinWith_digits_ascii l c hc

theorem decode_encode (s : List Char) (h : ∀ c ∈ s, c.toNat < 128) :
    encodeAscii s = some (s.map Char.toNat) ∧ decodeAscii (s.map Char.toNat) = some s := by
  constructor
  · unfold encodeAscii
    rw [if_pos (by simpa using h)]
  · unfold decodeAscii
    rw [if_pos (by simpa using h)]
    congr 1
    rw [List.map_map]
    conv => rhs; rw [← List.map_id s]
    apply List.map_congr_left
    intro c _
    exact Char.ofNat_toNat c

end Level
