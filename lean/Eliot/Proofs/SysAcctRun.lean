import Eliot.Properties.C13
import Eliot.Proofs.SysAcct
import Eliot.Proofs.SysLiftSpec
/-! Run-level accounting of destination-failure reports.

`AIe w n`: in `w`, (staged failure reports) + (accepted deliveries of non-report dicts) + `n` =
(deliveries of non-report dicts); `n` is the number of collected errors not yet reported (it is
non-zero only between the fan-out loop and the end of the report loop of one `send`).  `AI = AIe · 0`
is preserved by every primitive whose arguments cannot produce a dict of the report type by
themselves (`acctPrimC`), hence by every program all of whose statements are of that kind. -/
namespace Sys
open Sys.C04 Sys.C13

/-- deliveries (or accepted deliveries) of dicts that are not failure reports -/
def nrCalls (l : List (Nat × Msg)) : Nat := (l.filter (fun e => !isReport e.2)).length
/-- staged dicts of the failure-report type -/
def reportsStaged (w : World) : Nat := (w.stage.filter isReport).length

theorem nrCalls_append (a b : List (Nat × Msg)) : nrCalls (a ++ b) = nrCalls a + nrCalls b := by
  simp [nrCalls, List.filter_append]

theorem nrCalls_const (l : List (Nat × Msg)) (m : Msg) (h : ∀ e ∈ l, e.2 = m) :
    nrCalls l = if isReport m = true then 0 else l.length := by
  induction l with
  | nil => simp [nrCalls]
  | cons x xs ih =>
    have hx := h x List.mem_cons_self
    have ih' := ih (fun e he => h e (List.mem_cons_of_mem _ he))
    simp only [nrCalls] at ih' ⊢
    cases hr : isReport m with
    | true => simp [List.filter_cons, hx, hr] at ih' ⊢; exact ih'
    | false => simp [List.filter_cons, hx, hr] at ih' ⊢; exact ih'

theorem isReport_of_none {m : Msg} (h : m.get? "message_type" = none) : isReport m = false := by
  simp [isReport, h]

theorem isReport_of_type {m : Msg} {t : String} (h : m.get? "message_type" = some (.str t)) (ht : t ≠ DESTINATION_FAILURE) :
    isReport m = false := by
  simp [isReport, h, ht]

theorem isReport_congr {m m' : Msg} (h : m'.get? "message_type" = m.get? "message_type") : isReport m' = isReport m := by
  simp [isReport, h]

theorem isReport_update {m g : Fields} (hg : g.get? "message_type" = none) : isReport (Fields.update m g) = isReport m :=
  isReport_congr (C08.Fields.get?_update_none m g _ hg)

theorem buildLog_mt (w : World) (h : Nat) (t : String) (f : Fields) :
    (w.buildLog h t f).2.get? "message_type" = some (.str t) := by
  simp only [World.buildLog]
  exact Fields.get?_set_self _ _ _

/-! ### the fan-out loop, counted -/
theorem fanOut_counts (env : Env) (m : Msg) (ds : List Nat) (w : World) :
    ∃ offN accN, (World.fanOut env w m ds).1.offered = w.offered ++ offN ∧
      (World.fanOut env w m ds).1.accepted = w.accepted ++ accN ∧
      (∀ e ∈ offN, e.2 = m) ∧ (∀ e ∈ accN, e.2 = m) ∧
      offN.length = accN.length + (World.fanOut env w m ds).2.length := by
  induction ds generalizing w with
  | nil => exact ⟨[], [], by simp [World.fanOut], by simp [World.fanOut], by simp, by simp, by simp [World.fanOut]⟩
  | cons d ds ih =>
    obtain ⟨offN, accN, h1, h2, h3, h4, h5⟩ := ih (w.callDest env d m).1
    obtain ⟨c1, _, c3⟩ := callDest_offered env w d m
    obtain ⟨_, c5⟩ := callDest_calls env w d m
    simp only [World.fanOut]
    cases hf : env.destFails d ((lookupNat w.destCalls d).getD 0) with
    | none =>
      rw [hf] at c3 c5
      refine ⟨(d, m) :: offN, (d, m) :: accN, by rw [h1, c1]; simp, by rw [h2, c3]; simp, ?_, ?_, ?_⟩
      · intro e he
        rcases List.mem_cons.mp he with he | he
        · rw [he]
        · exact h3 e he
      · intro e he
        rcases List.mem_cons.mp he with he | he
        · rw [he]
        · exact h4 e he
      · rw [c5]; simp only [List.length_cons, List.nil_append]; omega
    | some x =>
      rw [hf] at c3 c5
      refine ⟨(d, m) :: offN, accN, by rw [h1, c1]; simp, by rw [h2, c3]; simp, ?_, h4, ?_⟩
      · intro e he
        rcases List.mem_cons.mp he with he | he
        · rw [he]
        · exact h3 e he
      · rw [c5]; simp only [List.length_cons, List.length_append, List.length_nil]; omega

theorem callDest_buffer (env : Env) (w : World) (d : Nat) (m : Msg) : (w.callDest env d m).1.buffer = w.buffer := by
  unfold World.callDest
  simp only
  split <;> rfl

theorem fanOut_buffer (env : Env) (m : Msg) (ds : List Nat) (w : World) : (World.fanOut env w m ds).1.buffer = w.buffer := by
  induction ds generalizing w with
  | nil => rfl
  | cons d ds ih => simp only [World.fanOut]; exact (ih _).trans (callDest_buffer env w d m)

/-- `deliver`, as far as the accounting is concerned -/
theorem deliver_acct (env : Env) (w : World) (m : Msg) :
    (w.deliver env m).1.stage = w.stage ++ [Fields.update m w.globals] ∧
    (w.deliver env m).1.globals = w.globals ∧ (w.deliver env m).1.anyAdded = w.anyAdded ∧
    ((w.anyAdded = true ∧ (w.deliver env m).1.buffer = w.buffer ∧
        ∃ offN accN, (w.deliver env m).1.offered = w.offered ++ offN ∧ (w.deliver env m).1.accepted = w.accepted ++ accN ∧
          (∀ e ∈ offN, e.2 = Fields.update m w.globals) ∧ (∀ e ∈ accN, e.2 = Fields.update m w.globals) ∧
          (isReport (Fields.update m w.globals) = false → offN.length = accN.length + (w.deliver env m).2.2.length) ∧
          (isReport (Fields.update m w.globals) = true → (w.deliver env m).2.2 = [])) ∨
     (w.anyAdded = false ∧ (w.deliver env m).1.buffer = trim1000 (w.buffer ++ [Fields.update m w.globals]) ∧
        (w.deliver env m).1.offered = w.offered ∧ (w.deliver env m).1.accepted = w.accepted ∧ (w.deliver env m).2.2 = [])) := by
  have fr := frame_deliver env w m
  refine ⟨C08.deliver_stage env w m, fr.globals, fr.anyAdded, ?_⟩
  have he := deliver_errors env w m
  by_cases ha : w.anyAdded = true
  · left
    have e : (w.deliver env m).1 = { (World.fanOut env { w with stage := w.stage ++ [Fields.update m w.globals], stageAt := w.stageAt ++ [w.dests] } (Fields.update m w.globals) w.dests).1 with lastSlot := none } := by
      simp only [World.deliver, ha, if_true]
    obtain ⟨offN, accN, h1, h2, h3, h4, h5⟩ := fanOut_counts env (Fields.update m w.globals) w.dests
      { w with stage := w.stage ++ [Fields.update m w.globals], stageAt := w.stageAt ++ [w.dests] }
    have hb := fanOut_buffer env (Fields.update m w.globals) w.dests
      { w with stage := w.stage ++ [Fields.update m w.globals], stageAt := w.stageAt ++ [w.dests] }
    have hfe := fanOut_errors env (Fields.update m w.globals) w.dests
      { w with stage := w.stage ++ [Fields.update m w.globals], stageAt := w.stageAt ++ [w.dests] }
    refine ⟨ha, by rw [e]; exact hb, offN, accN, by rw [e]; exact h1, by rw [e]; exact h2, h3, h4, fun hr => ?_, fun hr => ?_⟩
    · rw [he, if_pos ⟨ha, hr⟩, h5, hfe]
    · rw [he, if_neg (by simp [hr])]
  · right
    have ha' : w.anyAdded = false := by simpa using ha
    have e : (w.deliver env m).1 =
        { w with stage := w.stage ++ [Fields.update m w.globals], stageAt := w.stageAt ++ [w.dests], buffer := trim1000 (w.buffer ++ [Fields.update m w.globals]), bufferAt := trimAt (w.bufferAt ++ [(Fields.update m w.globals, w.lastSlot)]), lastSlot := none } := by
      simp only [World.deliver, ha]; rfl
    refine ⟨ha', by rw [e], by rw [e], by rw [e], ?_⟩
    rw [he, if_neg (by simp [ha'])]

/-! ### the invariant -/
structure AIe (w : World) (n : Nat) : Prop where
  glob : w.globals.get? "message_type" = none
  buf : ∀ m ∈ w.buffer, isReport m = false
  acc : reportsStaged w + nrCalls w.accepted + n = nrCalls w.offered
  dbt : n = 0 ∨ w.anyAdded = true

abbrev AI (w : World) : Prop := AIe w 0

theorem AI.init : AI {} := ⟨rfl, fun _ h => (nomatch h), rfl, Or.inl rfl⟩

theorem AIe.same {w w' : World} {n : Nat} (h : AIe w n) (h1 : w'.stage = w.stage) (h2 : w'.offered = w.offered)
    (h3 : w'.accepted = w.accepted) (h4 : w'.globals = w.globals) (h5 : w'.buffer = w.buffer)
    (h6 : w'.anyAdded = w.anyAdded) : AIe w' n :=
  ⟨by rw [h4]; exact h.glob, by rw [h5]; exact h.buf, by simp only [reportsStaged, h1, h2, h3]; exact h.acc,
   by rw [h6]; exact h.dbt⟩

theorem nextLevel_acct (w : World) (h : Nat) :
    (w.nextLevel h).1.stage = w.stage ∧ (w.nextLevel h).1.offered = w.offered ∧ (w.nextLevel h).1.accepted = w.accepted ∧
    (w.nextLevel h).1.globals = w.globals ∧ (w.nextLevel h).1.buffer = w.buffer ∧ (w.nextLevel h).1.anyAdded = w.anyAdded := by
  unfold World.nextLevel
  cases w.acts[h]? <;> exact ⟨rfl, rfl, rfl, rfl, rfl, rfl⟩

theorem AIe.nextLevel {w : World} {n : Nat} (h : AIe w n) (x : Nat) : AIe (w.nextLevel x).1 n := by
  obtain ⟨h1, h2, h3, h4, h5, h6⟩ := nextLevel_acct w x
  exact h.same h1 h2 h3 h4 h5 h6

theorem AIe.clock {w : World} {n : Nat} (h : AIe w n) : AIe w.clock.1 n := h.same rfl rfl rfl rfl rfl rfl

theorem AIe.currentOrFresh {w : World} {n : Nat} (h : AIe w n) : AIe w.currentOrFresh.1 n := by
  unfold World.currentOrFresh
  cases w.ctx with
  | none => exact h.same rfl rfl rfl rfl rfl rfl
  | some c => exact h

theorem AIe.buildLog {w : World} {n : Nat} (h : AIe w n) (x : Nat) (t : String) (f : Fields) : AIe (w.buildLog x t f).1 n := by
  unfold World.buildLog
  exact h.clock.nextLevel x

theorem reportsStaged_push (w w' : World) (m : Msg) (h : w'.stage = w.stage ++ [m]) :
    reportsStaged w' = reportsStaged w + (if isReport m = true then 1 else 0) := by
  simp only [reportsStaged, h, List.filter_append, List.length_append]
  cases hr : isReport m <;> simp [List.filter, hr]

/-- the fan-out of a non-report message: the collected errors become the debt -/
theorem AIe.deliver_nr (env : Env) {w : World} (h : AI w) (m : Msg) (hm : isReport m = false) :
    AIe (w.deliver env m).1 (w.deliver env m).2.2.length := by
  have hm' : isReport (Fields.update m w.globals) = false := by rw [isReport_update h.glob]; exact hm
  obtain ⟨s1, g1, a1, hcase⟩ := deliver_acct env w m
  have hrs := reportsStaged_push w _ _ s1
  rw [hm'] at hrs
  rcases hcase with ⟨ha, hb, offN, accN, o1, o2, o3, o4, o5, _⟩ | ⟨ha, hb, o1, o2, o5⟩
  · refine ⟨by rw [g1]; exact h.glob, by rw [hb]; exact h.buf, ?_, Or.inr (by rw [a1]; exact ha)⟩
    have e1 := nrCalls_const offN _ o3
    have e2 := nrCalls_const accN _ o4
    rw [hm'] at e1 e2
    have := h.acc
    have := o5 hm'
    rw [hrs, o1, o2, nrCalls_append, nrCalls_append, e1, e2]
    simp at *
    omega
  · refine ⟨by rw [g1]; exact h.glob, ?_, ?_, Or.inl (by rw [o5]; rfl)⟩
    · rw [hb]
      intro x hx
      have hx' := List.mem_of_mem_drop hx
      rcases List.mem_append.mp hx' with hx' | hx'
      · exact h.buf x hx'
      · rw [List.mem_singleton.mp hx']; exact hm'
    · have := h.acc
      rw [hrs, o1, o2, o5]
      simp at *
      omega

/-- one report is logged: one unit of debt is paid -/
theorem AIe.logReport (env : Env) {w : World} {n : Nat} (h : AIe w (n + 1)) (f : Fields) : AIe (w.logReport env f) n := by
  unfold World.logReport
  simp only
  have hb := (h.currentOrFresh).buildLog w.currentOrFresh.2 DESTINATION_FAILURE f
  generalize (w.currentOrFresh.1.buildLog w.currentOrFresh.2 DESTINATION_FAILURE f).1 = W at hb
  have hmt := buildLog_mt w.currentOrFresh.1 w.currentOrFresh.2 DESTINATION_FAILURE f
  generalize (w.currentOrFresh.1.buildLog w.currentOrFresh.2 DESTINATION_FAILURE f).2 = M at hmt
  have hm' : isReport (Fields.update M W.globals) = true := by
    rw [isReport_update hb.glob]; simp [isReport, hmt]
  have hany : W.anyAdded = true := by
    rcases hb.dbt with h0 | h0
    · omega
    · exact h0
  obtain ⟨s1, g1, a1, hcase⟩ := deliver_acct env W M
  have hrs := reportsStaged_push W _ _ s1
  rw [hm'] at hrs
  rcases hcase with ⟨ha, hbuf, offN, accN, o1, o2, o3, o4, _, _⟩ | ⟨ha, _⟩
  · refine ⟨by rw [g1]; exact hb.glob, by rw [hbuf]; exact hb.buf, ?_, Or.inr (by rw [a1]; exact ha)⟩
    have e1 := nrCalls_const offN _ o3
    have e2 := nrCalls_const accN _ o4
    rw [hm'] at e1 e2
    have := hb.acc
    rw [hrs, o1, o2, nrCalls_append, nrCalls_append, e1, e2]
    simp at *
    omega
  · rw [hany] at ha; cases ha

theorem AIe.reportAll (env : Env) (m : Msg) (es : List Exc) {w : World} (h : AIe w es.length) : AI (World.reportAll env w m es) := by
  induction es generalizing w with
  | nil => exact h
  | cons e es ih => exact ih (AIe.logReport env h _)

/-- `Destinations.send` of a dict that is not of the report type keeps the books balanced -/
theorem AI.send (env : Env) {w : World} (h : AI w) (m : Msg) (hm : isReport m = false) : AI (w.send env m) := by
  unfold World.send
  exact AIe.reportAll env _ _ (AIe.deliver_nr env h m hm)

theorem AI.logNoSer (env : Env) {w : World} (h : AI w) (t : String) (f : Fields) (ht : t ≠ DESTINATION_FAILURE) :
    AI (w.logNoSer env t f) := by
  unfold World.logNoSer
  exact AI.send env ((h.currentOrFresh).buildLog _ t f) _ (isReport_of_type (buildLog_mt _ _ t f) ht)

/-! ### exception extraction -/
/-- no registered extractor returns a field named `message_type` -/
def ExtOK (env : Env) : Prop :=
  ∀ c f e k fs, env.extractor c = some f → f e k = .ok fs → fs.get? "message_type" = none

theorem firstExtractor_some (env : Env) (l : List Nat) (f : Exc → Nat → Except Exc Fields)
    (h : firstExtractor env l = some f) : ∃ c, env.extractor c = some f := by
  induction l with
  | nil => cases h
  | cons c cs ih =>
    simp only [firstExtractor] at h
    cases hc : env.extractor c with
    | some g => rw [hc] at h; cases h; exact ⟨c, hc⟩
    | none => rw [hc] at h; exact ih h

theorem AI.getFields (env : Env) {w : World} (h : AI w) (e : Exc) : AI (World.getFields env w e).1 := by
  unfold World.getFields
  cases firstExtractor env (env.mro (e.cls env)) with
  | none => exact h
  | some f =>
    simp only
    have h1 : AI ({ w with extCalls := w.extCalls + 1 } : World) := h.same rfl rfl rfl rfl rfl rfl
    cases f e w.extCalls with
    | ok fs => exact h1
    | error e' => exact AI.logNoSer env h1 _ _ (by decide)

theorem getFields_fields (env : Env) (hx : ExtOK env) (w : World) (e : Exc) :
    (World.getFields env w e).2.get? "message_type" = none := by
  unfold World.getFields
  cases hf : firstExtractor env (env.mro (e.cls env)) with
  | none => rfl
  | some f =>
    simp only
    obtain ⟨c, hc⟩ := firstExtractor_some env _ f hf
    cases hr : f e w.extCalls with
    | ok fs => exact hx c f e w.extCalls fs hc hr
    | error e' => rfl

theorem AI.writeTraceback (env : Env) {w : World} (h : AI w) (e : Exc) : AI (w.writeTraceback env e) := by
  unfold World.writeTraceback
  exact AI.logNoSer env (AI.getFields env h e) _ _ (by decide)

/-! ### `Logger.write` -/
theorem AI.loggerWrite (env : Env) {w : World} (h : AI w) (m : Msg) (sers : Option (List (String × Nat)))
    (hm : isReport m = false) (hs : ∀ ss, sers = some ss → "message_type" ∉ ss.map (·.1)) :
    AI (w.loggerWrite env m sers) := by
  unfold World.loggerWrite
  cases sers with
  | none => exact AI.send env h m hm
  | some ss =>
    simp only
    obtain ⟨n, hn⟩ := serializeFields_world env ss w m
    have h1 : AI (serializeFields env w ss m).1 := by rw [hn]; exact h.same rfl rfl rfl rfl rfl rfl
    have he := serializeFields_eq env ss w m
    cases hr : (serializeFields env w ss m).2 with
    | ok m' =>
      simp only
      rw [hr] at he
      have := applySers_other env ss w.serCalls m m' "message_type" (hs ss rfl) he.symm
      exact AI.send env h1 m' (by rw [isReport_congr this]; exact hm)
    | error e =>
      simp only
      exact AI.logNoSer env (AI.writeTraceback env h1 e) _ _ (by decide)

/-! ### actions -/
/-- neither the start nor the success serializer of an action type declares `message_type` -/
def SersOK (s : Option (List (String × Nat) × List (String × Nat))) : Prop :=
  ∀ p, s = some p → "message_type" ∉ p.1.map (·.1) ∧ "message_type" ∉ p.2.map (·.1)

/-- what the books need to know about an action: no success field and no serializer named `message_type` -/
def ActOK (a : Act) : Prop := a.succ.get? "message_type" = none ∧ SersOK a.sers

theorem AI.startRec (env : Env) {w : World} (h : AI w) (x : Nat) (f : Fields) (hf : f.get? "message_type" = none)
    (ha : ∀ a, w.acts[x]? = some a → SersOK a.sers) : AI (w.startRec env x f) := by
  cases hx : w.acts[x]? with
  | none => simp only [World.startRec, hx]; exact h
  | some a =>
    rw [startRec_eq env w x a f hx]
    refine AI.loggerWrite env (h.clock.nextLevel x) _ _ (isReport_of_none ?_) (fun ss hss => ?_)
    · simp only [startDict]
      rw [Fields.get?_set_ne _ _ _ _ (by decide), Fields.get?_set_ne _ _ _ _ (by decide), Fields.get?_set_ne _ _ _ _ (by decide),
        Fields.get?_set_ne _ _ _ _ (by decide), Fields.get?_set_ne _ _ _ _ (by decide)]
      exact hf
    · cases hsers : a.sers with
      | none => rw [hsers] at hss; cases hss
      | some p =>
        rw [hsers] at hss
        simp only [Option.map_some, Option.some.injEq] at hss
        rw [← hss]
        exact (ha a hx p hsers).1

theorem AI.finishRec (env : Env) (hext : ExtOK env) {w : World} (h : AI w) (x : Nat) (exc : Option Exc)
    (ha : ∀ a, w.acts[x]? = some a → ActOK a) : AI (w.finishRec env x exc) := by
  cases hx : w.acts[x]? with
  | none => rw [finishRec_none env w x exc hx]; exact h
  | some a =>
    cases hf : a.finished with
    | true => rw [finishRec_finished env w x exc a hx hf]; exact h
    | false =>
      obtain ⟨hsucc, hsers⟩ := ha a hx
      have h0 : AI (w.setFin x a) := h.same rfl rfl rfl rfl rfl rfl
      cases exc with
      | none =>
        rw [finishRec_ok_eq env w x a hx hf]
        refine AI.loggerWrite env (h0.clock.nextLevel x) _ _ (isReport_of_none ?_) (fun ss hss => ?_)
        · simp only [succDict]
          rw [Fields.get?_set_ne _ _ _ _ (by decide), Fields.get?_set_ne _ _ _ _ (by decide), Fields.get?_set_ne _ _ _ _ (by decide),
            Fields.get?_set_ne _ _ _ _ (by decide), Fields.get?_set_ne _ _ _ _ (by decide)]
          exact hsucc
        · cases hs : a.sers with
          | none => rw [hs] at hss; cases hss
          | some p =>
            rw [hs] at hss
            simp only [Option.map_some, Option.some.injEq] at hss
            rw [← hss]
            exact (hsers p hs).2
      | some e =>
        rw [finishRec_err_eq env w x a e hx hf]
        refine AI.loggerWrite env (((AI.getFields env h0 e).clock).nextLevel x) _ _ (isReport_of_none ?_) (fun ss hss => ?_)
        · rw [Fields.get?_set_ne _ _ _ _ (by decide), Fields.get?_set_ne _ _ _ _ (by decide), Fields.get?_set_ne _ _ _ _ (by decide),
            Fields.get?_set_ne _ _ _ _ (by decide), Fields.get?_set_ne _ _ _ _ (by decide), Fields.get?_set_ne _ _ _ _ (by decide),
            Fields.get?_set_ne _ _ _ _ (by decide)]
          exact getFields_fields env hext _ e
        · cases hs : a.sers with
          | none => rw [hs] at hss; cases hss
          | some p =>
            rw [hs] at hss
            simp only [Option.map_some, Option.some.injEq] at hss
            rw [← hss]
            simp

/-- the condition on `start_action` / `continue_task` arguments -/
def specOK (sp : Spec) : Bool :=
  sp.fields.get? "message_type" == none &&
    (match sp.sers with
     | none => true
     | some p => !(p.1.map (·.1)).contains "message_type" && !(p.2.map (·.1)).contains "message_type")

/-- the condition on `log_message` / `MessageType.log` arguments -/
def mspecOK (ms : MSpec) : Bool :=
  ms.mtype != DESTINATION_FAILURE &&
    (match ms.sers with
     | none => true
     | some ss => !(ss.map (·.1)).contains "message_type")

theorem specOK_spec {sp : Spec} (h : specOK sp = true) : sp.fields.get? "message_type" = none ∧ SersOK sp.sers := by
  simp only [specOK, Bool.and_eq_true, beq_iff_eq] at h
  refine ⟨h.1, fun p hp => ?_⟩
  rw [hp] at h
  simpa using h.2

theorem AI.startAction (env : Env) {w : World} (h : AI w) (task : Bool) (sp : Spec) (hsp : specOK sp = true) :
    AI (w.startAction env task sp).1 := by
  obtain ⟨hf, hs⟩ := specOK_spec hsp
  unfold World.startAction
  split
  · have h1 : AI (w.freshAction sp.atype sp.sers).1 := h.same rfl rfl rfl rfl rfl rfl
    refine AI.startRec env h1 (w.freshAction sp.atype sp.sers).2 sp.fields hf (fun a ha => ?_)
    have : a.sers = sp.sers := by
      simp [World.freshAction] at ha
      rw [← ha]
    rw [this]; exact hs
  · rename_i p _
    split
    · exact h
    · rename_i pa hpa
      have h1 : AI (w.nextLevel p).1 := h.nextLevel p
      have h2 : AI ({ (w.nextLevel p).1 with acts := (w.nextLevel p).1.acts ++
          [({ uuid := pa.uuid, level := (w.nextLevel p).2, atype := sp.atype, sers := sp.sers } : Act)] } : World) :=
        h1.same rfl rfl rfl rfl rfl rfl
      refine AI.startRec env h2 (w.nextLevel p).1.acts.length sp.fields hf (fun a ha => ?_)
      have : a.sers = sp.sers := by
        simp at ha
        rw [← ha]
      rw [this]; exact hs

theorem AI.continueTask (env : Env) {w : World} (h : AI w) (u : Nat) (lvl : Level) (sp : Spec) (hsp : specOK sp = true) :
    AI (w.continueTask env u lvl sp).1 := by
  obtain ⟨hf, hs⟩ := specOK_spec hsp
  unfold World.continueTask
  have h2 : AI ({ w with acts := w.acts ++ [({ uuid := u, level := lvl, atype := sp.atype, sers := sp.sers } : Act)] } : World) :=
    h.same rfl rfl rfl rfl rfl rfl
  refine AI.startRec env h2 w.acts.length sp.fields hf (fun a ha => ?_)
  have : a.sers = sp.sers := by
    simp at ha
    rw [← ha]
  rw [this]; exact hs

theorem mspecOK_spec {ms : MSpec} (h : mspecOK ms = true) :
    ms.mtype ≠ DESTINATION_FAILURE ∧ ∀ ss, ms.sers = some ss → "message_type" ∉ ss.map (·.1) := by
  simp only [mspecOK, Bool.and_eq_true, bne_iff_ne] at h
  refine ⟨h.1, fun ss hss => ?_⟩
  rw [hss] at h
  simpa using h.2

theorem AI.logMessage (env : Env) {w : World} (h : AI w) (ms : MSpec) (hms : mspecOK ms = true) : AI (w.logMessage env ms) := by
  obtain ⟨ht, hs⟩ := mspecOK_spec hms
  unfold World.logMessage
  exact AI.loggerWrite env ((h.currentOrFresh).buildLog _ _ _) _ _ (isReport_of_type (buildLog_mt _ _ _ _) ht) hs

theorem AI.logTo (env : Env) {w : World} (h : AI w) (x : Nat) (ms : MSpec) (hms : mspecOK ms = true) : AI (w.logTo env x ms) := by
  obtain ⟨ht, hs⟩ := mspecOK_spec hms
  unfold World.logTo
  exact AI.loggerWrite env (h.buildLog _ _ _) _ _ (isReport_of_type (buildLog_mt _ _ _ _) ht) hs

/-- the first `Destinations.add`: every buffered dict is sent again -/
theorem AI.addDests (env : Env) {w : World} (h : AI w) (ds : List Nat) : AI (w.addDests env ds) := by
  unfold World.addDests
  split
  · exact h.same rfl rfl rfl rfl rfl rfl
  · have key : ∀ (buf : List Msg) (w1 : World), AI w1 → (∀ m ∈ buf, isReport m = false) →
        AI (buf.foldl (fun acc m => acc.popPending.send env m) w1) := by
      intro buf
      induction buf with
      | nil => intro w1 h1 _; exact h1
      | cons m ms ih =>
        intro w1 h1 hb
        have h2 : AI w1.popPending := h1.same rfl rfl rfl rfl rfl rfl
        exact ih _ (AI.send env h2 m (hb m List.mem_cons_self)) (fun x hx => hb x (List.mem_cons_of_mem _ hx))
    refine key w.buffer _ ?_ h.buf
    exact ⟨h.glob, fun _ hm => (nomatch hm), h.acc, Or.inl rfl⟩

/-! ### what only grows, read backwards: actions keep their serializers, success fields are only added -/
theorem Fields.get?_set_isSome (d : Fields) (k k' : String) (v : FV) (h : (d.get? k').isSome = true) :
    ((d.set k v).get? k').isSome = true := by
  by_cases e : k' = k
  · subst e; rw [Fields.get?_set_self]; rfl
  · rw [Fields.get?_set_ne _ _ _ _ e]; exact h

theorem Fields.get?_update_isSome (d e : Fields) (k : String) (h : (d.get? k).isSome = true) :
    ((Fields.update d e).get? k).isSome = true := by
  unfold Fields.update
  induction e generalizing d with
  | nil => exact h
  | cons x xs ih => exact ih _ (Fields.get?_set_isSome d x.1 k x.2 h)

theorem Fields.get?_update_none_left (d e : Fields) (k : String) (h : (Fields.update d e).get? k = none) : d.get? k = none := by
  cases hd : d.get? k with
  | none => rfl
  | some v =>
    have := Fields.get?_update_isSome d e k (by rw [hd]; rfl)
    rw [h] at this
    cases this

def BackL (l l' : List Act) : Prop :=
  ∀ (h : Nat) (a : Act), l[h]? = some a → ∃ a' : Act, l'[h]? = some a' ∧ a'.sers = a.sers ∧
    (a'.succ.get? "message_type" = none → a.succ.get? "message_type" = none)

def Back (w w' : World) : Prop := BackL w.acts w'.acts

theorem BackL.refl (l : List Act) : BackL l l := fun _ a h => ⟨a, h, rfl, id⟩

theorem Back.ofKeeps {w w' : World} (f : Frame w w') : Back w w' := fun h a ha => by
  obtain ⟨a', h1, _, _, _, _, h6, _, h8⟩ := f.keep h a ha
  exact ⟨a', h1, h8, fun hn => by rw [← h6]; exact hn⟩

theorem BackL.append (l ys : List Act) : BackL l (l ++ ys) := fun h a ha =>
  ⟨a, by rw [List.getElem?_append_left (lt_of_get ha)]; exact ha, rfl, id⟩

theorem backBasic (env : Env) : Basic env Back where
  refl := fun w => BackL.refl w.acts
  trans := fun {a b c} h1 h2 h x hx => by
    obtain ⟨y, hy, e1, e2⟩ := h1 h x hx
    obtain ⟨z, hz, f1, f2⟩ := h2 h y hy
    exact ⟨z, hz, f1.trans e1, fun hn => e2 (f2 hn)⟩
  callDest := fun w d m => Back.ofKeeps (frame_callDest env w d m)
  stagePush := fun w _ => BackL.refl w.acts
  bufferSet := fun w _ => BackL.refl w.acts
  ghostSlot := fun w _ _ => BackL.refl w.acts
  clock := fun w => BackL.refl w.acts
  nextLevel := fun w h => Back.ofKeeps (frame_nextLevel w h)
  freshAction := fun w t s => Back.ofKeeps (frame_freshAction w t s)
  extCalls := fun w => BackL.refl w.acts
  serCalls := fun w => BackL.refl w.acts
  setFinished := fun w h a ha => Back.ofKeeps (frame_setFinished w h a ha)
  appendChild := fun w p _ _ _ _ => fun h x hx => by
    obtain ⟨y, hy, e1, e2⟩ := Back.ofKeeps (frame_nextLevel w p) h x hx
    obtain ⟨z, hz, f1, f2⟩ := BackL.append (w.nextLevel p).1.acts _ h y hy
    exact ⟨z, hz, f1.trans e1, fun hn => e2 (f2 hn)⟩
  appendRemote := fun w _ _ _ _ _ _ => BackL.append w.acts _
  setCtx := fun w _ => BackL.refl w.acts
  setVars := fun w _ => BackL.refl w.acts
  reserve := fun w h _ _ _ => show BackL w.acts (w.nextLevel h).1.acts from Back.ofKeeps (frame_nextLevel w h)
  probe := fun w _ => BackL.refl w.acts
  succ := fun w h a fs ha => fun h' a' ha' => by
    have hlt := lt_of_get ha
    by_cases e : h = h'
    · subst e
      rw [ha] at ha'; cases ha'
      exact ⟨{ a with succ := a.succ.update fs }, by simp [List.getElem?_set_self hlt], rfl,
        fun hn => Fields.get?_update_none_left a.succ fs _ hn⟩
    · exact ⟨a', by simp [List.getElem?_set_ne e, ha'], rfl, id⟩

theorem backBasicCfg (env : Env) : BasicCfg env Back where
  startDelivery := fun w _ => BackL.refl w.acts
  extendDests := fun w _ => BackL.refl w.acts
  popPending := fun w => BackL.refl w.acts
  removeDest := fun w _ => BackL.refl w.acts
  addGlobals := fun w _ => BackL.refl w.acts

/-- every action of the world is fine for the books -/
def ActsOK (w : World) : Prop := ∀ a ∈ w.acts, ActOK a

theorem Back.actsOK {w w' : World} (b : Back w w') (h : ActsOK w') : ActsOK w := fun a ha => by
  obtain ⟨i, hi, hget⟩ := List.getElem_of_mem ha
  have hs : w.acts[i]? = some a := by rw [List.getElem?_eq_getElem hi, hget]
  obtain ⟨a', h1, h2, h3⟩ := b i a hs
  obtain ⟨o1, o2⟩ := h a' (List.mem_of_getElem? h1)
  exact ⟨h3 o1, h2 ▸ o2⟩

/-! ### the lifted relation -/
def Acct (w w' : World) : Prop := Back w w' ∧ (ActsOK w' → AI w → AI w')

/-- the conditions on a program under which its own statements never produce a dict of the report type -/
def acctCond : Cond where
  spec := specOK
  mspec := mspecOK
  glob := fun fs => fs.get? "message_type" == none

theorem Acct.same {w w' : World} (b : Back w w') (h1 : w'.stage = w.stage) (h2 : w'.offered = w.offered)
    (h3 : w'.accepted = w.accepted) (h4 : w'.globals = w.globals) (h5 : w'.buffer = w.buffer)
    (h6 : w'.anyAdded = w.anyAdded) : Acct w w' :=
  ⟨b, fun _ h => h.same h1 h2 h3 h4 h5 h6⟩

theorem acctPrimC (env : Env) (hext : ExtOK env) : PrimC env acctCond Acct where
  refl := fun w => ⟨BackL.refl _, fun _ h => h⟩
  trans := fun {a b c} h1 h2 => ⟨(backBasic env).trans h1.1 h2.1, fun hc ha => h2.2 hc (h1.2 (h2.1.actsOK hc) ha)⟩
  startAction := fun w task sp hsp => ⟨(backBasic env).prim.startAction w task sp, fun _ h => AI.startAction env h task sp hsp⟩
  continueTask := fun w y u lvl sp hsp hl =>
    ⟨(backBasic env).prim.continueTask w y u lvl sp hl, fun _ h => AI.continueTask env
      (show AI ({ w with ids := w.ids.filter (fun e => e.1 != y) } : World) from h.same rfl rfl rfl rfl rfl rfl) u lvl sp hsp⟩
  logMessage := fun w ms hms => ⟨(backBasic env).prim.logMessage w ms, fun _ h => AI.logMessage env h ms hms⟩
  logTo := fun w x ms hms => ⟨(backBasic env).prim.logTo w x ms, fun _ h => AI.logTo env h x ms hms⟩
  writeTraceback := fun w e => ⟨(backBasic env).prim.writeTraceback w e, fun _ h => AI.writeTraceback env h e⟩
  finishRec := fun w x exc => ⟨(backBasic env).prim.finishRec w x exc, fun hok h =>
    AI.finishRec env hext h x exc (fun a ha => ((backBasic env).prim.finishRec w x exc).actsOK hok a (List.mem_of_getElem? ha))⟩
  setCtx := fun w c => Acct.same (BackL.refl _) rfl rfl rfl rfl rfl rfl
  setVars := fun w v => Acct.same (BackL.refl _) rfl rfl rfl rfl rfl rfl
  reserve := fun w x a y ha => ⟨(backBasic env).prim.reserve w x a y ha, fun _ h => (h.nextLevel x).same rfl rfl rfl rfl rfl rfl⟩
  probe := fun w p => Acct.same (BackL.refl _) rfl rfl rfl rfl rfl rfl
  succ := fun w x a fs _ ha => Acct.same ((backBasic env).prim.succ w x a fs ha) rfl rfl rfl rfl rfl rfl
  addDests := fun w ds _ => ⟨((backBasic env).primCfg (backBasicCfg env)).addDests w ds, fun _ h => AI.addDests env h ds⟩
  removeDest := fun w d => Acct.same (BackL.refl _) rfl rfl rfl rfl rfl rfl
  addGlobals := fun w fs hfs => ⟨BackL.refl _, fun _ h =>
    ⟨by
      have hf : fs.get? "message_type" = none := by simpa [acctCond] using hfs
      show (Fields.update w.globals fs).get? "message_type" = none
      rw [C08.Fields.get?_update_none _ _ _ hf]; exact h.glob,
     h.buf, h.acc, h.dbt⟩⟩

/-- every program whose statements satisfy the conditions, every world, every handled exception -/
theorem acct_execB (env : Env) (hext : ExtOK env) (cur : Option Exc) (w : World) (p : Block) (hp : p.allC acctCond = true) :
    Acct w (execB env cur w p).1 :=
  execB_liftC (acctPrimC env hext) cur w p hp

end Sys
