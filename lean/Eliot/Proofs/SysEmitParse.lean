import Eliot.Proofs.SysEmit
import Eliot.Proofs.ParseParser
import Std.Data.String.ToNat
/-!
# From the dicts a structured program stages to the parser's specification trees (C01)

* `toPMsg` : what `eliot.parse` reads off a dict (`task_uuid`, `task_level`, `action_type`,
  `action_status`; the payload id is the number of the clock read that stamped it);
* `T.pm`/`F.pm` : the performed forest as a parser-side specification tree (`PM.Tree`), `F.seps` : the
  separate trees (tasks started / messages logged outside the enclosing tree), in completion order;
* `F.proj` : the staged dicts of a forest project, message by message and losing none, onto a
  permutation of the messages of those specification trees;
* `den_range` : the denotation numbers messages and uuids consecutively, so they are distinct.
-/
namespace Sys.Emit
open Sys Sys.C04

def ustr (n : Nat) : String := "u" ++ toString n

theorem ustr_inj {a b : Nat} (h : ustr a = ustr b) : a = b := by
  unfold ustr at h
  exact Nat.repr_inj.mp ((String.append_right_inj "u").mp h)

def strOf : Option FV → Option String
  | some (.str s) => some s
  | _ => none

/-- the part of a message dict the parser looks at -/
def toPMsg (m : Msg) : Option PM.PMsg :=
  match m.get? "task_uuid", m.get? "task_level", m.get? "timestamp" with
  | some (.uuid u), some (.lvl l), some (.ts t) =>
    some { uuid := ustr u, level := l, atype := strOf (m.get? "action_type"), status := strOf (m.get? "action_status"),
           body := t }
  | _, _, _ => none

def Outcome.isOk : Outcome → Bool
  | .ok => true
  | _ => false

mutual
def T.pm : T → PM.Tree
  | .leaf tick _ _ => .leaf tick
  | .node sp st et _ _ _ res _ kids => .node sp.atype st et (Outcome.isOk res) (F.pm kids)
def F.pm : F → PM.Forest
  | .nil => .nil
  | .own t r => .cons (T.pm t) (F.pm r)
  | .sep _ _ r => F.pm r
end

mutual
/-- the separate trees below, in completion order (a task started inside completes first) -/
def T.seps : T → List (Nat × T)
  | .leaf .. => []
  | .node _ _ _ _ _ _ _ _ kids => F.seps kids
def F.seps : F → List (Nat × T)
  | .nil => []
  | .own t r => T.seps t ++ F.seps r
  | .sep u t r => T.seps t ++ (u, t) :: F.seps r
end

mutual
/-- the message ids in emission order -/
def T.ticks : T → List Nat
  | .leaf tick _ _ => [tick]
  | .node _ st et _ _ _ _ _ kids => st :: (F.ticks kids ++ [et])
def F.ticks : F → List Nat
  | .nil => []
  | .own t r => T.ticks t ++ F.ticks r
  | .sep _ t r => T.ticks t ++ F.ticks r
end

/-- keys the parser (and this projection) reads -/
def structural : List String := ["task_uuid", "task_level", "timestamp", "action_type", "action_status"]

def sersClean (ss : Option (List (String × Nat))) : Bool :=
  match ss with
  | none => true
  | some l => l.all fun p => !structural.contains p.1

mutual
/-- no declared (typed) field is one of the structural keys; a plain message has no field called
`action_type` / `action_status`; every action ended -/
def T.clean : T → Bool
  | .leaf _ _ ms => sersClean ms.sers && (ms.fields.get? "action_type").isNone && (ms.fields.get? "action_status").isNone
  | .node sp _ _ _ _ _ res _ kids =>
    sersClean (sp.sers.map (·.1)) && sersClean (sp.sers.map (·.2)) && (match res with | .stuck => false | _ => true) &&
      F.clean kids
def F.clean : F → Bool
  | .nil => true
  | .own t r => T.clean t && F.clean r
  | .sep _ t r => T.clean t && F.clean r
end

theorem F.pm_len : ∀ f : F, (F.pm f).len = f.len
  | .nil => rfl
  | .own t r => by simp [F.pm, PM.Forest.len, F.len, F.pm_len r]
  | .sep _ _ r => by simp [F.pm, F.len, F.pm_len r]

/-! ### reading keys off the dicts -/

theorem applyT_get_other (σ : Nat → FV → Nat → FV) (j : Nat) (ss : List (String × Nat)) (m : Msg) (k : String)
    (hk : ∀ p ∈ ss, p.1 ≠ k) : (applyT σ j ss m).get? k = m.get? k := by
  induction ss generalizing m j with
  | nil => rfl
  | cons p r ih =>
    obtain ⟨key, sid⟩ := p
    have hne : k ≠ key := fun h => hk (key, sid) List.mem_cons_self h.symm
    have hr : ∀ p ∈ r, p.1 ≠ k := fun p hp => hk p (List.mem_cons_of_mem _ hp)
    simp only [applyT]
    cases m.get? key with
    | none => exact ih j m hr
    | some v => simp only; rw [ih _ _ hr, Fields.get?_set_ne _ _ _ _ hne]

theorem serOpt_get_structural (σ : Nat → FV → Nat → FV) (j : Nat) (sers : Option (List (String × Nat))) (m : Msg) (k : String)
    (hc : sersClean sers = true) (hk : k ∈ structural) : (serOpt σ j sers m).get? k = m.get? k := by
  cases sers with
  | none => rfl
  | some ss =>
    simp only [sersClean, List.all_eq_true, Bool.not_eq_true', List.contains_eq_mem, decide_eq_false_iff_not] at hc
    exact applyT_get_other σ j ss m k (fun p hp h => hc p hp (h ▸ hk))

theorem toPMsg_leaf (σ : Nat → FV → Nat → FV) (u : Nat) (L : Level) (tick j : Nat) (ms : MSpec)
    (hc : T.clean (.leaf tick j ms) = true) :
    toPMsg (leafDict σ u L tick j ms) = some (PM.leafMsg (ustr u) L tick) := by
  simp only [T.clean, Bool.and_eq_true, Option.isNone_iff_eq_none] at hc
  obtain ⟨⟨hs, h1⟩, h2⟩ := hc
  have g : ∀ k ∈ structural, (leafDict σ u L tick j ms).get? k =
      ((((ms.fields.set "timestamp" (.ts tick)).set "task_uuid" (.uuid u)).set "task_level" (.lvl L)).set
        "message_type" (.str ms.mtype)).get? k := fun k hk => serOpt_get_structural σ j ms.sers _ k hs hk
  have e1 := g "task_uuid" (by decide)
  have e2 := g "task_level" (by decide)
  have e3 := g "timestamp" (by decide)
  have e4 := g "action_type" (by decide)
  have e5 := g "action_status" (by decide)
  rw [Fields.get?_set_ne _ _ _ _ (by decide), Fields.get?_set_ne _ _ _ _ (by decide), Fields.get?_set_self] at e1
  rw [Fields.get?_set_ne _ _ _ _ (by decide), Fields.get?_set_self] at e2
  rw [Fields.get?_set_ne _ _ _ _ (by decide), Fields.get?_set_ne _ _ _ _ (by decide), Fields.get?_set_ne _ _ _ _ (by decide),
    Fields.get?_set_self] at e3
  rw [Fields.get?_set_ne _ _ _ _ (by decide), Fields.get?_set_ne _ _ _ _ (by decide), Fields.get?_set_ne _ _ _ _ (by decide),
    Fields.get?_set_ne _ _ _ _ (by decide), h1] at e4
  rw [Fields.get?_set_ne _ _ _ _ (by decide), Fields.get?_set_ne _ _ _ _ (by decide), Fields.get?_set_ne _ _ _ _ (by decide),
    Fields.get?_set_ne _ _ _ _ (by decide), h2] at e5
  simp only [toPMsg, e1, e2, e3, e4, e5, strOf, PM.leafMsg]

theorem toPMsg_chain5 (σ : Nat → FV → Nat → FV) (j : Nat) (sers : Option (List (String × Nat))) (hs : sersClean sers = true)
    (f : Fields) (status atype : String) (u : Nat) (L : Level) (tick : Nat) :
    toPMsg (serOpt σ j sers (((((f.set "action_status" (.str status)).set "timestamp" (.ts tick)).set "task_uuid" (.uuid u)).set
        "action_type" (.str atype)).set "task_level" (.lvl L))) =
      some { uuid := ustr u, level := L, atype := some atype, status := some status, body := tick } := by
  have g : ∀ k ∈ structural, (serOpt σ j sers (((((f.set "action_status" (.str status)).set "timestamp" (.ts tick)).set "task_uuid" (.uuid u)).set
        "action_type" (.str atype)).set "task_level" (.lvl L))).get? k =
      (((((f.set "action_status" (.str status)).set "timestamp" (.ts tick)).set "task_uuid" (.uuid u)).set
        "action_type" (.str atype)).set "task_level" (.lvl L)).get? k := fun k hk => serOpt_get_structural σ j sers _ k hs hk
  have e1 := g "task_uuid" (by decide)
  have e2 := g "task_level" (by decide)
  have e3 := g "timestamp" (by decide)
  have e4 := g "action_type" (by decide)
  have e5 := g "action_status" (by decide)
  rw [Fields.get?_set_ne _ _ _ _ (by decide), Fields.get?_set_ne _ _ _ _ (by decide), Fields.get?_set_self] at e1
  rw [Fields.get?_set_self] at e2
  rw [Fields.get?_set_ne _ _ _ _ (by decide), Fields.get?_set_ne _ _ _ _ (by decide), Fields.get?_set_ne _ _ _ _ (by decide),
    Fields.get?_set_self] at e3
  rw [Fields.get?_set_ne _ _ _ _ (by decide), Fields.get?_set_self] at e4
  rw [Fields.get?_set_ne _ _ _ _ (by decide), Fields.get?_set_ne _ _ _ _ (by decide), Fields.get?_set_ne _ _ _ _ (by decide),
    Fields.get?_set_ne _ _ _ _ (by decide), Fields.get?_set_self] at e5
  simp only [toPMsg, e1, e2, e3, e4, e5, strOf]

theorem toPMsg_start (σ : Nat → FV → Nat → FV) (u : Nat) (L : Level) (tick j : Nat) (sp : Spec)
    (hs : sersClean (sp.sers.map (·.1)) = true) :
    toPMsg (startDict σ u (L ++ [1]) tick j sp) = some (PM.startMsg (ustr u) L sp.atype tick) := by
  simp only [startDict, toPMsg_chain5 σ j _ hs, PM.startMsg]

theorem toPMsg_end (env : Env) (σ : Nat → FV → Nat → FV) (u : Nat) (L : Level) (n tick j : Nat) (atype : String)
    (sers : Option (List (String × Nat) × List (String × Nat))) (succ xf : Fields) (res : Outcome)
    (hs : sersClean (sers.map (·.2)) = true) (hr : res ≠ .stuck) :
    toPMsg (endDict env σ u (L ++ [n]) tick j atype sers succ xf res) =
      some (PM.endMsg (ustr u) L atype tick (Outcome.isOk res) n) := by
  cases res with
  | stuck => exact absurd rfl hr
  | ok => simp only [endDict, toPMsg_chain5 σ j _ hs, PM.endMsg, Outcome.isOk, if_true]
  | raised e =>
    have := toPMsg_chain5 σ 0 none rfl (Fields.set (Fields.set xf "exception" (.str (e.qual env))) "reason" (.str (e.safeStr env)))
      "failed" atype u (L ++ [n]) tick
    simp only [serOpt] at this
    simp only [endDict, this, PM.endMsg, Outcome.isOk, Bool.false_eq_true, if_false]

/-! ### projection of a whole forest -/

/-- the messages of the separate trees, as the parser's specification lists them -/
def sepMsgs (es : List (Nat × T)) : List PM.PMsg := es.flatMap fun e => PM.tmsgs (ustr e.1) (T.pm e.2)

theorem sepMsgs_append (a b : List (Nat × T)) : sepMsgs (a ++ b) = sepMsgs a ++ sepMsgs b := by
  simp [sepMsgs]

theorem sepMsgs_cons (e : Nat × T) (b : List (Nat × T)) : sepMsgs (e :: b) = PM.tmsgs (ustr e.1) (T.pm e.2) ++ sepMsgs b := by
  simp [sepMsgs]

theorem tmsgs_rootLevel (u : String) (t : T) : PM.tmsgs u (T.pm t) = PM.Tree.msgs u (T.pm t) t.rootLevel := by
  cases t <;> simp [T.pm, PM.tmsgs, T.rootLevel, PM.Tree.msgs]

/-- What projecting the dicts of a tree / forest gives: every dict projects (`map toPMsg` has no
`none`), onto a list `l` with the emission-order payload ids, which is a permutation of the
messages of the specification tree(s). -/
structure Proj (dicts : List Msg) (ticks : List Nat) (spec : List PM.PMsg) : Prop where
  ex : ∃ l : List PM.PMsg, dicts.map toPMsg = l.map some ∧ l.map (·.body) = ticks ∧ l.Perm spec

theorem Proj.nil : Proj [] [] [] := ⟨[], rfl, rfl, List.Perm.refl _⟩

theorem Proj.append {d1 d2 : List Msg} {t1 t2 : List Nat} {s1 s2 s : List PM.PMsg} (h1 : Proj d1 t1 s1) (h2 : Proj d2 t2 s2)
    (hs : (s1 ++ s2).Perm s) : Proj (d1 ++ d2) (t1 ++ t2) s := by
  obtain ⟨l1, a1, b1, c1⟩ := h1.ex
  obtain ⟨l2, a2, b2, c2⟩ := h2.ex
  exact ⟨l1 ++ l2, by simp [a1, a2], by simp [b1, b2], (c1.append c2).trans hs⟩

theorem Proj.single {m : Msg} {p : PM.PMsg} (h : toPMsg m = some p) : Proj [m] [p.body] [p] :=
  ⟨[p], by simp [h], rfl, List.Perm.refl _⟩

theorem perm4 {α} (a b c d : List α) : ((a ++ b) ++ (c ++ d)).Perm (a ++ c ++ (b ++ d)) := by
  simp only [List.append_assoc]
  exact List.Perm.append_left a (by
    rw [← List.append_assoc, ← List.append_assoc]
    exact List.Perm.append_right d List.perm_append_comm)

mutual
theorem T.proj (env : Env) (σ : Nat → FV → Nat → FV) (u : Nat) (t : T) (L : Level) (hc : T.clean t = true) :
    Proj (T.dicts env σ u t L) (T.ticks t) (PM.Tree.msgs (ustr u) (T.pm t) L ++ sepMsgs (T.seps t)) := by
  cases t with
  | leaf tick sk ms =>
    have := Proj.single (toPMsg_leaf σ u L tick sk ms hc)
    simpa [T.dicts, T.ticks, T.pm, PM.Tree.msgs, T.seps, sepMsgs, PM.leafMsg] using this
  | node sp st et ss es succ res xf kids =>
    simp only [T.clean, Bool.and_eq_true] at hc
    obtain ⟨⟨⟨h1, h2⟩, h3⟩, h4⟩ := hc
    have hr : res ≠ .stuck := by intro h; subst h; simp at h3
    have ps := Proj.single (toPMsg_start σ u L st ss sp h1)
    have pe := Proj.single (toPMsg_end env σ u L (kids.len + 2) et es sp.atype sp.sers succ xf res h2 hr)
    have pk := F.proj env σ u kids L 2 h4
    have := ps.append (pk.append pe (List.Perm.refl _)) (List.Perm.refl _)
    refine ⟨?_⟩
    obtain ⟨l, a, b, c⟩ := this.ex
    refine ⟨l, by simpa [T.dicts] using a, by simpa [T.ticks, PM.startMsg, PM.endMsg] using b, c.trans ?_⟩
    simp only [T.pm, PM.Tree.msgs, T.seps, F.pm_len, List.cons_append, List.append_assoc]
    refine List.Perm.cons _ ?_
    rw [List.perm_iff_count]
    intro a
    simp only [List.count_append, List.count_cons, List.count_nil]
    omega
theorem F.proj (env : Env) (σ : Nat → FV → Nat → FV) (u : Nat) (f : F) (L : Level) (k : Nat) (hc : F.clean f = true) :
    Proj (F.dicts env σ u f L k) (F.ticks f) (PM.Forest.msgs (ustr u) (F.pm f) L k ++ sepMsgs (F.seps f)) := by
  cases f with
  | nil => simpa [F.dicts, F.ticks, F.pm, PM.Forest.msgs, F.seps, sepMsgs] using Proj.nil
  | own t r =>
    simp only [F.clean, Bool.and_eq_true] at hc
    have p1 := T.proj env σ u t (L ++ [k]) hc.1
    have p2 := F.proj env σ u r L (k + 1) hc.2
    have := p1.append p2 (perm4 _ _ _ _)
    simpa [F.dicts, F.ticks, F.pm, PM.Forest.msgs, F.seps, sepMsgs_append] using this
  | sep u' t r =>
    simp only [F.clean, Bool.and_eq_true] at hc
    have p1 := T.proj env σ u' t t.rootLevel hc.1
    have p2 := F.proj env σ u r L k hc.2
    rw [← tmsgs_rootLevel] at p1
    have := p1.append p2 (s := PM.Forest.msgs (ustr u) (F.pm r) L k ++ (sepMsgs (T.seps t) ++ (PM.tmsgs (ustr u') (T.pm t) ++ sepMsgs (F.seps r)))) (by
      rw [List.perm_iff_count]
      intro a
      simp only [List.count_append]
      omega)
    simpa [F.dicts, F.ticks, F.pm, F.seps, sepMsgs_append, sepMsgs_cons] using this
end

/-! ### the denotation numbers messages and uuids consecutively -/

theorem range_app (a n m : Nat) (h : a ≤ n) (h2 : n ≤ m) :
    List.range' a (n - a) ++ List.range' n (m - n) = List.range' a (m - a) := by
  have : n = a + (n - a) := by omega
  conv => lhs; rhs; rw [this]
  rw [List.range'_append_1]
  congr 1; omega

theorem range_wrap (a x : Nat) (h : a + 1 ≤ x) :
    a :: (List.range' (a + 1) (x - (a + 1)) ++ [x]) = List.range' a (x + 1 - a) := by
  have e : x + 1 - a = (x - (a + 1)) + 1 + 1 := by omega
  have e2 : a + 1 + (x - (a + 1)) = x := by omega
  rw [e, List.range'_succ, List.range'_1_concat, e2]

theorem F.ticks_append : ∀ f g : F, F.ticks (f.append g) = F.ticks f ++ F.ticks g
  | .nil, g => by simp [F.append, F.ticks]
  | .own t r, g => by simp [F.append, F.ticks, F.ticks_append r g]
  | .sep _ t r, g => by simp [F.append, F.ticks, F.ticks_append r g]

theorem F.seps_append : ∀ f g : F, F.seps (f.append g) = F.seps f ++ F.seps g
  | .nil, g => by simp [F.append, F.seps]
  | .own t r, g => by simp [F.append, F.seps, F.seps_append r g]
  | .sep _ t r, g => by simp [F.append, F.seps, F.seps_append r g]

/-- message ids are exactly the clock reads consumed, in emission order; the uuids of the separate
trees are distinct uuid draws -/
structure Range (d : DS) (r : R) : Prop where
  tickLe : d.tick ≤ r.ds.tick
  nuLe : d.nu ≤ r.ds.nu
  ticks : F.ticks r.f = List.range' d.tick (r.ds.tick - d.tick)
  uu : ∀ u ∈ (F.seps r.f).map (·.1), d.nu ≤ u ∧ u < r.ds.nu
  uun : ((F.seps r.f).map (·.1)).Nodup

theorem Range.nil (d : DS) (o : Outcome) (s : Fields) (b : Bool) : Range d { f := .nil, out := o, s := s, ds := d, wf := b } :=
  ⟨Nat.le_refl _, Nat.le_refl _, by simp [F.ticks], by simp [F.seps], by simp [F.seps]⟩

theorem Range.seq {d : DS} {r1 r2 : R} (h1 : Range d r1) (h2 : Range r1.ds r2) (b : Bool) :
    Range d { f := r1.f.append r2.f, out := r2.out, s := r2.s, ds := r2.ds, wf := b } := by
  refine ⟨Nat.le_trans h1.tickLe h2.tickLe, Nat.le_trans h1.nuLe h2.nuLe, ?_, ?_, ?_⟩
  · simp only [F.ticks_append, h1.ticks, h2.ticks]
    exact range_app _ _ _ h1.tickLe h2.tickLe
  · intro u hu
    simp only [F.seps_append, List.map_append, List.mem_append] at hu
    rcases hu with hu | hu
    · have := h1.uu u hu; have := h2.nuLe; simp only at *; omega
    · have := h2.uu u hu; have := h1.nuLe; simp only at *; omega
  · simp only [F.seps_append, List.map_append]
    refine List.nodup_append.mpr ⟨h1.uun, h2.uun, ?_⟩
    intro a ha b hb hab
    have := h1.uu a ha; have := h2.uu b hb
    omega

theorem Range.leaf (sepr : Bool) (d : DS) (s : Fields) (ms : MSpec) : Range d (leafR sepr d s ms) := by
  cases sepr
  · refine ⟨by simp [leafR], by simp [leafR], ?_, by simp [leafR, F.seps, T.seps], by simp [leafR, F.seps, T.seps]⟩
    simp [leafR, F.ticks, T.ticks]
  · refine ⟨by simp [leafR], by simp [leafR], ?_, by simp [leafR, F.seps, T.seps], by simp [leafR, F.seps, T.seps]⟩
    simp [leafR, F.ticks, T.ticks]

/-- what has accumulated while an explicitly spelled action (started at counters `d0`) is open -/
structure RangeX (d0 : DS) (sepr : Bool) (kids : F) (d : DS) : Prop where
  tickLe : d0.tick + 1 ≤ d.tick
  nuLe : (if sepr = true then d0.nu + 1 else d0.nu) ≤ d.nu
  ticks : F.ticks kids = List.range' (d0.tick + 1) (d.tick - (d0.tick + 1))
  uu : ∀ u ∈ (F.seps kids).map (·.1), (if sepr = true then d0.nu + 1 else d0.nu) ≤ u ∧ u < d.nu
  uun : ((F.seps kids).map (·.1)).Nodup

theorem RangeX.seq {d0 : DS} {sepr : Bool} {kids : F} {d : DS} {r : R} (h1 : RangeX d0 sepr kids d) (h2 : Range d r) :
    RangeX d0 sepr (kids.append r.f) r.ds := by
  refine ⟨Nat.le_trans h1.tickLe h2.tickLe, Nat.le_trans h1.nuLe h2.nuLe, ?_, ?_, ?_⟩
  · simp only [F.ticks_append, h1.ticks, h2.ticks]
    exact range_app _ _ _ h1.tickLe h2.tickLe
  · intro u hu
    simp only [F.seps_append, List.map_append, List.mem_append] at hu
    rcases hu with hu | hu
    · have := h1.uu u hu; have := h2.nuLe; omega
    · have := h2.uu u hu; have := h1.nuLe; omega
  · simp only [F.seps_append, List.map_append]
    refine List.nodup_append.mpr ⟨h1.uun, h2.uun, ?_⟩
    intro a ha b hb hab
    have := h1.uu a ha; have := h2.uu b hb
    omega

/-- closing the node -/
theorem RangeX.close {d0 : DS} {sepr : Bool} {kids : F} {d : DS} (h : RangeX d0 sepr kids d) (env : Env) (sp : Spec) (s sx : Fields)
    (res : Outcome) : Range d0 (closeR env sepr sp d0 s kids sx res d) := by
  have h1 := h.tickLe; have h2 := h.nuLe
  cases sepr with
  | false =>
    simp only [Bool.false_eq_true, if_false] at h2
    refine ⟨by simp only [closeR]; omega, by simp only [closeR]; omega, ?_, ?_, ?_⟩
    · simp only [closeR, Bool.false_eq_true, if_false, F.ticks, T.ticks, h.ticks, List.append_nil]
      exact range_wrap _ _ h1
    · intro u hu
      simp only [closeR, Bool.false_eq_true, if_false, F.seps, T.seps, List.append_nil] at hu
      have := h.uu u hu
      simp only [Bool.false_eq_true, if_false] at this
      simp only [closeR]
      omega
    · simpa [closeR, F.seps, T.seps] using h.uun
  | true =>
    simp only [if_true] at h2
    refine ⟨by simp only [closeR]; omega, by simp only [closeR]; omega, ?_, ?_, ?_⟩
    · simp only [closeR, if_true, F.ticks, T.ticks, h.ticks, List.append_nil]
      exact range_wrap _ _ h1
    · intro u hu
      simp only [closeR, if_true, F.seps, T.seps, List.map_append, List.map_cons, List.map_nil, List.mem_append,
        List.mem_singleton] at hu
      rcases hu with hu | hu
      · have := h.uu u hu
        simp only [if_true] at this
        simp only [closeR]
        omega
      · subst hu; simp only [closeR]; omega
    · simp only [closeR, if_true, F.seps, T.seps, List.map_append, List.map_cons, List.map_nil]
      refine List.nodup_append.mpr ⟨h.uun, by simp, ?_⟩
      intro a ha b hb hab
      have := h.uu a ha
      simp only [List.mem_singleton] at hb
      simp only [if_true] at this
      omega

theorem Range.setWf {d : DS} {r : R} (h : Range d r) (b : Bool) : Range d { r with wf := b } :=
  ⟨h.tickLe, h.nuLe, h.ticks, h.uu, h.uun⟩

theorem Range.setOutWf {d : DS} {r : R} (h : Range d r) (o : Outcome) (b : Bool) : Range d { r with out := o, wf := b } :=
  ⟨h.tickLe, h.nuLe, h.ticks, h.uu, h.uun⟩

/-- one more message of the open action -/
theorem RangeX.leaf {d0 : DS} {sepr : Bool} {kids : F} {d : DS} (h : RangeX d0 sepr kids d) (ms : MSpec) :
    RangeX d0 sepr (kids.append (.own (.leaf d.tick d.sc ms) .nil))
      { tick := d.tick + 1, nu := d.nu, ex := d.ex, sc := d.sc + nser ms.sers } := by
  have := h.seq (Range.leaf false d [] ms)
  simpa [leafR] using this

/-- only the clock and uuid counters matter -/
theorem Range.congr {d d' : DS} {r : R} (h : Range d' r) (ht : d'.tick = d.tick) (hn : d'.nu = d.nu) : Range d r :=
  ⟨ht ▸ h.tickLe, hn ▸ h.nuLe, ht ▸ h.ticks, hn ▸ h.uu, h.uun⟩

mutual
theorem denS_range (env : Env) (cur : Option Exc) (inAct : Bool) (st : Stmt) (d : DS) (s : Fields) :
    Range d (denS env cur inAct st d s) := by
  cases st with
  | withAction task sp body =>
    rw [denS_with]
    simp only [withR]
    cases hb : (task || !inAct) with
    | false =>
      simp only [Bool.false_eq_true, if_false]
      have ih := denB_range env cur true body { tick := d.tick + 1, nu := d.nu, ex := d.ex, sc := d.sc + nser (sp.sers.map (·.1)) } []
      have h1 := ih.tickLe; have h2 := ih.nuLe
      simp only at h1 h2
      refine ⟨by simp only; omega, by simp only; omega, ?_, ?_, ?_⟩
      · simp only [F.ticks, T.ticks, ih.ticks, List.append_nil]
        exact range_wrap _ _ h1
      · intro u hu
        simp only [F.seps, T.seps, List.append_nil] at hu
        have := ih.uu u hu
        simp only at this ⊢
        omega
      · simpa [F.seps, T.seps] using ih.uun
    | true =>
      simp only [if_true]
      have ih := denB_range env cur true body { tick := d.tick + 1, nu := d.nu + 1, ex := d.ex, sc := d.sc + nser (sp.sers.map (·.1)) } []
      have h1 := ih.tickLe; have h2 := ih.nuLe
      simp only at h1 h2
      refine ⟨by simp only; omega, by simp only; omega, ?_, ?_, ?_⟩
      · simp only [F.ticks, T.ticks, ih.ticks, List.append_nil]
        exact range_wrap _ _ h1
      · intro u hu
        simp only [F.seps, T.seps, List.map_append, List.map_cons, List.map_nil, List.mem_append,
          List.mem_singleton] at hu
        rcases hu with hu | hu
        · have := ih.uu u hu
          simp only at this ⊢
          omega
        · subst hu; simp only; omega
      · simp only [F.seps, T.seps, List.map_append, List.map_cons, List.map_nil]
        refine List.nodup_append.mpr ⟨ih.uun, by simp, ?_⟩
        intro a ha b hb hab
        have := ih.uu a ha
        simp only [List.mem_singleton] at hb
        simp only at this
        omega
  | log ms => simp only [denS]; exact Range.leaf _ d s ms
  | raise k => simp only [denS]; exact Range.nil d _ s _
  | tryCatch body handler =>
    rw [denS_try]
    have ih := denB_range env cur inAct body d s
    cases ho : (denB env cur inAct body d s).out with
    | ok => exact ih
    | stuck => exact ih
    | raised e => exact Range.seq ih (denB_range env (some e) inAct handler _ _) _
  | writeTraceback =>
    cases cur with
    | none => simp only [denS]; exact Range.nil d _ s _
    | some e => simp only [denS, tbR]; exact (Range.leaf _ _ s _).congr rfl rfl
  | addSuccess x fs =>
    cases x with
    | none => simp only [denS]; exact Range.nil d _ _ _
    | some x => simp only [denS]; exact Range.nil d _ s _
  | probe k => simp only [denS]; exact Range.nil d _ s _
  | startAs x task sp => simp only [denS]; exact Range.nil d _ s _
  | withHandle x body => simp only [denS]; exact Range.nil d _ s _
  | inContext x body => simp only [denS]; exact Range.nil d _ s _
  | runIn x body => simp only [denS]; exact Range.nil d _ s _
  | finish x exc => simp only [denS]; exact Range.nil d _ s _
  | logTo x ms => simp only [denS]; exact Range.nil d _ s _
  | serializeAs y x => simp only [denS]; exact Range.nil d _ s _
  | continueWith y sp body => simp only [denS]; exact Range.nil d _ s _
  | addDests l => simp only [denS]; exact Range.nil d _ s _
  | removeDest x => simp only [denS]; exact Range.nil d _ s _
  | addGlobals fs => simp only [denS]; exact Range.nil d _ s _
theorem denB_range (env : Env) (cur : Option Exc) (inAct : Bool) (b : Block) (d : DS) (s : Fields) :
    Range d (denB env cur inAct b d s) := by
  cases b with
  | nil => simp only [denB]; exact Range.nil d _ s _
  | cons st rest =>
    rcases Stmt.start_or st with ⟨x, task, sp, rfl⟩ | hns
    · rw [denB_start]
      refine (denX_range env cur inAct x (task || !inAct) sp d s rest .nil [] _ ?_).setWf _
      refine ⟨Nat.le_refl _, ?_, by simp [F.ticks], by simp [F.seps], by simp [F.seps]⟩
      cases (task || !inAct) <;> simp
    · rw [denB_cons _ _ _ _ _ _ _ hns]
      have ih := denS_range env cur inAct st d s
      cases ho : (denS env cur inAct st d s).out with
      | ok => exact Range.seq ih (denB_range env cur inAct rest _ _) _
      | stuck => exact ih
      | raised e => exact ih
theorem denX_range (env : Env) (cur : Option Exc) (inAct : Bool) (x : Nat) (sepr : Bool) (sp : Spec) (d0 : DS) (s : Fields)
    (b : Block) (kids : F) (sx : Fields) (d : DS) (h : RangeX d0 sepr kids d) :
    Range d0 (denX env cur inAct x sepr sp d0 s b kids sx d) := by
  cases b with
  | nil => simp only [denX]; exact Range.nil d0 _ s _
  | cons st rest =>
    cases st with
    | inContext y body =>
      by_cases hy : y = x
      · subst hy
        rw [denX_ctx]
        have ih := denB_range env cur true body d sx
        simp only [segR]
        cases ho : (denB env cur true body d sx).out with
        | ok => exact (denX_range env cur inAct y sepr sp d0 s rest _ _ _ (h.seq ih)).setWf _
        | stuck => exact Range.nil d0 _ s _
        | raised e => exact Range.nil d0 _ s _
      · simp only [denX, if_neg hy]; exact Range.nil d0 _ s _
    | runIn y body =>
      by_cases hy : y = x
      · subst hy
        rw [denX_run]
        have ih := denB_range env cur true body d sx
        simp only [segR]
        cases ho : (denB env cur true body d sx).out with
        | ok => exact (denX_range env cur inAct y sepr sp d0 s rest _ _ _ (h.seq ih)).setWf _
        | stuck => exact Range.nil d0 _ s _
        | raised e => exact Range.nil d0 _ s _
      · simp only [denX, if_neg hy]; exact Range.nil d0 _ s _
    | finish y exc =>
      by_cases hy : y = x
      · subst hy
        rw [denX_finish]
        exact Range.seq (h.close env sp s sx (finRes exc)) (denB_range env cur inAct rest _ _) _
      · simp only [denX, if_neg hy]; exact Range.nil d0 _ s _
    | withAction task sp' body => simp only [denX]; exact Range.nil d0 _ s _
    | log ms => simp only [denX]; exact Range.nil d0 _ s _
    | raise k => simp only [denX]; exact Range.nil d0 _ s _
    | tryCatch body handler => simp only [denX]; exact Range.nil d0 _ s _
    | writeTraceback => simp only [denX]; exact Range.nil d0 _ s _
    | addSuccess z fs =>
      cases z with
      | none => simp only [denX]; exact Range.nil d0 _ s _
      | some y =>
        by_cases hy : y = x
        · subst hy
          rw [denX_addSucc]
          exact denX_range env cur inAct y sepr sp d0 s rest _ _ _ h
        · simp only [denX, if_neg hy]; exact Range.nil d0 _ s _
    | probe k => simp only [denX]; exact Range.nil d0 _ s _
    | startAs z task sp' => simp only [denX]; exact Range.nil d0 _ s _
    | withHandle y body =>
      by_cases hy : y = x
      · subst hy
        rw [denX_with]
        have ih := denB_range env cur true body d sx
        have hc : Range d0 (closeW env sepr sp d0 s kids (denB env cur true body d sx)) :=
          ((h.seq ih).close env sp s _ _).setOutWf _ _
        have hco : (closeW env sepr sp d0 s kids (denB env cur true body d sx)).out = (denB env cur true body d sx).out := rfl
        cases ho : (denB env cur true body d sx).out with
        | ok => simp only [hco, ho]; exact Range.seq hc (denB_range env cur inAct rest _ _) _
        | stuck => simp only [hco, ho]; exact hc
        | raised e => simp only [hco, ho]; exact hc
      · simp only [denX, if_neg hy]; exact Range.nil d0 _ s _
    | logTo y ms =>
      by_cases hy : y = x
      · subst hy
        rw [denX_logTo]
        exact (denX_range env cur inAct y sepr sp d0 s rest _ _ _ (h.leaf ms)).setWf _
      · simp only [denX, if_neg hy]; exact Range.nil d0 _ s _
    | serializeAs z z' => simp only [denX]; exact Range.nil d0 _ s _
    | continueWith z sp' body => simp only [denX]; exact Range.nil d0 _ s _
    | addDests l => simp only [denX]; exact Range.nil d0 _ s _
    | removeDest z => simp only [denX]; exact Range.nil d0 _ s _
    | addGlobals fs => simp only [denX]; exact Range.nil d0 _ s _
end

/-! ### small facts used by the property theorems -/

theorem nodup_of_map {α β} (f : α → β) {l : List α} (h : (l.map f).Nodup) : l.Nodup := by
  unfold List.Nodup at h ⊢
  rw [List.pairwise_map] at h
  exact h.imp (fun hab e => hab (congrArg f e))

theorem nodup_map_inj {α β} (f : α → β) (hf : ∀ a b, f a = f b → a = b) {l : List α} (h : l.Nodup) : (l.map f).Nodup := by
  unfold List.Nodup at h ⊢
  rw [List.pairwise_map]
  exact h.imp (fun hab e => hab (hf _ _ e))

/-- the separate trees at the top of a forest (not those nested inside them) -/
def F.tops : F → List (Nat × T)
  | .nil => []
  | .own _ r => F.tops r
  | .sep u t r => (u, t) :: F.tops r

theorem F.dicts_flat (env : Env) (σ : Nat → FV → Nat → FV) (u : Nat) (L : Level) (k : Nat) : ∀ f : F, f.len = 0 →
    F.dicts env σ u f L k = (F.tops f).flatMap (fun e => T.top env σ e.1 e.2)
  | .nil, _ => by simp [F.dicts, F.tops]
  | .own t r, h => by simp [F.len] at h
  | .sep u' t r, h => by
    have := F.dicts_flat env σ u L k r (by simpa [F.len] using h)
    simp [F.dicts, F.tops, T.top, this]

theorem F.pm_flat : ∀ f : F, f.len = 0 → F.pm f = .nil
  | .nil, _ => rfl
  | .own t r, h => by simp [F.len] at h
  | .sep u' t r, h => by simpa [F.pm] using F.pm_flat r (by simpa [F.len] using h)

mutual
theorem Stmt.structured_noCfg (a b : Bool) : ∀ st : Stmt, st.structured a b = true → st.noCfg = true
  | .withAction _ _ body, h => by
    simp only [Stmt.structured] at h
    simpa [Stmt.noCfg] using Block.structured_noCfg a true body h
  | .tryCatch body handler, h => by
    simp only [Stmt.structured, Bool.and_eq_true] at h
    simp [Stmt.noCfg, Block.structured_noCfg a b body h.1, Block.structured_noCfg true b handler h.2]
  | .log _, _ => rfl
  | .raise _, _ => rfl
  | .writeTraceback, _ => rfl
  | .addSuccess _ _, _ => rfl
  | .probe _, _ => rfl
  | .startAs .., h => by simp [Stmt.structured] at h
  | .withHandle .., h => by simp [Stmt.structured] at h
  | .inContext .., h => by simp [Stmt.structured] at h
  | .runIn .., h => by simp [Stmt.structured] at h
  | .finish .., h => by simp [Stmt.structured] at h
  | .logTo .., h => by simp [Stmt.structured] at h
  | .serializeAs .., h => by simp [Stmt.structured] at h
  | .continueWith .., h => by simp [Stmt.structured] at h
  | .addDests .., h => by simp [Stmt.structured] at h
  | .removeDest .., h => by simp [Stmt.structured] at h
  | .addGlobals .., h => by simp [Stmt.structured] at h
theorem Block.structured_noCfg (a b : Bool) : ∀ bl : Block, bl.structured a b = true → bl.noCfg = true
  | .nil, _ => rfl
  | .cons st r, h => by
    rcases Stmt.start_or st with ⟨x, task, sp, rfl⟩ | hns
    · rw [Block.structured_start] at h
      simp [Block.noCfg, Stmt.noCfg, Block.structuredX_noCfg a b x r h]
    · rw [Block.structured_cons _ _ _ _ hns] at h
      simp only [Bool.and_eq_true] at h
      simp [Block.noCfg, Stmt.structured_noCfg a b st h.1, Block.structured_noCfg a b r h.2]
theorem Block.structuredX_noCfg (a b : Bool) (x : Nat) : ∀ bl : Block, bl.structuredX a b x = true → bl.noCfg = true
  | .nil, h => by simp [Block.structuredX] at h
  | .cons (.inContext y body) r, h => by
    simp only [Block.structuredX, Bool.and_eq_true] at h
    simp [Block.noCfg, Stmt.noCfg, Block.structured_noCfg a true body h.1.1.2, Block.structuredX_noCfg a b x r h.2]
  | .cons (.runIn y body) r, h => by
    simp only [Block.structuredX, Bool.and_eq_true] at h
    simp [Block.noCfg, Stmt.noCfg, Block.structured_noCfg a true body h.1.1.2, Block.structuredX_noCfg a b x r h.2]
  | .cons (.finish y exc) r, h => by
    simp only [Block.structuredX, Bool.and_eq_true] at h
    simp [Block.noCfg, Stmt.noCfg, Block.structured_noCfg a b r h.2]
  | .cons (.withAction ..) _, h => by simp [Block.structuredX] at h
  | .cons (.log ..) _, h => by simp [Block.structuredX] at h
  | .cons (.raise ..) _, h => by simp [Block.structuredX] at h
  | .cons (.tryCatch ..) _, h => by simp [Block.structuredX] at h
  | .cons .writeTraceback _, h => by simp [Block.structuredX] at h
  | .cons (.addSuccess none _) _, h => by simp [Block.structuredX] at h
  | .cons (.addSuccess (some y) _) r, h => by
    simp only [Block.structuredX, Bool.and_eq_true] at h
    simp [Block.noCfg, Stmt.noCfg, Block.structuredX_noCfg a b x r h.2]
  | .cons (.probe ..) _, h => by simp [Block.structuredX] at h
  | .cons (.startAs ..) _, h => by simp [Block.structuredX] at h
  | .cons (.withHandle y body) r, h => by
    simp only [Block.structuredX, Bool.and_eq_true] at h
    simp [Block.noCfg, Stmt.noCfg, Block.structured_noCfg a true body h.1.2, Block.structured_noCfg a b r h.2]
  | .cons (.logTo y _) r, h => by
    simp only [Block.structuredX, Bool.and_eq_true] at h
    simp [Block.noCfg, Stmt.noCfg, Block.structuredX_noCfg a b x r h.2]
  | .cons (.serializeAs ..) _, h => by simp [Block.structuredX] at h
  | .cons (.continueWith ..) _, h => by simp [Block.structuredX] at h
  | .cons (.addDests ..) _, h => by simp [Block.structuredX] at h
  | .cons (.removeDest ..) _, h => by simp [Block.structuredX] at h
  | .cons (.addGlobals ..) _, h => by simp [Block.structuredX] at h
end

/-! ### the line codec, abstractly (instantiated from C10 in `Properties/C01.lean`) -/

/-- how a staged dict becomes a line (without its newline) and back -/
structure Codec where
  enc : Msg → List Nat
  dec : List Nat → Option Msg

/-- the two laws C10 proves for the orjson-format codec on JSON-native dicts -/
def Codec.OK (c : Codec) (m : Msg) : Prop := c.dec (c.enc m) = some m ∧ 10 ∉ c.enc m

theorem filterMap_dec (c : Codec) (st : List Msg) (h : ∀ m ∈ st, c.OK m) : (st.map c.enc).filterMap c.dec = st := by
  induction st with
  | nil => rfl
  | cons m r ih =>
    have h1 := (h m List.mem_cons_self).1
    simp only [List.map_cons, List.filterMap_cons, h1]
    rw [ih (fun x hx => h x (List.mem_cons_of_mem _ hx))]

/-! ### field values of the staged dicts -/

/-- serializing commutes, as far as any other key can tell, with a key nobody declared -/
theorem applyT_congr (σ : Nat → FV → Nat → FV) (j : Nat) (k0 : String) (ss : List (String × Nat)) (hk0 : ∀ p ∈ ss, p.1 ≠ k0) (m m' : Msg)
    (h : ∀ k, k ≠ k0 → m.get? k = m'.get? k) : ∀ k, k ≠ k0 → (applyT σ j ss m).get? k = (applyT σ j ss m').get? k := by
  induction ss generalizing m m' j with
  | nil => exact h
  | cons p r ih =>
    obtain ⟨key, sid⟩ := p
    have hkey : key ≠ k0 := hk0 (key, sid) List.mem_cons_self
    have hr : ∀ p ∈ r, p.1 ≠ k0 := fun p hp => hk0 p (List.mem_cons_of_mem _ hp)
    simp only [applyT]
    rw [h key hkey]
    cases m'.get? key with
    | none => exact ih j hr m m' h
    | some v =>
      refine ih (j + 1) hr _ _ (fun k hk => ?_)
      by_cases e : k = key
      · subst e; rw [Fields.get?_set_self, Fields.get?_set_self]
      · rw [Fields.get?_set_ne _ _ _ _ e, Fields.get?_set_ne _ _ _ _ e]; exact h k hk

/-- a structural key written into the dict before serialization does not change what any other
key holds afterwards -/
theorem serOpt_set_other (σ : Nat → FV → Nat → FV) (j : Nat) (sers : Option (List (String × Nat))) (k0 : String) (v0 : FV) (m : Msg)
    (hk0 : ∀ ss, sers = some ss → ∀ p ∈ ss, p.1 ≠ k0) (k : String) (hk : k ≠ k0) :
    (serOpt σ j sers (m.set k0 v0)).get? k = (serOpt σ j sers m).get? k := by
  cases sers with
  | none => exact Fields.get?_set_ne _ _ _ _ hk
  | some ss =>
    exact applyT_congr σ j k0 ss (hk0 ss rfl) _ _ (fun k hk => Fields.get?_set_ne _ _ _ _ hk) k hk

/-- no declared field is called like one of `ks` -/
def sersAvoid (sers : Option (List (String × Nat))) (ks : List String) : Prop :=
  ∀ ss, sers = some ss → ∀ p ∈ ss, p.1 ∉ ks

theorem sersAvoid.ne {sers : Option (List (String × Nat))} {ks : List String} (h : sersAvoid sers ks) {k0 : String} (hk0 : k0 ∈ ks) :
    ∀ ss, sers = some ss → ∀ p ∈ ss, p.1 ≠ k0 := fun ss hss p hp e => h ss hss p hp (e ▸ hk0)

/-- **Fields of a message**: every user field holds the value logged, typed ones their
serializer's output (`serOpt σ j ms.sers ms.fields`: the declared fields serialized in declaration
order by serializer calls number `j`, `j+1`, …), and `message_type` is the type. -/
theorem leafDict_fields (σ : Nat → FV → Nat → FV) (u : Nat) (L : Level) (tick j : Nat) (ms : MSpec)
    (hs : sersAvoid ms.sers ["timestamp", "task_uuid", "task_level", "message_type"]) :
    (leafDict σ u L tick j ms).get? "message_type" = some (.str ms.mtype) ∧
    ∀ k, k ∉ ["timestamp", "task_uuid", "task_level", "message_type"] →
      (leafDict σ u L tick j ms).get? k = (serOpt σ j ms.sers ms.fields).get? k := by
  constructor
  · have : (leafDict σ u L tick j ms).get? "message_type" = _ :=
      (by cases hms : ms.sers with
          | none => simp only [leafDict, hms, serOpt]
          | some ss =>
            simp only [leafDict, hms, serOpt]
            exact applyT_get_other σ j ss _ "message_type" (hs.ne (by simp) ss hms) :
        (leafDict σ u L tick j ms).get? "message_type" =
          ((((ms.fields.set "timestamp" (.ts tick)).set "task_uuid" (.uuid u)).set "task_level" (.lvl L)).set
            "message_type" (.str ms.mtype)).get? "message_type")
    rw [this, Fields.get?_set_self]
  · intro k hk
    simp only [List.mem_cons, List.not_mem_nil, or_false, not_or] at hk
    simp only [leafDict]
    rw [serOpt_set_other σ j _ _ _ _ (hs.ne (by simp)) k hk.2.2.2, serOpt_set_other σ j _ _ _ _ (hs.ne (by simp)) k hk.2.2.1,
      serOpt_set_other σ j _ _ _ _ (hs.ne (by simp)) k hk.2.1, serOpt_set_other σ j _ _ _ _ (hs.ne (by simp)) k hk.1]

/-- the five structural keys of a start / end message -/
def actionKeys : List String := ["action_status", "timestamp", "task_uuid", "action_type", "task_level"]

theorem chain5_fields (σ : Nat → FV → Nat → FV) (j : Nat) (sers : Option (List (String × Nat))) (hs : sersAvoid sers actionKeys)
    (f : Fields) (status atype : String) (u : Nat) (L : Level) (tick : Nat) (k : String) (hk : k ∉ actionKeys) :
    (serOpt σ j sers (((((f.set "action_status" (.str status)).set "timestamp" (.ts tick)).set "task_uuid" (.uuid u)).set
        "action_type" (.str atype)).set "task_level" (.lvl L))).get? k = (serOpt σ j sers f).get? k := by
  simp only [actionKeys, List.mem_cons, List.not_mem_nil, or_false, not_or] at hk
  rw [serOpt_set_other σ j _ _ _ _ (hs.ne (by simp [actionKeys])) k hk.2.2.2.2,
    serOpt_set_other σ j _ _ _ _ (hs.ne (by simp [actionKeys])) k hk.2.2.2.1,
    serOpt_set_other σ j _ _ _ _ (hs.ne (by simp [actionKeys])) k hk.2.2.1,
    serOpt_set_other σ j _ _ _ _ (hs.ne (by simp [actionKeys])) k hk.2.1,
    serOpt_set_other σ j _ _ _ _ (hs.ne (by simp [actionKeys])) k hk.1]

/-- **Fields of a start message**: the fields given to `start_action`, typed ones serialized. -/
theorem startDict_fields (σ : Nat → FV → Nat → FV) (u : Nat) (L : Level) (tick j : Nat) (sp : Spec)
    (hs : sersAvoid (sp.sers.map (·.1)) actionKeys) (k : String) (hk : k ∉ actionKeys) :
    (startDict σ u L tick j sp).get? k = (serOpt σ j (sp.sers.map (·.1)) sp.fields).get? k :=
  chain5_fields σ j _ hs _ _ _ _ _ _ k hk

/-- **Fields of a successful end message**: the success fields added, typed ones serialized. -/
theorem endDict_fields_ok (env : Env) (σ : Nat → FV → Nat → FV) (u : Nat) (L : Level) (tick j : Nat) (atype : String)
    (sers : Option (List (String × Nat) × List (String × Nat))) (succ xf : Fields)
    (hs : sersAvoid (sers.map (·.2)) actionKeys) (k : String) (hk : k ∉ actionKeys) :
    (endDict env σ u L tick j atype sers succ xf .ok).get? k = (serOpt σ j (sers.map (·.2)) succ).get? k :=
  chain5_fields σ j _ hs _ _ _ _ _ _ k hk

/-- **Fields of a failed end message**: the exception's class and text — eliot's own `exception` /
`reason` win over extracted fields of the same name —, under every other non-structural key exactly
what the extractor returned (`xf`; nothing if none is registered), and no success field. -/
theorem endDict_fields_failed (env : Env) (σ : Nat → FV → Nat → FV) (u : Nat) (L : Level) (tick j : Nat) (atype : String)
    (sers : Option (List (String × Nat) × List (String × Nat))) (succ xf : Fields) (e : Exc) :
    (endDict env σ u L tick j atype sers succ xf (.raised e)).get? "exception" = some (.str (e.qual env)) ∧
    (endDict env σ u L tick j atype sers succ xf (.raised e)).get? "reason" = some (.str (e.safeStr env)) ∧
    ∀ k, k ∉ actionKeys → k ≠ "exception" → k ≠ "reason" →
      (endDict env σ u L tick j atype sers succ xf (.raised e)).get? k = xf.get? k := by
  refine ⟨?_, ?_, ?_⟩
  · simp only [endDict]
    rw [Fields.get?_set_ne _ _ _ _ (by decide), Fields.get?_set_ne _ _ _ _ (by decide), Fields.get?_set_ne _ _ _ _ (by decide),
      Fields.get?_set_ne _ _ _ _ (by decide), Fields.get?_set_ne _ _ _ _ (by decide), Fields.get?_set_ne _ _ _ _ (by decide),
      Fields.get?_set_self]
  · simp only [endDict]
    rw [Fields.get?_set_ne _ _ _ _ (by decide), Fields.get?_set_ne _ _ _ _ (by decide), Fields.get?_set_ne _ _ _ _ (by decide),
      Fields.get?_set_ne _ _ _ _ (by decide), Fields.get?_set_ne _ _ _ _ (by decide), Fields.get?_set_self]
  · intro k hk h1 h2
    simp only [actionKeys, List.mem_cons, List.not_mem_nil, or_false, not_or] at hk
    simp only [endDict]
    rw [Fields.get?_set_ne _ _ _ _ hk.2.2.2.2, Fields.get?_set_ne _ _ _ _ hk.2.2.2.1, Fields.get?_set_ne _ _ _ _ hk.2.2.1,
      Fields.get?_set_ne _ _ _ _ hk.2.1, Fields.get?_set_ne _ _ _ _ hk.1, Fields.get?_set_ne _ _ _ _ h2,
      Fields.get?_set_ne _ _ _ _ h1]

/-- `d.update(e)` read key by key: the last binding of `k` in `e` wins, else what `d` held -/
theorem Fields.get?_update (d e : Fields) (k : String) :
    (Fields.update d e).get? k = match e.reverse.find? (fun kv => kv.1 == k) with
      | some kv => some kv.2
      | none => d.get? k := by
  unfold Fields.update
  induction e generalizing d with
  | nil => rfl
  | cons kv r ih =>
    rw [List.foldl_cons, ih, List.reverse_cons, List.find?_append]
    cases hr : r.reverse.find? (fun kv => kv.1 == k) with
    | some kv' => rfl
    | none =>
      by_cases hk : kv.1 = k
      · simp [hk, Fields.get?_set_self]
      · have : (kv.1 == k) = false := by simpa using hk
        simp [List.find?_cons, this, Fields.get?_set_ne _ _ _ _ (Ne.symm hk)]

/-- **Fields of a traceback message** (`write_traceback()` in a handler): the traceback's own
`reason` / `traceback` / `exception` — they win over extracted fields of the same name — and under
every other key exactly what the extractor returned for the exception (`xf`). -/
theorem tbSpec_fields (env : Env) (e : Exc) (xf : Fields) :
    (tbSpec env e xf).mtype = "eliot:traceback" ∧ (tbSpec env e xf).sers = none ∧
    (tbSpec env e xf).fields.get? "reason" = some (.str (e.safeStr env)) ∧
    (tbSpec env e xf).fields.get? "traceback" = some (.tbtext e) ∧
    (tbSpec env e xf).fields.get? "exception" = some (.str (e.qual env)) ∧
    ∀ k, k ≠ "reason" → k ≠ "traceback" → k ≠ "exception" → (tbSpec env e xf).fields.get? k = xf.get? k := by
  refine ⟨rfl, rfl, ?_, ?_, ?_, ?_⟩
  · simp [tbSpec, tracebackFields, Fields.get?_update]
  · simp [tbSpec, tracebackFields, Fields.get?_update, List.find?_cons]
  · simp [tbSpec, tracebackFields, Fields.get?_update, List.find?_cons]
  · intro k h1 h2 h3
    have a1 : ("reason" == k) = false := by simpa using Ne.symm h1
    have a2 : ("traceback" == k) = false := by simpa using Ne.symm h2
    have a3 : ("exception" == k) = false := by simpa using Ne.symm h3
    simp [tbSpec, tracebackFields, Fields.get?_update, List.find?_cons, a1, a2, a3]

/-- what an extractor may return without disturbing the parser: no `action_type` / `action_status`
key (in a traceback message they would make the parser read a plain message as an action's start or
end; in a failed end message eliot's own values are written over them anyway) -/
def extClean (xf : Fields) : Bool := (xf.get? "action_type").isNone && (xf.get? "action_status").isNone

/-- … then the traceback message of `write_traceback()` is `clean` -/
theorem tb_clean (env : Env) (e : Exc) (xf : Fields) (tick j : Nat) (h : extClean xf = true) :
    T.clean (.leaf tick j (tbSpec env e xf)) = true := by
  simp only [extClean, Bool.and_eq_true] at h
  have t := (tbSpec_fields env e xf).2.2.2.2.2
  simp only [T.clean, sersClean, (tbSpec_fields env e xf).2.1, Bool.true_and, Bool.and_eq_true]
  exact ⟨by rw [t _ (by decide) (by decide) (by decide)]; exact h.1, by rw [t _ (by decide) (by decide) (by decide)]; exact h.2⟩

/-- if every registered extractor only ever returns `extClean` fields, so does `extOf` -/
theorem extOf_clean {env : Env} (h : ∀ c f, env.extractor c = some f → ∀ e k fs, f e k = .ok fs → extClean fs = true)
    (e : Exc) (k : Nat) : extClean (extOf env e k).1 = true := by
  unfold extOf
  cases hf : firstExtractor env (env.mro (e.cls env)) with
  | none => rfl
  | some f =>
    obtain ⟨c, hc⟩ := firstExtractor_mem hf
    cases hr : f e k with
    | ok fs => simp only [hr]; exact h c f hc e k fs hr
    | error _ => simp only [hr]; rfl

end Sys.Emit
