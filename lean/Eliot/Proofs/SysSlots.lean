import Eliot.Proofs.SysBasic
import Eliot.Properties.C04
/-!
# The position bookkeeping invariant of the core model (for C02, C06)

`World.slots` (ghost) records every position handed out by `Action._nextTaskLevel`, as
(action handle, position).  `SInv` says: positions of one action are `1, 2, …, last` in hand-out
order (contiguity), actions sit at pairwise different places `(task_uuid, task_level)`, every
non-root action and every outstanding serialized task id sits at a handed-out position of another
action, and no outstanding id's place is occupied.  `SInv` is preserved by every basic step of the
model, hence (`Basic.prim`, `Basic.primCfg`, `execB_lift`) by every program.

Note that the two steps that *use* a freshly handed-out position (`Basic.appendChild`,
`Basic.reserve`) are fused with the `nextLevel` that hands it out: started from an arbitrary
`(w.nextLevel p).1` the last slot might already be occupied.
-/
namespace Sys

/-! ## keys -/
/-- the place of an action: (task_uuid, task_level) -/
def actKey (a : Act) : Nat × Level := (a.uuid, a.level)

/-- the place denoted by a handed-out slot: task_uuid of the action, its level extended by the position -/
def slotKey (w : World) (s : Nat × Nat) : Option (Nat × Level) :=
  (w.acts[s.1]?).map fun a => (a.uuid, a.level ++ [s.2])

/-- the positions handed out by action `h`, in hand-out order -/
def positionsOf (slots : List (Nat × Nat)) (h : Nat) : List Nat :=
  (slots.filter (fun s => s.1 == h)).map (·.2)

/-- `(u, l)` is a position handed out by some action of the table -/
def Handed (acts : List Act) (u : Nat) (l : Level) : Prop :=
  ∃ (p : Nat) (pa : Act) (k : Nat), acts[p]? = some pa ∧ u = pa.uuid ∧ l = pa.level ++ [k] ∧ 1 ≤ k ∧ k ≤ pa.last

/-- The invariant, on the four components it reads. -/
structure SInvC (acts : List Act) (ids : List (Nat × (Nat × Level))) (slots : List (Nat × Nat)) (nu : Nat) : Prop where
  /-- I0: every slot's handle is a valid index -/
  valid : ∀ s ∈ slots, s.1 < acts.length
  /-- I1: contiguity -/
  contig : ∀ (h : Nat) (a : Act), acts[h]? = some a → positionsOf slots h = List.range' 1 a.last
  /-- I2: uuids came from the counter -/
  ubA : ∀ a ∈ acts, a.uuid < nu
  ubI : ∀ e ∈ ids, e.2.1 < nu
  /-- I3: actions are at pairwise different places -/
  inj : ∀ (h₁ h₂ : Nat) (a₁ a₂ : Act), acts[h₁]? = some a₁ → acts[h₂]? = some a₂ → a₁.uuid = a₂.uuid → a₁.level = a₂.level → h₁ = h₂
  /-- I4: an action is a root or sits at a handed-out position -/
  own : ∀ (h : Nat) (a : Act), acts[h]? = some a → a.level = [] ∨ Handed acts a.uuid a.level
  /-- I5: outstanding ids are handed-out positions, unoccupied, pairwise different -/
  idHanded : ∀ e ∈ ids, Handed acts e.2.1 e.2.2
  idFree : ∀ e ∈ ids, ∀ (h : Nat) (b : Act), acts[h]? = some b → b.uuid = e.2.1 → b.level ≠ e.2.2
  idInj : ∀ e₁ ∈ ids, ∀ e₂ ∈ ids, e₁.2 = e₂.2 → e₁.1 = e₂.1

def SInv (w : World) : Prop := SInvC w.acts w.ids w.slots w.nextUuid

theorem SInv.congr {w w' : World} (h1 : w'.acts = w.acts) (h2 : w'.ids = w.ids) (h3 : w'.slots = w.slots)
    (h4 : w'.nextUuid = w.nextUuid) (h : SInv w) : SInv w' := by
  unfold SInv; rw [h1, h2, h3, h4]; exact h

theorem SInvC.init : SInvC [] [] [] 0 :=
  ⟨by simp, by simp, by simp, by simp, by simp, by simp, by simp, by simp, by simp⟩

theorem SInv.init : SInv {} := SInvC.init

/-! ## list helpers -/
theorem getElem?_snoc_cases {α} (l : List α) (x b : α) (i : Nat) (h : (l ++ [x])[i]? = some b) :
    l[i]? = some b ∨ (i = l.length ∧ b = x) := by
  rcases Nat.lt_or_ge i l.length with hi | hi
  · rw [List.getElem?_append_left hi] at h; exact Or.inl h
  · rw [List.getElem?_append_right hi] at h
    have h0 : i - l.length = 0 := by
      cases hh : i - l.length with
      | zero => rfl
      | succ n => rw [hh] at h; simp at h
    rw [h0] at h
    simp at h
    exact Or.inr ⟨by omega, h.symm⟩

theorem lt_of_getElem?_some {α} {l : List α} {i : Nat} {a : α} (h : l[i]? = some a) : i < l.length :=
  (List.getElem?_eq_some_iff.mp h).1

theorem positionsOf_append (s t : List (Nat × Nat)) (h : Nat) :
    positionsOf (s ++ t) h = positionsOf s h ++ positionsOf t h := by
  simp [positionsOf, List.filter_append]

theorem positionsOf_nil_of_lt {slots : List (Nat × Nat)} {n : Nat} (hv : ∀ s ∈ slots, s.1 < n) :
    positionsOf slots n = [] := by
  unfold positionsOf
  rw [List.map_eq_nil_iff, List.filter_eq_nil_iff]
  intro s hs he
  have := hv s hs
  have : s.1 = n := by simpa using he
  omega

theorem mem_positionsOf {slots : List (Nat × Nat)} {h k : Nat} : k ∈ positionsOf slots h ↔ (h, k) ∈ slots := by
  unfold positionsOf
  simp only [List.mem_map, List.mem_filter, beq_iff_eq]
  constructor
  · rintro ⟨s, ⟨hs, h1⟩, h2⟩
    obtain ⟨s1, s2⟩ := s
    simp only at h1 h2
    subst h1; subst h2; exact hs
  · intro hs
    exact ⟨(h, k), ⟨hs, rfl⟩, rfl⟩

/-- a list of pairs whose per-first-component projections are duplicate-free is duplicate-free -/
theorem nodup_of_positionsOf (slots : List (Nat × Nat)) (h : ∀ i, (positionsOf slots i).Nodup) : slots.Nodup := by
  induction slots with
  | nil => exact List.nodup_nil
  | cons x xs ih =>
    rw [List.nodup_cons]
    constructor
    · intro hx
      have h1 := h x.1
      have e : positionsOf (x :: xs) x.1 = x.2 :: positionsOf xs x.1 := by simp [positionsOf]
      rw [e, List.nodup_cons] at h1
      exact h1.1 (mem_positionsOf.mpr hx)
    · apply ih
      intro i
      have h1 := h i
      have e : positionsOf (x :: xs) i = positionsOf [x] i ++ positionsOf xs i := positionsOf_append [x] xs i
      rw [e] at h1
      exact List.Nodup.sublist (List.sublist_append_right _ _) h1

/-! ## `Handed` is monotone -/
/-- the table `acts'` has the same places as `acts`, position counters only grow -/
structure KeyEq (acts acts' : List Act) : Prop where
  len : acts'.length = acts.length
  fwd : ∀ (i : Nat) (x : Act), acts[i]? = some x → ∃ x' : Act, acts'[i]? = some x' ∧ x'.uuid = x.uuid ∧ x'.level = x.level ∧ x.last ≤ x'.last
  bwd : ∀ (i : Nat) (x' : Act), acts'[i]? = some x' → ∃ x : Act, acts[i]? = some x ∧ x'.uuid = x.uuid ∧ x'.level = x.level ∧ x.last ≤ x'.last

theorem KeyEq.ofSet {acts : List Act} {h : Nat} {a a' : Act} (ha : acts[h]? = some a) (hu : a'.uuid = a.uuid)
    (hl : a'.level = a.level) (hk : a.last ≤ a'.last) : KeyEq acts (acts.set h a') := by
  have hlt := lt_of_getElem?_some ha
  refine ⟨List.length_set, fun i x hx => ?_, fun i x' hx' => ?_⟩
  · by_cases e : h = i
    · subst e
      rw [ha] at hx; cases hx
      exact ⟨a', List.getElem?_set_self hlt, hu, hl, hk⟩
    · exact ⟨x, by rw [List.getElem?_set_ne e]; exact hx, rfl, rfl, Nat.le_refl _⟩
  · by_cases e : h = i
    · subst e
      rw [List.getElem?_set_self hlt] at hx'; cases hx'
      exact ⟨a, ha, hu, hl, hk⟩
    · rw [List.getElem?_set_ne e] at hx'
      exact ⟨x', hx', rfl, rfl, Nat.le_refl _⟩

theorem Handed.keyEq {acts acts' : List Act} (ke : KeyEq acts acts') {u : Nat} {l : Level} (h : Handed acts u l) :
    Handed acts' u l := by
  obtain ⟨p, pa, k, hp, e1, e2, h1, h2⟩ := h
  obtain ⟨pa', hp', f1, f2, f3⟩ := ke.fwd p pa hp
  exact ⟨p, pa', k, hp', by rw [f1]; exact e1, by rw [f2]; exact e2, h1, Nat.le_trans h2 f3⟩

theorem Handed.append {acts : List Act} (ys : List Act) {u : Nat} {l : Level} (h : Handed acts u l) :
    Handed (acts ++ ys) u l := by
  obtain ⟨p, pa, k, hp, e1, e2, h1, h2⟩ := h
  exact ⟨p, pa, k, by rw [List.getElem?_append_left (lt_of_getElem?_some hp)]; exact hp, e1, e2, h1, h2⟩

namespace SInvC
variable {acts : List Act} {ids : List (Nat × (Nat × Level))} {slots : List (Nat × Nat)} {nu : Nat}

/-- a handed-out place is never the *next* position of an action -/
theorem handed_ne_next (inv : SInvC acts ids slots nu) {p : Nat} {pa : Act} (hp : acts[p]? = some pa)
    {u : Nat} {l : Level} (h : Handed acts u l) (hu : u = pa.uuid) : l ≠ pa.level ++ [pa.last + 1] := by
  intro hl
  obtain ⟨p', pa', k, hp', e1, e2, _, h2⟩ := h
  rw [e2] at hl
  obtain ⟨f1, f2⟩ := List.append_inj' hl rfl
  have hpp : p' = p := inv.inj p' p pa' pa hp' hp (by rw [← e1, hu]) f1
  subst hpp
  rw [hp] at hp'; cases hp'
  simp at f2
  omega

/-- the next position of an action is occupied by no action … -/
theorem freshA (inv : SInvC acts ids slots nu) {p : Nat} {pa : Act} (hp : acts[p]? = some pa) :
    ∀ (h : Nat) (b : Act), acts[h]? = some b → b.uuid = pa.uuid → b.level ≠ pa.level ++ [pa.last + 1] := by
  intro h b hb hu hl
  rcases inv.own h b hb with h0 | h0
  · rw [h0] at hl; simp at hl
  · exact inv.handed_ne_next hp h0 hu hl

/-- … and by no outstanding task id -/
theorem freshI (inv : SInvC acts ids slots nu) {p : Nat} {pa : Act} (hp : acts[p]? = some pa) :
    ∀ e ∈ ids, e.2.1 = pa.uuid → e.2.2 ≠ pa.level ++ [pa.last + 1] :=
  fun e he hu => inv.handed_ne_next hp (inv.idHanded e he) hu

/-- transfer along a key-preserving change of the table, given I0 and I1 of the new state -/
theorem ofKeyEq (inv : SInvC acts ids slots nu) {acts' : List Act} {slots' : List (Nat × Nat)} (ke : KeyEq acts acts')
    (hv : ∀ s ∈ slots', s.1 < acts'.length)
    (hc : ∀ (h : Nat) (a : Act), acts'[h]? = some a → positionsOf slots' h = List.range' 1 a.last) : SInvC acts' ids slots' nu where
  valid := hv
  contig := hc
  ubA := fun a ha => by
    obtain ⟨i, hi⟩ := List.mem_iff_getElem?.mp ha
    obtain ⟨x, hx, e1, _, _⟩ := ke.bwd i a hi
    rw [e1]; exact inv.ubA x (List.mem_of_getElem? hx)
  ubI := inv.ubI
  inj := fun h₁ h₂ a₁ a₂ g1 g2 eu el => by
    obtain ⟨x1, hx1, e1, e2, _⟩ := ke.bwd _ _ g1
    obtain ⟨x2, hx2, f1, f2, _⟩ := ke.bwd _ _ g2
    exact inv.inj h₁ h₂ x1 x2 hx1 hx2 (by rw [← e1, ← f1]; exact eu) (by rw [← e2, ← f2]; exact el)
  own := fun h a ha => by
    obtain ⟨x, hx, e1, e2, _⟩ := ke.bwd _ _ ha
    rcases inv.own h x hx with h0 | h0
    · exact Or.inl (by rw [e2]; exact h0)
    · exact Or.inr (by rw [e1, e2]; exact h0.keyEq ke)
  idHanded := fun e he => (inv.idHanded e he).keyEq ke
  idFree := fun e he h b hb hu => by
    obtain ⟨x, hx, e1, e2, _⟩ := ke.bwd _ _ hb
    rw [e2]; exact inv.idFree e he h x hx (by rw [← e1]; exact hu)
  idInj := inv.idInj

/-- replacing an action by one with the same place and the same counter (`finished`, `succ`) -/
theorem setSame (inv : SInvC acts ids slots nu) {h : Nat} {a a' : Act} (ha : acts[h]? = some a)
    (hu : a'.uuid = a.uuid) (hl : a'.level = a.level) (hk : a'.last = a.last) : SInvC (acts.set h a') ids slots nu := by
  have hlt := lt_of_getElem?_some ha
  refine inv.ofKeyEq (KeyEq.ofSet ha hu hl (Nat.le_of_eq hk.symm)) (fun s hs => by rw [List.length_set]; exact inv.valid s hs)
    (fun i x hx => ?_)
  by_cases e : h = i
  · subst e
    rw [List.getElem?_set_self hlt] at hx; cases hx
    rw [hk]; exact inv.contig h a ha
  · rw [List.getElem?_set_ne e] at hx
    exact inv.contig i x hx

/-- `_nextTaskLevel`: the counter of `h` goes up by one and that position is recorded -/
theorem handOut (inv : SInvC acts ids slots nu) {h : Nat} {a a' : Act} (ha : acts[h]? = some a)
    (hu : a'.uuid = a.uuid) (hl : a'.level = a.level) (hk : a'.last = a.last + 1) :
    SInvC (acts.set h a') ids (slots ++ [(h, a.last + 1)]) nu := by
  have hlt := lt_of_getElem?_some ha
  refine inv.ofKeyEq (KeyEq.ofSet ha hu hl (by omega)) (fun s hs => ?_) (fun i x hx => ?_)
  · rw [List.length_set]
    rcases List.mem_append.mp hs with hs | hs
    · exact inv.valid s hs
    · rw [List.mem_singleton.mp hs]; exact hlt
  · rw [positionsOf_append]
    by_cases e : h = i
    · subst e
      rw [List.getElem?_set_self hlt] at hx; cases hx
      rw [hk, inv.contig h a ha, List.range'_concat]
      simp [positionsOf]; omega
    · rw [List.getElem?_set_ne e] at hx
      rw [inv.contig i x hx]
      simp [positionsOf, e]

theorem monoNu (inv : SInvC acts ids slots nu) {nu' : Nat} (h : nu ≤ nu') : SInvC acts ids slots nu' :=
  { inv with ubA := fun a ha => Nat.lt_of_lt_of_le (inv.ubA a ha) h, ubI := fun e he => Nat.lt_of_lt_of_le (inv.ubI e he) h }

theorem idsSubset (inv : SInvC acts ids slots nu) {ids' : List (Nat × (Nat × Level))} (h : ∀ e ∈ ids', e ∈ ids) :
    SInvC acts ids' slots nu :=
  { inv with ubI := fun e he => inv.ubI e (h e he), idHanded := fun e he => inv.idHanded e (h e he),
             idFree := fun e he => inv.idFree e (h e he),
             idInj := fun e₁ h1 e₂ h2 => inv.idInj e₁ (h e₁ h1) e₂ (h e₂ h2) }

/-- a new action at an unoccupied place that is a root with a new uuid or a handed-out position -/
theorem addAct (inv : SInvC acts ids slots nu) (x : Act) (hlast : x.last = 0) (hu : x.uuid < nu)
    (hown : x.level = [] ∨ Handed acts x.uuid x.level)
    (hfreeA : ∀ (h : Nat) (b : Act), acts[h]? = some b → b.uuid = x.uuid → b.level ≠ x.level)
    (hfreeI : ∀ e ∈ ids, e.2.1 = x.uuid → e.2.2 ≠ x.level) : SInvC (acts ++ [x]) ids slots nu where
  valid := fun s hs => by rw [List.length_append]; exact Nat.lt_of_lt_of_le (inv.valid s hs) (Nat.le_add_right _ _)
  contig := fun h a ha => by
    rcases getElem?_snoc_cases _ _ _ _ ha with ha | ⟨rfl, rfl⟩
    · exact inv.contig h a ha
    · rw [hlast, positionsOf_nil_of_lt inv.valid]; rfl
  ubA := fun a ha => by
    rcases List.mem_append.mp ha with ha | ha
    · exact inv.ubA a ha
    · rw [List.mem_singleton.mp ha]; exact hu
  ubI := inv.ubI
  inj := fun h₁ h₂ a₁ a₂ g1 g2 eu el => by
    rcases getElem?_snoc_cases _ _ _ _ g1 with k1 | ⟨rfl, rfl⟩ <;>
      rcases getElem?_snoc_cases _ _ _ _ g2 with k2 | ⟨rfl, rfl⟩
    · exact inv.inj h₁ h₂ a₁ a₂ k1 k2 eu el
    · exact absurd el (hfreeA h₁ a₁ k1 eu)
    · exact absurd el.symm (hfreeA h₂ a₂ k2 eu.symm)
    · rfl
  own := fun h a ha => by
    rcases getElem?_snoc_cases _ _ _ _ ha with ha | ⟨rfl, rfl⟩
    · exact (inv.own h a ha).imp id (Handed.append _)
    · exact hown.imp id (Handed.append _)
  idHanded := fun e he => (inv.idHanded e he).append _
  idFree := fun e he h b hb hub => by
    rcases getElem?_snoc_cases _ _ _ _ hb with hb | ⟨rfl, rfl⟩
    · exact inv.idFree e he h b hb hub
    · exact fun hl => hfreeI e he hub.symm hl.symm
  idInj := inv.idInj

/-- a new outstanding task id at an unoccupied handed-out position -/
theorem addId (inv : SInvC acts ids slots nu) (y u : Nat) (l : Level) (hu : u < nu) (hh : Handed acts u l)
    (hfreeA : ∀ (h : Nat) (b : Act), acts[h]? = some b → b.uuid = u → b.level ≠ l)
    (hfreeI : ∀ e ∈ ids, e.2.1 = u → e.2.2 ≠ l) : SInvC acts (setNat ids y (u, l)) slots nu where
  valid := inv.valid
  contig := inv.contig
  ubA := inv.ubA
  ubI := fun e he => by
    rcases Sys.C04.mem_setNat _ _ _ _ he with he | rfl
    · exact inv.ubI e he
    · exact hu
  inj := inv.inj
  own := inv.own
  idHanded := fun e he => by
    rcases Sys.C04.mem_setNat _ _ _ _ he with he | rfl
    · exact inv.idHanded e he
    · exact hh
  idFree := fun e he => by
    rcases Sys.C04.mem_setNat _ _ _ _ he with he | rfl
    · exact inv.idFree e he
    · exact hfreeA
  idInj := fun e₁ h1 e₂ h2 he => by
    rcases Sys.C04.mem_setNat _ _ _ _ h1 with h1 | rfl <;> rcases Sys.C04.mem_setNat _ _ _ _ h2 with h2 | rfl
    · exact inv.idInj e₁ h1 e₂ h2 he
    · exact absurd (congrArg Prod.snd he) (hfreeI e₁ h1 (congrArg Prod.fst he))
    · exact absurd (congrArg Prod.snd he.symm) (hfreeI e₂ h2 (congrArg Prod.fst he.symm))
    · rfl

end SInvC

/-! ## consequences of the invariant -/
theorem nodup_filterMap_of_inj {α β} (f : α → Option β) (l : List α) (hn : l.Nodup)
    (hinj : ∀ a ∈ l, ∀ a' ∈ l, ∀ b, f a = some b → f a' = some b → a = a') : (l.filterMap f).Nodup := by
  induction l with
  | nil => exact List.nodup_nil
  | cons x xs ih =>
    rw [List.nodup_cons] at hn
    have ih' := ih hn.2 (fun a ha a' ha' => hinj a (List.mem_cons_of_mem _ ha) a' (List.mem_cons_of_mem _ ha'))
    cases hx : f x with
    | none => rw [List.filterMap_cons_none hx]; exact ih'
    | some b =>
      rw [List.filterMap_cons_some hx, List.nodup_cons]
      refine ⟨fun hb => ?_, ih'⟩
      obtain ⟨a', ha', hfa'⟩ := List.mem_filterMap.mp hb
      have : x = a' := hinj x List.mem_cons_self a' (List.mem_cons_of_mem _ ha') b hx hfa'
      exact hn.1 (this ▸ ha')

theorem positionsOf_nil_of_le {slots : List (Nat × Nat)} {n i : Nat} (hv : ∀ s ∈ slots, s.1 < n) (hi : n ≤ i) :
    positionsOf slots i = [] :=
  positionsOf_nil_of_lt (fun s hs => Nat.lt_of_lt_of_le (hv s hs) hi)

theorem slotKey_eq_some {w : World} {s : Nat × Nat} {b : Nat × Level} (h : slotKey w s = some b) :
    ∃ a : Act, w.acts[s.1]? = some a ∧ b = (a.uuid, a.level ++ [s.2]) := by
  unfold slotKey at h
  obtain ⟨a, ha, hb⟩ := Option.map_eq_some_iff.mp h
  exact ⟨a, ha, hb.symm⟩

namespace SInvC
variable {acts : List Act} {ids : List (Nat × (Nat × Level))} {slots : List (Nat × Nat)} {nu : Nat}

/-- no position is handed out twice -/
theorem slots_nodup (inv : SInvC acts ids slots nu) : slots.Nodup := by
  apply nodup_of_positionsOf
  intro i
  cases ha : acts[i]? with
  | none =>
    rw [positionsOf_nil_of_le inv.valid (by simpa using ha)]
    exact List.nodup_nil
  | some a => rw [inv.contig i a ha]; exact List.nodup_range' 1

/-- the slots of action `h` are exactly `(h,1) … (h,last)` -/
theorem mem_slots_iff (inv : SInvC acts ids slots nu) {h : Nat} {a : Act} (ha : acts[h]? = some a) (k : Nat) :
    (h, k) ∈ slots ↔ 1 ≤ k ∧ k ≤ a.last := by
  rw [← mem_positionsOf, inv.contig h a ha, List.mem_range'_1]
  omega

/-- a handed-out place is a recorded slot -/
theorem handed_slot (inv : SInvC acts ids slots nu) {u : Nat} {l : Level} (h : Handed acts u l) :
    ∃ (q : Nat) (pa : Act) (k : Nat), acts[q]? = some pa ∧ u = pa.uuid ∧ l = pa.level ++ [k] ∧ (q, k) ∈ slots := by
  obtain ⟨q, pa, k, hq, e1, e2, h1, h2⟩ := h
  exact ⟨q, pa, k, hq, e1, e2, (inv.mem_slots_iff hq k).mpr ⟨h1, h2⟩⟩

end SInvC

/-- every slot denotes a place … -/
theorem SInv.slotKey_some {w : World} (inv : SInv w) (s : Nat × Nat) (hs : s ∈ w.slots) :
    ∃ a : Act, w.acts[s.1]? = some a ∧ slotKey w s = some (a.uuid, a.level ++ [s.2]) := by
  have hlt := inv.valid s hs
  refine ⟨w.acts[s.1], List.getElem?_eq_getElem hlt, ?_⟩
  unfold slotKey
  rw [List.getElem?_eq_getElem hlt]; rfl

/-- … and different slots denote different places -/
theorem SInv.slotKey_inj {w : World} (inv : SInv w) (s : Nat × Nat) (_hs : s ∈ w.slots) (t : Nat × Nat) (_ht : t ∈ w.slots)
    (b : Nat × Level) (h1 : slotKey w s = some b) (h2 : slotKey w t = some b) : s = t := by
  obtain ⟨a, ha, e1⟩ := slotKey_eq_some h1
  obtain ⟨a', ha', e2⟩ := slotKey_eq_some h2
  rw [e1] at e2
  have hu : a.uuid = a'.uuid := congrArg Prod.fst e2
  have hl : a.level ++ [s.2] = a'.level ++ [t.2] := congrArg Prod.snd e2
  obtain ⟨f1, f2⟩ := List.append_inj' hl rfl
  have h12 : s.1 = t.1 := inv.inj s.1 t.1 a a' ha ha' hu f1
  have h22 : s.2 = t.2 := by simpa using f2
  exact Prod.ext h12 h22

theorem SInv.slotKeys_nodup {w : World} (inv : SInv w) : (w.slots.filterMap (slotKey w)).Nodup :=
  nodup_filterMap_of_inj _ _ inv.slots_nodup inv.slotKey_inj

theorem SInv.slotKeys_length {w : World} (inv : SInv w) : (w.slots.filterMap (slotKey w)).length = w.slots.length := by
  have key : ∀ l : List (Nat × Nat), (∀ s ∈ l, ∃ b, slotKey w s = some b) → (l.filterMap (slotKey w)).length = l.length := by
    intro l
    induction l with
    | nil => intro _; rfl
    | cons x xs ih =>
      intro h
      obtain ⟨b, hb⟩ := h x List.mem_cons_self
      rw [List.filterMap_cons_some hb, List.length_cons, List.length_cons, ih (fun s hs => h s (List.mem_cons_of_mem _ hs))]
  exact key _ (fun s hs => by obtain ⟨a, _, h⟩ := inv.slotKey_some s hs; exact ⟨_, h⟩)

/-! ## the basic steps of the model preserve `SInv` -/
theorem nextLevel_eq {w : World} {h : Nat} {a : Act} (ha : w.acts[h]? = some a) :
    w.nextLevel h = ({ w with acts := w.acts.set h { a with last := a.last + 1 }, slots := w.slots ++ [(h, a.last + 1)],
                              lastSlot := some (h, a.last + 1) },
      a.level ++ [a.last + 1]) := by
  simp only [World.nextLevel, ha]

theorem sinv_nextLevel (w : World) (h : Nat) (inv : SInv w) : SInv (w.nextLevel h).1 := by
  cases ha : w.acts[h]? with
  | none =>
    have : w.nextLevel h = (w, []) := by simp only [World.nextLevel, ha]
    rw [this]; exact inv
  | some a =>
    rw [nextLevel_eq ha]
    exact SInvC.handOut inv ha rfl rfl rfl

theorem sinv_freshAction (w : World) (t : String) (s : Option (List (String × Nat) × List (String × Nat))) (inv : SInv w) :
    SInv (w.freshAction t s).1 := by
  show SInvC (w.acts ++ [{ uuid := w.nextUuid, level := [], atype := t, sers := s }]) w.ids w.slots (w.nextUuid + 1)
  refine (SInvC.monoNu inv (Nat.le_succ _)).addAct _ rfl (Nat.lt_succ_self _) (Or.inl rfl) (fun h b hb hu => ?_) (fun e he hu => ?_)
  · exact absurd hu (Nat.ne_of_lt (inv.ubA b (List.mem_of_getElem? hb)))
  · exact absurd hu (Nat.ne_of_lt (inv.ubI e he))

/-- `parent.child(..)`: hand out the next position of `p`, create the child there -/
theorem sinv_child (w : World) (p : Nat) (pa : Act) (t : String) (s : Option (List (String × Nat) × List (String × Nat)))
    (hp : w.acts[p]? = some pa) (inv : SInv w) :
    SInv { (w.nextLevel p).1 with acts := (w.nextLevel p).1.acts ++
      [({ uuid := pa.uuid, level := (w.nextLevel p).2, atype := t, sers := s } : Act)] } := by
  rw [nextLevel_eq hp]
  show SInvC (w.acts.set p { pa with last := pa.last + 1 } ++
    [{ uuid := pa.uuid, level := pa.level ++ [pa.last + 1], atype := t, sers := s }]) w.ids
    (w.slots ++ [(p, pa.last + 1)]) w.nextUuid
  have ke : KeyEq w.acts (w.acts.set p { pa with last := pa.last + 1 }) := KeyEq.ofSet hp rfl rfl (Nat.le_succ _)
  have inv1 : SInvC (w.acts.set p { pa with last := pa.last + 1 }) w.ids (w.slots ++ [(p, pa.last + 1)]) w.nextUuid :=
    SInvC.handOut inv hp rfl rfl rfl
  refine inv1.addAct _ rfl (inv.ubA pa (List.mem_of_getElem? hp)) (Or.inr ?_) (fun h b hb hu => ?_) (inv.freshI hp)
  · exact ⟨p, { pa with last := pa.last + 1 }, pa.last + 1, List.getElem?_set_self (lt_of_getElem?_some hp), rfl, rfl,
      Nat.le_add_left _ _, Nat.le_refl _⟩
  · obtain ⟨x, hx, e1, e2, _⟩ := ke.bwd h b hb
    rw [e2]; exact inv.freshA hp h x hx (by rw [← e1]; exact hu)

/-- `serialize_task_id`: hand out the next position of `h`, remember it under the name `y` -/
theorem sinv_reserve (w : World) (h : Nat) (a : Act) (y : Nat) (ha : w.acts[h]? = some a) (inv : SInv w) :
    SInv { (w.nextLevel h).1 with ids := setNat (w.nextLevel h).1.ids y (a.uuid, (w.nextLevel h).2) } := by
  rw [nextLevel_eq ha]
  show SInvC (w.acts.set h { a with last := a.last + 1 }) (setNat w.ids y (a.uuid, a.level ++ [a.last + 1]))
    (w.slots ++ [(h, a.last + 1)]) w.nextUuid
  have ke : KeyEq w.acts (w.acts.set h { a with last := a.last + 1 }) := KeyEq.ofSet ha rfl rfl (Nat.le_succ _)
  have inv1 : SInvC (w.acts.set h { a with last := a.last + 1 }) w.ids (w.slots ++ [(h, a.last + 1)]) w.nextUuid :=
    SInvC.handOut inv ha rfl rfl rfl
  refine inv1.addId y _ _ (inv.ubA a (List.mem_of_getElem? ha)) ?_ (fun i b hb hu => ?_) (inv.freshI ha)
  · exact ⟨h, { a with last := a.last + 1 }, a.last + 1, List.getElem?_set_self (lt_of_getElem?_some ha), rfl, rfl,
      Nat.le_add_left _ _, Nat.le_refl _⟩
  · obtain ⟨x, hx, e1, e2, _⟩ := ke.bwd i b hb
    rw [e2]; exact inv.freshA ha i x hx (by rw [← e1]; exact hu)

/-- `continue_task` from an outstanding id: the id is consumed, the action is created at its place -/
theorem sinv_remote (w : World) (y u : Nat) (lvl : Level) (t : String) (s : Option (List (String × Nat) × List (String × Nat)))
    (hl : lookupNat w.ids y = some (u, lvl)) (inv : SInv w) :
    SInv { w with ids := w.ids.filter (fun e => e.1 != y),
                  acts := w.acts ++ [({ uuid := u, level := lvl, atype := t, sers := s } : Act)] } := by
  show SInvC (w.acts ++ [{ uuid := u, level := lvl, atype := t, sers := s }]) (w.ids.filter (fun e => e.1 != y)) w.slots w.nextUuid
  have hm : (y, (u, lvl)) ∈ w.ids := Sys.C04.lookupNat_mem _ _ _ hl
  have inv0 : SInvC w.acts (w.ids.filter (fun e => e.1 != y)) w.slots w.nextUuid :=
    SInvC.idsSubset inv (fun e he => (List.mem_filter.mp he).1)
  refine inv0.addAct _ rfl (inv.ubI _ hm) (Or.inr (inv.idHanded _ hm)) (inv.idFree _ hm) (fun e he hu hlv => ?_)
  obtain ⟨he1, he2⟩ := List.mem_filter.mp he
  have : e.1 = y := inv.idInj e he1 _ hm (Prod.ext hu hlv)
  simp [this] at he2

theorem sinv_callDest (env : Env) (w : World) (d : Nat) (m : Msg) (inv : SInv w) : SInv (w.callDest env d m).1 := by
  unfold World.callDest
  simp only
  split <;> exact inv

/-- the relation lifted over programs -/
def SPres (w w' : World) : Prop := SInv w → SInv w'

theorem sinv_basic (env : Env) : Basic env SPres where
  refl := fun _ h => h
  trans := fun h1 h2 h => h2 (h1 h)
  callDest := sinv_callDest env
  stagePush := fun _ _ h => h
  bufferSet := fun _ _ h => h
  ghostSlot := fun _ _ _ h => h
  clock := fun _ h => h
  nextLevel := sinv_nextLevel
  freshAction := sinv_freshAction
  extCalls := fun _ h => h
  serCalls := fun _ h => h
  setFinished := fun _ _ _ ha inv => SInvC.setSame inv ha rfl rfl rfl
  appendChild := sinv_child
  appendRemote := sinv_remote
  setCtx := fun _ _ h => h
  setVars := fun _ _ h => h
  reserve := sinv_reserve
  probe := fun _ _ h => h
  succ := fun _ _ _ _ ha inv => SInvC.setSame inv ha rfl rfl rfl

theorem sinv_basicCfg (env : Env) : BasicCfg env SPres where
  startDelivery := fun _ _ h => h
  extendDests := fun _ _ h => h
  popPending := fun _ h => h
  removeDest := fun _ _ h => h
  addGlobals := fun _ _ h => h

/-- every statement / block of every program preserves the invariant -/
theorem sinv_execB (env : Env) (cur : Option Exc) (w : World) (b : Block) (inv : SInv w) : SInv (execB env cur w b).1 :=
  execB_lift (sinv_basic env).prim cur w b (Or.inr ((sinv_basic env).primCfg (sinv_basicCfg env))) inv

theorem sinv_execS (env : Env) (cur : Option Exc) (w : World) (s : Stmt) (inv : SInv w) : SInv (execS env cur w s).1 :=
  execS_lift (sinv_basic env).prim cur w s (Or.inr ((sinv_basic env).primCfg (sinv_basicCfg env))) inv

end Sys
