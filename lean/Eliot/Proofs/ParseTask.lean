import Eliot.Proofs.ParseCompl
/-! Glue from the node-level step theorems (`Tree.stepC`) to `Task.add`. -/
namespace PM

/-- Shape facts every message of a spec tree satisfies. -/
def PMsg.Shaped (u : String) (m : PMsg) : Prop :=
  m.uuid = u ∧ (m.atype = none ∨ (m.atype.isSome ∧ m.status.isSome))

mutual
theorem Tree.msgs_shape (u : String) (t : Tree) (lvl : Level) :
    ∀ m ∈ Tree.msgs u t lvl, m.Shaped u := by
  cases t with
  | leaf b =>
    intro m hm
    simp only [Tree.msgs, List.mem_cons, List.not_mem_nil, or_false] at hm
    subst hm
    simp [PMsg.Shaped, leafMsg]
  | node a sb eb ok kids =>
    intro m hm
    simp only [Tree.msgs, List.mem_cons, List.mem_append, List.not_mem_nil, or_false] at hm
    rcases hm with h | h | h
    · subst h; simp [PMsg.Shaped, startMsg]
    · exact Forest.msgs_shape u kids lvl 2 m h
    · subst h; simp [PMsg.Shaped, endMsg]
theorem Forest.msgs_shape (u : String) (f : Forest) (lvl : Level) (k0 : Nat) :
    ∀ m ∈ Forest.msgs u f lvl k0, m.Shaped u := by
  cases f with
  | nil => intro m hm; simp [Forest.msgs] at hm
  | cons t rest =>
    intro m hm
    simp only [Forest.msgs, List.mem_append] at hm
    rcases hm with h | h
    · exact Tree.msgs_shape u t _ m h
    · exact Forest.msgs_shape u rest lvl (k0+1) m h
end

/-- Messages of an action tree at the root: non-empty level, and plain ones are not at `[1]`. -/
theorem Tree.msgs_root_level (u : String) (a : String) (sb eb : Nat) (ok : Bool) (kids : Forest)
    (m : PMsg) (hm : m ∈ Tree.msgs u (.node a sb eb ok kids) []) :
    m.level ≠ [] ∧ (m.atype = none → m.level ≠ [1]) := by
  simp only [Tree.msgs, List.mem_cons, List.mem_append, List.not_mem_nil, or_false] at hm
  rcases hm with h | h | h
  · subst h; simp [startMsg]
  · obtain ⟨k, hk, _, hp⟩ := Forest.msgs_prefix_lt u kids [] 2 m h
    obtain ⟨r, hr⟩ := hp
    simp only [List.nil_append, List.singleton_append] at hr
    refine ⟨by rw [← hr]; simp, fun _ => ?_⟩
    rw [← hr]; intro hc
    simp only [List.cons.injEq] at hc
    omega
  · subst h; simp [endMsg]

/-! ### `completed` bookkeeping -/
theorem level_beq (x l : Level) : (x == l) = decide (x = l) := by
  by_cases h : x = l <;> simp [h]

theorem contains_insertSorted (l x : Level) (c : List Level) :
    (insertSorted l c).contains x = (x == l || c.contains x) := by
  induction c with
  | nil => simp [insertSorted, level_beq]
  | cons y ys ih =>
    simp only [insertSorted]
    split
    · rename_i h; subst h
      by_cases hx : x = l <;> simp [hx]
    · split
      · simp [level_beq]
      · simp only [List.contains_cons, ih]
        cases (x == y) <;> cases (x == l) <;> simp

theorem contains_foldl_insertSorted (newC c : List Level) (x : Level) :
    (newC.foldl (fun acc l => insertSorted l acc) c).contains x = (newC.contains x || c.contains x) := by
  induction newC generalizing c with
  | nil => simp
  | cons y ys ih =>
    simp only [List.foldl_cons, ih, contains_insertSorted, List.contains_cons]
    cases (x == y) <;> cases (ys.contains x) <;> simp

/-- `relPath` from the root is "drop the last component". -/
theorem relPath_nil (m : PMsg) : relPath [] m = m.level.dropLast := by simp [relPath]

theorem reverse_tail_reverse (l : List Nat) (k : Nat) (r : List Nat) (h : l.reverse = k :: r) :
    r.reverse = l.dropLast ∧ l.getLast? = some k := by
  have : l = r.reverse ++ [k] := by
    have := congrArg List.reverse h
    simpa using this
  subst this
  simp

/-- The state the parser holds for action task `(u, t)` once exactly the messages in `S` arrived. -/
structure TaskOK (S : PMsg → Bool) (u : String) (t : Tree) (T : Task) : Prop where
  root : T.root = Tree.view S u t []
  compl : Cok S u t [] T.completed

/-- One `Task.add` of a not-yet-seen message of the task moves the state from `S` to `S ∪ {m}`. -/
theorem Task.add_step (S : PMsg → Bool) (u : String) (a : String) (sb eb : Nat) (ok : Bool) (kids : Forest)
    (T : Task) (m : PMsg) (hm : m ∈ Tree.msgs u (.node a sb eb ok kids) []) (hS : S m = false)
    (hT : TaskOK S u (.node a sb eb ok kids) T) :
    ∃ T', Task.add T m = .ok T' ∧ TaskOK (ext S m) u (.node a sb eb ok kids) T' := by
  obtain ⟨newC, hadd, hnew⟩ := Tree.stepC S u a sb eb ok kids [] m hm hS T.completed hT.compl
  have hsome : (Tree.view (ext S m) u (.node a sb eb ok kids) []).isSome :=
    Tree.view_some_of_mem (ext S m) u _ [] m hm (ext_self S m)
  have hshape := Tree.msgs_shape u _ [] m hm
  obtain ⟨hne, hplain⟩ := Tree.msgs_root_level u a sb eb ok kids m hm
  have hroot : T.root.getD emptyAct = (Tree.view S u (.node a sb eb ok kids) []).getD emptyAct := by
    rw [hT.root]
  -- the completed set afterwards
  have hcompl : Cok (ext S m) u (.node a sb eb ok kids) []
      (newC.foldl (fun acc l => insertSorted l acc) T.completed) := by
    intro L hL
    rw [contains_foldl_insertSorted, hnew L, hT.compl L hL]
    cases h1 : Tree.cmem S u (.node a sb eb ok kids) [] L
    · simp
    · simp [Tree.cmem_mono S m u _ [] L h1]
  have hnewroot : some ((Tree.view (ext S m) u (.node a sb eb ok kids) []).getD emptyAct)
      = Tree.view (ext S m) u (.node a sb eb ok kids) [] :=
    (some_getD_of_isSome _ _ hsome).symm
  rw [relPath_nil] at hadd
  -- now follow Task.add
  cases hrev : m.level.reverse with
  | nil => exact absurd (by simpa using hrev) hne
  | cons k revPath =>
    obtain ⟨hpath, hlast⟩ := reverse_tail_reverse m.level k revPath hrev
    cases hat : m.atype with
    | some ty =>
      rcases hshape.2 with h | ⟨_, hst⟩
      · rw [hat] at h; cases h
      · obtain ⟨st, hst'⟩ := Option.isSome_iff_exists.mp hst
        refine ⟨{ root := some ((Tree.view (ext S m) u (.node a sb eb ok kids) []).getD emptyAct),
                  completed := newC.foldl (fun acc l => insertSorted l acc) T.completed }, ?_, ⟨hnewroot, hcompl⟩⟩
        unfold Task.add
        simp only [hat, hrev, hpath]
        by_cases hstarted : st = "started"
        · subst hstarted
          have hop : opOf m = Op.setStart m := by simp [opOf, hat, hst']
          rw [hop, ← hroot] at hadd
          simp only [hst', bind, Except.bind, pure, Except.pure, hadd]
        · have hop : opOf m = Op.setEnd m := by
            unfold opOf; rw [hat, hst']
            split
            · rename_i h1 h2; simp at h2; exact absurd h2 (by simpa using hstarted)
            · rfl
            · rename_i h1; simp at h1
          rw [hop, ← hroot] at hadd
          have : (match some st with
              | some "started" => (pure (Op.setStart m) : Except Err Op)
              | some _ => pure (Op.setEnd m)
              | none => Except.error Err.missingStatus) = pure (Op.setEnd m) := by
            split
            · rename_i h; simp at h; exact absurd h hstarted
            · rfl
            · rename_i h; simp at h
          simp only [hst', this, bind, Except.bind, pure, Except.pure, hadd]
    | none =>
      have hl1 := hplain hat
      refine ⟨{ root := some ((Tree.view (ext S m) u (.node a sb eb ok kids) []).getD emptyAct),
                completed := newC.foldl (fun acc l => insertSorted l acc) T.completed }, ?_, ⟨hnewroot, hcompl⟩⟩
      have hop : opOf m = Op.addMsg k m := by simp [opOf, hat, hlast]
      rw [hop, ← hroot] at hadd
      unfold Task.add
      simp only [hat, hl1, ↓reduceIte, hrev, hpath, bind, Except.bind, pure, Except.pure, hadd]

end PM
