import Eliot.Conc.HandoverFix
import Eliot.Proofs.SumTo
/-! `handover_no_loss` for the repaired skeleton: an accounting invariant
`deliveries(m, d) + owed(m, d) = number of times m was logged`, for every message id `m` and every
destination `d` of the first add, in every reachable state of every schedule. -/
namespace Eliot.Conc.HandoverFix

/-- deliveries to `d` that iterating over `rem` will still cause (a buffer entry ends up at `d` once) -/
def w (d : Nat) (rem : List Dest) : Nat := rem.count (.real d) + rem.count .buffer

@[simp] theorem w_nil (d : Nat) : w d [] = 0 := rfl
theorem w_cons_real (d k : Nat) (r : List Dest) : w d (.real k :: r) = (if k = d then 1 else 0) + w d r := by
  by_cases h : k = d <;> simp [w, List.count_cons, h] <;> omega
theorem w_cons_buffer (d : Nat) (r : List Dest) : w d (.buffer :: r) = 1 + w d r := by
  simp [w, List.count_cons]; omega

def ite1 (p : Prop) [Decidable p] : Nat := if p then 1 else 0

def owedL (d m : Nat) : LPc → Nat
  | .idle => 0
  | .entered m' => ite1 (m' = m)
  | .iter m' rem => if m' = m then w d rem else 0
  | .call m' x rem => if m' = m then w d (x :: rem) else 0
  | .fwd m' rem => if m' = m then 1 + w d rem else 0
  | .fwdEntered m' rem => if m' = m then 1 + w d rem else 0
  | .fwdIter m' frem rem => if m' = m then w d frem + w d rem else 0
  | .fwdCall m' k frem rem => if m' = m then ite1 (k = d) + w d frem + w d rem else 0

def owedA (d m : Nat) : APc → Nat
  | .resendIter todo => todo.count m
  | .resendAtSend m' t => ite1 (m' = m) + t.count m
  | .resendEntered m' t => ite1 (m' = m) + t.count m
  | .resendNext m' rem t => (if m' = m then w d rem else 0) + t.count m
  | .resendCall m' k rem t => (if m' = m then ite1 (k = d) + w d rem else 0) + t.count m
  | _ => 0

def contrib (d m : Nat) (s : State) : Nat → Nat := fun x => (s.logPending x).count m + owedL d m (s.logPc x)

def owed (n d m : Nat) (s : State) : Nat := sumTo n (contrib d m s) + s.buf.count m + owedA d m s.addPc

def total (n : Nat) (pre : List Nat) (prog : Nat → List Nat) (m : Nat) : Nat :=
  pre.count m + sumTo n (fun x => (prog x).count m)

def pastDrain : APc → Bool
  | .test | .setAnyAdded | .takeBuffer | .swap | .drain | .extend => false
  | _ => true

structure Inv (n : Nat) (pre : List Nat) (prog : Nat → List Nat) (d : Nat) (s : State) : Prop where
  acct : ∀ m, (s.delivered d).count m + owed n d m s = total n pre prog m
  wcur : w d (curList s) = 1
  fwdbuf : s.forward = true → s.buf = []
  tst : s.addPc = .test → s.anyAdded = false
  noext : s.addPc ≠ .extend
  pd : pastDrain s.addPc = true → s.forward = true
  dcount : s.addDests.count d = 1

theorem w_map_real (d : Nat) (ds : List Nat) : w d (ds.map .real) = ds.count d := by
  induction ds with
  | nil => rfl
  | cons k r ih => rw [List.map_cons, w_cons_real, ih, List.count_cons]; by_cases h : k = d <;> simp [h] <;> omega

theorem inv_init (n : Nat) (pre : List Nat) (prog : Nat → List Nat) (ds : List Nat) (d : Nat) (hd : ds.count d = 1) :
    Inv n pre prog d (init pre prog ds) := by
  refine { acct := ?_, wcur := ?_, fwdbuf := by simp [init], tst := by simp [init], noext := by simp [init],
           pd := by simp [init, pastDrain], dcount := hd }
  · intro m
    simp only [init, owed, total, owedA, List.count_nil, Nat.zero_add, Nat.add_zero]
    have : sumTo n (contrib d m (init pre prog ds)) = sumTo n (fun x => (prog x).count m) :=
      sumTo_congr (fun x _ => by simp [contrib, init, owedL])
    simp only [init] at this
    rw [this]; omega
  · simp [init, curList, w]

theorem count_snoc (l : List Nat) (a m : Nat) : (l ++ [a]).count m = l.count m + ite1 (a = m) := by
  simp [List.count_append, List.count_cons, ite1]

theorem count_cons' (l : List Nat) (a m : Nat) : (a :: l).count m = l.count m + ite1 (a = m) := by
  simp [List.count_cons, ite1]

end Eliot.Conc.HandoverFix

namespace Eliot.Conc.HandoverFix

theorem acct_of_local (n d m : Nat) (s s' : State) (i : Nat) (hin : i < n)
    (hother : ∀ x, x ≠ i → contrib d m s x = contrib d m s' x) (hA : s'.addPc = s.addPc)
    (hbal : (s'.delivered d).count m + contrib d m s' i + s'.buf.count m =
            (s.delivered d).count m + contrib d m s i + s.buf.count m) :
    (s'.delivered d).count m + owed n d m s' = (s.delivered d).count m + owed n d m s := by
  have := sumTo_update hin hother
  unfold owed
  rw [hA]
  omega

theorem count_deliver (s : State) (k a d m : Nat) :
    ((deliver s k a).delivered d).count m = (s.delivered d).count m + (if k = d then ite1 (a = m) else 0) := by
  by_cases h : k = d
  · subst h; simp [deliver, upd, List.count_append, List.count_cons, ite1]
  · have h' : ¬ d = k := fun e => h e.symm
    simp [deliver, upd, h, h']

/-- the part of the invariant that a logger step cannot touch -/
theorem inv_logger (n : Nat) (pre : List Nat) (prog : Nat → List Nat) (d : Nat) (s s' : State) (hi : Inv n pre prog d s)
    (hacct : ∀ m, (s'.delivered d).count m + owed n d m s' = (s.delivered d).count m + owed n d m s)
    (hcur : curList s' = curList s) (hfw : s'.forward = s.forward) (hbuf : s.forward = true → s'.buf = s.buf)
    (hA : s'.addPc = s.addPc) (hany : s'.anyAdded = s.anyAdded) (hds : s'.addDests = s.addDests) : Inv n pre prog d s' :=
  { acct := fun m => by rw [hacct m]; exact hi.acct m
    wcur := by rw [hcur]; exact hi.wcur
    fwdbuf := by rw [hfw]; intro h; rw [hbuf h]; exact hi.fwdbuf h
    tst := by rw [hA, hany]; exact hi.tst
    noext := by rw [hA]; exact hi.noext
    pd := by rw [hA, hfw]; exact hi.pd
    dcount := by rw [hds]; exact hi.dcount }

theorem inv_step_logger (n : Nat) (pre : List Nat) (prog : Nat → List Nat) (d : Nat) (s : State) (i : Nat) (s' : State)
    (hi : Inv n pre prog d s) (hs : step n s (.logger i) = some s') : Inv n pre prog d s' := by
  simp only [step] at hs
  by_cases hin : i < n
  · simp only [hin, ↓reduceIte] at hs
    have other : ∀ (pc : LPc) (t : State) (m : Nat), t.logPending = s.logPending → t.logPc = upd s.logPc i pc →
        ∀ x, x ≠ i → contrib d m s x = contrib d m t x := by
      intro pc t m h1 h2 x hx
      simp [contrib, h1, h2, upd, hx]
    cases hpc : s.logPc i with
    | idle =>
      rw [hpc] at hs
      simp only at hs
      cases hp : s.logPending i with
      | nil => rw [hp] at hs; cases hs
      | cons a r =>
        rw [hp] at hs
        injection hs with hs
        subst hs
        refine inv_logger n pre prog d s _ hi (fun m => ?_) rfl rfl (fun _ => rfl) rfl rfl rfl
        refine acct_of_local n d m s _ i hin ?_ rfl ?_
        · intro x hx; simp [contrib, upd, hx]
        · simp only [contrib, upd, ↓reduceIte, hp, hpc, owedL, count_cons']; omega
    | entered a =>
      rw [hpc] at hs
      injection hs with hs
      subst hs
      refine inv_logger n pre prog d s _ hi (fun m => ?_) rfl rfl (fun _ => rfl) rfl rfl rfl
      refine acct_of_local n d m s _ i hin (other _ _ m rfl rfl) rfl ?_
      have := hi.wcur
      simp only [contrib, setL, upd, ↓reduceIte, hpc, owedL, ite1]
      by_cases h : a = m <;> simp [h, this]
    | iter a rem =>
      rw [hpc] at hs
      cases rem with
      | nil =>
        injection hs with hs
        subst hs
        refine inv_logger n pre prog d s _ hi (fun m => ?_) rfl rfl (fun _ => rfl) rfl rfl rfl
        refine acct_of_local n d m s _ i hin (other _ _ m rfl rfl) rfl ?_
        simp only [contrib, setL, upd, ↓reduceIte, hpc, owedL, w_nil]
        by_cases h : a = m <;> simp [h]
      | cons x r =>
        injection hs with hs
        subst hs
        refine inv_logger n pre prog d s _ hi (fun m => ?_) rfl rfl (fun _ => rfl) rfl rfl rfl
        refine acct_of_local n d m s _ i hin (other _ _ m rfl rfl) rfl ?_
        simp only [contrib, setL, upd, ↓reduceIte, hpc, owedL]
    | call a x rem =>
      rw [hpc] at hs
      cases x with
      | real k =>
        injection hs with hs
        subst hs
        refine inv_logger n pre prog d s _ hi (fun m => ?_) rfl rfl (fun _ => rfl) rfl rfl rfl
        refine acct_of_local n d m s _ i hin (other _ _ m rfl rfl) rfl ?_
        have hc := count_deliver s k a d m
        simp only [contrib, setL, upd, ↓reduceIte, hpc, owedL, w_cons_real] at hc ⊢
        show ((deliver s k a).delivered d).count m + _ + (deliver s k a).buf.count m = _
        rw [hc]
        have : (deliver s k a).buf = s.buf := rfl
        rw [this]
        have : (deliver s k a).logPending = s.logPending := rfl
        rw [this]
        by_cases h : a = m <;> by_cases h2 : k = d <;> simp [h, h2, ite1] <;> omega
      | buffer =>
        simp only at hs
        by_cases hf : s.forward = true
        · rw [if_pos hf] at hs
          injection hs with hs
          subst hs
          refine inv_logger n pre prog d s _ hi (fun m => ?_) rfl rfl (fun _ => rfl) rfl rfl rfl
          refine acct_of_local n d m s _ i hin (other _ _ m rfl rfl) rfl ?_
          simp only [contrib, setL, upd, ↓reduceIte, hpc, owedL, w_cons_buffer]
        · rw [if_neg hf] at hs
          injection hs with hs
          subst hs
          refine inv_logger n pre prog d s _ hi (fun m => ?_) rfl rfl (fun h => absurd h hf) rfl rfl rfl
          refine acct_of_local n d m s _ i hin (other _ _ m rfl rfl) rfl ?_
          simp only [contrib, setL, upd, ↓reduceIte, hpc, owedL, w_cons_buffer, count_snoc]
          by_cases h : a = m <;> simp [h, ite1] <;> omega
    | fwd a rem =>
      rw [hpc] at hs
      injection hs with hs
      subst hs
      refine inv_logger n pre prog d s _ hi (fun m => ?_) rfl rfl (fun _ => rfl) rfl rfl rfl
      refine acct_of_local n d m s _ i hin (other _ _ m rfl rfl) rfl ?_
      simp only [contrib, setL, upd, ↓reduceIte, hpc, owedL]
    | fwdEntered a rem =>
      rw [hpc] at hs
      injection hs with hs
      subst hs
      refine inv_logger n pre prog d s _ hi (fun m => ?_) rfl rfl (fun _ => rfl) rfl rfl rfl
      refine acct_of_local n d m s _ i hin (other _ _ m rfl rfl) rfl ?_
      have := hi.wcur
      simp only [contrib, setL, upd, ↓reduceIte, hpc, owedL, this]
    | fwdIter a frem rem =>
      rw [hpc] at hs
      cases frem with
      | nil =>
        injection hs with hs
        subst hs
        refine inv_logger n pre prog d s _ hi (fun m => ?_) rfl rfl (fun _ => rfl) rfl rfl rfl
        refine acct_of_local n d m s _ i hin (other _ _ m rfl rfl) rfl ?_
        simp only [contrib, setL, upd, ↓reduceIte, hpc, owedL, w_nil, Nat.zero_add]
      | cons x r =>
        cases x with
        | buffer => cases hs
        | real k =>
          injection hs with hs
          subst hs
          refine inv_logger n pre prog d s _ hi (fun m => ?_) rfl rfl (fun _ => rfl) rfl rfl rfl
          refine acct_of_local n d m s _ i hin (other _ _ m rfl rfl) rfl ?_
          simp only [contrib, setL, upd, ↓reduceIte, hpc, owedL, w_cons_real, ite1]
    | fwdCall a k frem rem =>
      rw [hpc] at hs
      injection hs with hs
      subst hs
      refine inv_logger n pre prog d s _ hi (fun m => ?_) rfl rfl (fun _ => rfl) rfl rfl rfl
      refine acct_of_local n d m s _ i hin (other _ _ m rfl rfl) rfl ?_
      have hc := count_deliver s k a d m
      simp only [contrib, setL, upd, ↓reduceIte, hpc, owedL]
      show ((deliver s k a).delivered d).count m + _ + (deliver s k a).buf.count m = _
      rw [hc]
      have : (deliver s k a).buf = s.buf := rfl
      rw [this]
      have : (deliver s k a).logPending = s.logPending := rfl
      rw [this]
      by_cases h : a = m <;> by_cases h2 : k = d <;> simp [h, h2, ite1] <;> omega
  · simp [hin] at hs

end Eliot.Conc.HandoverFix

namespace Eliot.Conc.HandoverFix

/-- adder steps never touch the loggers' part of the account -/
theorem acct_adder (n d m : Nat) (s s' : State) (h1 : s'.logPending = s.logPending) (h2 : s'.logPc = s.logPc)
    (hbal : (s'.delivered d).count m + s'.buf.count m + owedA d m s'.addPc =
            (s.delivered d).count m + s.buf.count m + owedA d m s.addPc) :
    (s'.delivered d).count m + owed n d m s' = (s.delivered d).count m + owed n d m s := by
  unfold owed
  have : sumTo n (contrib d m s') = sumTo n (contrib d m s) := sumTo_congr (fun x _ => by simp [contrib, h1, h2])
  rw [this]
  omega

theorem inv_step_adder (n : Nat) (pre : List Nat) (prog : Nat → List Nat) (d : Nat) (s : State) (s' : State)
    (hi : Inv n pre prog d s) (hs : step n s .adder = some s') : Inv n pre prog d s' := by
  simp only [step] at hs
  have hacct := hi.acct
  cases hpc : s.addPc with
  | test =>
    rw [hpc] at hs
    injection hs with hs
    subst hs
    have ha := hi.tst hpc
    exact { acct := fun m => by
              rw [← hacct m]
              refine acct_adder n d m s _ rfl rfl ?_
              simp [hpc, ha, owedA]
            wcur := hi.wcur, fwdbuf := hi.fwdbuf, tst := by simp [ha], noext := by simp [ha],
            pd := by simp [ha, pastDrain], dcount := hi.dcount }
  | setAnyAdded =>
    rw [hpc] at hs
    injection hs with hs
    subst hs
    exact { acct := fun m => by
              rw [← hacct m]
              refine acct_adder n d m s _ rfl rfl ?_
              simp [hpc, owedA]
            wcur := hi.wcur, fwdbuf := hi.fwdbuf, tst := by simp, noext := by simp,
            pd := by simp [pastDrain], dcount := hi.dcount }
  | takeBuffer =>
    rw [hpc] at hs
    by_cases hc : s.cur = true
    · simp [hc] at hs
    · rw [if_neg hc] at hs
      injection hs with hs
      subst hs
      exact { acct := fun m => by
                rw [← hacct m]
                refine acct_adder n d m s _ rfl rfl ?_
                simp [hpc, owedA]
              wcur := hi.wcur, fwdbuf := hi.fwdbuf, tst := by simp, noext := by simp,
              pd := by simp [pastDrain], dcount := hi.dcount }
  | swap =>
    rw [hpc] at hs
    injection hs with hs
    subst hs
    exact { acct := fun m => by
              rw [← hacct m]
              refine acct_adder n d m s _ rfl rfl ?_
              simp [hpc, owedA]
            wcur := by simp only [curList, ↓reduceIte]; rw [w_map_real]; exact hi.dcount
            fwdbuf := hi.fwdbuf, tst := by simp, noext := by simp, pd := by simp [pastDrain], dcount := hi.dcount }
  | drain =>
    rw [hpc] at hs
    injection hs with hs
    subst hs
    exact { acct := fun m => by
              rw [← hacct m]
              refine acct_adder n d m s _ rfl rfl ?_
              simp only [hpc, owedA, List.count_nil]
              omega
            wcur := hi.wcur, fwdbuf := fun _ => rfl, tst := by simp, noext := by simp,
            pd := fun _ => rfl, dcount := hi.dcount }
  | resendIter todo =>
    rw [hpc] at hs
    have hf := hi.pd (by rw [hpc]; rfl)
    cases todo with
    | nil =>
      injection hs with hs
      subst hs
      exact { acct := fun m => by
                rw [← hacct m]
                refine acct_adder n d m s _ rfl rfl ?_
                simp [hpc, owedA]
              wcur := hi.wcur, fwdbuf := hi.fwdbuf, tst := by simp, noext := by simp,
              pd := fun _ => hf, dcount := hi.dcount }
    | cons a t =>
      injection hs with hs
      subst hs
      exact { acct := fun m => by
                rw [← hacct m]
                refine acct_adder n d m s _ rfl rfl ?_
                simp only [hpc, owedA, count_cons']
                omega
              wcur := hi.wcur, fwdbuf := hi.fwdbuf, tst := by simp, noext := by simp,
              pd := fun _ => hf, dcount := hi.dcount }
  | resendAtSend a t =>
    rw [hpc] at hs
    have hf := hi.pd (by rw [hpc]; rfl)
    injection hs with hs
    subst hs
    exact { acct := fun m => by
              rw [← hacct m]
              refine acct_adder n d m s _ rfl rfl ?_
              simp only [hpc, owedA]
            wcur := hi.wcur, fwdbuf := hi.fwdbuf, tst := by simp, noext := by simp,
            pd := fun _ => hf, dcount := hi.dcount }
  | resendEntered a t =>
    rw [hpc] at hs
    have hf := hi.pd (by rw [hpc]; rfl)
    injection hs with hs
    subst hs
    exact { acct := fun m => by
              have hw := hi.wcur
              rw [← hacct m]
              refine acct_adder n d m s _ rfl rfl ?_
              simp only [hpc, owedA, hw, ite1]
            wcur := hi.wcur, fwdbuf := hi.fwdbuf, tst := by simp, noext := by simp,
            pd := fun _ => hf, dcount := hi.dcount }
  | resendNext a rem t =>
    rw [hpc] at hs
    have hf := hi.pd (by rw [hpc]; rfl)
    cases rem with
    | nil =>
      injection hs with hs
      subst hs
      exact { acct := fun m => by
                rw [← hacct m]
                refine acct_adder n d m s _ rfl rfl ?_
                simp [hpc, owedA]
              wcur := hi.wcur, fwdbuf := hi.fwdbuf, tst := by simp, noext := by simp,
              pd := fun _ => hf, dcount := hi.dcount }
    | cons x r =>
      cases x with
      | buffer => cases hs
      | real k =>
        injection hs with hs
        subst hs
        exact { acct := fun m => by
                  rw [← hacct m]
                  refine acct_adder n d m s _ rfl rfl ?_
                  simp only [hpc, owedA, w_cons_real, ite1]
                wcur := hi.wcur, fwdbuf := hi.fwdbuf, tst := by simp, noext := by simp,
                pd := fun _ => hf, dcount := hi.dcount }
  | resendCall a k rem t =>
    rw [hpc] at hs
    have hf := hi.pd (by rw [hpc]; rfl)
    injection hs with hs
    subst hs
    exact { acct := fun m => by
              have hc := count_deliver s k a d m
              rw [← hacct m]
              refine acct_adder n d m s _ rfl rfl ?_
              show ((deliver s k a).delivered d).count m + (deliver s k a).buf.count m + _ = _
              rw [hc]
              have : (deliver s k a).buf = s.buf := rfl
              rw [this]
              simp only [hpc, owedA]
              by_cases h : a = m <;> by_cases h2 : k = d <;> simp [h, h2, ite1] <;> omega
            wcur := hi.wcur, fwdbuf := hi.fwdbuf, tst := by simp, noext := by simp,
            pd := fun _ => hf, dcount := hi.dcount }
  | extend => exact absurd hpc hi.noext
  | done => rw [hpc] at hs; cases hs

theorem inv_step (n : Nat) (pre : List Nat) (prog : Nat → List Nat) (d : Nat) (s : State) (t : Tid) (s' : State)
    (hi : Inv n pre prog d s) (hs : step n s t = some s') : Inv n pre prog d s' := by
  cases t with
  | logger i => exact inv_step_logger n pre prog d s i s' hi hs
  | adder => exact inv_step_adder n pre prog d s s' hi hs

theorem inv_run (n : Nat) (pre : List Nat) (prog : Nat → List Nat) (ds : List Nat) (d : Nat) (hd : ds.count d = 1)
    (sched : List Tid) : Inv n pre prog d (run n (init pre prog ds) sched) :=
  (sys n).inv_run (Inv n pre prog d) (fun s t s' h hs => inv_step n pre prog d s t s' h hs) _
    (inv_init n pre prog ds d hd) sched

end Eliot.Conc.HandoverFix
