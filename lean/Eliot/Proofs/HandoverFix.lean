import Eliot.Conc.HandoverFix
import Eliot.Proofs.SumTo
/-! `handover_no_loss` for the repaired skeleton: an accounting invariant
`deliveries(m, d) + owed(m, d) = number of times m was logged`, for every message id `m` and every
destination `d` of the first add, in every reachable state of every schedule. -/
namespace Eliot.Conc.HandoverFix

/-- deliveries to `d` that iterating over `rem` will still cause (a buffer entry ends up at `d` once) -/
def w (d : Nat) (rem : List Dest) : Nat := rem.count (.real d) + rem.count .buffer

@[simp] theorem w_nil (d : Nat) : w d [] = 0 := rfl
theorem w_cons_real (d k : Nat) (r : List Dest) : w d (.real k :: r) = (if k = d then 1 else 0) + w d r := by
  by_cases h : k = d <;> simp [w, List.count_cons, h] <;> omega
theorem w_cons_buffer (d : Nat) (r : List Dest) : w d (.buffer :: r) = 1 + w d r := by
  simp [w, List.count_cons]; omega

def ite1 (p : Prop) [Decidable p] : Nat := if p then 1 else 0

def owedL (d m : Nat) : LPc → Nat
  | .idle => 0
  | .entered m' => ite1 (m' = m)
  | .iter m' rem => if m' = m then w d rem else 0
  | .call m' x rem => if m' = m then w d (x :: rem) else 0
  | .fwd m' rem => if m' = m then 1 + w d rem else 0
  | .fwdIter m' frem rem => if m' = m then w d frem + w d rem else 0
  | .fwdCall m' k frem rem => if m' = m then ite1 (k = d) + w d frem + w d rem else 0

def owedA (d m : Nat) : APc → Nat
  | .resendIter todo => todo.count m
  | .resendAtSend m' t => ite1 (m' = m) + t.count m
  | .resendNext m' rem t => (if m' = m then w d rem else 0) + t.count m
  | .resendCall m' k rem t => (if m' = m then ite1 (k = d) + w d rem else 0) + t.count m
  | _ => 0

def contrib (d m : Nat) (s : State) : Nat → Nat := fun x => (s.logPending x).count m + owedL d m (s.logPc x)

def owed (n d m : Nat) (s : State) : Nat := sumTo n (contrib d m s) + s.buf.count m + owedA d m s.addPc

def total (n : Nat) (pre : List Nat) (prog : Nat → List Nat) (m : Nat) : Nat :=
  pre.count m + sumTo n (fun x => (prog x).count m)

def pastDrain : APc → Bool
  | .test | .setAnyAdded | .takeBuffer | .mkNew | .drainEnter | .extend => false
  | _ => true

structure Inv (n : Nat) (pre : List Nat) (prog : Nat → List Nat) (d : Nat) (s : State) : Prop where
  acct : ∀ m, (s.delivered d).count m + owed n d m s = total n pre prog m
  wcur : w d (curList s) = 1
  fwdbuf : s.forward = true → s.buf = []
  tst : s.addPc = .test → s.anyAdded = false
  noext : s.addPc ≠ .extend
  pd : pastDrain s.addPc = true → s.forward = true
  dcount : s.addDests.count d = 1

theorem w_map_real (d : Nat) (ds : List Nat) : w d (ds.map .real) = ds.count d := by
  induction ds with
  | nil => rfl
  | cons k r ih => rw [List.map_cons, w_cons_real, ih, List.count_cons]; by_cases h : k = d <;> simp [h] <;> omega

theorem inv_init (n : Nat) (pre : List Nat) (prog : Nat → List Nat) (ds : List Nat) (d : Nat) (hd : ds.count d = 1) :
    Inv n pre prog d (init pre prog ds) := by
  refine { acct := ?_, wcur := ?_, fwdbuf := by simp [init], tst := by simp [init], noext := by simp [init],
           pd := by simp [init, pastDrain], dcount := hd }
  · intro m
    simp only [init, owed, total, owedA, List.count_nil, Nat.zero_add, Nat.add_zero]
    have : sumTo n (contrib d m (init pre prog ds)) = sumTo n (fun x => (prog x).count m) :=
      sumTo_congr (fun x _ => by simp [contrib, init, owedL])
    simp only [init] at this
    rw [this]; omega
  · simp [init, curList, w]

theorem w_fwdList (n : Nat) (pre : List Nat) (prog : Nat → List Nat) (d : Nat) (s : State) (hi : Inv n pre prog d s) :
    w d (fwdList s) = 1 := by
  rw [fwdList, w_map_real]; exact hi.dcount

theorem count_snoc (l : List Nat) (a m : Nat) : (l ++ [a]).count m = l.count m + ite1 (a = m) := by
  simp [List.count_append, List.count_cons, ite1]

theorem count_cons' (l : List Nat) (a m : Nat) : (a :: l).count m = l.count m + ite1 (a = m) := by
  simp [List.count_cons, ite1]

end Eliot.Conc.HandoverFix

namespace Eliot.Conc.HandoverFix

theorem acct_of_local (n d m : Nat) (s s' : State) (i : Nat) (hin : i < n)
    (hother : ∀ x, x ≠ i → contrib d m s x = contrib d m s' x) (hA : s'.addPc = s.addPc)
    (hbal : (s'.delivered d).count m + contrib d m s' i + s'.buf.count m =
            (s.delivered d).count m + contrib d m s i + s.buf.count m) :
    (s'.delivered d).count m + owed n d m s' = (s.delivered d).count m + owed n d m s := by
  have := sumTo_update hin hother
  unfold owed
  rw [hA]
  omega

theorem count_deliver (s : State) (k a d m : Nat) :
    ((deliver s k a).delivered d).count m = (s.delivered d).count m + (if k = d then ite1 (a = m) else 0) := by
  by_cases h : k = d
  · subst h; simp [deliver, upd, List.count_append, List.count_cons, ite1]
  · have h' : ¬ d = k := fun e => h e.symm
    simp [deliver, upd, h, h']

/-- the part of the invariant that a logger step cannot touch -/
theorem inv_logger (n : Nat) (pre : List Nat) (prog : Nat → List Nat) (d : Nat) (s s' : State) (hi : Inv n pre prog d s)
    (hacct : ∀ m, (s'.delivered d).count m + owed n d m s' = (s.delivered d).count m + owed n d m s)
    (hcur : curList s' = curList s) (hfw : s'.forward = s.forward) (hbuf : s.forward = true → s'.buf = s.buf)
    (hA : s'.addPc = s.addPc) (hany : s'.anyAdded = s.anyAdded) (hds : s'.addDests = s.addDests) : Inv n pre prog d s' :=
  { acct := fun m => by rw [hacct m]; exact hi.acct m
    wcur := by rw [hcur]; exact hi.wcur
    fwdbuf := by rw [hfw]; intro h; rw [hbuf h]; exact hi.fwdbuf h
    tst := by rw [hA, hany]; exact hi.tst
    noext := by rw [hA]; exact hi.noext
    pd := by rw [hA, hfw]; exact hi.pd
    dcount := by rw [hds]; exact hi.dcount }

theorem inv_step_logger (n : Nat) (pre : List Nat) (prog : Nat → List Nat) (d : Nat) (s : State) (i : Nat) (s' : State)
    (hi : Inv n pre prog d s) (hs : step n s (.logger i) = some s') : Inv n pre prog d s' := by
  simp only [step] at hs
  by_cases hin : i < n
  · simp only [hin, ↓reduceIte] at hs
    have other : ∀ (pc : LPc) (t : State) (m : Nat), t.logPending = s.logPending → t.logPc = upd s.logPc i pc →
        ∀ x, x ≠ i → contrib d m s x = contrib d m t x := by
      intro pc t m h1 h2 x hx
      simp [contrib, h1, h2, upd, hx]
    cases hpc : s.logPc i with
    | idle =>
      rw [hpc] at hs
      simp only at hs
      cases hp : s.logPending i with
      | nil => rw [hp] at hs; cases hs
      | cons a r =>
        rw [hp] at hs
        injection hs with hs
        subst hs
        refine inv_logger n pre prog d s _ hi (fun m => ?_) rfl rfl (fun _ => rfl) rfl rfl rfl
        refine acct_of_local n d m s _ i hin ?_ rfl ?_
        · intro x hx; simp [contrib, upd, hx]
        · simp only [contrib, upd, ↓reduceIte, hp, hpc, owedL, count_cons']; omega
    | entered a =>
      rw [hpc] at hs
      injection hs with hs
      subst hs
      refine inv_logger n pre prog d s _ hi (fun m => ?_) rfl rfl (fun _ => rfl) rfl rfl rfl
      refine acct_of_local n d m s _ i hin (other _ _ m rfl rfl) rfl ?_
      have := hi.wcur
      simp only [contrib, setL, upd, ↓reduceIte, hpc, owedL, ite1]
      by_cases h : a = m <;> simp [h, this]
    | iter a rem =>
      rw [hpc] at hs
      cases rem with
      | nil =>
        injection hs with hs
        subst hs
        refine inv_logger n pre prog d s _ hi (fun m => ?_) rfl rfl (fun _ => rfl) rfl rfl rfl
        refine acct_of_local n d m s _ i hin (other _ _ m rfl rfl) rfl ?_
        simp only [contrib, setL, upd, ↓reduceIte, hpc, owedL, w_nil]
        by_cases h : a = m <;> simp [h]
      | cons x r =>
        injection hs with hs
        subst hs
        refine inv_logger n pre prog d s _ hi (fun m => ?_) rfl rfl (fun _ => rfl) rfl rfl rfl
        refine acct_of_local n d m s _ i hin (other _ _ m rfl rfl) rfl ?_
        simp only [contrib, setL, upd, ↓reduceIte, hpc, owedL]
    | call a x rem =>
      rw [hpc] at hs
      cases x with
      | real k =>
        injection hs with hs
        subst hs
        refine inv_logger n pre prog d s _ hi (fun m => ?_) rfl rfl (fun _ => rfl) rfl rfl rfl
        refine acct_of_local n d m s _ i hin (other _ _ m rfl rfl) rfl ?_
        have hc := count_deliver s k a d m
        simp only [contrib, setL, upd, ↓reduceIte, hpc, owedL, w_cons_real] at hc ⊢
        show ((deliver s k a).delivered d).count m + _ + (deliver s k a).buf.count m = _
        rw [hc]
        have : (deliver s k a).buf = s.buf := rfl
        rw [this]
        have : (deliver s k a).logPending = s.logPending := rfl
        rw [this]
        by_cases h : a = m <;> by_cases h2 : k = d <;> simp [h, h2, ite1] <;> omega
      | buffer =>
        simp only at hs
        by_cases hl : s.lockHeld = true
        · rw [if_pos hl] at hs; cases hs
        rw [if_neg hl] at hs
        by_cases hf : s.forward = true
        · rw [if_pos hf] at hs
          injection hs with hs
          subst hs
          refine inv_logger n pre prog d s _ hi (fun m => ?_) rfl rfl (fun _ => rfl) rfl rfl rfl
          refine acct_of_local n d m s _ i hin (other _ _ m rfl rfl) rfl ?_
          simp only [contrib, setL, upd, ↓reduceIte, hpc, owedL, w_cons_buffer]
        · rw [if_neg hf] at hs
          injection hs with hs
          subst hs
          refine inv_logger n pre prog d s _ hi (fun m => ?_) rfl rfl (fun h => absurd h hf) rfl rfl rfl
          refine acct_of_local n d m s _ i hin (other _ _ m rfl rfl) rfl ?_
          simp only [contrib, setL, upd, ↓reduceIte, hpc, owedL, w_cons_buffer, count_snoc]
          by_cases h : a = m <;> simp [h, ite1] <;> omega
    | fwd a rem =>
      rw [hpc] at hs
      injection hs with hs
      subst hs
      refine inv_logger n pre prog d s _ hi (fun m => ?_) rfl rfl (fun _ => rfl) rfl rfl rfl
      refine acct_of_local n d m s _ i hin (other _ _ m rfl rfl) rfl ?_
      have := w_fwdList n pre prog d s hi
      simp only [contrib, setL, upd, ↓reduceIte, hpc, owedL, this]
    | fwdIter a frem rem =>
      rw [hpc] at hs
      cases frem with
      | nil =>
        injection hs with hs
        subst hs
        refine inv_logger n pre prog d s _ hi (fun m => ?_) rfl rfl (fun _ => rfl) rfl rfl rfl
        refine acct_of_local n d m s _ i hin (other _ _ m rfl rfl) rfl ?_
        simp only [contrib, setL, upd, ↓reduceIte, hpc, owedL, w_nil, Nat.zero_add]
      | cons x r =>
        cases x with
        | buffer => cases hs
        | real k =>
          injection hs with hs
          subst hs
          refine inv_logger n pre prog d s _ hi (fun m => ?_) rfl rfl (fun _ => rfl) rfl rfl rfl
          refine acct_of_local n d m s _ i hin (other _ _ m rfl rfl) rfl ?_
          simp only [contrib, setL, upd, ↓reduceIte, hpc, owedL, w_cons_real, ite1]
    | fwdCall a k frem rem =>
      rw [hpc] at hs
      injection hs with hs
      subst hs
      refine inv_logger n pre prog d s _ hi (fun m => ?_) rfl rfl (fun _ => rfl) rfl rfl rfl
      refine acct_of_local n d m s _ i hin (other _ _ m rfl rfl) rfl ?_
      have hc := count_deliver s k a d m
      simp only [contrib, setL, upd, ↓reduceIte, hpc, owedL]
      show ((deliver s k a).delivered d).count m + _ + (deliver s k a).buf.count m = _
      rw [hc]
      have : (deliver s k a).buf = s.buf := rfl
      rw [this]
      have : (deliver s k a).logPending = s.logPending := rfl
      rw [this]
      by_cases h : a = m <;> by_cases h2 : k = d <;> simp [h, h2, ite1] <;> omega
  · simp [hin] at hs

end Eliot.Conc.HandoverFix

namespace Eliot.Conc.HandoverFix

/-- adder steps never touch the loggers' part of the account -/
theorem acct_adder (n d m : Nat) (s s' : State) (h1 : s'.logPending = s.logPending) (h2 : s'.logPc = s.logPc)
    (hbal : (s'.delivered d).count m + s'.buf.count m + owedA d m s'.addPc =
            (s.delivered d).count m + s.buf.count m + owedA d m s.addPc) :
    (s'.delivered d).count m + owed n d m s' = (s.delivered d).count m + owed n d m s := by
  unfold owed
  have : sumTo n (contrib d m s') = sumTo n (contrib d m s) := sumTo_congr (fun x _ => by simp [contrib, h1, h2])
  rw [this]
  omega

theorem inv_step_adder (n : Nat) (pre : List Nat) (prog : Nat → List Nat) (d : Nat) (s : State) (s' : State)
    (hi : Inv n pre prog d s) (hs : step n s .adder = some s') : Inv n pre prog d s' := by
  simp only [step] at hs
  have hacct := hi.acct
  cases hpc : s.addPc with
  | test =>
    rw [hpc] at hs
    injection hs with hs
    subst hs
    have ha := hi.tst hpc
    exact { acct := fun m => by
              rw [← hacct m]
              refine acct_adder n d m s _ rfl rfl ?_
              simp [hpc, ha, owedA]
            wcur := hi.wcur, fwdbuf := hi.fwdbuf, tst := by simp [ha], noext := by simp [ha],
            pd := by simp [ha, pastDrain], dcount := hi.dcount }
  | setAnyAdded =>
    rw [hpc] at hs
    injection hs with hs
    subst hs
    exact { acct := fun m => by
              rw [← hacct m]
              refine acct_adder n d m s _ rfl rfl ?_
              simp [hpc, owedA]
            wcur := hi.wcur, fwdbuf := hi.fwdbuf, tst := by simp, noext := by simp,
            pd := by simp [pastDrain], dcount := hi.dcount }
  | takeBuffer =>
    rw [hpc] at hs
    by_cases hc : s.cur = true
    · simp [hc] at hs
    · rw [if_neg hc] at hs
      injection hs with hs
      subst hs
      exact { acct := fun m => by
                rw [← hacct m]
                refine acct_adder n d m s _ rfl rfl ?_
                simp [hpc, owedA]
              wcur := hi.wcur, fwdbuf := hi.fwdbuf, tst := by simp, noext := by simp,
              pd := by simp [pastDrain], dcount := hi.dcount }
  | mkNew =>
    rw [hpc] at hs
    injection hs with hs
    subst hs
    exact { acct := fun m => by
              rw [← hacct m]
              refine acct_adder n d m s _ rfl rfl ?_
              simp [hpc, owedA]
            wcur := hi.wcur, fwdbuf := hi.fwdbuf, tst := by simp, noext := by simp,
            pd := by simp [pastDrain], dcount := hi.dcount }
  | drainEnter =>
    rw [hpc] at hs
    by_cases hl : s.lockHeld = true
    · rw [if_pos hl] at hs; cases hs
    rw [if_neg hl] at hs
    injection hs with hs
    subst hs
    exact { acct := fun m => by
              rw [← hacct m]
              refine acct_adder n d m s _ rfl rfl ?_
              simp only [hpc, owedA, List.count_nil]
              omega
            wcur := hi.wcur, fwdbuf := fun _ => rfl, tst := by simp, noext := by simp,
            pd := fun _ => rfl, dcount := hi.dcount }
  | resendIter todo =>
    rw [hpc] at hs
    have hf := hi.pd (by rw [hpc]; rfl)
    cases todo with
    | nil =>
      injection hs with hs
      subst hs
      exact { acct := fun m => by
                rw [← hacct m]
                refine acct_adder n d m s _ rfl rfl ?_
                simp [hpc, owedA]
              wcur := hi.wcur, fwdbuf := hi.fwdbuf, tst := by simp, noext := by simp,
              pd := fun _ => hf, dcount := hi.dcount }
    | cons a t =>
      injection hs with hs
      subst hs
      exact { acct := fun m => by
                rw [← hacct m]
                refine acct_adder n d m s _ rfl rfl ?_
                simp only [hpc, owedA, count_cons']
                omega
              wcur := hi.wcur, fwdbuf := hi.fwdbuf, tst := by simp, noext := by simp,
              pd := fun _ => hf, dcount := hi.dcount }
  | resendAtSend a t =>
    rw [hpc] at hs
    have hf := hi.pd (by rw [hpc]; rfl)
    injection hs with hs
    subst hs
    exact { acct := fun m => by
              have hw := w_fwdList n pre prog d s hi
              rw [← hacct m]
              refine acct_adder n d m s _ rfl rfl ?_
              simp only [hpc, owedA, hw, ite1]
            wcur := hi.wcur, fwdbuf := hi.fwdbuf, tst := by simp, noext := by simp,
            pd := fun _ => hf, dcount := hi.dcount }
  | resendNext a rem t =>
    rw [hpc] at hs
    have hf := hi.pd (by rw [hpc]; rfl)
    cases rem with
    | nil =>
      injection hs with hs
      subst hs
      exact { acct := fun m => by
                rw [← hacct m]
                refine acct_adder n d m s _ rfl rfl ?_
                simp [hpc, owedA]
              wcur := hi.wcur, fwdbuf := hi.fwdbuf, tst := by simp, noext := by simp,
              pd := fun _ => hf, dcount := hi.dcount }
    | cons x r =>
      cases x with
      | buffer => cases hs
      | real k =>
        injection hs with hs
        subst hs
        exact { acct := fun m => by
                  rw [← hacct m]
                  refine acct_adder n d m s _ rfl rfl ?_
                  simp only [hpc, owedA, w_cons_real, ite1]
                wcur := hi.wcur, fwdbuf := hi.fwdbuf, tst := by simp, noext := by simp,
                pd := fun _ => hf, dcount := hi.dcount }
  | resendCall a k rem t =>
    rw [hpc] at hs
    have hf := hi.pd (by rw [hpc]; rfl)
    injection hs with hs
    subst hs
    exact { acct := fun m => by
              have hc := count_deliver s k a d m
              rw [← hacct m]
              refine acct_adder n d m s _ rfl rfl ?_
              show ((deliver s k a).delivered d).count m + (deliver s k a).buf.count m + _ = _
              rw [hc]
              have : (deliver s k a).buf = s.buf := rfl
              rw [this]
              simp only [hpc, owedA]
              by_cases h : a = m <;> by_cases h2 : k = d <;> simp [h, h2, ite1] <;> omega
            wcur := hi.wcur, fwdbuf := hi.fwdbuf, tst := by simp, noext := by simp,
            pd := fun _ => hf, dcount := hi.dcount }
  | release =>
    rw [hpc] at hs
    have hf := hi.pd (by rw [hpc]; rfl)
    injection hs with hs
    subst hs
    exact { acct := fun m => by
              rw [← hacct m]
              refine acct_adder n d m s _ rfl rfl ?_
              simp [hpc, owedA]
            wcur := hi.wcur, fwdbuf := hi.fwdbuf, tst := by simp, noext := by simp,
            pd := fun _ => hf, dcount := hi.dcount }
  | swap =>
    rw [hpc] at hs
    have hf := hi.pd (by rw [hpc]; rfl)
    injection hs with hs
    subst hs
    exact { acct := fun m => by
              rw [← hacct m]
              refine acct_adder n d m s _ rfl rfl ?_
              simp [hpc, owedA]
            wcur := by simp only [curList, ↓reduceIte]; rw [w_map_real]; exact hi.dcount
            fwdbuf := hi.fwdbuf, tst := by simp, noext := by simp, pd := fun _ => hf, dcount := hi.dcount }
  | extend => exact absurd hpc hi.noext
  | done => rw [hpc] at hs; cases hs

theorem inv_step (n : Nat) (pre : List Nat) (prog : Nat → List Nat) (d : Nat) (s : State) (t : Tid) (s' : State)
    (hi : Inv n pre prog d s) (hs : step n s t = some s') : Inv n pre prog d s' := by
  cases t with
  | logger i => exact inv_step_logger n pre prog d s i s' hi hs
  | adder => exact inv_step_adder n pre prog d s s' hi hs

theorem inv_run (n : Nat) (pre : List Nat) (prog : Nat → List Nat) (ds : List Nat) (d : Nat) (hd : ds.count d = 1)
    (sched : List Tid) : Inv n pre prog d (run n (init pre prog ds) sched) :=
  (sys n).inv_run (Inv n pre prog d) (fun s t s' h hs => inv_step n pre prog d s t s' h hs) _
    (inv_init n pre prog ds d hd) sched

end Eliot.Conc.HandoverFix

namespace Eliot.Conc.HandoverFix

/-! ### Order: what the buffer held at the hand-over comes first, in order -/

def onlyBuffer (rem : List Dest) : Bool := rem.all (fun x => x == .buffer)

/-- a logger that has neither a real destination in hand nor is forwarding -/
def quiet : LPc → Bool
  | .idle => true
  | .entered _ => true
  | .iter _ rem => onlyBuffer rem
  | .call _ d rem => d == .buffer && onlyBuffer rem
  | _ => false

/-- 0: before drain() took the buffer; 1: inside drain() (lock held); 2: after the lock was released -/
def phase : APc → Nat
  | .test | .setAnyAdded | .takeBuffer | .mkNew | .drainEnter | .extend => 0
  | .resendIter _ | .resendAtSend _ _ | .resendNext _ _ _ | .resendCall _ _ _ _ | .release => 1
  | .swap | .done => 2

/-- drained messages that destination `d` has not received yet -/
def pendingD (d : Nat) : APc → List Nat
  | .resendIter t => t
  | .resendAtSend m t => m :: t
  | .resendNext m rem t => if w d rem = 0 then t else m :: t
  | .resendCall m k rem t => if k = d ∨ w d rem ≠ 0 then m :: t else t
  | _ => []

def atMostOne (d : Nat) : APc → Prop
  | .resendNext _ rem _ => w d rem ≤ 1
  | .resendCall _ k rem _ => ite1 (k = d) + w d rem ≤ 1
  | _ => True

structure InvO (pre : List Nat) (d : Nat) (s : State) : Prop where
  p0 : phase s.addPc = 0 → s.delivered d = [] ∧ (∃ x, s.buf = pre ++ x) ∧ s.forward = false ∧ s.lockHeld = false
  p1 : phase s.addPc = 1 → s.delivered d ++ pendingD d s.addPc = s.drained ∧ s.lockHeld = true
  p2 : phase s.addPc = 2 → ∃ later, s.delivered d = s.drained ++ later
  dr : phase s.addPc ≠ 0 → ∃ x, s.drained = pre ++ x
  q : phase s.addPc ≤ 1 → ∀ i, quiet (s.logPc i) = true
  cf : s.addPc ≠ .done → s.cur = false
  c1 : atMostOne d s.addPc
  dc : s.addDests.count d = 1

theorem invO_init (pre : List Nat) (prog : Nat → List Nat) (ds : List Nat) (d : Nat) (hd : ds.count d = 1) :
    InvO pre d (init pre prog ds) := by
  refine { p0 := ?_, p1 := by simp [init, phase], p2 := by simp [init, phase], dr := by simp [init, phase],
           q := by simp [init, quiet], cf := by simp [init], c1 := by simp [init, atMostOne], dc := hd }
  intro _
  exact ⟨rfl, ⟨[], by simp [init]⟩, rfl, rfl⟩

theorem delivered_deliver (s : State) (k a d : Nat) :
    (deliver s k a).delivered d = if k = d then s.delivered d ++ [a] else s.delivered d := by
  by_cases h : k = d
  · subst h; simp [deliver, upd]
  · have h' : ¬ d = k := fun e => h e.symm
    simp [deliver, upd, h, h']

/-- a logger step that delivers nothing and appends nothing -/
theorem invO_logger_plain (pre : List Nat) (d : Nat) (s : State) (i : Nat) (pc : LPc) (hi : InvO pre d s)
    (hq : phase s.addPc ≤ 1 → quiet pc = true) : InvO pre d (setL s i pc) :=
  { p0 := hi.p0, p1 := hi.p1, p2 := hi.p2, dr := hi.dr
    q := by
      intro hp x
      by_cases hx : x = i
      · subst hx; simp [setL, upd, hq hp]
      · simpa [setL, upd, hx] using hi.q hp x
    cf := hi.cf, c1 := hi.c1, dc := hi.dc }

theorem onlyBuffer_cons (x : Dest) (r : List Dest) : onlyBuffer (x :: r) = (x == .buffer && onlyBuffer r) := by
  simp [onlyBuffer]

theorem invO_step_logger (n : Nat) (pre : List Nat) (d : Nat) (s : State) (i : Nat) (s' : State)
    (hi : InvO pre d s) (hs : step n s (.logger i) = some s') : InvO pre d s' := by
  simp only [step] at hs
  by_cases hin : i < n
  · simp only [hin, ↓reduceIte] at hs
    cases hpc : s.logPc i with
    | idle =>
      rw [hpc] at hs
      simp only at hs
      cases hp : s.logPending i with
      | nil => rw [hp] at hs; cases hs
      | cons a r =>
        rw [hp] at hs
        injection hs with hs
        subst hs
        exact { p0 := hi.p0, p1 := hi.p1, p2 := hi.p2, dr := hi.dr
                q := by
                  intro hph x
                  by_cases hx : x = i
                  · subst hx; simp [upd, quiet]
                  · simpa [upd, hx] using hi.q hph x
                cf := hi.cf, c1 := hi.c1, dc := hi.dc }
    | entered a =>
      rw [hpc] at hs
      injection hs with hs
      subst hs
      refine invO_logger_plain pre d s i _ hi (fun hp => ?_)
      have hc : s.cur = false := hi.cf (by intro h; rw [h] at hp; simp [phase] at hp)
      simp [quiet, curList, hc, onlyBuffer]
    | iter a rem =>
      rw [hpc] at hs
      cases rem with
      | nil =>
        injection hs with hs
        subst hs
        exact invO_logger_plain pre d s i _ hi (fun _ => rfl)
      | cons x r =>
        injection hs with hs
        subst hs
        refine invO_logger_plain pre d s i _ hi (fun hp => ?_)
        have := hi.q hp i
        rw [hpc] at this
        simpa [quiet, onlyBuffer_cons] using this
    | call a x rem =>
      rw [hpc] at hs
      cases x with
      | real k =>
        injection hs with hs
        subst hs
        -- only possible after the lock was released
        have hph : ¬ phase s.addPc ≤ 1 := by
          intro hp
          have := hi.q hp i
          rw [hpc] at this
          simp [quiet] at this
        have h2 : phase s.addPc = 2 := by
          have : phase s.addPc ≤ 2 := by cases s.addPc <;> simp [phase]
          omega
        obtain ⟨later, hl⟩ := hi.p2 h2
        exact { p0 := by intro h; simp [setL, deliver] at h; omega
                p1 := by intro h; simp [setL, deliver] at h; omega
                p2 := by
                  intro _
                  show ∃ later', (deliver s k a).delivered d = s.drained ++ later'
                  rw [delivered_deliver]
                  by_cases hk : k = d
                  · exact ⟨later ++ [a], by simp [hk, hl]⟩
                  · exact ⟨later, by simp [hk, hl]⟩
                dr := hi.dr
                q := by intro h; simp [setL, deliver] at h; omega
                cf := hi.cf, c1 := hi.c1, dc := hi.dc }
      | buffer =>
        simp only at hs
        by_cases hl : s.lockHeld = true
        · rw [if_pos hl] at hs; cases hs
        rw [if_neg hl] at hs
        by_cases hf : s.forward = true
        · rw [if_pos hf] at hs
          injection hs with hs
          subst hs
          refine invO_logger_plain pre d s i _ hi (fun hp => ?_)
          -- forward set and lock free: the adder is past the release
          exfalso
          have hph : phase s.addPc = 0 ∨ phase s.addPc = 1 := by omega
          rcases hph with h | h
          · have := (hi.p0 h).2.2.1; rw [hf] at this; cases this
          · exact hl (hi.p1 h).2
        · rw [if_neg hf] at hs
          injection hs with hs
          subst hs
          have hqr : phase s.addPc ≤ 1 → onlyBuffer rem = true := by
            intro hp
            have := hi.q hp i
            rw [hpc] at this
            simpa [quiet] using this
          exact { p0 := by
                    intro h
                    obtain ⟨h1, ⟨x, h2⟩, h3, h4⟩ := hi.p0 h
                    exact ⟨h1, ⟨x ++ [a], by simp [setL, h2]⟩, h3, h4⟩
                  p1 := hi.p1, p2 := hi.p2, dr := hi.dr
                  q := by
                    intro hp x
                    by_cases hx : x = i
                    · subst hx; simp [setL, upd, quiet, hqr hp]
                    · simpa [setL, upd, hx] using hi.q hp x
                  cf := hi.cf, c1 := hi.c1, dc := hi.dc }
    | fwd a rem =>
      rw [hpc] at hs
      injection hs with hs
      subst hs
      refine invO_logger_plain pre d s i _ hi (fun hp => ?_)
      have := hi.q hp i
      rw [hpc] at this
      simp [quiet] at this
    | fwdIter a frem rem =>
      rw [hpc] at hs
      have hph : ¬ phase s.addPc ≤ 1 := by
        intro hp
        have := hi.q hp i
        rw [hpc] at this
        simp [quiet] at this
      cases frem with
      | nil =>
        injection hs with hs
        subst hs
        exact invO_logger_plain pre d s i _ hi (fun hp => absurd hp hph)
      | cons x r =>
        cases x with
        | buffer => cases hs
        | real k =>
          injection hs with hs
          subst hs
          exact invO_logger_plain pre d s i _ hi (fun hp => absurd hp hph)
    | fwdCall a k frem rem =>
      rw [hpc] at hs
      injection hs with hs
      subst hs
      have hph : ¬ phase s.addPc ≤ 1 := by
        intro hp
        have := hi.q hp i
        rw [hpc] at this
        simp [quiet] at this
      have h2 : phase s.addPc = 2 := by
        have : phase s.addPc ≤ 2 := by cases s.addPc <;> simp [phase]
        omega
      obtain ⟨later, hl⟩ := hi.p2 h2
      exact { p0 := by intro h; simp [setL, deliver] at h; omega
              p1 := by intro h; simp [setL, deliver] at h; omega
              p2 := by
                intro _
                show ∃ later', (deliver s k a).delivered d = s.drained ++ later'
                rw [delivered_deliver]
                by_cases hk : k = d
                · exact ⟨later ++ [a], by simp [hk, hl]⟩
                · exact ⟨later, by simp [hk, hl]⟩
              dr := hi.dr
              q := by intro h; simp [setL, deliver] at h; omega
              cf := hi.cf, c1 := hi.c1, dc := hi.dc }
  · simp [hin] at hs

end Eliot.Conc.HandoverFix

namespace Eliot.Conc.HandoverFix

theorem invO_step_adder (n : Nat) (pre : List Nat) (d : Nat) (s : State) (s' : State)
    (hi : InvO pre d s) (hs : step n s .adder = some s') : InvO pre d s' := by
  simp only [step] at hs
  cases hpc : s.addPc with
  | test =>
    rw [hpc] at hs
    injection hs with hs
    subst hs
    have h0 := hi.p0 (by rw [hpc]; rfl)
    have hq := hi.q (by rw [hpc]; simp [phase])
    have hcf := hi.cf (by rw [hpc]; simp)
    by_cases ha : s.anyAdded = true
    · exact { p0 := fun _ => h0, p1 := by simp [ha, phase], p2 := by simp [ha, phase], dr := by simp [ha, phase],
              q := fun _ => hq, cf := fun _ => hcf, c1 := by simp [ha, atMostOne], dc := hi.dc }
    · exact { p0 := fun _ => h0, p1 := by simp [ha, phase], p2 := by simp [ha, phase], dr := by simp [ha, phase],
              q := fun _ => hq, cf := fun _ => hcf, c1 := by simp [ha, atMostOne], dc := hi.dc }
  | setAnyAdded =>
    rw [hpc] at hs
    injection hs with hs
    subst hs
    have h0 := hi.p0 (by rw [hpc]; rfl)
    have hq := hi.q (by rw [hpc]; simp [phase])
    have hcf := hi.cf (by rw [hpc]; simp)
    exact { p0 := fun _ => h0, p1 := by simp [phase], p2 := by simp [phase], dr := by simp [phase],
            q := fun _ => hq, cf := fun _ => hcf, c1 := by simp [atMostOne], dc := hi.dc }
  | takeBuffer =>
    rw [hpc] at hs
    by_cases hc : s.cur = true
    · simp [hc] at hs
    · rw [if_neg hc] at hs
      injection hs with hs
      subst hs
      have h0 := hi.p0 (by rw [hpc]; rfl)
      have hq := hi.q (by rw [hpc]; simp [phase])
      have hcf := hi.cf (by rw [hpc]; simp)
      exact { p0 := fun _ => h0, p1 := by simp [phase], p2 := by simp [phase], dr := by simp [phase],
              q := fun _ => hq, cf := fun _ => hcf, c1 := by simp [atMostOne], dc := hi.dc }
  | mkNew =>
    rw [hpc] at hs
    injection hs with hs
    subst hs
    have h0 := hi.p0 (by rw [hpc]; rfl)
    have hq := hi.q (by rw [hpc]; simp [phase])
    have hcf := hi.cf (by rw [hpc]; simp)
    exact { p0 := fun _ => h0, p1 := by simp [phase], p2 := by simp [phase], dr := by simp [phase],
            q := fun _ => hq, cf := fun _ => hcf, c1 := by simp [atMostOne], dc := hi.dc }
  | drainEnter =>
    rw [hpc] at hs
    by_cases hl : s.lockHeld = true
    · rw [if_pos hl] at hs; cases hs
    rw [if_neg hl] at hs
    injection hs with hs
    subst hs
    obtain ⟨hd0, hx, _, _⟩ := hi.p0 (by rw [hpc]; rfl)
    have hq := hi.q (by rw [hpc]; simp [phase])
    have hcf := hi.cf (by rw [hpc]; simp)
    exact { p0 := by simp [phase]
            p1 := fun _ => ⟨by simp [pendingD, hd0], rfl⟩
            p2 := by simp [phase]
            dr := fun _ => hx
            q := fun _ => hq, cf := fun _ => hcf, c1 := by simp [atMostOne], dc := hi.dc }
  | resendIter todo =>
    rw [hpc] at hs
    obtain ⟨h1, hlk⟩ := hi.p1 (by rw [hpc]; rfl)
    have hdr := hi.dr (by rw [hpc]; simp [phase])
    have hq := hi.q (by rw [hpc]; simp [phase])
    have hcf := hi.cf (by rw [hpc]; simp)
    rw [hpc] at h1
    cases todo with
    | nil =>
      injection hs with hs
      subst hs
      exact { p0 := by simp [phase], p1 := fun _ => ⟨by simpa [pendingD] using h1, hlk⟩, p2 := by simp [phase],
              dr := fun _ => hdr, q := fun _ => hq, cf := fun _ => hcf, c1 := by simp [atMostOne], dc := hi.dc }
    | cons a t =>
      injection hs with hs
      subst hs
      exact { p0 := by simp [phase], p1 := fun _ => ⟨by simpa [pendingD] using h1, hlk⟩, p2 := by simp [phase],
              dr := fun _ => hdr, q := fun _ => hq, cf := fun _ => hcf, c1 := by simp [atMostOne], dc := hi.dc }
  | resendAtSend a t =>
    rw [hpc] at hs
    obtain ⟨h1, hlk⟩ := hi.p1 (by rw [hpc]; rfl)
    have hdr := hi.dr (by rw [hpc]; simp [phase])
    have hq := hi.q (by rw [hpc]; simp [phase])
    have hcf := hi.cf (by rw [hpc]; simp)
    rw [hpc] at h1
    injection hs with hs
    subst hs
    have hw : w d (fwdList s) = 1 := by rw [fwdList, w_map_real]; exact hi.dc
    exact { p0 := by simp [phase]
            p1 := fun _ => ⟨by simpa [pendingD, hw] using h1, hlk⟩
            p2 := by simp [phase], dr := fun _ => hdr, q := fun _ => hq, cf := fun _ => hcf
            c1 := by simp [atMostOne, hw], dc := hi.dc }
  | resendNext a rem t =>
    rw [hpc] at hs
    obtain ⟨h1, hlk⟩ := hi.p1 (by rw [hpc]; rfl)
    have hdr := hi.dr (by rw [hpc]; simp [phase])
    have hq := hi.q (by rw [hpc]; simp [phase])
    have hcf := hi.cf (by rw [hpc]; simp)
    have hc1 := hi.c1
    rw [hpc] at h1 hc1
    cases rem with
    | nil =>
      injection hs with hs
      subst hs
      exact { p0 := by simp [phase], p1 := fun _ => ⟨by simpa [pendingD] using h1, hlk⟩, p2 := by simp [phase],
              dr := fun _ => hdr, q := fun _ => hq, cf := fun _ => hcf, c1 := by simp [atMostOne], dc := hi.dc }
    | cons x r =>
      cases x with
      | buffer => cases hs
      | real k =>
        injection hs with hs
        subst hs
        simp only [atMostOne, w_cons_real] at hc1
        exact { p0 := by simp [phase]
                p1 := fun _ => ⟨by
                  simp only [pendingD, w_cons_real] at h1 ⊢
                  by_cases hk : k = d
                  · simpa [hk] using h1
                  · simpa [hk] using h1, hlk⟩
                p2 := by simp [phase], dr := fun _ => hdr, q := fun _ => hq, cf := fun _ => hcf
                c1 := by simpa [atMostOne, ite1] using hc1
                dc := hi.dc }
  | resendCall a k rem t =>
    rw [hpc] at hs
    obtain ⟨h1, hlk⟩ := hi.p1 (by rw [hpc]; rfl)
    have hdr := hi.dr (by rw [hpc]; simp [phase])
    have hq := hi.q (by rw [hpc]; simp [phase])
    have hcf := hi.cf (by rw [hpc]; simp)
    have hc1 := hi.c1
    rw [hpc] at h1 hc1
    injection hs with hs
    subst hs
    simp only [atMostOne, ite1] at hc1
    exact { p0 := by simp [phase]
            p1 := fun _ => ⟨by
              show (deliver s k a).delivered d ++ pendingD d (.resendNext a rem t) = s.drained
              rw [delivered_deliver]
              simp only [pendingD] at h1 ⊢
              by_cases hk : k = d
              · have hw : w d rem = 0 := by simp [hk] at hc1; omega
                simp [hk, hw] at h1 ⊢
                exact h1
              · by_cases hw : w d rem = 0
                · simpa [hk, hw] using h1
                · simpa [hk, hw] using h1, hlk⟩
            p2 := by simp [phase], dr := fun _ => hdr
            q := fun _ => hq, cf := fun _ => hcf
            c1 := by
              simp only [atMostOne]
              by_cases hk : k = d
              · simp [hk] at hc1; omega
              · simp [hk] at hc1; omega
            dc := hi.dc }
  | release =>
    rw [hpc] at hs
    obtain ⟨h1, _⟩ := hi.p1 (by rw [hpc]; rfl)
    have hdr := hi.dr (by rw [hpc]; simp [phase])
    have hcf := hi.cf (by rw [hpc]; simp)
    rw [hpc] at h1
    injection hs with hs
    subst hs
    exact { p0 := by simp [phase], p1 := by simp [phase]
            p2 := fun _ => ⟨[], by simpa [pendingD] using h1⟩
            dr := fun _ => hdr, q := by simp [phase], cf := fun _ => hcf, c1 := by simp [atMostOne], dc := hi.dc }
  | swap =>
    rw [hpc] at hs
    have h2 := hi.p2 (by rw [hpc]; rfl)
    have hdr := hi.dr (by rw [hpc]; simp [phase])
    injection hs with hs
    subst hs
    exact { p0 := by simp [phase], p1 := by simp [phase], p2 := fun _ => h2, dr := fun _ => hdr,
            q := by simp [phase], cf := by simp, c1 := by simp [atMostOne], dc := hi.dc }
  | extend =>
    rw [hpc] at hs
    have hcf := hi.cf (by rw [hpc]; simp)
    simp [hcf] at hs
  | done => rw [hpc] at hs; cases hs

theorem invO_run (n : Nat) (pre : List Nat) (prog : Nat → List Nat) (ds : List Nat) (d : Nat) (hd : ds.count d = 1)
    (sched : List Tid) : InvO pre d (run n (init pre prog ds) sched) :=
  (sys n).inv_run (InvO pre d) (fun s t s' h hs => by
    cases t with
    | logger i => exact invO_step_logger n pre d s i s' h hs
    | adder => exact invO_step_adder n pre d s s' h hs) _ (invO_init pre prog ds d hd) sched

end Eliot.Conc.HandoverFix

namespace Eliot.Conc.HandoverFix

/-- **handover_no_loss** (repaired skeleton): for any number of logging threads, any programs, any
messages buffered before, any destinations and *every schedule*: for each destination `d` of the
first add (occurring once in it) and each message id `m`, the number of times `d` has received `m`
plus the number of deliveries of `m` to `d` that are still owed - `m` pending in a thread, in flight,
in the buffer that drain() will take, or in drain()'s re-send loop - is the number of times `m` was
logged.  Hence when all threads have finished, `d` has received every logged message exactly as
often as it was logged: nothing lost, nothing duplicated. -/
theorem handover_no_loss (n : Nat) (pre : List Nat) (prog : Nat → List Nat) (ds : List Nat) (sched : List Tid)
    (d : Nat) (hd : ds.count d = 1) :
    let s := run n (init pre prog ds) sched
    (∀ m, (s.delivered d).count m + owed n d m s = total n pre prog m) ∧
    (Finished n s → ∀ m, (s.delivered d).count m = total n pre prog m) := by
  intro s
  have hi : Inv n pre prog d s := inv_run n pre prog ds d hd sched
  clear_value s
  refine ⟨hi.acct, ?_⟩
  intro hf m
  have h := hi.acct m
  obtain ⟨hl, ha⟩ := hf
  have hfw : s.forward = true := hi.pd (by rw [ha]; rfl)
  have hb : s.buf = [] := hi.fwdbuf hfw
  have hz : sumTo n (contrib d m s) = 0 := sumTo_zero (fun x hx => by
    obtain ⟨h1, h2⟩ := hl x hx
    simp [contrib, h1, h2, owedL])
  simp only [owed, hz, hb, ha, owedA, List.count_nil, Nat.add_zero] at h
  exact h

/-- **handover_no_overtake** (repaired skeleton): in every reachable state of every schedule the
sequence received by a destination of the first add starts with what the buffer held when drain()
took it over - the messages buffered before (`pre`) followed by those buffered meanwhile (`x`), in
buffer order - and everything else (`later`: messages logged during or after the hand-over) comes
after it; while the hand-over is still in progress the received sequence is a prefix of `pre ++ x`. -/
theorem handover_no_overtake (n : Nat) (pre : List Nat) (prog : Nat → List Nat) (ds : List Nat) (sched : List Tid)
    (d : Nat) (hd : ds.count d = 1) :
    let s := run n (init pre prog ds) sched
    (phase s.addPc = 2 → ∃ x later, s.delivered d = pre ++ x ++ later) ∧
    (phase s.addPc = 1 → ∃ x rest, s.delivered d ++ rest = pre ++ x) ∧
    (phase s.addPc = 0 → s.delivered d = []) := by
  intro s
  have hi : InvO pre d s := invO_run n pre prog ds d hd sched
  clear_value s
  refine ⟨?_, ?_, fun h => (hi.p0 h).1⟩
  · intro h
    obtain ⟨later, hl⟩ := hi.p2 h
    obtain ⟨x, hx⟩ := hi.dr (by omega)
    exact ⟨x, later, by rw [hl, hx]⟩
  · intro h
    obtain ⟨x, hx⟩ := hi.dr (by omega)
    exact ⟨x, pendingD d s.addPc, by rw [(hi.p1 h).1, hx]⟩

/-- while drain() holds the buffer's lock no logging thread delivers to a real destination or forwards -/
theorem handover_drain_exclusive (n : Nat) (pre : List Nat) (prog : Nat → List Nat) (ds : List Nat) (sched : List Tid)
    (d : Nat) (hd : ds.count d = 1) :
    let s := run n (init pre prog ds) sched
    phase s.addPc ≤ 1 → ∀ i, quiet (s.logPc i) = true :=
  (invO_run n pre prog ds d hd sched).q

/-! Non-vacuity: the schedules that lose / reorder on the old skeleton, on the repaired model. -/
def demo (sched : List Tid) : State := run 1 (init [1, 2] (fun i => if i = 0 then [7] else []) [0]) sched
/-- logger obtains the old list, the adder runs the whole first add, the logger continues: forwarded -/
example : (demo ([.logger 0, .logger 0] ++ List.replicate 40 Tid.adder ++ List.replicate 12 (Tid.logger 0))).delivered 0 = [1, 2, 7] := by decide
/-- logger arrives at the buffer while drain() holds the lock: it waits, then is forwarded after 1, 2 -/
example : (demo (List.replicate 8 Tid.adder ++ List.replicate 6 (Tid.logger 0) ++ List.replicate 40 Tid.adder ++
    List.replicate 12 (Tid.logger 0))).delivered 0 = [1, 2, 7] := by decide
example : (demo (List.replicate 8 Tid.adder ++ List.replicate 6 (Tid.logger 0) ++ List.replicate 40 Tid.adder ++
    List.replicate 12 (Tid.logger 0))).addPc = .done := by decide

end Eliot.Conc.HandoverFix
