import Eliot.Model.File
/-! C11: what a crash leaves on disk (`crash_prefix`, `acked_after`), what the reader gives back
(`reader_drops_only_fragment`) and both together (`crash_readable`).  No Mathlib. -/
namespace EJ

/-- what a crash may leave of the line being written: a proper prefix of it -/
def ProperPrefix (frag l : List Nat) : Prop := ∃ t, t ≠ [] ∧ l = frag ++ t

/-! ### running steps -/

theorem runSteps_nil (s : FS) : runSteps s [] = s := rfl

theorem runSteps_cons (s : FS) (x : Step) (r : List Step) :
    runSteps s (x :: r) = runSteps (Step.run s x) r := rfl

theorem runSteps_append (s : FS) (a b : List Step) :
    runSteps s (a ++ b) = runSteps (runSteps s a) b := by
  simp [runSteps, List.foldl_append]

theorem flatten_take_succ (lines : List (List Nat)) (j : Nat) (l : List Nat)
    (h : lines[j]? = some l) :
    (lines.take (j + 1)).flatten = (lines.take j).flatten ++ l := by
  simp [List.take_add_one, h]

/-! ### the invariant -/

/-- the statement of `crash_prefix` for an arbitrary state -/
def CrashGood (lines : List (List Nat)) (s : FS) : Prop :=
  ∃ a frag, s.disk = (lines.take a).flatten ++ frag ∧ s.acked ≤ a ∧ a ≤ lines.length
    ∧ (frag = [] ∨ ∃ l, lines[a]? = some l ∧ ProperPrefix frag l)

/-- between two logging calls: `j` lines on disk, nothing buffered, `j` acknowledged -/
def CrashIdle (lines : List (List Nat)) (j : Nat) (s : FS) : Prop :=
  s.buf = [] ∧ s.disk = (lines.take j).flatten ∧ s.acked = j ∧ j ≤ lines.length

/-- inside the logging call for line `l` (number `j`): `n` bytes of it have reached the disk -/
def CrashMid (lines : List (List Nat)) (j : Nat) (l : List Nat) (n : Nat) (s : FS) : Prop :=
  s.disk = (lines.take j).flatten ++ l.take n ∧ s.buf = l.drop n ∧ s.acked = j

theorem idle_good {lines : List (List Nat)} {j : Nat} {s : FS} (h : CrashIdle lines j s) :
    CrashGood lines s := by
  obtain ⟨_, hd, ha, hj⟩ := h
  exact ⟨j, [], by simp [hd], by omega, hj, Or.inl rfl⟩

theorem mid_good {lines : List (List Nat)} {j : Nat} {l : List Nat} {n : Nat} {s : FS}
    (hl : lines[j]? = some l) (h : CrashMid lines j l n s) : CrashGood lines s := by
  obtain ⟨hd, _, ha⟩ := h
  have hj : j < lines.length := by
    obtain ⟨hlt, _⟩ := List.getElem?_eq_some_iff.mp hl
    exact hlt
  by_cases hn : n < l.length
  · refine ⟨j, l.take n, hd, by omega, by omega, Or.inr ⟨l, hl, l.drop n, ?_, ?_⟩⟩
    · intro h0
      have := List.drop_eq_nil_iff.mp h0
      omega
    · exact (List.take_append_drop n l).symm
  · refine ⟨j + 1, [], ?_, by omega, by omega, Or.inl rfl⟩
    rw [hd, flatten_take_succ lines j l hl, List.take_of_length_le (Nat.le_of_not_lt hn)]
    simp

theorem mid_spills (lines : List (List Nat)) (j : Nat) (l : List Nat) :
    ∀ (cs : List Nat) (n : Nat) (s : FS), CrashMid lines j l n s →
      ∃ n', CrashMid lines j l n' (runSteps s (cs.map Step.spill)) := by
  intro cs
  induction cs with
  | nil => intro n s h; exact ⟨n, h⟩
  | cons m cs ih =>
    intro n s h
    obtain ⟨hd, hb, ha⟩ := h
    rw [List.map_cons, runSteps_cons]
    apply ih (n + m)
    refine ⟨?_, ?_, ?_⟩
    · simp [Step.run, hd, hb, List.take_add, List.append_assoc]
    · simp [Step.run, hb, List.drop_drop]
    · simp [Step.run, ha]

/-- the tail `flush(); return` of a logging call, cut anywhere -/
theorem mid_tail_good {lines : List (List Nat)} {j : Nat} {l : List Nat} {n : Nat} {s : FS}
    (hl : lines[j]? = some l) (h : CrashMid lines j l n s) (m : Nat) :
    CrashGood lines (runSteps s ([Step.spillAll, Step.ack].take m)) := by
  have hj : j < lines.length := by
    obtain ⟨hlt, _⟩ := List.getElem?_eq_some_iff.mp hl
    exact hlt
  obtain ⟨hd, hb, ha⟩ := h
  have hfull : s.disk ++ s.buf = (lines.take (j + 1)).flatten := by
    rw [hd, hb, flatten_take_succ lines j l hl, List.append_assoc, List.take_append_drop]
  match m with
  | 0 => exact mid_good hl ⟨hd, hb, ha⟩
  | 1 =>
    refine ⟨j + 1, [], ?_, ?_, by omega, Or.inl rfl⟩
    · simp [runSteps, Step.run, hfull]
    · simp [runSteps, Step.run, ha]
  | m + 2 =>
    refine ⟨j + 1, [], ?_, ?_, by omega, Or.inl rfl⟩
    · simp [runSteps, Step.run, hfull]
    · simp [runSteps, Step.run, ha]

theorem append_mid {lines : List (List Nat)} {j : Nat} {s : FS} (l : List Nat)
    (h : CrashIdle lines j s) : CrashMid lines j l 0 (Step.run s (.append l)) := by
  obtain ⟨hb, hd, ha, _⟩ := h
  refine ⟨?_, ?_, ?_⟩ <;> simp [Step.run, hb, hd, ha]

/-- (1) cutting a logging call anywhere leaves a good disk -/
theorem call_prefix_good {lines : List (List Nat)} {j : Nat} {l : List Nat} {s : FS}
    (hl : lines[j]? = some l) (h : CrashIdle lines j s) (cs : List Nat) (k : Nat) :
    CrashGood lines (runSteps s ((callSteps l cs).take k)) := by
  cases k with
  | zero => simpa [runSteps] using idle_good h
  | succ k =>
    rw [callSteps, List.take_succ_cons, runSteps_cons, List.take_append, runSteps_append,
      ← List.map_take]
    obtain ⟨n', hn'⟩ := mid_spills lines j l (cs.take k) 0 _ (append_mid l h)
    exact mid_tail_good hl hn' _

/-- (2) a complete logging call leads from idle to idle -/
theorem call_full_idle {lines : List (List Nat)} {j : Nat} {l : List Nat} {s : FS}
    (hl : lines[j]? = some l) (h : CrashIdle lines j s) (cs : List Nat) :
    CrashIdle lines (j + 1) (runSteps s (callSteps l cs)) := by
  have hj : j < lines.length := by
    obtain ⟨hlt, _⟩ := List.getElem?_eq_some_iff.mp hl
    exact hlt
  rw [callSteps, runSteps_cons, runSteps_append]
  obtain ⟨n', hd, hb, ha⟩ := mid_spills lines j l cs 0 _ (append_mid l h)
  have hfull : (runSteps (Step.run s (.append l)) (cs.map Step.spill)).disk
      ++ (runSteps (Step.run s (.append l)) (cs.map Step.spill)).buf
      = (lines.take (j + 1)).flatten := by
    rw [hd, hb, flatten_take_succ lines j l hl, List.append_assoc, List.take_append_drop]
  refine ⟨?_, ?_, ?_, by omega⟩
  · simp [runSteps, Step.run]
  · simpa [runSteps, Step.run] using hfull
  · simpa [runSteps, Step.run] using ha

/-- (3) the whole run, cut anywhere, generalised over the start -/
theorem logAll_prefix_good (lines : List (List Nat)) :
    ∀ (suf pre : List (List Nat)) (css : List (List Nat)) (s : FS) (k : Nat),
      lines = pre ++ suf → CrashIdle lines pre.length s →
      CrashGood lines (runSteps s ((logAll suf css).take k)) := by
  intro suf
  induction suf with
  | nil =>
    intro pre css s k _ h
    simpa [logAll, runSteps] using idle_good h
  | cons l suf ih =>
    intro pre css s k hlines h
    have hl : lines[pre.length]? = some l := by simp [hlines]
    rw [logAll, List.take_append, runSteps_append]
    by_cases hk : k ≤ (callSteps l (css.headD [])).length
    · have h0 : k - (callSteps l (css.headD [])).length = 0 := by omega
      rw [h0, List.take_zero, runSteps_nil]
      exact call_prefix_good hl h _ k
    · rw [List.take_of_length_le (by omega)]
      have h' := call_full_idle hl h (css.headD [])
      have := ih (pre ++ [l]) css.tail _ (k - (callSteps l (css.headD [])).length)
        (by simp [hlines]) (by rw [List.length_append]; exact h')
      exact this

/-- At any crash point the disk holds the complete lines of a prefix of the messages, covering at
least the acknowledged ones, plus nothing or a proper prefix of the next line. -/
theorem crash_prefix (lines css : List (List Nat)) (k : Nat) :
    ∃ a frag, (crash k (logAll lines css)).disk = (lines.take a).flatten ++ frag
      ∧ (crash k (logAll lines css)).acked ≤ a ∧ a ≤ lines.length
      ∧ (frag = [] ∨ ∃ l, lines[a]? = some l ∧ ProperPrefix frag l) := by
  have := logAll_prefix_good lines lines [] css {} k (by simp) (by simp [CrashIdle])
  exact this

/-! ### acknowledgements -/

theorem acked_mono (steps : List Step) : ∀ s : FS, s.acked ≤ (runSteps s steps).acked := by
  induction steps with
  | nil => intro s; exact Nat.le_refl _
  | cons x r ih =>
    intro s
    rw [runSteps_cons]
    refine Nat.le_trans ?_ (ih _)
    cases x <;> simp [Step.run]

theorem acked_spills (cs : List Nat) :
    ∀ s : FS, (runSteps s (cs.map Step.spill)).acked = s.acked := by
  induction cs with
  | nil => intro s; rfl
  | cons m cs ih => intro s; rw [List.map_cons, runSteps_cons, ih]; simp [Step.run]

theorem acked_callSteps (l : List Nat) (cs : List Nat) (s : FS) :
    (runSteps s (callSteps l cs)).acked = s.acked + 1 := by
  rw [callSteps, runSteps_cons, runSteps_append]
  simp [runSteps, Step.run]
  exact acked_spills cs _

theorem acked_logAll (ls : List (List Nat)) :
    ∀ (css : List (List Nat)) (s : FS), (runSteps s (logAll ls css)).acked = s.acked + ls.length := by
  induction ls with
  | nil => intro css s; rfl
  | cons l ls ih =>
    intro css s
    rw [logAll, runSteps_append, ih, acked_callSteps, List.length_cons]
    omega

theorem logAll_append (pre : List (List Nat)) :
    ∀ (suf css : List (List Nat)),
      logAll (pre ++ suf) css = logAll pre css ++ logAll suf (css.drop pre.length) := by
  induction pre with
  | nil => intro suf css; simp [logAll]
  | cons l pre ih =>
    intro suf css
    rw [List.cons_append, logAll, logAll, ih, List.append_assoc]
    simp

/-- every logging call that returned is counted: after all micro-steps of the first `j` calls, `acked ≥ j` -/
theorem acked_after (lines css : List (List Nat)) (j k : Nat) (hj : j ≤ lines.length)
    (hk : (logAll (lines.take j) css).length ≤ k) :
    j ≤ (crash k (logAll lines css)).acked := by
  have hsplit : logAll lines css
      = logAll (lines.take j) css ++ logAll (lines.drop j) (css.drop (lines.take j).length) := by
    rw [← logAll_append, List.take_append_drop]
  rw [crash, hsplit, List.take_append, List.take_of_length_le hk, runSteps_append]
  refine Nat.le_trans ?_ (acked_mono _ _)
  rw [acked_logAll, List.length_take]
  show j ≤ 0 + min j lines.length
  omega

/-! ### the reader -/

theorem readLinesAux_line (l rest : List Nat) (h : 10 ∉ l) :
    ∀ cur, readLinesAux (l ++ 10 :: rest) cur = (cur.reverse ++ l) :: readLinesAux rest [] := by
  induction l with
  | nil => intro cur; simp [readLinesAux]
  | cons c l ih =>
    intro cur
    have hc : c ≠ 10 := by intro e; apply h; simp [e]
    have hl : 10 ∉ l := by intro e; apply h; simp [e]
    simp [readLinesAux, hc, ih hl, List.append_assoc]

theorem readLinesAux_frag (frag : List Nat) (h : 10 ∉ frag) :
    ∀ cur, readLinesAux frag cur = [] := by
  induction frag with
  | nil => intro cur; simp [readLinesAux]
  | cons c l ih =>
    intro cur
    have hc : c ≠ 10 := by intro e; apply h; simp [e]
    have hl : 10 ∉ l := by intro e; apply h; simp [e]
    simp [readLinesAux, hc, ih hl]

/-- the reader gives back exactly the complete lines and drops the newline-free fragment -/
theorem reader_drops_only_fragment (ls : List (List Nat)) (frag : List Nat)
    (h : ∀ l ∈ ls, 10 ∉ l) (hf : 10 ∉ frag) :
    readLines ((ls.map (· ++ [10])).flatten ++ frag) = ls := by
  unfold readLines
  induction ls with
  | nil => simpa using readLinesAux_frag frag hf []
  | cons l ls ih =>
    have hl : 10 ∉ l := h l (by simp)
    have hls : ∀ l' ∈ ls, 10 ∉ l' := fun l' hm => h l' (by simp [hm])
    have e : ((l :: ls).map (· ++ [10])).flatten ++ frag
        = l ++ 10 :: ((ls.map (· ++ [10])).flatten ++ frag) := by simp
    rw [e, readLinesAux_line l _ hl, ih hls]
    simp

/-! ### both together -/

/-- a proper prefix of `p ++ [10]` is a prefix of `p` -/
theorem properPrefix_newline_free {frag p : List Nat} (hp : 10 ∉ p)
    (h : ProperPrefix frag (p ++ [10])) : 10 ∉ frag := by
  obtain ⟨t, ht, e⟩ := h
  rcases List.append_eq_append_iff.mp e with ⟨as, hfrag, h10⟩ | ⟨bs, hpe, _⟩
  · cases as with
    | nil => simpa [hfrag] using hp
    | cons x as =>
      simp at h10
      exact absurd h10.2.2 ht
  · intro hm
    apply hp
    rw [hpe]
    exact List.mem_append_left _ hm

/-- both together, for lines that are newline-free payloads each followed by one newline -/
theorem crash_readable (payloads css : List (List Nat)) (k : Nat) (h : ∀ p ∈ payloads, 10 ∉ p) :
    ∃ a, (crash k (logAll (payloads.map (· ++ [10])) css)).acked ≤ a ∧ a ≤ payloads.length
      ∧ readLines (crash k (logAll (payloads.map (· ++ [10])) css)).disk = payloads.take a := by
  obtain ⟨a, frag, hd, hack, hle, hfrag⟩ := crash_prefix (payloads.map (· ++ [10])) css k
  refine ⟨a, hack, by simpa using hle, ?_⟩
  rw [hd, ← List.map_take]
  apply reader_drops_only_fragment
  · intro l hm
    exact h l (List.mem_of_mem_take hm)
  · rcases hfrag with rfl | ⟨l, hl, hpp⟩
    · simp
    · rw [List.getElem?_map] at hl
      cases hpa : payloads[a]? with
      | none => simp [hpa] at hl
      | some p =>
        simp [hpa] at hl
        subst hl
        exact properPrefix_newline_free (h p (List.mem_of_getElem? hpa)) hpp

end EJ
